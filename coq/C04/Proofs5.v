(* C04 proofs, part 5: one write-out from any state satisfying the invariant, then histories. *)
From Coq Require Import List ZArith NArith Bool Arith Lia.
From GoProbe.Base Require Import CorrLib.
From GoProbe.C04 Require Import Model Proofs ProofsCols Proofs2 Proofs3 Proofs4.
Import ListNotations.

Lemma tot_eqb_refl x : tot_eqb x x = true.
Proof. destruct x; unfold tot_eqb; cbn. now rewrite !N.eqb_refl. Qed.
Lemma otot_eqb_refl x : otot_eqb x x = true.
Proof. destruct x; cbn; auto using tot_eqb_refl. Qed.

Lemma safe_month p m s w : Forall (op_safe p m) (month_ops s w).
Proof. unfold month_ops. destruct (has_up _ _); repeat constructor. Qed.
Lemma safe_closes p0 m p w : Forall (op_safe p0 m) (col_closes p w).
Proof. apply Forall_flat_map_in; intros c _. destruct (Nat.eqb _ _); repeat constructor. Qed.
Lemma closes_nowrite p w c : Forall (fun o => ~ writes_col o c) (col_closes p w).
Proof. apply Forall_flat_map_in; intros c' _. destruct (Nat.eqb _ _); repeat constructor; cbn; auto. Qed.
Lemma safe_colops p m w : Forall (op_safe p m) (flat_map (col_ops p m w) cols).
Proof. apply Forall_flat_map_in; intros c Hc. apply col_ops_safe. now apply in_cols. Qed.
Lemma safe_mkdir p m s w : dp_key p = w_key w -> m = new_meta -> Forall (op_safe p m) (mkdir_ops s w).
Proof.
  intros K E. unfold mkdir_ops. repeat (apply Forall_app; split); try (destruct (has_up _ _)); repeat constructor.
  cbn. auto.
Qed.

(* a write-out = safe operations P1 after which the day directory exists, the column phase, the commit tail *)
Lemma wo_split P1 s a w p :
  let m0 := cur_meta a (w_key w) in
  Forall (op_safe p m0) P1 -> Inv s a -> mstate s p m0 -> (exists d, day_at (apply_all s P1) p = Some d) ->
  dp_key p = w_key w -> put_ok a w = true -> wf_w w ->
  let ops := (P1 ++ flat_map (col_ops p m0 w) cols ++ col_closes p w) ++ commit_ops p m0 w in
  (forall k, outcome ops k (apply_all s (firstn k ops)) a w) /\ Inv (apply_all s ops) (adb_put a w).
Proof.
  intros m0 F1 I MS [d D] K PO WF ops.
  set (P := P1 ++ flat_map (col_ops p m0 w) cols ++ col_closes p w).
  assert (F : Forall (op_safe p m0) P).
  { unfold P. apply Forall_app; split; [exact F1|apply Forall_app; split; [apply safe_colops|apply safe_closes]]. }
  destruct (run_safe None p m0 P F s a I MS) as (I1 & MS1 & _).
  (* the new blocks are in place after the column phase and survive the closes *)
  destruct (run_safe None p m0 P1 F1 s a I MS) as (IP1 & MP1 & _).
  assert (NBs : forall c, c < ncols -> nb (apply_all s P) p m0 w c).
  { intros c Hc. unfold P. rewrite !apply_all_app.
    apply (nb_kept None p m0 w c _ _ a); auto using safe_closes, closes_nowrite.
    - apply (run_inv None p m0); auto using safe_colops.
    - apply (run_safe None p m0 _ (safe_colops p m0 w) _ a IP1 MP1).
    - apply (cols_phase None p m0 w cols) with (a := a); eauto.
      + apply seq_NoDup.
      + intros c0. apply in_cols.
      + now apply in_cols. }
  destruct (NBs 0 ltac:(unfold ncols; lia)) as (d1 & D1 & _).
  assert (NB1 : forall c, c < ncols -> read_col d1 c (nth c (m_cur m0) 0) (w_len w c) = Some (blk w c)).
  { intros c Hc. destruct (NBs c Hc) as (d' & D' & R). congruence. }
  destruct (commit_tail P _ _ _ _ _ I1 D1 K PO MS1 WF NB1) as [CT CF].
  split.
  - intros k. unfold ops. fold P. rewrite firstn_app, apply_all_app.
    destruct (Nat.le_gt_cases k (length P)) as [LE|GT].
    + replace (k - length P) with 0 by lia. cbn [firstn apply_all fold_left]. left. now apply (safe_prefix None p m0).
    + rewrite firstn_all2 by lia. replace k with (length P + (k - length P)) at 1 by lia. apply CT.
  - unfold ops. fold P. rewrite apply_all_app. exact CF.
Qed.

Lemma all_safe_outcome p m ops s a w : Forall (op_safe p m) ops -> Inv s a -> mstate s p m -> adb_put a w = a ->
  (forall k, outcome ops k (apply_all s (firstn k ops)) a w) /\ Inv (apply_all s ops) (adb_put a w).
Proof.
  intros F I MS E. split; [intros k; left; now apply (safe_prefix None p m)|]. rewrite E. now apply (run_inv None p m).
Qed.

Lemma mkdir_creates s w : lookup (w_key w) (f_days s) = None ->
  exists d, day_at (apply_all s (month_ops s w ++ mkdir_ops s w)) {| dp_key := w_key w; dp_suf := None |} = Some d.
Proof.
  intros L.
  assert (G : forall l s0, f_days s0 = f_days s ->
              Forall (fun o => match o with OMkdir (DUp _) | OOpenR (RMonth _ _ _) | OClose _ => True | _ => False end) l ->
              f_days (apply_all s0 l) = f_days s).
  { induction l as [|o l IH]; intros s0 E F; cbn; auto. inversion F; subst. apply IH; auto.
    destruct o as [[u|]|[]| | | | |f| | | | |]; try contradiction; cbn; auto. destruct (has_up s0 u); cbn; auto. }
  unfold mkdir_ops. rewrite !app_assoc. rewrite apply_all_app.
  set (s1 := apply_all s _).
  assert (E1 : f_days s1 = f_days s).
  { apply G; auto. unfold month_ops. repeat (apply Forall_app; split); repeat (destruct (has_up _ _)); repeat constructor. }
  unfold apply_all; cbn [fold_left apply dp_key dp_suf]. rewrite E1, L. cbn [fst].
  exists day_empty. unfold day_at; cbn [f_days dp_key dp_suf]. rewrite lookup_ins_same by auto. reflexivity.
Qed.


Lemma wo_prefix s a w : Inv s a -> wf_w w ->
  let ops := writeout_ops s w in
  (forall k, outcome ops k (apply_all s (firstn k ops)) a w) /\ Inv (apply_all s ops) (adb_put a w).
Proof.
  intros I WF. pose proof (inv_lookup _ _ _ (w_key w) I) as IL.
  unfold writeout_ops, writeout_run.
  destruct (lookup (w_key w) (f_days s)) as [d|] eqn:L.
  - set (p := {| dp_key := w_key w; dp_suf := d_suf d |}).
    assert (DA : day_at s p = Some d).
    { unfold day_at, p; cbn [dp_key dp_suf]. now rewrite L, otot_eqb_refl. }
    destruct (d_meta d) as [[m|]|] eqn:M.
    + (* the day has metadata *)
      destruct (lookup (w_key w) a) as [bl|] eqn:La.
      2:{ unfold visible in IL. rewrite M in IL. destruct (d_suf d); discriminate. }
      destruct IL as [_ (NE & HM & _)]. rewrite M in HM. injection HM as ->.
      assert (MS : mstate s p (meta_of bl)) by (eapply mstate_at; eauto).
      rewrite meta_has_ts_of. destruct (existsb _ bl) eqn:EX; cbn [fst].
      * apply (all_safe_outcome p (meta_of bl)); auto.
        -- apply Forall_app; split; [apply safe_month|repeat constructor].
        -- unfold adb_put. now rewrite La, EX.
      * assert (CM : cur_meta a (w_key w) = meta_of bl) by (unfold cur_meta; now rewrite La).
        rewrite <- CM in *.
        match goal with |- context [?A ++ ?B ++ ?Cs ++ ?Cl ++ ?Cm] =>
          replace (A ++ B ++ Cs ++ Cl ++ Cm) with (((A ++ B) ++ Cs ++ Cl) ++ Cm) by (now rewrite <- !app_assoc) end.
        apply wo_split; auto.
        -- apply Forall_app; split; [apply safe_month|repeat constructor].
        -- assert (F : Forall (op_safe p (cur_meta a (w_key w))) (month_ops s w ++ [OOpenR (RMeta p); OClose (RMeta p)]))
             by (apply Forall_app; split; [apply safe_month|repeat constructor]).
           destruct (run_safe None p _ _ F s a I MS) as (_ & _ & KK). destruct (KK _ _ DA) as (d' & D' & _). eauto.
        -- unfold put_ok. now rewrite La, EX.
    + (* undecodable metadata cannot occur under the invariant *)
      exfalso. destruct (lookup (w_key w) a).
      * destruct IL as [_ (_ & HM & _)]. congruence.
      * unfold visible in IL. rewrite M in IL. destruct (d_suf d); discriminate.
    + (* directory without metadata *)
      destruct (lookup (w_key w) a) as [bl|] eqn:La.
      { destruct IL as [_ (_ & HM & _)]. congruence. }
      cbn [fst].
      assert (CM : cur_meta a (w_key w) = new_meta) by (unfold cur_meta; now rewrite La).
      rewrite <- CM in *.
      assert (MS : mstate s p (cur_meta a (w_key w))).
      { intros d' D'. assert (d' = d) as -> by congruence. right. auto. }
      match goal with |- context [?A ++ ?B ++ ?Cs ++ ?Cl ++ ?Cm] =>
        replace (A ++ B ++ Cs ++ Cl ++ Cm) with (((A ++ B) ++ Cs ++ Cl) ++ Cm) by (now rewrite <- !app_assoc) end.
      apply wo_split; auto.
      * apply Forall_app; split; [apply safe_month|repeat constructor].
      * assert (F : Forall (op_safe p (cur_meta a (w_key w))) (month_ops s w ++ [OOpenR (RMeta p)]))
          by (apply Forall_app; split; [apply safe_month|repeat constructor]).
        destruct (run_safe None p _ _ F s a I MS) as (_ & _ & KK). destruct (KK _ _ DA) as (d' & D' & _). eauto.
      * unfold put_ok. now rewrite La.
  - (* no directory for that day *)
    destruct (lookup (w_key w) a) as [bl|] eqn:La; [contradiction|].
    cbn [fst]. set (p := {| dp_key := w_key w; dp_suf := None |}).
    assert (CM : cur_meta a (w_key w) = new_meta) by (unfold cur_meta; now rewrite La).
    rewrite <- CM in *.
    assert (MS : mstate s p (cur_meta a (w_key w))).
    { intros d' D'. unfold day_at, p in D'; cbn [dp_key] in D'. rewrite L in D'. discriminate. }
    match goal with |- context [?A ++ ?Mk ++ ?B ++ ?Cs ++ ?Cl ++ ?Cm] =>
      replace (A ++ Mk ++ B ++ Cs ++ Cl ++ Cm) with ((((A ++ Mk) ++ B) ++ Cs ++ Cl) ++ Cm) by (now rewrite <- !app_assoc) end.
    assert (F : Forall (op_safe p (cur_meta a (w_key w))) ((month_ops s w ++ mkdir_ops s w) ++ [OOpenR (RMeta p)])).
    { apply Forall_app; split; [apply Forall_app; split; [apply safe_month|apply safe_mkdir; auto]|repeat constructor]. }
    apply wo_split; auto.
    + destruct (mkdir_creates s w L) as [d0 D0]. fold p in D0.
      rewrite apply_all_app.
      assert (F1 : Forall (op_safe p (cur_meta a (w_key w))) (month_ops s w ++ mkdir_ops s w)).
      { apply Forall_app; split; [apply safe_month|apply safe_mkdir; auto]. }
      destruct (run_safe None p _ _ F1 s a I MS) as (I1 & M1 & _).
      assert (F2 : Forall (op_safe p (cur_meta a (w_key w))) [OOpenR (RMeta p)]) by (repeat constructor).
      destruct (run_safe None p _ _ F2 _ a I1 M1) as (_ & _ & KK). destruct (KK _ _ D0) as (d' & D' & _). eauto.
    + unfold put_ok. now rewrite La.
Qed.

(* ------------------------------------------------------------------ histories *)
Definition spec_db (a : adb) (ws : list writeout) : adb := fold_left adb_put ws a.

Lemma hist_full ws : Forall wf_w ws -> forall s a, Inv s a -> Inv (hist_state s ws) (spec_db a ws).
Proof.
  induction 1 as [|w r WF F IH]; intros s a I; cbn; auto.
  apply IH. now apply wo_prefix.
Qed.

Lemma stale_app_l O H k : k < length O -> stale_point (O ++ H) k = stale_point O k.
Proof. intros L. unfold stale_point. now rewrite nth_error_app1. Qed.
Lemma stale_app_r O H k : length O <= k -> stale_point (O ++ H) k = stale_point H (k - length O).
Proof. intros L. unfold stale_point. now rewrite nth_error_app2. Qed.
Lemma stale_lt ops k : stale_point ops k = true -> k < length ops.
Proof. unfold stale_point. destruct (nth_error ops k) eqn:E; [|discriminate]. intros _. apply nth_error_Some. congruence. Qed.

Lemma hist_prefix ws : Forall wf_w ws -> forall s a k, Inv s a -> k <= length (hist_ops s ws) ->
  stale_point (hist_ops s ws) k = false ->
  exists j, (j = completed s ws k \/ j = S (completed s ws k)) /\ j <= length ws /\
            Inv (apply_all s (firstn k (hist_ops s ws))) (spec_db a (firstn j ws)).
Proof.
  induction 1 as [|w r WF F IH]; intros s a k I LE NS; cbn [hist_ops completed] in *.
  - exists 0. cbn. replace k with 0 by (cbn in LE; lia). cbn. auto.
  - destruct (wo_prefix s a w I WF) as [WP WF'].
    set (O := writeout_ops s w) in *. set (s' := apply_all s O) in *.
    destruct (Nat.leb (length O) k) eqn:LK.
    + apply Nat.leb_le in LK. rewrite stale_app_r in NS by auto.
      rewrite app_length in LE.
      destruct (IH s' (adb_put a w) (k - length O) WF' ltac:(lia) NS) as (j & HJ & HL & HI).
      exists (S j). split; [destruct HJ as [->| ->]; auto|]. split; [cbn; lia|].
      rewrite firstn_app, firstn_all2, apply_all_app by lia. exact HI.
    + apply Nat.leb_gt in LK. rewrite stale_app_l in NS by auto.
      rewrite firstn_app. replace (k - length O) with 0 by lia. cbn [firstn]. rewrite app_nil_r.
      destruct (WP k) as [H|[H|[H _]]].
      * exists 0. cbn. auto with arith.
      * exists 1. cbn. split; auto. split; [lia|exact H].
      * congruence.
Qed.

Lemma inv_empty : Inv fs_empty [].
Proof. split; constructor. Qed.

Lemma crash_consistent ws k : Forall wf_w ws ->
  k <= length (hist_ops fs_empty ws) ->
  stale_point (hist_ops fs_empty ws) k = false ->
  exists j, (j = completed fs_empty ws k \/ j = S (completed fs_empty ws k)) /\ j <= length ws /\
    reader (apply_all fs_empty (firstn k (hist_ops fs_empty ws))) = Ok (spec_read_f (spec_db [] (firstn j ws))).
Proof.
  intros WF LE NS. destruct (hist_prefix ws WF fs_empty [] k inv_empty LE NS) as (j & HJ & HL & HI).
  exists j. repeat split; auto. now apply reader_ok.
Qed.

Lemma spec_db_app a l1 l2 : spec_db a (l1 ++ l2) = spec_db (spec_db a l1) l2.
Proof. unfold spec_db. now rewrite fold_left_app. Qed.

Lemma recovers ws k ws' : Forall wf_w ws -> Forall wf_w ws' ->
  k <= length (hist_ops fs_empty ws) ->
  stale_point (hist_ops fs_empty ws) k = false ->
  exists j, (j = completed fs_empty ws k \/ j = S (completed fs_empty ws k)) /\ j <= length ws /\
    reader (hist_state (apply_all fs_empty (firstn k (hist_ops fs_empty ws))) ws')
    = Ok (spec_read_f (spec_db [] (firstn j ws ++ ws'))).
Proof.
  intros WF WF' LE NS. destruct (hist_prefix ws WF fs_empty [] k inv_empty LE NS) as (j & HJ & HL & HI).
  exists j. repeat split; auto. apply reader_ok. rewrite spec_db_app. now apply hist_full.
Qed.

(* the refutation witness: two write-outs to one day, killed between the two renames of the second *)
Definition ex_tot (n : N) : totals := {| t_v4 := n; t_v6 := 0; t_dr := 0; t_br := 100 * n; t_bs := n; t_pr := n; t_ps := n |}.
Definition ex_w (id : nat) (ts : Z) : writeout :=
  {| w_id := id; w_if := 0; w_year := 2023; w_month := 11; w_day := 1699920000; w_ts := ts;
     w_lens := [4; 4; 1; 2; 3; 2; 2; 2]; w_renc := []; w_tot := ex_tot (N.of_nat (S id)) |}.
Definition ex_ws : list writeout := [ex_w 0 1700000100; ex_w 1 1700000400].
Definition ex_k : nat :=
  (* index of the ORenameDir of the second write-out *)
  (fix go (l : list fsop) (i : nat) (seen : nat) : nat :=
     match l with
     | [] => i
     | ORenameDir _ _ :: r => if Nat.eqb seen 1 then i else go r (S i) (S seen)
     | _ :: r => go r (S i) seen
     end) (hist_ops fs_empty ex_ws) 0 0.

Lemma ex_wf : Forall wf_w ex_ws.
Proof. repeat constructor; unfold wf_w; cbn; lia. Qed.

Lemma stale_refuted : exists ws k, Forall wf_w ws /\
  k <= length (hist_ops fs_empty ws) /\
  forall j, j <= length ws ->
    reader (apply_all fs_empty (firstn k (hist_ops fs_empty ws))) <> Ok (spec_read_f (spec_db [] (firstn j ws))).
Proof.
  exists ex_ws, ex_k. split; [exact ex_wf|]. split; [vm_compute; lia|].
  intros j Hj. assert (j = 0 \/ j = 1 \/ j = 2) as [->|[->| ->]] by (cbn in Hj; lia); vm_compute; discriminate.
Qed.

Lemma write_at_prefix old off data : off <= length old -> firstn off (write_at old off data) = firstn off old.
Proof.
  intros L. unfold write_at. rewrite firstn_app. rewrite firstn_length, Nat.min_l by lia.
  rewrite Nat.sub_diag. cbn [firstn]. rewrite app_nil_r. now rewrite firstn_firstn, Nat.min_id.
Qed.
