(* C04 / C05 model: the write-out of goDB as a list of file-system operations, and the reader as a
   function of the file-system state.  Executable definitions only (no proofs).

   Anchors: pkg/goDB/db_writer.go (DBWriter.Write), pkg/goDB/storage/gpfile/gpdir.go (NewDirWriter /
   genWritePathForTimestamp, Open, WriteBlocks, Close, writeMetadataAtomic, recoverDirPath),
   gpfile.go (open: Seek to CurrentOffset, writeBlock), pkg/goDB/DBWorkManager.go (walkDB,
   CreateWorkerJobs, readBlocksAndEvaluate, ReadMetadata).

   Abstractions (see NOTES.md): file CONTENTS are abstract - a column file is a list of abstract bytes
   (write-out id, column, index), `.blockmeta` is an abstract metadata value; directory NAMES are abstract -
   a day directory is (interface id, day timestamp, optional totals suffix); interfaces are numbers whose
   order is the order of their names.  No byte-level codec, no calendar: year/month are inputs. *)
From Coq Require Import List ZArith NArith Bool Arith.
From GoProbe.Base Require Import CorrLib.
Import ListNotations.

(* ------------------------------------------------------------------ totals (the 7 uint64 of a suffix) *)
Record totals := { t_v4 : N; t_v6 : N; t_dr : N; t_br : N; t_bs : N; t_pr : N; t_ps : N }.
Definition w64 (x : N) : N := N.modulo x 18446744073709551616%N.
Definition tot_zero : totals := {| t_v4 := 0; t_v6 := 0; t_dr := 0; t_br := 0; t_bs := 0; t_pr := 0; t_ps := 0 |}.
Definition tot_add (a b : totals) : totals :=
  {| t_v4 := w64 (t_v4 a + t_v4 b); t_v6 := w64 (t_v6 a + t_v6 b); t_dr := w64 (t_dr a + t_dr b);
     t_br := w64 (t_br a + t_br b); t_bs := w64 (t_bs a + t_bs b); t_pr := w64 (t_pr a + t_pr b);
     t_ps := w64 (t_ps a + t_ps b) |}.
Definition tot_eqb (a b : totals) : bool :=
  N.eqb (t_v4 a) (t_v4 b) && N.eqb (t_v6 a) (t_v6 b) && N.eqb (t_dr a) (t_dr b) && N.eqb (t_br a) (t_br b)
  && N.eqb (t_bs a) (t_bs b) && N.eqb (t_pr a) (t_pr b) && N.eqb (t_ps a) (t_ps b).
Definition otot_eqb (a b : option totals) : bool :=
  match a, b with Some x, Some y => tot_eqb x y | None, None => true | _, _ => false end.

(* ------------------------------------------------------------------ write-outs *)
Definition ncols : nat := 8.
Definition cols : list nat := seq 0 ncols.

(* one call of DBWriter.Write.  w_lens are the stored lengths of the 8 column blocks and w_renc tells for
   each column whether the compressed form was larger than the raw data so that the block was re-encoded
   uncompressed (writeBlock then seeks back to CurrentOffset first) - codec outputs, inputs of the
   protocol; w_tot is its contribution to the day totals. *)
Record writeout := { w_id : nat; w_if : N; w_year : Z; w_month : Z; w_day : Z; w_ts : Z;
                     w_lens : list nat; w_renc : list bool; w_tot : totals }.
Definition w_len (w : writeout) (c : nat) : nat := nth c (w_lens w) 0.
Definition dkey := (N * Z)%type.
Definition w_key (w : writeout) : dkey := (w_if w, w_day w).

Definition keqb (a b : dkey) : bool := N.eqb (fst a) (fst b) && Z.eqb (snd a) (snd b).
Definition kltb (a b : dkey) : bool :=
  N.ltb (fst a) (fst b) || (N.eqb (fst a) (fst b) && Z.ltb (snd a) (snd b)).

(* abstract bytes *)
Definition abyte := (nat * nat * nat)%type.          (* write-out id, column, index *)
Definition abyte_eqb (a b : abyte) : bool :=
  Nat.eqb (fst (fst a)) (fst (fst b)) && Nat.eqb (snd (fst a)) (snd (fst b)) && Nat.eqb (snd a) (snd b).
Definition pbytes (id c len : nat) : list abyte := map (fun i => (id, c, i)) (seq 0 len).
Definition hole : abyte := (0, 99, 0).

(* ------------------------------------------------------------------ metadata (.blockmeta, abstract) *)
Record mblock := { mb_ts : Z; mb_lens : list nat }.
Record meta := { m_blocks : list mblock; m_cur : list nat; m_tot : totals }.
Definition new_meta : meta := {| m_blocks := []; m_cur := repeat 0 ncols; m_tot := tot_zero |}.
Definition meta_add (m : meta) (w : writeout) : meta :=
  {| m_blocks := m_blocks m ++ [ {| mb_ts := w_ts w; mb_lens := map (w_len w) cols |} ];
     m_cur := map (fun c => nth c (m_cur m) 0 + w_len w c) cols;
     m_tot := tot_add (m_tot m) (w_tot w) |}.
Definition meta_of (bl : list writeout) : meta := fold_left meta_add bl new_meta.
Definition meta_has_ts (m : meta) (ts : Z) : bool := existsb (fun b => Z.eqb (mb_ts b) ts) (m_blocks m).
(* size of the serialised metadata: 72 + 8*8 + 8 + nBlocks*(8*9+16) *)
Definition meta_size (m : meta) : nat := 144 + 88 * length (m_blocks m).

(* ------------------------------------------------------------------ file system *)
Inductive updir := UI (i : N) | UY (i : N) (y : Z) | UM (i : N) (y m : Z).
Definition updir_eqb (a b : updir) : bool :=
  match a, b with
  | UI i, UI j => N.eqb i j
  | UY i y, UY j z => N.eqb i j && Z.eqb y z
  | UM i y m, UM j z n => N.eqb i j && Z.eqb y z && Z.eqb m n
  | _, _ => false
  end.

(* a day directory: name suffix, .blockmeta (Some None = present but not a valid metadata file),
   temp files (name id, content), column files *)
Record dayfs := { d_suf : option totals; d_meta : option (option meta);
                  d_tmps : list (nat * option meta); d_cols : nat -> option (list abyte) }.
Definition day_empty : dayfs := {| d_suf := None; d_meta := None; d_tmps := []; d_cols := fun _ => None |}.

Record fs := { f_up : list updir; f_days : list (dkey * dayfs) }.
Definition fs_empty : fs := {| f_up := []; f_days := [] |}.

Fixpoint lookup {A} (k : dkey) (l : list (dkey * A)) : option A :=
  match l with [] => None | (k', v) :: r => if keqb k k' then Some v else lookup k r end.
(* ReadDir returns names sorted: new entries are inserted in key order *)
Fixpoint ins {A} (k : dkey) (v : A) (l : list (dkey * A)) : list (dkey * A) :=
  match l with
  | [] => [(k, v)]
  | (k', v') :: r => if kltb k k' then (k, v) :: l else (k', v') :: ins k v r
  end.
Fixpoint upd {A} (k : dkey) (f : A -> A) (l : list (dkey * A)) : list (dkey * A) :=
  match l with
  | [] => []
  | (k', v) :: r => if keqb k k' then (k', f v) :: r else (k', v) :: upd k f r
  end.
Definition has_up (s : fs) (u : updir) : bool := existsb (updir_eqb u) (f_up s).

(* paths of the operations *)
Record dpath := { dp_key : dkey; dp_suf : option totals }.
Inductive fref := RMonth (i : N) (y m : Z) | RMeta (d : dpath) | RCol (d : dpath) (c : nat) | RTmp (d : dpath) (n : nat).
Inductive dirref := DUp (u : updir) | DDay (d : dpath).
Inductive wdata := WBytes (b : list abyte) | WMeta (m : meta) | WJunk (n : nat).

Inductive fsop :=
| OMkdir (d : dirref)
| OOpenR (f : fref)                    (* openat O_RDONLY (directory listing, metadata) *)
| OOpenW (f : fref)                    (* openat O_WRONLY|O_CREAT *)
| OOpenX (f : fref)                    (* openat O_RDWR|O_CREAT|O_EXCL (CreateTemp) *)
| OSeek (f : fref) (off : nat)
| OWrite (f : fref) (off : nat) (d : wdata)
| OClose (f : fref)
| OChmod (f : fref)
| ORename (src dst : fref)
| ORenameDir (src dst : dpath)
| OUnlink (f : fref)
| ORmdir (f : fref).

Definition write_at (old : list abyte) (off : nat) (data : list abyte) : list abyte :=
  firstn off old ++ repeat hole (off - length old) ++ data ++ skipn (off + length data) old.

Definition set_col (d : dayfs) (c : nat) (v : option (list abyte)) : dayfs :=
  {| d_suf := d_suf d; d_meta := d_meta d; d_tmps := d_tmps d;
     d_cols := fun c' => if Nat.eqb c' c then v else d_cols d c' |}.
Definition set_tmps (d : dayfs) (t : list (nat * option meta)) : dayfs :=
  {| d_suf := d_suf d; d_meta := d_meta d; d_tmps := t; d_cols := d_cols d |}.
Definition set_meta (d : dayfs) (m : option (option meta)) : dayfs :=
  {| d_suf := d_suf d; d_meta := m; d_tmps := d_tmps d; d_cols := d_cols d |}.
Definition set_suf (d : dayfs) (t : option totals) : dayfs :=
  {| d_suf := t; d_meta := d_meta d; d_tmps := d_tmps d; d_cols := d_cols d |}.

Fixpoint tmp_get (n : nat) (t : list (nat * option meta)) : option (option meta) :=
  match t with [] => None | (n', c) :: r => if Nat.eqb n n' then Some c else tmp_get n r end.
Definition tmp_del (n : nat) (t : list (nat * option meta)) := filter (fun e => negb (Nat.eqb n (fst e))) t.

(* the day directory a path refers to: it must exist under exactly that name *)
Definition day_at (s : fs) (p : dpath) : option dayfs :=
  match lookup (dp_key p) (f_days s) with
  | Some d => if otot_eqb (d_suf d) (dp_suf p) then Some d else None
  | None => None
  end.
Definition upd_day (s : fs) (p : dpath) (f : dayfs -> dayfs) : fs :=
  {| f_up := f_up s; f_days := upd (dp_key p) f (f_days s) |}.

(* apply : the effect of one operation and whether it succeeds (false = it returns an error, no effect) *)
Definition apply (s : fs) (o : fsop) : fs * bool :=
  match o with
  | OMkdir (DUp u) => if has_up s u then (s, false) else ({| f_up := f_up s ++ [u]; f_days := f_days s |}, true)
  | OMkdir (DDay p) =>
    match lookup (dp_key p) (f_days s), dp_suf p with
    | None, None => ({| f_up := f_up s; f_days := ins (dp_key p) day_empty (f_days s) |}, true)
    | _, _ => (s, false)
    end
  | OOpenR (RMonth i y m) => (s, has_up s (UM i y m))
  | OOpenR (RMeta p) => (s, match day_at s p with Some d => match d_meta d with Some _ => true | None => false end | None => false end)
  | OOpenR _ => (s, false)
  | OOpenW (RCol p c) =>
    match day_at s p with
    | Some d => (match d_cols d c with Some _ => s | None => upd_day s p (fun d => set_col d c (Some [])) end, true)
    | None => (s, false)
    end
  | OOpenW _ => (s, false)
  | OOpenX (RTmp p n) =>
    match day_at s p with
    | Some d => (upd_day s p (fun d => set_tmps d ((n, None) :: d_tmps d)), true)
    | None => (s, false)
    end
  | OOpenX _ => (s, false)
  | OSeek _ _ => (s, true)
  | OWrite (RCol p c) off (WBytes b) =>
    match day_at s p with
    | Some d => match d_cols d c with
                | Some old => (upd_day s p (fun d => set_col d c (Some (write_at old off b))), true)
                | None => (s, false)
                end
    | None => (s, false)
    end
  | OWrite (RTmp p n) _ dat =>
    match day_at s p with
    | Some d => (upd_day s p (fun d => set_tmps d ((n, match dat with WMeta m => Some m | _ => None end) :: tmp_del n (d_tmps d))), true)
    | None => (s, false)
    end
  | OWrite _ _ _ => (s, false)
  | OClose _ => (s, true)
  | OChmod (RTmp p n) =>
    (s, match day_at s p with Some d => match tmp_get n (d_tmps d) with Some _ => true | None => false end | None => false end)
  | OChmod _ => (s, false)
  | ORename (RTmp p n) (RMeta q) =>
    match day_at s p with
    | Some d => match tmp_get n (d_tmps d) with
                | Some c => (upd_day s p (fun d => set_tmps (set_meta d (Some c)) (tmp_del n (d_tmps d))), true)
                | None => (s, false)
                end
    | None => (s, false)
    end
  | ORename _ _ => (s, false)
  | ORenameDir p q =>
    match day_at s p with
    | Some d => (upd_day s p (fun d => set_suf d (dp_suf q)), true)
    | None => (s, false)
    end
  | OUnlink (RTmp p n) =>
    match day_at s p with
    | Some d => match tmp_get n (d_tmps d) with
                | Some _ => (upd_day s p (fun d => set_tmps d (tmp_del n (d_tmps d))), true)
                | None => (s, false)
                end
    | None => (s, false)
    end
  | OUnlink _ => (s, false)
  | ORmdir _ => (s, false)                     (* only ever issued on the (absent) temp file name *)
  end.

Definition apply_all (s : fs) (ops : list fsop) : fs := fold_left (fun s o => fst (apply s o)) ops s.
Fixpoint results (s : fs) (ops : list fsop) : list bool :=
  match ops with [] => [] | o :: r => snd (apply s o) :: results (fst (apply s o)) r end.

(* ------------------------------------------------------------------ the writer: DBWriter.Write as an op list *)
Definition col_ops (p : dpath) (m : meta) (w : writeout) (c : nat) : list fsop :=
  if Nat.eqb (w_len w c) 0 then []                               (* writeBlock: empty data, header only *)
  else [OOpenW (RCol p c); OSeek (RCol p c) (nth c (m_cur m) 0)]
       ++ (if nth c (w_renc w) false then [OSeek (RCol p c) (nth c (m_cur m) 0)] else [])   (* rewind before re-encoding *)
       ++ [OWrite (RCol p c) (nth c (m_cur m) 0) (WBytes (pbytes (w_id w) c (w_len w c)))].
Definition col_closes (p : dpath) (w : writeout) : list fsop :=
  flat_map (fun c => if Nat.eqb (w_len w c) 0 then [] else [OClose (RCol p c)]) cols.

(* the operations after Open() succeeded with metadata m on directory p *)
Definition commit_ops (p : dpath) (m : meta) (w : writeout) : list fsop :=
  let m' := meta_add m w in
  let t := RTmp p (w_id w) in
  [OOpenX t; OWrite t 0 (WMeta m'); OClose t; OChmod t; ORename t (RMeta p)]
  ++ (if otot_eqb (dp_suf p) (Some (m_tot m')) then []
      else [ORenameDir p {| dp_key := dp_key p; dp_suf := Some (m_tot m') |}])
  ++ [OUnlink t; ORmdir t].

Definition mkdir_ops (s : fs) (w : writeout) : list fsop :=
  (if has_up s (UI (w_if w)) then [] else [OMkdir (DUp (UI (w_if w)))])
  ++ (if has_up s (UY (w_if w) (w_year w)) then [] else [OMkdir (DUp (UY (w_if w) (w_year w)))])
  ++ (if has_up s (UM (w_if w) (w_year w) (w_month w)) then [] else [OMkdir (DUp (UM (w_if w) (w_year w) (w_month w)))])
  ++ [OMkdir (DDay {| dp_key := w_key w; dp_suf := None |})].

Definition month_ops (s : fs) (w : writeout) : list fsop :=
  let r := RMonth (w_if w) (w_year w) (w_month w) in
  OOpenR r :: (if has_up s (UM (w_if w) (w_year w) (w_month w)) then [OClose r] else []).

(* the complete fault-free operation list of one write-out in state s, and whether Write returns nil *)
Definition writeout_run (s : fs) (w : writeout) : list fsop * bool :=
  match lookup (w_key w) (f_days s) with
  | None =>                                 (* no directory for that day yet: MkdirAll, new metadata *)
    let p := {| dp_key := w_key w; dp_suf := None |} in
    (month_ops s w ++ mkdir_ops s w ++ [OOpenR (RMeta p)]
     ++ flat_map (col_ops p new_meta w) cols ++ col_closes p w ++ commit_ops p new_meta w, true)
  | Some d =>
    let p := {| dp_key := w_key w; dp_suf := d_suf d |} in
    match d_meta d with
    | None =>                               (* directory without metadata: new metadata *)
      (month_ops s w ++ [OOpenR (RMeta p)]
       ++ flat_map (col_ops p new_meta w) cols ++ col_closes p w ++ commit_ops p new_meta w, true)
    | Some None => (month_ops s w ++ [OOpenR (RMeta p); OClose (RMeta p)], false)   (* undecodable metadata *)
    | Some (Some m) =>
      if meta_has_ts m (w_ts w)
      then (month_ops s w ++ [OOpenR (RMeta p); OClose (RMeta p)], false)           (* timestamp already present *)
      else (month_ops s w ++ [OOpenR (RMeta p); OClose (RMeta p)]
            ++ flat_map (col_ops p m w) cols ++ col_closes p w ++ commit_ops p m w, true)
    end
  end.
Definition writeout_ops (s : fs) (w : writeout) : list fsop := fst (writeout_run s w).

Fixpoint hist_ops (s : fs) (ws : list writeout) : list fsop :=
  match ws with
  | [] => []
  | w :: r => writeout_ops s w ++ hist_ops (apply_all s (writeout_ops s w)) r
  end.
Fixpoint hist_state (s : fs) (ws : list writeout) : fs :=
  match ws with [] => s | w :: r => hist_state (apply_all s (writeout_ops s w)) r end.
(* number of write-outs completely inside the first k operations *)
Fixpoint completed (s : fs) (ws : list writeout) (k : nat) : nat :=
  match ws with
  | [] => 0
  | w :: r => let n := length (writeout_ops s w) in
              if Nat.leb n k then S (completed (apply_all s (writeout_ops s w)) r (k - n)) else 0
  end.

(* ------------------------------------------------------------------ the reader *)
(* walkDB (after the fix: a day directory without a name suffix and without .blockmeta is skipped) *)
Definition visible (d : dayfs) : bool :=
  match d_suf d, d_meta d with None, None => false | _, _ => true end.

(* offsets of the blocks of column c as recomputed by Unmarshal (running sum of the lengths) *)
Fixpoint block_offs (c : nat) (bs : list mblock) (off : nat) : list (mblock * nat) :=
  match bs with [] => [] | b :: r => (b, off) :: block_offs c r (off + nth c (mb_lens b) 0) end.

(* read one column block: None = broken (missing file, short read) *)
Definition read_col (d : dayfs) (c off len : nat) : option (list abyte) :=
  if Nat.eqb len 0 then Some []
  else match d_cols d c with
       | None => None
       | Some f => let r := firstn len (skipn off f) in if Nat.eqb (length r) len then Some r else None
       end.

Fixpoint list_eqb {A} (e : A -> A -> bool) (a b : list A) : bool :=
  match a, b with [] , [] => true | x :: r, y :: q => e x y && list_eqb e r q | _, _ => false end.

(* identify the write-out a block belongs to: every column must hold exactly that write-out's bytes *)
Definition decode_block (datas : list (list abyte)) (lens : list nat) : option nat :=
  match nth 4 datas [] with                       (* bytes_rcvd is never empty *)
  | (id, _, _) :: _ =>
    if forallb (fun c => list_eqb abyte_eqb (nth c datas []) (pbytes id c (nth c lens 0))) cols then Some id else None
  | [] => None
  end.

Fixpoint offs_upto (c : nat) (bs : list mblock) : nat :=
  match bs with [] => 0 | b :: r => nth c (mb_lens b) 0 + offs_upto c r end.

(* blocks of one day as seen by a query with attribute `time`: (block timestamp, write-out id);
   blocks without flows (empty sip column) yield no rows; broken blocks are skipped *)
Fixpoint day_blocks (d : dayfs) (prev : list mblock) (bs : list mblock) : list (Z * nat) :=
  match bs with
  | [] => []
  | b :: r =>
    let datas := map (fun c => read_col d c (offs_upto c prev) (nth c (mb_lens b) 0)) cols in
    let rest := day_blocks d (prev ++ [b]) r in
    if Nat.eqb (nth 0 (mb_lens b) 0) 0 then rest
    else if forallb (fun x => match x with Some _ => true | None => false end) datas
         then match decode_block (map (fun x => match x with Some l => l | None => [] end) datas) (mb_lens b) with
              | Some id => (mb_ts b, id) :: rest
              | None => (mb_ts b, 999) :: rest       (* readable but not the written content *)
              end
         else rest
  end.

Record dayview := { dv_if : N; dv_blocks : list (Z * nat); dv_tot : totals }.

(* open a visible day: metadata must be there and decodable; TimeRange() indexes block 0 *)
Definition read_day (kd : dkey * dayfs) : res dayview :=
  let (k, d) := kd in
  match d_meta d with
  | Some (Some m) =>
    match m_blocks m with
    | [] => Panic
    | _ => Ok {| dv_if := fst k; dv_blocks := day_blocks d [] (m_blocks m);
                 dv_tot := match d_suf d with Some t => t | None => m_tot m end |}
    end
  | _ => Err
  end.

Fixpoint read_days (l : list (dkey * dayfs)) : res (list dayview) :=
  match l with
  | [] => Ok []
  | kd :: r => res_bind (read_day kd) (fun v => res_bind (read_days r) (fun vs => Ok (v :: vs)))
  end.

Fixpoint acc_add (i : N) (t : totals) (acc : list (N * totals)) : list (N * totals) :=
  match acc with
  | [] => [(i, t)]
  | (j, u) :: r => if N.eqb i j then (j, tot_add u t) :: r else (j, u) :: acc_add i t r
  end.

Definition view := list (N * Z * nat).               (* interface, block timestamp, write-out id *)
Definition listing := list (N * totals).             (* interface, totals (ReadMetadata) *)
Definition view_of (vs : list dayview) : view := flat_map (fun v => map (fun b => (dv_if v, fst b, snd b)) (dv_blocks v)) vs.
Definition listing_of (vs : list dayview) : listing := fold_left (fun acc v => acc_add (dv_if v) (dv_tot v) acc) vs [].

Definition reader (s : fs) : res (view * listing) :=
  res_bind (read_days (filter (fun kd => visible (snd kd)) (f_days s)))
           (fun vs => Ok (view_of vs, listing_of vs)).

(* ------------------------------------------------------------------ the specification side *)
(* abstract database: day -> committed write-outs, days in key order *)
Definition adb := list (dkey * list writeout).
Definition adb_add (a : adb) (w : writeout) : adb :=
  match lookup (w_key w) a with
  | Some _ => upd (w_key w) (fun bl => bl ++ [w]) a
  | None => ins (w_key w) [w] a
  end.
Definition adb_of (ws : list writeout) : adb := fold_left adb_add ws [].
Definition tots_of (bl : list writeout) : totals := fold_left (fun t w => tot_add t (w_tot w)) bl tot_zero.
Definition spec_day (kb : dkey * list writeout) : dayview :=
  {| dv_if := fst (fst kb);
     dv_blocks := map (fun w => (w_ts w, w_id w)) (filter (fun w => negb (Nat.eqb (w_len w 0) 0)) (snd kb));
     dv_tot := tots_of (snd kb) |}.
Definition spec_view (a : adb) : view := view_of (map spec_day a).
Definition spec_listing (a : adb) : listing := listing_of (map spec_day a).

(* ------------------------------------------------------------------ faults (C05) *)
(* what the writer does when operation k returns an error *)
Inductive fclass := FIgnored | FFatal | FAfterCommit.
(* (a failing ReadDir of the month directory is fatal since the fix "report a failed listing of the month
   directory": Open returns the error before anything is created) *)
Definition classify (o : fsop) : fclass :=
  match o with
  | OClose (RMonth _ _ _) => FIgnored             (* ReadDir: deferred Close, error dropped *)
  | OUnlink _ | ORmdir _ => FIgnored              (* deferred Remove of the (already renamed) temp file *)
  | ORenameDir _ _ => FAfterCommit                (* metadata already switched *)
  | _ => FFatal
  end.
Definition tmp_created (ops : list fsop) : option fref :=
  match find (fun o => match o with OOpenX _ => true | _ => false end) ops with
  | Some (OOpenX t) => Some t
  | _ => None
  end.
(* operations issued when op k (0-based) fails, and whether Write returns nil *)
Definition fault_run (ops : list fsop) (k : nat) : list fsop * bool :=
  match nth_error ops k with
  | None => (ops, true)
  | Some o =>
    match classify o with
    | FIgnored => (firstn k ops ++ skipn (S k) ops, true)
    | FFatal => (firstn k ops ++ match tmp_created (firstn k ops) with Some t => [OUnlink t] | None => [] end, false)
    | FAfterCommit => (firstn k ops ++ skipn (S k) ops, false)
    end
  end.

(* ------------------------------------------------------------------ equality tests used by Corr *)
Definition view_eqb (a b : view) : bool :=
  list_eqb (fun x y => N.eqb (fst (fst x)) (fst (fst y)) && Z.eqb (snd (fst x)) (snd (fst y)) && Nat.eqb (snd x) (snd y)) a b.
Definition listing_eqb (a b : listing) : bool :=
  list_eqb (fun x y => N.eqb (fst x) (fst y) && tot_eqb (snd x) (snd y)) a b.
Definition nz_listing (l : listing) : listing := filter (fun e => negb (tot_eqb (snd e) tot_zero)) l.

(* ------------------------------------------------------------------ the reader, metadata level *)
(* The same walk (visibility, Open, TimeRange, directory-name totals) without reading the column files:
   which blocks (timestamps) a query visits and what the listing reports.  `reader` refines it:
   view = the blocks of reader_meta whose column data could be read. *)
Record dayview_m := { dm_if : N; dm_blocks : list Z; dm_tot : totals }.
Definition read_day_meta (kd : dkey * dayfs) : res dayview_m :=
  let (k, d) := kd in
  match d_meta d with
  | Some (Some m) =>
    match m_blocks m with
    | [] => Panic
    | _ => Ok {| dm_if := fst k;
                 dm_blocks := map mb_ts (filter (fun b => negb (Nat.eqb (nth 0 (mb_lens b) 0) 0)) (m_blocks m));
                 dm_tot := match d_suf d with Some t => t | None => m_tot m end |}
    end
  | _ => Err
  end.
Fixpoint read_days_meta (l : list (dkey * dayfs)) : res (list dayview_m) :=
  match l with
  | [] => Ok []
  | kd :: r => res_bind (read_day_meta kd) (fun v => res_bind (read_days_meta r) (fun vs => Ok (v :: vs)))
  end.
Definition view_m := list (N * Z).
Definition view_of_m (vs : list dayview_m) : view_m := flat_map (fun v => map (fun ts => (dm_if v, ts)) (dm_blocks v)) vs.
Definition listing_of_m (vs : list dayview_m) : listing := fold_left (fun acc v => acc_add (dm_if v) (dm_tot v) acc) vs [].
Definition reader_meta (s : fs) : res (view_m * listing) :=
  res_bind (read_days_meta (filter (fun kd => visible (snd kd)) (f_days s)))
           (fun vs => Ok (view_of_m vs, listing_of_m vs)).

(* specification at that level.  A write-out whose timestamp is already stored for its day is rejected by
   the writer (writeBlock: "timestamp already present") and commits nothing. *)
Definition adb_put (a : adb) (w : writeout) : adb :=
  match lookup (w_key w) a with
  | Some bl => if existsb (fun v => Z.eqb (w_ts v) (w_ts w)) bl then a else upd (w_key w) (fun bl => bl ++ [w]) a
  | None => ins (w_key w) [w] a
  end.
Definition spec_day_m (kb : dkey * list writeout) : dayview_m :=
  {| dm_if := fst (fst kb);
     dm_blocks := map w_ts (filter (fun w => negb (Nat.eqb (w_len w 0) 0)) (snd kb));
     dm_tot := tots_of (snd kb) |}.
Definition spec_read_m (a : adb) : view_m * listing :=
  (view_of_m (map spec_day_m a), listing_of_m (map spec_day_m a)).
(* the crash point at which the listing is stale: right after the metadata rename, before the rename of
   a day directory that already carries a totals suffix *)
Definition stale_point (ops : list fsop) (k : nat) : bool :=
  match nth_error ops k with
  | Some (ORenameDir p _) => match dp_suf p with Some _ => true | None => false end
  | _ => false
  end.
