(* C04 correspondence: case type, corr (model = observed), holds (observed meets the specification). *)
From Coq Require Import List ZArith NArith Bool Arith.
From GoProbe.Base Require Import CorrLib.
From GoProbe.C04 Require Import Model.
Import ListNotations.

Definition dpath_eqb (a b : dpath) : bool := keqb (dp_key a) (dp_key b) && otot_eqb (dp_suf a) (dp_suf b).
Definition fref_eqb (a b : fref) : bool :=
  match a, b with
  | RMonth i y m, RMonth j z n => N.eqb i j && Z.eqb y z && Z.eqb m n
  | RMeta p, RMeta q => dpath_eqb p q
  | RCol p c, RCol q d => dpath_eqb p q && Nat.eqb c d
  | RTmp p n, RTmp q m => dpath_eqb p q && Nat.eqb n m
  | _, _ => false
  end.
Definition dirref_eqb (a b : dirref) : bool :=
  match a, b with DUp u, DUp v => updir_eqb u v | DDay p, DDay q => dpath_eqb p q | _, _ => false end.
(* the observable shape of written data is its length *)
Definition wlen (d : wdata) : nat :=
  match d with WBytes b => length b | WMeta m => meta_size m | WJunk n => n end.
Definition fsop_eqb (a b : fsop) : bool :=
  match a, b with
  | OMkdir x, OMkdir y => dirref_eqb x y
  | OOpenR x, OOpenR y | OOpenW x, OOpenW y | OOpenX x, OOpenX y | OClose x, OClose y | OChmod x, OChmod y
  | OUnlink x, OUnlink y | ORmdir x, ORmdir y => fref_eqb x y
  | OSeek x o, OSeek y p => fref_eqb x y && Nat.eqb o p
  | OWrite x o d, OWrite y p e => fref_eqb x y && Nat.eqb o p && Nat.eqb (wlen d) (wlen e)
  | ORename x x', ORename y y' => fref_eqb x y && fref_eqb x' y'
  | ORenameDir x x', ORenameDir y y' => dpath_eqb x y && dpath_eqb x' y'
  | _, _ => false
  end.

(* digest of a directory tree: what the harness can see without decoding contents *)
Record daydigest := { g_key : dkey; g_suf : option totals; g_meta : option nat  (* size of .blockmeta *);
                      g_ntmp : nat; g_cols : list (option nat) (* column file sizes *) }.
Definition digest_day (kd : dkey * dayfs) : daydigest :=
  {| g_key := fst kd; g_suf := d_suf (snd kd);
     g_meta := match d_meta (snd kd) with Some (Some m) => Some (meta_size m) | Some None => Some 0 | None => None end;
     g_ntmp := length (d_tmps (snd kd));
     g_cols := map (fun c => option_map (@length _) (d_cols (snd kd) c)) cols |}.
Definition onat_eqb (a b : option nat) : bool :=
  match a, b with Some x, Some y => Nat.eqb x y | None, None => true | _, _ => false end.
Definition daydigest_eqb (a b : daydigest) : bool :=
  keqb (g_key a) (g_key b) && otot_eqb (g_suf a) (g_suf b) && onat_eqb (g_meta a) (g_meta b)
  && Nat.eqb (g_ntmp a) (g_ntmp b) && list_eqb onat_eqb (g_cols a) (g_cols b).
Definition digest_eqb (s : fs) (ups : list updir) (days : list daydigest) : bool :=
  Nat.eqb (length ups) (length (f_up s)) && forallb (has_up s) ups
  && list_eqb daydigest_eqb (map digest_day (f_days s)) days.

(* observed reader result *)
Definition obs_read := res (view * listing).
Definition read_eqb (a b : obs_read) : bool :=
  res_eqb (fun x y => view_eqb (fst x) (fst y) && listing_eqb (nz_listing (snd x)) (nz_listing (snd y))) a b.

(* the specification: the view and listing of the first j write-outs *)
Definition spec_read (ws : list writeout) : view * listing :=
  (spec_view (fold_left adb_put ws []), spec_listing (fold_left adb_put ws [])).
Definition meets (r : obs_read) (ws : list writeout) : bool := read_eqb r (Ok (spec_read ws)).

Inductive case :=
(* a fault-free history under strace: the normalised DB-related system calls with their success flag *)
| CTrace (ws : list writeout) (obs : list (fsop * bool)) (rd : obs_read)
(* the writer killed before DB-related call number k (0-based): tree digest, number of Write calls that had
   returned, the real reader's result; then write-outs ws2 run fault-free on the crashed tree: their results
   and the reader's result afterwards.  part = Some n: the last applied Write was cut to its first n bytes *)
| CCrash (ws : list writeout) (k : nat) (part : option nat) (ups : list updir) (days : list daydigest) (done : nat)
         (rd : obs_read) (ws2 : list writeout) (ok2 : list bool) (rd2 : obs_read)
(* the same observation, judged only AFTER the further write-outs: used for the kill point between the two
   renames (known finding for the state before the next write-out): once a write-out to that day has
   completed, view AND listing totals must be those of all committed write-outs again *)
| CCrashPost (ws : list writeout) (k : nat) (part : option nat) (ups : list updir) (days : list daydigest) (done : nat)
         (rd : obs_read) (ws2 : list writeout) (ok2 : list bool) (rd2 : obs_read).

Definition cut_last_write (ops : list fsop) (part : option nat) : list fsop :=
  match part with
  | None => ops
  | Some n =>
    match rev ops with
    | OWrite f off (WBytes b) :: r => rev r ++ [OWrite f off (WBytes (firstn n b))]
    | OWrite f off _ :: r => rev r ++ [OWrite f off (WJunk n)]
    | _ => ops
    end
  end.

Definition crash_state (ws : list writeout) (k : nat) (part : option nat) : fs :=
  apply_all fs_empty (cut_last_write (firstn k (hist_ops fs_empty ws)) part).

Fixpoint run_hist (s : fs) (ws : list writeout) : fs * list bool :=
  match ws with
  | [] => (s, [])
  | w :: r => let (ops, ok) := writeout_run s w in
              let (s', oks) := run_hist (apply_all s ops) r in (s', ok :: oks)
  end.

Definition corr (c : case) : bool :=
  match c with
  | CTrace ws obs rd =>
    let ops := hist_ops fs_empty ws in
    list_eqb fsop_eqb ops (map fst obs) && list_eqb Bool.eqb (results fs_empty ops) (map snd obs)
    && read_eqb (reader (apply_all fs_empty ops)) rd
  | CCrash ws k part ups days done rd ws2 ok2 rd2
  | CCrashPost ws k part ups days done rd ws2 ok2 rd2 =>
    let s := crash_state ws k part in
    digest_eqb s ups days && Nat.eqb (completed fs_empty ws k) done && read_eqb (reader s) rd
    && (let (s2, oks) := run_hist s ws2 in list_eqb Bool.eqb oks ok2 && read_eqb (reader s2) rd2)
  end.

(* the property on the observed behaviour *)
Definition holds (c : case) : bool :=
  match c with
  | CTrace ws obs rd => meets rd ws
  | CCrash ws k part ups days done rd ws2 ok2 rd2 =>
    (* the view is that of the completed write-outs, or of those plus the interrupted one; the same j
       must explain the state after the further write-outs, which must all succeed *)
    ((meets rd (firstn done ws) && forallb (fun b => b) ok2 && meets rd2 (firstn done ws ++ ws2))
     || (Nat.ltb done (length ws) && meets rd (firstn (S done) ws) && forallb (fun b => b) ok2
         && meets rd2 (firstn (S done) ws ++ ws2)))
    && Nat.eqb (length ok2) (length ws2)
  | CCrashPost ws k part ups days done rd ws2 ok2 rd2 =>
    forallb (fun b => b) ok2 && Nat.eqb (length ok2) (length ws2) && negb (Nat.eqb (length ws2) 0)
    && (meets rd2 (firstn done ws ++ ws2) || (Nat.ltb done (length ws) && meets rd2 (firstn (S done) ws ++ ws2)))
  end.
