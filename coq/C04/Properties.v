(* C04 property theorems.  Statements only, closed by `exact`; Print Assumptions; non-vacuity examples.

   reader is the model of the real reader (walk over the visible day directories, Open, TimeRange, every block
   of the committed metadata read back from the column files and identified, directory-name totals vs metadata
   totals); spec_db [] ws is the abstract database after the write-outs ws (a write-out with an already stored
   timestamp is rejected and changes nothing); spec_read_f a = (spec_view a, spec_listing a): per day the
   (timestamp, write-out id) of every committed block with flows, and the totals per interface.
   wf_w w: the bytes_rcvd column block of a write-out is never empty (bitpack.Pack always emits a byte).
   FULL statement (not discharged): the same without `stale_point ... = false` - refuted below
   (finding C04-stale-suffix-between-renames). *)
From Coq Require Import List ZArith NArith Bool Arith Lia.
From GoProbe.Base Require Import CorrLib.
From GoProbe.C04 Require Import Model Proofs ProofsCols Proofs2 Proofs3 Proofs4 Proofs5.
Import ListNotations.

(* For ALL histories of write-outs and EVERY prefix of the concatenated operation list (a crash between any
   two file-system calls), except the single point between the metadata rename and the rename of a day
   directory that already carries a totals suffix: the reader succeeds, sees exactly the write-outs completed
   before the crash point or those plus the interrupted one, EVERY block reads back the payload written for
   it, and the listing totals agree. *)
Theorem c04_crash_consistent_partial : forall ws k, Forall wf_w ws ->
  k <= length (hist_ops fs_empty ws) ->
  stale_point (hist_ops fs_empty ws) k = false ->
  exists j, (j = completed fs_empty ws k \/ j = S (completed fs_empty ws k)) /\ j <= length ws /\
    reader (apply_all fs_empty (firstn k (hist_ops fs_empty ws))) = Ok (spec_read_f (spec_db [] (firstn j ws))).
Proof. exact crash_consistent. Qed.
Print Assumptions c04_crash_consistent_partial.

(* From any such crashed state, further write-outs ws' are accepted and read back. *)
Theorem c04_recovers_partial : forall ws k ws', Forall wf_w ws -> Forall wf_w ws' ->
  k <= length (hist_ops fs_empty ws) ->
  stale_point (hist_ops fs_empty ws) k = false ->
  exists j, (j = completed fs_empty ws k \/ j = S (completed fs_empty ws k)) /\ j <= length ws /\
    reader (hist_state (apply_all fs_empty (firstn k (hist_ops fs_empty ws))) ws')
    = Ok (spec_read_f (spec_db [] (firstn j ws ++ ws'))).
Proof. exact recovers. Qed.
Print Assumptions c04_recovers_partial.

(* At the excluded crash point the property fails: the reader's answer is not that of ANY number of
   write-outs (the query shows the interrupted write-out, the listing does not count it). *)
Theorem c04_stale_suffix_refuted : exists ws k, Forall wf_w ws /\
  k <= length (hist_ops fs_empty ws) /\
  forall j, j <= length ws ->
    reader (apply_all fs_empty (firstn k (hist_ops fs_empty ws))) <> Ok (spec_read_f (spec_db [] (firstn j ws))).
Proof. exact stale_refuted. Qed.
Print Assumptions c04_stale_suffix_refuted.

(* Column data is only ever written at the committed end of a column file, and such a write leaves the
   committed bytes untouched (the content half of the invariant, proved separately from the reader). *)
Theorem c04_writes_beyond_committed : forall old off data,
  off <= length old -> firstn off (write_at old off data) = firstn off old.
Proof. exact write_at_prefix. Qed.
Print Assumptions c04_writes_beyond_committed.

(* non-vacuity: a concrete two write-out history, a non-stale crash point inside the second write-out *)
Example c04_example :
  let ws := ex_ws in
  60 <= length (hist_ops fs_empty ws) /\ stale_point (hist_ops fs_empty ws) 60 = false /\
  completed fs_empty ws 60 = 1 /\
  Forall wf_w ws /\
  reader (apply_all fs_empty (firstn 60 (hist_ops fs_empty ws))) = Ok (spec_read_f (spec_db [] (firstn 1 ws))).
Proof. split; [vm_compute; lia|]. split; [reflexivity|]. split; [reflexivity|]. split; [exact ex_wf|]. vm_compute. reflexivity. Qed.
