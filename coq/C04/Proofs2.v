(* C04 proofs, part 2: the invariant relating a file-system state to the abstract database, the reader on
   states satisfying it, and its preservation by every operation other than the two renames. *)
From Coq Require Import List ZArith NArith Bool Arith Lia.
From GoProbe.Base Require Import CorrLib.
From GoProbe.C04 Require Import Model Proofs ProofsCols.
Import ListNotations.

Definition vis (kd : dkey * dayfs) : bool := visible (snd kd).

Lemma meta_fold_blocks bl : forall m, m_blocks (fold_left meta_add bl m) = m_blocks m ++ map mbw bl.
Proof. induction bl as [|w r IH]; intros m; cbn. now rewrite app_nil_r. rewrite IH. cbn. now rewrite <- app_assoc. Qed.
Lemma meta_fold_tot bl : forall m, m_tot (fold_left meta_add bl m) = fold_left (fun t w => tot_add t (w_tot w)) bl (m_tot m).
Proof. induction bl as [|w r IH]; intros m; cbn; auto. now rewrite IH. Qed.
Lemma meta_of_blocks bl : m_blocks (meta_of bl) = map mbw bl.
Proof. unfold meta_of. now rewrite meta_fold_blocks. Qed.
Lemma meta_of_tot bl : m_tot (meta_of bl) = tots_of bl.
Proof. unfold meta_of, tots_of. now rewrite meta_fold_tot. Qed.
Lemma meta_of_snoc bl w : meta_of (bl ++ [w]) = meta_add (meta_of bl) w.
Proof. unfold meta_of. now rewrite fold_left_app. Qed.
Lemma meta_has_ts_of bl ts : meta_has_ts (meta_of bl) ts = existsb (fun v => Z.eqb (w_ts v) ts) bl.
Proof. unfold meta_has_ts. rewrite meta_of_blocks. induction bl; cbn; auto. now rewrite IHbl. Qed.

Lemma meta_cur bl c : c < ncols -> nth c (m_cur (meta_of bl)) 0 = clen c bl.
Proof.
  intros Hc. induction bl as [|w bl IH] using rev_ind.
  - cbn. do 8 (destruct c as [|c]; [reflexivity|]). unfold ncols in Hc. lia.
  - rewrite meta_of_snoc, clen_app, clen_one by auto. cbn [meta_add m_cur]. rewrite nth_cols by auto. now rewrite IH.
Qed.

(* the day relation.  stale = the key whose directory-name suffix may lag one write-out behind *)
Definition suf_ok (d : dayfs) (bl : list writeout) : Prop := d_suf d = None \/ d_suf d = Some (tots_of bl).
Definition Rday (stale : option dkey) (k : dkey) (d : dayfs) (bl : list writeout) : Prop :=
  bl <> [] /\ d_meta d = Some (Some (meta_of bl)) /\ (stale = Some k \/ suf_ok d bl) /\
  cols_ok d bl /\ Forall wf_w bl.
Definition InvS (stale : option dkey) (s : fs) (a : adb) : Prop :=
  ksorted (f_days s) /\ aligned (Rday stale) (filter vis (f_days s)) a.
Definition Inv := InvS None.

(* ------------------------------------------------------------------ the reader on a state satisfying Inv *)
Definition spec_read_f (a : adb) : view * listing := (spec_view a, spec_listing a).

Lemma read_day_ok k d bl : Rday None k d bl -> read_day (k, d) = Ok (spec_day (k, bl)).
Proof.
  intros (NE & HM & [HS|HS] & CO & WF); [discriminate|].
  unfold read_day, spec_day. rewrite HM, meta_of_blocks.
  pose proof (day_blocks_ok d bl CO WF bl [] eq_refl) as DB. change (map mbw []) with (@nil mblock) in DB. rewrite DB.
  assert (T : match d_suf d with Some t => t | None => m_tot (meta_of bl) end = tots_of bl).
  { destruct HS as [-> | ->]; auto. now rewrite meta_of_tot. }
  rewrite T. destruct bl as [|w r]; [contradiction|]. reflexivity.
Qed.
Lemma read_days_ok l a : aligned (Rday None) l a -> read_days l = Ok (map spec_day a).
Proof.
  induction 1 as [|[k d] [k' bl] l a [E H] F IH]; cbn [read_days map]; auto.
  cbn in E, H; subst k'. rewrite (read_day_ok _ _ _ H). cbn. rewrite IH. reflexivity.
Qed.
Lemma reader_ok s a : Inv s a -> reader s = Ok (spec_read_f a).
Proof. intros [_ H]. unfold reader. fold vis. erewrite read_days_ok; eauto. reflexivity. Qed.

(* ------------------------------------------------------------------ operations other than the renames *)
Definition not_rename (o : fsop) : Prop :=
  match o with ORename _ _ | ORenameDir _ _ => False | _ => True end.

(* the operations a write-out on directory p0, whose committed metadata is m, may issue before the commit:
   column data is written at the committed end only *)
Definition op_safe (p0 : dpath) (m : meta) (o : fsop) : Prop :=
  match o with
  | ORename _ _ | ORenameDir _ _ => False
  | OWrite (RCol p c) off (WBytes _) => p = p0 /\ off = nth c (m_cur m) 0 /\ c < ncols
  | OMkdir (DDay p) => dp_key p = dp_key p0 -> m = new_meta
  | _ => True
  end.
Definition writes_col (o : fsop) (c : nat) : Prop :=
  match o with OWrite (RCol _ c') _ _ => c' = c | _ => False end.
(* the metadata of directory p0, if it exists, is m (a directory without metadata counts as new_meta) *)
Definition mstate (s : fs) (p0 : dpath) (m : meta) : Prop :=
  forall d, day_at s p0 = Some d -> d_meta d = Some (Some m) \/ (d_meta d = None /\ m = new_meta).

Lemma day_at_some s p d : day_at s p = Some d -> lookup (dp_key p) (f_days s) = Some d /\ otot_eqb (d_suf d) (dp_suf p) = true.
Proof. unfold day_at. destruct (lookup _ _) as [d'|]; [|discriminate]. destruct (otot_eqb _ _) eqn:E; [|discriminate]. intros [= ->]. auto. Qed.

(* an update of the day directory p (which is d) that keeps its name suffix and its metadata file and
   does not damage committed column data *)
Lemma inv_upd st s a p d f : InvS st s a -> day_at s p = Some d ->
  d_suf (f d) = d_suf d -> d_meta (f d) = d_meta d ->
  (forall bl, d_meta d = Some (Some (meta_of bl)) -> cols_ok d bl -> cols_ok (f d) bl) ->
  InvS st (upd_day s p f) a.
Proof.
  intros [S A] D E1 E2 HC. apply day_at_some in D as [L _]. split; cbn [f_days upd_day].
  - now apply ksorted_upd.
  - rewrite filter_upd_same; auto.
    + eapply (aligned_upd_l2 (Rday st) (Rday st)); eauto.
      * now apply ksorted_filter.
      * intros a0 bl La0 (NE & HM & HS & CO & WF). rewrite lookup_filter in La0 by auto. rewrite L in La0.
        assert (a0 = d) as -> by (destruct (vis (dp_key p, d)); congruence).
        repeat split; auto. congruence.
        destruct HS as [HS|[HS|HS]]; auto; right; [left|right]; congruence.
    + intros v Lv. assert (v = d) as -> by congruence. unfold vis, visible; cbn [snd]. now rewrite E1, E2.
Qed.
Lemma day_at_upd s p f d : day_at s p = Some d -> d_suf (f d) = d_suf d -> day_at (upd_day s p f) p = Some (f d).
Proof.
  intros H E. apply day_at_some in H as [L O]. unfold day_at; cbn [f_days upd_day].
  rewrite lookup_upd_same, L. cbn. now rewrite E, O.
Qed.

(* what one safe operation does to any day directory q: it stays, keeps its metadata, and keeps every column
   the operation does not write (a missing column file may be created empty) *)
Definition day_kept (o : fsop) (d d' : dayfs) : Prop :=
  d_meta d' = d_meta d /\ d_suf d' = d_suf d /\
  forall c, ~ writes_col o c -> d_cols d c <> None -> d_cols d' c = d_cols d c.

Lemma kept_refl o d : day_kept o d d.
Proof. repeat split; auto. Qed.

Lemma step_safe st s a p0 m o : op_safe p0 m o -> InvS st s a -> mstate s p0 m ->
  InvS st (fst (apply s o)) a /\
  (forall q d, day_at s q = Some d -> exists d', day_at (fst (apply s o)) q = Some d' /\ day_kept o d d') /\
  mstate (fst (apply s o)) p0 m.
Proof.
  intros SF H MS.
  (* a generic way to finish the cases in which day p (= d) is updated by f *)
  assert (UPD : forall p d f, day_at s p = Some d -> d_suf (f d) = d_suf d -> d_meta (f d) = d_meta d ->
            (forall bl, d_meta d = Some (Some (meta_of bl)) -> cols_ok d bl -> cols_ok (f d) bl) ->
            (forall c, ~ writes_col o c -> d_cols d c <> None -> d_cols (f d) c = d_cols d c) ->
            InvS st (upd_day s p f) a /\
            (forall q dq, day_at s q = Some dq -> exists d', day_at (upd_day s p f) q = Some d' /\ day_kept o dq d') /\
            mstate (upd_day s p f) p0 m).
  { intros p d f D E1 E2 HC HK.
    assert (Q : forall q dq, day_at s q = Some dq -> exists d', day_at (upd_day s p f) q = Some d' /\ day_kept o dq d').
    { intros q dq Hq. destruct (keqb (dp_key q) (dp_key p)) eqn:EK.
      - apply keqb_eq in EK. destruct (day_at_some _ _ _ Hq) as [Lq Oq]. destruct (day_at_some _ _ _ D) as [Lp Op].
        rewrite EK in Lq. assert (dq = d) as -> by congruence.
        exists (f d). split.
        + unfold day_at; cbn [f_days upd_day]. rewrite EK, lookup_upd_same, Lp. cbn. now rewrite E1, Oq.
        + repeat split; auto.
      - apply keqb_neq in EK. destruct (day_at_some _ _ _ Hq) as [Lq Oq]. exists dq. split; [|apply kept_refl].
        unfold day_at; cbn [f_days upd_day]. rewrite lookup_upd_other, Lq, Oq; auto. }
    split; [eapply inv_upd; eauto|]. split; [exact Q|].
    intros d' D'. unfold mstate in MS.
    destruct (day_at (upd_day s p f) p0) eqn:X; [|discriminate]. injection D' as ->.
    (* the directory p0 after the update comes from the directory p0 before *)
    assert (exists d0, day_at s p0 = Some d0 /\ d_meta d' = d_meta d0) as (d0 & D0 & EM).
    { unfold day_at in X |- *; cbn [f_days upd_day] in X.
      destruct (keqb (dp_key p0) (dp_key p)) eqn:EK.
      - apply keqb_eq in EK. destruct (day_at_some _ _ _ D) as [Lp Op]. rewrite EK, lookup_upd_same, Lp in X. cbn in X.
        rewrite EK, Lp. rewrite E1 in X. destruct (otot_eqb (d_suf d) (dp_suf p0)); [|discriminate].
        injection X as <-. eauto.
      - apply keqb_neq in EK. rewrite lookup_upd_other in X by auto.
        destruct (lookup (dp_key p0) (f_days s)) as [d1|]; [|discriminate].
        destruct (otot_eqb (d_suf d1) (dp_suf p0)); [|discriminate]. injection X as <-. eauto. }
    rewrite EM. now apply MS. }
  assert (SAME : InvS st s a /\
            (forall q d, day_at s q = Some d -> exists d', day_at s q = Some d' /\ day_kept o d d') /\ mstate s p0 m).
  { split; auto. split; auto. intros q d Hq. exists d. split; auto. apply kept_refl. }
  destruct o as [dr|f|f|f|f off|f off dat|f|f|f g|p q|f|f]; try contradiction; cbn [apply].
  - (* mkdir *) destruct dr as [u|p].
    + destruct (has_up s u); cbn [fst]; [exact SAME|].
      destruct SAME as (I1 & Q1 & M1). split; [exact I1|]. split; [exact Q1|exact M1].
    + destruct (lookup (dp_key p) (f_days s)) eqn:L; [cbn [fst]; exact SAME|].
      destruct (dp_suf p) eqn:SP; cbn [fst]; [exact SAME|].
      destruct H as [S A]. split; [|split].
      * split; cbn [f_days]. apply ksorted_ins; auto. rewrite filter_ins_false; auto.
      * intros q d Hq. apply day_at_some in Hq as [L2 O]. exists d. split; [|apply kept_refl].
        unfold day_at; cbn [f_days]. rewrite lookup_ins_other, L2, O; auto.
        intros E. rewrite E in L2. congruence.
      * intros d D. unfold day_at in D; cbn [f_days] in D.
        destruct (keqb (dp_key p0) (dp_key p)) eqn:EK.
        -- apply keqb_eq in EK. rewrite EK, lookup_ins_same in D by auto.
           destruct (otot_eqb _ _); [|discriminate]. injection D as <-. right. split; auto.
        -- apply keqb_neq in EK. rewrite lookup_ins_other in D by auto. apply MS. exact D.
  - destruct f; cbn [fst]; exact SAME.
  - destruct f as [| |p c|]; cbn [fst]; try exact SAME.
    destruct (day_at s p) as [d|] eqn:D; cbn [fst]; [|exact SAME].
    destruct (d_cols d c) eqn:DC; [exact SAME|]. apply (UPD p d); auto.
    + intros bl _ CO. now apply cols_ok_create.
    + intros c' _ NN. cbn. destruct (Nat.eqb c' c) eqn:E; auto. apply Nat.eqb_eq in E. subst. contradiction.
  - destruct f as [| | |p n]; cbn [fst]; try exact SAME.
    destruct (day_at s p) as [d|] eqn:D; cbn [fst]; [|exact SAME]. apply (UPD p d); auto.
  - cbn [fst]; exact SAME.
  - destruct f as [| |p c|p n]; cbn [fst]; try exact SAME.
    + destruct dat as [b| |]; cbn [fst]; try exact SAME.
      destruct (day_at s p) as [d|] eqn:D; cbn [fst]; [|exact SAME].
      destruct (d_cols d c) as [old|] eqn:DC; cbn [fst]; [|exact SAME].
      cbn in SF. destruct SF as (-> & -> & Hc). apply (UPD p0 d); auto.
      * intros bl HM CO. destruct (MS d D) as [MM|[MM _]]; [|congruence].
        assert (m = meta_of bl) as -> by congruence. rewrite meta_cur by auto. now apply cols_ok_write.
      * intros c' NW _. cbn. destruct (Nat.eqb c' c) eqn:E; auto. apply Nat.eqb_eq in E. subst. exfalso. apply NW. reflexivity.
    + destruct (day_at s p) as [d|] eqn:D; cbn [fst]; [|exact SAME]. apply (UPD p d); auto.
  - cbn [fst]; exact SAME.
  - destruct f; cbn [fst]; exact SAME.
  - destruct f as [| | |p n]; cbn [fst]; try exact SAME.
    destruct (day_at s p) as [d|] eqn:D; cbn [fst]; [|exact SAME].
    destruct (tmp_get n (d_tmps d)); cbn [fst]; [|exact SAME]. apply (UPD p d); auto.
  - cbn [fst]; exact SAME.
Qed.
