(* C06 proofs, part B: block reading, sanity checks and the evaluation loop never answer Panic; c06_no_panic. *)
From Coq Require Import List ZArith NArith Bool Lia ZifyBool ZifyNat ZifyN.
From GoProbe.Base Require Import CorrLib.
From GoProbe.C03 Require Import Model ProofsCodec.
From GoProbe.C06 Require Import Model ProofsA.
Import ListNotations.
Open Scope N_scope.

Ltac Zify.zify_post_hook ::= Z.to_euclidean_division_equations.

Section B.
Variable dec : N -> bytes -> N -> option bytes.

Lemma reslice_np : forall n, np (reslice buf_cap n).
Proof.
  intros n. unfold reslice, buf_cap.
  destruct (8192 <? n) eqn:E.
  - destruct (n <=? 2 * n) eqn:F; [apply np_ok | lia].
  - destruct (n <=? 8192) eqn:F; [apply np_ok | lia].
Qed.

Lemma firstn_nonempty : forall (l : bytes) k, (0 < k)%nat -> (k <= length (firstn k l))%nat -> firstn k l <> [].
Proof. intros l k H1 H2 E. rewrite E in H2. cbn in H2. lia. Qed.

Lemma pre_check_none : forall file off b, pre_check file off b = None ->
  cb_raw b <> 0 /\ exists f, file = Some f /\ (cb_enc b <> 1 -> cb_len b <> 0).
Proof.
  intros file off b H. unfold pre_check in H.
  destruct (cb_raw b =? 0) eqn:R0; [discriminate|]. apply N.eqb_neq in R0. split; [assumption|].
  destruct file as [f|]; [|discriminate]. exists f. split; [reflexivity|].
  destruct (_ || _); [discriminate|].
  destruct ((cb_enc b =? 1) && negb (cb_raw b =? cb_len b)); [discriminate|].
  destruct (negb (cb_enc b =? 1) && (max_raw (cb_enc b) (cb_len b) <? cb_raw b)) eqn:G; [discriminate|].
  intros E1. apply N.eqb_neq in E1. rewrite E1 in G. cbn [negb] in G. rewrite andb_true_l in G.
  unfold max_raw in G. destruct (cb_enc b =? 3); apply N.ltb_ge in G; lia.
Qed.

(* decoding never panics, wherever the file is positioned *)
Lemma read_body_np : forall f pos b, (cb_enc b <> 1 -> cb_len b <> 0) -> np (fst (read_body dec f pos b)).
Proof.
  intros f pos b Hlen. unfold read_body.
  pose proof (reslice_np (cb_raw b)) as R1. destruct (reslice buf_cap (cb_raw b)); [|apply np_err | contradiction R1; reflexivity].
  destruct (cb_enc b =? 1) eqn:E1.
  - destruct (_ <? _)%nat; cbn [fst]; [apply np_err | apply np_ok].
  - destruct ((cb_enc b =? 2) || (cb_enc b =? 3)); cbn [fst]; [|apply np_err].
    pose proof (reslice_np (cb_len b)) as R2. destruct (reslice buf_cap (cb_len b)); cbn [fst]; [|apply np_err | contradiction R2; reflexivity].
    destruct (length (firstn (N.to_nat (cb_len b)) (skipn (N.to_nat pos) f)) <? N.to_nat (cb_len b))%nat eqn:L; cbn [fst]; [apply np_err|].
    apply N.eqb_neq in E1. specialize (Hlen E1).
    destruct (firstn (N.to_nat (cb_len b)) (skipn (N.to_nat pos) f)) eqn:F; cbn [fst].
    + exfalso. cbn [length] in L. lia.
    + destruct (dec _ _ _) as [out|]; [|apply np_err].
      destruct (N.of_nat (length out) =? cb_raw b); [apply np_ok | apply np_err].
Qed.

Theorem read_block_st_np : forall st file off b, np (fst (read_block_st dec st file off b)).
Proof.
  intros st file off b. unfold read_block_st. destruct (pre_check file off b) as [r|] eqn:P; cbn [fst].
  - unfold pre_check in P. destruct (cb_raw b =? 0); [inversion P; apply np_ok|].
    destruct file; [|inversion P; apply np_err].
    destruct (_ || _); [inversion P; apply np_err|].
    destruct (_ && _); [inversion P; apply np_err|].
    destruct (_ && _); [inversion P; apply np_err | discriminate].
  - destruct (pre_check_none _ _ _ P) as (_ & f & -> & Hlen).
    pose proof (read_body_np f (if snd st =? off then fst st else off) b Hlen) as H.
    destruct (read_body dec f _ b) as [r p]. exact H.
Qed.

Lemma In_query_cols : forall q c, In c (query_cols q) -> (c < 8)%nat.
Proof.
  intros q c H. unfold query_cols in H.
  repeat (apply in_app_or in H; destruct H as [H|H]);
    try (destruct (q_sip q), (q_dip q), (q_proto q), (q_dport q); cbn in H; intuition lia).
Qed.

Lemma read_col_st_np : forall sts d m b c, shaped m -> (b < length (m_blocks m))%nat -> (c < 8)%nat ->
  np (fst (read_col_st dec sts d m b c)).
Proof.
  intros sts d m b c [S1 S2] Hb Hc. unfold read_col_st.
  destruct (nth_res_ok _ c (m_cols m)) as [col Hcol]; [lia|]. rewrite Hcol.
  assert (Hl : length (col_blocks col) = length (m_blocks m)).
  { rewrite Forall_forall in S2. apply S2. unfold nth_res in Hcol.
    destruct (nth_error (m_cols m) c) eqn:E; [|discriminate]. inversion Hcol; subst. eapply nth_error_In; eassumption. }
  destruct (nth_res_ok _ b (col_blocks col)) as [blk Hblk]; [lia|]. rewrite Hblk.
  destruct (nth_res_ok _ b (col_offsets col)) as [off Hoff]; [unfold col_offsets; rewrite col_offsets_from_length; lia|].
  rewrite Hoff.
  pose proof (read_block_st_np (st_of sts c) (match nth_error (d_cols d) c with Some f => f | None => None end) off blk) as H.
  destruct (read_block_st dec _ _ off blk) as [r st']. exact H.
Qed.

Lemma read_cols_st_np : forall d m b cs sts, shaped m -> (b < length (m_blocks m))%nat ->
  (forall c, In c cs -> (c < 8)%nat) -> np (fst (read_cols_st dec sts d m b cs)).
Proof.
  intros d m b cs. induction cs as [|c cs IH]; intros sts S Hb Hc; cbn; [apply np_ok|].
  pose proof (read_col_st_np sts d m b c S Hb (Hc c (or_introl eq_refl))) as H.
  destruct (read_col_st dec sts d m b c) as [x sts1]. cbn [fst] in H.
  destruct x; [|apply np_ok | contradiction H; reflexivity].
  pose proof (IH sts1 S Hb (fun c0 H0 => Hc c0 (or_intror H0))) as H2.
  destruct (read_cols_st dec sts1 d m b cs) as [o sts2]. cbn [fst] in *.
  apply np_bind; [assumption|]. intros; apply np_ok.
Qed.

(* ------------------------------------------------------------------ the evaluation loop *)

Lemma bp_unpack_length : forall b, length (bp_unpack b) = bp_len b.
Proof. intros [|w r]; [reflexivity|]. unfold bp_unpack. rewrite map_length, seq_length. reflexivity. Qed.

Lemma slice_np : forall s a k, (a + k <= length s)%nat -> np (slice s a k).
Proof. intros s a k H. unfold slice. destruct (a + k <=? length s)%nat eqn:E; [apply np_ok | lia]. Qed.

Lemma row_at_np : forall q ts cols nv4 i,
  checks_ok q cols nv4 = true -> (i < bp_len (col_data cols 4))%nat ->
  np (row_at q ts cols (N.to_nat nv4)
        (map (fun c => bp_unpack (col_data cols c)) [4%nat; 5%nat; 6%nat; 7%nat]) i).
Proof.
  intros q ts cols nv4 i C Hi. unfold checks_ok in C.
  apply andb_prop in C. destruct C as [C CT].
  apply andb_prop in C. destruct C as [C CP].
  apply andb_prop in C. destruct C as [C CD].
  apply andb_prop in C. destruct C as [C CS].
  apply andb_prop in C. destruct C as [CA CB].
  remember (bp_len (col_data cols 4)) as n eqn:Hn.
  unfold row_at.
  assert (IP : forall c sel, (negb sel || (N.of_nat (length (col_data cols c)) =? (N.of_nat n - nv4) * 16 + nv4 * 4)) = true ->
            np (if sel then if (i <? N.to_nat nv4)%nat then slice (col_data cols c) (i * 4) 4
                            else slice (col_data cols c) (N.to_nat nv4 * 4 + (i - N.to_nat nv4) * 16) 16
                else Ok [])).
  { intros c sel H. destruct sel; [|apply np_ok]. cbn [negb orb] in H.
    destruct (i <? N.to_nat nv4)%nat eqn:E; apply slice_np; lia. }
  apply np_bind; [apply IP; assumption|]. intros sip _.
  apply np_bind; [apply IP; assumption|]. intros dip _.
  apply np_bind.
  { destruct (q_proto q); [|apply np_ok]. cbn [negb orb] in CP. apply slice_np. lia. }
  intros proto _.
  apply np_bind.
  { destruct (q_dport q); [|apply np_ok]. cbn [negb orb] in CT. apply slice_np. lia. }
  intros dport _.
  apply np_bind; [|intros; apply np_ok].
  apply np_map_res. intros l Hl. cbn [map In] in Hl.
  assert (length l = n) as Ll.
  { rewrite forallb_forall in CB.
    destruct Hl as [<-|[<-|[<-|[<-|[]]]]]; rewrite bp_unpack_length.
    - symmetry; assumption.
    - pose proof (CB 5%nat ltac:(cbn; tauto)) as K. cbn beta in K. lia.
    - pose proof (CB 6%nat ltac:(cbn; tauto)) as K. cbn beta in K. lia.
    - pose proof (CB 7%nat ltac:(cbn; tauto)) as K. cbn beta in K. lia. }
  destruct (nth_res_ok _ i l) as [v Hv]; [lia|]. rewrite Hv. apply np_ok.
Qed.

Lemma decide_np : forall q ts nv4 rc, np rc -> np (decide q ts nv4 rc).
Proof.
  intros q ts nv4 rc H. unfold decide.
  destruct rc as [[cols|]| |]; [|apply np_ok | apply np_ok | contradiction H; reflexivity].
  destruct (checks_ok q cols nv4) eqn:C; cbn [negb]; [|apply np_ok].
  apply np_bind; [|intros; apply np_ok].
  apply np_map_res. intros i Hi. apply in_seq in Hi. apply row_at_np; [assumption | lia].
Qed.

Theorem eval_block_st_np : forall sts q w dts d m b bi, shaped m -> (b < length (m_blocks m))%nat ->
  np (fst (eval_block_st dec sts q w dts d m b bi)).
Proof.
  intros sts q w dts d m b bi S Hb. unfold eval_block_st.
  destruct (_ || _)%Z; [apply np_ok|].
  destruct (negb _); [apply np_ok|].
  pose proof (read_cols_st_np d m b (query_cols q) sts S Hb (In_query_cols q)) as H.
  destruct (read_cols_st dec sts d m b (query_cols q)) as [rc sts']. cbn [fst] in *. apply decide_np; assumption.
Qed.

Lemma eval_blocks_st_np : forall q w dts d m bis b sts, shaped m -> (b + length bis <= length (m_blocks m))%nat ->
  np (eval_blocks_st dec sts q w dts d m b bis).
Proof.
  intros q w dts d m bis. induction bis as [|bi r IH]; intros b sts S H; cbn; [apply np_ok|].
  cbn in H. pose proof (eval_block_st_np sts q w dts d m b bi S ltac:(lia)) as H1.
  destruct (eval_block_st dec sts q w dts d m b bi) as [x sts']. cbn [fst] in H1.
  apply np_bind; [assumption|]. intros x0 _.
  apply np_bind; [apply IH; [assumption | lia]|]. intros; apply np_ok.
Qed.

Theorem eval_item_np : forall q fs w it, np (eval_item dec q fs w it).
Proof.
  intros q fs w it. unfold eval_item, eval_open.
  pose proof (open_day_np fs (fst it) (snd it)) as H.
  destruct (open_day fs (fst it) (snd it)) as [[d m]| |] eqn:E; [|apply np_ok | contradiction H; reflexivity].
  apply np_bind; [|intros; apply np_ok].
  apply eval_blocks_st_np; [eapply open_day_shaped; eassumption | lia].
Qed.

(* c06_no_panic: for ALL codecs, ALL queries (attribute selections, time ranges) and ALL file-system states (all
   directory names, all metadata bytes, all column bytes) the reader answers Ok or Err, never Panic.  `run_query` is
   a structurally recursive Gallina function: it terminates on every input. *)
Theorem no_panic : forall q fs tfirst tlast, run_query dec q fs tfirst tlast <> Panic.
Proof.
  intros q fs tfirst tlast. unfold run_query. apply np_bind; [apply walk_np|]. intros items _.
  apply np_bind; [apply window_np|]. intros w _.
  apply np_bind; [|intros; apply np_ok].
  apply np_map_res. intros it _. apply eval_item_np.
Qed.

End B.
