(* C06 proofs, part B: block reading, sanity checks and the evaluation loop never answer Panic; c06_no_panic. *)
From Coq Require Import List ZArith NArith Bool Lia ZifyBool ZifyNat ZifyN.
From GoProbe.Base Require Import CorrLib.
From GoProbe.C03 Require Import Model ProofsCodec.
From GoProbe.C06 Require Import Model ProofsA.
Import ListNotations.
Open Scope N_scope.

Ltac Zify.zify_post_hook ::= Z.to_euclidean_division_equations.

Section B.
Variable dec : N -> bytes -> N -> option bytes.

Lemma reslice_np : forall n, np (reslice buf_cap n).
Proof.
  intros n. unfold reslice, buf_cap.
  destruct (8192 <? n) eqn:E.
  - destruct (n <=? 2 * n) eqn:F; [apply np_ok | lia].
  - destruct (n <=? 8192) eqn:F; [apply np_ok | lia].
Qed.

Lemma firstn_nonempty : forall (l : bytes) k, (0 < k)%nat -> (k <= length (firstn k l))%nat -> firstn k l <> [].
Proof. intros l k H1 H2 E. rewrite E in H2. cbn in H2. lia. Qed.

Theorem read_block_np : forall file off b, np (read_block dec file off b).
Proof.
  intros file off b. unfold read_block.
  destruct (cb_raw b =? 0) eqn:R0; [apply np_ok|].
  destruct file as [f|]; [|apply np_err].
  destruct (_ || _); [apply np_err|].
  destruct ((cb_enc b =? 1) && negb (cb_raw b =? cb_len b)); [apply np_err|].
  destruct (negb (cb_enc b =? 1) && (max_raw (cb_enc b) (cb_len b) <? cb_raw b)) eqn:G; [apply np_err|].
  apply np_bind; [apply reslice_np|]. intros _ _.
  destruct (cb_enc b =? 1) eqn:E1.
  - destruct (_ <? _)%nat; [apply np_err | apply np_ok].
  - destruct ((cb_enc b =? 2) || (cb_enc b =? 3)); [|apply np_err].
    apply np_bind; [apply reslice_np|]. intros _ _.
    destruct (length (firstn (N.to_nat (cb_len b)) (skipn (N.to_nat off) f)) <? N.to_nat (cb_len b))%nat eqn:L; [apply np_err|].
    assert (Hlen : cb_len b <> 0).
    { cbn [negb] in G. rewrite andb_true_l in G. unfold max_raw in G. clear L. apply N.eqb_neq in R0.
      destruct (cb_enc b =? 3); apply N.ltb_ge in G; lia. }
    destruct (firstn (N.to_nat (cb_len b)) (skipn (N.to_nat off) f)) eqn:F.
    + exfalso. cbn [length] in L. lia.
    + destruct (dec _ _ _) as [out|]; [|apply np_err].
      destruct (N.of_nat (length out) =? cb_raw b); [apply np_ok | apply np_err].
Qed.

Lemma In_query_cols : forall q c, In c (query_cols q) -> (c < 8)%nat.
Proof.
  intros q c H. unfold query_cols in H.
  repeat (apply in_app_or in H; destruct H as [H|H]);
    try (destruct (q_sip q), (q_dip q), (q_proto q), (q_dport q); cbn in H; intuition lia).
Qed.

Lemma read_col_np : forall d m b c, shaped m -> (b < length (m_blocks m))%nat -> (c < 8)%nat -> np (read_col dec d m b c).
Proof.
  intros d m b c [S1 S2] Hb Hc. unfold read_col.
  destruct (nth_res_ok _ c (m_cols m)) as [col Hcol]; [lia|]. rewrite Hcol. cbn.
  assert (Hl : length (col_blocks col) = length (m_blocks m)).
  { rewrite Forall_forall in S2. apply S2. unfold nth_res in Hcol.
    destruct (nth_error (m_cols m) c) eqn:E; [|discriminate]. inversion Hcol; subst. eapply nth_error_In; eassumption. }
  destruct (nth_res_ok _ b (col_blocks col)) as [blk Hblk]; [lia|]. rewrite Hblk. cbn.
  destruct (nth_res_ok _ b (col_offsets col)) as [off Hoff]; [unfold col_offsets; rewrite col_offsets_from_length; lia|].
  rewrite Hoff. cbn. apply read_block_np.
Qed.

Lemma read_cols_np : forall d m b cs, shaped m -> (b < length (m_blocks m))%nat ->
  (forall c, In c cs -> (c < 8)%nat) -> np (read_cols dec d m b cs).
Proof.
  intros d m b cs S Hb. induction cs as [|c cs IH]; intros Hc; cbn; [apply np_ok|].
  pose proof (read_col_np d m b c S Hb (Hc c (or_introl eq_refl))) as H.
  destruct (read_col dec d m b c); [|apply np_ok | contradiction H; reflexivity].
  apply np_bind; [apply IH; intros; apply Hc; right; assumption|]. intros; apply np_ok.
Qed.

(* ------------------------------------------------------------------ the evaluation loop *)

Lemma bp_unpack_length : forall b, length (bp_unpack b) = bp_len b.
Proof. intros [|w r]; [reflexivity|]. unfold bp_unpack. rewrite map_length, seq_length. reflexivity. Qed.

Lemma slice_np : forall s a k, (a + k <= length s)%nat -> np (slice s a k).
Proof. intros s a k H. unfold slice. destruct (a + k <=? length s)%nat eqn:E; [apply np_ok | lia]. Qed.

Lemma row_at_np : forall q ts cols nv4 i,
  checks_ok q cols nv4 = true -> (i < bp_len (col_data cols 4))%nat ->
  np (row_at q ts cols (N.to_nat nv4)
        (map (fun c => bp_unpack (col_data cols c)) [4%nat; 5%nat; 6%nat; 7%nat]) i).
Proof.
  intros q ts cols nv4 i C Hi. unfold checks_ok in C.
  apply andb_prop in C. destruct C as [C CT].
  apply andb_prop in C. destruct C as [C CP].
  apply andb_prop in C. destruct C as [C CD].
  apply andb_prop in C. destruct C as [C CS].
  apply andb_prop in C. destruct C as [CA CB].
  remember (bp_len (col_data cols 4)) as n eqn:Hn.
  unfold row_at.
  assert (IP : forall c sel, (negb sel || (N.of_nat (length (col_data cols c)) =? (N.of_nat n - nv4) * 16 + nv4 * 4)) = true ->
            np (if sel then if (i <? N.to_nat nv4)%nat then slice (col_data cols c) (i * 4) 4
                            else slice (col_data cols c) (N.to_nat nv4 * 4 + (i - N.to_nat nv4) * 16) 16
                else Ok [])).
  { intros c sel H. destruct sel; [|apply np_ok]. cbn [negb orb] in H.
    destruct (i <? N.to_nat nv4)%nat eqn:E; apply slice_np; lia. }
  apply np_bind; [apply IP; assumption|]. intros sip _.
  apply np_bind; [apply IP; assumption|]. intros dip _.
  apply np_bind.
  { destruct (q_proto q); [|apply np_ok]. cbn [negb orb] in CP. apply slice_np. lia. }
  intros proto _.
  apply np_bind.
  { destruct (q_dport q); [|apply np_ok]. cbn [negb orb] in CT. apply slice_np. lia. }
  intros dport _.
  apply np_bind; [|intros; apply np_ok].
  apply np_map_res. intros l Hl. cbn [map In] in Hl.
  assert (length l = n) as Ll.
  { rewrite forallb_forall in CB.
    destruct Hl as [<-|[<-|[<-|[<-|[]]]]]; rewrite bp_unpack_length.
    - symmetry; assumption.
    - pose proof (CB 5%nat ltac:(cbn; tauto)) as K. cbn beta in K. lia.
    - pose proof (CB 6%nat ltac:(cbn; tauto)) as K. cbn beta in K. lia.
    - pose proof (CB 7%nat ltac:(cbn; tauto)) as K. cbn beta in K. lia. }
  destruct (nth_res_ok _ i l) as [v Hv]; [lia|]. rewrite Hv. apply np_ok.
Qed.

Theorem eval_block_np : forall q w dts d m b bi, shaped m -> (b < length (m_blocks m))%nat ->
  np (eval_block dec q w dts d m b bi).
Proof.
  intros q w dts d m b bi S Hb. unfold eval_block.
  destruct (_ || _)%Z; [apply np_ok|].
  destruct (negb _); [apply np_ok|].
  pose proof (read_cols_np d m b (query_cols q) S Hb (In_query_cols q)) as H.
  destruct (read_cols dec d m b (query_cols q)) as [[cols|]| |]; [|apply np_ok | apply np_ok | contradiction H; reflexivity].
  destruct (checks_ok q cols (t_v4 (bi_traffic bi))) eqn:C; cbn [negb]; [|apply np_ok].
  apply np_bind; [|intros; apply np_ok].
  apply np_map_res. intros i Hi. apply in_seq in Hi. apply row_at_np; [assumption | lia].
Qed.

Lemma eval_blocks_np : forall q w dts d m bis b, shaped m -> (b + length bis <= length (m_blocks m))%nat ->
  np (eval_blocks dec q w dts d m b bis).
Proof.
  intros q w dts d m bis. induction bis as [|bi r IH]; intros b S H; cbn; [apply np_ok|].
  cbn in H. apply np_bind; [apply eval_block_np; [assumption | lia]|]. intros x _.
  apply np_bind; [apply IH; [assumption | lia]|]. intros; apply np_ok.
Qed.

Theorem eval_item_np : forall q fs w it, np (eval_item dec q fs w it).
Proof.
  intros q fs w it. unfold eval_item, eval_open.
  pose proof (open_day_np fs (fst it) (snd it)) as H.
  destruct (open_day fs (fst it) (snd it)) as [[d m]| |] eqn:E; [|apply np_ok | contradiction H; reflexivity].
  apply np_bind; [|intros; apply np_ok].
  apply eval_blocks_np; [eapply open_day_shaped; eassumption | lia].
Qed.

(* c06_no_panic: for ALL codecs, ALL queries (attribute selections, time ranges) and ALL file-system states (all
   directory names, all metadata bytes, all column bytes) the reader answers Ok or Err, never Panic.  `run_query` is
   a structurally recursive Gallina function: it terminates on every input. *)
Theorem no_panic : forall q fs tfirst tlast, run_query dec q fs tfirst tlast <> Panic.
Proof.
  intros q fs tfirst tlast. unfold run_query. apply np_bind; [apply walk_np|]. intros items _.
  apply np_bind; [apply window_np|]. intros w _.
  apply np_bind; [|intros; apply np_ok].
  apply np_map_res. intros it _. apply eval_item_np.
Qed.

End B.
