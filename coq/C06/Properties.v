(* C06 properties: corrupted or foreign files never crash a reader and stay contained.
   Only theorem statements (proved in ProofsA/B/C), their assumptions and one non-vacuity example each. *)
From Coq Require Import List ZArith NArith Bool.
From GoProbe.Base Require Import CorrLib.
From GoProbe.C03 Require Import Model.
From GoProbe.C06 Require Import Model ProofsA ProofsB ProofsC ProofsD.
Import ListNotations.
Open Scope N_scope.

(* ---- c06_no_panic: for ALL codecs (any total function), ALL queries (attribute selection, time range) and ALL
   file-system states (every directory name, every `.blockmeta` byte string, every column byte string, files
   present or absent) the reader answers Ok or Err and never Panic: every index / slice expression of the read path
   is in range under the checks the (fixed) code performs.  `run_query` is a structurally recursive function, so it
   also terminates on every input (the "no hang" half at model level; the real engine is only observed). *)
Theorem c06_no_panic : forall (dec : N -> bytes -> N -> option bytes) (q : query) (fs : fsys) (tfirst tlast : Z),
  run_query dec q fs tfirst tlast <> Panic.
Proof. exact no_panic. Qed.
Print Assumptions c06_no_panic.

(* ---- c06_containment: two file-system states with the same work items for the query; a work item `it` whose
   directory reads the same in both states (the damage is elsewhere).  If for each end of the covered interval the
   deciding directory (first / last work item) reads the same too, or lies in a day strictly before / after the
   day of `it`, then `it` contributes exactly the same rows to both results, whatever the other directories hold. *)
Theorem c06_containment : forall (dec : N -> bytes -> N -> option bytes) q fs fs' tf tl r r' items k it,
  walk tf tl (f_days fs) = Ok items -> walk tf tl (f_days fs') = Ok items ->
  run_query dec q fs tf tl = Ok r -> run_query dec q fs' tf tl = Ok r' ->
  nth_error items k = Some it ->
  open_day fs (fst it) (snd it) = open_day fs' (fst it) (snd it) ->
  (item_range fs (hd it items) = item_range fs' (hd it items) \/ (dir_ts (fst (hd it items)) < dir_ts (fst it))%Z) ->
  (item_range fs (last items it) = item_range fs' (last items it) \/ (dir_ts (fst it) < dir_ts (fst (last items it)))%Z) ->
  exists dr dr', nth_error (qr_days r) k = Some dr /\ nth_error (qr_days r') k = Some dr' /\ dr_rows dr = dr_rows dr'.
Proof. exact containment. Qed.
Print Assumptions c06_containment.

(* ---- c06_accounting: the statistics count exactly what was skipped.  Per work item either the directory could
   not be opened (DirectoriesCorrupted 1, no rows, no blocks) or every block of its metadata got exactly one decision
   (used / skipped / out of range), the rows are those of the used blocks, BlocksCorrupted is the number of skipped
   blocks and BlocksProcessed the number of blocks not out of range; the query statistics are the sums. *)
Theorem c06_accounting : forall (dec : N -> bytes -> N -> option bytes) q fs tf tl r,
  run_query dec q fs tf tl = Ok r ->
  exists items w, walk tf tl (f_days fs) = Ok items /\ window fs tf tl items = Ok w /\
    Forall2 (accounted dec q fs w) items (qr_days r) /\
    qr_stats r = [sumN (map dr_processed (qr_days r)); sumN (map dr_corrupted (qr_days r));
                  N.of_nat (length (qr_days r)); sumN (map dr_dircorrupt (qr_days r))].
Proof. exact accounting. Qed.
Print Assumptions c06_accounting.

(* ---- c06_seek_elision_sound: the reader keeps, per column file, the position of the file and `lastSeekPos` and only
   seeks when a block does not start there.  Under validateBlock (a read consumes exactly Len bytes or fails before /
   at the block start) this state never shows: a day evaluated through the reader states decides every block exactly
   as if each block were read at its own offset.  `no_wrap`: the uint64 running sums of the stored lengths do not wrap
   (a wrap needs more than 2^32 blocks in one day). *)
Theorem c06_seek_elision_sound : forall (dec : N -> bytes -> N -> option bytes) q w dts d m, no_wrap m ->
  eval_blocks_st dec init_states q w dts d m 0 (m_blocks m) = eval_blocks dec q w dts d m 0 (m_blocks m).
Proof. exact seek_elision_sound. Qed.
Print Assumptions c06_seek_elision_sound.

(* ---- c06_block_containment: two states of a day that differ only in block b (descriptors, entry counts, timestamp,
   stored bytes of that block in any column; same offsets for the other blocks): every other block of the day gets
   exactly the same decision - the same rows, or skipped, or out of range. *)
Theorem c06_block_containment : forall (dec : N -> bytes -> N -> option bytes) q w dts d m d' m' b xs xs',
  no_wrap m -> no_wrap m' -> length (m_blocks m) = length (m_blocks m') ->
  (forall j, j <> b -> nth_error (m_blocks m) j = nth_error (m_blocks m') j /\
                       forall c, block_view d m j c = block_view d' m' j c) ->
  eval_blocks_st dec init_states q w dts d m 0 (m_blocks m) = Ok xs ->
  eval_blocks_st dec init_states q w dts d' m' 0 (m_blocks m') = Ok xs' ->
  forall j, j <> b -> nth_error xs j = nth_error xs' j.
Proof. exact block_containment. Qed.
Print Assumptions c06_block_containment.

(* ------------------------------------------------------------------ non-vacuity *)

(* a valid day with one block of one IPv4 flow, written through the C03 marshaller *)
Definition ex_blk (n : N) : colblk := {| cb_len := n; cb_raw := n; cb_enc := 1 |}.
Definition ex_meta (ts : Z) : meta :=
  {| m_version := 1;
     m_cols := map (fun n => {| col_cur := n; col_blocks := [ex_blk n] |}) [4; 4; 1; 2; 2; 2; 2; 2];
     m_blocks := [{| bi_ts := ts; bi_traffic := {| t_v4 := 1; t_v6 := 0; t_drops := 0 |} |}];
     m_traffic := {| t_v4 := 1; t_v6 := 0; t_drops := 0 |};
     m_counts := {| c_br := 7; c_bs := 8; c_pr := 1; c_ps := 2 |} |}.
Definition ex_bytes (m : meta) : bytes := match marshal m [] with Ok b => b | _ => [] end.
Definition ex_cols : list (option bytes) :=
  [Some [10; 0; 0; 1]; Some [10; 0; 0; 2]; Some [6]; Some [1; 187]; Some [1; 7]; Some [1; 8]; Some [1; 1]; Some [1; 2]].
Definition ex_day (dts : Z) (meta_bytes : bytes) : day :=
  {| d_name := fmt_int dts; d_meta := Some meta_bytes; d_cols := ex_cols |}.
Definition ex_fs (second : bytes) : fsys :=
  {| f_days := [ex_day 1700006400 (ex_bytes (ex_meta 1700006700)); ex_day 1700092800 second];
     f_lo := 1698796800; f_hi := 1701388800 |}.
Definition ex_good : fsys := ex_fs (ex_bytes (ex_meta 1700093100)).
(* the second day's metadata: RawLen of the first column set to 2^31, a hostile value *)
Definition ex_bad : fsys :=
  ex_fs (ex_bytes {| m_version := 1;
                     m_cols := {| col_cur := 4; col_blocks := [{| cb_len := 4; cb_raw := 2147483648; cb_enc := 3 |}] |}
                               :: tl (m_cols (ex_meta 1700093100));
                     m_blocks := m_blocks (ex_meta 1700093100);
                     m_traffic := m_traffic (ex_meta 1700093100); m_counts := m_counts (ex_meta 1700093100) |}).
Definition ex_q : query := {| q_sip := true; q_dip := true; q_proto := true; q_dport := true |}.
Definition ex_dec : N -> bytes -> N -> option bytes := fun _ _ _ => None.
Definition ex_run (fs : fsys) := run_query ex_dec ex_q fs 1700000000 1700200000.

(* the intact database returns one row per day, nothing skipped; the damaged one returns the first day's row and
   counts one corrupted block (so c06_no_panic is about answers that carry data, not only about errors) *)
Example c06_no_panic_nonvacuous :
  (exists r, ex_run ex_good = Ok r /\ map (fun d => length (dr_rows d)) (qr_days r) = [1%nat; 1%nat] /\ qr_stats r = [2; 0; 2; 0])
  /\ (exists r, ex_run ex_bad = Ok r /\ map (fun d => length (dr_rows d)) (qr_days r) = [1%nat; 0%nat] /\ qr_stats r = [2; 1; 2; 0]).
Proof. split; vm_compute; eexists; repeat split; reflexivity. Qed.

(* the hypotheses of c06_containment hold for the first day of (ex_good, ex_bad) - the damaged directory is the last
   work item, a later day - and the contained rows are not empty *)
Definition ex_items : list (Z * bytes) := [(1700006400%Z, []); (1700092800%Z, [])].
Definition ex_it : Z * bytes := (1700006400%Z, []).
Example c06_containment_nonvacuous :
  walk 1700000000 1700200000 (f_days ex_good) = Ok ex_items /\ walk 1700000000 1700200000 (f_days ex_bad) = Ok ex_items
  /\ is_ok (ex_run ex_good) = true /\ is_ok (ex_run ex_bad) = true
  /\ nth_error ex_items 0 = Some ex_it /\ open_day ex_good (fst ex_it) (snd ex_it) = open_day ex_bad (fst ex_it) (snd ex_it)
  /\ item_range ex_good (hd ex_it ex_items) = item_range ex_bad (hd ex_it ex_items)
  /\ (dir_ts (fst ex_it) < dir_ts (fst (last ex_items ex_it)))%Z
  /\ open_day ex_good (fst (last ex_items ex_it)) (snd (last ex_items ex_it))
     <> open_day ex_bad (fst (last ex_items ex_it)) (snd (last ex_items ex_it))
  /\ match ex_run ex_bad with Ok r => map (fun d => length (dr_rows d)) (qr_days r) | _ => [] end = [1%nat; 0%nat].
Proof. vm_compute. repeat split; try reflexivity. discriminate. Qed.

(* the accounting theorem's hypothesis holds with a skipped block *)
Example c06_accounting_nonvacuous : exists r, ex_run ex_bad = Ok r /\ nth 1 (qr_stats r) 0 = 1.
Proof. vm_compute. eexists; split; reflexivity. Qed.

(* a day with two blocks; in the damaged state RawLen of the first block of the sip column is 2 instead of 4 (the
   seeded defect's trigger): the hypotheses of c06_block_containment hold for b = 0 and the second block is Used *)
Definition ex_meta2 (raw0 : N) : meta :=
  {| m_version := 1;
     m_cols := {| col_cur := 8; col_blocks := [{| cb_len := 4; cb_raw := raw0; cb_enc := 1 |}; ex_blk 4] |}
               :: map (fun n => {| col_cur := 2 * n; col_blocks := [ex_blk n; ex_blk n] |}) [4; 1; 2; 2; 2; 2; 2];
     m_blocks := [{| bi_ts := 1700006700; bi_traffic := {| t_v4 := 1; t_v6 := 0; t_drops := 0 |} |};
                  {| bi_ts := 1700007000; bi_traffic := {| t_v4 := 1; t_v6 := 0; t_drops := 0 |} |}];
     m_traffic := {| t_v4 := 2; t_v6 := 0; t_drops := 0 |};
     m_counts := {| c_br := 14; c_bs := 16; c_pr := 2; c_ps := 4 |} |}.
Definition ex_day2 : day :=
  {| d_name := fmt_int 1700006400; d_meta := None;
     d_cols := [Some [10; 0; 0; 1; 10; 0; 0; 3]; Some [10; 0; 0; 2; 10; 0; 0; 4]; Some [6; 17]; Some [1; 187; 0; 53];
                Some [1; 7; 1; 7]; Some [1; 8; 1; 8]; Some [1; 1; 1; 1]; Some [1; 2; 1; 2]] |}.
Definition ex_eval (raw0 : N) :=
  eval_blocks_st ex_dec init_states ex_q (1700000000%Z, 1700200000%Z) 1700006400 ex_day2 (ex_meta2 raw0) 0 (m_blocks (ex_meta2 raw0)).

Lemma ex_no_wrap : forall raw0, no_wrap (ex_meta2 raw0).
Proof. intros raw0. unfold no_wrap, ex_meta2; cbn. repeat constructor; cbn; try reflexivity. Qed.

Example c06_block_containment_nonvacuous :
  no_wrap (ex_meta2 4) /\ no_wrap (ex_meta2 2)
  /\ (forall j, j <> 0%nat -> nth_error (m_blocks (ex_meta2 4)) j = nth_error (m_blocks (ex_meta2 2)) j /\
                              forall c, block_view ex_day2 (ex_meta2 4) j c = block_view ex_day2 (ex_meta2 2) j c)
  /\ (exists xs xs', ex_eval 4 = Ok xs /\ ex_eval 2 = Ok xs'
        /\ map is_skipped xs = [false; false] /\ map is_skipped xs' = [true; false]
        /\ map (fun x => length (decision_rows x)) xs' = [0%nat; 1%nat]).
Proof.
  split; [apply ex_no_wrap|]. split; [apply ex_no_wrap|]. split.
  - intros j Hj. destruct j as [|j]; [contradiction Hj; reflexivity|]. split; [reflexivity|].
    intros c. do 8 (destruct c as [|c]; [destruct j; reflexivity|]). destruct j; reflexivity.
  - vm_compute. do 2 eexists. repeat split; reflexivity.
Qed.

Example c06_seek_elision_sound_nonvacuous :
  no_wrap (ex_meta2 4) /\ exists xs, ex_eval 4 = Ok xs /\ map (fun x => length (decision_rows x)) xs = [1%nat; 1%nat].
Proof. split; [apply ex_no_wrap|]. vm_compute. eexists; split; reflexivity. Qed.
