(* C06 proofs, part D: the sequential-read position (lastSeekPos / seek elision) is sound under validateBlock - a day
   read through the reader states gives exactly the block-at-its-own-offset results - and block-level containment. *)
From Coq Require Import List ZArith NArith Bool Lia ZifyBool ZifyNat ZifyN.
From GoProbe.Base Require Import CorrLib.
From GoProbe.C03 Require Import Model.
From GoProbe.C06 Require Import Model ProofsA.
Import ListNotations.
Open Scope N_scope.

(* ------------------------------------------------------------------ offsets without uint64 wrap-around *)

Fixpoint mono (off : N) (bs : list colblk) : Prop :=
  match bs with
  | [] => True
  | b :: r => off + cb_len b < 2 ^ 64 /\ mono (off + cb_len b) r
  end.

(* the block offsets of every column are the exact running sums of the stored lengths (they are computed in uint64;
   a wrap needs more than 2^32 blocks in one day) *)
Definition no_wrap (m : meta) : Prop := Forall (fun c => mono 0 (col_blocks c)) (m_cols m).

Lemma offsets_succ : forall bs off j o blk o',
  mono off bs -> nth_error (col_offsets_from off bs) j = Some o -> nth_error bs j = Some blk ->
  nth_error (col_offsets_from off bs) (S j) = Some o' -> o' = o + cb_len blk.
Proof.
  induction bs as [|b r IH]; intros off j o blk o' M Ho Hb Ho'; [destruct j; discriminate|].
  destruct M as [M1 M2]. cbn [col_offsets_from] in Ho, Ho'.
  assert (U : u64 (off + cb_len b) = off + cb_len b) by (unfold u64; apply N.mod_small; assumption).
  rewrite U in Ho, Ho'.
  destruct j as [|j]; cbn [nth_error] in Ho, Hb, Ho'.
  - inversion Ho; inversion Hb; subst. destruct r; cbn in Ho'; [discriminate|]. inversion Ho'; reflexivity.
  - eapply IH; eassumption.
Qed.

(* ------------------------------------------------------------------ the reader state invariant *)

(* either the file is where lastSeekPos says, or lastSeekPos lies below every offset still to be read (so the next
   read seeks) *)
Definition Inv (st : fstate) (L : N) : Prop := fst st = snd st \/ snd st < L.

Lemma Inv_mono : forall st L L', Inv st L -> L <= L' -> Inv st L'.
Proof. intros st L L' [H|H] HL; [left; assumption | right; lia]. Qed.

Section D.
Variable dec : N -> bytes -> N -> option bytes.

Lemma pre_check_facts : forall file off b, pre_check file off b = None ->
  exists f, file = Some f /\ cb_len b <> 0 /\ (cb_enc b = 1 -> cb_raw b = cb_len b).
Proof.
  intros file off b H. unfold pre_check in H.
  destruct (cb_raw b =? 0) eqn:R0; [discriminate|]. apply N.eqb_neq in R0.
  destruct file as [f|]; [|discriminate]. exists f. split; [reflexivity|].
  destruct (_ || _); [discriminate|].
  destruct ((cb_enc b =? 1) && negb (cb_raw b =? cb_len b)) eqn:G1; [discriminate|].
  destruct (negb (cb_enc b =? 1) && (max_raw (cb_enc b) (cb_len b) <? cb_raw b)) eqn:G2; [discriminate|].
  destruct (cb_enc b =? 1) eqn:E1.
  - cbn [andb] in G1. apply negb_false_iff in G1. apply N.eqb_eq in G1. apply N.eqb_eq in E1.
    split; [lia | intros _; assumption].
  - apply N.eqb_neq in E1. cbn [negb] in G2. rewrite andb_true_l in G2. unfold max_raw in G2.
    split; [destruct (cb_enc b =? 3); apply N.ltb_ge in G2; lia | intros E; contradiction].
Qed.

(* a successful read leaves the file right behind the stored block *)
Lemma read_body_ok_pos : forall f pos b x p', (cb_enc b = 1 -> cb_raw b = cb_len b) ->
  read_body dec f pos b = (Ok x, p') -> p' = pos + cb_len b.
Proof.
  intros f pos b x p' R H. unfold read_body in H.
  destruct (reslice buf_cap (cb_raw b)); try (inversion H; fail).
  destruct (cb_enc b =? 1) eqn:E1.
  - apply N.eqb_eq in E1. rewrite <- (R E1). destruct (_ <? _)%nat; inversion H; reflexivity.
  - destruct ((cb_enc b =? 2) || (cb_enc b =? 3)); [|inversion H].
    destruct (reslice buf_cap (cb_len b)); try (inversion H; fail).
    destruct (_ <? _)%nat; [inversion H|].
    destruct (firstn _ _); inversion H; reflexivity.
Qed.

(* one block read through the state = the block read at its own offset, and the invariant moves behind the block *)
Lemma read_block_st_spec : forall st file off b, Inv st off ->
  fst (read_block_st dec st file off b) = read_block dec file off b /\
  forall L', off + cb_len b <= L' -> Inv (snd (read_block_st dec st file off b)) L'.
Proof.
  intros st file off b I. unfold read_block_st, read_block.
  destruct (pre_check file off b) as [r|] eqn:P; cbn [fst snd].
  - split; [reflexivity|]. intros L' HL. eapply Inv_mono; [eassumption | lia].
  - destruct (pre_check_facts _ _ _ P) as (f & -> & Hlen & Hraw).
    assert (Hpos : (if snd st =? off then fst st else off) = off).
    { destruct (snd st =? off) eqn:E; [|reflexivity]. apply N.eqb_eq in E. destruct I as [I|I]; lia. }
    rewrite Hpos. destruct (read_body dec f off b) as [r p'] eqn:B. cbn [fst snd]. split; [reflexivity|].
    intros L' HL. destruct r as [x| |]; cbn [is_ok].
    + left. cbn [fst snd]. eapply read_body_ok_pos; eassumption.
    + right. cbn [snd]. lia.
    + right. cbn [snd]. lia.
Qed.

(* ------------------------------------------------------------------ columns of one block *)

Definition pre (sts : list fstate) (m : meta) (b c : nat) : Prop :=
  forall col off, nth_error (m_cols m) c = Some col -> nth_error (col_offsets col) b = Some off -> Inv (st_of sts c) off.
Definition post (sts : list fstate) (m : meta) (b c : nat) : Prop :=
  forall col off blk, nth_error (m_cols m) c = Some col -> nth_error (col_offsets col) b = Some off ->
    nth_error (col_blocks col) b = Some blk -> Inv (st_of sts c) (off + cb_len blk).

Lemma pre_post : forall sts m b c, pre sts m b c -> post sts m b c.
Proof. intros sts m b c H col off blk H1 H2 H3. eapply Inv_mono; [eapply H; eassumption | lia]. Qed.

Lemma st_of_upd_other : forall sts c c' v, c' <> c -> st_of (upd c v sts) c' = st_of sts c'.
Proof.
  unfold st_of. induction sts as [|x t IH]; intros c c' v H; [destruct c; reflexivity|].
  destruct c as [|c]; destruct c' as [|c']; cbn; try reflexivity; try lia. apply IH. lia.
Qed.

Lemma st_of_upd_same : forall sts c v, st_of (upd c v sts) c = v \/ st_of (upd c v sts) c = (0, 0).
Proof.
  unfold st_of. induction sts as [|x t IH]; intros c v; [right; destruct c; reflexivity|].
  destruct c as [|c]; cbn; [left; reflexivity | apply IH].
Qed.

Lemma nth_res_error : forall A i (l : list A), nth_res i l = match nth_error l i with Some a => Ok a | None => Panic end.
Proof. reflexivity. Qed.

Lemma read_col_st_spec : forall sts d m b c, pre sts m b c ->
  fst (read_col_st dec sts d m b c) = read_col dec d m b c /\
  (forall c', c' <> c -> st_of (snd (read_col_st dec sts d m b c)) c' = st_of sts c') /\
  post (snd (read_col_st dec sts d m b c)) m b c.
Proof.
  intros sts d m b c P. unfold read_col_st, read_col. rewrite !nth_res_error.
  destruct (nth_error (m_cols m) c) as [col|] eqn:Ec; cbn [res_bind fst snd].
  2:{ split; [reflexivity|]. split; [reflexivity|]. intros col off blk H; rewrite Ec in H; discriminate. }
  rewrite !nth_res_error.
  destruct (nth_error (col_blocks col) b) as [blk|] eqn:Eb; cbn [res_bind fst snd].
  2:{ destruct (nth_error (col_offsets col) b); (split; [reflexivity|]; split; [reflexivity|]; intros col0 off0 blk0 H1 H2 H3;
        rewrite Ec in H1; inversion H1; subst; rewrite Eb in H3; discriminate). }
  destruct (nth_error (col_offsets col) b) as [off|] eqn:Eo; cbn [res_bind fst snd].
  2:{ split; [reflexivity|]. split; [reflexivity|]. intros col0 off0 blk0 H1 H2 H3. rewrite Ec in H1; inversion H1; subst. rewrite Eo in H2; discriminate. }
  destruct (read_block_st_spec (st_of sts c) (match nth_error (d_cols d) c with Some f => f | None => None end) off blk
              (P col off Ec Eo)) as [R1 R2].
  destruct (read_block_st dec (st_of sts c) _ off blk) as [r st'] eqn:E. cbn [fst snd] in *.
  split; [assumption|]. split; [intros c' Hc; apply st_of_upd_other; assumption|].
  intros col0 off0 blk0 H1 H2 H3. rewrite Ec in H1; inversion H1; subst col0. rewrite Eo in H2; inversion H2; subst off0.
  rewrite Eb in H3; inversion H3; subst blk0.
  destruct (st_of_upd_same sts c st') as [->| ->]; [apply R2; lia | left; reflexivity].
Qed.

Lemma pre_transfer : forall sts sts' m b c, st_of sts' c = st_of sts c -> pre sts m b c -> pre sts' m b c.
Proof. intros sts sts' m b c E P col off H1 H2. rewrite E. eapply P; eassumption. Qed.
Lemma post_transfer : forall sts sts' m b c, st_of sts' c = st_of sts c -> post sts m b c -> post sts' m b c.
Proof. intros sts sts' m b c E P col off blk H1 H2 H3. rewrite E. eapply P; eassumption. Qed.

Lemma read_cols_st_spec : forall d m b cs sts, NoDup cs ->
  (forall c, In c cs -> pre sts m b c) -> (forall c, post sts m b c) ->
  fst (read_cols_st dec sts d m b cs) = read_cols dec d m b cs /\
  forall c, post (snd (read_cols_st dec sts d m b cs)) m b c.
Proof.
  intros d m b cs. induction cs as [|c cs IH]; intros sts ND Hpre Hpost; cbn [read_cols_st read_cols].
  - split; [reflexivity | assumption].
  - inversion ND as [|? ? Hnin ND']; subst.
    destruct (read_col_st_spec sts d m b c (Hpre c (or_introl eq_refl))) as (R1 & R2 & R3).
    destruct (read_col_st dec sts d m b c) as [x sts1]. cbn [fst snd] in R1, R2, R3. rewrite <- R1.
    assert (Hpost1 : forall c0, post sts1 m b c0).
    { intros c0. destruct (Nat.eq_dec c0 c) as [->|N]; [assumption|]. eapply post_transfer; [apply R2; assumption | apply Hpost]. }
    destruct x as [data| |]; cbn [fst snd].
    + assert (Hpre1 : forall c0, In c0 cs -> pre sts1 m b c0).
      { intros c0 Hin. eapply pre_transfer; [apply R2; intros ->; contradiction | apply Hpre; right; assumption]. }
      destruct (IH sts1 ND' Hpre1 Hpost1) as [I1 I2].
      destruct (read_cols_st dec sts1 d m b cs) as [o sts2]. cbn [fst snd] in *. rewrite I1. split; [reflexivity | assumption].
    + split; [reflexivity | assumption].
    + split; [reflexivity | assumption].
Qed.

Lemma NoDup_query_cols : forall q, NoDup (query_cols q).
Proof.
  intros [[] [] [] []]; cbn; repeat constructor; cbn; intuition discriminate.
Qed.

(* ------------------------------------------------------------------ blocks of one day *)

Definition DI (sts : list fstate) (m : meta) (b : nat) : Prop := forall c, pre sts m b c.

Lemma eval_block_st_spec : forall sts q w dts d m b bi, DI sts m b ->
  fst (eval_block_st dec sts q w dts d m b bi) = eval_block dec q w dts d m b bi /\
  forall c, post (snd (eval_block_st dec sts q w dts d m b bi)) m b c.
Proof.
  intros sts q w dts d m b bi I. unfold eval_block_st, eval_block.
  destruct (_ || _)%Z; cbn [fst snd]; [split; [reflexivity | intros c; apply pre_post; apply I]|].
  destruct (negb _); cbn [fst snd]; [split; [reflexivity | intros c; apply pre_post; apply I]|].
  destruct (read_cols_st_spec d m b (query_cols q) sts (NoDup_query_cols q) (fun c _ => I c) (fun c => pre_post _ _ _ _ (I c))) as [R1 R2].
  destruct (read_cols_st dec sts d m b (query_cols q)) as [rc sts']. cbn [fst snd] in *. rewrite R1. split; [reflexivity | assumption].
Qed.

Lemma post_next : forall sts m b, no_wrap m -> (forall c, post sts m b c) -> DI sts m (S b).
Proof.
  intros sts m b NW P c col o' Hc Ho'.
  assert (Hlen : length (col_offsets col) = length (col_blocks col)) by (unfold col_offsets; apply col_offsets_from_length).
  assert (Hb : (S b < length (col_offsets col))%nat) by (apply nth_error_Some; rewrite Ho'; discriminate).
  destruct (nth_error (col_offsets col) b) as [o|] eqn:Eo; [|apply nth_error_None in Eo; lia].
  destruct (nth_error (col_blocks col) b) as [blk|] eqn:Eb; [|apply nth_error_None in Eb; lia].
  unfold no_wrap in NW. rewrite Forall_forall in NW. pose proof (NW col (nth_error_In _ _ Hc)) as M.
  unfold col_offsets in Eo, Ho'. rewrite (offsets_succ _ _ _ _ _ _ M Eo Eb Ho').
  eapply P; eassumption.
Qed.

Lemma eval_blocks_st_spec : forall q w dts d m bis b sts, no_wrap m -> DI sts m b ->
  eval_blocks_st dec sts q w dts d m b bis = eval_blocks dec q w dts d m b bis.
Proof.
  intros q w dts d m bis. induction bis as [|bi r IH]; intros b sts NW I; cbn [eval_blocks_st eval_blocks]; [reflexivity|].
  destruct (eval_block_st_spec sts q w dts d m b bi I) as [R1 R2].
  destruct (eval_block_st dec sts q w dts d m b bi) as [x sts']. cbn [fst snd] in *. rewrite R1.
  destruct (eval_block dec q w dts d m b bi); cbn [res_bind]; try reflexivity.
  rewrite (IH (S b) sts' NW (post_next _ _ _ NW R2)). reflexivity.
Qed.

Lemma st_of_init : forall c, st_of init_states c = (0, 0).
Proof.
  intros c. unfold st_of, init_states. do 8 (destruct c as [|c]; [reflexivity|]). cbn. destruct c; reflexivity.
Qed.

(* seek elision is sound: a day evaluated through the reader states (file position, lastSeekPos per column) decides
   every block exactly as if each block were read at its own offset *)
Theorem seek_elision_sound : forall q w dts d m, no_wrap m ->
  eval_blocks_st dec init_states q w dts d m 0 (m_blocks m) = eval_blocks dec q w dts d m 0 (m_blocks m).
Proof.
  intros q w dts d m NW. apply eval_blocks_st_spec; [assumption|].
  intros c col off _ _. rewrite st_of_init. left; reflexivity.
Qed.

(* ------------------------------------------------------------------ block-level containment *)

(* everything a reader uses of block j of column c: descriptor, offset, size of the column file and the stored bytes *)
Definition block_view (d : day) (m : meta) (j c : nat) : option (colblk * N * option (nat * bytes)) :=
  match nth_error (m_cols m) c with
  | None => None
  | Some col =>
    match nth_error (col_blocks col) j, nth_error (col_offsets col) j with
    | Some blk, Some off =>
      Some (blk, off, match nth_error (d_cols d) c with
                      | Some (Some f) => Some (length f, firstn (N.to_nat (cb_len blk)) (skipn (N.to_nat off) f))
                      | _ => None
                      end)
    | _, _ => None
    end
  end.

Lemma read_block_ext : forall f f' off b, length f = length f' ->
  firstn (N.to_nat (cb_len b)) (skipn (N.to_nat off) f) = firstn (N.to_nat (cb_len b)) (skipn (N.to_nat off) f') ->
  read_block dec (Some f) off b = read_block dec (Some f') off b.
Proof.
  intros f f' off b HL HR. unfold read_block.
  assert (P : pre_check (Some f) off b = pre_check (Some f') off b) by (unfold pre_check; rewrite HL; reflexivity).
  rewrite <- P. destruct (pre_check (Some f) off b) eqn:E; [reflexivity|].
  destruct (pre_check_facts _ _ _ E) as (f0 & _ & _ & Hraw).
  unfold read_body. destruct (reslice buf_cap (cb_raw b)); try reflexivity.
  destruct (cb_enc b =? 1) eqn:E1.
  - apply N.eqb_eq in E1. rewrite (Hraw E1), HR. reflexivity.
  - rewrite HR. reflexivity.
Qed.

Lemma read_col_view : forall d m d' m' j c, block_view d m j c = block_view d' m' j c ->
  read_col dec d m j c = read_col dec d' m' j c.
Proof.
  intros d m d' m' j c H. unfold block_view in H. unfold read_col, nth_res.
  destruct (nth_error (m_cols m) c) as [col|]; destruct (nth_error (m_cols m') c) as [col'|]; cbn [res_bind];
    [| | |reflexivity].
  - destruct (nth_error (col_blocks col) j) as [blk|]; destruct (nth_error (col_offsets col) j) as [off|];
      destruct (nth_error (col_blocks col') j) as [blk'|]; destruct (nth_error (col_offsets col') j) as [off'|];
      cbn [res_bind]; try discriminate H; try reflexivity.
    inversion H as [[H1 H2 H3]]; subst.
    destruct (nth_error (d_cols d) c) as [[f|]|]; destruct (nth_error (d_cols d') c) as [[f'|]|]; try discriminate H3; try reflexivity.
    inversion H3. apply read_block_ext; assumption.
  - destruct (nth_error (col_blocks col) j) as [blk|]; destruct (nth_error (col_offsets col) j) as [off|];
      cbn [res_bind]; try discriminate H; reflexivity.
  - destruct (nth_error (col_blocks col') j) as [blk'|]; destruct (nth_error (col_offsets col') j) as [off'|];
      cbn [res_bind]; try discriminate H; reflexivity.
Qed.

Lemma read_cols_view : forall d m d' m' j cs, (forall c, block_view d m j c = block_view d' m' j c) ->
  read_cols dec d m j cs = read_cols dec d' m' j cs.
Proof.
  intros d m d' m' j cs H. induction cs as [|c cs IH]; cbn; [reflexivity|].
  rewrite (read_col_view _ _ _ _ _ _ (H c)), IH. reflexivity.
Qed.

Lemma eval_blocks_nth : forall q w dts d m bis b0 xs, eval_blocks dec q w dts d m b0 bis = Ok xs ->
  length xs = length bis /\
  forall j bi, nth_error bis j = Some bi -> exists x, nth_error xs j = Some x /\ eval_block dec q w dts d m (b0 + j) bi = Ok x.
Proof.
  intros q w dts d m bis. induction bis as [|bi0 r IH]; intros b0 xs H; cbn in H.
  - inversion H; subst. split; [reflexivity|]. intros j bi Hj; destruct j; discriminate.
  - destruct (eval_block dec q w dts d m b0 bi0) as [x| |] eqn:E; cbn in H; try discriminate.
    destruct (eval_blocks dec q w dts d m (S b0) r) as [ys| |] eqn:E2; cbn in H; try discriminate.
    inversion H; subst. destruct (IH _ _ E2) as [L N]. split; [cbn; f_equal; assumption|].
    intros j bi Hj. destruct j as [|j]; cbn in Hj.
    + inversion Hj; subst. exists x. split; [reflexivity|]. rewrite Nat.add_0_r; assumption.
    + destruct (N j bi Hj) as (y & Y1 & Y2). exists y. split; [assumption|]. rewrite <- Y2. f_equal. lia.
Qed.

(* c06_block_containment: two states of a day that differ only in block b (its descriptors, its entry counts, its
   timestamp, its stored bytes): every other block gets the same decision (same rows / skipped / out of range). *)
Theorem block_containment : forall q w dts d m d' m' b xs xs',
  no_wrap m -> no_wrap m' -> length (m_blocks m) = length (m_blocks m') ->
  (forall j, j <> b -> nth_error (m_blocks m) j = nth_error (m_blocks m') j /\
                       forall c, block_view d m j c = block_view d' m' j c) ->
  eval_blocks_st dec init_states q w dts d m 0 (m_blocks m) = Ok xs ->
  eval_blocks_st dec init_states q w dts d' m' 0 (m_blocks m') = Ok xs' ->
  forall j, j <> b -> nth_error xs j = nth_error xs' j.
Proof.
  intros q w dts d m d' m' b xs xs' NW NW' HL HS H H' j Hj.
  rewrite seek_elision_sound in H, H' by assumption.
  destruct (eval_blocks_nth _ _ _ _ _ _ _ _ H) as [L1 N1]. destruct (eval_blocks_nth _ _ _ _ _ _ _ _ H') as [L2 N2].
  destruct (HS j Hj) as [B V].
  destruct (nth_error (m_blocks m) j) as [bi|] eqn:E.
  - destruct (N1 j bi E) as (x & X1 & X2). destruct (N2 j bi (eq_sym B)) as (x' & X1' & X2').
    rewrite X1, X1'. f_equal. cbn [Nat.add] in X2, X2'.
    unfold eval_block in X2, X2'. rewrite (read_cols_view _ _ _ _ _ _ V) in X2. rewrite X2 in X2'. inversion X2'; reflexivity.
  - assert (nth_error xs j = None) as -> by (apply nth_error_None; apply nth_error_None in E; lia).
    symmetry. apply nth_error_None. apply nth_error_None in E. lia.
Qed.

End D.
