(* C06 correspondence: one case = the directory state of a mutated database (names, `.blockmeta` bytes, column
   bytes: hex strings), the results of the real decoders on its stored blocks, the query, and what the real engine
   returned in its child process.  Executable only. *)
From Coq Require Import List ZArith NArith Bool.
From GoProbe.Base Require Import CorrLib.
From GoProbe.C03 Require Import Model.
From GoProbe.C06 Require Import Model.
Import ListNotations.
Open Scope N_scope.

(* ------------------------------------------------------------------ byte strings in a case *)

(* a byte string is handed over in chunks of at most 16 bytes, each a hexadecimal number with a leading 1 digit
   (0x1aabb = the bytes aa bb): Coq reads short numbers much faster than long strings *)
Fixpoint chunk_aux (k : nat) (n : N) (acc : bytes) : bytes :=
  match k with
  | O => acc
  | S k' => chunk_aux k' (N.shiftr n 8) (N.land n 255 :: acc)
  end.
Definition chunk_bytes (n : N) : bytes := chunk_aux (N.to_nat (N.shiftr (N.log2 n) 3)) n [].
Definition unhex (l : list N) : bytes := flat_map chunk_bytes l.
Definition unhex_opt (o : option (list N)) : option bytes := option_map unhex o.

(* ------------------------------------------------------------------ the case *)

Record case := mkCase {
  c_days : list (list N * option (list N) * list (option (list N)));   (* name, .blockmeta, 8 column files *)
  c_dec : list (N * list N * N * option (list N));    (* encoder, stored bytes, RawLen, decoded bytes *)
  c_tfirst : Z; c_tlast : Z; c_lo : Z; c_hi : Z;
  c_attrs : N;                                        (* bit 0 sip, 1 dip, 2 proto, 3 dport *)
  c_status : N;                                       (* 0 ok, 1 error, 2 panic / crash, 3 out of memory, 4 hang *)
  c_rows : list N;                                    (* observed rows, 75 bytes each, canonical order *)
  c_stats : list N;                                   (* blocks processed / corrupted, directories processed / corrupted *)
  c_spec : list (Z * bool * list Z * list N);         (* per stored day: timestamp, touched by the mutation?, block
                                                         timestamps, stored flows as rows (projected on the query) *)
  c_foreign : bool;                                   (* mutation gives a directory a name no writer produces *)
  c_colonly : bool;                                   (* block structure of the metadata intact (column-file damage, or
                                                         damage to RawLen / encoder / entry counts of one block) *)
  c_block : Z                                         (* index of the only damaged block of the touched day, -1 = whole day *)
}.

Definition fs_of (c : case) : fsys :=
  {| f_days := map (fun d => match d with (n, m, cols) =>
                      {| d_name := unhex n; d_meta := unhex_opt m; d_cols := map unhex_opt cols |} end) (c_days c);
     f_lo := c_lo c; f_hi := c_hi c |}.

Definition dec_of (c : case) (enc : N) (inb : bytes) (raw : N) : option bytes :=
  match find (fun e => match e with (en, i, r, _) => (enc =? en) && (raw =? r) && bytes_eqb inb (unhex i) end) (c_dec c) with
  | Some (_, _, _, o) => unhex_opt o
  | None => None
  end.

Definition query_of (c : case) : query :=
  {| q_sip := N.testbit (c_attrs c) 0; q_dip := N.testbit (c_attrs c) 1;
     q_proto := N.testbit (c_attrs c) 2; q_dport := N.testbit (c_attrs c) 3 |}.

(* ------------------------------------------------------------------ rows *)

Fixpoint chunks (fuel : nat) (k : nat) (l : bytes) : list bytes :=
  match fuel with
  | O => []
  | S f => match l with [] => [] | _ => firstn k l :: chunks f k (skipn k l) end
  end.

Definition row_of_bytes (b : bytes) : row :=
  {| r_key := firstn 43 b;
     r_cnt := map (fun i => be_dec (firstn 8 (skipn (43 + 8 * i) b))) [0%nat; 1%nat; 2%nat; 3%nat] |}.

Definition rows_of_hex (s : list N) : list row :=
  let b := unhex s in map row_of_bytes (chunks (S (length b)) 75 b).

Definition merge_rows (a b : row) : row :=
  {| r_key := r_key a; r_cnt := map2 (fun x y => u64 (x + y)) (r_cnt a) (r_cnt b) |}.

Fixpoint ins_row (r : row) (l : list row) : list row :=
  match l with
  | [] => [r]
  | x :: t => if bytes_ltb (r_key r) (r_key x) then r :: l
              else if bytes_eqb (r_key r) (r_key x) then merge_rows x r :: t
              else x :: ins_row r t
  end.
Definition canon (l : list row) : list row := fold_left (fun acc r => ins_row r acc) l [].

Definition row_eqb (a b : row) : bool := bytes_eqb (r_key a) (r_key b) && list_eqb N.eqb (r_cnt a) (r_cnt b).

Definition row_ts (r : row) : Z := i64_of_u64 (be_dec (firstn 8 (r_key r))).

(* ------------------------------------------------------------------ corr : model = observed *)

Definition model (c : case) : res qres := run_query (dec_of c) (query_of c) (fs_of c) (c_tfirst c) (c_tlast c).

Definition corr (c : case) : bool :=
  match model c with
  | Panic => c_status c =? 2
  | Err => c_status c =? 1
  | Ok r => (c_status c =? 0)
            && list_eqb row_eqb (canon (flat_map dr_rows (qr_days r))) (rows_of_hex (c_rows c))
            && list_eqb N.eqb (qr_stats r) (c_stats c)
  end.

(* ------------------------------------------------------------------ holds : the observation satisfies the property *)

Definition in_window (c : case) (ts : Z) : bool := ((c_tfirst c <=? ts) && (ts <=? c_tlast c))%Z.
Definition in_day (dts ts : Z) : bool := ((dts <=? ts) && (ts <? dts + 86400))%Z.

Definition statN (c : case) (i : nat) : N := nth i (c_stats c) 0.

Definition holds (c : case) : bool :=
  let obs := rows_of_hex (c_rows c) in
  if c_status c =? 1 then c_foreign c                          (* a failing query is only acceptable for foreign names *)
  else if negb (c_status c =? 0) then false                    (* crash, out of memory, hang *)
  else
    (* every untouched day returns exactly its stored flows (inside the query window) *)
    forallb (fun s => match s with (dts, touched, _, rows) =>
               touched || list_eqb row_eqb (filter (fun r => in_day dts (row_ts r)) obs)
                                          (filter (fun r => in_window c (row_ts r)) (rows_of_hex rows)) end) (c_spec c)
    &&
    (* block-level containment: damage confined to one block of the touched day - every OTHER block of that day
       returns exactly its stored flows, too *)
    forallb (fun s => match s with (dts, touched, bts, rows) =>
               negb touched || (c_block c <? 0)%Z
               || forallb (fun jt => match jt with (j, ts) =>
                             (Z.of_nat j =? c_block c)%Z || negb (in_window c ts)
                             || list_eqb row_eqb (filter (fun r => (row_ts r =? ts)%Z) obs)
                                                 (filter (fun r => (row_ts r =? ts)%Z) (rows_of_hex rows)) end)
                          (combine (seq 0 (length bts)) bts) end) (c_spec c)
    &&
    (* the statistics *)
    (let blocks_in (p : bool -> bool) :=
       flat_map (fun s => match s with (_, touched, bts, _) => if p touched then filter (in_window c) bts else [] end) (c_spec c) in
     let untouched := N.of_nat (length (blocks_in negb)) in
     let touched := blocks_in (fun t => t) in
     if negb (existsb (fun s => match s with (_, t, _, _) => t end) (c_spec c)) then
       (* nothing damaged: nothing skipped *)
       (statN c 0 =? untouched) && (statN c 1 =? 0) && (statN c 3 =? 0)
     else if c_colonly c then
       (* metadata intact: every stored block in the window is processed, and the corrupted-block statistic counts
          exactly the blocks that returned nothing *)
       (statN c 0 =? untouched + N.of_nat (length touched))
       && (statN c 1 =? N.of_nat (length (filter (fun ts => negb (existsb (fun r => (row_ts r =? ts)%Z) obs)) touched)))
       && (statN c 3 =? 0)
     else
       (* damage to the metadata / the directory: the skipped blocks or the skipped directory are accounted to the
          damaged day only *)
       (untouched + statN c 1 <=? statN c 0) && (statN c 3 <=? 1)
       && (if statN c 3 =? 1
           then forallb (fun s => match s with (dts, t, _, _) => negb t || negb (existsb (fun r => in_day dts (row_ts r)) obs) end) (c_spec c)
           else true)).
