(* C06 proofs, part C: containment (damage in one day does not reach the rows of another day) and accounting
   (the statistics count exactly the skipped blocks / directories). *)
From Coq Require Import List ZArith NArith Bool Lia ZifyBool ZifyNat ZifyN.
From GoProbe.Base Require Import CorrLib.
From GoProbe.C03 Require Import Model.
From GoProbe.C06 Require Import Model ProofsA.
Import ListNotations.
Open Scope N_scope.

Ltac Zify.zify_post_hook ::= Z.to_euclidean_division_equations.

Lemma map_res_Forall2 : forall A B (f : A -> res B) l bs, map_res f l = Ok bs -> Forall2 (fun a b => f a = Ok b) l bs.
Proof.
  induction l as [|a l IH]; intros bs H; cbn in H.
  - inversion H; constructor.
  - destruct (f a) eqn:E; cbn in H; try discriminate. destruct (map_res f l) eqn:E2; cbn in H; try discriminate.
    inversion H; subst. constructor; [assumption | apply IH; reflexivity].
Qed.

Lemma Forall2_nth : forall A B (R : A -> B -> Prop) l bs k a, Forall2 R l bs -> nth_error l k = Some a ->
  exists b, nth_error bs k = Some b /\ R a b.
Proof.
  intros A B R l bs k a H. revert k. induction H as [|x y l bs Hxy H IH]; intros k Hk.
  - destruct k; discriminate.
  - destruct k as [|k]; cbn in *; [inversion Hk; subst; eexists; split; [reflexivity | assumption] | apply IH; assumption].
Qed.

Lemma Forall2_imp : forall A B (R S : A -> B -> Prop) l bs, (forall a b, R a b -> S a b) -> Forall2 R l bs -> Forall2 S l bs.
Proof. intros A B R S l bs H F. induction F; constructor; auto. Qed.

Lemma last_nonempty : forall A (l : list A) a d d', last (a :: l) d = last (a :: l) d'.
Proof.
  induction l as [|b l IH]; intros a d d'; [reflexivity|].
  change (last (b :: l) d = last (b :: l) d'). apply IH.
Qed.

(* ------------------------------------------------------------------ days are disjoint *)

Lemma day_sep : forall D0 D f ts, contains_ts D0 f = true -> contains_ts D ts = true -> (D0 < D)%Z -> (f < ts)%Z.
Proof.
  unfold contains_ts, dir_ts, epoch_day. intros D0 D f ts H1 H2 H.
  apply Z.eqb_eq in H1. apply Z.eqb_eq in H2. lia.
Qed.

(* ------------------------------------------------------------------ the covered interval *)

Definition out_of (w : Z * Z) (ts : Z) : bool := ((ts <? fst w) || (snd w <? ts))%Z.

Lemma block_time_range_in_day : forall dts m f l, block_time_range dts m = Ok (Some (f, l)) ->
  contains_ts dts f = true /\ contains_ts dts l = true.
Proof.
  intros dts m f l H. unfold block_time_range in H. destruct (length (m_blocks m)); [discriminate|].
  destruct (nth_res 0 (m_blocks m)) as [b0| |]; cbn in H; try discriminate.
  destruct (nth_res n (m_blocks m)) as [bl| |]; cbn in H; try discriminate.
  destruct (contains_ts dts (bi_ts b0)) eqn:E1; destruct (contains_ts dts (bi_ts bl)) eqn:E2; cbn in H; try discriminate.
  inversion H; subst. split; assumption.
Qed.

Lemma item_range_in_day : forall fs it f l, item_range fs it = Ok (Some (f, l)) ->
  contains_ts (dir_ts (fst it)) f = true /\ contains_ts (dir_ts (fst it)) l = true.
Proof.
  intros fs it f l H. unfold item_range in H. destruct (open_day fs (fst it) (snd it)) as [[d m]| |]; try discriminate.
  eapply block_time_range_in_day; eassumption.
Qed.

(* the lower bound of the interval is the query's, or a block timestamp inside the day of the first work item;
   the upper bound is the query's, or a block timestamp inside the day of the last work item *)
Lemma window_form : forall fs tf tl it0 rest w, window fs tf tl (it0 :: rest) = Ok w ->
  exists r0 rl, item_range fs it0 = Ok r0 /\ item_range fs (last (it0 :: rest) it0) = Ok rl /\
    fst w = match r0 with Some (f, _) => if (tf <? f)%Z then f else tf | None => tf end /\
    snd w = match rl with Some (_, l) => if (l <? tl)%Z then l else tl | None => tl end.
Proof.
  intros fs tf tl it0 rest w H. unfold window in H.
  destruct (item_range fs it0) as [r0| |] eqn:E0; cbn [res_bind] in H; try discriminate.
  destruct (item_range fs (last (it0 :: rest) it0)) as [rl| |] eqn:El; cbn [res_bind] in H; try discriminate.
  inversion H; subst. exists r0, rl. repeat split; reflexivity.
Qed.

(* Two intervals computed for the same query over two file-system states agree on every timestamp of a day D, if
   for each end: the deciding directory (first / last work item) reads the same in both states, or D lies strictly
   after the first / strictly before the last work item's day. *)
Lemma windows_agree : forall fs fs' tf tl it0 rest w w' D ts,
  window fs tf tl (it0 :: rest) = Ok w -> window fs' tf tl (it0 :: rest) = Ok w' ->
  (item_range fs it0 = item_range fs' it0 \/ (dir_ts (fst it0) < D)%Z) ->
  (item_range fs (last (it0 :: rest) it0) = item_range fs' (last (it0 :: rest) it0)
   \/ (D < dir_ts (fst (last (it0 :: rest) it0)))%Z) ->
  contains_ts D ts = true -> out_of w ts = out_of w' ts.
Proof.
  intros fs fs' tf tl it0 rest w w' D ts H H' Lo Hi C.
  destruct (window_form _ _ _ _ _ _ H) as (r0 & rl & A1 & A2 & A3 & A4).
  destruct (window_form _ _ _ _ _ _ H') as (r0' & rl' & B1 & B2 & B3 & B4).
  unfold out_of. rewrite A3, A4, B3, B4. f_equal.
  - destruct Lo as [Lo|Lo]; [rewrite A1, B1 in Lo; inversion Lo; reflexivity|].
    assert (X : forall fs0 r, item_range fs0 it0 = Ok r ->
              (ts <? match r with Some (f, _) => if (tf <? f)%Z then f else tf | None => tf end)%Z = (ts <? tf)%Z).
    { intros fs0 r Hr. destruct r as [[f l]|]; [|reflexivity].
      destruct (item_range_in_day _ _ _ _ Hr) as [Cf _]. pose proof (day_sep _ _ _ _ Cf C Lo).
      destruct (tf <? f)%Z eqn:E; [|reflexivity]. lia. }
    rewrite (X _ _ A1), (X _ _ B1). reflexivity.
  - destruct Hi as [Hi|Hi]; [rewrite A2, B2 in Hi; inversion Hi; reflexivity|].
    assert (X : forall fs0 r, item_range fs0 (last (it0 :: rest) it0) = Ok r ->
              (match r with Some (_, l) => if (l <? tl)%Z then l else tl | None => tl end <? ts)%Z = (tl <? ts)%Z).
    { intros fs0 r Hr. destruct r as [[f l]|]; [|reflexivity].
      destruct (item_range_in_day _ _ _ _ Hr) as [_ Cl]. pose proof (day_sep _ _ _ _ C Cl Hi).
      destruct (l <? tl)%Z eqn:E; [|reflexivity]. lia. }
    rewrite (X _ _ A2), (X _ _ B2). reflexivity.
Qed.

(* ------------------------------------------------------------------ rows only depend on the interval inside the day *)

Section C.
Variable dec : N -> bytes -> N -> option bytes.

Lemma eval_block_st_rows : forall sts q w w' dts d m b bi,
  (contains_ts dts (bi_ts bi) = true -> out_of w (bi_ts bi) = out_of w' (bi_ts bi)) ->
  snd (eval_block_st dec sts q w dts d m b bi) = snd (eval_block_st dec sts q w' dts d m b bi) /\
  forall x x', fst (eval_block_st dec sts q w dts d m b bi) = Ok x -> fst (eval_block_st dec sts q w' dts d m b bi) = Ok x' ->
    decision_rows x = decision_rows x'.
Proof.
  intros sts q w w' dts d m b bi A. unfold eval_block_st. fold (out_of w (bi_ts bi)). fold (out_of w' (bi_ts bi)).
  destruct (contains_ts dts (bi_ts bi)) eqn:C.
  - rewrite <- (A eq_refl). split; [reflexivity|]. intros x x' H H'. rewrite H in H'. inversion H'; reflexivity.
  - cbn [negb]. destruct (out_of w (bi_ts bi)); destruct (out_of w' (bi_ts bi)); cbn [fst snd];
      (split; [reflexivity|]; intros x x' H H'; inversion H; inversion H'; reflexivity).
Qed.

Lemma eval_blocks_st_rows : forall q w w' dts d m bis b sts xs xs',
  (forall bi, In bi bis -> contains_ts dts (bi_ts bi) = true -> out_of w (bi_ts bi) = out_of w' (bi_ts bi)) ->
  eval_blocks_st dec sts q w dts d m b bis = Ok xs -> eval_blocks_st dec sts q w' dts d m b bis = Ok xs' ->
  flat_map decision_rows xs = flat_map decision_rows xs'.
Proof.
  intros q w w' dts d m bis. induction bis as [|bi r IH]; intros b sts xs xs' A H H'; cbn in H, H'.
  - inversion H; inversion H'; reflexivity.
  - destruct (eval_block_st_rows sts q w w' dts d m b bi) as [S R]; [intros; apply A; [left; reflexivity | assumption]|].
    destruct (eval_block_st dec sts q w dts d m b bi) as [x sts1].
    destruct (eval_block_st dec sts q w' dts d m b bi) as [x' sts1']. cbn [fst snd] in S, R. subst sts1'.
    destruct x as [x| |]; cbn in H; try discriminate.
    destruct (eval_blocks_st dec sts1 q w dts d m (S b) r) as [ys| |] eqn:E2; cbn in H; try discriminate.
    destruct x' as [x'| |]; cbn in H'; try discriminate.
    destruct (eval_blocks_st dec sts1 q w' dts d m (S b) r) as [ys'| |] eqn:E2'; cbn in H'; try discriminate.
    inversion H; inversion H'; subst. cbn. f_equal.
    + apply R; reflexivity.
    + eapply IH; [|eassumption|eassumption]. intros; apply A; [right; assumption | assumption].
Qed.

Lemma eval_open_rows : forall q w w' dts o dr dr',
  (forall ts, contains_ts dts ts = true -> out_of w ts = out_of w' ts) ->
  eval_open dec q w dts o = Ok dr -> eval_open dec q w' dts o = Ok dr' -> dr_rows dr = dr_rows dr'.
Proof.
  intros q w w' dts o dr dr' A H H'. unfold eval_open in H, H'. destruct o as [[d m]| |]; try discriminate.
  - destruct (eval_blocks_st dec init_states q w dts d m 0 (m_blocks m)) as [xs| |] eqn:E; cbn in H; try discriminate.
    destruct (eval_blocks_st dec init_states q w' dts d m 0 (m_blocks m)) as [xs'| |] eqn:E'; cbn in H'; try discriminate.
    inversion H; inversion H'; subst. cbn. eapply eval_blocks_st_rows; [|eassumption|eassumption]. intros; apply A; assumption.
  - inversion H; inversion H'; reflexivity.
Qed.

(* ------------------------------------------------------------------ decomposition of a query result *)

Lemma run_query_inv : forall q fs tf tl r, run_query dec q fs tf tl = Ok r ->
  exists items w, walk tf tl (f_days fs) = Ok items /\ window fs tf tl items = Ok w /\
    Forall2 (fun it dr => eval_item dec q fs w it = Ok dr) items (qr_days r) /\
    qr_stats r = [sumN (map dr_processed (qr_days r)); sumN (map dr_corrupted (qr_days r));
                  N.of_nat (length (qr_days r)); sumN (map dr_dircorrupt (qr_days r))].
Proof.
  intros q fs tf tl r H. unfold run_query in H.
  destruct (walk tf tl (f_days fs)) as [items| |] eqn:E1; cbn in H; try discriminate.
  destruct (window fs tf tl items) as [w| |] eqn:E2; cbn in H; try discriminate.
  destruct (map_res (eval_item dec q fs w) items) as [ds| |] eqn:E; cbn in H; try discriminate.
  inversion H; subst. exists items, w. cbn.
  split; [reflexivity|]. split; [assumption|]. split; [apply map_res_Forall2; assumption | reflexivity].
Qed.

(* c06_containment.  Two file-system states with the same work items for the query (same directory names in the
   time frame); a work item `it` whose directory reads the same in both states (same resolved directory, same
   metadata and column bytes: the damage is elsewhere).  If, for each end of the covered interval, the deciding
   directory (first / last work item) also reads the same, or lies in a day strictly before / after the day of
   `it` (work items are visited in day order, so this holds whenever the damaged directory is a different day),
   then `it` contributes exactly the same rows in both results - whatever the damaged directories contain. *)
Theorem containment : forall q fs fs' tf tl r r' items k it,
  walk tf tl (f_days fs) = Ok items -> walk tf tl (f_days fs') = Ok items ->
  run_query dec q fs tf tl = Ok r -> run_query dec q fs' tf tl = Ok r' ->
  nth_error items k = Some it ->
  open_day fs (fst it) (snd it) = open_day fs' (fst it) (snd it) ->
  (item_range fs (hd it items) = item_range fs' (hd it items) \/ (dir_ts (fst (hd it items)) < dir_ts (fst it))%Z) ->
  (item_range fs (last items it) = item_range fs' (last items it) \/ (dir_ts (fst it) < dir_ts (fst (last items it)))%Z) ->
  exists dr dr', nth_error (qr_days r) k = Some dr /\ nth_error (qr_days r') k = Some dr' /\ dr_rows dr = dr_rows dr'.
Proof.
  intros q fs fs' tf tl r r' items k it W W' H H' Hk Hopen Lo Hi.
  destruct (run_query_inv _ _ _ _ _ H) as (items1 & w & A1 & A2 & A3 & _).
  destruct (run_query_inv _ _ _ _ _ H') as (items2 & w' & B1 & B2 & B3 & _).
  rewrite W in A1. inversion A1; subst items1. rewrite W' in B1. inversion B1; subst items2.
  destruct (Forall2_nth _ _ _ _ _ _ _ A3 Hk) as (dr & N1 & E1).
  destruct (Forall2_nth _ _ _ _ _ _ _ B3 Hk) as (dr' & N2 & E2).
  exists dr, dr'. split; [assumption|]. split; [assumption|].
  unfold eval_item in E1, E2. rewrite <- Hopen in E2.
  eapply eval_open_rows; [|eassumption|eassumption].
  intros ts C. destruct items as [|it0 rest]; [destruct k; discriminate|].
  cbn [hd] in Lo.
  assert (L : last (it0 :: rest) it = last (it0 :: rest) it0).
  { apply last_nonempty. }
  rewrite L in Hi.
  eapply windows_agree; eassumption.
Qed.

(* the statistics count exactly what was skipped: per work item either the directory could not be opened (one
   corrupted directory, nothing else) or every block of its metadata got one decision, the rows are those of the
   used blocks, BlocksCorrupted counts the blocks decided `Skipped` and BlocksProcessed those not out of range; the
   statistics of the query are the sums over the work items *)
Definition accounted (q : query) (fs : fsys) (w : Z * Z) (it : Z * bytes) (dr : dayres) : Prop :=
  match open_day fs (fst it) (snd it) with
  | Ok (d, m) => exists xs, eval_blocks_st dec init_states q w (dir_ts (fst it)) d m 0 (m_blocks m) = Ok xs /\
                            length xs = length (m_blocks m) /\
                            dr_rows dr = flat_map decision_rows xs /\
                            dr_corrupted dr = count is_skipped xs /\ dr_processed dr = count is_processed xs /\
                            dr_dircorrupt dr = 0
  | Err => dr_rows dr = [] /\ dr_corrupted dr = 0 /\ dr_processed dr = 0 /\ dr_dircorrupt dr = 1
  | Panic => False
  end.

Lemma eval_blocks_st_length : forall q w dts d m bis b sts xs, eval_blocks_st dec sts q w dts d m b bis = Ok xs -> length xs = length bis.
Proof.
  intros q w dts d m bis. induction bis as [|bi r IH]; intros b sts xs H; cbn in H.
  - inversion H; reflexivity.
  - destruct (eval_block_st dec sts q w dts d m b bi) as [x sts1]. destruct x; cbn in H; try discriminate.
    destruct (eval_blocks_st dec sts1 q w dts d m (S b) r) eqn:E; cbn in H; try discriminate.
    inversion H; subst. cbn. f_equal. eapply IH; eassumption.
Qed.

Theorem accounting : forall q fs tf tl r, run_query dec q fs tf tl = Ok r ->
  exists items w, walk tf tl (f_days fs) = Ok items /\ window fs tf tl items = Ok w /\
    Forall2 (accounted q fs w) items (qr_days r) /\
    qr_stats r = [sumN (map dr_processed (qr_days r)); sumN (map dr_corrupted (qr_days r));
                  N.of_nat (length (qr_days r)); sumN (map dr_dircorrupt (qr_days r))].
Proof.
  intros q fs tf tl r H. destruct (run_query_inv _ _ _ _ _ H) as (items & w & A1 & A2 & A3 & A4).
  exists items, w. repeat split; try assumption.
  eapply Forall2_imp; [|eassumption]. intros it dr E. unfold accounted. unfold eval_item, eval_open in E.
  destruct (open_day fs (fst it) (snd it)) as [[d m]| |]; try discriminate.
  - destruct (eval_blocks_st dec init_states q w (dir_ts (fst it)) d m 0 (m_blocks m)) as [xs| |] eqn:E2; cbn in E; try discriminate.
    inversion E; subst. exists xs. cbn. repeat split; try reflexivity. eapply eval_blocks_st_length; eassumption.
  - inversion E; subst. cbn. repeat split; reflexivity.
Qed.

End C.
