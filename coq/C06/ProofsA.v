(* C06 proofs, part A: no function of the read path answers Panic. *)
From Coq Require Import List ZArith NArith Bool Lia ZifyBool ZifyNat ZifyN.
From GoProbe.Base Require Import CorrLib.
From GoProbe.C03 Require Import Model ProofsCodec.
From GoProbe.C06 Require Import Model.
Import ListNotations.
Open Scope N_scope.

Ltac Zify.zify_post_hook ::= Z.to_euclidean_division_equations.

Definition np {A} (r : res A) : Prop := r <> Panic.

Lemma np_bind : forall A B (r : res A) (f : A -> res B),
  np r -> (forall a, r = Ok a -> np (f a)) -> np (res_bind r f).
Proof. intros A B r f H1 H2. destruct r; cbn; [apply H2; reflexivity | discriminate | contradiction H1; reflexivity]. Qed.

Lemma np_ok : forall A (a : A), np (Ok a).
Proof. intros; discriminate. Qed.
Lemma np_err : forall A, np (@Err A).
Proof. intros; discriminate. Qed.
#[export] Hint Resolve np_ok np_err : core.

Lemma np_map_res : forall A B (f : A -> res B) l, (forall a, In a l -> np (f a)) -> np (map_res f l).
Proof.
  induction l as [|a l IH]; intros H; cbn; [apply np_ok|].
  apply np_bind; [apply H; left; reflexivity|]. intros b _.
  apply np_bind; [apply IH; intros; apply H; right; assumption|]. intros; apply np_ok.
Qed.

Lemma map_res_length : forall A B (f : A -> res B) l bs, map_res f l = Ok bs -> length bs = length l.
Proof.
  induction l as [|a l IH]; intros bs H; cbn in H.
  - inversion H; reflexivity.
  - destruct (f a); cbn in H; try discriminate. destruct (map_res f l) eqn:E; cbn in H; try discriminate.
    inversion H; subst. cbn. f_equal. apply IH; reflexivity.
Qed.

Lemma nth_res_ok : forall A i (l : list A), (i < length l)%nat -> exists a, nth_res i l = Ok a.
Proof.
  intros A i l H. unfold nth_res. destruct (nth_error l i) eqn:E; [eexists; reflexivity|].
  apply nth_error_None in E. lia.
Qed.

(* ------------------------------------------------------------------ the directory-name suffix *)

Lemma alnum_lookup : forall c, is_alnum c = true -> exists v, decode_lookup c = Ok v.
Proof.
  intros c H. unfold decode_lookup. destruct (c <? 123) eqn:E; [eexists; reflexivity|].
  unfold is_alnum, is_digit in H. lia.
Qed.

Lemma decode_fold_ok : forall l a, forallb is_alnum l = true ->
  exists v, fold_left (fun acc c => res_bind acc (fun a => res_bind (decode_lookup c) (fun v => Ok (u64 (a * 62 + v))))) l (Ok a) = Ok v.
Proof.
  induction l as [|c l IH]; intros a H; cbn.
  - eexists; reflexivity.
  - cbn in H. apply andb_prop in H. destruct H as [Hc Hl].
    destruct (alnum_lookup c Hc) as [v Hv]. rewrite Hv. cbn. apply IH; assumption.
Qed.

Lemma forallb_rev : forall A (p : A -> bool) l, forallb p (rev l) = forallb p l.
Proof.
  induction l as [|a l IH]; cbn; [reflexivity|]. rewrite forallb_app, IH. cbn. rewrite andb_true_r. apply andb_comm.
Qed.

Lemma decode_field_np : forall f, forallb is_alnum f = true -> np (decode_field f).
Proof.
  intros f H. unfold decode_field. destruct (decode_fold_ok (rev f) 0) as [v Hv]; [rewrite forallb_rev; assumption|].
  rewrite Hv. apply np_ok.
Qed.

Theorem unmarshal_string_np : forall s, np (unmarshal_string s).
Proof.
  intros s. unfold unmarshal_string.
  destruct (negb (length (split_on 45 s) =? 7)%nat); [apply np_ok|].
  destruct (forallb (forallb is_alnum) (split_on 45 s)) eqn:E; cbn [negb]; [|apply np_ok].
  apply np_bind; [|intros; apply np_ok].
  apply np_map_res. intros f Hf. apply decode_field_np.
  rewrite forallb_forall in E. apply E; assumption.
Qed.

Lemma new_dir_reader_np : forall s, np (new_dir_reader s).
Proof.
  intros s. unfold new_dir_reader. destruct s; [apply np_ok|].
  apply np_bind; [apply unmarshal_string_np | intros; apply np_ok].
Qed.

(* ------------------------------------------------------------------ shape of an unmarshalled metadata value *)

Lemma read_colblocks_len : forall n l bs l', read_colblocks n l = Ok (bs, l') -> length bs = n.
Proof.
  induction n as [|n IH]; intros l bs l' H; cbn in H.
  - inversion H; reflexivity.
  - unfold bindp in H.
    destruct (get_be 4 l) as [[a l1]| |]; try discriminate.
    destruct (get_be 4 l1) as [[b l2]| |]; try discriminate.
    destruct (get_be 1 l2) as [[c l3]| |]; try discriminate.
    destruct (read_colblocks n l3) as [[bs0 l4]| |] eqn:E; try discriminate.
    inversion H; subst. cbn. f_equal. eapply IH; eassumption.
Qed.

Lemma read_cols_shape : forall c n l cs l', GoProbe.C03.Model.read_cols c n l = Ok (cs, l') ->
  length cs = c /\ Forall (fun x => length (col_blocks x) = n) cs.
Proof.
  induction c as [|c IH]; intros n l cs l' H; cbn in H.
  - inversion H; split; [reflexivity | constructor].
  - unfold bindp in H.
    destruct (get_be 8 l) as [[a l1]| |]; try discriminate.
    destruct (read_colblocks n l1) as [[bs l2]| |] eqn:E1; try discriminate.
    destruct (GoProbe.C03.Model.read_cols c n l2) as [[cs0 l3]| |] eqn:E2; try discriminate.
    inversion H; subst. destruct (IH _ _ _ _ E2) as [A B]. split; [cbn; f_equal; assumption|].
    constructor; [cbn; eapply read_colblocks_len; eassumption | assumption].
Qed.

Lemma read_blocks_len : forall n last l bs l', read_blocks n last l = Ok (bs, l') -> length bs = n.
Proof.
  induction n as [|n IH]; intros last l bs l' H; cbn in H.
  - inversion H; reflexivity.
  - unfold bindp in H.
    destruct (get_be 4 l) as [[a l1]| |]; try discriminate.
    destruct (get_be 4 l1) as [[b l2]| |]; try discriminate.
    destruct (get_be 4 l2) as [[c l3]| |]; try discriminate.
    destruct (get_be 4 l3) as [[d l4]| |]; try discriminate.
    destruct (read_blocks n _ l4) as [[bs0 l5]| |] eqn:E; try discriminate.
    inversion H; subst. cbn. f_equal. eapply IH; eassumption.
Qed.

Definition shaped (m : meta) : Prop :=
  length (m_cols m) = 8%nat /\ Forall (fun c => length (col_blocks c) = length (m_blocks m)) (m_cols m).

Theorem unmarshal_shape : forall data m, unmarshal data = Ok m -> shaped m.
Proof.
  intros data m H. unfold unmarshal in H.
  destruct (N.of_nat (length data) <? min_size); [discriminate|].
  unfold bindp in H.
  destruct (get_be 8 data) as [[version l1]| |]; try discriminate.
  destruct (get_be 8 l1) as [[nb l2]| |]; try discriminate.
  destruct ((N.of_nat (length data) - min_size) / per_block <? nb); [discriminate|].
  destruct (get_be 8 l2) as [[v4 l3]| |]; try discriminate.
  destruct (get_be 8 l3) as [[v6 l4]| |]; try discriminate.
  destruct (get_be 8 l4) as [[dr l5]| |]; try discriminate.
  destruct (get_be 8 l5) as [[br l6]| |]; try discriminate.
  destruct (get_be 8 l6) as [[bs l7]| |]; try discriminate.
  destruct (get_be 8 l7) as [[pr l8]| |]; try discriminate.
  destruct (get_be 8 l8) as [[ps l9]| |]; try discriminate.
  destruct (GoProbe.C03.Model.read_cols ncols (N.to_nat nb) l9) as [[cols l10]| |] eqn:E1; try discriminate.
  destruct (get_be 8 l10) as [[ts0 l11]| |]; try discriminate.
  destruct (read_blocks (N.to_nat nb) (i64_of_u64 ts0) l11) as [[blocks l12]| |] eqn:E2; try discriminate.
  inversion H; subst. unfold shaped; cbn.
  destruct (read_cols_shape _ _ _ _ _ E1) as [A B]. rewrite (read_blocks_len _ _ _ _ _ E2).
  split; assumption.
Qed.

Lemma col_offsets_from_length : forall bs off, length (col_offsets_from off bs) = length bs.
Proof. induction bs as [|b bs IH]; intros off; cbn; [reflexivity | f_equal; apply IH]. Qed.

(* ------------------------------------------------------------------ opening a day *)

Theorem open_day_np : forall fs ts suf, np (open_day fs ts suf).
Proof.
  intros fs ts suf. unfold open_day.
  destruct (negb _); [apply np_err|].
  apply np_bind.
  - destruct (match find_name _ _ with Some _ => _ | None => _ end); [apply np_ok|].
    destruct (bsearch _ _ _ _ _) as [d|]; [|apply np_err].
    destruct (extract_name (d_name d)) as [[t s]|]; [|apply np_err].
    apply np_bind; [apply unmarshal_string_np|]. intros; destruct (d_meta d); [apply np_ok | apply np_err].
  - intros [d mb] _. cbn [fst snd]. pose proof (unmarshal_total mb) as T.
    destruct (unmarshal mb); [apply np_ok | apply np_err | contradiction T; reflexivity].
Qed.

Lemma open_day_shaped : forall fs ts suf d m, open_day fs ts suf = Ok (d, m) -> shaped m.
Proof.
  intros fs ts suf d m H. unfold open_day in H.
  destruct (negb _); [discriminate|].
  match type of H with res_bind ?x _ = _ => destruct x as [[d0 mb]| |] end; cbn in H; try discriminate.
  destruct (unmarshal mb) eqn:E; try discriminate. inversion H; subst. eapply unmarshal_shape; eassumption.
Qed.

(* ------------------------------------------------------------------ walk and window *)

Theorem walk_np : forall tf tl ds, np (walk tf tl ds).
Proof.
  induction ds as [|d ds IH]; cbn; [apply np_ok|].
  destruct (contains backup_infix (d_name d)); [assumption|].
  destruct (extract_name (d_name d)) as [[ts suf]|]; [|apply np_err].
  destruct (_ && _); [assumption|].
  destruct (in_frame tf tl ts); [|assumption].
  apply np_bind; [apply new_dir_reader_np|]. intros _ _.
  apply np_bind; [assumption|]. intros; apply np_ok.
Qed.

Lemma block_time_range_np : forall dts m, np (block_time_range dts m).
Proof.
  intros dts m. unfold block_time_range. destruct (length (m_blocks m)) eqn:E; [apply np_ok|].
  destruct (nth_res_ok _ 0 (m_blocks m)) as [b0 H0]; [lia|].
  destruct (nth_res_ok _ n (m_blocks m)) as [bl Hl]; [lia|].
  rewrite H0, Hl. cbn. destruct (_ && _); apply np_ok.
Qed.

Lemma item_range_np : forall fs it, np (item_range fs it).
Proof.
  intros fs it. unfold item_range. pose proof (open_day_np fs (fst it) (snd it)) as H.
  destruct (open_day fs (fst it) (snd it)) as [[d m]| |]; [apply block_time_range_np | apply np_ok | contradiction H; reflexivity].
Qed.

Theorem window_np : forall fs tf tl items, np (window fs tf tl items).
Proof.
  intros fs tf tl items. unfold window. destruct items as [|it0 r]; [apply np_ok|].
  apply np_bind; [apply item_range_np|]. intros r0 _.
  apply np_bind; [apply item_range_np|]. intros; apply np_ok.
Qed.
