(* C06 model: the READ path of goDB over ARBITRARY directory contents.  Executable definitions only.
   Mirrors, after the `fix:` commits of branch verif-C06,
     pkg/goDB/DBWorkManager.go            walkDB (day level), CreateWorkerJobs, readBlocksAndEvaluate
     pkg/goDB/storage/gpfile/gpdir.go     ExtractTimestampMetadataSuffix, NewDirReader, Open (+ recoverDirPath,
                                          binarySearchPrefix), BlockTimeRange, ContainsTimestamp
     pkg/goDB/storage/gpfile/metadata.go  UnmarshalString (directory-name suffix)
     pkg/goDB/storage/gpfile/gpfile.go    ReadBlockAtIndex (incl. lastSeekPos / seek elision), validateBlock
   `.blockmeta` is decoded by the byte-exact C03 `unmarshal`.  Bytes are `list N`; a directory name is a byte
   list as well (any byte may occur in a name).  Every Go index / slice expression of goProbe's own code is an
   explicit bounds check answering `Panic`; the codecs (`dec`) are a Section variable (total, into option); the
   bitpack library (Len / UnpackInto) is modelled by total functions. *)
From Coq Require Import List ZArith NArith Bool.
From GoProbe.Base Require Import CorrLib.
From GoProbe.C03 Require Import Model.
Import ListNotations.
Open Scope N_scope.

(* ------------------------------------------------------------------ small helpers *)

Definition nth_res {A} (i : nat) (l : list A) : res A :=
  match nth_error l i with Some a => Ok a | None => Panic end.

Fixpoint map_res {A B} (f : A -> res B) (l : list A) : res (list B) :=
  match l with
  | [] => Ok []
  | a :: r => res_bind (f a) (fun b => res_bind (map_res f r) (fun bs => Ok (b :: bs)))
  end.

Fixpoint bytes_eqb (a b : bytes) : bool :=
  match a, b with
  | [], [] => true
  | x :: r, y :: s => (x =? y) && bytes_eqb r s
  | _, _ => false
  end.

Fixpoint has_prefix (p s : bytes) : bool :=
  match p, s with
  | [], _ => true
  | x :: r, y :: t => (x =? y) && has_prefix r t
  | _ :: _, [] => false
  end.

Fixpoint contains (p s : bytes) : bool :=
  has_prefix p s || match s with [] => false | _ :: t => contains p t end.

(* lexicographic `<` on byte strings (Go string comparison) *)
Fixpoint bytes_ltb (a b : bytes) : bool :=
  match a, b with
  | [], [] => false
  | [], _ :: _ => true
  | _ :: _, [] => false
  | x :: r, y :: s => (x <? y) || ((x =? y) && bytes_ltb r s)
  end.

(* strings.Split(s, sep) for a one-byte separator: always at least one field *)
Fixpoint split_on (sep : N) (s : bytes) : list bytes :=
  match s with
  | [] => [[]]
  | c :: r =>
    if c =? sep then [] :: split_on sep r
    else match split_on sep r with
         | f :: fs => (c :: f) :: fs
         | [] => [[c]]
         end
  end.

(* ------------------------------------------------------------------ numbers in names *)

Definition is_digit (c : N) : bool := (48 <=? c) && (c <=? 57).

Fixpoint parse_digits (s : bytes) (acc : Z) : option Z :=
  match s with
  | [] => Some acc
  | c :: r => if is_digit c then parse_digits r (acc * 10 + Z.of_N (c - 48))%Z else None
  end.

(* strconv.ParseInt(s, 10, 64): optional sign, at least one digit, digits only, int64 range *)
Definition parse_int64 (s : bytes) : option Z :=
  let '(neg, body) := match s with
                      | 45 :: r => (true, r)
                      | 43 :: r => (false, r)
                      | _ => (false, s)
                      end in
  match body with
  | [] => None
  | _ => match parse_digits body 0 with
         | Some v => let z := if neg then (- v)%Z else v in
                     if ((- 2 ^ 63 <=? z) && (z <? 2 ^ 63))%Z then Some z else None
         | None => None
         end
  end.

(* strconv.FormatInt(z, 10) *)
Fixpoint fmt_digits (fuel : nat) (n : N) (acc : bytes) : bytes :=
  match fuel with
  | O => acc
  | S f => let acc' := (48 + n mod 10) :: acc in
           if n / 10 =? 0 then acc' else fmt_digits f (n / 10) acc'
  end.
Definition fmt_int (z : Z) : bytes :=
  if (z <? 0)%Z then 45 :: fmt_digits 20 (Z.to_N (- z)) [] else fmt_digits 20 (Z.to_N z) [].

Definition epoch_day : Z := 86400.
(* gpfile.DirTimestamp: Go's truncating division *)
Definition dir_ts (ts : Z) : Z := (Z.quot ts epoch_day * epoch_day)%Z.
(* GPDir.ContainsTimestamp *)
Definition contains_ts (day ts : Z) : bool := (dir_ts ts =? day)%Z.

(* ------------------------------------------------------------------ directory names *)

Definition backup_infix : bytes :=                          (* ".gpdb-merge-backup-" *)
  [46; 103; 112; 100; 98; 45; 109; 101; 114; 103; 101; 45; 98; 97; 99; 107; 117; 112; 45].

(* ExtractTimestampMetadataSuffix: split at "_", ParseInt of the first part, the second part is the suffix *)
Definition extract_name (name : bytes) : option (Z * bytes) :=
  match split_on 95 name with
  | p0 :: rest =>
    match parse_int64 p0 with
    | Some ts => Some (ts, match rest with s :: _ => s | [] => [] end)
    | None => None
    end
  | [] => None
  end.

(* bitpack.decodeLookup: a table of 123 entries indexed by the character *)
Definition decode_lookup (c : N) : res N :=
  if c <? 123 then
    Ok (if is_digit c then c - 48
        else if (97 <=? c) && (c <=? 122) then c - 87
        else if (65 <=? c) && (c <=? 90) then c - 29
        else 0)
  else Panic.

(* bitpack.DecodeUint64FromString (from the last character to the first, uint64 wrap-around) *)
Definition decode_field (f : bytes) : res N :=
  fold_left (fun acc c => res_bind acc (fun a => res_bind (decode_lookup c) (fun v => Ok (u64 (a * 62 + v)))))
            (rev f) (Ok 0).

Definition is_alnum (c : N) : bool :=
  is_digit c || ((97 <=? c) && (c <=? 122)) || ((65 <=? c) && (c <=? 90)).

(* Metadata.UnmarshalString: Ok (Some totals) = accepted, Ok None = rejected with an error (callers ignore it) *)
Definition unmarshal_string (suffix : bytes) : res (option (list N)) :=
  let fields := split_on 45 suffix in
  if negb (length fields =? 7)%nat then Ok None
  else if negb (forallb (forallb is_alnum) fields) then Ok None         (* fix: alphabet check *)
  else res_bind (map_res decode_field fields) (fun vs => Ok (Some vs)).

(* NewDirReader: the suffix (if any) is decoded right away *)
Definition new_dir_reader (suffix : bytes) : res unit :=
  match suffix with
  | [] => Ok tt
  | _ => res_bind (unmarshal_string suffix) (fun _ => Ok tt)
  end.

(* ------------------------------------------------------------------ the file-system state *)

(* a day directory: name, `.blockmeta` (None = absent), the eight column files (None = absent) *)
Record day := { d_name : bytes; d_meta : option bytes; d_cols : list (option bytes) }.

(* the directories of the month directory in os.ReadDir order, and the time range [f_lo, f_hi) of that month
   (a GPDir path is derived from the timestamp: a day of another month is looked for elsewhere) *)
Record fsys := { f_days : list day; f_lo : Z; f_hi : Z }.

Definition build_name (dts : Z) (suffix : bytes) : bytes :=
  match suffix with
  | [] => fmt_int dts
  | _ => fmt_int dts ++ 95 :: suffix
  end.

Fixpoint find_name (name : bytes) (ds : list day) : option day :=
  match ds with
  | [] => None
  | d :: r => if bytes_eqb (d_name d) name then Some d else find_name name r
  end.

(* binarySearchPrefix over the directory entries *)
Fixpoint bsearch (fuel : nat) (ds : list day) (prefix : bytes) (low high : Z) : option day :=
  match fuel with
  | O => None
  | S f =>
    if (high <? low)%Z then None else
    let mid := ((low + high) / 2)%Z in
    match nth_error ds (Z.to_nat mid) with
    | None => None
    | Some d =>
      if has_prefix prefix (d_name d) then Some d
      else if bytes_ltb (d_name d) prefix then bsearch f ds prefix (mid + 1)%Z high
      else bsearch f ds prefix low (mid - 1)%Z
    end
  end.

(* GPDir.Open in read mode for NewDirReader(ts, suffix): the directory actually opened and its metadata.
   Err = the day cannot be opened (metadata missing / too short / inconsistent block count) *)
Definition open_day (fs : fsys) (ts : Z) (suffix : bytes) : res (day * meta) :=
  let dts := dir_ts ts in
  if negb ((f_lo fs <=? dts) && (dts <? f_hi fs))%Z then Err        (* month directory does not exist *)
  else
    let direct := match find_name (build_name dts suffix) (f_days fs) with
                  | Some d => match d_meta d with Some mb => Some (d, mb) | None => None end
                  | None => None
                  end in
    let found : res (day * bytes) :=
      match direct with
      | Some x => Ok x
      | None =>                                                     (* recoverDirPath *)
        match bsearch (S (length (f_days fs))) (f_days fs) (fmt_int dts) 0 (Z.of_nat (length (f_days fs)) - 1) with
        | None => Err
        | Some d =>
          match extract_name (d_name d) with
          | None => Err
          | Some (_, suf) =>
            res_bind (unmarshal_string suf) (fun _ =>               (* setMetadataFromSuffix *)
              match d_meta d with Some mb => Ok (d, mb) | None => Err end)
          end
        end
      end in
    res_bind found (fun x => match unmarshal (snd x) with
                             | Ok m => Ok (fst x, m)
                             | Err => Err
                             | Panic => Panic
                             end).

(* ------------------------------------------------------------------ walkDB (day level) *)

Definition in_frame (tfirst tlast dts : Z) : bool :=
  ((tfirst <? i64 (dts + epoch_day)) && (dts <? i64 (tlast + 300)))%Z.

(* the (dayTimestamp, suffix) pairs handed to the walk function; Err = the walk (and the query) fails *)
Fixpoint walk (tfirst tlast : Z) (ds : list day) : res (list (Z * bytes)) :=
  match ds with
  | [] => Ok []
  | d :: r =>
    if contains backup_infix (d_name d) then walk tfirst tlast r
    else match extract_name (d_name d) with
         | None => Err
         | Some (ts, suf) =>
           if (match suf with [] => true | _ => false end) && (match d_meta d with None => true | Some _ => false end)
           then walk tfirst tlast r                                  (* no committed data yet *)
           else if in_frame tfirst tlast ts
                then res_bind (new_dir_reader suf) (fun _ =>
                     res_bind (walk tfirst tlast r) (fun items => Ok ((ts, suf) :: items)))
                else walk tfirst tlast r
         end
  end.

(* ------------------------------------------------------------------ CreateWorkerJobs: the covered interval *)

(* GPDir.BlockTimeRange *)
Definition block_time_range (dts : Z) (m : meta) : res (option (Z * Z)) :=
  match length (m_blocks m) with
  | O => Ok None
  | S k =>
    res_bind (nth_res 0 (m_blocks m)) (fun b0 =>
    res_bind (nth_res k (m_blocks m)) (fun bl =>
      if contains_ts dts (bi_ts b0) && contains_ts dts (bi_ts bl) then Ok (Some (bi_ts b0, bi_ts bl)) else Ok None))
  end.

Definition item_range (fs : fsys) (it : Z * bytes) : res (option (Z * Z)) :=
  match open_day fs (fst it) (snd it) with
  | Ok (_, m) => block_time_range (dir_ts (fst it)) m
  | Err => Ok None
  | Panic => Panic
  end.

Definition window (fs : fsys) (tfirst tlast : Z) (items : list (Z * bytes)) : res (Z * Z) :=
  match items with
  | [] => Ok (tfirst, tlast)
  | it0 :: _ =>
    res_bind (item_range fs it0) (fun r0 =>
    res_bind (item_range fs (last items it0)) (fun rl =>
      Ok (match r0 with Some (f, _) => if (tfirst <? f)%Z then f else tfirst | None => tfirst end,
          match rl with Some (_, l) => if (l <? tlast)%Z then l else tlast | None => tlast end)))
  end.

(* ------------------------------------------------------------------ the query and its result *)

(* attribute selection of the query (time is always selected, no condition): which of sip, dip, proto, dport *)
Record query := { q_sip : bool; q_dip : bool; q_proto : bool; q_dport : bool }.

(* a result row: key bytes = time (8, big endian) ++ sip (16, zero padded) ++ dip (16) ++ proto (1) ++ dport (2),
   and the four counters *)
Record row := { r_key : bytes; r_cnt : list N }.

(* decision per block *)
Inductive decision := Used (rows : list row) | Skipped | OutOfRange.

Record dayres := { dr_rows : list row; dr_processed : N; dr_corrupted : N; dr_dircorrupt : N }.

(* ------------------------------------------------------------------ bitpack (library, total) *)

Definition bp_len (b : bytes) : nat :=
  match b with
  | [] => O
  | w :: r => if w =? 0 then O else N.to_nat (N.of_nat (length r) / w)
  end.

Definition le_dec (l : bytes) : N := fold_right (fun b a => b + 256 * a) 0 l.

Definition bp_unpack (b : bytes) : list N :=
  match b with
  | [] => []
  | w :: r =>
    let k := N.to_nat (N.min w 8) in
    map (fun i => le_dec (firstn k (skipn (i * k) r))) (seq 0 (bp_len b))
  end.

(* ------------------------------------------------------------------ GPFile.ReadBlockAtIndex *)

Section Reader.
Variable dec : N -> bytes -> N -> option bytes.   (* encoder type, stored bytes, RawLen -> decoded bytes *)

Definition max_raw (enc len : N) : N :=
  if enc =? 3 then 255 * len else 32768 * len.

(* g.buf = g.buf[:n] after `if cap(g.buf) < n { g.buf = make([]byte, 0, 2*n) }` for a buffer of capacity cap0 *)
Definition reslice (cap0 n : N) : res unit :=
  let c := if cap0 <? n then 2 * n else cap0 in
  if n <=? c then Ok tt else Panic.

Definition buf_cap : N := 8192.

(* ReadBlockAtIndex, part 1: everything that happens before the file is positioned.  Some r = returns r right away
   (no data expected; file cannot be opened, also after the retry; validateBlock rejects the geometry) *)
Definition pre_check (file : option bytes) (off : N) (b : colblk) : option (res bytes) :=
  let len := cb_len b in let raw := cb_raw b in let enc := cb_enc b in
  if raw =? 0 then Some (Ok []) else
  match file with
  | None => Some Err
  | Some f =>
    let size := N.of_nat (length f) in
    if (size <? off) || (size - off <? len) then Some Err
    else if (enc =? 1) && negb (raw =? len) then Some Err
    else if negb (enc =? 1) && (max_raw enc len <? raw) then Some Err
    else None
  end.

(* ReadBlockAtIndex, part 2: decoding with the file positioned at `pos`; also answers the new position of the file
   (io.ReadFull on the in-memory file: a short read fails without moving the position) *)
Definition read_body (f : bytes) (pos : N) (b : colblk) : res bytes * N :=
  let len := cb_len b in let raw := cb_raw b in let enc := cb_enc b in
  match reslice buf_cap raw with
  | Ok _ =>
    if enc =? 1 then
      let data := firstn (N.to_nat raw) (skipn (N.to_nat pos) f) in
      if (length data <? N.to_nat raw)%nat then (Err, pos) else (Ok data, pos + raw)
    else if (enc =? 2) || (enc =? 3) then
      match reslice buf_cap len with
      | Ok _ =>
        let inb := firstn (N.to_nat len) (skipn (N.to_nat pos) f) in
        if (length inb <? N.to_nat len)%nat then (Err, pos)
        else match inb with
             | [] => (Panic, pos)                                      (* &in[0] *)
             | _ => (match dec enc inb raw with
                     | Some out => if N.of_nat (length out) =? raw then Ok out else Err
                     | None => Err
                     end, pos + len)
             end
      | Err => (Err, pos)
      | Panic => (Panic, pos)
      end
    else (Err, pos)                                                   (* encoder.New fails *)
  | Err => (Err, pos)
  | Panic => (Panic, pos)
  end.

(* the block read at its own offset (no reader state): the specification of a block read *)
Definition read_block (file : option bytes) (off : N) (b : colblk) : res bytes :=
  match pre_check file off b with
  | Some r => r
  | None => match file with Some f => fst (read_body f off b) | None => Err end
  end.

(* the state a GPFile keeps between two reads: (position of the file, lastSeekPos) *)
Definition fstate : Type := (N * N)%type.

(* ReadBlockAtIndex as coded: the file is only positioned (Seek) if the block does not start at lastSeekPos, which
   is advanced by Len after a successful read ("if the file is read continuously, do not seek") *)
Definition read_block_st (st : fstate) (file : option bytes) (off : N) (b : colblk) : res bytes * fstate :=
  match pre_check file off b with
  | Some r => (r, st)
  | None =>
    match file with
    | None => (Err, st)
    | Some f =>
      let pos := if snd st =? off then fst st else off in             (* seekPos != g.lastSeekPos -> Seek *)
      let '(r, pos') := read_body f pos b in
      (r, (pos', if is_ok r then off + cb_len b else off))            (* g.lastSeekPos += int64(block.Len) *)
    end
  end.

(* the columns a query reads, in the order of Query.columnIndices *)
Definition query_cols (q : query) : list nat :=
  (if q_sip q then [0%nat] else []) ++ (if q_dip q then [1%nat] else []) ++
  (if q_proto q then [2%nat] else []) ++ (if q_dport q then [3%nat] else []) ++ [4%nat; 5%nat; 6%nat; 7%nat].

(* ReadBlockAtIndex(colIdx, b) through the GPDir: header of the column, block descriptor, file *)
Definition read_col (d : day) (m : meta) (b : nat) (c : nat) : res bytes :=
  res_bind (nth_res c (m_cols m)) (fun col =>
  res_bind (nth_res b (col_blocks col)) (fun blk =>
  res_bind (nth_res b (col_offsets col)) (fun off =>
    read_block (match nth_error (d_cols d) c with Some f => f | None => None end) off blk))).

(* reads the columns in order, stops at the first error: Ok (Some cols) / Ok None (block broken) / Panic *)
Fixpoint read_cols (d : day) (m : meta) (b : nat) (cs : list nat) : res (option (list (nat * bytes))) :=
  match cs with
  | [] => Ok (Some [])
  | c :: r =>
    match read_col d m b c with
    | Ok data => res_bind (read_cols d m b r) (fun o => Ok (match o with Some l => Some ((c, data) :: l) | None => None end))
    | Err => Ok None
    | Panic => Panic
    end
  end.

(* the same through the per-column reader states of an open day *)
Fixpoint upd {A} (c : nat) (v : A) (l : list A) : list A :=
  match l, c with
  | [], _ => []
  | _ :: t, O => v :: t
  | x :: t, S c' => x :: upd c' v t
  end.

Definition st_of (sts : list fstate) (c : nat) : fstate := nth c sts (0, 0).

Definition read_col_st (sts : list fstate) (d : day) (m : meta) (b : nat) (c : nat) : res bytes * list fstate :=
  match nth_res c (m_cols m) with
  | Ok col =>
    match nth_res b (col_blocks col), nth_res b (col_offsets col) with
    | Ok blk, Ok off =>
      let '(r, st') := read_block_st (st_of sts c) (match nth_error (d_cols d) c with Some f => f | None => None end) off blk in
      (r, upd c st' sts)
    | _, _ => (Panic, sts)
    end
  | _ => (Panic, sts)
  end.

Fixpoint read_cols_st (sts : list fstate) (d : day) (m : meta) (b : nat) (cs : list nat)
  : res (option (list (nat * bytes))) * list fstate :=
  match cs with
  | [] => (Ok (Some []), sts)
  | c :: r =>
    let '(x, sts1) := read_col_st sts d m b c in
    match x with
    | Ok data => let '(o, sts2) := read_cols_st sts1 d m b r in
                 (res_bind o (fun o => Ok (match o with Some l => Some ((c, data) :: l) | None => None end)), sts2)
    | Err => (Ok None, sts1)
    | Panic => (Panic, sts1)
    end
  end.

Definition col_data (cols : list (nat * bytes)) (c : nat) : bytes :=
  match find (fun p => Nat.eqb (fst p) c) cols with Some p => snd p | None => [] end.

(* the sanity checks of readBlocksAndEvaluate (all arithmetic in Go's int: no overflow for 32-bit quantities) *)
Definition checks_ok (q : query) (cols : list (nat * bytes)) (nv4 : N) : bool :=
  let n := N.of_nat (bp_len (col_data cols 4)) in
  let ip_ok c := N.of_nat (length (col_data cols c)) =? (n - nv4) * 16 + nv4 * 4 in
  (nv4 <=? n)                                                          (* fix: IPv4 entries within entries *)
  && forallb (fun c => negb (length (col_data cols c) =? 0)%nat && (bp_len (col_data cols c) =? bp_len (col_data cols 4))%nat)
             [4%nat; 5%nat; 6%nat; 7%nat]
  && (negb (q_sip q) || ip_ok 0%nat)
  && (negb (q_dip q) || ip_ok 1%nat)
  && (negb (q_proto q) || (N.of_nat (length (col_data cols 2)) =? n))
  && (negb (q_dport q) || ((N.of_nat (length (col_data cols 3)) / 2 =? n) && (N.of_nat (length (col_data cols 3)) mod 2 =? 0))).

(* s[a : a+k] *)
Definition slice (s : bytes) (a k : nat) : res bytes :=
  if (a + k <=? length s)%nat then Ok (firstn k (skipn a s)) else Panic.

Definition pad16 (b : bytes) : bytes := firstn 16 (b ++ repeat 0 16).

(* one entry of the evaluation loop *)
Definition row_at (q : query) (ts : Z) (cols : list (nat * bytes)) (nv4 : nat) (cnt : list (list N)) (i : nat) : res row :=
  let ip (c : nat) (sel : bool) : res bytes :=
    if sel then
      if (i <? nv4)%nat then slice (col_data cols c) (i * 4)%nat 4%nat
      else slice (col_data cols c) (nv4 * 4 + (i - nv4) * 16)%nat 16%nat
    else Ok [] in
  res_bind (ip 0%nat (q_sip q)) (fun sip =>
  res_bind (ip 1%nat (q_dip q)) (fun dip =>
  res_bind (if q_proto q then slice (col_data cols 2) i 1%nat else Ok [0]) (fun proto =>
  res_bind (if q_dport q then slice (col_data cols 3) (i * 2)%nat 2%nat else Ok [0; 0]) (fun dport =>
  res_bind (map_res (nth_res i) cnt) (fun cs =>
    Ok {| r_key := be64 (u64_of_i64 ts) ++ pad16 sip ++ pad16 dip ++ proto ++ dport; r_cnt := cs |}))))).

(* what readBlocksAndEvaluate does with the columns of a block once they have been read *)
Definition decide (q : query) (ts : Z) (nv4 : N) (rc : res (option (list (nat * bytes)))) : res decision :=
  match rc with
  | Panic => Panic
  | Err => Ok Skipped                                                  (* not produced by read_cols *)
  | Ok None => Ok Skipped
  | Ok (Some cols) =>
    if negb (checks_ok q cols nv4) then Ok Skipped
    else
      let cnt := map (fun c => bp_unpack (col_data cols c)) [4%nat; 5%nat; 6%nat; 7%nat] in
      res_bind (map_res (row_at q ts cols (N.to_nat nv4) cnt) (seq 0 (bp_len (col_data cols 4))))
               (fun rows => Ok (Used rows))
  end.

(* one block of an open day, every column read at its own offset (specification) *)
Definition eval_block (q : query) (w : Z * Z) (dts : Z) (d : day) (m : meta) (b : nat) (bi : blockinfo) : res decision :=
  let ts := bi_ts bi in
  if ((ts <? fst w) || (snd w <? ts))%Z then Ok OutOfRange
  else if negb (contains_ts dts ts) then Ok Skipped                   (* fix: block outside its day *)
  else decide q ts (t_v4 (bi_traffic bi)) (read_cols d m b (query_cols q)).

Fixpoint eval_blocks (q : query) (w : Z * Z) (dts : Z) (d : day) (m : meta) (b : nat) (bis : list blockinfo)
  : res (list decision) :=
  match bis with
  | [] => Ok []
  | bi :: r => res_bind (eval_block q w dts d m b bi) (fun x =>
               res_bind (eval_blocks q w dts d m (S b) r) (fun xs => Ok (x :: xs)))
  end.

(* one block of an open day as coded: through the reader states *)
Definition eval_block_st (sts : list fstate) (q : query) (w : Z * Z) (dts : Z) (d : day) (m : meta) (b : nat) (bi : blockinfo)
  : res decision * list fstate :=
  let ts := bi_ts bi in
  if ((ts <? fst w) || (snd w <? ts))%Z then (Ok OutOfRange, sts)
  else if negb (contains_ts dts ts) then (Ok Skipped, sts)
  else let '(rc, sts') := read_cols_st sts d m b (query_cols q) in
       (decide q ts (t_v4 (bi_traffic bi)) rc, sts').

Fixpoint eval_blocks_st (sts : list fstate) (q : query) (w : Z * Z) (dts : Z) (d : day) (m : meta) (b : nat)
  (bis : list blockinfo) : res (list decision) :=
  match bis with
  | [] => Ok []
  | bi :: r => let '(x, sts') := eval_block_st sts q w dts d m b bi in
               res_bind x (fun x => res_bind (eval_blocks_st sts' q w dts d m (S b) r) (fun xs => Ok (x :: xs)))
  end.

(* a freshly opened day: no column file open yet *)
Definition init_states : list fstate := repeat (0, 0) 8.

Definition decision_rows (x : decision) : list row := match x with Used rows => rows | _ => [] end.
Definition is_skipped (x : decision) : bool := match x with Skipped => true | _ => false end.
Definition is_processed (x : decision) : bool := match x with OutOfRange => false | _ => true end.
Definition count {A} (p : A -> bool) (l : list A) : N := N.of_nat (length (filter p l)).

Definition day_of_decisions (xs : list decision) : dayres :=
  {| dr_rows := flat_map decision_rows xs; dr_processed := count is_processed xs;
     dr_corrupted := count is_skipped xs; dr_dircorrupt := 0 |}.

(* readBlocksAndEvaluate on an opened day / on a day that cannot be opened *)
Definition eval_open (q : query) (w : Z * Z) (dts : Z) (o : res (day * meta)) : res dayres :=
  match o with
  | Panic => Panic
  | Err => Ok {| dr_rows := []; dr_processed := 0; dr_corrupted := 0; dr_dircorrupt := 1 |}   (* fix: skipped, counted *)
  | Ok (d, m) => res_bind (eval_blocks_st init_states q w dts d m 0 (m_blocks m)) (fun xs => Ok (day_of_decisions xs))
  end.

Definition eval_item (q : query) (fs : fsys) (w : Z * Z) (it : Z * bytes) : res dayres :=
  eval_open q w (dir_ts (fst it)) (open_day fs (fst it) (snd it)).

(* the whole query: rows per work item (in walk order) and the statistics
   (BlocksProcessed, BlocksCorrupted, DirectoriesProcessed, DirectoriesCorrupted) *)
Record qres := { qr_days : list dayres; qr_stats : list N }.

Definition sumN (l : list N) : N := fold_right N.add 0 l.

Definition run_query (q : query) (fs : fsys) (tfirst tlast : Z) : res qres :=
  res_bind (walk tfirst tlast (f_days fs)) (fun items =>
  res_bind (window fs tfirst tlast items) (fun w =>
  res_bind (map_res (eval_item q fs w) items) (fun ds =>
    Ok {| qr_days := ds;
          qr_stats := [sumN (map dr_processed ds); sumN (map dr_corrupted ds); N.of_nat (length ds);
                       sumN (map dr_dircorrupt ds)] |}))).

End Reader.
