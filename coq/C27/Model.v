(* C27 model: capture Manager reconfiguration (pkg/capture/capture_manager.go Update / updateSelected /
   update / autodetectIfaces / filterMatchingIfaces; cmd/goProbe/config/config.go Ifaces.Validate,
   Ifaces.Matcher, IfaceMatcher.FindMatch, CaptureConfig.Equals, IsRegexpInterfaceMatcher).
   Executable definitions only.  The model describes the code AFTER the C27 fixes; the original
   Equals / FindMatch are kept as [cc_equals_orig] / [first_re] for the refutation lemmas. *)
From Coq Require Import List String Ascii Bool Arith NArith OrdersEx.
Import ListNotations.
Open Scope string_scope.

(* ---------------------------------------------------------------- CaptureConfig *)

(* ExtraBPFFilters: bpf.RawInstruction {Op, Jt, Jf, K} *)
Definition bpfi := (N * N * N * N)%type.

Record cconf := mkCC {
  cc_vlan : bool;                 (* IgnoreVLANs *)
  cc_promisc : bool;              (* Promisc *)
  cc_ring : option (N * N);       (* RingBuffer: nil | {BlockSize, NumBlocks} *)
  cc_bpf : list bpfi;             (* ExtraBPFFilters *)
  cc_disable : bool               (* Disable *)
}.

Definition zero_cc : cconf := mkCC false false None [] false.                      (* CaptureConfig{} *)
Definition default_cc : cconf := mkCC false false (Some (1048576, 4)%N) [] false.   (* DefaultCaptureConfig() *)

Definition bpfi_eqb (a b : bpfi) : bool :=
  match a, b with (a1, a2, a3, a4), (b1, b2, b3, b4) => N.eqb a1 b1 && N.eqb a2 b2 && N.eqb a3 b3 && N.eqb a4 b4 end.

Fixpoint list_eqb {A} (eqb : A -> A -> bool) (l1 l2 : list A) : bool :=
  match l1, l2 with
  | [], [] => true
  | a :: t1, b :: t2 => eqb a b && list_eqb eqb t1 t2
  | _, _ => false
  end.

(* RingBufferConfig.Equals (pointer receiver) after the fix: both unset, or both set and identical *)
Definition ring_eqb (a b : option (N * N)) : bool :=
  match a, b with
  | None, None => true
  | Some (x1, y1), Some (x2, y2) => N.eqb x1 x2 && N.eqb y1 y2
  | _, _ => false
  end.

(* CaptureConfig.Equals after the fix: all fields *)
Definition cc_eqb (a b : cconf) : bool :=
  Bool.eqb (cc_vlan a) (cc_vlan b) && Bool.eqb (cc_promisc a) (cc_promisc b) &&
  Bool.eqb (cc_disable a) (cc_disable b) && ring_eqb (cc_ring a) (cc_ring b) &&
  list_eqb bpfi_eqb (cc_bpf a) (cc_bpf b).

(* the original code: Promisc and ring buffer only; (nil).Equals(non-nil) dereferences nil,
   x.Equals(nil) is false even for x = nil.  None = panic. *)
Definition cc_equals_orig (c cfg : cconf) : option bool :=
  if negb (Bool.eqb (cc_promisc c) (cc_promisc cfg)) then Some false
  else match cc_ring cfg with
       | None => Some false
       | Some (x2, y2) => match cc_ring c with
                          | None => None
                          | Some (x1, y1) => Some (N.eqb x1 x2 && N.eqb y1 y2)
                          end
       end.

(* CaptureConfig.validate *)
Definition cc_valid (c : cconf) : bool :=
  if cc_disable c then
    match cc_ring c, cc_bpf c with
    | None, [] => negb (cc_promisc c) && negb (cc_vlan c)
    | _, _ => false
    end
  else match cc_ring c with
       | None => false
       | Some (b, n) => N.ltb 0 b && N.ltb 0 n
       end.

(* ---------------------------------------------------------------- interface keys *)

Definition is_slash (c : ascii) : bool := Ascii.eqb c "/"%char.
Definition starts_slash (s : string) : bool := match s with String c _ => is_slash c | EmptyString => false end.
Fixpoint ends_slash (s : string) : bool :=
  match s with
  | EmptyString => false
  | String c EmptyString => is_slash c
  | String _ t => ends_slash t
  end.

(* IsRegexpInterfaceMatcher after the fix ("/" alone is a plain name; before, "/"[1:0] panicked) *)
Definition is_re (k : string) : bool := Nat.leb 2 (String.length k) && starts_slash k && ends_slash k.
(* k[1 : len(k)-1] *)
Definition pat_of (k : string) : string := substring 1 (String.length k - 2) k.

Definition str_ltb (a b : string) : bool :=
  match String_as_OT.compare a b with Lt => true | _ => false end.

Definition mem (i : string) (l : list string) : bool := existsb (String.eqb i) l.

Fixpoint lookup {A} (i : string) (l : list (string * A)) : option A :=
  match l with
  | [] => None
  | (k, v) :: t => if String.eqb k i then Some v else lookup i t
  end.

Definition is_some {A} (o : option A) : bool := match o with Some _ => true | None => false end.

Definition entry := (string * cconf)%type.

Record config := mkCfg {
  cf_auto : bool;                 (* AutoDetection.Enabled *)
  cf_excl : list string;          (* AutoDetection.Exclude *)
  cf_ifaces : list entry          (* Interfaces (a Go map: keys are distinct) *)
}.

(* environment of one Update call *)
Record env := mkEnv {
  e_links : list string;          (* names returned by hostLinks() *)
  e_down : list string;           (* interfaces whose source initialisation fails *)
  e_linkerr : bool                (* hostLinks() returns an error *)
}.

Section Re.
(* Go's regexp package is not goProbe's: compilation success and matching are parameters *)
Variable re_ok : string -> bool.
Variable re_match : string -> string -> bool.     (* pattern, interface name *)

Definition key_ok (k : string) : bool := negb (is_re k) || re_ok (pat_of k).

(* ---------------------------------------------------------------- IfaceMatcher *)

Definition explicit_entries (es : list entry) : list entry := filter (fun e => negb (is_re (fst e))) es.
Definition regex_entries (es : list entry) : list entry :=
  map (fun e => (pat_of (fst e), snd e)) (filter (fun e => is_re (fst e)) es).

(* FindMatch after the fix: one pass over the regexp map (in map order), keeping the matching
   entry with the smallest expression *)
Definition better (i : string) (best : option entry) (e : entry) : option entry :=
  if re_match (fst e) i && match best with None => true | Some b => str_ltb (fst e) (fst b) end
  then Some e else best.
Definition best_re (res : list entry) (i : string) : option entry := fold_left (better i) res None.

(* the original FindMatch: first match in map iteration order *)
Definition first_re (res : list entry) (i : string) : option entry := find (fun e => re_match (fst e) i) res.

(* [order] = Go's iteration order over the regexp map, a parameter *)
Definition find_match (order : list entry -> list entry) (es : list entry) (i : string) : option cconf :=
  match lookup i (explicit_entries es) with
  | Some c => Some c
  | None => option_map snd (best_re (order (regex_entries es)) i)
  end.
Definition find_match_orig (order : list entry -> list entry) (es : list entry) (i : string) : option cconf :=
  match lookup i (explicit_entries es) with
  | Some c => Some c
  | None => option_map snd (first_re (order (regex_entries es)) i)
  end.

(* ExcludeMatcher + FindMatch (autodetection) *)
Definition excluded (excl : list string) (i : string) : bool :=
  existsb (fun k => if is_re k then re_match (pat_of k) i else String.eqb k i) excl.

(* Ifaces.validate *)
Definition ifaces_valid (es : list entry) : bool :=
  negb (Nat.eqb (List.length es) 0) && forallb (fun e => cc_valid (snd e)) es.

(* Manager.Update up to the call of updateSelected: None = error returned, nothing changed *)
Definition select (order : list entry -> list entry) (c : config) (e : env) : option (string -> option cconf) :=
  if cf_auto c then
    if negb (forallb key_ok (cf_excl c)) then None
    else if e_linkerr e then None
    else Some (fun i => if mem i (e_links e) && negb (excluded (cf_excl c) i) then Some default_cc else None)
  else
    let es := cf_ifaces c in
    if negb (ifaces_valid es) then None
    else if negb (forallb (fun x => key_ok (fst x)) es) then None
    else if existsb (fun x => is_re (fst x)) es then
      if e_linkerr e then None
      else Some (fun i => if mem i (e_links e) then find_match order es i else None)
    else Some (fun i => lookup i es).

(* does Update accept the configuration (same conditions, no order involved) *)
Definition accepts (c : config) (e : env) : bool :=
  if cf_auto c then forallb key_ok (cf_excl c) && negb (e_linkerr e)
  else
    let es := cf_ifaces c in
    ifaces_valid es && forallb (fun x => key_ok (fst x)) es &&
    negb (existsb (fun x => is_re (fst x)) es && e_linkerr e).

(* updateSelected after the fix: entries with disable: true are not captured on *)
Definition enabled_only (w : option cconf) : option cconf :=
  match w with Some c => if cc_disable c then None else Some c | None => None end.

(* ---------------------------------------------------------------- manager state (per interface) *)

Record ifst := mkIf {
  i_run : option (cconf * list N);    (* captures[iface]: Capture.config and the packets in its flow log *)
  i_applied : option cconf;           (* lastAppliedConfig[iface] *)
  i_wr : list N                       (* packets handed to the writeout handler for this interface so far *)
}.
Definition mstate := string -> ifst.
Definition st0 : mstate := fun _ => mkIf None None [].

(* newCapture + run (+ process, captures.Set) *)
Definition start (e : env) (i : string) (c : cconf) (wr : list N) : ifst :=
  mkIf (if mem i (e_down e) then None else Some (c, [])) (Some c) wr.

(* updateSelected + update for one interface; want = its entry in the selection *)
Definition upd_iface (e : env) (i : string) (want : option cconf) (s : ifst) : ifst :=
  match i_run s, want with
  | None, None => mkIf None None (i_wr s)
  | None, Some c => start e i c (i_wr s)                                  (* enable *)
  | Some (_, log), None => mkIf None None (i_wr s ++ log)                 (* disable: final writeout, close *)
  | Some (_, log), Some c =>
      if cc_eqb c (match i_applied s with Some a => a | None => zero_cc end)
      then mkIf (i_run s) (Some c) (i_wr s)                               (* unchanged: keeps running *)
      else start e i c (i_wr s ++ log)                                    (* update: final writeout, close, start *)
  end.

Inductive event :=
| EUpdate (c : config) (e : env)      (* Manager.Update *)
| EPkt (i : string) (p : N)           (* a packet arrives on interface i *)
| ERotate.                            (* scheduled writeout of all interfaces *)

Definition step (order : list entry -> list entry) (st : mstate) (ev : event) : mstate :=
  match ev with
  | EUpdate c e =>
      match select order c e with
      | None => st
      | Some sel => fun i => upd_iface e i (enabled_only (sel i)) (st i)
      end
  | EPkt i p => fun j =>
      let s := st j in
      if String.eqb j i then
        match i_run s with
        | Some (c, log) => mkIf (Some (c, p :: log)) (i_applied s) (i_wr s)
        | None => s
        end
      else s
  | ERotate => fun j =>
      let s := st j in
      match i_run s with
      | Some (c, log) => mkIf (Some (c, [])) (i_applied s) (i_wr s ++ log)
      | None => s
      end
  end.

Definition run_from (order : list entry -> list entry) (st : mstate) (evs : list event) : mstate :=
  fold_left (step order) evs st.
Definition run (order : list entry -> list entry) (evs : list event) : mstate := run_from order st0 evs.

Definition running_cfg (st : mstate) (i : string) : option cconf := option_map fst (i_run (st i)).
Definition is_running (st : mstate) (i : string) : bool := is_some (i_run (st i)).
Definition mem_log (st : mstate) (i : string) : list N :=
  match i_run (st i) with Some (_, log) => log | None => [] end.

(* the change lists returned by updateSelected *)
Inductive change := ChNone | ChEnable | ChUpdate | ChDisable.
Definition classify (want : option cconf) (s : ifst) : change :=
  match i_run s, want with
  | None, None => ChNone
  | None, Some _ => ChEnable
  | Some _, None => ChDisable
  | Some _, Some c => if cc_eqb c (match i_applied s with Some a => a | None => zero_cc end) then ChNone else ChUpdate
  end.

(* ---------------------------------------------------------------- specification of the selection *)

(* the entry with the smallest expression *)
Fixpoint min_entry (l : list entry) : option entry :=
  match l with
  | [] => None
  | e :: t => match min_entry t with
              | None => Some e
              | Some m => if str_ltb (fst e) (fst m) then Some e else Some m
              end
  end.

(* which configuration an interface is to run with under configuration c in environment e:
   no iteration order, no history *)
Definition spec_sel (c : config) (e : env) (i : string) : option cconf :=
  enabled_only
    (if cf_auto c then
       if mem i (e_links e) && negb (excluded (cf_excl c) i) then Some default_cc else None
     else
       let es := cf_ifaces c in
       if existsb (fun x => is_re (fst x)) es && negb (mem i (e_links e)) then None
       else match lookup i (explicit_entries es) with
            | Some cc => Some cc
            | None => option_map snd (min_entry (filter (fun x => re_match (fst x) i) (regex_entries es)))
            end).

(* ---------------------------------------------------------------- history functions used by the theorems *)

(* the last configuration Update accepted, with its environment *)
Definition last_accepted (evs : list event) : option (config * env) :=
  fold_left (fun acc ev => match ev with
                           | EUpdate c e => if accepts c e then Some (c, e) else acc
                           | _ => acc
                           end) evs None.

(* no source initialisation fails *)
Definition all_up (evs : list event) : bool :=
  forallb (fun ev => match ev with EUpdate _ e => match e_down e with [] => true | _ => false end | _ => true end) evs.

(* packets that arrived on i while a capture was running on it *)
Fixpoint delivered (order : list entry -> list entry) (st : mstate) (evs : list event) (i : string) : list N :=
  match evs with
  | [] => []
  | ev :: t =>
      (match ev with
       | EPkt j p => if String.eqb i j && is_running st i then [p] else []
       | _ => []
       end) ++ delivered order (step order st ev) t i
  end.

End Re.
