(* C27 correspondence: case type, corr (model prediction = observation of the real Manager) and holds
   (the observed run satisfies the property; computed from the observation and the script by the
   specification [spec_sel] and by counting packets, not by running the model). Executable only. *)
From Coq Require Import List String Bool Arith NArith.
From GoProbe.C27 Require Import Model.
Import ListNotations.
Open Scope string_scope.
Open Scope list_scope.

(* what the harness observes after Manager.Update: error?, the returned change lists, the effective
   configuration of every registered capture, Manager.Config(), the packets written out during the call.
   All lists are sorted by interface name, packet ids ascending; empty blocks are omitted. *)
Record uobs := mkU {
  u_err : bool;
  u_en : list string; u_up : list string; u_dis : list string;
  u_run : list entry;
  u_rep : list entry;
  u_wr : list (string * list N)
}.
Inductive obs :=
| OUpd (u : uobs)
| OPkt (d : bool)                         (* was there a running capture to deliver the packet to *)
| ORot (wr : list (string * list N)).     (* packets written by the scheduled writeout *)

(* compact constructor used by the harness printer: flags = ignore_vlans + 2 promisc + 4 disable *)
Definition cc (flags : N) (ring : option (N * N)) (bpf : list bpfi) : cconf :=
  mkCC (N.testbit flags 0) (N.testbit flags 1) ring bpf (N.testbit flags 2).

Record case := mkCase {
  c_re : list (string * option (list string));   (* Go regexp: pattern -> compile error | names it matches *)
  c_univ : list string;                          (* all interface names of the case, sorted *)
  c_evs : list event;
  c_obs : list obs;                              (* one per event *)
  c_mem : list (string * list N);                (* flows still in memory at the end (GetFlowMaps) *)
  c_stable : bool                                (* all repetitions (Go map orders) observed the same *)
}.

Definition re_ok_t (tab : list (string * option (list string))) (p : string) : bool :=
  match lookup p tab with Some (Some _) => true | _ => false end.
Definition re_match_t (tab : list (string * option (list string))) (p i : string) : bool :=
  match lookup p tab with Some (Some l) => mem i l | _ => false end.

(* ---- small executable helpers ---- *)
Fixpoint insertN (x : N) (l : list N) : list N :=
  match l with [] => [x] | h :: t => if N.leb x h then x :: l else h :: insertN x t end.
Definition sortN (l : list N) : list N := fold_right insertN [] l.

Definition cc_eq_entry (a b : entry) : bool := String.eqb (fst a) (fst b) && cc_eqb (snd a) (snd b).
Definition blk_eqb (a b : string * list N) : bool := String.eqb (fst a) (fst b) && list_eqb N.eqb (snd a) (snd b).

Definition uobs_eqb (a b : uobs) : bool :=
  Bool.eqb (u_err a) (u_err b) && list_eqb String.eqb (u_en a) (u_en b) && list_eqb String.eqb (u_up a) (u_up b) &&
  list_eqb String.eqb (u_dis a) (u_dis b) && list_eqb cc_eq_entry (u_run a) (u_run b) &&
  list_eqb cc_eq_entry (u_rep a) (u_rep b) && list_eqb blk_eqb (u_wr a) (u_wr b).
Definition obs_eqb (a b : obs) : bool :=
  match a, b with
  | OUpd x, OUpd y => uobs_eqb x y
  | OPkt x, OPkt y => Bool.eqb x y
  | ORot x, ORot y => list_eqb blk_eqb x y
  | _, _ => false
  end.

(* ---- model prediction ---- *)
Definition runl (univ : list string) (st : mstate) : list entry :=
  flat_map (fun i => match running_cfg st i with Some c => [(i, c)] | None => [] end) univ.
(* Manager.Config(): registered captures that have an entry in lastAppliedConfig *)
Definition repl (univ : list string) (st : mstate) : list entry :=
  flat_map (fun i => let s := st i in
                     match i_run s, i_applied s with Some _, Some a => [(i, a)] | _, _ => [] end) univ.
Definition wrdiff (univ : list string) (st st' : mstate) : list (string * list N) :=
  flat_map (fun i => match skipn (List.length (i_wr (st i))) (i_wr (st' i)) with
                     | [] => []
                     | l => [(i, sortN l)]
                     end) univ.
Definition is_ch (a b : change) : bool :=
  match a, b with ChNone, ChNone | ChEnable, ChEnable | ChUpdate, ChUpdate | ChDisable, ChDisable => true | _, _ => false end.

Definition predict_one (order : list entry -> list entry) tab (univ : list string) (st : mstate) (ev : event)
  : obs * mstate :=
  let st' := step (re_ok_t tab) (re_match_t tab) order st ev in
  match ev with
  | EUpdate c e =>
      match select (re_ok_t tab) (re_match_t tab) order c e with
      | None => (OUpd (mkU true [] [] [] (runl univ st) (repl univ st) []), st')
      | Some sel =>
          let cls := map (fun i => (i, classify (enabled_only (sel i)) (st i))) univ in
          let pick ch := map fst (filter (fun x => is_ch (snd x) ch) cls) in
          (OUpd (mkU false (pick ChEnable) (pick ChUpdate) (pick ChDisable)
                     (runl univ st') (repl univ st') (wrdiff univ st st')), st')
      end
  | EPkt i p => (OPkt (is_running st i), st')
  | ERotate => (ORot (wrdiff univ st st'), st')
  end.

Fixpoint predict (order : list entry -> list entry) tab univ (st : mstate) (evs : list event)
  : list obs * mstate :=
  match evs with
  | [] => ([], st)
  | ev :: t => let '(o, st') := predict_one order tab univ st ev in
               let '(os, stf) := predict order tab univ st' t in (o :: os, stf)
  end.

Definition meml (univ : list string) (st : mstate) : list (string * list N) :=
  flat_map (fun i => match mem_log st i with [] => [] | l => [(i, sortN l)] end) univ.

Definition corr_with (order : list entry -> list entry) (c : case) : bool :=
  let '(os, stf) := predict order (c_re c) (c_univ c) st0 (c_evs c) in
  list_eqb obs_eqb os (c_obs c) && list_eqb blk_eqb (meml (c_univ c) stf) (c_mem c).

(* the prediction must not depend on the iteration order handed to the model *)
Definition corr (c : case) : bool := corr_with (fun l => l) c && corr_with (@rev entry) c.

(* ---- specification on the observed data ---- *)
Definition flat (w : list (string * list N)) : list (string * N) :=
  flat_map (fun b => map (pair (fst b)) (snd b)) w.
Definition pk_of (i : string) (l : list (string * N)) : list N :=
  sortN (map snd (filter (fun x => String.eqb (fst x) i) l)).

Definition check_update tab (univ : list string) (c : config) (e : env) (u : uobs)
           (prev : list entry) (inj wr' : list (string * N)) : bool :=
  (* converges + deterministic configuration: exactly the selected interfaces run, each with the selected entry *)
  forallb (fun i => match lookup i (u_run u), spec_sel (re_match_t tab) c e i with
                    | Some rc, Some sc => cc_eqb rc sc
                    | None, None => true
                    | None, Some _ => mem i (e_down e)        (* only a failed source initialisation excuses *)
                    | Some _, None => false
                    end) univ
  && forallb (fun x => mem (fst x) univ) (u_run u)
  (* the reported configuration is the effective one *)
  && list_eqb cc_eq_entry (u_rep u) (u_run u)
  (* no loss: whatever was processed on an interface that is now removed or reconfigured has been written *)
  && forallb (fun x => let same := match lookup (fst x) (u_run u) with Some c1 => cc_eqb c1 (snd x) | None => false end in
                       same || list_eqb N.eqb (pk_of (fst x) inj) (pk_of (fst x) wr')) prev.

Fixpoint check tab (univ : list string) (evs : list event) (os : list obs)
         (prev : list entry) (inj wr : list (string * N)) : option (list entry * list (string * N) * list (string * N)) :=
  match evs, os with
  | [], [] => Some (prev, inj, wr)
  | EUpdate c e :: evs', OUpd u :: os' =>
      if u_err u then
        (* a rejected configuration changes nothing *)
        if list_eqb cc_eq_entry (u_run u) prev && match u_wr u with [] => true | _ => false end
        then check tab univ evs' os' prev inj wr else None
      else
        let wr' := wr ++ flat (u_wr u) in
        if check_update tab univ c e u prev inj wr' then check tab univ evs' os' (u_run u) inj wr' else None
  | EPkt i p :: evs', OPkt d :: os' =>
      if Bool.eqb d (is_some (lookup i prev))
      then check tab univ evs' os' prev (if d then inj ++ [(i, p)] else inj) wr else None
  | ERotate :: evs', ORot w :: os' => check tab univ evs' os' prev inj (wr ++ flat w)
  | _, _ => None
  end.

Definition holds (c : case) : bool :=
  c_stable c &&
  match check (c_re c) (c_univ c) (c_evs c) (c_obs c) [] [] [] with
  | None => false
  | Some (prev, inj, wr) =>
      (* accounting: written + still in memory = processed, per interface, nothing lost, nothing twice *)
      forallb (fun i => list_eqb N.eqb (pk_of i inj)
                                 (sortN (pk_of i wr ++ match lookup i (c_mem c) with Some l => l | None => [] end)))
              (c_univ c)
      && forallb (fun b => is_some (lookup (fst b) prev) && mem (fst b) (c_univ c)) (c_mem c)
  end.
