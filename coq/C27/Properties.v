(* C27 property theorems: statements closed by `exact`, Print Assumptions, non-vacuity examples.
   re_ok / re_match : Go's regexp (compiles? / pattern matches name?) - arbitrary functions.
   order            : the iteration order Go's map gives the regexp entries - an arbitrary permutation.
   evs              : ANY history of Update calls (each with its own configuration, host link list,
                      failing sources, hostLinks error), packets and scheduled writeouts. *)
From Coq Require Import List String Bool Arith NArith Permutation.
From GoProbe.C27 Require Import Model Proofs.
Import ListNotations.
Open Scope string_scope.
Open Scope list_scope.

(* After any history in which no source initialisation fails, the set of running captures is exactly
   the set of interfaces the last accepted configuration selects (for its host link list). *)
Theorem c27_converges : forall re_ok re_match order evs i,
  perm_order order -> wf_evs evs -> all_up evs = true ->
  is_running (run re_ok re_match order evs) i =
  match last_accepted re_ok evs with
  | None => false
  | Some (c, e) => is_some (spec_sel re_match c e i)
  end.
Proof. exact converges. Qed.
Print Assumptions c27_converges.

(* The configuration an interface runs with is spec_sel of the last accepted configuration: a function
   of that configuration alone (no history, no map order), namely the explicit entry, else the matching
   regexp entry with the smallest expression; never an entry with disable: true.  Without the all_up
   premise (sources may fail to start) whatever runs still runs with exactly that entry; and
   Manager.Config() (lastAppliedConfig) reports the configuration the capture really has. *)
Theorem c27_config_deterministic : forall re_ok re_match order evs i,
  perm_order order -> wf_evs evs ->
  (all_up evs = true ->
   running_cfg (run re_ok re_match order evs) i =
   match last_accepted re_ok evs with None => None | Some (c, e) => spec_sel re_match c e i end) /\
  (forall cc, running_cfg (run re_ok re_match order evs) i = Some cc ->
     (exists c e, last_accepted re_ok evs = Some (c, e) /\ spec_sel re_match c e i = Some cc) /\
     i_applied (run re_ok re_match order evs i) = Some cc).
Proof. exact config_deterministic. Qed.
Print Assumptions c27_config_deterministic.

(* ... in particular two runs that differ only in the map iteration order agree. *)
Theorem c27_order_independent : forall re_ok re_match order1 order2 evs i,
  perm_order order1 -> perm_order order2 -> wf_evs evs -> all_up evs = true ->
  running_cfg (run re_ok re_match order1 evs) i = running_cfg (run re_ok re_match order2 evs) i.
Proof. exact order_independent. Qed.
Print Assumptions c27_order_independent.

(* One accepted Update in any state satisfying the invariant, sources may fail: the exact result. *)
Theorem c27_update_step : forall re_ok re_match order st c e i,
  perm_order order -> wf_cfg c -> Inv st -> accepts re_ok c e = true ->
  running_cfg (step re_ok re_match order st (EUpdate c e)) i =
  match spec_sel re_match c e i with
  | None => None
  | Some cc => if (match running_cfg st i with Some c0 => cc_eqb cc c0 | None => false end) then Some cc
               else if mem i (e_down e) then None else Some cc
  end.
Proof. exact step_cfg_update. Qed.
Print Assumptions c27_update_step.

(* A configuration Update rejects changes nothing. *)
Theorem c27_rejected_noop : forall re_ok re_match order st c e,
  accepts re_ok c e = false -> step re_ok re_match order st (EUpdate c e) = st.
Proof. exact rejected_noop. Qed.
Print Assumptions c27_rejected_noop.

(* No loss.  (1) at any time, per interface: written out + still in the flow log = everything that
   arrived while a capture was running (nothing lost, nothing written twice).  (2) an Update that removes
   or reconfigures a running interface: everything that arrived on it before is written out, nothing
   stays behind in a flow log that is about to be dropped. *)
Theorem c27_no_loss : forall re_ok re_match order evs i,
  Permutation (i_wr (run re_ok re_match order evs i) ++ mem_log (run re_ok re_match order evs) i)
              (delivered re_ok re_match order st0 evs i) /\
  forall c e,
    is_running (run re_ok re_match order evs) i = true ->
    let st' := run re_ok re_match order (evs ++ [EUpdate c e]) in
    (is_running st' i = false \/ running_cfg st' i <> running_cfg (run re_ok re_match order evs) i) ->
    Permutation (i_wr (st' i)) (delivered re_ok re_match order st0 (evs ++ [EUpdate c e]) i) /\ mem_log st' i = [].
Proof. intros. split; [apply conservation | intros; apply no_loss; assumption]. Qed.
Print Assumptions c27_no_loss.

(* The fixed Equals is equality of all fields. *)
Theorem c27_equals_all_fields : forall a b, cc_eqb a b = true <-> a = b.
Proof. exact cc_eqb_spec. Qed.
Print Assumptions c27_equals_all_fields.

(* The defects of the original code, on the model of the original functions. *)
Theorem c27_orig_equals_refuted :
  (exists a b, a <> b /\ cc_equals_orig a b = Some true /\ cc_valid a = true /\ cc_valid b = true) /\
  (exists a b, cc_valid a = true /\ cc_valid b = true /\ cc_equals_orig a b = None).
Proof. split; [exact cc_equals_orig_incomplete | exact cc_equals_orig_panics]. Qed.
Print Assumptions c27_orig_equals_refuted.

Theorem c27_orig_findmatch_refuted :
  exists (rm : string -> string -> bool) (l : list entry) (i : string),
    NoDup (map fst l) /\ option_map snd (first_re rm l i) <> option_map snd (first_re rm (rev l) i).
Proof. exact first_re_order_dependent. Qed.
Print Assumptions c27_orig_findmatch_refuted.

(* ---- non-vacuity ------------------------------------------------------------------------- *)

Definition ex_ok (p : string) : bool := negb (String.eqb p "[").
Definition ex_match (p i : string) : bool :=
  (String.eqb p "^eth" && (String.eqb i "eth0" || String.eqb i "eth1")) ||
  (String.eqb p "0$" && (String.eqb i "eth0" || String.eqb i "wlan0")).
Definition ccA := mkCC false false (Some (2048, 4)%N) [] false.
Definition ccV := mkCC true false (Some (2048, 4)%N) [] false.
Definition ccB := mkCC false false (Some (2048, 4)%N) [(6, 0, 0, 1)%N] false.
Definition ex_env := mkEnv ["eth0"; "eth1"; "lo"; "wlan0"] [] false.
Definition ex_cfg1 := mkCfg false [] [("/^eth/", ccA); ("/0$/", ccV); ("lo", ccA)].
Definition ex_cfg2 := mkCfg false [] [("/^eth/", ccB); ("/0$/", ccV); ("eth1", mkCC false false None [] true)].
Definition ex_bad := mkCfg false [] [("/[/", ccA)].
Definition ex_evs := [EUpdate ex_cfg1 ex_env; EPkt "eth0" 7%N; EPkt "lo" 8%N; ERotate; EPkt "lo" 9%N; EPkt "eth1" 3%N;
                      EUpdate ex_bad ex_env].

Lemma ex_perm : perm_order (@rev entry).
Proof. intro l. apply Permutation_sym, Permutation_rev. Qed.
Lemma ex_wf : wf_evs (ex_evs ++ [EUpdate ex_cfg2 ex_env]).
Proof.
  intros c e H. simpl in H.
  repeat (destruct H as [H|H]; [inversion H; subst; unfold wf_cfg; vm_compute; repeat constructor; simpl; intuition discriminate|]).
  destruct H.
Qed.

(* overlapping expressions (eth0 matches both, "0$" < "^eth"), a rejected configuration in between, an
   explicit disable, reversed map order: eth0 runs with the "0$" entry, wlan0 too, eth1 is off, lo removed *)
Example c27_converges_example :
  perm_order (@rev entry) /\ wf_evs (ex_evs ++ [EUpdate ex_cfg2 ex_env]) /\ all_up (ex_evs ++ [EUpdate ex_cfg2 ex_env]) = true /\
  last_accepted ex_ok (ex_evs ++ [EUpdate ex_cfg2 ex_env]) = Some (ex_cfg2, ex_env) /\
  map (is_running (run ex_ok ex_match (@rev entry) (ex_evs ++ [EUpdate ex_cfg2 ex_env]))) ["eth0"; "eth1"; "lo"; "wlan0"]
  = [true; false; false; true].
Proof. split; [exact ex_perm|]. split; [exact ex_wf|]. vm_compute. auto. Qed.

Example c27_config_deterministic_example :
  running_cfg (run ex_ok ex_match (@rev entry) ex_evs) "eth0" = Some ccV /\
  running_cfg (run ex_ok ex_match (fun l => l) ex_evs) "eth0" = Some ccV /\
  spec_sel ex_match ex_cfg1 ex_env "eth0" = Some ccV /\ spec_sel ex_match ex_cfg1 ex_env "eth1" = Some ccA /\
  i_applied (run ex_ok ex_match (@rev entry) ex_evs "eth0") = Some ccV /\
  (* the original first-match loop would have given eth0 either entry *)
  option_map snd (first_re ex_match (regex_entries (cf_ifaces ex_cfg1)) "eth0") = Some ccA /\
  option_map snd (first_re ex_match (rev (regex_entries (cf_ifaces ex_cfg1))) "eth0") = Some ccV.
Proof. vm_compute. repeat split; reflexivity. Qed.

Example c27_order_independent_example :
  perm_order (@rev entry) /\ perm_order (fun l : list entry => l) /\ all_up ex_evs = true.
Proof. split; [exact ex_perm|]. split; [intro l; apply Permutation_refl | reflexivity]. Qed.

(* lo must be restarted with new parameters but its source fails: not running; wlan0 is "down" as well but
   keeps running because its entry did not change *)
Definition ex_cfg3 := mkCfg false [] [("lo", ccB); ("/0$/", ccV)].
Definition ex_env3 := mkEnv ["eth0"; "eth1"; "lo"; "wlan0"] ["lo"; "wlan0"] false.
Example c27_update_step_example :
  accepts ex_ok ex_cfg3 ex_env3 = true /\
  map (running_cfg (step ex_ok ex_match (@rev entry) (run ex_ok ex_match (@rev entry) ex_evs) (EUpdate ex_cfg3 ex_env3)))
      ["eth0"; "eth1"; "lo"; "wlan0"]
  = [Some ccV; None; None; Some ccV].
Proof. vm_compute. auto. Qed.

Example c27_rejected_noop_example :
  accepts ex_ok ex_bad ex_env = false /\ accepts ex_ok (mkCfg false [] []) ex_env = false /\
  accepts ex_ok (mkCfg false [] [("eth0", mkCC false true None [] true)]) ex_env = false /\
  accepts ex_ok ex_cfg1 (mkEnv [] [] true) = false /\ accepts ex_ok ex_cfg1 ex_env = true.
Proof. vm_compute. auto. Qed.

(* lo: 8 was written by the scheduled writeout, 9 by the final writeout when lo is removed; eth1 is
   switched off: 3 is written; eth0 keeps running unchanged: 7 (written by the scheduled writeout) *)
Example c27_no_loss_example :
  let st := run ex_ok ex_match (@rev entry) ex_evs in
  let st' := run ex_ok ex_match (@rev entry) (ex_evs ++ [EUpdate ex_cfg2 ex_env]) in
  is_running st "lo" = true /\ is_running st' "lo" = false /\ mem_log st "lo" = [9%N] /\
  i_wr (st' "lo") = [8%N; 9%N] /\ delivered ex_ok ex_match (@rev entry) st0 (ex_evs ++ [EUpdate ex_cfg2 ex_env]) "lo" = [8%N; 9%N] /\
  is_running st "eth1" = true /\ is_running st' "eth1" = false /\ i_wr (st' "eth1") = [3%N] /\
  i_wr (st' "eth0") = [7%N].
Proof. vm_compute. repeat split; reflexivity. Qed.

Example c27_equals_all_fields_example : cc_eqb ccA ccV = false /\ cc_eqb ccA ccB = false /\ cc_eqb ccB ccB = true.
Proof. vm_compute. auto. Qed.
