(* C27 proofs. *)
From Coq Require Import List String Ascii Bool Arith NArith Permutation OrdersEx Lia RelationClasses.
From GoProbe.C27 Require Import Model.
Import ListNotations.
Open Scope string_scope.
Open Scope list_scope.

(* ------------------------------------------------------------------ Equals (fixed) is equality *)

Lemma list_eqb_spec {A} (eqb : A -> A -> bool) :
  (forall a b, eqb a b = true <-> a = b) -> forall l1 l2, list_eqb eqb l1 l2 = true <-> l1 = l2.
Proof.
  intros H l1. induction l1 as [|a t IH]; intros [|b t2]; simpl; split; intro E; try congruence; try discriminate.
  - apply andb_true_iff in E as [E1 E2]. apply H in E1. apply IH in E2. congruence.
  - inversion E; subst. apply andb_true_iff. split; [apply H; reflexivity | apply IH; reflexivity].
Qed.

Lemma bpfi_eqb_spec : forall a b, bpfi_eqb a b = true <-> a = b.
Proof.
  intros [[[a1 a2] a3] a4] [[[b1 b2] b3] b4]. unfold bpfi_eqb.
  rewrite !andb_true_iff, !N.eqb_eq. split.
  - intros [[[? ?] ?] ?]; subst; reflexivity.
  - intro E; inversion E; auto.
Qed.

Lemma ring_eqb_spec : forall a b, ring_eqb a b = true <-> a = b.
Proof.
  intros [[x1 y1]|] [[x2 y2]|]; simpl; split; intro E; try congruence; try discriminate.
  - apply andb_true_iff in E as [E1 E2]. apply N.eqb_eq in E1, E2. congruence.
  - inversion E; subst. rewrite !N.eqb_refl. reflexivity.
Qed.

Lemma cc_eqb_spec : forall a b, cc_eqb a b = true <-> a = b.
Proof.
  intros [v1 p1 r1 b1 d1] [v2 p2 r2 b2 d2]. unfold cc_eqb; simpl.
  rewrite !andb_true_iff, !eqb_true_iff, ring_eqb_spec, (list_eqb_spec bpfi_eqb bpfi_eqb_spec). split.
  - intros [[[[? ?] ?] ?] ?]; subst; reflexivity.
  - intro E; inversion E; auto.
Qed.

(* the original Equals accepts different configurations, and can dereference nil *)
Lemma cc_equals_orig_incomplete :
  exists a b, a <> b /\ cc_equals_orig a b = Some true /\ cc_valid a = true /\ cc_valid b = true.
Proof.
  exists (mkCC false false (Some (2048, 4)%N) [] false), (mkCC true false (Some (2048, 4)%N) [(6, 0, 0, 1)%N] false).
  split; [discriminate | vm_compute; auto].
Qed.
Lemma cc_equals_orig_panics :
  exists a b, cc_valid a = true /\ cc_valid b = true /\ cc_equals_orig a b = None.
Proof. exists (mkCC false false None [] true), (mkCC false false (Some (2048, 4)%N) [] false). vm_compute; auto. Qed.

(* ------------------------------------------------------------------ string order *)

Definition slt (a b : string) : Prop := String_as_OT.compare a b = Lt.

Lemma str_ltb_true : forall a b, str_ltb a b = true <-> slt a b.
Proof. intros a b. unfold str_ltb, slt. destruct (String_as_OT.compare a b); split; congruence. Qed.
Lemma str_ltb_false : forall a b, str_ltb a b = false -> a = b \/ slt b a.
Proof.
  intros a b H. unfold str_ltb in H.
  destruct (String_as_OT.compare_spec a b) as [E|L|G]; try discriminate; [left; exact E | right; exact G].
Qed.
Lemma slt_trans : forall a b c, slt a b -> slt b c -> slt a c.
Proof. intros a b c. apply (@StrictOrder_Transitive _ _ String_as_OT.lt_strorder). Qed.
Lemma slt_irrefl : forall a, ~ slt a a.
Proof. intro a. apply (@StrictOrder_Irreflexive _ _ String_as_OT.lt_strorder). Qed.

(* ------------------------------------------------------------------ smallest matching expression *)

Definition is_min (l : list entry) (m : entry) : Prop :=
  In m l /\ forall e, In e l -> fst e = fst m \/ slt (fst m) (fst e).

Lemma min_entry_spec : forall l, match min_entry l with None => l = [] | Some m => is_min l m end.
Proof.
  induction l as [|e t IH]; simpl; [reflexivity|].
  destruct (min_entry t) as [m|].
  - destruct IH as [Hin Hmin]. destruct (str_ltb (fst e) (fst m)) eqn:L.
    + apply str_ltb_true in L. split; [left; reflexivity|].
      intros x [<-|Hx]; [left; reflexivity|]. right.
      destruct (Hmin x Hx) as [E|S]; [rewrite E; exact L | eapply slt_trans; eauto].
    + apply str_ltb_false in L. split; [right; exact Hin|].
      intros x [<-|Hx]; [|apply Hmin; exact Hx].
      destruct L as [E|S]; [left; exact E | right; exact S].
  - subst t. split; [left; reflexivity|]. intros x [<-|[]]. left; reflexivity.
Qed.

Lemma fst_inj_of_NoDup : forall (l : list entry) a b,
  NoDup (map fst l) -> In a l -> In b l -> fst a = fst b -> a = b.
Proof.
  induction l as [|x t IH]; intros a b ND Ha Hb E; [destruct Ha|].
  simpl in ND. inversion ND as [|? ? Hnot ND']; subst.
  destruct Ha as [<-|Ha], Hb as [<-|Hb]; auto.
  - exfalso. apply Hnot. rewrite E. apply in_map. exact Hb.
  - exfalso. apply Hnot. rewrite <- E. apply in_map. exact Ha.
Qed.

Lemma is_min_unique : forall l m m', NoDup (map fst l) -> is_min l m -> is_min l m' -> m = m'.
Proof.
  intros l m m' ND [Hin Hmin] [Hin' Hmin'].
  destruct (Hmin m' Hin') as [E|S].
  - symmetry. eapply fst_inj_of_NoDup; eauto.
  - destruct (Hmin' m Hin) as [E|S'].
    + eapply fst_inj_of_NoDup; eauto.
    + exfalso. eapply slt_irrefl. eapply slt_trans; eauto.
Qed.

Lemma NoDup_map_filter : forall (f : entry -> bool) (l : list entry),
  NoDup (map fst l) -> NoDup (map fst (filter f l)).
Proof.
  induction l as [|x t IH]; simpl; intro ND; [constructor|].
  inversion ND as [|? ? Hnot ND']; subst. destruct (f x); simpl; auto.
  constructor; auto. intro Hin. apply Hnot. apply in_map_iff in Hin as [y [E Hy]].
  apply filter_In in Hy as [Hy _]. rewrite <- E. apply in_map. exact Hy.
Qed.

(* ------------------------------------------------------------------ distinct keys /p/ have distinct expressions p *)

Lemma substring_0_S : forall m a s, substring 0 (S m) (String a s) = String a (substring 0 m s).
Proof. reflexivity. Qed.

Lemma ends_decomp : forall t, ends_slash t = true -> t = (substring 0 (String.length t - 1) t ++ "/")%string.
Proof.
  induction t as [|a t IH]; intro H; [discriminate|].
  destruct t as [|b t'].
  - simpl in H. unfold is_slash in H. apply Ascii.eqb_eq in H. subst. reflexivity.
  - assert (H' : ends_slash (String b t') = true) by exact H.
    specialize (IH H').
    replace (String.length (String a (String b t')) - 1) with (S (String.length (String b t') - 1))
      by (cbn [String.length]; lia).
    rewrite substring_0_S. cbn [append]. f_equal. exact IH.
Qed.

Lemma is_re_decomp : forall k, is_re k = true -> k = String "/"%char (pat_of k ++ "/")%string.
Proof.
  intros k H. unfold is_re in H. apply andb_true_iff in H as [H H3]. apply andb_true_iff in H as [H1 H2].
  destruct k as [|c t]; [discriminate|]. simpl in H2. unfold is_slash in H2. apply Ascii.eqb_eq in H2. subst c.
  apply Nat.leb_le in H1. simpl in H1.
  destruct t as [|b t']; [simpl in H1; lia|].
  assert (E : ends_slash (String b t') = true) by exact H3.
  unfold pat_of. f_equal.
  replace (String.length (String "/" (String b t')) - 2) with (String.length (String b t') - 1) by (simpl; lia).
  change (substring 1 (String.length (String b t') - 1) (String "/" (String b t')))
    with (substring 0 (String.length (String b t') - 1) (String b t')).
  apply ends_decomp. exact E.
Qed.

Lemma pat_of_inj : forall k1 k2, is_re k1 = true -> is_re k2 = true -> pat_of k1 = pat_of k2 -> k1 = k2.
Proof. intros k1 k2 H1 H2 E. rewrite (is_re_decomp k1 H1), (is_re_decomp k2 H2), E. reflexivity. Qed.

Lemma NoDup_map_inj_on : forall {A B} (f : A -> B) (l : list A),
  (forall x y, In x l -> In y l -> f x = f y -> x = y) -> NoDup l -> NoDup (map f l).
Proof.
  induction l as [|a t IH]; simpl; intros Hinj ND; [constructor|].
  inversion ND as [|? ? Hnot ND']; subst. constructor.
  - intro Hin. apply in_map_iff in Hin as [y [E Hy]]. apply Hnot.
    rewrite (Hinj a y (or_introl eq_refl) (or_intror Hy) (eq_sym E)). exact Hy.
  - apply IH; auto.
Qed.

Lemma regex_entries_NoDup : forall es, NoDup (map fst es) -> NoDup (map fst (regex_entries es)).
Proof.
  intros es ND. unfold regex_entries. rewrite map_map. cbn [fst].
  rewrite <- (map_map fst pat_of).
  apply NoDup_map_inj_on.
  - intros x y Hx Hy. apply in_map_iff in Hx as [ex [<- Hex]]. apply in_map_iff in Hy as [ey [<- Hey]].
    apply filter_In in Hex as [_ Rx]. apply filter_In in Hey as [_ Ry]. apply pat_of_inj; assumption.
  - induction es as [|x t IH]; simpl; [constructor|].
    simpl in ND. inversion ND as [|? ? Hnot ND']; subst. destruct (is_re (fst x)); simpl; auto.
    constructor; auto. intro Hin. apply Hnot. apply in_map_iff in Hin as [y [Ey Hy]].
    apply filter_In in Hy as [Hy _]. rewrite <- Ey. apply in_map. exact Hy.
Qed.

Section Re.
Variable re_ok : string -> bool.
Variable re_match : string -> string -> bool.

Notation better := (better re_match).
Notation best_re := (best_re re_match).
Notation find_match := (find_match re_match).
Notation select := (select re_ok re_match).
Notation accepts := (accepts re_ok).
Notation spec_sel := (spec_sel re_match).
Notation step := (step re_ok re_match).
Notation run := (run re_ok re_match).
Notation run_from := (run_from re_ok re_match).
Notation delivered := (delivered re_ok re_match).
Notation last_accepted := (last_accepted re_ok).

Definition matching (i : string) (l : list entry) : list entry := filter (fun x => re_match (fst x) i) l.

(* the one-pass loop of the fixed FindMatch computes the smallest matching expression, whatever the order *)
Lemma best_re_spec : forall l i,
  match best_re l i with
  | None => forall e, In e l -> re_match (fst e) i = false
  | Some m => is_min (matching i l) m
  end.
Proof.
  intros l i. induction l as [|e l IH] using rev_ind.
  - simpl. intros e [].
  - unfold Model.best_re in *. rewrite fold_left_app. simpl.
    destruct (fold_left (better i) l None) as [b|] eqn:B; unfold Model.better at 1.
    + destruct IH as [Hin Hmin]. destruct (re_match (fst e) i) eqn:M; simpl.
      * destruct (str_ltb (fst e) (fst b)) eqn:L.
        -- apply str_ltb_true in L. unfold matching. rewrite filter_app. simpl. rewrite M. split.
           ++ apply in_or_app. right. left. reflexivity.
           ++ intros x Hx. apply in_app_or in Hx as [Hx|[<-|[]]]; [|left; reflexivity]. right.
              destruct (Hmin x Hx) as [E|S]; [rewrite E; exact L | eapply slt_trans; eauto].
        -- apply str_ltb_false in L. unfold matching. rewrite filter_app. simpl. rewrite M. split.
           ++ apply in_or_app. left. exact Hin.
           ++ intros x Hx. apply in_app_or in Hx as [Hx|[<-|[]]]; [apply Hmin; exact Hx|].
              destruct L as [E|S]; [left; exact E | right; exact S].
      * unfold matching. rewrite filter_app. simpl. rewrite M. rewrite app_nil_r. split; assumption.
    + destruct (re_match (fst e) i) eqn:M; simpl.
      * unfold matching. rewrite filter_app. simpl. rewrite M.
        assert (F : filter (fun x => re_match (fst x) i) l = []).
        { clear -IH. induction l as [|y t IHt]; simpl; [reflexivity|].
          rewrite (IH y (or_introl eq_refl)). apply IHt. intros z Hz. apply IH. right. exact Hz. }
        unfold entry in *. rewrite F. simpl. split; [left; reflexivity|]. intros x [<-|[]]. left; reflexivity.
      * intros x Hx. apply in_app_or in Hx as [Hx|[<-|[]]]; [apply IH; exact Hx | exact M].
Qed.

Lemma best_re_perm : forall l l' i,
  Permutation l' l -> NoDup (map fst l) ->
  option_map snd (best_re l' i) = option_map snd (min_entry (matching i l)).
Proof.
  intros l l' i P ND.
  pose proof (best_re_spec l' i) as B. pose proof (min_entry_spec (matching i l)) as M.
  assert (Heq : forall x, In x (matching i l') <-> In x (matching i l)).
  { intro x. unfold matching. rewrite !filter_In. split; intros [H1 H2]; split; auto.
    - eapply Permutation_in; eauto.
    - eapply Permutation_in; [apply Permutation_sym|]; eauto. }
  destruct (best_re l' i) as [m|].
  - assert (Hm : is_min (matching i l) m).
    { destruct B as [Hin Hmin]. split; [apply Heq; exact Hin|]. intros x Hx. apply Hmin. apply Heq. exact Hx. }
    destruct (min_entry (matching i l)) as [m'|].
    + simpl. f_equal. f_equal.
      apply (is_min_unique (matching i l) m m'); [apply NoDup_map_filter; exact ND | exact Hm | exact M].
    + destruct Hm as [Hin _]. rewrite M in Hin. destruct Hin.
  - destruct (min_entry (matching i l)) as [m'|]; [|reflexivity].
    destruct M as [Hin _]. unfold matching in Hin. apply filter_In in Hin as [Hin Hm].
    rewrite (B m') in Hm; [discriminate|]. eapply Permutation_in; [apply Permutation_sym|]; eauto.
Qed.

(* the original loop (first match in map order) does depend on the order *)
Lemma first_re_order_dependent :
  exists (rm : string -> string -> bool) (l : list entry) (i : string),
    NoDup (map fst l) /\ option_map snd (first_re rm l i) <> option_map snd (first_re rm (rev l) i).
Proof.
  exists (fun _ _ => true), [("a", zero_cc); ("b", default_cc)], "eth0". split.
  - repeat constructor; simpl; intuition discriminate.
  - vm_compute. discriminate.
Qed.

(* ------------------------------------------------------------------ select = specification *)

(* the configuration is a Go map: distinct keys (hence distinct expressions, regex_entries_NoDup) *)
Definition wf_cfg (c : config) : Prop := NoDup (map fst (cf_ifaces c)).

Definition perm_order (order : list entry -> list entry) : Prop := forall l, Permutation (order l) l.

Lemma filter_all : forall {A} (f : A -> bool) l, forallb f l = true -> filter f l = l.
Proof.
  induction l as [|x t IH]; simpl; intro H; [reflexivity|].
  apply andb_true_iff in H as [H1 H2]. rewrite H1, IH; auto.
Qed.
Lemma filter_none : forall {A} (f : A -> bool) l, existsb f l = false -> filter f l = [].
Proof.
  induction l as [|x t IH]; simpl; intro H; [reflexivity|].
  apply orb_false_iff in H as [H1 H2]. rewrite H1, IH; auto.
Qed.
Lemma forallb_negb_existsb : forall {A} (f : A -> bool) l, existsb f l = false -> forallb (fun x => negb (f x)) l = true.
Proof.
  induction l as [|x t IH]; simpl; intro H; [reflexivity|].
  apply orb_false_iff in H as [H1 H2]. rewrite H1, IH; auto.
Qed.

Lemma select_accepts : forall order c e,
  (accepts c e = true -> exists sel, select order c e = Some sel) /\
  (accepts c e = false -> select order c e = None).
Proof.
  intros order c e. unfold Model.select, Model.accepts.
  destruct (cf_auto c); cbv zeta.
  - destruct (forallb (key_ok re_ok) (cf_excl c)); destruct (e_linkerr e); simpl;
      split; intro; try discriminate; eauto.
  - destruct (ifaces_valid (cf_ifaces c)); destruct (forallb (fun x => key_ok re_ok (fst x)) (cf_ifaces c));
      destruct (existsb (fun x => is_re (fst x)) (cf_ifaces c)); destruct (e_linkerr e); simpl;
      split; intro; try discriminate; eauto.
Qed.

Lemma select_spec : forall order c e sel i,
  perm_order order -> wf_cfg c -> select order c e = Some sel -> enabled_only (sel i) = spec_sel c e i.
Proof.
  intros order c e sel i PO WF S. unfold Model.select in S. unfold Model.spec_sel.
  destruct (cf_auto c).
  - destruct (negb _); [discriminate|]. destruct (e_linkerr e); [discriminate|]. inversion S; subst. reflexivity.
  - cbv zeta in S. destruct (negb (ifaces_valid _)); [discriminate|]. destruct (negb (forallb _ _)); [discriminate|].
    destruct (existsb (fun x => is_re (fst x)) (cf_ifaces c)) eqn:HR.
    + destruct (e_linkerr e); [discriminate|]. inversion S; subst. simpl.
      destruct (mem i (e_links e)); simpl; [|reflexivity].
      unfold Model.find_match. destruct (lookup i (explicit_entries (cf_ifaces c))); [reflexivity|].
      f_equal. apply best_re_perm; [apply PO | apply regex_entries_NoDup; exact WF].
    + inversion S; subst. simpl. f_equal.
      unfold explicit_entries, regex_entries.
      rewrite (filter_none _ _ HR). simpl.
      rewrite (filter_all _ _ (forallb_negb_existsb _ _ HR)).
      destruct (lookup i (cf_ifaces c)); reflexivity.
Qed.

(* ------------------------------------------------------------------ one Update, one interface *)

(* lastAppliedConfig agrees with the configuration of every registered capture *)
Definition Inv (st : mstate) : Prop :=
  forall i c log, i_run (st i) = Some (c, log) -> i_applied (st i) = Some c.

Lemma upd_iface_cfg : forall e i want s,
  (forall c log, i_run s = Some (c, log) -> i_applied s = Some c) ->
  option_map fst (i_run (upd_iface e i want s)) =
  match want with
  | None => None
  | Some c => if (match option_map fst (i_run s) with Some c0 => cc_eqb c c0 | None => false end) then Some c
              else if mem i (e_down e) then None else Some c
  end.
Proof.
  intros e i want s HI. unfold upd_iface, start.
  destruct (i_run s) as [[c0 log]|] eqn:R; destruct want as [c|]; simpl; try reflexivity.
  - rewrite (HI c0 log eq_refl). destruct (cc_eqb c c0) eqn:E.
    + simpl. apply cc_eqb_spec in E. congruence.
    + simpl. destruct (mem i (e_down e)); reflexivity.
  - destruct (mem i (e_down e)); reflexivity.
Qed.

Lemma upd_iface_inv : forall e i want s,
  (forall c log, i_run s = Some (c, log) -> i_applied s = Some c) ->
  forall c log, i_run (upd_iface e i want s) = Some (c, log) -> i_applied (upd_iface e i want s) = Some c.
Proof.
  intros e i want s HI c log. unfold upd_iface, start.
  destruct (i_run s) as [[c0 log0]|] eqn:R; destruct want as [c1|]; simpl; try discriminate.
  - rewrite (HI c0 log0 eq_refl). destruct (cc_eqb c1 c0) eqn:E; simpl.
    + intro H; inversion H; subst. apply cc_eqb_spec in E. congruence.
    + destruct (mem i (e_down e)); [discriminate|]. intro H; inversion H; reflexivity.
  - destruct (mem i (e_down e)); [discriminate|]. intro H; inversion H; reflexivity.
Qed.

Lemma step_inv : forall order st ev, Inv st -> Inv (step order st ev).
Proof.
  intros order st ev HI. destruct ev as [c e|j p|]; simpl.
  - destruct (select order c e) as [sel|]; [|exact HI].
    intros i c0 log. apply upd_iface_inv. apply HI.
  - intros i c0 log. destruct (String.eqb i j); [|apply HI].
    destruct (i_run (st i)) as [[c1 l1]|] eqn:R; simpl; [|rewrite R; discriminate].
    intro H; inversion H; subst. eapply HI; eauto.
  - intros i c0 log. destruct (i_run (st i)) as [[c1 l1]|] eqn:R; simpl; [|rewrite R; discriminate].
    intro H; inversion H; subst. eapply HI; eauto.
Qed.

Lemma run_from_snoc : forall order st evs ev, run_from order st (evs ++ [ev]) = step order (run_from order st evs) ev.
Proof. intros. unfold Model.run_from. rewrite fold_left_app. reflexivity. Qed.

Lemma run_inv : forall order evs, Inv (run order evs).
Proof.
  intros order evs. unfold Model.run. induction evs as [|ev evs IH] using rev_ind.
  - intros i c log H. discriminate.
  - rewrite run_from_snoc. apply step_inv. exact IH.
Qed.

(* events other than an accepted Update leave the set of captures and their configurations alone *)
Lemma step_cfg_other : forall order st ev i,
  match ev with EUpdate c e => accepts c e = false | _ => True end ->
  running_cfg (step order st ev) i = running_cfg st i.
Proof.
  intros order st ev i H. unfold running_cfg. destruct ev as [c e|j p|]; simpl.
  - rewrite (proj2 (select_accepts order c e) H). reflexivity.
  - destruct (String.eqb i j); [|reflexivity].
    destruct (i_run (st i)) as [[c1 l1]|] eqn:R; simpl; rewrite ?R; reflexivity.
  - destruct (i_run (st i)) as [[c1 l1]|] eqn:R; simpl; rewrite ?R; reflexivity.
Qed.

Lemma step_cfg_update : forall order st c e i,
  perm_order order -> wf_cfg c -> Inv st -> accepts c e = true ->
  running_cfg (step order st (EUpdate c e)) i =
  match spec_sel c e i with
  | None => None
  | Some cc => if (match running_cfg st i with Some c0 => cc_eqb cc c0 | None => false end) then Some cc
               else if mem i (e_down e) then None else Some cc
  end.
Proof.
  intros order st c e i PO WF HI A. destruct (proj1 (select_accepts order c e) A) as [sel S].
  unfold running_cfg. simpl. rewrite S. rewrite upd_iface_cfg; [|apply HI].
  rewrite (select_spec order c e sel i PO WF S). reflexivity.
Qed.

(* ------------------------------------------------------------------ histories *)

Definition wf_evs (evs : list event) : Prop :=
  forall c e, In (EUpdate c e) evs -> wf_cfg c.

Lemma last_accepted_snoc : forall evs ev,
  last_accepted (evs ++ [ev]) =
  match ev with
  | EUpdate c e => if accepts c e then Some (c, e) else last_accepted evs
  | _ => last_accepted evs
  end.
Proof. intros. unfold Model.last_accepted. rewrite fold_left_app. simpl. destruct ev; reflexivity. Qed.

(* soundness: whatever runs, runs with the entry the last accepted configuration selects for it *)
Lemma running_sound : forall order evs i cc,
  perm_order order -> wf_evs evs ->
  running_cfg (run order evs) i = Some cc ->
  exists c e, last_accepted evs = Some (c, e) /\ spec_sel c e i = Some cc.
Proof.
  intros order evs i cc PO. unfold Model.run. induction evs as [|ev evs IH] using rev_ind; intros WF R.
  - discriminate.
  - assert (WF' : wf_evs evs) by (intros c e H; apply (WF c e); apply in_or_app; left; exact H).
    rewrite run_from_snoc in R. rewrite last_accepted_snoc.
    destruct ev as [c e|j p|].
    + destruct (accepts c e) eqn:A.
      * exists c, e. split; [reflexivity|].
        rewrite step_cfg_update in R; auto.
        -- destruct (spec_sel c e i) as [c1|]; [|discriminate].
           destruct (match running_cfg _ i with Some c0 => cc_eqb c1 c0 | None => false end); [exact R|].
           destruct (mem i (e_down e)); [discriminate | exact R].
        -- apply (WF c e). apply in_or_app. right. left. reflexivity.
        -- apply run_inv.
      * rewrite step_cfg_other in R; auto.
    + rewrite step_cfg_other in R; auto.
    + rewrite step_cfg_other in R; auto.
Qed.

Lemma all_up_snoc : forall evs ev,
  all_up (evs ++ [ev]) = all_up evs && match ev with EUpdate _ e => match e_down e with [] => true | _ => false end | _ => true end.
Proof. intros. unfold all_up. rewrite forallb_app. simpl. rewrite andb_true_r. reflexivity. Qed.

(* completeness: if no source initialisation fails, everything selected runs *)
Lemma running_complete : forall order evs i,
  perm_order order -> wf_evs evs -> all_up evs = true ->
  running_cfg (run order evs) i =
  match last_accepted evs with None => None | Some (c, e) => spec_sel c e i end.
Proof.
  intros order evs i PO. unfold Model.run. induction evs as [|ev evs IH] using rev_ind; intros WF U.
  - reflexivity.
  - assert (WF' : wf_evs evs) by (intros c e H; apply (WF c e); apply in_or_app; left; exact H).
    rewrite all_up_snoc in U. apply andb_true_iff in U as [U1 U2].
    rewrite run_from_snoc, last_accepted_snoc.
    destruct ev as [c e|j p|].
    + destruct (accepts c e) eqn:A.
      * rewrite step_cfg_update; auto.
        -- destruct (spec_sel c e i) as [c1|]; [|reflexivity].
           destruct (e_down e); [|discriminate]. simpl.
           destruct (match running_cfg _ i with Some c0 => cc_eqb c1 c0 | None => false end); reflexivity.
        -- apply (WF c e). apply in_or_app. right. left. reflexivity.
        -- apply run_inv.
      * rewrite step_cfg_other; auto.
    + rewrite step_cfg_other; auto.
    + rewrite step_cfg_other; auto.
Qed.

(* ------------------------------------------------------------------ no loss *)

Lemma step_conserves : forall order st ev i,
  Permutation (i_wr (step order st ev i) ++ mem_log (step order st ev) i)
              (i_wr (st i) ++ mem_log st i ++
               match ev with EPkt j p => if String.eqb i j && is_running st i then [p] else [] | _ => [] end).
Proof.
  intros order st ev i. unfold mem_log, is_running. destruct ev as [c e|j p|]; simpl.
  - rewrite app_nil_r. destruct (select order c e) as [sel|]; [|reflexivity].
    unfold upd_iface, start. destruct (i_run (st i)) as [[c0 log]|] eqn:R; destruct (enabled_only (sel i)) as [c1|]; simpl.
    + destruct (cc_eqb c1 _); simpl; [rewrite ?R; reflexivity|].
      destruct (mem i (e_down e)); simpl; rewrite app_nil_r; reflexivity.
    + rewrite app_nil_r. reflexivity.
    + destruct (mem i (e_down e)); reflexivity.
    + reflexivity.
  - destruct (String.eqb i j); simpl; [|rewrite app_nil_r; reflexivity].
    destruct (i_run (st i)) as [[c0 log]|] eqn:R; simpl; [|rewrite ?R, !app_nil_r; reflexivity].
    apply Permutation_app_head. apply Permutation_cons_append.
  - rewrite app_nil_r. destruct (i_run (st i)) as [[c0 log]|] eqn:R; simpl; [|rewrite ?R; reflexivity].
    rewrite app_nil_r. reflexivity.
Qed.

Lemma conservation_from : forall order evs st i,
  Permutation (i_wr (run_from order st evs i) ++ mem_log (run_from order st evs) i)
              (i_wr (st i) ++ mem_log st i ++ delivered order st evs i).
Proof.
  intros order evs. induction evs as [|ev evs IH]; intros st i.
  - simpl. rewrite app_nil_r. reflexivity.
  - change (run_from order st (ev :: evs)) with (run_from order (step order st ev) evs).
    etransitivity; [apply IH|]. simpl delivered.
    pose proof (step_conserves order st ev i) as S.
    rewrite !app_assoc. apply Permutation_app_tail. rewrite <- app_assoc. exact S.
Qed.

Lemma conservation : forall order evs i,
  Permutation (i_wr (run order evs i) ++ mem_log (run order evs) i) (delivered order st0 evs i).
Proof. intros. unfold Model.run. apply (conservation_from order evs st0 i). Qed.

(* an Update that removes or reconfigures a running interface writes its flow log out first *)
Lemma update_flushes : forall order st c e i,
  Inv st -> is_running st i = true ->
  let st' := step order st (EUpdate c e) in
  (is_running st' i = false \/ running_cfg st' i <> running_cfg st i) ->
  i_wr (st' i) = i_wr (st i) ++ mem_log st i /\ mem_log st' i = [].
Proof.
  intros order st c e i HI R st' H. subst st'. revert H. unfold is_running, running_cfg, mem_log in *. simpl.
  destruct (select order c e) as [sel|]; [|intros [H|H]; [congruence | contradiction H; reflexivity]].
  unfold upd_iface, start. destruct (i_run (st i)) as [[c0 log]|] eqn:R0; [|discriminate].
  destruct (enabled_only (sel i)) as [c1|]; simpl.
  - rewrite (HI i c0 log R0). destruct (cc_eqb c1 c0) eqn:E; simpl.
    + rewrite ?R0. simpl. intros [H|H]; [discriminate | contradiction H; reflexivity].
    + intros _. destruct (mem i (e_down e)); simpl; auto.
  - auto.
Qed.

Lemma delivered_snoc_update : forall order evs st c e i,
  delivered order st (evs ++ [EUpdate c e]) i = delivered order st evs i.
Proof.
  intros order evs. induction evs as [|ev evs IH]; intros st c e i; simpl; [reflexivity|].
  rewrite IH. reflexivity.
Qed.

Lemma no_loss : forall order evs c e i,
  is_running (run order evs) i = true ->
  let st' := run order (evs ++ [EUpdate c e]) in
  (is_running st' i = false \/ running_cfg st' i <> running_cfg (run order evs) i) ->
  Permutation (i_wr (st' i)) (delivered order st0 (evs ++ [EUpdate c e]) i) /\ mem_log st' i = [].
Proof.
  intros order evs c e i R st' H. subst st'.
  assert (E : run order (evs ++ [EUpdate c e]) = step order (run order evs) (EUpdate c e))
    by (unfold Model.run; apply run_from_snoc).
  rewrite E in *.
  destruct (update_flushes order (run order evs) c e i (run_inv order evs) R H) as [W M].
  split; [|exact M]. rewrite W, delivered_snoc_update. apply conservation.
Qed.

(* ------------------------------------------------------------------ packaged statements *)

Lemma converges : forall order evs i,
  perm_order order -> wf_evs evs -> all_up evs = true ->
  is_running (run order evs) i =
  match last_accepted evs with None => false | Some (c, e) => is_some (spec_sel c e i) end.
Proof.
  intros order evs i PO WF U. pose proof (running_complete order evs i PO WF U) as H.
  unfold running_cfg in H. unfold is_running.
  destruct (last_accepted evs) as [[c e]|].
  - rewrite <- H. destruct (i_run (run order evs i)); reflexivity.
  - destruct (i_run (run order evs i)); [discriminate | reflexivity].
Qed.

Lemma config_deterministic : forall order evs i,
  perm_order order -> wf_evs evs ->
  (all_up evs = true ->
   running_cfg (run order evs) i = match last_accepted evs with None => None | Some (c, e) => spec_sel c e i end) /\
  (forall cc, running_cfg (run order evs) i = Some cc ->
     (exists c e, last_accepted evs = Some (c, e) /\ spec_sel c e i = Some cc) /\
     i_applied (run order evs i) = Some cc).
Proof.
  intros order evs i PO WF. split.
  - intro U. apply running_complete; assumption.
  - intros cc R. split; [eapply running_sound; eauto|].
    unfold running_cfg in R. destruct (i_run (run order evs i)) as [[c0 log]|] eqn:E; [|discriminate].
    simpl in R. inversion R; subst. eapply run_inv; eauto.
Qed.

Lemma order_independent : forall order1 order2 evs i,
  perm_order order1 -> perm_order order2 -> wf_evs evs -> all_up evs = true ->
  running_cfg (run order1 evs) i = running_cfg (run order2 evs) i.
Proof. intros. rewrite !running_complete; auto. Qed.

Lemma rejected_noop : forall order st c e, accepts c e = false -> step order st (EUpdate c e) = st.
Proof. intros order st c e A. simpl. rewrite (proj2 (select_accepts order c e) A). reflexivity. Qed.

Lemma kept_keeps_log : forall order st c e i,
  is_running st i = true ->
  running_cfg (step order st (EUpdate c e)) i = running_cfg st i ->
  mem_log (step order st (EUpdate c e)) i = mem_log st i \/ mem_log (step order st (EUpdate c e)) i = [].
Proof.
  intros order st c e i R _. unfold mem_log, is_running in *. simpl.
  destruct (select order c e) as [sel|]; [|left; reflexivity].
  unfold upd_iface, start. destruct (i_run (st i)) as [[c0 log]|] eqn:R0; [|discriminate].
  destruct (enabled_only (sel i)) as [c1|]; simpl; [|right; reflexivity].
  destruct (cc_eqb c1 _); simpl; [rewrite ?R0; left; reflexivity|].
  destruct (mem i (e_down e)); right; reflexivity.
Qed.

End Re.
