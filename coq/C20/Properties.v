(* C20 property theorems. Statements closed by `exact`, Print Assumptions, one non-vacuity Example each.
   `prun evs` is the never-paused capture loop on the packets and the status / rotation / query actions of
   evs; C21 (c21_same_as_unpaused / c21_exact_loss) proves that the loop with pauses computes exactly this,
   so the statements hold across write-outs with packets arriving during them. *)
From Coq Require Import String List NArith ZArith Bool Arith.
From GoProbe.Base Require Import CorrLib.
From GoProbe.C22 Require Import Model.
From GoProbe.C23 Require Import Model.
From GoProbe.C21 Require Import Model.
From GoProbe.C20 Require Import Model Proofs.
Import ListNotations.
Open Scope nat_scope.

(* Conservation. For EVERY sequence of packets (any bytes: both IP versions, every protocol, both
   directions, malformed ones) interleaved with EVERY schedule of rotations (and status calls / live
   queries): the bytes and packets, per direction, summed over everything handed to the write-out handler
   plus the flows still in memory equal those of the packets that parsed - modulo 2^64, the width of the
   counters. Hypothesis: fewer than 2^64 packets (packet counters do not wrap; byte counters may). *)
Theorem c20_conservation : forall evs : list ev, (n_packets evs < two64)%N ->
  fmod (fplus (written_total (prun evs)) (memory_total (prun evs))) = fmod (packets_total evs).
Proof. exact conservation. Qed.
Print Assumptions c20_conservation.

(* One record per conversation. After every sequence of deliverable packets and every rotation schedule
   the IPv4 and the IPv6 flow map have pairwise distinct keys of the right length, and never hold a key
   together with its reverse (source and destination swapped): both directions of a conversation are
   counted in one record. *)
Theorem c20_one_record : forall (evs : list ev) (v6 : bool) (h : list N),
  Forall (fun e => ev_wf e = true) evs ->
  let m := if v6 then m6 (prun evs) else m4 (prun evs) in
  NoDup (keys m) /\
  (fm_mem h m = true -> length h = key_len v6 /\
     (reverse_bytes (alen v6) h <> h -> fm_mem (reverse_bytes (alen v6) h) m = false)).
Proof. exact one_record. Qed.
Print Assumptions c20_one_record.

(* Source ports are aggregated away. For every flow map m (hence at every rotation of every run): the
   written map has pairwise distinct keys, the entry under key k is exactly the uint64 sum of the flows
   with traffic whose key without source port is k (no entry if there is none), and the key without
   source port is sip | dip | dport | proto, the same for all source ports. *)
Theorem c20_sport_aggregated : forall (v6 : bool) (m : fmap) (k : list N),
  NoDup (keys (aggregate v6 m)) /\
  fm_find k (aggregate v6 m) = match group v6 k m with [] => None | l => Some (sum64 l) end /\
  forall sip sp sp' dip dp pr, length sip = alen v6 -> length sp = 2 -> length sp' = 2 ->
    agg_key v6 (sip ++ sp ++ dip ++ dp ++ [pr]) = sip ++ dip ++ dp ++ [pr]
    /\ agg_key v6 (sip ++ sp' ++ dip ++ dp ++ [pr]) = agg_key v6 (sip ++ sp ++ dip ++ dp ++ [pr]).
Proof. exact sport_aggregated. Qed.
Print Assumptions c20_sport_aggregated.

(* Flows without traffic in an interval are not written for it: if every flow that aggregates to k is
   idle, the written map has no entry k; and the rotation keeps exactly the flows that had traffic
   (reset to zero) and deletes the idle ones. *)
Theorem c20_idle_not_written : forall (v6 : bool) (m : fmap) (k : list N),
  ((forall k' f, In (k', f) m -> agg_key v6 k' = k -> active f = false) -> fm_find k (aggregate v6 m) = None) /\
  (forall k' f, In (k', f) (rotate_map m) -> f = zero_flow /\ exists f', In (k', f') m /\ active f' = true) /\
  (forall k' f, In (k', f) m -> active f = true -> In (k', zero_flow) (rotate_map m)).
Proof. exact idle_not_written_all. Qed.
Print Assumptions c20_idle_not_written.

(* ---- non-vacuity *)
Open Scope string_scope.
Definition ex_ssh : pkt := mk_pkt (unhex "4500000000000000400600000a0000010a000002c350001600000000000000000010") 4%N 60%N.
Definition ex_sshr : pkt := mk_pkt (unhex "4500000000000000400600000a0000020a0000010016c35000000000000000000010") 0%N 1500%N.
Definition ex_ssh2 : pkt := mk_pkt (unhex "4500000000000000400600000a0000010a000002c351001600000000000000000010") 4%N 40%N.
Definition ex_web : pkt := mk_pkt (unhex "60000000000006002000000000000000000000000000000120000000000000000000000000000002c000005000000000000000000010") 0%N 100%N.
Definition ex_evs : list ev :=
  [EPkt ex_sshr; EPkt ex_ssh; EPkt ex_ssh2; EPkt ex_web; EAct ARotate; EPkt ex_ssh; EAct ARotate; EAct ARotate; EPkt ex_web].

Example c20_conservation_example :
  (n_packets ex_evs < two64)%N /\ packets_total ex_evs = mk_flow 1700%N 160%N 3%N 3%N /\
  written_total (prun ex_evs) = mk_flow 1600%N 160%N 2%N 3%N /\ memory_total (prun ex_evs) = mk_flow 100%N 0%N 1%N 0%N.
Proof. repeat split; vm_compute; reflexivity. Qed.

(* the reply came first and the request is counted in the same record; two client ports give two records *)
Example c20_one_record_example :
  Forall (fun e => ev_wf e = true) ex_evs /\
  map snd (m4 (prun [EPkt ex_sshr; EPkt ex_ssh; EPkt ex_ssh2])) = [mk_flow 0%N 40%N 0%N 1%N; mk_flow 1500%N 60%N 1%N 1%N] /\
  fm_mem (unhex "0a000001c3500a000002001606") (m4 (prun [EPkt ex_sshr; EPkt ex_ssh; EPkt ex_ssh2])) = true /\
  reverse_bytes 4 (unhex "0a000001c3500a000002001606") <> unhex "0a000001c3500a000002001606".
Proof.
  split; [repeat constructor|]. split; [vm_compute; reflexivity|]. split; [vm_compute; reflexivity|].
  vm_compute. discriminate.
Qed.

(* the two client ports are one written row *)
Example c20_sport_aggregated_example :
  aggregate false (m4 (prun [EPkt ex_sshr; EPkt ex_ssh; EPkt ex_ssh2]))
  = [(unhex "0a0000010a000002001606", mk_flow 1500%N 100%N 1%N 2%N)] /\
  length (group false (unhex "0a0000010a000002001606") (m4 (prun [EPkt ex_sshr; EPkt ex_ssh; EPkt ex_ssh2]))) = 2.
Proof. split; vm_compute; reflexivity. Qed.

(* second rotation: the ssh flow had traffic, the others not: they are not written, and pruned *)
Example c20_idle_not_written_example :
  map (fun o => match o with Some (a4, a6) => (length a4, length a6) | None => (9, 9) end) (o_rot (prun ex_evs))
  = [(0, 0); (1, 0); (1, 1)] /\
  length (m4 (prun [EPkt ex_sshr; EPkt ex_ssh; EPkt ex_ssh2; EPkt ex_web; EAct ARotate; EPkt ex_ssh; EAct ARotate])) = 1 /\
  (forall k' f, In (k', f) (m6 (prun [EPkt ex_web; EAct ARotate])) -> agg_key true k' = agg_key true k' -> active f = false).
Proof.
  split; [vm_compute; reflexivity|]. split; [vm_compute; reflexivity|].
  intros k' f H _. vm_compute in H. destruct H as [H|[]]. injection H as _ <-. reflexivity.
Qed.
