(* C20 model: accounting of captured traffic across write-outs. The pipeline itself (parse, flow log
   with the probable-reverse lookup and first-packet classification, Rotate = emit non-idle / reset /
   prune idle, aggregation that drops the source port) is the C21 model (GoProbe.C21.Model:
   norm_pkt, add_flow, act ARotate, aggregate, rotate_map), which is compared with the real Manager by
   both harnesses. Here: the lock-free view of a run (C21 proves a run with pauses equals it) and the
   vocabulary of the accounting statements. Executable definitions only. *)
From Coq Require Import List NArith ZArith Bool Arith.
From GoProbe.Base Require Import CorrLib.
From GoProbe.C22 Require Import Model.
From GoProbe.C23 Require Import Model.
From GoProbe.C21 Require Import Model.
Import ListNotations.
Open Scope N_scope.

(* one step of the never-paused loop: a packet, or a status / rotation / query taking effect *)
Definition pstep (c : core) (e : ev) : core :=
  match e with EPkt p => norm_pkt c p | EAct a => act c a | _ => c end.
Definition prun (evs : list ev) : core := fold_left pstep evs core0.

(* ---- sums of counters, as natural numbers (no wrap-around); compared modulo 2^64 *)
Definition fplus (a b : flow) : flow :=
  mk_flow (f_br a + f_br b) (f_bs a + f_bs b) (f_pr a + f_pr b) (f_ps a + f_ps b).
Definition fsum (l : list flow) : flow := fold_right fplus zero_flow l.
Definition fmod (f : flow) : flow :=
  mk_flow (f_br f mod two64) (f_bs f mod two64) (f_pr f mod two64) (f_ps f mod two64).

Definition map_total (m : fmap) : flow := fsum (map snd m).
Definition out_total (o : agg_out) : flow :=
  match o with None => zero_flow | Some (a4, a6) => fplus (map_total a4) (map_total a6) end.
(* everything handed to the write-out handler so far *)
Definition written_total (c : core) : flow := fsum (map out_total (o_rot c)).
(* the flows still in memory *)
Definition memory_total (c : core) : flow := fplus (map_total (m4 c)) (map_total (m6 c)).

(* what a packet contributes if it parses: its size and one packet, in the direction of its type *)
Definition pkt_flow (p : pkt) : flow :=
  match parse_pkt p with OFlow _ _ _ => new_flow (p_type p) (p_size p) | _ => zero_flow end.
Definition ev_flow (e : ev) : flow := match e with EPkt p => pkt_flow p | _ => zero_flow end.
Definition packets_total (evs : list ev) : flow := fsum (map ev_flow evs).

Definition n_packets (evs : list ev) : N := N.of_nat (length (filter is_data evs)).

(* keys of a flow map *)
Definition keys (m : fmap) : list (list N) := map fst m.
Definition key_len (v6 : bool) : nat := hash_len (alen v6).

(* the flows of m that aggregate to key k (source port dropped), with traffic in the interval *)
Definition group (v6 : bool) (k : list N) (m : fmap) : list flow :=
  map snd (filter (fun kf => bytes_eqb k (agg_key v6 (fst kf)) && active (snd kf)) m).
(* their sum in uint64 arithmetic, in the order SetOrUpdate sees them (last flow of the list first) *)
Fixpoint sum64 (l : list flow) : flow :=
  match l with
  | [] => zero_flow
  | f :: r => match r with [] => f | _ => flow_add (sum64 r) f end
  end.
