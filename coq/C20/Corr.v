(* C20 correspondence: case type, corr (model = observed DB blocks and flow log), holds (accounting
   checked on the observed data). Executable only. *)
From Coq Require Import String Ascii.
From Coq Require Import List NArith ZArith Bool Arith.
From GoProbe.Base Require Import CorrLib.
From GoProbe.C22 Require Import Model.
From GoProbe.C23 Require Import Model.
From GoProbe.C21 Require Import Model.
From GoProbe.C21 Require Corr.
From GoProbe.C20 Require Import Model.
Import ListNotations.

Definition oflows := GoProbe.C21.Corr.oflows.     (* hex key, (br, bs, pr, ps) *)
Definition cev := GoProbe.C21.Corr.cev.

Record case := mk_case {
  k_pkts : list (string * N * N);          (* hex IP layer, packet type, size *)
  k_evs : list cev;                        (* packets and (empty) lock windows with their actions *)
  k_v4 : oflows; k_v6 : oflows;            (* flow log after the last event (hook dump) *)
  k_blocks : list (oflows * oflows);       (* rows read back from the goDB written by the real handler, one
                                              block per write-out, keys sip|dip|dport|proto *)
  k_stalled : nat                          (* bounded waits of the harness for the capture routine that expired *)
}.

Definition pkt_at (c : case) (i : nat) : pkt :=
  match nth_error (k_pkts c) i with
  | Some (d, t, s) => mk_pkt (unhex d) t s
  | None => mk_pkt [] 0%N 0%N
  end.
Definition ev_of (c : case) (e : cev) : ev :=
  match e with
  | GoProbe.C21.Corr.CP i => EPkt (pkt_at c i)
  | GoProbe.C21.Corr.CL => ELock
  | GoProbe.C21.Corr.CA a => EAct a
  | GoProbe.C21.Corr.CU => EUnlock
  end.

Definition block_matches (a : agg_out) (o : oflows * oflows) : bool :=
  match a with
  | None => match o with ([], []) => true | _ => false end
  | Some (a4, a6) => GoProbe.C21.Corr.fmap_matches a4 (fst o) && GoProbe.C21.Corr.fmap_matches a6 (snd o)
  end.

Definition corr (c : case) : bool :=
  let s := crun (mk_cfg 128 1048576%N) (map (ev_of c) (k_evs c)) in
  negb (cs_crashed s) && (k_stalled c =? 0)%nat
  && GoProbe.C21.Corr.fmap_matches (m4 (cs_core s)) (k_v4 c)
  && GoProbe.C21.Corr.fmap_matches (m6 (cs_core s)) (k_v6 c)
  && GoProbe.C21.Corr.all2 block_matches (rev (o_rot (cs_core s))) (k_blocks c).

(* ---- the property on the observed data. Packets fetched while a lock is held are listed after the
   window's actions (they reach the flow log after the unlock), so the packets accounted to the k-th
   written block are those listed between the (k-1)-th and the k-th rotation; "parsed" is decided by the
   parser specification proved in C19 (parse_pkt). *)
Definition oflow_total (o : oflows) : flow :=
  fsum (map (fun ko => let '(a, b, c, d) := snd ko in mk_flow a b c d) o).

Definition flow_eqb (a b : flow) : bool :=
  (f_br a =? f_br b)%N && (f_bs a =? f_bs b)%N && (f_pr a =? f_pr b)%N && (f_ps a =? f_ps b)%N.

(* per-interval totals of the parsed packets: closed intervals (one per rotation), and the open one *)
Fixpoint intervals (evs : list ev) (cur : flow) : list flow * flow :=
  match evs with
  | [] => ([], cur)
  | EAct ARotate :: r => let '(l, last) := intervals r zero_flow in (cur :: l, last)
  | e :: r => intervals r (fplus cur (ev_flow e))
  end.

Fixpoint uniq (l : list string) : bool :=
  match l with [] => true | x :: r => negb (existsb (String.eqb x) r) && uniq r end.

(* one record per conversation in the flow log: never a key together with its reverse *)
Definition no_reverse_pair (v6 : bool) (o : oflows) : bool :=
  let ks := map (fun ko => unhex (fst ko)) o in
  forallb (fun k => let r := reverse_bytes (alen v6) k in
                    bytes_eqb r k || negb (existsb (bytes_eqb r) ks)) ks.
(* one row per conversation in a written block. Conversation identity = unordered pair of addresses +
   protocol, independent of how the parser keyed the packets (the generator's conversations are between
   pairwise distinct host pairs; client port variations only where all of them aggregate to one row) *)
Definition same_conv (n : nat) (a b : list N) : bool :=
  (nth (2 * n + 2) a 0 =? nth (2 * n + 2) b 0)%N
  && ((bytes_eqb (firstn n a) (firstn n b) && bytes_eqb (firstn n (skipn n a)) (firstn n (skipn n b)))
      || (bytes_eqb (firstn n a) (firstn n (skipn n b)) && bytes_eqb (firstn n b) (firstn n (skipn n a)))).
Definition no_swapped_rows (v6 : bool) (o : oflows) : bool :=
  let ks := map (fun ko => unhex (fst ko)) o in
  forallb (fun a => (length (filter (same_conv (alen v6) a) ks) =? 1)%nat) ks.

Definition row_active (ko : string * (N * N * N * N)) : bool :=
  let '(_, _, pr, ps) := snd ko in (0 <? pr)%N || (0 <? ps)%N.

Definition block_ok (o : oflows * oflows) (expect : flow) : bool :=
  flow_eqb (fmod (fplus (oflow_total (fst o)) (oflow_total (snd o)))) (fmod expect)   (* conservation per interval *)
  && uniq (map fst (fst o)) && uniq (map fst (snd o))                               (* source port aggregated: one row per key *)
  && forallb (fun ko => (String.length (fst ko) =? 22)%nat) (fst o)                 (* sip 4 | dip 4 | dport 2 | proto 1 *)
  && forallb (fun ko => (String.length (fst ko) =? 70)%nat) (snd o)
  && no_swapped_rows false (fst o) && no_swapped_rows true (snd o)                  (* one record per conversation *)
  && forallb row_active (fst o) && forallb row_active (snd o).                      (* idle flows are not written *)

(* every written row / flow-log key stems from a parsed packet (of the interval / of the run), in
   one of the two orientations *)
Fixpoint ivl_pkts (evs : list ev) (cur : list pkt) : list (list pkt) * list pkt :=
  match evs with
  | [] => ([], cur)
  | EAct ARotate :: r => let '(l, last) := ivl_pkts r [] in (cur :: l, last)
  | EPkt p :: r => ivl_pkts r (p :: cur)
  | _ :: r => ivl_pkts r cur
  end.
Definition cand_hashes (v6 : bool) (ps : list pkt) : list (list N) :=
  flat_map (fun p => match parse_pkt p with
                     | OFlow v h _ => if Bool.eqb v v6 then [h; reverse_bytes (alen v6) h] else []
                     | _ => [] end) ps.
Definition rows_from (v6 : bool) (o : oflows) (ps : list pkt) : bool :=
  forallb (fun ko => existsb (bytes_eqb (unhex (fst ko))) (map (agg_key v6) (cand_hashes v6 ps))) o.
Definition keys_from (v6 : bool) (o : oflows) (ps : list pkt) : bool :=
  forallb (fun ko => existsb (bytes_eqb (unhex (fst ko))) (cand_hashes v6 ps)) o.
Definition ev_pkts (evs : list ev) : list pkt :=
  flat_map (fun e => match e with EPkt p => [p] | _ => [] end) evs.

Definition holds (c : case) : bool :=
  let evs := map (ev_of c) (k_evs c) in
  let '(ivs, last) := intervals evs zero_flow in
  (k_stalled c =? 0)%nat && GoProbe.C21.Corr.all2 block_ok (k_blocks c) ivs
  && GoProbe.C21.Corr.all2 (fun o ps => rows_from false (fst o) ps && rows_from true (snd o) ps)
       (k_blocks c) (fst (ivl_pkts evs []))
  && keys_from false (k_v4 c) (ev_pkts evs) && keys_from true (k_v6 c) (ev_pkts evs)
  && flow_eqb (fmod (fplus (oflow_total (k_v4 c)) (oflow_total (k_v6 c)))) (fmod last)
  && uniq (map fst (k_v4 c)) && uniq (map fst (k_v6 c))
  && no_reverse_pair false (k_v4 c) && no_reverse_pair true (k_v6 c).
