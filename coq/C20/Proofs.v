(* C20 proofs: aggregation is a group-by-sum over the keys without source port (idle flows excluded),
   the flow log never holds a key together with its reverse, and counters are conserved across
   rotations. *)
From Coq Require Import List NArith ZArith Bool Arith Lia.
From GoProbe.Base Require Import CorrLib.
From GoProbe.C22 Require Import Model.
From GoProbe.C23 Require Import Model.
From GoProbe.C21 Require Import Model.
From GoProbe.C21 Require Proofs.
From GoProbe.C23 Require Proofs.
From GoProbe.C20 Require Import Model.
Import ListNotations.
Open Scope nat_scope.

Module P21 := GoProbe.C21.Proofs.

(* ================================================================ association lists keyed by bytes *)
Lemma bytes_eqb_eq : forall a b, bytes_eqb a b = true <-> a = b.
Proof.
  induction a as [|x a IH]; intros [|y b]; cbn [bytes_eqb]; split; intros H; try discriminate; try reflexivity.
  - apply andb_true_iff in H as [H1 H2]. apply N.eqb_eq in H1. apply IH in H2. subst. reflexivity.
  - injection H as -> ->. rewrite N.eqb_refl. cbn. apply IH. reflexivity.
Qed.
Lemma bytes_eqb_refl : forall a, bytes_eqb a a = true.
Proof. intros. apply bytes_eqb_eq. reflexivity. Qed.
Lemma bytes_eqb_neq : forall a b, bytes_eqb a b = false <-> a <> b.
Proof.
  intros a b. split.
  - intros H E. apply bytes_eqb_eq in E. congruence.
  - intros H. destruct (bytes_eqb a b) eqn:E; [apply bytes_eqb_eq in E; contradiction | reflexivity].
Qed.

Lemma keys_update : forall k g m, keys (fm_update k g m) = keys m.
Proof.
  induction m as [|[k' f] r IH]; [reflexivity|]. cbn [fm_update]. destruct (bytes_eqb k k'); cbn [keys map fst] in *.
  - reflexivity.
  - f_equal. exact IH.
Qed.

Lemma mem_in : forall k m, fm_mem k m = true <-> In k (keys m).
Proof.
  unfold fm_mem. induction m as [|[k' f] r IH]; cbn [fm_find keys map fst In].
  - split; [discriminate | intros []].
  - destruct (bytes_eqb k k') eqn:E.
    + apply bytes_eqb_eq in E. subst. split; [left; reflexivity | reflexivity].
    + apply bytes_eqb_neq in E. rewrite IH. cbn [keys]. split; [right; assumption | intros [H|H]; [congruence | exact H]].
Qed.
Lemma mem_false : forall k m, fm_mem k m = false <-> ~ In k (keys m).
Proof.
  intros. rewrite <- mem_in. destruct (fm_mem k m); split.
  - discriminate.
  - intros H. exfalso. apply H. reflexivity.
  - intros _ E. discriminate.
  - reflexivity.
Qed.

(* ================================================================ A. aggregation = group-by-sum *)
Lemma find_agg_put : forall k k' f a,
  fm_find k' (agg_put k f a)
  = if bytes_eqb k' k then Some (match fm_find k a with Some g => flow_add g f | None => f end) else fm_find k' a.
Proof.
  intros k k' f a. unfold agg_put, fm_mem.
  destruct (fm_find k a) as [g|] eqn:E.
  - (* update *)
    revert E. induction a as [|[k0 f0] r IH]; [discriminate|]. cbn [fm_find fm_update].
    destruct (bytes_eqb k k0) eqn:E0.
    + intros H. injection H as ->. apply bytes_eqb_eq in E0. subst k0. cbn [fm_find].
      destruct (bytes_eqb k' k); reflexivity.
    + intros H. cbn [fm_find]. destruct (bytes_eqb k' k0) eqn:E1.
      * destruct (bytes_eqb k' k) eqn:E2; [|reflexivity].
        apply bytes_eqb_eq in E1, E2. subst. rewrite bytes_eqb_refl in E0. discriminate.
      * apply IH, H.
  - cbn [fm_find]. reflexivity.
Qed.

Lemma group_cons : forall v6 k kf m,
  group v6 k (kf :: m)
  = if bytes_eqb k (agg_key v6 (fst kf)) && active (snd kf) then snd kf :: group v6 k m else group v6 k m.
Proof. intros. unfold group. cbn [filter]. destruct (_ && _); reflexivity. Qed.

Lemma aggregate_group : forall v6 m k,
  fm_find k (aggregate v6 m) = match group v6 k m with [] => None | l => Some (sum64 l) end.
Proof.
  intros v6 m k. induction m as [|[k0 f0] r IH]; [reflexivity|].
  unfold aggregate in *. cbn [fold_right fst snd]. rewrite group_cons. cbn [fst snd].
  destruct (active f0) eqn:Ea.
  - rewrite find_agg_put. destruct (bytes_eqb k (agg_key v6 k0)) eqn:E; cbn [andb].
    + apply bytes_eqb_eq in E. subst k. rewrite IH. cbn [sum64].
      destruct (group v6 (agg_key v6 k0) r); reflexivity.
    + exact IH.
  - rewrite andb_false_r. exact IH.
Qed.

Lemma keys_agg_put_nodup : forall k f a, NoDup (keys a) -> NoDup (keys (agg_put k f a)).
Proof.
  intros k f a H. unfold agg_put. destruct (fm_mem k a) eqn:E.
  - rewrite keys_update. exact H.
  - cbn [keys map fst]. constructor; [apply mem_false, E | exact H].
Qed.

Lemma aggregate_nodup : forall v6 m, NoDup (keys (aggregate v6 m)).
Proof.
  intros v6 m. induction m as [|kf r IH]; [constructor|].
  unfold aggregate in *. cbn [fold_right]. destruct (active (snd kf)); [apply keys_agg_put_nodup, IH | exact IH].
Qed.

Lemma agg_key_drops_sport : forall v6 sip sp sp' dip dp pr,
  length sip = alen v6 -> length sp = 2 -> length sp' = 2 ->
  agg_key v6 (sip ++ sp ++ dip ++ dp ++ [pr]) = sip ++ dip ++ dp ++ [pr]
  /\ agg_key v6 (sip ++ sp' ++ dip ++ dp ++ [pr]) = agg_key v6 (sip ++ sp ++ dip ++ dp ++ [pr]).
Proof.
  assert (A : forall v6 sip sp dip dp pr, length sip = alen v6 -> length sp = 2 ->
              agg_key v6 (sip ++ sp ++ dip ++ dp ++ [pr]) = sip ++ dip ++ dp ++ [pr]).
  { intros v6 sip sp dip dp pr L1 L2. unfold agg_key.
    rewrite <- L1. rewrite firstn_app, firstn_all, Nat.sub_diag. cbn [firstn]. rewrite app_nil_r.
    rewrite app_assoc. rewrite skipn_app.
    replace (length sip + 2 - length (sip ++ sp)) with 0 by (rewrite app_length; lia).
    rewrite skipn_all2 by (rewrite app_length; lia). reflexivity. }
  intros. split; [apply A; assumption | rewrite !A by assumption; reflexivity].
Qed.

(* rotation: flows with traffic are kept and reset, idle ones are deleted *)
Lemma rotate_map_spec : forall m k f, In (k, f) (rotate_map m) ->
  f = zero_flow /\ exists f', In (k, f') m /\ active f' = true.
Proof.
  intros m k f H. unfold rotate_map in H. apply in_map_iff in H as ([k' f'] & E & Hin).
  cbn [fst snd] in E. injection E as <- <-. apply filter_In in Hin as [Hin Ha]. cbn [snd] in Ha.
  split; [reflexivity | exists f'; split; assumption].
Qed.
Lemma rotate_map_keeps : forall m k f, In (k, f) m -> active f = true -> In (k, zero_flow) (rotate_map m).
Proof.
  intros m k f Hin Ha. unfold rotate_map. apply in_map_iff. exists (k, f). split; [reflexivity|].
  apply filter_In. split; assumption.
Qed.

(* ================================================================ B. never a key together with its reverse *)
Lemma skipn_len : forall (a r : list N) n, n = length a -> skipn n (a ++ r) = r.
Proof. intros a r n ->. rewrite skipn_app, skipn_all, Nat.sub_diag. reflexivity. Qed.
Lemma firstn_len : forall (a r : list N) n, n = length a -> firstn n (a ++ r) = a.
Proof. intros a r n ->. rewrite firstn_app, firstn_all, Nat.sub_diag. cbn [firstn]. apply app_nil_r. Qed.

Lemma reverse_parts : forall n (A B C : list N), length A = n + 2 -> length B = n + 2 ->
  reverse_bytes n (A ++ B ++ C) = B ++ A ++ C.
Proof.
  intros n A B C LA LB. unfold reverse_bytes.
  rewrite (skipn_len A (B ++ C) (n + 2)) by lia. rewrite (firstn_len B C (n + 2)) by lia.
  rewrite (firstn_len A (B ++ C) (n + 2)) by lia.
  rewrite (app_assoc A B C). rewrite (skipn_len (A ++ B) C (2 * n + 4)) by (rewrite app_length; lia).
  reflexivity.
Qed.

Lemma split_key : forall n (h : list N), length h = 2 * n + 5 ->
  exists A B C, h = A ++ B ++ C /\ length A = n + 2 /\ length B = n + 2 /\ length C = 1.
Proof.
  intros n h L. exists (firstn (n + 2) h), (firstn (n + 2) (skipn (n + 2) h)), (skipn (n + 2) (skipn (n + 2) h)).
  rewrite !firstn_skipn. split; [reflexivity|].
  rewrite !firstn_length, !skipn_length. lia.
Qed.

Lemma reverse_length : forall n h, length h = 2 * n + 5 -> length (reverse_bytes n h) = 2 * n + 5.
Proof.
  intros n h L. destruct (split_key n h L) as (A & B & C & -> & LA & LB & LC).
  rewrite reverse_parts by assumption. rewrite !app_length in *. lia.
Qed.
Lemma reverse_involutive : forall n h, length h = 2 * n + 5 -> reverse_bytes n (reverse_bytes n h) = h.
Proof.
  intros n h L. destruct (split_key n h L) as (A & B & C & -> & LA & LB & LC).
  rewrite !reverse_parts by assumption. reflexivity.
Qed.

(* the key invariant of one flow map *)
Record KI (v6 : bool) (m : fmap) : Prop := {
  ki_nodup : NoDup (keys m);
  ki_len : forall k, In k (keys m) -> length k = key_len v6;
  ki_rev : forall k, In k (keys m) -> reverse_bytes (alen v6) k <> k -> ~ In (reverse_bytes (alen v6) k) (keys m)
}.

Lemma KI_nil : forall v6, KI v6 [].
Proof. intros. constructor; [constructor | intros k [] | intros k []]. Qed.

Lemma KI_insert : forall v6 m h k0 f,
  KI v6 m -> length h = key_len v6 ->
  ~ In h (keys m) -> ~ In (reverse_bytes (alen v6) h) (keys m) ->
  (k0 = h \/ k0 = reverse_bytes (alen v6) h) ->
  KI v6 ((k0, f) :: m).
Proof.
  intros v6 m h k0 f [N1 N2 N3] L Hh Hr Hk. unfold key_len, hash_len in *.
  assert (Lr : length (reverse_bytes (alen v6) h) = 2 * alen v6 + 5) by (apply reverse_length, L).
  assert (Ir : reverse_bytes (alen v6) (reverse_bytes (alen v6) h) = h) by (apply reverse_involutive, L).
  assert (L0 : length k0 = 2 * alen v6 + 5) by (destruct Hk; subst; assumption).
  assert (H0 : ~ In k0 (keys m)) by (destruct Hk; subst; assumption).
  assert (H0r : ~ In (reverse_bytes (alen v6) k0) (keys m)).
  { destruct Hk; subst; [assumption | rewrite Ir; assumption]. }
  constructor; cbn [keys map fst].
  - constructor; assumption.
  - intros k [<-|Hin]; [exact L0 | apply N2, Hin].
  - intros k [<-|Hin] Hne [E|Hin'].
    + apply Hne. symmetry. exact E.
    + apply H0r, Hin'.
    + (* reverse k = k0, k old: then k = reverse k0 is in the map *)
      apply H0r. rewrite E. rewrite reverse_involutive by (apply N2, Hin). exact Hin.
    + exact (N3 k Hin Hne Hin').
Qed.

Lemma KI_update : forall v6 m k g, KI v6 m -> KI v6 (fm_update k g m).
Proof. intros v6 m k g [N1 N2 N3]. constructor; rewrite keys_update; assumption. Qed.

Lemma add_flow_KI : forall v6 m h ty sz aux, KI v6 m -> length h = key_len v6 -> KI v6 (add_flow v6 m h ty sz aux).
Proof.
  intros v6 m h ty sz aux K L. unfold add_flow.
  set (r := reverse_bytes (alen v6) h).
  assert (Ins : fm_mem h m = false -> fm_mem r m = false ->
                KI v6 (match classify_bytes v6 h aux with
                       | Reverts => (r, new_flow ty sz) :: m
                       | _ => (h, new_flow ty sz) :: m end)).
  { intros Eh Er. apply mem_false in Eh, Er.
    destruct (classify_bytes v6 h aux); eapply KI_insert; eauto. }
  destruct (ipr_bytes v6 h).
  - destruct (fm_mem r m) eqn:Er; [apply KI_update, K|].
    destruct (fm_mem h m) eqn:Eh; [apply KI_update, K|]. apply Ins; first [assumption | reflexivity].
  - destruct (fm_mem h m) eqn:Eh; [apply KI_update, K|].
    destruct (fm_mem r m) eqn:Er; [apply KI_update, K|]. apply Ins; first [assumption | reflexivity].
Qed.

Lemma keys_rotate_incl : forall m k, In k (keys (rotate_map m)) -> In k (keys m).
Proof.
  intros m k H. unfold keys in *. apply in_map_iff in H as ([k' f] & <- & Hin).
  apply rotate_map_spec in Hin as (_ & f' & Hin & _). apply in_map_iff. exists (k', f'). split; [reflexivity | exact Hin].
Qed.

Lemma keys_rotate_nodup : forall m, NoDup (keys m) -> NoDup (keys (rotate_map m)).
Proof.
  induction m as [|[k f] r IH]; intros H; [constructor|]. inversion H; subst.
  unfold rotate_map in *. cbn [filter snd]. destruct (active f); cbn [map keys fst] in *.
  - constructor; [|apply IH; assumption]. intros Hin. apply H2. apply (keys_rotate_incl r k Hin).
  - apply IH. assumption.
Qed.

Lemma rotate_KI : forall v6 m, KI v6 m -> KI v6 (rotate_map m).
Proof.
  intros v6 m [N1 N2 N3]. constructor.
  - apply keys_rotate_nodup, N1.
  - intros k H. apply N2, keys_rotate_incl, H.
  - intros k H Hne Hin. apply (N3 k (keys_rotate_incl _ _ H) Hne), keys_rotate_incl, Hin.
Qed.

Definition KI2 (c : core) : Prop := KI false (m4 c) /\ KI true (m6 c).

Lemma consume_KI : forall c it, wf_item it = true -> KI2 c -> KI2 (consume c it).
Proof.
  intros c it W [K4 K6]. unfold consume.
  destruct (0 <=? i_errno it)%Z; [split; assumption|].
  destruct (GoProbe.C23.Proofs.wf_item_spec it W) as [L _].
  destruct (i_v4 it) eqn:E; split; cbn [m4 m6 with_maps with_st]; try assumption.
  - apply add_flow_KI; [exact K4 | rewrite L; reflexivity].
  - apply add_flow_KI; [exact K6 | rewrite L; reflexivity].
Qed.

Lemma norm_pkt_KI : forall c p, pkt_wf p = true -> KI2 c -> KI2 (norm_pkt c p).
Proof.
  intros c p W K. destruct (P21.item_of_ok p W) as [_ Hit].
  destruct (is_invalid p) eqn:Ei.
  - unfold norm_pkt. unfold is_invalid in Ei. destruct (parse_pkt p); try discriminate. exact K.
  - destruct (Hit eq_refl) as (it & _ & Wi & Hn). rewrite Hn. apply consume_KI; assumption.
Qed.

Lemma act_KI : forall c a, KI2 c -> KI2 (act c a).
Proof.
  intros c a [K4 K6]. destruct a; unfold act.
  - split; assumption.
  - destruct (flows_len c =? 0); split; cbn [m4 m6]; try assumption; apply rotate_KI; assumption.
  - destruct (flows_len c =? 0); split; assumption.
Qed.

Lemma prun_KI : forall evs c, Forall (fun e => ev_wf e = true) evs -> KI2 c -> KI2 (fold_left pstep evs c).
Proof.
  induction evs as [|e r IH]; intros c H K; [exact K|]. inversion H; subst. cbn [fold_left].
  apply IH; [assumption|]. destruct e; cbn [pstep]; [apply norm_pkt_KI; assumption | exact K | apply act_KI, K | exact K].
Qed.

Lemma one_record : forall evs (v6 : bool) h,
  Forall (fun e => ev_wf e = true) evs ->
  let m := if v6 then m6 (prun evs) else m4 (prun evs) in
  NoDup (keys m) /\
  (fm_mem h m = true -> length h = key_len v6 /\
     (reverse_bytes (alen v6) h <> h -> fm_mem (reverse_bytes (alen v6) h) m = false)).
Proof.
  intros evs v6 h H. cbv zeta.
  destruct (prun_KI evs core0 H (conj (KI_nil false) (KI_nil true))) as [K4 K6]. fold (prun evs) in K4, K6.
  assert (K : KI v6 (if v6 then m6 (prun evs) else m4 (prun evs))) by (destruct v6; assumption).
  destruct K as [N1 N2 N3]. split; [exact N1|]. intros Hm. apply mem_in in Hm.
  split; [apply N2, Hm|]. intros Hne. apply mem_false. apply N3; assumption.
Qed.

(* ================================================================ C. conservation *)
Definition feq (a b : flow) : Prop := fmod a = fmod b.

Lemma fplus_assoc : forall a b c, fplus (fplus a b) c = fplus a (fplus b c).
Proof. intros [] [] []. unfold fplus. cbn. f_equal; lia. Qed.
Lemma fplus_comm : forall a b, fplus a b = fplus b a.
Proof. intros [] []. unfold fplus. cbn. f_equal; lia. Qed.
Lemma fplus_zero_l : forall a, fplus zero_flow a = a.
Proof. intros []. reflexivity. Qed.
Lemma fplus_zero_r : forall a, fplus a zero_flow = a.
Proof. intros []. unfold fplus. cbn. f_equal; lia. Qed.

Lemma feq_refl : forall a, feq a a. Proof. reflexivity. Qed.
Lemma feq_trans : forall a b c, feq a b -> feq b c -> feq a c.
Proof. unfold feq. intros. congruence. Qed.
Lemma feq_sym : forall a b, feq a b -> feq b a.
Proof. unfold feq. intros. congruence. Qed.

Lemma two64_pos : two64 <> 0%N. Proof. discriminate. Qed.

Lemma feq_fplus : forall a a' b b', feq a a' -> feq b b' -> feq (fplus a b) (fplus a' b').
Proof.
  intros [a1 a2 a3 a4] [c1 c2 c3 c4] [b1 b2 b3 b4] [d1 d2 d3 d4] H1 H2. unfold feq, fmod, fplus in *. cbn in *.
  injection H1 as ? ? ? ?. injection H2 as ? ? ? ?.
  f_equal; rewrite (N.add_mod _ _ two64) by apply two64_pos; symmetry;
    rewrite (N.add_mod _ _ two64) by apply two64_pos; congruence.
Qed.

Lemma add64_mod : forall a b, (add64 a b mod two64 = (a + b) mod two64)%N.
Proof. intros. unfold add64. apply N.mod_mod, two64_pos. Qed.

(* UpdateFlow adds the packet's contribution modulo 2^64 *)
Lemma upd_flow_feq : forall ty sz f, feq (upd_flow ty sz f) (fplus f (new_flow ty sz)).
Proof.
  intros ty sz [a b c d]. unfold upd_flow, new_flow, feq, fmod, fplus.
  destruct (ty =? pkt_outgoing)%N; cbn [f_br f_bs f_pr f_ps]; rewrite ?add64_mod, ?N.add_0_r; reflexivity.
Qed.
Lemma flow_add_feq : forall a b, feq (flow_add a b) (fplus a b).
Proof. intros [a1 a2 a3 a4] [b1 b2 b3 b4]. unfold flow_add, feq, fmod, fplus. cbn [f_br f_bs f_pr f_ps]. rewrite !add64_mod. reflexivity. Qed.

Lemma map_total_cons : forall k f m, map_total ((k, f) :: m) = fplus f (map_total m).
Proof. reflexivity. Qed.

Lemma update_total : forall k g d m, (forall f, feq (g f) (fplus f d)) -> fm_mem k m = true ->
  feq (map_total (fm_update k g m)) (fplus (map_total m) d).
Proof.
  intros k g d m Hg. unfold fm_mem. induction m as [|[k' f] r IH]; [discriminate|]. cbn [fm_find fm_update].
  destruct (bytes_eqb k k').
  - intros _. rewrite !map_total_cons.
    rewrite (fplus_comm (fplus f (map_total r)) d), <- fplus_assoc, (fplus_comm d f).
    apply feq_fplus; [apply Hg | apply feq_refl].
  - intros H. rewrite !map_total_cons, fplus_assoc. apply feq_fplus; [apply feq_refl | apply IH, H].
Qed.

Lemma add_flow_total : forall v6 m h ty sz aux,
  feq (map_total (add_flow v6 m h ty sz aux)) (fplus (map_total m) (new_flow ty sz)).
Proof.
  intros. unfold add_flow.
  assert (Ins : feq (map_total (match classify_bytes v6 h aux with
                                | Reverts => (reverse_bytes (alen v6) h, new_flow ty sz) :: m
                                | _ => (h, new_flow ty sz) :: m end)) (fplus (map_total m) (new_flow ty sz))).
  { destruct (classify_bytes v6 h aux); rewrite map_total_cons, fplus_comm; apply feq_refl. }
  destruct (ipr_bytes v6 h).
  - destruct (fm_mem (reverse_bytes (alen v6) h) m) eqn:Er; [apply update_total; [apply upd_flow_feq | exact Er]|].
    destruct (fm_mem h m) eqn:Eh; [apply update_total; [apply upd_flow_feq | exact Eh] | exact Ins].
  - destruct (fm_mem h m) eqn:Eh; [apply update_total; [apply upd_flow_feq | exact Eh]|].
    destruct (fm_mem (reverse_bytes (alen v6) h) m) eqn:Er; [apply update_total; [apply upd_flow_feq | exact Er] | exact Ins].
Qed.

Lemma agg_put_total : forall k f a, feq (map_total (agg_put k f a)) (fplus (map_total a) f).
Proof.
  intros. unfold agg_put. destruct (fm_mem k a) eqn:E.
  - apply update_total; [intros g; apply flow_add_feq | exact E].
  - rewrite map_total_cons, fplus_comm. apply feq_refl.
Qed.

(* per-flow invariant: packet counters are exact (bounded by the number of packets seen, n), and a flow
   without packets has no bytes *)
Definition flow_ok (n : N) (f : flow) : Prop :=
  (f_pr f + f_ps f <= n)%N /\ (active f = false -> f = zero_flow).
Definition map_ok (n : N) (m : fmap) : Prop := forall k f, In (k, f) m -> flow_ok n f.

Lemma flow_ok_mono : forall n n' f, (n <= n')%N -> flow_ok n f -> flow_ok n' f.
Proof. intros n n' f H [A B]. split; [lia | exact B]. Qed.

Lemma new_flow_ok : forall n ty sz, flow_ok (n + 1) (new_flow ty sz).
Proof.
  intros. unfold new_flow, flow_ok, active. destruct (ty =? pkt_outgoing)%N; cbn [f_pr f_ps]; split; try lia; discriminate.
Qed.

Lemma upd_flow_ok : forall n ty sz f, (n + 1 < two64)%N -> flow_ok n f -> flow_ok (n + 1) (upd_flow ty sz f).
Proof.
  intros n ty sz [a b c d] Hn [A _]. cbn [f_pr f_ps] in A. unfold upd_flow, flow_ok, active, add64.
  destruct (ty =? pkt_outgoing)%N; cbn [f_br f_bs f_pr f_ps].
  - rewrite (N.mod_small (d + 1)) by lia. split; [lia|].
    intros H. apply orb_false_iff in H as [_ H]. apply N.ltb_ge in H. lia.
  - rewrite (N.mod_small (c + 1)) by lia. split; [lia|].
    intros H. apply orb_false_iff in H as [H _]. apply N.ltb_ge in H. lia.
Qed.

Lemma update_ok : forall n k g m, (forall f, flow_ok n f -> flow_ok (n + 1) (g f)) ->
  map_ok n m -> map_ok (n + 1) (fm_update k g m).
Proof.
  intros n k g m Hg. induction m as [|[k' f] r IH]; intros H k0 f0 Hin; [destruct Hin|].
  cbn [fm_update] in Hin. destruct (bytes_eqb k k').
  - destruct Hin as [E|Hin].
    + injection E as <- <-. apply Hg, (H k' f). left. reflexivity.
    + apply (flow_ok_mono n); [lia|]. apply (H k0 f0). right. exact Hin.
  - destruct Hin as [E|Hin].
    + injection E as <- <-. apply (flow_ok_mono n); [lia|]. apply (H k' f). left. reflexivity.
    + apply IH with (k := k0); [|exact Hin]. intros k1 f1 H1. apply (H k1 f1). right. exact H1.
Qed.

Lemma add_flow_ok : forall n v6 m h ty sz aux, (n + 1 < two64)%N -> map_ok n m -> map_ok (n + 1) (add_flow v6 m h ty sz aux).
Proof.
  intros n v6 m h ty sz aux Hn H. unfold add_flow.
  assert (U : forall k, map_ok (n + 1) (fm_update k (upd_flow ty sz) m)).
  { intros k. apply update_ok; [intros f; apply upd_flow_ok, Hn | exact H]. }
  assert (Ins : forall k, map_ok (n + 1) ((k, new_flow ty sz) :: m)).
  { intros k k0 f0 [E|Hin]; [injection E as <- <-; apply new_flow_ok|].
    apply (flow_ok_mono n); [lia | apply (H k0 f0 Hin)]. }
  destruct (ipr_bytes v6 h); repeat match goal with |- context [if ?b then _ else _] => destruct b end;
    try apply U; destruct (classify_bytes v6 h aux); apply Ins.
Qed.

Lemma map_ok_mono : forall n n' m, (n <= n')%N -> map_ok n m -> map_ok n' m.
Proof. intros n n' m Hn H k f Hin. apply (flow_ok_mono n); [exact Hn | apply (H k f Hin)]. Qed.

(* the aggregated map carries the counters of all flows: idle ones are zero *)
Lemma aggregate_total : forall n v6 m, map_ok n m -> feq (map_total (aggregate v6 m)) (map_total m).
Proof.
  intros n v6 m. induction m as [|[k f] r IH]; intros H; [apply feq_refl|].
  assert (Hr : map_ok n r) by (intros k1 f1 H1; apply (H k1 f1); right; exact H1).
  unfold aggregate in *. cbn [fold_right fst snd]. rewrite map_total_cons.
  destruct (active f) eqn:Ea.
  - eapply feq_trans; [apply agg_put_total|]. rewrite fplus_comm. apply feq_fplus; [apply feq_refl | apply IH, Hr].
  - destruct (H k f (or_introl eq_refl)) as [_ Z]. rewrite (Z Ea), fplus_zero_l. apply IH, Hr.
Qed.

Lemma rotate_total : forall m, map_total (rotate_map m) = zero_flow.
Proof.
  intros m. unfold rotate_map, map_total. induction (filter (fun kf => active (snd kf)) m) as [|x r IH]; [reflexivity|].
  cbn [map fsum fold_right snd]. fold (fsum (map snd (map (fun kf : list N * flow => (fst kf, zero_flow)) r))).
  rewrite IH. reflexivity.
Qed.

Lemma rotate_ok : forall n m, map_ok n (rotate_map m).
Proof.
  intros n m k f H. apply rotate_map_spec in H as [-> _]. split; [cbn; lia | reflexivity].
Qed.

(* state invariant: flows are ok for the number n of packets seen; written + memory = T (mod 2^64) *)
Definition SI (c : core) (n : N) (T : flow) : Prop :=
  map_ok n (m4 c) /\ map_ok n (m6 c) /\ feq (fplus (written_total c) (memory_total c)) T.

Lemma consume_SI : forall c n T it, (n + 1 < two64)%N -> SI c n T ->
  SI (consume c it) (n + 1) (fplus T (if (0 <=? i_errno it)%Z then zero_flow else new_flow (i_type it) (i_size it))).
Proof.
  intros c n T it Hn (H4 & H6 & HT). unfold consume.
  destruct (0 <=? i_errno it)%Z.
  - rewrite fplus_zero_r. split; [|split]; cbn [m4 m6 with_st].
    + apply (map_ok_mono n); [lia | exact H4].
    + apply (map_ok_mono n); [lia | exact H6].
    + exact HT.
  - set (d := new_flow (i_type it) (i_size it)).
    destruct (i_v4 it); (split; [|split]); cbn [m4 m6 with_maps with_st].
    + apply add_flow_ok; assumption.
    + apply (map_ok_mono n); [lia | exact H6].
    + unfold written_total, memory_total in *. cbn [m4 m6 o_rot with_maps with_st].
      eapply feq_trans; [|apply feq_fplus; [exact HT | apply feq_refl]].
      rewrite !fplus_assoc. apply feq_fplus; [apply feq_refl|].
      rewrite (fplus_comm (map_total (m6 c)) d), <- fplus_assoc.
      apply feq_fplus; [apply add_flow_total | apply feq_refl].
    + apply (map_ok_mono n); [lia | exact H4].
    + apply add_flow_ok; assumption.
    + unfold written_total, memory_total in *. cbn [m4 m6 o_rot with_maps with_st].
      eapply feq_trans; [|apply feq_fplus; [exact HT | apply feq_refl]].
      rewrite !fplus_assoc. apply feq_fplus; [apply feq_refl|]. apply feq_fplus; [apply feq_refl|].
      apply add_flow_total.
Qed.

Lemma parse_err_nonneg : forall p v6 e, parse_pkt p = OErr v6 e -> (0 <=? e)%Z = true.
Proof.
  intros p v6 e. unfold parse_pkt. destruct (p_data p) as [|b0 r]; [discriminate|]. cbv zeta.
  destruct (b0 / 16 =? 4)%N; [|destruct (b0 / 16 =? 6)%N; [|discriminate]]; unfold of_parsed.
  - destruct (GoProbe.C19.Model.parse_v4 (b0 :: r)) as [[| |]| |]; intros H; inversion H; reflexivity.
  - destruct (GoProbe.C19.Model.parse_v6 (b0 :: r)) as [[| |]| |]; intros H; inversion H; reflexivity.
Qed.

Lemma SI_mono : forall c n T, SI c n T -> SI c (n + 1) T.
Proof.
  intros c n T (H4 & H6 & HT). split; [|split]; [apply (map_ok_mono n); [lia | exact H4] | apply (map_ok_mono n); [lia | exact H6] | exact HT].
Qed.

Lemma norm_pkt_SI : forall c n T p, (n + 1 < two64)%N -> SI c n T ->
  SI (norm_pkt c p) (n + 1) (fplus T (pkt_flow p)).
Proof.
  intros c n T p Hn S. unfold norm_pkt, pkt_flow. destruct (parse_pkt p) as [| |v6 e|v6 h aux] eqn:Ep.
  - rewrite fplus_zero_r. apply SI_mono, S.
  - rewrite fplus_zero_r. destruct (SI_mono _ _ _ S) as (H4 & H6 & HT). split; [|split]; assumption.
  - pose proof (consume_SI c n T (mk_item [] (p_type p) (p_size p) (negb v6) 0%N e) Hn S) as R.
    cbn [i_errno] in R. rewrite (parse_err_nonneg _ _ _ Ep) in R. exact R.
  - exact (consume_SI c n T (mk_item h (p_type p) (p_size p) (negb v6) aux (-1)%Z) Hn S).
Qed.

Lemma act_SI : forall c n T a, SI c n T -> SI (act c a) n T.
Proof.
  intros c n T a (H4 & H6 & HT). destruct a; unfold act.
  - split; [|split]; assumption.
  - destruct (flows_len c =? 0).
    + split; [|split]; cbn [m4 m6]; try assumption.
      all: try (unfold written_total, memory_total in *; cbn [m4 m6 o_rot map fsum fold_right out_total];
                fold (fsum (map out_total (o_rot c))); rewrite fplus_zero_l; exact HT).
    + split; [|split]; cbn [m4 m6]; try apply rotate_ok.
      unfold written_total, memory_total in *. cbn [m4 m6 o_rot map fsum fold_right out_total].
      fold (fsum (map out_total (o_rot c))). rewrite !rotate_total, fplus_zero_r; try rewrite fplus_zero_r.
      eapply feq_trans; [|exact HT]. rewrite (fplus_comm (fsum (map out_total (o_rot c)))).
      apply feq_fplus; [|apply feq_refl].
      apply feq_fplus; [apply (aggregate_total n), H4 | apply (aggregate_total n), H6].
  - destruct (flows_len c =? 0); (split; [|split]); cbn [m4 m6]; try assumption; exact HT.
Qed.

Lemma n_packets_cons : forall e r, n_packets (e :: r) = ((if is_data e then 1 else 0) + n_packets r)%N.
Proof.
  intros e r. unfold n_packets. cbn [filter]. destruct (is_data e); [cbn [length]; lia | reflexivity].
Qed.

Lemma prun_SI : forall evs c n T, SI c n T -> (n + n_packets evs < two64)%N ->
  SI (fold_left pstep evs c) (n + n_packets evs) (fplus T (packets_total evs)).
Proof.
  induction evs as [|e r IH]; intros c n T S Hn.
  - unfold n_packets, packets_total. cbn. rewrite N.add_0_r, fplus_zero_r. exact S.
  - rewrite n_packets_cons in *. unfold packets_total in *. cbn [map fsum fold_right fold_left].
    fold (fsum (map ev_flow r)). rewrite <- fplus_assoc.
    destruct e; cbn [is_data pstep ev_flow] in *.
    + rewrite N.add_assoc. apply IH; [apply norm_pkt_SI; [lia | exact S] | lia].
    + rewrite N.add_0_l, fplus_zero_r. apply IH; [exact S | lia].
    + rewrite N.add_0_l, fplus_zero_r. apply IH; [apply act_SI, S | lia].
    + rewrite N.add_0_l, fplus_zero_r. apply IH; [exact S | lia].
Qed.

Lemma conservation : forall evs, (n_packets evs < two64)%N ->
  fmod (fplus (written_total (prun evs)) (memory_total (prun evs))) = fmod (packets_total evs).
Proof.
  intros evs Hn.
  assert (S0 : SI core0 0 zero_flow).
  { split; [|split]; [intros k f [] | intros k f [] | reflexivity]. }
  destruct (prun_SI evs core0 0%N zero_flow S0 ltac:(rewrite N.add_0_l; exact Hn)) as (_ & _ & HT).
  rewrite fplus_zero_l in HT. exact HT.
Qed.

(* written entries are sums of flows that had traffic: an idle flow contributes no entry, and is pruned *)
Lemma idle_not_written : forall v6 m k,
  (forall k' f, In (k', f) m -> agg_key v6 k' = k -> active f = false) ->
  fm_find k (aggregate v6 m) = None.
Proof.
  intros v6 m k H. rewrite aggregate_group.
  assert (G : group v6 k m = []).
  { unfold group. induction m as [|[k0 f0] r IH]; [reflexivity|]. cbn [filter fst snd].
    destruct (bytes_eqb k (agg_key v6 k0)) eqn:E; cbn [andb].
    - apply bytes_eqb_eq in E. rewrite (H k0 f0 (or_introl eq_refl) (eq_sym E)).
      apply IH. intros k' f Hin. apply H. right. exact Hin.
    - apply IH. intros k' f Hin. apply H. right. exact Hin. }
  rewrite G. reflexivity.
Qed.

Lemma sport_aggregated : forall (v6 : bool) (m : fmap) (k : list N),
  NoDup (keys (aggregate v6 m)) /\
  fm_find k (aggregate v6 m) = match group v6 k m with [] => None | l => Some (sum64 l) end /\
  forall sip sp sp' dip dp pr, length sip = alen v6 -> length sp = 2 -> length sp' = 2 ->
    agg_key v6 (sip ++ sp ++ dip ++ dp ++ [pr]) = sip ++ dip ++ dp ++ [pr]
    /\ agg_key v6 (sip ++ sp' ++ dip ++ dp ++ [pr]) = agg_key v6 (sip ++ sp ++ dip ++ dp ++ [pr]).
Proof.
  intros v6 m k. split; [apply aggregate_nodup|]. split; [apply aggregate_group|]. intros. apply agg_key_drops_sport; assumption.
Qed.

Lemma idle_not_written_all : forall (v6 : bool) (m : fmap) (k : list N),
  ((forall k' f, In (k', f) m -> agg_key v6 k' = k -> active f = false) -> fm_find k (aggregate v6 m) = None) /\
  (forall k' f, In (k', f) (rotate_map m) -> f = zero_flow /\ exists f', In (k', f') m /\ active f' = true) /\
  (forall k' f, In (k', f) m -> active f = true -> In (k', zero_flow) (rotate_map m)).
Proof.
  intros v6 m k. split; [apply idle_not_written|]. split; [apply rotate_map_spec | apply rotate_map_keeps].
Qed.
