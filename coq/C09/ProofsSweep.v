(* C09 proofs, part 0: boolean list equalities and the byte-mask <-> bit-prefix sweep. *)
From Coq Require Import List ZArith NArith Bool Lia ZifyBool ZifyNat ZifyN.
From GoProbe.Base Require Import CorrLib.
From GoProbe.C09 Require Import Model.
Import ListNotations.

Ltac Zify.zify_post_hook ::= Z.div_mod_to_equations.

(* ------------------------------------------------------------------ boolean list equalities *)
Lemma bytes_eqb_eq : forall a b, bytes_eqb a b = true <-> a = b.
Proof.
  induction a as [|x a IH]; destruct b as [|y b]; cbn; split; intro H; try discriminate; auto.
  - apply andb_prop in H. destruct H as [H1 H2]. apply N.eqb_eq in H1. apply IH in H2. congruence.
  - inversion H; subst. rewrite N.eqb_refl. cbn. apply IH. reflexivity.
Qed.

Lemma bytes_eqb_refl : forall a, bytes_eqb a a = true.
Proof. intro a. apply bytes_eqb_eq. reflexivity. Qed.

Lemma bytes_eqb_len : forall a b, bytes_eqb a b = true -> length a = length b.
Proof. intros a b H. apply bytes_eqb_eq in H. congruence. Qed.

Lemma bits_eqb_eq : forall a b, bits_eqb a b = true <-> a = b.
Proof.
  induction a as [|x a IH]; destruct b as [|y b]; cbn; split; intro H; try discriminate; auto.
  - apply andb_prop in H. destruct H as [H1 H2]. apply eqb_prop in H1. apply IH in H2. congruence.
  - inversion H; subst. rewrite eqb_reflx. cbn. apply IH. reflexivity.
Qed.

Lemma bits_eqb_app : forall a c b d, length a = length c ->
  bits_eqb (a ++ b) (c ++ d) = bits_eqb a c && bits_eqb b d.
Proof.
  induction a as [|x a IH]; destruct c as [|y c]; cbn; intros b d H; try discriminate; auto.
  rewrite IH by lia. rewrite andb_assoc. reflexivity.
Qed.

(* ------------------------------------------------------------------ the finite sweep *)
Definition mbz (r : Z) : N := Z.to_N (shl8 255 (uint8 (8 - r))).

Definition all_bytes : list N := map N.of_nat (seq 0 256).

Lemma in_all_bytes : forall x, (x < 256)%N -> In x all_bytes.
Proof.
  intros x H. unfold all_bytes. rewrite <- (N2Nat.id x). apply in_map. apply in_seq. lia.
Qed.

Definition sweep_one (r : Z) (x y : N) : bool :=
  Bool.eqb (N.land x (mbz r) =? N.land y (mbz r))%N
           (bits_eqb (firstn (Z.to_nat r) (byte_bits x)) (firstn (Z.to_nat r) (byte_bits y))).

Lemma sweep_all_true :
  forallb (fun r => forallb (fun x => forallb (fun y => sweep_one r x y) all_bytes) all_bytes)
          [0; 1; 2; 3; 4; 5; 6; 7; 8]%Z = true.
Proof. vm_compute. reflexivity. Qed.

(* 256 x 256 byte pairs x 9 mask widths, lifted *)
Lemma mask_prefix : forall r x y, (0 <= r <= 8)%Z -> (x < 256)%N -> (y < 256)%N ->
  (N.land x (mbz r) =? N.land y (mbz r))%N =
  bits_eqb (firstn (Z.to_nat r) (byte_bits x)) (firstn (Z.to_nat r) (byte_bits y)).
Proof.
  intros r x y Hr Hx Hy.
  pose proof sweep_all_true as S.
  rewrite forallb_forall in S.
  assert (Hin : In r [0; 1; 2; 3; 4; 5; 6; 7; 8]%Z).
  { assert (r = 0 \/ r = 1 \/ r = 2 \/ r = 3 \/ r = 4 \/ r = 5 \/ r = 6 \/ r = 7 \/ r = 8)%Z by lia.
    cbn. intuition. }
  specialize (S r Hin). rewrite forallb_forall in S.
  specialize (S x (in_all_bytes x Hx)). rewrite forallb_forall in S.
  specialize (S y (in_all_bytes y Hy)). unfold sweep_one in S.
  apply eqb_prop in S. exact S.
Qed.

Lemma mbz_8 : mbz 8 = 255%N. Proof. reflexivity. Qed.

Lemma land_255 : forall x, (x < 256)%N -> N.land x 255 = x.
Proof.
  intros x H. change 255%N with (N.ones 8). rewrite N.land_ones. apply N.mod_small. exact H.
Qed.

Lemma byte_bits_len : forall x, length (byte_bits x) = 8%nat.
Proof. reflexivity. Qed.

Lemma byte_eqb_bits : forall x y, (x < 256)%N -> (y < 256)%N ->
  (x =? y)%N = bits_eqb (byte_bits x) (byte_bits y).
Proof.
  intros x y Hx Hy. pose proof (mask_prefix 8 x y ltac:(lia) Hx Hy) as H.
  rewrite mbz_8, !land_255 in H by assumption.
  exact H.
Qed.

