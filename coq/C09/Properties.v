(* C09 property theorems. Nothing but statements closed by `exact`, Print Assumptions and one
   non-vacuity example per theorem.

   prepare c = instrument (nnf (desugar c))   what ParseAndInstrument does after parsing
   eval ic k : res (bool * key)               Node.Evaluate; the key is RETURNED, so a write to the
                                              inspected key would be visible
   sem c f                                    the Boolean formula over per-flow comparisons
   key_of f                                   the 11 / 35 byte types.Key of a flow *)
From Coq Require Import List ZArith NArith Bool.
From GoProbe.Base Require Import CorrLib.
From GoProbe.C09 Require Import Model ProofsLeaf ProofsTree ProofsValid.
Import ListNotations.

(* For every condition tree over all attributes, comparators and values (every netmask in Z,
   every address) that is accepted - which includes the nesting limit - and every flow: evaluating
   the prepared condition on the flow's key yields exactly the value of the Boolean formula
   ('|' union, '&' intersection, '!' complement, a != v the complement of a = v, networks by bit
   prefix and family, sugar as documented), does not panic, and returns the key unchanged. *)
Theorem c09_eval_is_sem : forall c ic f, wf_cond c = true -> wf_flow f = true ->
  prepare c = Ok ic -> eval ic (key_of f) = Ok (sem c f, key_of f).
Proof. exact prepare_correct. Qed.
Print Assumptions c09_eval_is_sem.

(* Evaluation never changes the key it looks at: for EVERY instrumented condition (not only
   prepared ones) and every byte string as key. *)
Theorem c09_pure : forall ic k b k', eval ic k = Ok (b, k') -> k' = k.
Proof. exact eval_pure. Qed.
Print Assumptions c09_pure.

(* Preparing a condition never panics, whatever the values (any prefix length in Z, address bytes
   of any length and content); evaluating a prepared condition on a key of either width never
   panics (and gives the key back). *)
Theorem c09_no_panic : forall c,
  prepare c <> Panic /\
  forall ic k, prepare c = Ok ic -> (length k = 11%nat \/ length k = 35%nat) ->
               exists b, eval ic k = Ok (b, k).
Proof. intro c. split; [exact (prepare_no_panic c) | exact (eval_prepared_total c)]. Qed.
Print Assumptions c09_no_panic.

(* Malformed comparisons are rejected with an error: a comparator the attribute does not
   support, a value of the wrong kind, a prefix length outside 0..32 / 0..128, an address whose
   width does not fit the notation, a port above 65535, a protocol above 255. *)
Theorem c09_rejects_malformed : forall c, valid_leaves c = false -> prepare c = Err.
Proof. exact prepare_rejects. Qed.
Print Assumptions c09_rejects_malformed.

(* A condition is accepted exactly when it is well-formed: every comparison uses a comparator its
   attribute supports and a value of the attribute's kind (prefix length within 0..32 / 0..128,
   address width fitting the notation, 16-bit port, 8-bit protocol) and the desugared tree is not
   nested deeper than the limit of 512. valid_spec does not mention instrument. *)
Theorem c09_accepts_iff_wellformed : forall c, is_ok (prepare c) = valid_spec c.
Proof. exact prepare_accepts_iff. Qed.
Print Assumptions c09_accepts_iff_wellformed.

(* An address or network equality (also src/dst/host/net) is false on every flow of the other
   IP family. *)
Theorem c09_family : forall a v f fam ic, wf_value v = true -> wf_flow f = true ->
  is_addr_attr a = true -> value_v4 v = Some fam -> fam <> f_v4 f ->
  prepare (Leaf a Eq v) = Ok ic -> eval ic (key_of f) = Ok (false, key_of f).
Proof. exact family_correct. Qed.
Print Assumptions c09_family.

(* a != v selects exactly the flows a = v does not. *)
Theorem c09_ne_complement : forall a v f ic ic', wf_value v = true -> wf_flow f = true ->
  prepare (Leaf a Eq v) = Ok ic -> prepare (Leaf a Ne v) = Ok ic' ->
  exists b, eval ic (key_of f) = Ok (b, key_of f) /\ eval ic' (key_of f) = Ok (negb b, key_of f).
Proof. exact ne_complement. Qed.
Print Assumptions c09_ne_complement.

(* ------------------------------------------------------------------ non-vacuity *)
Definition ex_flow4 : flow :=
  {| f_v4 := true; f_sip := [10; 200; 0; 1]%N; f_dip := [10; 0; 0; 1]%N; f_dport := 443%N; f_proto := 6%N |}.
Definition ex_flow6 : flow :=
  {| f_v4 := false; f_sip := [10; 200; 0; 1; 0; 0; 0; 0; 0; 0; 0; 0; 0; 0; 0; 9]%N;
     f_dip := [32; 1; 13; 184; 0; 0; 0; 0; 0; 0; 0; 0; 0; 0; 0; 1]%N; f_dport := 53%N; f_proto := 17%N |}.
(* snet = 10.0.0.0/9 | !(sip = 10.200.0.1 & host != 2001:db8::1) *)
Definition ex_cond : cond :=
  Or (Leaf ASnet Eq (VNet [10; 0; 0; 0]%N false 9%Z))
     (Not (And (Leaf ASip Ne (VIP [10; 200; 0; 1]%N true))
               (Leaf AHost Ne (VIP [32; 1; 13; 184; 0; 0; 0; 0; 0; 0; 0; 0; 0; 0; 0; 1]%N false)))).

(* the hypotheses of c09_eval_is_sem are met by a compound condition whose clauses inspect the
   same field, and the formula is true for the flow from 10.200.0.1 (the unfixed code said false) *)
Example c09_eval_is_sem_example :
  wf_cond ex_cond = true /\ wf_flow ex_flow4 = true /\ is_ok (prepare ex_cond) = true /\
  sem ex_cond ex_flow4 = true /\
  match prepare ex_cond with Ok ic => eval ic (key_of ex_flow4) | _ => Err end = Ok (true, key_of ex_flow4).
Proof. vm_compute. repeat split; reflexivity. Qed.

Example c09_pure_example :
  match prepare ex_cond with Ok ic => eval ic (key_of ex_flow6) | _ => Err end = Ok (true, key_of ex_flow6).
Proof. vm_compute. reflexivity. Qed.

Example c09_no_panic_example :
  prepare (Leaf ASnet Eq (VNet [0; 0; 0; 0; 0; 0; 0; 0; 0; 0; 255; 255; 1; 2; 3; 4]%N true 128%Z)) <> Err /\
  prepare (Leaf ASnet Eq (VNet [1; 2; 3; 4]%N true 128%Z)) = Err /\
  length (key_of ex_flow6) = 35%nat.
Proof. vm_compute. repeat split; discriminate. Qed.

Example c09_rejects_malformed_example :
  valid_leaves (And (Leaf ADport Le (VPort 80)) (Leaf ANet Ne (VNet [1; 2; 3; 4]%N false (-9)%Z))) = false /\
  valid_leaves (Leaf ASnet Eq (VNet [1; 2; 3; 4]%N true 24%Z)) = false /\
  valid_leaves (Leaf ASip Lt (VIP [1; 2; 3; 4]%N true)) = false.
Proof. vm_compute. repeat split; reflexivity. Qed.

(* 10.0.0.0/8 against an IPv6 flow whose address starts with the same bytes *)
Example c09_family_example :
  let v := VNet [10; 0; 0; 0]%N false 8%Z in
  wf_value v = true /\ wf_flow ex_flow6 = true /\ value_v4 v = Some true /\ true <> f_v4 ex_flow6 /\
  is_ok (prepare (Leaf ANet Eq v)) = true.
Proof. vm_compute. repeat split; try reflexivity. discriminate. Qed.

Example c09_ne_complement_example :
  let v := VNet [10; 128; 0; 0]%N false 9%Z in
  is_ok (prepare (Leaf ASnet Eq v)) = true /\ is_ok (prepare (Leaf ASnet Ne v)) = true /\
  sem (Leaf ASnet Eq v) ex_flow4 = true.
Proof. vm_compute. repeat split; reflexivity. Qed.

Example c09_accepts_iff_wellformed_example :
  valid_spec ex_cond = true /\ valid_spec (Leaf ANet Eq (VNet [10; 0; 0; 0]%N false 33%Z)) = false /\
  valid_spec (Nat.iter 512 Not (Leaf ADport Le (VPort 80))) = true /\
  valid_spec (Nat.iter 511 Not (Leaf AHost Ne (VIP [10; 0; 0; 1]%N true))) = false.
Proof. vm_compute. repeat split; reflexivity. Qed.
