(* C09 correspondence: case type, corr (model = observed) and holds (observed meets the spec). *)
From Coq Require Import List ZArith NArith Bool.
From GoProbe.Base Require Import CorrLib.
From GoProbe.C09 Require Import Model.
Import ListNotations.

(* what ParseAndInstrument did *)
Inductive outcome := OAccept | OReject | OPanic.

(* one Evaluate call: the key handed in, and None (panic) or the result bit and the key bytes
   afterwards (None when they are byte-for-byte the key handed in) *)
Definition run := (bytes * option (bool * option bytes))%type.

Definition key_after (r : run) (o : option bytes) : bytes :=
  match o with Some k' => k' | None => fst r end.

Inductive case :=
| CEval (c : cond) (prep : outcome) (runs : list run).

Definition run_corr (ic : icond) (r : run) : bool :=
  match eval ic (fst r), snd r with
  | Ok (b, k'), Some (b', k'') => Bool.eqb b b' && bytes_eqb k' (key_after r k'')
  | Panic, None => true
  | _, _ => false
  end.

(* does the model still describe the code? *)
Definition corr (c : case) : bool :=
  match c with
  | CEval cd prep runs =>
    match prepare cd, prep with
    | Ok ic, OAccept => forallb (run_corr ic) runs
    | Err, OReject => true
    | Panic, OPanic => true
    | _, _ => false
    end
  end.

(* the specification on one Evaluate call: no crash, the result is the Boolean formula's value on
   the flow the key encodes, and the key is left as it was *)
Definition run_holds (cd : cond) (r : run) : bool :=
  match snd r with
  | None => false
  | Some (b, k') => Bool.eqb b (sem cd (flow_of_key (fst r))) && bytes_eqb (key_after r k') (fst r)
  end.

(* does the observed behaviour satisfy the property? *)
Definition holds (c : case) : bool :=
  match c with
  | CEval cd prep runs =>
    match prep with
    | OPanic => false
    | OReject => negb (valid_spec cd)
    | OAccept => valid_spec cd && forallb (run_holds cd) runs
    end
  end.
