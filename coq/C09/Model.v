(* C09 model: goProbe query conditions (pkg/goDB/conditions/node: desugar.go, node.go
   negationNormalForm, instrument.go conditionBytesAndNetmask / generateCompareValue, the
   Evaluate methods) and the byte layout of types.Key (pkg/types/keyval.go, types.go).
   Executable definitions only.  The model describes the code WITH the three C09 fixes applied
   (no write-back of the masked byte, family/length check, netmask range validation).

   Outside the model (inputs of the model, recorded by the harness): tokenising/parsing of the
   text (C10), DNS resolution, net.ParseIP / types.IPStringToBytes / strconv on the value text.
   A leaf therefore carries the *parsed* value:
     VIP b isv4        (ipData, isIPv4) as returned by types.IPStringToBytes
     VNet b colon m    IPStringToBytes(cidr[0]), strings.Contains(cidr[0], ":"), ParseInt(cidr[1],10,32)
     VPort n / VProto n  the number strconv.ParseUint read (any size: the range check is modelled);
                         for protocol names the id protocols.GetIPProtoID returns
     VBad              the text does not parse for this attribute *)
From Coq Require Import List ZArith NArith Bool.
From GoProbe.Base Require Import CorrLib.
Import ListNotations.

Definition bytes := list N.

(* ------------------------------------------------------------------ syntax *)
Inductive attr :=
| ASip | ADip | ASnet | ADnet | ADport | AProto                      (* core attributes *)
| ASrc | ADst | AHost | ANet | APort | AProtocol | AIpproto.         (* sugar *)

Inductive cmp := Eq | Ne | Lt | Gt | Le | Ge.

Inductive value :=
| VIP (b : bytes) (isv4 : bool)
| VNet (b : bytes) (hasColon : bool) (mask : Z)
| VPort (n : N)
| VProto (n : N)
| VBad.

Inductive cond :=
| Leaf (a : attr) (c : cmp) (v : value)
| Not (c : cond)
| And (l r : cond)
| Or (l r : cond).

Definition bind {A B} (r : res A) (f : A -> res B) : res B := res_bind r f.

(* ------------------------------------------------------------------ desugar.go *)
Definition desugar_pair (s d : attr) (c : cmp) (v : value) : res cond :=
  match c with
  | Eq => Ok (Or (Leaf s Eq v) (Leaf d Eq v))
  | Ne => Ok (Not (Or (Leaf s Eq v) (Leaf d Eq v)))
  | _ => Err
  end.

Definition desugar_leaf (a : attr) (c : cmp) (v : value) : res cond :=
  match a with
  | ASrc => Ok (Leaf ASip c v)
  | ADst => Ok (Leaf ADip c v)
  | APort => Ok (Leaf ADport c v)
  | AProtocol | AIpproto => Ok (Leaf AProto c v)
  | AHost => desugar_pair ASip ADip c v
  | ANet => desugar_pair ASnet ADnet c v
  | _ => Ok (Leaf a c v)
  end.

(* Node.transform with desugarConditionNode *)
Fixpoint desugar (c : cond) : res cond :=
  match c with
  | Leaf a cm v => desugar_leaf a cm v
  | Not x => bind (desugar x) (fun x' => Ok (Not x'))
  | And l r => bind (desugar l) (fun l' => bind (desugar r) (fun r' => Ok (And l' r')))
  | Or l r => bind (desugar l) (fun l' => bind (desugar r) (fun r' => Ok (Or l' r')))
  end.

(* ------------------------------------------------------------------ node.go negationNormalForm *)
Definition flip (c : cmp) : cmp :=
  match c with Eq => Ne | Ne => Eq | Lt => Ge | Gt => Le | Le => Gt | Ge => Lt end.

Definition max_depth : N := 512.

Fixpoint nnf_h (c : cond) (neg : bool) (depth : N) : res cond :=
  if (max_depth <? depth)%N then Err else
  match c with
  | Leaf a cm v => Ok (Leaf a (if neg then flip cm else cm) v)
  | And l r =>
      bind (nnf_h l neg (N.succ depth)) (fun l' =>
      bind (nnf_h r neg (N.succ depth)) (fun r' =>
      Ok (if neg then Or l' r' else And l' r')))
  | Or l r =>
      bind (nnf_h l neg (N.succ depth)) (fun l' =>
      bind (nnf_h r neg (N.succ depth)) (fun r' =>
      Ok (if neg then And l' r' else Or l' r')))
  | Not x => nnf_h x (negb neg) (N.succ depth)
  end.

Definition nnf (c : cond) : res cond := nnf_h c false 0%N.

(* ------------------------------------------------------------------ checked slice operations *)
Definition idx (i : nat) (l : bytes) : res N :=
  match nth_error l i with Some x => Ok x | None => Panic end.

Fixpoint upd (i : nat) (x : N) (l : bytes) : res bytes :=
  match l, i with
  | [], _ => Panic
  | _ :: t, O => Ok (x :: t)
  | h :: t, S i' => bind (upd i' x t) (fun t' => Ok (h :: t'))
  end.

(* l[:n] for a slice whose capacity is its length *)
Definition slice_to (n : nat) (l : bytes) : res bytes :=
  if (n <=? length l)%nat then Ok (firstn n l) else Panic.

(* for i := start; i < stop; i++ { b[i] = 0 }   (fuel = stop - start) *)
Fixpoint zero_loop (fuel i : nat) (b : bytes) : res bytes :=
  match fuel with
  | O => Ok b
  | S fuel' => bind (upd i 0%N b) (zero_loop fuel' (S i))
  end.

(* uint8(x) << s  for a uint8 shift count *)
Definition shl8 (x s : Z) : Z := if (s <? 8)%Z then ((x * 2 ^ s) mod 256)%Z else 0%Z.
Definition uint8 (z : Z) : Z := (z mod 256)%Z.

(* ------------------------------------------------------------------ instrument.go *)
(* conditionBytesAndNetmask: (condBytes, netmask) *)
Definition cond_bytes (a : attr) (v : value) : res (bytes * Z) :=
  match a, v with
  | (ASip | ADip), VIP b _ => Ok (b, 0%Z)
  | (ASnet | ADnet), VNet b colon mask =>
      let width := if colon then 16%Z else 4%Z in
      if (mask <? 0)%Z then Err                                   (* fix: lower bound *)
      else if (mask >? 8 * width)%Z then Err                      (* > 128 / > 32 *)
      else if negb (Z.of_nat (length b) =? width)%Z then Err      (* fix: "::ffff:1.2.3.4/24" *)
      else
        let start := Z.quot (mask + 7) 8 in
        bind (zero_loop (Z.to_nat (width - start)) (Z.to_nat start) b) (fun b1 =>
        if (Z.quot mask 8 <? width)%Z then
          let i := Z.to_nat (Z.quot mask 8) in
          bind (idx i b1) (fun x =>
          bind (upd i (N.land x (Z.to_N (shl8 255 (uint8 (8 - Z.rem mask 8))))) b1) (fun b2 =>
          Ok (b2, mask)))
        else Ok (b1, mask))
  | AProto, VProto n => if (n <? 256)%N then Ok ([n], 0%Z) else Err
  | ADport, VPort n => if (n <? 65536)%N then Ok ([(n / 256)%N; (n mod 256)%N], 0%Z) else Err
  | _, _ => Err
  end.

(* the closures generateCompareValue builds, as data *)
Inductive ileaf :=
| IAddr (dst neg : bool) (v : bytes)                              (* [!]bytes.Equal(GetSIP/GetDIP, value) *)
| INetPart (dst neg : bool) (v : bytes) (index : nat) (mb : N)    (* netmask not a multiple of 8 *)
| INetWhole (dst neg : bool) (v : bytes) (index : nat)
| IDport (c : cmp) (v : bytes)
| IProto (c : cmp) (v : bytes).

Inductive icond :=
| ILeaf (l : ileaf)
| INot (c : icond)
| IAnd (l r : icond)
| IOr (l r : icond).

Definition instr_addr (dst : bool) (c : cmp) (v : bytes) : res ileaf :=
  match c with Eq => Ok (IAddr dst false v) | Ne => Ok (IAddr dst true v) | _ => Err end.

Definition instr_net (dst : bool) (c : cmp) (v : bytes) (netmask : Z) : res ileaf :=
  let index := Z.to_nat (Z.quot netmask 8) in
  let toShift := uint8 (8 - Z.rem netmask 8) in
  if negb (toShift =? 8)%Z then
    let mb := Z.to_N (shl8 255 toShift) in
    match c with
    | Eq => Ok (INetPart dst false v index mb)
    | Ne => Ok (INetPart dst true v index mb)
    | _ => Err
    end
  else
    match c with
    | Eq => Ok (INetWhole dst false v index)
    | Ne => Ok (INetWhole dst true v index)
    | _ => Err
    end.

(* generateCompareValue *)
Definition instrument_leaf (a : attr) (c : cmp) (v : value) : res ileaf :=
  bind (cond_bytes a v) (fun bm =>
  let '(value, netmask) := bm in
  match a with
  | ASip => instr_addr false c value
  | ADip => instr_addr true c value
  | ASnet => instr_net false c value netmask
  | ADnet => instr_net true c value netmask
  | ADport => Ok (IDport c value)
  | AProto => Ok (IProto c value)
  | _ => Err
  end).

(* Node.transform with generateCompareValue *)
Fixpoint instrument (c : cond) : res icond :=
  match c with
  | Leaf a cm v => bind (instrument_leaf a cm v) (fun l => Ok (ILeaf l))
  | Not x => bind (instrument x) (fun x' => Ok (INot x'))
  | And l r => bind (instrument l) (fun l' => bind (instrument r) (fun r' => Ok (IAnd l' r')))
  | Or l r => bind (instrument l) (fun l' => bind (instrument r) (fun r' => Ok (IOr l' r')))
  end.

(* ParseAndInstrument after parsing (resolve is the identity on address literals) *)
Definition prepare (c : cond) : res icond :=
  bind (desugar c) (fun d => bind (nnf d) instrument).

(* ------------------------------------------------------------------ types.Key *)
Definition key := bytes.

(* Key.IsIPv4: panics unless the key has one of the two widths *)
Definition key_v4 (k : key) : res bool :=
  if (length k =? 11)%nat then Ok true else if (length k =? 35)%nat then Ok false else Panic.
Definition ipw (v4 : bool) : nat := if v4 then 4%nat else 16%nat.

Definition get_sip (k : key) : res bytes := bind (key_v4 k) (fun v4 => Ok (firstn (ipw v4) k)).
Definition get_dip (k : key) : res bytes :=
  bind (key_v4 k) (fun v4 => Ok (firstn (ipw v4) (skipn (ipw v4) k))).
Definition get_ip (dst : bool) (k : key) : res bytes := if dst then get_dip k else get_sip k.
Definition get_dport (k : key) : res bytes :=
  bind (key_v4 k) (fun v4 => Ok (firstn 2 (skipn (2 * ipw v4) k))).
Definition get_proto (k : key) : res N :=
  bind (key_v4 k) (fun v4 => idx (2 * ipw v4 + 2) k).

(* ------------------------------------------------------------------ Evaluate *)
Fixpoint bytes_eqb (a b : bytes) : bool :=           (* bytes.Equal *)
  match a, b with
  | [], [] => true
  | x :: a', y :: b' => (x =? y)%N && bytes_eqb a' b'
  | _, _ => false
  end.

Fixpoint bytes_compare (a b : bytes) : comparison :=  (* bytes.Compare *)
  match a, b with
  | [], [] => Datatypes.Eq
  | [], _ :: _ => Datatypes.Lt
  | _ :: _, [] => Datatypes.Gt
  | x :: a', y :: b' => match (x ?= y)%N with Datatypes.Eq => bytes_compare a' b' | r => r end
  end.

Definition cmp_holds (c : cmp) (r : comparison) : bool :=
  match c, r with
  | Eq, Datatypes.Eq => true
  | Ne, (Datatypes.Lt | Datatypes.Gt) => true
  | Lt, Datatypes.Lt => true
  | Gt, Datatypes.Gt => true
  | Le, (Datatypes.Lt | Datatypes.Eq) => true
  | Ge, (Datatypes.Gt | Datatypes.Eq) => true
  | _, _ => false
  end.

(* len(ip) == len(value) && bytes.Equal(ip[:index], value[:index]) [&& ip[index]&mb == value[index]]
   with Go's left-to-right short-circuit evaluation *)
Definition net_match (ip v : bytes) (index : nat) (part : option N) : res bool :=
  if negb (length ip =? length v)%nat then Ok false else
  bind (slice_to index ip) (fun a =>
  bind (slice_to index v) (fun b =>
  if negb (bytes_eqb a b) then Ok false else
  match part with
  | None => Ok true
  | Some mb => bind (idx index ip) (fun x => bind (idx index v) (fun y => Ok (N.land x mb =? y)%N))
  end)).

(* A closure gets the key and may write to it (the slices returned by GetSIP/GetDIP alias the
   key), so evaluation RETURNS the key. None of the fixed closures writes. *)
Definition eval_leaf (l : ileaf) (k : key) : res (bool * key) :=
  match l with
  | IAddr dst neg v => bind (get_ip dst k) (fun ip => Ok (xorb neg (bytes_eqb ip v), k))
  | INetPart dst neg v index mb =>
      bind (get_ip dst k) (fun ip => bind (net_match ip v index (Some mb)) (fun m => Ok (xorb neg m, k)))
  | INetWhole dst neg v index =>
      bind (get_ip dst k) (fun ip => bind (net_match ip v index None) (fun m => Ok (xorb neg m, k)))
  | IDport c v =>
      bind (get_dport k) (fun d => bind (slice_to 2 v) (fun w => Ok (cmp_holds c (bytes_compare d w), k)))
  | IProto c v =>
      bind (get_proto k) (fun p => bind (idx 0 v) (fun y => Ok (cmp_holds c (p ?= y)%N, k)))
  end.

(* notNode / andNode / orNode .Evaluate: && and || short-circuit; the key is threaded *)
Fixpoint eval (c : icond) (k : key) : res (bool * key) :=
  match c with
  | ILeaf l => eval_leaf l k
  | INot x => bind (eval x k) (fun r => Ok (negb (fst r), snd r))
  | IAnd l r => bind (eval l k) (fun rl => if fst rl then eval r (snd rl) else Ok (false, snd rl))
  | IOr l r => bind (eval l k) (fun rl => if fst rl then Ok (true, snd rl) else eval r (snd rl))
  end.

(* ------------------------------------------------------------------ specification *)
Record flow := { f_v4 : bool; f_sip : bytes; f_dip : bytes; f_dport : N; f_proto : N }.

Definition key_of (f : flow) : key :=
  f_sip f ++ f_dip f ++ [(f_dport f / 256)%N; (f_dport f mod 256)%N] ++ [f_proto f].

Definition byte_ok (x : N) : bool := (x <? 256)%N.
Definition wf_flow (f : flow) : bool :=
  (length (f_sip f) =? ipw (f_v4 f))%nat && (length (f_dip f) =? ipw (f_v4 f))%nat
  && forallb byte_ok (f_sip f) && forallb byte_ok (f_dip f)
  && (f_dport f <? 65536)%N && (f_proto f <? 256)%N.

(* bits of an address, most significant first *)
Definition byte_bits (x : N) : list bool := map (N.testbit x) [7; 6; 5; 4; 3; 2; 1; 0]%N.
Definition addr_bits (b : bytes) : list bool := flat_map byte_bits b.

Fixpoint bits_eqb (a b : list bool) : bool :=
  match a, b with
  | [], [] => true
  | x :: a', y :: b' => Bool.eqb x y && bits_eqb a' b'
  | _, _ => false
  end.

(* an address equals a literal: same family and same bytes *)
Definition addr_is (fv4 : bool) (ip : bytes) (vv4 : bool) (b : bytes) : bool :=
  Bool.eqb fv4 vv4 && bytes_eqb ip b.

(* an address lies in a network: same family and the first p bits agree *)
Definition in_net (fv4 : bool) (ip : bytes) (nv4 : bool) (net : bytes) (p : nat) : bool :=
  Bool.eqb fv4 nv4 && bits_eqb (firstn p (addr_bits ip)) (firstn p (addr_bits net)).

Definition num_cmp (c : cmp) (x y : N) : bool :=
  match c with
  | Eq => (x =? y)%N | Ne => negb (x =? y)%N
  | Lt => (x <? y)%N | Gt => (y <? x)%N
  | Le => (x <=? y)%N | Ge => (y <=? x)%N
  end.

(* meaning of `a = v` for the four address attributes *)
Definition sem_eq (a : attr) (v : value) (f : flow) : bool :=
  match a, v with
  | ASip, VIP b v4 => addr_is (f_v4 f) (f_sip f) v4 b
  | ADip, VIP b v4 => addr_is (f_v4 f) (f_dip f) v4 b
  | ASnet, VNet b colon m => in_net (f_v4 f) (f_sip f) (negb colon) b (Z.to_nat m)
  | ADnet, VNet b colon m => in_net (f_v4 f) (f_dip f) (negb colon) b (Z.to_nat m)
  | _, _ => false
  end.

(* addresses: only = and != (the help text: "only = and != are supported");
   a != v is the complement of a = v *)
Definition sem_addr (a : attr) (c : cmp) (v : value) (f : flow) : bool :=
  match c with Eq => sem_eq a v f | Ne => negb (sem_eq a v f) | _ => false end.

Definition sem_pair (s d : attr) (c : cmp) (v : value) (f : flow) : bool :=
  match c with
  | Eq => sem_eq s v f || sem_eq d v f            (* host = X  ==  (sip = X | dip = X) *)
  | Ne => negb (sem_eq s v f || sem_eq d v f)     (* host != X ==  (sip != X & dip != X) *)
  | _ => false
  end.

Definition sem_port (c : cmp) (v : value) (f : flow) : bool :=
  match v with VPort n => num_cmp c (f_dport f) n | _ => false end.
Definition sem_proto (c : cmp) (v : value) (f : flow) : bool :=
  match v with VProto n => num_cmp c (f_proto f) n | _ => false end.

Definition sem_leaf (a : attr) (c : cmp) (v : value) (f : flow) : bool :=
  match a with
  | ASip | ADip | ASnet | ADnet => sem_addr a c v f
  | ASrc => sem_addr ASip c v f
  | ADst => sem_addr ADip c v f
  | AHost => sem_pair ASip ADip c v f
  | ANet => sem_pair ASnet ADnet c v f
  | ADport | APort => sem_port c v f
  | AProto | AProtocol | AIpproto => sem_proto c v f
  end.

Fixpoint sem (c : cond) (f : flow) : bool :=
  match c with
  | Leaf a cm v => sem_leaf a cm v f
  | Not x => negb (sem x f)
  | And l r => sem l f && sem r f
  | Or l r => sem l f || sem r f
  end.

(* well-formed parsed values: what net.ParseIP / IPStringToBytes guarantee *)
Definition wf_value (v : value) : bool :=
  match v with
  | VIP b v4 => (length b =? ipw v4)%nat && forallb byte_ok b
  | VNet b _ _ => forallb byte_ok b
  | _ => true
  end.

Fixpoint wf_cond (c : cond) : bool :=
  match c with
  | Leaf _ _ v => wf_value v
  | Not x => wf_cond x
  | And l r | Or l r => wf_cond l && wf_cond r
  end.

(* family of an address / network literal (None: not an address value) *)
Definition value_v4 (v : value) : option bool :=
  match v with VIP _ v4 => Some v4 | VNet _ colon _ => Some (negb colon) | _ => None end.

Definition is_addr_attr (a : attr) : bool :=
  match a with ASip | ADip | ASnet | ADnet | ASrc | ADst | AHost | ANet => true | _ => false end.

(* depth of the desugared tree, as negationNormalForm counts it (root = 0) *)
Fixpoint sdepth (c : cond) : N :=
  match c with
  | Leaf a cm _ =>
      match a, cm with
      | (AHost | ANet), Ne => 2
      | (AHost | ANet), _ => 1
      | _, _ => 0
      end
  | Not x => N.succ (sdepth x)
  | And l r | Or l r => N.succ (N.max (sdepth l) (sdepth r))
  end%N.

(* which conditions are well-formed, stated directly (independent of instrument):
   the comparator is allowed for the attribute, the value has the attribute's type, a prefix
   length lies in 0..32 / 0..128 and the address has the width of the notation's family, ports fit
   16 bits and protocols 8 bits, and the desugared tree is not deeper than the documented limit *)
Definition eq_or_ne (c : cmp) : bool := match c with Eq | Ne => true | _ => false end.

Definition valid_leaf (a : attr) (c : cmp) (v : value) : bool :=
  match a with
  | ASip | ADip | ASrc | ADst | AHost =>
      eq_or_ne c && match v with VIP _ _ => true | _ => false end
  | ASnet | ADnet | ANet =>
      eq_or_ne c &&
      match v with
      | VNet b colon m =>
          let w := if colon then 16%Z else 4%Z in
          (0 <=? m)%Z && (m <=? 8 * w)%Z && (Z.of_nat (length b) =? w)%Z
      | _ => false
      end
  | ADport | APort => match v with VPort n => (n <? 65536)%N | _ => false end
  | AProto | AProtocol | AIpproto => match v with VProto n => (n <? 256)%N | _ => false end
  end.

Fixpoint valid_leaves (c : cond) : bool :=
  match c with
  | Leaf a cm v => valid_leaf a cm v
  | Not x => valid_leaves x
  | And l r | Or l r => valid_leaves l && valid_leaves r
  end.

Definition valid_spec (c : cond) : bool := valid_leaves c && (sdepth c <=? max_depth)%N.

(* the flow a key encodes *)
Definition flow_of_key (k : key) : flow :=
  let v4 := (length k =? 11)%nat in
  let w := ipw v4 in
  {| f_v4 := v4; f_sip := firstn w k; f_dip := firstn w (skipn w k);
     f_dport := (256 * nth (2 * w) k 0 + nth (2 * w + 1) k 0)%N;
     f_proto := nth (2 * w + 2) k 0%N |}.
