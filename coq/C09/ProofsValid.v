(* C09 proofs, part 4: a condition is accepted exactly when it is well-formed (valid_spec). *)
From Coq Require Import List ZArith NArith Bool Lia ZifyBool ZifyNat ZifyN.
From GoProbe.Base Require Import CorrLib.
From GoProbe.C09 Require Import Model ProofsSweep ProofsBytes ProofsLeaf ProofsTree.
Import ListNotations.

Fixpoint depth (c : cond) : N :=
  match c with
  | Leaf _ _ _ => 0
  | Not x => N.succ (depth x)
  | And l r | Or l r => N.succ (N.max (depth l) (depth r))
  end%N.

Definition core_attr (a : attr) : bool :=
  match a with ASip | ADip | ASnet | ADnet | ADport | AProto => true | _ => false end.

Fixpoint core (c : cond) : bool :=
  match c with
  | Leaf a _ _ => core_attr a
  | Not x => core x
  | And l r | Or l r => core l && core r
  end.

Lemma is_ok_bind2 : forall {A B} (x y : res A) (f : A -> A -> B),
  is_ok (bind x (fun a => bind y (fun b => Ok (f a b)))) = is_ok x && is_ok y.
Proof. intros A B x y f. destruct x, y; reflexivity. Qed.

Lemma is_ok_bind1 : forall {A B} (x : res A) (f : A -> B),
  is_ok (bind x (fun a => Ok (f a))) = is_ok x.
Proof. intros A B x f. destruct x; reflexivity. Qed.

(* ---- desugar *)
Lemma desugar_complete : forall c, valid_leaves c = true ->
  exists d, desugar c = Ok d /\ core d = true /\ depth d = sdepth c.
Proof.
  induction c as [a cm v|x IH|l IHl r IHr|l IHl r IHr]; cbn [valid_leaves]; intro H.
  - destruct a; cbn [desugar desugar_leaf]; try (eexists; split; [reflexivity|split; reflexivity]);
      cbn [valid_leaf] in H; apply andb_prop in H; destruct H as [H _];
      destruct cm; try discriminate; cbn [desugar_pair]; eexists; split; try reflexivity; split; reflexivity.
  - destruct (IH H) as [d [E [C D]]]. exists (Not d). cbn [desugar]. rewrite E. cbn.
    rewrite C, D. auto.
  - apply andb_prop in H. destruct H as [Hl Hr].
    destruct (IHl Hl) as [dl [El [Cl Dl]]]. destruct (IHr Hr) as [dr [Er [Cr Dr]]].
    exists (And dl dr). cbn [desugar]. rewrite El, Er. cbn. rewrite Cl, Cr, Dl, Dr. auto.
  - apply andb_prop in H. destruct H as [Hl Hr].
    destruct (IHl Hl) as [dl [El [Cl Dl]]]. destruct (IHr Hr) as [dr [Er [Cr Dr]]].
    exists (Or dl dr). cbn [desugar]. rewrite El, Er. cbn. rewrite Cl, Cr, Dl, Dr. auto.
Qed.

Lemma desugar_depth : forall c d, desugar c = Ok d -> valid_leaves c = true -> depth d = sdepth c.
Proof.
  intros c d H V. destruct (desugar_complete c V) as [d' [E [_ D]]]. congruence.
Qed.

(* ---- negation normal form: the depth limit *)
Lemma nnf_ok_iff : forall c neg d, is_ok (nnf_h c neg d) = (d + depth c <=? max_depth)%N.
Proof.
  induction c as [a cm v|x IH|l IHl r IHr|l IHl r IHr]; intros neg d; cbn [nnf_h depth];
    destruct (max_depth <? d)%N eqn:E.
  - cbn. lia.
  - cbn. lia.
  - cbn. lia.
  - rewrite IH. lia.
  - cbn. lia.
  - destruct neg; rewrite (is_ok_bind2 _ _ _), IHl, IHr; lia.
  - cbn. lia.
  - destruct neg; rewrite (is_ok_bind2 _ _ _), IHl, IHr; lia.
Qed.

Lemma nnf_core : forall c neg d t, nnf_h c neg d = Ok t -> core t = core c.
Proof.
  induction c as [a cm v|x IH|l IHl r IHr|l IHl r IHr]; intros neg d t H;
    cbn [nnf_h] in H; destruct (max_depth <? d)%N; try discriminate; cbn [core].
  - injection H as <-. reflexivity.
  - eapply IH; eauto.
  - inv_bind H. inv_bind H. injection H as <-.
    destruct neg; cbn [core]; rewrite (IHl _ _ _ E), (IHr _ _ _ E0); reflexivity.
  - inv_bind H. inv_bind H. injection H as <-.
    destruct neg; cbn [core]; rewrite (IHl _ _ _ E), (IHr _ _ _ E0); reflexivity.
Qed.

(* ---- instrument *)
Lemma instr_net_complete : forall dst c v m, eq_or_ne c = true -> exists il, instr_net dst c v m = Ok il.
Proof.
  intros dst c v m H. unfold instr_net.
  destruct (negb (uint8 (8 - Z.rem m 8) =? 8)%Z); destruct c; try discriminate; eauto.
Qed.

Lemma instrument_leaf_complete : forall a c v, core_attr a = true -> valid_leaf a c v = true ->
  exists il, instrument_leaf a c v = Ok il.
Proof.
  intros a c v Ha H.
  assert (Hnet : forall dst, a = net_attr dst -> exists il, instrument_leaf a c v = Ok il).
  { intros dst ->. assert (H' : valid_leaf ASnet c v = true) by (destruct dst; exact H).
    cbn [valid_leaf] in H'. apply andb_prop in H'. destruct H' as [Hc Hv].
    destruct v; try discriminate.
    pose proof (cond_bytes_net_spec (net_attr dst) b hasColon mask ltac:(destruct dst; cbn; auto)) as S.
    unfold net_value_ok, netw in S. rewrite Hv in S. destruct S as [v0 [E0 _]].
    unfold instrument_leaf. rewrite E0. cbn [bind res_bind].
    destruct dst; cbn [net_attr]; apply instr_net_complete; exact Hc. }
  destruct a; try discriminate.
  - cbn [valid_leaf] in H. apply andb_prop in H. destruct H as [Hc Hv].
    destruct v; try discriminate. destruct c; try discriminate; eexists; reflexivity.
  - cbn [valid_leaf] in H. apply andb_prop in H. destruct H as [Hc Hv].
    destruct v; try discriminate. destruct c; try discriminate; eexists; reflexivity.
  - apply (Hnet false). reflexivity.
  - apply (Hnet true). reflexivity.
  - cbn [valid_leaf] in H. destruct v; try discriminate.
    unfold instrument_leaf. cbn [cond_bytes]. rewrite H. cbn. eauto.
  - cbn [valid_leaf] in H. destruct v; try discriminate.
    unfold instrument_leaf. cbn [cond_bytes]. rewrite H. cbn. eauto.
Qed.

Lemma instrument_complete : forall c, core c = true -> valid_leaves c = true ->
  exists ic, instrument c = Ok ic.
Proof.
  induction c as [a cm v|x IH|l IHl r IHr|l IHl r IHr]; cbn [core valid_leaves instrument]; intros C V.
  - destruct (instrument_leaf_complete a cm v C V) as [il ->]. cbn. eauto.
  - destruct (IH C V) as [ic ->]. cbn. eauto.
  - apply andb_prop in C. apply andb_prop in V. destruct C as [Cl Cr]. destruct V as [Vl Vr].
    destruct (IHl Cl Vl) as [il ->]. destruct (IHr Cr Vr) as [ir ->]. cbn. eauto.
  - apply andb_prop in C. apply andb_prop in V. destruct C as [Cl Cr]. destruct V as [Vl Vr].
    destruct (IHl Cl Vl) as [il ->]. destruct (IHr Cr Vr) as [ir ->]. cbn. eauto.
Qed.

(* ---- the whole pipeline *)
Lemma prepare_complete : forall c, valid_spec c = true -> exists ic, prepare c = Ok ic.
Proof.
  intros c H. unfold valid_spec in H. apply andb_prop in H. destruct H as [V D].
  destruct (desugar_complete c V) as [d [Ed [Cd Dd]]].
  unfold prepare. rewrite Ed. cbn [bind res_bind]. unfold nnf.
  pose proof (nnf_ok_iff d false 0%N) as Hn. rewrite Dd in Hn.
  destruct (nnf_h d false 0%N) as [t| |] eqn:En; cbn [is_ok] in Hn; try lia.
  cbn [bind res_bind]. apply instrument_complete.
  - rewrite (nnf_core _ _ _ _ En). exact Cd.
  - rewrite (nnf_valid _ _ _ _ En), (desugar_valid _ _ Ed). exact V.
Qed.

Lemma prepare_sound : forall c ic, prepare c = Ok ic -> valid_spec c = true.
Proof.
  intros c ic H. pose proof (prepare_valid c ic H) as V. unfold valid_spec. rewrite V. cbn [andb].
  unfold prepare in H. inv_bind H. inv_bind H. unfold nnf in E0.
  pose proof (nnf_ok_iff a false 0%N) as Hn. rewrite E0 in Hn. cbn [is_ok] in Hn.
  rewrite (desugar_depth _ _ E V) in Hn. lia.
Qed.

Lemma prepare_accepts_iff : forall c, is_ok (prepare c) = valid_spec c.
Proof.
  intros c. destruct (valid_spec c) eqn:V.
  - destruct (prepare_complete c V) as [ic ->]. reflexivity.
  - destruct (prepare c) as [ic| |] eqn:E; try reflexivity.
    apply prepare_sound in E. congruence.
Qed.
