(* C09 proofs, part 1: addresses as bit strings, checked slice operations, comparisons. *)
From Coq Require Import List ZArith NArith Bool Lia ZifyBool ZifyNat ZifyN.
From GoProbe.Base Require Import CorrLib.
From GoProbe.C09 Require Import Model ProofsSweep.
Import ListNotations.

Ltac Zify.zify_post_hook ::= Z.div_mod_to_equations.

(* ------------------------------------------------------------------ addresses as bit strings *)
Lemma addr_bits_cons : forall x l, addr_bits (x :: l) = byte_bits x ++ addr_bits l.
Proof. reflexivity. Qed.

Lemma addr_bits_len : forall l, length (addr_bits l) = (8 * length l)%nat.
Proof.
  induction l as [|x l IH]; [reflexivity|].
  rewrite addr_bits_cons, app_length, IH, byte_bits_len. cbn [length]. lia.
Qed.

Lemma forallb_byte_cons : forall x l, forallb byte_ok (x :: l) = true ->
  (x < 256)%N /\ forallb byte_ok l = true.
Proof.
  intros x l H. cbn in H. apply andb_prop in H. destruct H as [H1 H2]. split; [|exact H2].
  unfold byte_ok in H1. lia.
Qed.

Lemma addr_bits_eqb : forall a b, forallb byte_ok a = true -> forallb byte_ok b = true ->
  length a = length b ->
  bits_eqb (addr_bits a) (addr_bits b) = bytes_eqb a b.
Proof.
  induction a as [|x a IH]; destruct b as [|y b]; intros Ha Hb Hl; try discriminate; [reflexivity|].
  apply forallb_byte_cons in Ha. apply forallb_byte_cons in Hb.
  destruct Ha as [Hx Ha]. destruct Hb as [Hy Hb].
  rewrite !addr_bits_cons, bits_eqb_app by reflexivity.
  cbn [bytes_eqb]. rewrite <- byte_eqb_bits by assumption.
  rewrite IH; auto.
Qed.

Lemma forallb_firstn : forall (p : N -> bool) n l, forallb p l = true -> forallb p (firstn n l) = true.
Proof.
  intros p n. induction n as [|n IH]; intros l H; [reflexivity|].
  destruct l as [|x l]; [reflexivity|]. cbn in *. apply andb_prop in H. destruct H as [H1 H2].
  rewrite H1. cbn. apply IH. exact H2.
Qed.

Lemma forallb_nth : forall l i, forallb byte_ok l = true -> (nth i l 0 < 256)%N.
Proof.
  intros l i H. destruct (Nat.lt_ge_cases i (length l)) as [Hi|Hi].
  - rewrite forallb_forall in H. specialize (H (nth i l 0%N) (nth_In l 0%N Hi)).
    unfold byte_ok in H. lia.
  - rewrite nth_overflow by exact Hi. lia.
Qed.

(* the first 8i+r bits are the first i bytes and the first r bits of byte i *)
Lemma firstn_addr_bits : forall l i r, (i < length l)%nat -> (r <= 8)%nat ->
  firstn (8 * i + r) (addr_bits l) = addr_bits (firstn i l) ++ firstn r (byte_bits (nth i l 0%N)).
Proof.
  induction l as [|x l IH]; intros i r Hi Hr; [cbn in Hi; lia|].
  destruct i as [|i].
  - cbn [firstn nth addr_bits flat_map app Nat.mul Nat.add].
    change (8 * 0 + r)%nat with r.
    rewrite firstn_app, byte_bits_len.
    replace (r - 8)%nat with 0%nat by lia. cbn [firstn]. rewrite app_nil_r. reflexivity.
  - cbn [length] in Hi.
    replace (8 * S i + r)%nat with (length (byte_bits x) + (8 * i + r))%nat by (rewrite byte_bits_len; lia).
    rewrite addr_bits_cons, firstn_app_2. cbn [firstn nth]. rewrite addr_bits_cons, <- app_assoc.
    f_equal. apply IH; lia.
Qed.

Lemma firstn_addr_bits_whole : forall l i, (i <= length l)%nat ->
  firstn (8 * i) (addr_bits l) = addr_bits (firstn i l).
Proof.
  induction l as [|x l IH]; intros i Hi.
  - cbn in Hi. assert (i = 0)%nat by lia. subst. reflexivity.
  - destruct i as [|i]; [reflexivity|]. cbn [length] in Hi.
    replace (8 * S i)%nat with (length (byte_bits x) + 8 * i)%nat by (rewrite byte_bits_len; lia).
    rewrite addr_bits_cons, firstn_app_2. cbn [firstn]. rewrite addr_bits_cons. f_equal.
    apply IH. lia.
Qed.

(* ------------------------------------------------------------------ checked operations *)
Lemma idx_ok : forall i l, (i < length l)%nat -> idx i l = Ok (nth i l 0%N).
Proof.
  intros i l H. unfold idx. rewrite (nth_error_nth' l 0%N H). reflexivity.
Qed.

Lemma slice_to_ok : forall n l, (n <= length l)%nat -> slice_to n l = Ok (firstn n l).
Proof.
  intros n l H. unfold slice_to. destruct (n <=? length l)%nat eqn:E; [reflexivity|]. lia.
Qed.

Lemma upd_ok : forall l i x, (i < length l)%nat ->
  exists l', upd i x l = Ok l' /\ length l' = length l /\ firstn i l' = firstn i l /\
             nth i l' 0%N = x /\ (forall j, j <> i -> nth j l' 0%N = nth j l 0%N).
Proof.
  induction l as [|h t IH]; intros i x Hi; [cbn in Hi; lia|].
  destruct i as [|i].
  - exists (x :: t). cbn. repeat split; auto. intros j Hj. destruct j; [lia|reflexivity].
  - cbn [length] in Hi. destruct (IH i x ltac:(lia)) as [t' [E [L [F [Nx Nj]]]]].
    exists (h :: t'). cbn [upd]. rewrite E. cbn. repeat split; auto.
    + f_equal. exact F.
    + intros j Hj. destruct j; [reflexivity|]. apply Nj. lia.
Qed.

Lemma firstn_eq_le : forall (a b : bytes) n m, firstn n a = firstn n b -> (m <= n)%nat ->
  firstn m a = firstn m b.
Proof.
  intros a b n m H Hm.
  replace m with (Init.Nat.min m n) by lia. rewrite <- !firstn_firstn, H. reflexivity.
Qed.

Lemma zero_loop_ok : forall fuel i b, (i + fuel <= length b)%nat ->
  exists b1, zero_loop fuel i b = Ok b1 /\ length b1 = length b /\ firstn i b1 = firstn i b.
Proof.
  induction fuel as [|fuel IH]; intros i b H.
  - exists b. cbn. auto.
  - destruct (upd_ok b i 0%N ltac:(lia)) as [b' [E [L [F _]]]].
    destruct (IH (S i) b' ltac:(lia)) as [b1 [E1 [L1 F1]]].
    exists b1. cbn [zero_loop]. rewrite E. cbn. rewrite E1. split; [reflexivity|].
    split; [lia|].
    rewrite <- F. apply firstn_eq_le with (n := S i); [exact F1|lia].
Qed.

Lemma nth_firstn_lt : forall (l : bytes) i n, (i < n)%nat -> nth i (firstn n l) 0%N = nth i l 0%N.
Proof.
  induction l as [|h t IH]; intros i n H.
  - rewrite firstn_nil. reflexivity.
  - destruct n; [lia|]. destruct i; [reflexivity|]. cbn. apply IH. lia.
Qed.

Lemma firstn_eq_nth : forall (a b : bytes) n i, firstn n a = firstn n b -> (i < n)%nat ->
  nth i a 0%N = nth i b 0%N.
Proof.
  intros a b n i H Hi. rewrite <- (nth_firstn_lt a i n Hi), <- (nth_firstn_lt b i n Hi), H. reflexivity.
Qed.

Lemma firstn_app_len : forall (a b : bytes) n, length a = n -> firstn n (a ++ b) = a.
Proof.
  intros a b n H. subst. rewrite firstn_app, Nat.sub_diag, firstn_all. cbn. apply app_nil_r.
Qed.

Lemma skipn_app_len : forall (a b : bytes) n, length a = n -> skipn n (a ++ b) = b.
Proof.
  intros a b n H. subst. rewrite skipn_app, Nat.sub_diag, skipn_all. reflexivity.
Qed.

(* ------------------------------------------------------------------ comparisons *)
Lemma cmp_holds_num : forall c x y, cmp_holds c (x ?= y)%N = num_cmp c x y.
Proof.
  intros c x y. unfold num_cmp, N.ltb, N.leb. rewrite (N.compare_antisym x y).
  destruct (N.compare_spec x y) as [E|L|G].
  - subst. rewrite N.eqb_refl. destruct c; reflexivity.
  - assert (x =? y = false)%N by lia. rewrite H. destruct c; reflexivity.
  - assert (x =? y = false)%N by lia. rewrite H. destruct c; reflexivity.
Qed.

Lemma compare_be16 : forall d n,
  bytes_compare [(d / 256)%N; (d mod 256)%N] [(n / 256)%N; (n mod 256)%N] = (d ?= n)%N.
Proof.
  intros d n. cbn [bytes_compare].
  destruct (N.compare_spec (d / 256) (n / 256)) as [E|L|G];
  [destruct (N.compare_spec (d mod 256) (n mod 256)) as [E2|L2|G2]|..];
  symmetry.
  - apply N.compare_eq_iff. lia.
  - apply N.compare_lt_iff. lia.
  - apply N.compare_gt_iff. lia.
  - apply N.compare_lt_iff. lia.
  - apply N.compare_gt_iff. lia.
Qed.

Lemma num_cmp_flip : forall c x y, num_cmp (flip c) x y = negb (num_cmp c x y).
Proof.
  intros c x y. destruct c; cbn [flip num_cmp]; try rewrite negb_involutive; try reflexivity;
  lia.
Qed.
