(* C09 proofs, part 2: the key layout, conditionBytesAndNetmask, and the comparison leaves:
   an instrumented leaf evaluates to the textbook meaning of the comparison, leaves the key
   alone and cannot panic. *)
From Coq Require Import List ZArith NArith Bool Lia ZifyBool ZifyNat ZifyN.
From GoProbe.Base Require Import CorrLib.
From GoProbe.C09 Require Import Model ProofsSweep ProofsBytes.
Import ListNotations.

Ltac Zify.zify_post_hook ::= Z.div_mod_to_equations.

(* ------------------------------------------------------------------ flows and keys *)
Lemma wf_flow_parts : forall f, wf_flow f = true ->
  length (f_sip f) = ipw (f_v4 f) /\ length (f_dip f) = ipw (f_v4 f) /\
  forallb byte_ok (f_sip f) = true /\ forallb byte_ok (f_dip f) = true /\
  (f_dport f < 65536)%N /\ (f_proto f < 256)%N.
Proof.
  intros f H. unfold wf_flow in H. rewrite !andb_true_iff in H.
  destruct H as [[[[[H1 H2] H3] H4] H5] H6]. repeat split; auto; lia.
Qed.

Lemma key_len : forall f, wf_flow f = true -> length (key_of f) = (2 * ipw (f_v4 f) + 3)%nat.
Proof.
  intros f H. destruct (wf_flow_parts f H) as [Hs [Hd _]].
  unfold key_of. rewrite !app_length, Hs, Hd. cbn [length]. lia.
Qed.

Lemma key_v4_key_of : forall f, wf_flow f = true -> key_v4 (key_of f) = Ok (f_v4 f).
Proof.
  intros f H. unfold key_v4. rewrite (key_len f H). destruct (f_v4 f); reflexivity.
Qed.

Lemma get_sip_key_of : forall f, wf_flow f = true -> get_sip (key_of f) = Ok (f_sip f).
Proof.
  intros f H. unfold get_sip. rewrite (key_v4_key_of f H). cbn [bind res_bind]. f_equal.
  destruct (wf_flow_parts f H) as [Hs _]. unfold key_of. apply firstn_app_len. exact Hs.
Qed.

Lemma get_dip_key_of : forall f, wf_flow f = true -> get_dip (key_of f) = Ok (f_dip f).
Proof.
  intros f H. unfold get_dip. rewrite (key_v4_key_of f H). cbn [bind res_bind]. f_equal.
  destruct (wf_flow_parts f H) as [Hs [Hd _]]. unfold key_of.
  rewrite (skipn_app_len _ _ _ Hs). apply firstn_app_len. exact Hd.
Qed.

Lemma get_ip_key_of : forall dst f, wf_flow f = true ->
  get_ip dst (key_of f) = Ok (if dst then f_dip f else f_sip f).
Proof.
  intros [|] f H; [apply get_dip_key_of | apply get_sip_key_of]; exact H.
Qed.

Lemma get_dport_key_of : forall f, wf_flow f = true ->
  get_dport (key_of f) = Ok [(f_dport f / 256)%N; (f_dport f mod 256)%N].
Proof.
  intros f H. unfold get_dport. rewrite (key_v4_key_of f H). cbn [bind res_bind]. f_equal.
  destruct (wf_flow_parts f H) as [Hs [Hd _]]. unfold key_of.
  rewrite app_assoc. rewrite skipn_app_len by (rewrite app_length; lia). reflexivity.
Qed.

Lemma get_proto_key_of : forall f, wf_flow f = true -> get_proto (key_of f) = Ok (f_proto f).
Proof.
  intros f H. unfold get_proto. rewrite (key_v4_key_of f H). cbn [bind res_bind].
  rewrite idx_ok by (rewrite (key_len f H); lia). f_equal.
  destruct (wf_flow_parts f H) as [Hs [Hd _]]. unfold key_of.
  rewrite app_assoc, app_nth2 by (rewrite app_length; lia).
  rewrite app_length, Hs, Hd.
  replace (2 * ipw (f_v4 f) + 2 - (ipw (f_v4 f) + ipw (f_v4 f)))%nat with 2%nat by lia.
  reflexivity.
Qed.

(* ------------------------------------------------------------------ conditionBytesAndNetmask *)
Definition netw (colon : bool) : Z := if colon then 16%Z else 4%Z.

Definition net_value_ok (b : bytes) (colon : bool) (m : Z) : bool :=
  (0 <=? m)%Z && (m <=? 8 * netw colon)%Z && (Z.of_nat (length b) =? netw colon)%Z.

(* the masked network address: same length, the whole bytes of the prefix are kept, the
   partial byte is masked *)
Definition masked (b v : bytes) (m : Z) : Prop :=
  length v = length b /\
  firstn (Z.to_nat (m / 8)) v = firstn (Z.to_nat (m / 8)) b /\
  ((m mod 8 <> 0)%Z ->
   nth (Z.to_nat (m / 8)) v 0%N = N.land (nth (Z.to_nat (m / 8)) b 0%N) (mbz (m mod 8))).

Lemma cond_bytes_net_spec : forall a b colon m, a = ASnet \/ a = ADnet ->
  if net_value_ok b colon m
  then exists v, cond_bytes a (VNet b colon m) = Ok (v, m) /\ masked b v m
  else cond_bytes a (VNet b colon m) = Err.
Proof.
  intros a b colon m Ha. unfold net_value_ok.
  assert (E : cond_bytes a (VNet b colon m) = cond_bytes ASnet (VNet b colon m))
    by (destruct Ha; subst; reflexivity).
  rewrite E. clear E Ha a. unfold cond_bytes. fold (netw colon).
  destruct (0 <=? m)%Z eqn:E0; cbn [andb].
  2:{ replace (m <? 0)%Z with true by lia. reflexivity. }
  replace (m <? 0)%Z with false by lia.
  destruct (m <=? 8 * netw colon)%Z eqn:E1; cbn [andb].
  2:{ replace (m >? 8 * netw colon)%Z with true by lia. reflexivity. }
  replace (m >? 8 * netw colon)%Z with false by lia.
  destruct (Z.of_nat (length b) =? netw colon)%Z eqn:E2; cbn [negb]; [|reflexivity].
  assert (Hw : netw colon = 4%Z \/ netw colon = 16%Z) by (destruct colon; cbn; auto).
  rewrite !Z.quot_div_nonneg, Z.rem_mod_nonneg by lia.
  set (q := (m / 8)%Z). set (r := (m mod 8)%Z). set (s := ((m + 7) / 8)%Z).
  assert (Hq : (0 <= q)%Z /\ (0 <= r < 8)%Z /\ m = (8 * q + r)%Z /\
               ((r = 0 /\ s = q) \/ (r <> 0 /\ s = q + 1))%Z /\ (s <= netw colon)%Z).
  { subst q r s. lia. }
  destruct Hq as [Hq0 [Hr [Hm [Hs Hsw]]]].
  destruct (zero_loop_ok (Z.to_nat (netw colon - s)) (Z.to_nat s) b ltac:(lia)) as [b1 [Z1 [L1 F1]]].
  rewrite Z1. cbn [bind res_bind].
  destruct (q <? netw colon)%Z eqn:Eq.
  - destruct (upd_ok b1 (Z.to_nat q)
                (N.land (nth (Z.to_nat q) b1 0%N) (Z.to_N (shl8 255 (uint8 (8 - r))))) ltac:(lia))
      as [b2 [U [L2 [F2 [N2 _]]]]].
    rewrite idx_ok by lia. cbn [bind res_bind]. rewrite U. cbn [bind res_bind].
    exists b2. split; [reflexivity|]. unfold masked. fold q r. split; [lia|]. split.
    + rewrite F2. apply firstn_eq_le with (n := Z.to_nat s); [exact F1|lia].
    + intros Hr0. rewrite N2. unfold mbz. f_equal.
      apply firstn_eq_nth with (n := Z.to_nat s); [exact F1|lia].
  - exists b1. split; [reflexivity|]. unfold masked. fold q r. split; [lia|]. split.
    + apply firstn_eq_le with (n := Z.to_nat s); [exact F1|lia].
    + intros Hr0. exfalso. lia.
Qed.

Lemma cond_bytes_no_panic : forall a v, cond_bytes a v <> Panic.
Proof.
  intros a v.
  assert (Hnet : forall a b colon m, a = ASnet \/ a = ADnet -> cond_bytes a (VNet b colon m) <> Panic).
  { intros a0 b colon m Ha. pose proof (cond_bytes_net_spec a0 b colon m Ha) as S.
    destruct (net_value_ok b colon m); [destruct S as [v0 [E _]]|]; congruence. }
  destruct a; destruct v; try (cbn; discriminate); try (apply Hnet; auto).
  - cbn. destruct (n <? 65536)%N; discriminate.
  - cbn. destruct (n <? 256)%N; discriminate.
Qed.

(* ------------------------------------------------------------------ network match = bit prefix *)
Lemma ipw_inj : forall a b, ipw a = ipw b -> a = b.
Proof. intros [|] [|]; cbn; intro H; congruence. Qed.

Lemma net_match_other_family : forall ip v i part,
  length ip <> length v -> net_match ip v i part = Ok false.
Proof.
  intros ip v i part H. unfold net_match.
  destruct (length ip =? length v)%nat eqn:E; [lia|reflexivity].
Qed.

Lemma net_match_part : forall ip b v i r fv4 nv4,
  length ip = ipw fv4 -> length b = ipw nv4 -> length v = length b ->
  forallb byte_ok ip = true -> forallb byte_ok b = true ->
  (i < length b)%nat -> (1 <= r <= 7)%Z ->
  firstn i v = firstn i b -> nth i v 0%N = N.land (nth i b 0%N) (mbz r) ->
  net_match ip v i (Some (mbz r)) = Ok (in_net fv4 ip nv4 b (8 * i + Z.to_nat r)).
Proof.
  intros ip b v i r fv4 nv4 Hip Hb Hv Bip Bb Hi Hr Fv Nv. unfold in_net.
  destruct (Bool.eqb fv4 nv4) eqn:Ef; cbn [andb].
  2:{ apply net_match_other_family. intro E. rewrite Hip, Hv, Hb in E. apply ipw_inj in E.
      subst. rewrite eqb_reflx in Ef. discriminate. }
  apply eqb_prop in Ef. subst nv4.
  unfold net_match. replace (length ip =? length v)%nat with true by lia. cbn [negb].
  rewrite !slice_to_ok by lia. cbn [bind res_bind].
  rewrite !firstn_addr_bits by lia.
  rewrite bits_eqb_app by (rewrite !addr_bits_len, !firstn_length; lia).
  rewrite addr_bits_eqb; [| apply forallb_firstn; assumption | apply forallb_firstn; assumption
                          | rewrite !firstn_length; lia].
  rewrite Fv. destruct (bytes_eqb (firstn i ip) (firstn i b)); cbn [negb andb]; [|reflexivity].
  rewrite !idx_ok by lia. cbn [bind res_bind]. rewrite Nv. f_equal.
  apply mask_prefix; [lia | apply forallb_nth; assumption | apply forallb_nth; assumption].
Qed.

Lemma net_match_whole : forall ip b v i fv4 nv4,
  length ip = ipw fv4 -> length b = ipw nv4 -> length v = length b ->
  forallb byte_ok ip = true -> forallb byte_ok b = true ->
  (i <= length b)%nat ->
  firstn i v = firstn i b ->
  net_match ip v i None = Ok (in_net fv4 ip nv4 b (8 * i)).
Proof.
  intros ip b v i fv4 nv4 Hip Hb Hv Bip Bb Hi Fv. unfold in_net.
  destruct (Bool.eqb fv4 nv4) eqn:Ef; cbn [andb].
  2:{ apply net_match_other_family. intro E. rewrite Hip, Hv, Hb in E. apply ipw_inj in E.
      subst. rewrite eqb_reflx in Ef. discriminate. }
  apply eqb_prop in Ef. subst nv4.
  unfold net_match. replace (length ip =? length v)%nat with true by lia. cbn [negb].
  rewrite !slice_to_ok by lia. cbn [bind res_bind].
  rewrite !firstn_addr_bits_whole by lia.
  rewrite addr_bits_eqb; [| apply forallb_firstn; assumption | apply forallb_firstn; assumption
                          | rewrite !firstn_length; lia].
  rewrite Fv. destruct (bytes_eqb (firstn i ip) (firstn i b)); reflexivity.
Qed.

(* ------------------------------------------------------------------ leaves: eval = sem *)
Definition addr_attr (dst : bool) : attr := if dst then ADip else ASip.
Definition net_attr (dst : bool) : attr := if dst then ADnet else ASnet.

Lemma addr_leaf_correct : forall dst c b v4 f il,
  wf_value (VIP b v4) = true -> wf_flow f = true ->
  instr_addr dst c b = Ok il ->
  eval_leaf il (key_of f) = Ok (sem_addr (addr_attr dst) c (VIP b v4) f, key_of f).
Proof.
  intros dst c b v4 f il Wv Wf H.
  destruct (wf_flow_parts f Wf) as [Hs [Hd _]].
  cbn [wf_value] in Wv. apply andb_prop in Wv. destruct Wv as [Lb _].
  assert (E : forall ip, length ip = ipw (f_v4 f) ->
              bytes_eqb ip b = addr_is (f_v4 f) ip v4 b).
  { intros ip Lip. unfold addr_is. destruct (Bool.eqb (f_v4 f) v4) eqn:Ef; [reflexivity|].
    cbn [andb]. destruct (bytes_eqb ip b) eqn:Eb; [|reflexivity].
    apply bytes_eqb_len in Eb. rewrite Lip in Eb.
    assert (ipw (f_v4 f) = ipw v4) by lia. apply ipw_inj in H0. rewrite H0, eqb_reflx in Ef.
    discriminate. }
  unfold instr_addr in H.
  destruct c; try discriminate; injection H as <-; unfold eval_leaf;
    rewrite (get_ip_key_of dst f Wf); cbn [bind res_bind];
    rewrite ?xorb_false_l, ?xorb_true_l;
    destruct dst; cbn [addr_attr sem_addr sem_eq]; rewrite E by assumption; reflexivity.
Qed.

Lemma to_nat_split : forall m, (0 <= m)%Z ->
  Z.to_nat m = (8 * Z.to_nat (m / 8) + Z.to_nat (m mod 8))%nat.
Proof. intros m H. lia. Qed.

Lemma net_leaf_correct : forall dst c b colon m v m' f il,
  wf_value (VNet b colon m) = true -> wf_flow f = true ->
  cond_bytes (net_attr dst) (VNet b colon m) = Ok (v, m') ->
  instr_net dst c v m' = Ok il ->
  eval_leaf il (key_of f) = Ok (sem_addr (net_attr dst) c (VNet b colon m) f, key_of f).
Proof.
  intros dst c b colon m v m' f il Wv Wf Hc Hi.
  destruct (wf_flow_parts f Wf) as [Hs [Hd [Bs [Bd _]]]].
  cbn [wf_value] in Wv.
  pose proof (cond_bytes_net_spec (net_attr dst) b colon m ltac:(destruct dst; cbn; auto)) as S.
  destruct (net_value_ok b colon m) eqn:Ok1; [|congruence].
  destruct S as [v0 [E0 [Lv [Fv Nv]]]]. rewrite E0 in Hc. injection Hc as <- <-.
  unfold net_value_ok in Ok1. rewrite !andb_true_iff in Ok1. destruct Ok1 as [[M0 M1] Lb].
  assert (Lb' : length b = ipw (negb colon)) by (destruct colon; cbn in *; lia).
  set (ip := if dst then f_dip f else f_sip f).
  assert (Lip : length ip = ipw (f_v4 f)) by (subst ip; destruct dst; assumption).
  assert (Bip : forallb byte_ok ip = true) by (subst ip; destruct dst; assumption).
  assert (Hsem : forall cc, sem_addr (net_attr dst) cc (VNet b colon m) f =
            match cc with
            | Eq => in_net (f_v4 f) ip (negb colon) b (Z.to_nat m)
            | Ne => negb (in_net (f_v4 f) ip (negb colon) b (Z.to_nat m))
            | _ => false end).
  { intros cc. subst ip. destruct dst; destruct cc; reflexivity. }
  unfold instr_net in Hi. rewrite Z.quot_div_nonneg, Z.rem_mod_nonneg in Hi by lia.
  assert (Hr : (0 <= m mod 8 < 8)%Z) by lia.
  assert (Hu : uint8 (8 - m mod 8) = (8 - m mod 8)%Z) by (unfold uint8; apply Z.mod_small; lia).
  rewrite !Hu in Hi.
  destruct (8 - m mod 8 =? 8)%Z eqn:E8; cbn [negb] in Hi.
  - (* whole bytes *)
    assert (R0 : (m mod 8 = 0)%Z) by lia.
    assert (P : Z.to_nat m = (8 * Z.to_nat (m / 8))%nat) by lia.
    assert (NM : net_match ip v0 (Z.to_nat (m / 8)) None =
                 Ok (in_net (f_v4 f) ip (negb colon) b (Z.to_nat m))).
    { rewrite P. apply net_match_whole; auto. destruct colon; cbn in *; lia. }
    destruct c; try discriminate; injection Hi as <-; unfold eval_leaf;
      rewrite (get_ip_key_of dst f Wf); fold ip; cbn [bind res_bind]; rewrite NM;
      cbn [bind res_bind]; rewrite Hsem, ?xorb_false_l, ?xorb_true_l; reflexivity.
  - (* partial byte *)
    assert (R0 : (1 <= m mod 8 <= 7)%Z) by lia.
    assert (MB : Z.to_N (shl8 255 (8 - m mod 8)) = mbz (m mod 8)) by (unfold mbz; rewrite Hu; reflexivity).
    rewrite MB in Hi.
    assert (NM : net_match ip v0 (Z.to_nat (m / 8)) (Some (mbz (m mod 8))) =
                 Ok (in_net (f_v4 f) ip (negb colon) b (Z.to_nat m))).
    { rewrite (to_nat_split m) by lia. apply net_match_part; auto.
      - destruct colon; cbn in *; lia.
      - apply Nv. lia. }
    destruct c; try discriminate; injection Hi as <-; unfold eval_leaf;
      rewrite (get_ip_key_of dst f Wf); fold ip; cbn [bind res_bind]; rewrite NM;
      cbn [bind res_bind]; rewrite Hsem, ?xorb_false_l, ?xorb_true_l; reflexivity.
Qed.

Lemma leaf_correct : forall a c v f il,
  wf_value v = true -> wf_flow f = true ->
  instrument_leaf a c v = Ok il ->
  eval_leaf il (key_of f) = Ok (sem_leaf a c v f, key_of f).
Proof.
  intros a c v f il Wv Wf H. unfold instrument_leaf in H.
  destruct (cond_bytes a v) as [[val nm]| |] eqn:Ec; cbn [bind res_bind] in H; try discriminate.
  destruct a; try (cbn in Ec; discriminate).
  - (* sip *) destruct v; try (cbn in Ec; discriminate). cbn in Ec. injection Ec as <- <-.
    exact (addr_leaf_correct false c b isv4 f il Wv Wf H).
  - (* dip *) destruct v; try (cbn in Ec; discriminate). cbn in Ec. injection Ec as <- <-.
    exact (addr_leaf_correct true c b isv4 f il Wv Wf H).
  - (* snet *) destruct v; try (cbn in Ec; discriminate).
    exact (net_leaf_correct false c b hasColon mask val nm f il Wv Wf Ec H).
  - (* dnet *) destruct v; try (cbn in Ec; discriminate).
    exact (net_leaf_correct true c b hasColon mask val nm f il Wv Wf Ec H).
  - (* dport *) destruct v; try (cbn in Ec; discriminate). cbn [cond_bytes] in Ec.
    destruct (n <? 65536)%N; [|discriminate]. injection Ec as <- <-. injection H as <-.
    unfold eval_leaf. rewrite (get_dport_key_of f Wf). cbn [bind res_bind].
    change (slice_to 2 [(n / 256)%N; (n mod 256)%N]) with (Ok [(n / 256)%N; (n mod 256)%N]).
    cbn [bind res_bind]. rewrite compare_be16, cmp_holds_num. reflexivity.
  - (* proto *) destruct v; try (cbn in Ec; discriminate). cbn [cond_bytes] in Ec.
    destruct (n <? 256)%N; [|discriminate]. injection Ec as <- <-. injection H as <-.
    unfold eval_leaf. rewrite (get_proto_key_of f Wf). cbn [bind res_bind idx nth_error].
    rewrite cmp_holds_num. reflexivity.
Qed.

(* ------------------------------------------------------------------ leaves: no panic, no write *)
Definition ileaf_ok (l : ileaf) : bool :=
  match l with
  | IAddr _ _ _ => true
  | INetPart _ _ v i _ => (i <? length v)%nat
  | INetWhole _ _ v i => (i <=? length v)%nat
  | IDport _ v => (2 <=? length v)%nat
  | IProto _ v => (1 <=? length v)%nat
  end.

Lemma instrument_leaf_ok : forall a c v il, instrument_leaf a c v = Ok il -> ileaf_ok il = true.
Proof.
  intros a c v il H. unfold instrument_leaf in H.
  destruct (cond_bytes a v) as [[val nm]| |] eqn:Ec; cbn [bind res_bind] in H; try discriminate.
  assert (Hnet : forall dst, a = net_attr dst -> instr_net dst c val nm = Ok il -> ileaf_ok il = true).
  { intros dst Ha Hi. subst a. destruct v; try (destruct dst; cbn in Ec; discriminate).
    pose proof (cond_bytes_net_spec (net_attr dst) b hasColon mask ltac:(destruct dst; cbn; auto)) as S.
    destruct (net_value_ok b hasColon mask) eqn:Ok1; [|congruence].
    destruct S as [v0 [E0 [Lv _]]]. rewrite E0 in Ec. injection Ec as -> ->.
    unfold net_value_ok in Ok1. rewrite !andb_true_iff in Ok1. destruct Ok1 as [[M0 M1] Lb].
    assert (Hw : netw hasColon = 4%Z \/ netw hasColon = 16%Z) by (destruct hasColon; cbn; auto).
    unfold instr_net in Hi. rewrite Z.quot_div_nonneg, Z.rem_mod_nonneg in Hi by lia.
    unfold uint8 in Hi. rewrite (Z.mod_small (8 - nm mod 8) 256) in Hi by lia.
    destruct (8 - nm mod 8 =? 8)%Z eqn:E8; cbn [negb] in Hi;
      destruct c; try discriminate; injection Hi as <-; cbn [ileaf_ok]; lia. }
  destruct a; try (cbn in Ec; discriminate).
  - unfold instr_addr in H. destruct c; try discriminate; injection H as <-; reflexivity.
  - unfold instr_addr in H. destruct c; try discriminate; injection H as <-; reflexivity.
  - apply (Hnet false); auto.
  - apply (Hnet true); auto.
  - destruct v; try (cbn in Ec; discriminate). cbn [cond_bytes] in Ec.
    destruct (n <? 65536)%N; [|discriminate]. injection Ec as <- <-. injection H as <-. reflexivity.
  - destruct v; try (cbn in Ec; discriminate). cbn [cond_bytes] in Ec.
    destruct (n <? 256)%N; [|discriminate]. injection Ec as <- <-. injection H as <-. reflexivity.
Qed.

Lemma instrument_leaf_no_panic : forall a c v, instrument_leaf a c v <> Panic.
Proof.
  intros a c v. unfold instrument_leaf. pose proof (cond_bytes_no_panic a v) as Hp.
  destruct (cond_bytes a v) as [[val nm]| |]; cbn [bind res_bind]; try congruence.
  assert (Hn : forall dst, instr_net dst c val nm <> Panic).
  { intros dst. unfold instr_net. destruct (negb (uint8 (8 - Z.rem nm 8) =? 8)%Z); destruct c; discriminate. }
  destruct a; try discriminate; try apply Hn; unfold instr_addr; destruct c; discriminate.
Qed.

Definition wf_key (k : key) : Prop := length k = 11%nat \/ length k = 35%nat.

Lemma key_v4_total : forall k, wf_key k -> exists v4, key_v4 k = Ok v4.
Proof.
  intros k [H|H]; [exists true | exists false]; unfold key_v4; rewrite H; reflexivity.
Qed.

Lemma net_match_total : forall ip v i part,
  (match part with Some _ => i < length v | None => i <= length v end)%nat ->
  exists m, net_match ip v i part = Ok m.
Proof.
  intros ip v i part H. unfold net_match.
  destruct (length ip =? length v)%nat eqn:E; cbn [negb]; [|eauto].
  assert (i <= length v)%nat by (destruct part; lia).
  rewrite !slice_to_ok by lia. cbn [bind res_bind].
  destruct (bytes_eqb (firstn i ip) (firstn i v)); cbn [negb]; [|eauto].
  destruct part; [|eauto]. rewrite !idx_ok by lia. cbn [bind res_bind]. eauto.
Qed.

Lemma eval_leaf_total : forall il k, ileaf_ok il = true -> wf_key k ->
  exists b, eval_leaf il k = Ok (b, k).
Proof.
  intros il k Hok Hk. destruct (key_v4_total k Hk) as [v4 Ev].
  assert (Hip : forall dst, exists ip, get_ip dst k = Ok ip).
  { intros [|]; unfold get_ip, get_dip, get_sip; rewrite Ev; cbn [bind res_bind]; eauto. }
  destruct il; cbn [ileaf_ok] in Hok; unfold eval_leaf.
  - destruct (Hip dst) as [ip ->]. cbn [bind res_bind]. eauto.
  - destruct (Hip dst) as [ip ->]. cbn [bind res_bind].
    destruct (net_match_total ip v index (Some mb) ltac:(cbn; lia)) as [m ->]. cbn [bind res_bind]. eauto.
  - destruct (Hip dst) as [ip ->]. cbn [bind res_bind].
    destruct (net_match_total ip v index None ltac:(cbn; lia)) as [m ->]. cbn [bind res_bind]. eauto.
  - unfold get_dport. rewrite Ev. cbn [bind res_bind]. rewrite slice_to_ok by lia.
    cbn [bind res_bind]. eauto.
  - unfold get_proto. rewrite Ev. cbn [bind res_bind].
    rewrite idx_ok by (destruct Hk as [Hk|Hk]; unfold key_v4 in Ev; rewrite Hk in Ev;
                       cbn in Ev; injection Ev as <-; cbn; lia).
    cbn [bind res_bind]. rewrite idx_ok by lia. cbn [bind res_bind]. eauto.
Qed.

Ltac inv_bind H :=
  match type of H with
  | bind ?r _ = Ok _ => let E := fresh "E" in destruct r eqn:E; cbn [bind res_bind] in H; try discriminate
  end.

Lemma eval_leaf_pure : forall il k b k', eval_leaf il k = Ok (b, k') -> k' = k.
Proof.
  intros il k b k' H. destruct il; unfold eval_leaf in H;
    repeat inv_bind H; injection H as _ <-; reflexivity.
Qed.
