(* C09 proofs, part 3: the Boolean structure (instrument / Evaluate), negation normal form with
   comparator flipping, desugaring, and the theorems about whole conditions. *)
From Coq Require Import List ZArith NArith Bool Lia ZifyBool ZifyNat ZifyN.
From GoProbe.Base Require Import CorrLib.
From GoProbe.C09 Require Import Model ProofsSweep ProofsBytes ProofsLeaf.
Import ListNotations.

Lemma bind_inv : forall {A B} (r : res A) (f : A -> res B) y,
  bind r f = Ok y -> exists a, r = Ok a /\ f a = Ok y.
Proof. intros A B r f y H. destruct r; cbn in H; try discriminate. eauto. Qed.

(* like ProofsLeaf.inv_bind but leaves the other hypotheses (induction hypotheses) alone *)
Ltac inv_bind H ::=
  let a := fresh "a" in let E := fresh "E" in
  apply bind_inv in H; destruct H as [a [E H]].

(* ------------------------------------------------------------------ instrument + Evaluate *)
Lemma instrument_correct : forall c ic f, wf_cond c = true -> wf_flow f = true ->
  instrument c = Ok ic -> eval ic (key_of f) = Ok (sem c f, key_of f).
Proof.
  induction c as [a cm v|x IH|l IHl r IHr|l IHl r IHr]; intros ic f Wc Wf H; cbn [instrument] in H.
  - inv_bind H. injection H as <-. cbn [eval sem]. eapply leaf_correct; eauto.
  - inv_bind H. injection H as <-. cbn [eval sem wf_cond] in *.
    rewrite (IH _ f Wc Wf E). reflexivity.
  - cbn [wf_cond] in Wc. apply andb_prop in Wc. destruct Wc as [Wl Wr].
    inv_bind H. inv_bind H. injection H as <-. cbn [eval sem].
    rewrite (IHl _ f Wl Wf E). cbn [bind res_bind fst snd].
    destruct (sem l f); [rewrite (IHr _ f Wr Wf E0)|]; reflexivity.
  - cbn [wf_cond] in Wc. apply andb_prop in Wc. destruct Wc as [Wl Wr].
    inv_bind H. inv_bind H. injection H as <-. cbn [eval sem].
    rewrite (IHl _ f Wl Wf E). cbn [bind res_bind fst snd].
    destruct (sem l f); [|rewrite (IHr _ f Wr Wf E0)]; reflexivity.
Qed.

(* ------------------------------------------------------------------ comparator flipping *)
Lemma instr_net_cmp : forall dst c v m il, instr_net dst c v m = Ok il -> c = Eq \/ c = Ne.
Proof.
  intros dst c v m il H. unfold instr_net in H.
  destruct (negb (uint8 (8 - Z.rem m 8) =? 8)%Z); destruct c; try discriminate; auto.
Qed.

Lemma instr_addr_cmp : forall dst c v il, instr_addr dst c v = Ok il -> c = Eq \/ c = Ne.
Proof. intros dst c v il H. unfold instr_addr in H. destruct c; try discriminate; auto. Qed.

Lemma flip_sem_leaf : forall a c v f il, instrument_leaf a (flip c) v = Ok il ->
  sem_leaf a (flip c) v f = negb (sem_leaf a c v f).
Proof.
  intros a c v f il H. unfold instrument_leaf in H.
  destruct (cond_bytes a v) as [[val nm]| |] eqn:Ec; cbn [bind res_bind] in H; try discriminate.
  assert (Haddr : (flip c = Eq \/ flip c = Ne) -> forall a0,
            sem_addr a0 (flip c) v f = negb (sem_addr a0 c v f)).
  { intros Hc a0. destruct c; cbn [flip] in *; destruct Hc as [Hc|Hc]; try discriminate;
    cbn [sem_addr]; rewrite ?negb_involutive; reflexivity. }
  destruct a; try (cbn in Ec; discriminate); cbn [sem_leaf].
  - apply Haddr. eapply instr_addr_cmp; eauto.
  - apply Haddr. eapply instr_addr_cmp; eauto.
  - apply Haddr. eapply instr_net_cmp; eauto.
  - apply Haddr. eapply instr_net_cmp; eauto.
  - destruct v; try (cbn in Ec; discriminate). cbn [sem_port]. apply num_cmp_flip.
  - destruct v; try (cbn in Ec; discriminate). cbn [sem_proto]. apply num_cmp_flip.
Qed.

(* ------------------------------------------------------------------ negation normal form *)
Lemma nnf_sem : forall c neg d t it f, nnf_h c neg d = Ok t -> instrument t = Ok it ->
  sem t f = xorb neg (sem c f).
Proof.
  induction c as [a cm v|x IH|l IHl r IHr|l IHl r IHr]; intros neg d t it f H Hi;
    cbn [nnf_h] in H; destruct (max_depth <? d)%N; try discriminate.
  - injection H as <-. cbn [instrument] in Hi. inv_bind Hi. cbn [sem].
    destruct neg; [|rewrite xorb_false_l; reflexivity].
    rewrite xorb_true_l. eapply flip_sem_leaf; eauto.
  - cbn [sem]. rewrite (IH _ _ _ _ f H Hi). destruct neg, (sem x f); reflexivity.
  - inv_bind H. inv_bind H. injection H as <-.
    destruct neg; cbn [instrument] in Hi; inv_bind Hi; inv_bind Hi; cbn [sem];
      rewrite (IHl _ _ _ _ f E E1), (IHr _ _ _ _ f E0 E2);
      destruct (sem l f), (sem r f); reflexivity.
  - inv_bind H. inv_bind H. injection H as <-.
    destruct neg; cbn [instrument] in Hi; inv_bind Hi; inv_bind Hi; cbn [sem];
      rewrite (IHl _ _ _ _ f E E1), (IHr _ _ _ _ f E0 E2);
      destruct (sem l f), (sem r f); reflexivity.
Qed.

Lemma nnf_wf : forall c neg d t, nnf_h c neg d = Ok t -> wf_cond c = true -> wf_cond t = true.
Proof.
  induction c as [a cm v|x IH|l IHl r IHr|l IHl r IHr]; intros neg d t H W;
    cbn [nnf_h] in H; destruct (max_depth <? d)%N; try discriminate.
  - injection H as <-. exact W.
  - eapply IH; eauto.
  - cbn [wf_cond] in W. apply andb_prop in W. destruct W as [Wl Wr].
    inv_bind H. inv_bind H. injection H as <-.
    destruct neg; cbn [wf_cond]; rewrite (IHl _ _ _ E Wl), (IHr _ _ _ E0 Wr); reflexivity.
  - cbn [wf_cond] in W. apply andb_prop in W. destruct W as [Wl Wr].
    inv_bind H. inv_bind H. injection H as <-.
    destruct neg; cbn [wf_cond]; rewrite (IHl _ _ _ E Wl), (IHr _ _ _ E0 Wr); reflexivity.
Qed.

(* ------------------------------------------------------------------ desugaring *)
Lemma desugar_leaf_sem : forall a c v d f, desugar_leaf a c v = Ok d -> sem d f = sem_leaf a c v f.
Proof.
  intros a c v d f H. destruct a; cbn [desugar_leaf] in H;
    try (injection H as <-; reflexivity);
    unfold desugar_pair in H; destruct c; try discriminate; injection H as <-; reflexivity.
Qed.

Lemma desugar_leaf_wf : forall a c v d, desugar_leaf a c v = Ok d -> wf_value v = true -> wf_cond d = true.
Proof.
  intros a c v d H W. destruct a; cbn [desugar_leaf] in H;
    try (injection H as <-; exact W);
    unfold desugar_pair in H; destruct c; try discriminate; injection H as <-;
    cbn [wf_cond]; rewrite W; reflexivity.
Qed.

Lemma desugar_sem : forall c d f, desugar c = Ok d -> sem d f = sem c f.
Proof.
  induction c as [a cm v|x IH|l IHl r IHr|l IHl r IHr]; intros d f H; cbn [desugar] in H.
  - cbn [sem]. eapply desugar_leaf_sem; eauto.
  - inv_bind H. injection H as <-. cbn [sem]. rewrite (IH _ f E). reflexivity.
  - inv_bind H. inv_bind H. injection H as <-. cbn [sem]. rewrite (IHl _ f E), (IHr _ f E0). reflexivity.
  - inv_bind H. inv_bind H. injection H as <-. cbn [sem]. rewrite (IHl _ f E), (IHr _ f E0). reflexivity.
Qed.

Lemma desugar_wf : forall c d, desugar c = Ok d -> wf_cond c = true -> wf_cond d = true.
Proof.
  induction c as [a cm v|x IH|l IHl r IHr|l IHl r IHr]; intros d H W; cbn [desugar] in H.
  - eapply desugar_leaf_wf; eauto.
  - inv_bind H. injection H as <-. cbn [wf_cond] in *. eauto.
  - cbn [wf_cond] in W. apply andb_prop in W. destruct W as [Wl Wr].
    inv_bind H. inv_bind H. injection H as <-. cbn [wf_cond]. rewrite (IHl _ E Wl), (IHr _ E0 Wr). reflexivity.
  - cbn [wf_cond] in W. apply andb_prop in W. destruct W as [Wl Wr].
    inv_bind H. inv_bind H. injection H as <-. cbn [wf_cond]. rewrite (IHl _ E Wl), (IHr _ E0 Wr). reflexivity.
Qed.

(* ------------------------------------------------------------------ the whole pipeline *)
Lemma prepare_correct : forall c ic f, wf_cond c = true -> wf_flow f = true ->
  prepare c = Ok ic -> eval ic (key_of f) = Ok (sem c f, key_of f).
Proof.
  intros c ic f Wc Wf H. unfold prepare in H. inv_bind H. inv_bind H. unfold nnf in E0.
  rewrite (instrument_correct _ _ f (nnf_wf _ _ _ _ E0 (desugar_wf _ _ E Wc)) Wf H).
  rewrite (nnf_sem _ _ _ _ _ f E0 H), xorb_false_l, (desugar_sem _ _ f E). reflexivity.
Qed.

(* ------------------------------------------------------------------ purity *)
Lemma eval_pure : forall ic k b k', eval ic k = Ok (b, k') -> k' = k.
Proof.
  induction ic as [l|x IH|l IHl r IHr|l IHl r IHr]; intros k b k' H; cbn [eval] in H.
  - eapply eval_leaf_pure; eauto.
  - inv_bind H. destruct a as [bx kx]. injection H as _ <-. cbn [snd]. eapply IH; eauto.
  - inv_bind H. destruct a as [bl kl]. cbn [fst snd] in H. apply IHl in E. subst kl.
    destruct bl; [eapply IHr; eauto | injection H as _ <-; reflexivity].
  - inv_bind H. destruct a as [bl kl]. cbn [fst snd] in H. apply IHl in E. subst kl.
    destruct bl; [injection H as _ <-; reflexivity | eapply IHr; eauto].
Qed.

(* ------------------------------------------------------------------ no panic *)
Fixpoint icond_ok (c : icond) : bool :=
  match c with
  | ILeaf l => ileaf_ok l
  | INot x => icond_ok x
  | IAnd l r | IOr l r => icond_ok l && icond_ok r
  end.

Lemma instrument_ok : forall c ic, instrument c = Ok ic -> icond_ok ic = true.
Proof.
  induction c as [a cm v|x IH|l IHl r IHr|l IHl r IHr]; intros ic H; cbn [instrument] in H.
  - inv_bind H. injection H as <-. cbn [icond_ok]. eapply instrument_leaf_ok; eauto.
  - inv_bind H. injection H as <-. cbn [icond_ok]. eauto.
  - inv_bind H. inv_bind H. injection H as <-. cbn [icond_ok]. rewrite (IHl _ E), (IHr _ E0). reflexivity.
  - inv_bind H. inv_bind H. injection H as <-. cbn [icond_ok]. rewrite (IHl _ E), (IHr _ E0). reflexivity.
Qed.

Lemma eval_total : forall ic k, icond_ok ic = true -> wf_key k -> exists b, eval ic k = Ok (b, k).
Proof.
  induction ic as [l|x IH|l IHl r IHr|l IHl r IHr]; intros k Hok Hk; cbn [icond_ok] in Hok; cbn [eval].
  - apply eval_leaf_total; assumption.
  - destruct (IH k Hok Hk) as [b ->]. cbn [bind res_bind fst snd]. eauto.
  - apply andb_prop in Hok. destruct Hok as [Hl Hr].
    destruct (IHl k Hl Hk) as [bl ->]. cbn [bind res_bind fst snd].
    destruct bl; [apply IHr; assumption | eauto].
  - apply andb_prop in Hok. destruct Hok as [Hl Hr].
    destruct (IHl k Hl Hk) as [bl ->]. cbn [bind res_bind fst snd].
    destruct bl; [eauto | apply IHr; assumption].
Qed.

Lemma prepare_ok : forall c ic, prepare c = Ok ic -> icond_ok ic = true.
Proof.
  intros c ic H. unfold prepare in H. inv_bind H. inv_bind H. eapply instrument_ok; eauto.
Qed.

Lemma eval_prepared_total : forall c ic k, prepare c = Ok ic -> wf_key k ->
  exists b, eval ic k = Ok (b, k).
Proof. intros c ic k H Hk. apply eval_total; [eapply prepare_ok; eauto | exact Hk]. Qed.

Lemma eval_no_panic : forall c ic k, prepare c = Ok ic -> wf_key k -> eval ic k <> Panic.
Proof.
  intros c ic k H Hk. destruct (eval_prepared_total c ic k H Hk) as [b E]. congruence.
Qed.

Lemma desugar_no_panic : forall c, desugar c <> Panic.
Proof.
  induction c as [a cm v|x IH|l IHl r IHr|l IHl r IHr]; cbn [desugar].
  - destruct a; cbn [desugar_leaf]; try discriminate; unfold desugar_pair; destruct cm; discriminate.
  - destruct (desugar x); cbn; congruence.
  - destruct (desugar l); cbn; try congruence. destruct (desugar r); cbn; congruence.
  - destruct (desugar l); cbn; try congruence. destruct (desugar r); cbn; congruence.
Qed.

Lemma nnf_no_panic : forall c neg d, nnf_h c neg d <> Panic.
Proof.
  induction c as [a cm v|x IH|l IHl r IHr|l IHl r IHr]; intros neg d; cbn [nnf_h];
    destruct (max_depth <? d)%N; try discriminate.
  - apply IH.
  - specialize (IHl neg (N.succ d)). specialize (IHr neg (N.succ d)).
    destruct (nnf_h l neg (N.succ d)); cbn; try congruence.
    destruct (nnf_h r neg (N.succ d)); cbn; congruence.
  - specialize (IHl neg (N.succ d)). specialize (IHr neg (N.succ d)).
    destruct (nnf_h l neg (N.succ d)); cbn; try congruence.
    destruct (nnf_h r neg (N.succ d)); cbn; congruence.
Qed.

Lemma instrument_no_panic : forall c, instrument c <> Panic.
Proof.
  induction c as [a cm v|x IH|l IHl r IHr|l IHl r IHr]; cbn [instrument].
  - pose proof (instrument_leaf_no_panic a cm v). destruct (instrument_leaf a cm v); cbn; congruence.
  - destruct (instrument x); cbn; congruence.
  - destruct (instrument l); cbn; try congruence. destruct (instrument r); cbn; congruence.
  - destruct (instrument l); cbn; try congruence. destruct (instrument r); cbn; congruence.
Qed.

Lemma prepare_no_panic : forall c, prepare c <> Panic.
Proof.
  intros c. unfold prepare. pose proof (desugar_no_panic c).
  destruct (desugar c) as [d| |]; cbn; try congruence.
  pose proof (nnf_no_panic d false 0%N). unfold nnf.
  destruct (nnf_h d false 0%N) as [t| |]; cbn; try congruence.
  apply instrument_no_panic.
Qed.

(* ------------------------------------------------------------------ malformed values are rejected *)
Lemma instrument_leaf_valid : forall a c v il, instrument_leaf a c v = Ok il -> valid_leaf a c v = true.
Proof.
  intros a c v il H. unfold instrument_leaf in H.
  destruct (cond_bytes a v) as [[val nm]| |] eqn:Ec; cbn [bind res_bind] in H; try discriminate.
  assert (Hnet : forall dst, a = net_attr dst -> instr_net dst c val nm = Ok il ->
                 valid_leaf (net_attr dst) c v = true).
  { intros dst Ha Hi. subst a. destruct v; try (destruct dst; cbn in Ec; discriminate).
    pose proof (cond_bytes_net_spec (net_attr dst) b hasColon mask ltac:(destruct dst; cbn; auto)) as S.
    destruct (net_value_ok b hasColon mask) eqn:Ok1; [|congruence].
    apply instr_net_cmp in Hi.
    assert (eq_or_ne c = true) by (destruct Hi; subst; reflexivity).
    destruct dst; cbn [net_attr valid_leaf]; rewrite H0; exact Ok1. }
  destruct a; try (cbn in Ec; discriminate).
  - apply instr_addr_cmp in H. destruct v; try (cbn in Ec; discriminate).
    destruct H; subst; reflexivity.
  - apply instr_addr_cmp in H. destruct v; try (cbn in Ec; discriminate).
    destruct H; subst; reflexivity.
  - apply (Hnet false); auto.
  - apply (Hnet true); auto.
  - destruct v; try (cbn in Ec; discriminate). cbn [cond_bytes] in Ec. cbn [valid_leaf].
    destruct (n <? 65536)%N; [reflexivity|discriminate].
  - destruct v; try (cbn in Ec; discriminate). cbn [cond_bytes] in Ec. cbn [valid_leaf].
    destruct (n <? 256)%N; [reflexivity|discriminate].
Qed.

Lemma valid_leaf_flip : forall a c v, valid_leaf a (flip c) v = valid_leaf a c v.
Proof. intros a c v. destruct a, c; reflexivity. Qed.

Lemma instrument_valid : forall c ic, instrument c = Ok ic -> valid_leaves c = true.
Proof.
  induction c as [a cm v|x IH|l IHl r IHr|l IHl r IHr]; intros ic H; cbn [instrument] in H;
    cbn [valid_leaves].
  - inv_bind H. eapply instrument_leaf_valid; eauto.
  - inv_bind H. eauto.
  - inv_bind H. inv_bind H. rewrite (IHl _ E), (IHr _ E0). reflexivity.
  - inv_bind H. inv_bind H. rewrite (IHl _ E), (IHr _ E0). reflexivity.
Qed.

Lemma nnf_valid : forall c neg d t, nnf_h c neg d = Ok t -> valid_leaves t = valid_leaves c.
Proof.
  induction c as [a cm v|x IH|l IHl r IHr|l IHl r IHr]; intros neg d t H;
    cbn [nnf_h] in H; destruct (max_depth <? d)%N; try discriminate; cbn [valid_leaves].
  - injection H as <-. cbn [valid_leaves]. destruct neg; [apply valid_leaf_flip|reflexivity].
  - eapply IH; eauto.
  - inv_bind H. inv_bind H. injection H as <-.
    destruct neg; cbn [valid_leaves]; rewrite (IHl _ _ _ E), (IHr _ _ _ E0); reflexivity.
  - inv_bind H. inv_bind H. injection H as <-.
    destruct neg; cbn [valid_leaves]; rewrite (IHl _ _ _ E), (IHr _ _ _ E0); reflexivity.
Qed.

Lemma desugar_valid : forall c d, desugar c = Ok d -> valid_leaves d = valid_leaves c.
Proof.
  induction c as [a cm v|x IH|l IHl r IHr|l IHl r IHr]; intros d H; cbn [desugar] in H;
    cbn [valid_leaves].
  - destruct a; cbn [desugar_leaf] in H;
      try (injection H as <-; reflexivity);
      unfold desugar_pair in H; destruct cm; try discriminate; injection H as <-;
      cbn [valid_leaves valid_leaf eq_or_ne andb]; destruct v; try reflexivity;
      rewrite andb_diag; reflexivity.
  - inv_bind H. injection H as <-. cbn [valid_leaves]. eauto.
  - inv_bind H. inv_bind H. injection H as <-. cbn [valid_leaves]. rewrite (IHl _ E), (IHr _ E0). reflexivity.
  - inv_bind H. inv_bind H. injection H as <-. cbn [valid_leaves]. rewrite (IHl _ E), (IHr _ E0). reflexivity.
Qed.

Lemma prepare_valid : forall c ic, prepare c = Ok ic -> valid_leaves c = true.
Proof.
  intros c ic H. unfold prepare in H. inv_bind H. inv_bind H. unfold nnf in E0.
  rewrite <- (desugar_valid _ _ E), <- (nnf_valid _ _ _ _ E0). eapply instrument_valid; eauto.
Qed.

Lemma prepare_rejects : forall c, valid_leaves c = false -> prepare c = Err.
Proof.
  intros c H. pose proof (prepare_no_panic c) as Hp.
  destruct (prepare c) as [ic| |] eqn:E; [|reflexivity|congruence].
  apply prepare_valid in E. congruence.
Qed.

(* ------------------------------------------------------------------ family *)
Lemma sem_family : forall a v f fam, value_v4 v = Some fam -> fam <> f_v4 f ->
  is_addr_attr a = true -> sem_leaf a Eq v f = false /\ sem_leaf a Ne v f = true.
Proof.
  intros a v f fam Hv Hf Ha.
  assert (E : Bool.eqb (f_v4 f) fam = false).
  { destruct (f_v4 f), fam; try reflexivity; congruence. }
  destruct a; try discriminate; destruct v; cbn in Hv; try discriminate; injection Hv as <-;
    cbn [sem_leaf sem_addr sem_pair sem_eq]; unfold addr_is, in_net; rewrite ?E; cbn [andb orb negb];
    auto.
Qed.

Lemma family_correct : forall a v f fam ic, wf_value v = true -> wf_flow f = true ->
  is_addr_attr a = true -> value_v4 v = Some fam -> fam <> f_v4 f ->
  prepare (Leaf a Eq v) = Ok ic -> eval ic (key_of f) = Ok (false, key_of f).
Proof.
  intros a v f fam ic Wv Wf Ha Hv Hf H.
  rewrite (prepare_correct (Leaf a Eq v) ic f Wv Wf H). cbn [sem].
  destruct (sem_family a v f fam Hv Hf Ha) as [-> _]. reflexivity.
Qed.

(* ------------------------------------------------------------------ a != v is the complement of a = v *)
Lemma sem_ne_complement : forall a v f, valid_leaf a Eq v = true ->
  sem_leaf a Ne v f = negb (sem_leaf a Eq v f).
Proof.
  intros a v f H. destruct a; destruct v; cbn in H; try discriminate; reflexivity.
Qed.

Lemma ne_complement : forall a v f ic ic', wf_value v = true -> wf_flow f = true ->
  prepare (Leaf a Eq v) = Ok ic -> prepare (Leaf a Ne v) = Ok ic' ->
  exists b, eval ic (key_of f) = Ok (b, key_of f) /\ eval ic' (key_of f) = Ok (negb b, key_of f).
Proof.
  intros a v f ic ic' Wv Wf H H'.
  exists (sem (Leaf a Eq v) f). split.
  - apply prepare_correct; assumption.
  - rewrite (prepare_correct (Leaf a Ne v) ic' f Wv Wf H'). cbn [sem].
    rewrite sem_ne_complement; [reflexivity|]. apply prepare_valid in H. exact H.
Qed.
