(* C19 specification vocabulary: the definitions the theorems of Properties.v are stated with.
   Definitions only (Prop-valued ones included), no proofs. *)
From Coq Require Import List NArith Bool Arith.
From GoProbe.Base Require Import CorrLib.
From GoProbe.C19 Require Import Model.
Import ListNotations.
Open Scope N_scope.

(* the documented common service ports (comments of the commonPorts table), as port numbers *)
Definition documented_common : list (N * N) :=
  [ (6, 53); (6, 80); (6, 443); (6, 445); (6, 8080); (17, 53); (17, 443) ].
Definition is_documented_common (proto port : N) : bool :=
  existsb (fun e => (fst e =? proto) && (snd e =? port)) documented_common.

(* IPv4 fragment offset: low 13 bits of bytes 6..7 *)
Definition is_fragment_v4 (p : bytes) : bool :=
  negb (nth 9 p 0 =? ESP) && negb ((nth 6 p 0 mod 32 =? 0) && (nth 7 p 0 =? 0)).

(* bytes the parser needs for a protocol *)
Definition need_v4 (proto : N) : nat :=
  if proto =? TCP then 34 else if proto =? UDP then 24 else if proto =? ICMP then 21 else 20.
Definition need_v6 (proto : N) : nat :=
  if proto =? TCP then 54 else if proto =? UDP then 44 else if proto =? ICMPv6 then 41 else 40.

(* auxiliary byte: TCP flags, ICMP type, else 0 *)
Definition aux_spec (off : nat) (icmp : N) (p : bytes) (proto : N) : N :=
  if proto =? TCP then nth (off + 13) p 0 else if proto =? icmp then nth off p 0 else 0.

(* the documented port rule, on the two port bytes at [off, off+2) and [off+2, off+4):
   a side's port is dropped (zero) when the OTHER side's port is a common service port *)
Definition sport_spec (off : nat) (p : bytes) (proto : N) : bytes :=
  if has_ports proto && negb (common_port_b proto (nth (off + 2) p 0) (nth (off + 3) p 0))
  then sub p off (off + 2) else zero2.
Definition dport_spec (off : nat) (p : bytes) (proto : N) : bytes :=
  if has_ports proto && negb (common_port_b proto (nth off p 0) (nth (off + 1) p 0))
  then sub p (off + 2) (off + 4) else zero2.

(* q is a packet of the reverse direction of p's conversation: same length, protocol and
   fragment field, addresses swapped and - when the protocol has ports and they are present -
   ports swapped.  All other bytes (TCP flags, ICMP type, payload, TTL, ...) are unrelated. *)
Definition twin_v4 (p q : bytes) : Prop :=
  length q = length p /\ nth 9 q 0 = nth 9 p 0 /\ nth 6 q 0 = nth 6 p 0 /\ nth 7 q 0 = nth 7 p 0 /\
  sub q 12 16 = sub p 16 20 /\ sub q 16 20 = sub p 12 16 /\
  (has_ports (nth 9 p 0) = true -> (24 <= length p)%nat ->
   sub q 20 22 = sub p 22 24 /\ sub q 22 24 = sub p 20 22).

Definition twin_v6 (p q : bytes) : Prop :=
  length q = length p /\ nth 6 q 0 = nth 6 p 0 /\
  sub q 8 24 = sub p 24 40 /\ sub q 24 40 = sub p 8 24 /\
  (has_ports (nth 6 p 0) = true -> (44 <= length p)%nat ->
   sub q 40 42 = sub p 42 44 /\ sub q 42 44 = sub p 40 42).

(* parse results agree up to reversal of the key (aux bytes are direction specific) *)
Definition mirrored (rev : bytes -> bytes) (rp rq : res parsed) : Prop :=
  match rp, rq with
  | Ok (POk h _), Ok (POk h' _) => h' = rev h
  | Ok Fragment, Ok Fragment => True
  | Ok Truncated, Ok Truncated => True
  | _, _ => False
  end.

(* the fields of a hash h with address length a *)
Definition key_fields (a : nat) (h sip sp dip dp : bytes) (pr : N) : Prop :=
  length h = (2 * a + 5)%nat /\ k_sip a h = sip /\ k_sport a h = sp /\ k_dip a h = dip /\
  k_dport a h = dp /\ k_proto a h = pr.

(* what an accepted packet yields: addresses at [sip_at, sip_at+2a), protocol byte at proto_at,
   transport header at off *)
Definition fields_spec (a off : nat) (icmp : N) (sip_at proto_at : nat) (p h : bytes) (aux : N) : Prop :=
  let proto := nth proto_at p 0 in
  key_fields a h (sub p sip_at (sip_at + a)) (sport_spec off p proto)
             (sub p (sip_at + a) (sip_at + 2 * a)) (dport_spec off p proto) proto
  /\ aux = aux_spec off icmp p proto.


(* the canonical reverse-direction packet: address segments [s, s+a) / [s+a, s+2a) exchanged and,
   when present, the two port fields at s+2a exchanged; everything else unchanged *)
Definition swap_pkt (s a : nat) (p : bytes) : bytes :=
  let h := (s + 2 * a)%nat in
  sub p 0 s ++ sub p (s + a) h ++ sub p s (s + a) ++
  (if (h + 4 <=? length p)%nat then sub p (h + 2) (h + 4) ++ sub p h (h + 2) ++ skipn (h + 4) p
   else skipn h p).
