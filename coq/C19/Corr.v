(* C19 correspondence: case type, corr (model = observed) and holds (observed meets the spec).
   Executable only.  `holds` does not call the model's parse / reverse functions: it re-reads the
   packet with its own accessors (default-valued nth, port NUMBERS, the documented port list) and
   judges the observed result. *)
From Coq Require Import List NArith Bool Arith.
From GoProbe.Base Require Import CorrLib.
From GoProbe.C19 Require Import Model.
Import ListNotations.
Open Scope N_scope.

(* observed result of ParsePacketV4/V6 (recover()ed) *)
Inductive obs :=
| OPanic
| OFrag                       (* ErrnoPacketFragmentIgnore *)
| OTrunc                      (* ErrnoPacketTruncated *)
| OErrno (e : N)              (* any other errno > ErrnoOK *)
| OOk (h : bytes) (aux : N).  (* ErrnoOK: epHash[:] and auxInfo *)

Inductive case :=
(* p parsed -> o; Go's Reverse() of o's hash -> rev ([] if o is not OOk);
   q = reverse-direction packet built by the harness, parsed -> oq *)
| CParse (v6 : bool) (p : bytes) (o : obs) (rev : bytes) (q : bytes) (oq : obs)
(* Reverse() on an arbitrary hash of 13 / 37 bytes *)
| CRev (v6 : bool) (h : bytes) (rev : bytes)
(* every (proto, port[0], port[1]) of 256 x 256 x 256 with isCommonPort = true, ascending *)
| CTable (l : list (N * N * N)).

Fixpoint bytes_eqb (a b : bytes) : bool :=
  match a, b with
  | [], [] => true
  | x :: a', y :: b' => (x =? y) && bytes_eqb a' b'
  | _, _ => false
  end.

Definition obs_eqb (a b : obs) : bool :=
  match a, b with
  | OPanic, OPanic => true
  | OFrag, OFrag => true
  | OTrunc, OTrunc => true
  | OErrno x, OErrno y => x =? y
  | OOk h x, OOk h' y => bytes_eqb h h' && (x =? y)
  | _, _ => false
  end.

Definition to_obs (r : res parsed) : obs :=
  match r with
  | Ok Fragment => OFrag
  | Ok Truncated => OTrunc
  | Ok (POk h aux) => OOk h aux
  | Err => OErrno 255
  | Panic => OPanic
  end.

Fixpoint triples_eqb (a b : list (N * N * N)) : bool :=
  match a, b with
  | [], [] => true
  | x :: a', y :: b' => triple_eqb x y && triples_eqb a' b'
  | _, _ => false
  end.

(* ---------------------------------------------------------------- corr *)
Definition corr (c : case) : bool :=
  match c with
  | CParse v6 p o rev q oq =>
    let parse := if v6 then parse_v6 else parse_v4 in
    let reverse := if v6 then reverse_v6 else reverse_v4 in
    obs_eqb (to_obs (parse p)) o && obs_eqb (to_obs (parse q)) oq &&
    match o with OOk h _ => bytes_eqb (reverse h) rev | _ => bytes_eqb rev [] end
  | CRev v6 h rev => bytes_eqb ((if v6 then reverse_v6 else reverse_v4) h) rev
  | CTable l => triples_eqb l common_ports
  end.

(* ---------------------------------------------------------------- spec used by holds *)
Definition at_ (p : bytes) (i : nat) : N := nth i p 0.
Definition seg (p : bytes) (start len : nat) : bytes := firstn len (skipn start p).
Definition be16 (p : bytes) (i : nat) : N := 256 * at_ p i + at_ p (S i).

(* documented: 53, 80, 443, 445, 8080 over TCP; 53, 443 over UDP *)
Definition doc_common (proto port : N) : bool :=
  ((proto =? 6) && ((port =? 53) || (port =? 80) || (port =? 443) || (port =? 445) || (port =? 8080)))
  || ((proto =? 17) && ((port =? 53) || (port =? 443))).

Record layout := { l_hdr : nat; l_proto : nat; l_sip : nat; l_alen : nat; l_icmp : N; l_frag : bool }.
Definition lay4 := {| l_hdr := 20; l_proto := 9; l_sip := 12; l_alen := 4; l_icmp := 1; l_frag := true |}.
Definition lay6 := {| l_hdr := 40; l_proto := 6; l_sip := 8; l_alen := 16; l_icmp := 58; l_frag := false |}.

Definition spec_fragment (L : layout) (p : bytes) : bool :=
  l_frag L && negb (at_ p (l_proto L) =? 50) &&
  negb (((at_ p 6 mod 32) * 256 + at_ p 7) =? 0).

Definition spec_need (L : layout) (proto : N) : nat :=
  if proto =? 6 then l_hdr L + 14 else if proto =? 17 then l_hdr L + 4
  else if proto =? l_icmp L then l_hdr L + 1 else l_hdr L.

(* the observed result o is what the property demands for packet p *)
Definition spec_parse (L : layout) (p : bytes) (o : obs) : bool :=
  if (length p <? l_hdr L)%nat then true            (* outside the stated precondition *)
  else
    let proto := at_ p (l_proto L) in
    let th := l_hdr L in let a := l_alen L in
    if spec_fragment L p then obs_eqb o OFrag
    else if (length p <? spec_need L proto)%nat then obs_eqb o OTrunc
    else match o with
         | OOk h aux =>
           let ports := (proto =? 6) || (proto =? 17) in
           let sp := be16 p th in let dp := be16 p (th + 2) in
           let want_sp := if ports && negb (doc_common proto dp) then sp else 0 in
           let want_dp := if ports && negb (doc_common proto sp) then dp else 0 in
           (length h =? 2 * a + 5)%nat &&
           bytes_eqb (seg h 0 a) (seg p (l_sip L) a) &&
           (be16 h a =? want_sp) &&
           bytes_eqb (seg h (a + 2) a) (seg p (l_sip L + a) a) &&
           (be16 h (2 * a + 2) =? want_dp) &&
           (at_ h (2 * a + 4) =? proto) &&
           (aux =? (if proto =? 6 then at_ p (th + 13) else if proto =? l_icmp L then at_ p th else 0))
         | _ => false
         end.

(* q is a reverse-direction packet of p *)
Definition spec_twin (L : layout) (p q : bytes) : bool :=
  let proto := at_ p (l_proto L) in
  let th := l_hdr L in let a := l_alen L in
  (length q =? length p)%nat && (at_ q (l_proto L) =? proto) &&
  (if l_frag L then (at_ q 6 =? at_ p 6) && (at_ q 7 =? at_ p 7) else true) &&
  bytes_eqb (seg q (l_sip L) a) (seg p (l_sip L + a) a) &&
  bytes_eqb (seg q (l_sip L + a) a) (seg p (l_sip L) a) &&
  (if ((proto =? 6) || (proto =? 17)) && (th + 4 <=? length p)%nat
   then (be16 q th =? be16 p (th + 2)) && (be16 q (th + 2) =? be16 p th)
        && bytes_eqb (seg q th 4) (seg p (th + 2) 2 ++ seg p th 2)
   else true).

(* rev is h with source and destination (address, port) exchanged and the protocol kept *)
Definition spec_reversed (a : nat) (h rev : bytes) : bool :=
  (length rev =? length h)%nat &&
  bytes_eqb (seg rev 0 (a + 2)) (seg h (a + 2) (a + 2)) &&
  bytes_eqb (seg rev (a + 2) (a + 2)) (seg h 0 (a + 2)) &&
  (at_ rev (2 * a + 4) =? at_ h (2 * a + 4)).

(* ---------------------------------------------------------------- holds *)
Definition holds (c : case) : bool :=
  match c with
  | CParse v6 p o rev q oq =>
    let L := if v6 then lay6 else lay4 in
    if (length p <? l_hdr L)%nat then true else
    spec_parse L p o && spec_parse L q oq &&
    (if spec_twin L p q then
       match o, oq with
       | OOk h _, OOk h' _ => spec_reversed (l_alen L) h rev && bytes_eqb h' rev
       | OFrag, OFrag => true
       | OTrunc, OTrunc => true
       | _, _ => false
       end
     else true)
  | CRev v6 h rev =>
    let a := if v6 then 16%nat else 4%nat in
    if (length h =? 2 * a + 5)%nat then spec_reversed a h rev else true
  | CTable l =>
    (* exactly the documented ports, nothing else, no duplicates (ascending, 7 entries) *)
    (length l =? 7)%nat &&
    forallb (fun t => let '(pr, hi, lo) := t in (hi <? 256) && (lo <? 256) && doc_common pr (256 * hi + lo)) l &&
    forallb (fun e => existsb (fun t => let '(pr, hi, lo) := t in (pr =? fst e) && (256 * hi + lo =? snd e)) l)
            [(6, 53); (6, 80); (6, 443); (6, 445); (6, 8080); (17, 53); (17, 443)]
  end.
