(* C19 property theorems. Nothing but statements closed by `exact`, Print Assumptions and one
   non-vacuity Example per theorem.  Vocabulary: Model.v (parse_v4, parse_v6, reverse_v4, reverse_v6,
   common_port_b, k_sip ... k_proto, sub) and Spec.v (twin_v4/6, mirrored, fields_spec, sport_spec,
   dport_spec, aux_spec, is_fragment_v4, need_v4/6, is_documented_common). *)
From Coq Require Import List NArith Bool Arith.
From GoProbe.Base Require Import CorrLib.
From GoProbe.C19 Require Import Model Spec Proofs.
Import ListNotations.
Open Scope N_scope.

(* ---- never panics: for EVERY byte list that has the fixed IP header (20 bytes for IPv4, 40 for
   IPv6 - the length the two functions assume of the capture source, see NOTES.md) the parser
   returns a result (Fragment | Truncated | POk key aux); no index or slice is out of range *)
Theorem c19_total :
  (forall p : bytes, (20 <= length p)%nat -> exists r : parsed, parse_v4 p = Ok r) /\
  (forall p : bytes, (40 <= length p)%nat -> exists r : parsed, parse_v6 p = Ok r).
Proof. exact (conj total_v4 total_v6). Qed.
Print Assumptions c19_total.

(* the precondition is tight: the first statement of both functions indexes byte 19 / 39 *)
Theorem c19_precondition_tight :
  (forall p : bytes, (length p < 20)%nat -> parse_v4 p = Panic) /\
  (forall p : bytes, (length p < 40)%nat -> parse_v6 p = Panic).
Proof. exact (conj parse_v4_short parse_v6_short). Qed.
Print Assumptions c19_precondition_tight.

(* ---- classification: exactly the non-first IPv4 fragments (except ESP) are `Fragment`, exactly the
   packets too short for their protocol's transport fields are `Truncated`; IPv6 has no fragment test *)
Theorem c19_classify :
  (forall p : bytes, (20 <= length p)%nat ->
     (parse_v4 p = Ok Fragment <-> is_fragment_v4 p = true) /\
     (parse_v4 p = Ok Truncated <->
        is_fragment_v4 p = false /\ (length p < need_v4 (nth 9 p 0%N))%nat)) /\
  (forall p : bytes, (40 <= length p)%nat ->
     parse_v6 p <> Ok Fragment /\
     (parse_v6 p = Ok Truncated <-> (length p < need_v6 (nth 6 p 0%N))%nat)).
Proof.
  exact (conj (fun p H => conj (classify_fragment_v4 p H) (classify_truncated_v4 p H))
              (fun p H => conj (classify_fragment_v6 p) (classify_truncated_v6 p H))).
Qed.
Print Assumptions c19_classify.

(* ---- extracted key: on acceptance the hash has 13 / 37 bytes, its address and protocol fields are
   the header's, the source port field is the packet's source port unless the DESTINATION port is a
   common service port (then zero) and vice versa (zero for protocols without ports), and the aux
   byte is the TCP flags / ICMP type / 0.  fields_spec a off icmp sip_at proto_at. *)
Theorem c19_fields :
  (forall (p h : bytes) (aux : N), parse_v4 p = Ok (POk h aux) ->
     (20 <= length p)%nat /\ fields_spec 4 20 ICMP 12 9 p h aux) /\
  (forall (p h : bytes) (aux : N), parse_v6 p = Ok (POk h aux) ->
     (40 <= length p)%nat /\ fields_spec 16 40 ICMPv6 8 6 p h aux).
Proof. exact (conj fields_v4 fields_v6). Qed.
Print Assumptions c19_fields.

(* the lookup table used by the rule is the documented list: 53, 80, 443, 445, 8080 / TCP and
   53, 443 / UDP, for every protocol number and every 16-bit port *)
Theorem c19_common_ports_documented : forall proto hi lo : N, hi < 256 -> lo < 256 ->
  common_port_b proto hi lo = is_documented_common proto (256 * hi + lo).
Proof. exact common_port_documented. Qed.
Print Assumptions c19_common_ports_documented.

(* isCommonPort itself never fails on a two-byte port slice, for any protocol byte *)
Theorem c19_is_common_port_total : forall (port : bytes) (proto : N), (2 <= length port)%nat ->
  is_common_port port proto = Ok (common_port_b proto (nth 0 port 0) (nth 1 port 0)).
Proof. exact is_common_port_ok. Qed.
Print Assumptions c19_is_common_port_total.

(* ---- mirror: for every packet p and every packet q of the reverse direction (same length,
   protocol and fragment field; addresses swapped; ports swapped when present; every other byte
   arbitrary), both are classified alike and, when accepted, key(q) = Reverse(key(p)).
   All protocol numbers, all port pairs, all addresses: by reasoning on list segments. *)
Theorem c19_mirror :
  (forall p q : bytes, (20 <= length p)%nat -> twin_v4 p q ->
     mirrored reverse_v4 (parse_v4 p) (parse_v4 q)) /\
  (forall p q : bytes, (40 <= length p)%nat -> twin_v6 p q ->
     mirrored reverse_v6 (parse_v6 p) (parse_v6 q)).
Proof. exact (conj mirror_v4 mirror_v6). Qed.
Print Assumptions c19_mirror.

(* the mirror law is not vacuous for any packet: exchanging the address segments and (when present)
   the port fields of p gives a reverse-direction packet, hence key(swap p) = Reverse(key p) *)
Theorem c19_mirror_canonical :
  (forall p : bytes, (20 <= length p)%nat ->
     twin_v4 p (swap_pkt 12 4 p) /\ mirrored reverse_v4 (parse_v4 p) (parse_v4 (swap_pkt 12 4 p))) /\
  (forall p : bytes, (40 <= length p)%nat ->
     twin_v6 p (swap_pkt 8 16 p) /\ mirrored reverse_v6 (parse_v6 p) (parse_v6 (swap_pkt 8 16 p))).
Proof.
  exact (conj (fun p H => conj (swap_is_twin_v4 p H) (mirror_swap_v4 p H))
              (fun p H => conj (swap_is_twin_v6 p H) (mirror_swap_v6 p H))).
Qed.
Print Assumptions c19_mirror_canonical.

(* ================================================================ non-vacuity *)

(* TCP SYN 10.0.0.1:40000 -> 10.0.0.2:443, DF set, 34 bytes; and the SYN-ACK coming back *)
Definition ex_p4 : bytes :=
  [69;0;0;40; 0;1;64;0; 64;6;0;0; 10;0;0;1; 10;0;0;2; 156;64; 1;187; 0;0;0;1; 0;0;0;0; 80;2].
Definition ex_q4 : bytes :=
  [69;0;0;40; 7;7;64;0; 61;6;9;9; 10;0;0;2; 10;0;0;1; 1;187; 156;64; 0;0;0;9; 0;0;0;2; 80;18].
(* UDP DNS query 2001:db8::1:50000 -> 2001:db8::53:53, 48 bytes; and the answer *)
Definition ex_p6 : bytes :=
  [96;0;0;0; 0;8;17;64] ++ [32;1;13;184;0;0;0;0;0;0;0;0;0;0;0;1] ++ [32;1;13;184;0;0;0;0;0;0;0;0;0;0;0;83]
  ++ [195;80; 0;53; 0;8; 0;0].
Definition ex_q6 : bytes :=
  [96;0;0;0; 0;8;17;63] ++ [32;1;13;184;0;0;0;0;0;0;0;0;0;0;0;83] ++ [32;1;13;184;0;0;0;0;0;0;0;0;0;0;0;1]
  ++ [0;53; 195;80; 0;8; 1;1].

Example c19_total_example :
  (20 <= length ex_p4)%nat /\ (40 <= length ex_p6)%nat /\
  parse_v4 ex_p4 = Ok (POk [10;0;0;1; 0;0; 10;0;0;2; 1;187; 6] 2) /\
  parse_v4 (firstn 33 ex_p4) = Ok Truncated /\
  parse_v6 (firstn 43 ex_p6) = Ok Truncated.
Proof. repeat split; try reflexivity; apply Nat.leb_le; reflexivity. Qed.

Example c19_precondition_tight_example :
  parse_v4 (firstn 19 ex_p4) = Panic /\ parse_v6 (firstn 39 ex_p6) = Panic.
Proof. split; reflexivity. Qed.

Example c19_classify_example :
  let frag := [69;0;0;40; 0;1;0;185; 64;17;0;0; 10;0;0;1; 10;0;0;2; 1;2;3;4] in
  is_fragment_v4 frag = true /\ parse_v4 frag = Ok Fragment /\
  is_fragment_v4 ex_p4 = false /\ (length (firstn 33 ex_p4) < need_v4 6)%nat.
Proof. repeat split; try reflexivity. apply Nat.ltb_lt; reflexivity. Qed.

Example c19_fields_example :
  parse_v6 ex_p6 = Ok (POk ([32;1;13;184;0;0;0;0;0;0;0;0;0;0;0;1] ++ [0;0] ++
                            [32;1;13;184;0;0;0;0;0;0;0;0;0;0;0;83] ++ [0;53] ++ [17]) 0) /\
  sport_spec 40 ex_p6 17 = [0;0] /\ dport_spec 40 ex_p6 17 = [0;53] /\
  sport_spec 20 ex_q4 6 = [1;187] /\ dport_spec 20 ex_q4 6 = [0;0].
Proof. repeat split; reflexivity. Qed.

Example c19_common_ports_documented_example :
  common_port_b 6 31 144 = true /\ is_documented_common 6 (256 * 31 + 144) = true /\
  common_port_b 17 31 144 = false /\ common_port_b 18 0 53 = false.
Proof. repeat split; reflexivity. Qed.

Example c19_is_common_port_total_example :
  is_common_port [1; 187] 17 = Ok true /\ is_common_port [255; 255] 255 = Ok false.
Proof. split; reflexivity. Qed.

Example c19_mirror_example :
  twin_v4 ex_p4 ex_q4 /\ twin_v6 ex_p6 ex_q6 /\
  parse_v4 ex_q4 = Ok (POk (reverse_v4 [10;0;0;1; 0;0; 10;0;0;2; 1;187; 6]) 18) /\
  parse_v4 ex_q4 = Ok (POk [10;0;0;2; 1;187; 10;0;0;1; 0;0; 6] 18) /\
  mirrored reverse_v6 (parse_v6 ex_p6) (parse_v6 ex_q6).
Proof.
  split; [|split].
  - unfold twin_v4. repeat split; reflexivity.
  - unfold twin_v6. repeat split; reflexivity.
  - repeat split; reflexivity.
Qed.

Example c19_mirror_canonical_example :
  swap_pkt 12 4 ex_p4 =
    [69;0;0;40; 0;1;64;0; 64;6;0;0; 10;0;0;2; 10;0;0;1; 1;187; 156;64; 0;0;0;1; 0;0;0;0; 80;2] /\
  parse_v4 (swap_pkt 12 4 ex_p4) = Ok (POk [10;0;0;2; 1;187; 10;0;0;1; 0;0; 6] 2) /\
  parse_v6 (swap_pkt 8 16 ex_p6) = Ok (POk (reverse_v6 ([32;1;13;184;0;0;0;0;0;0;0;0;0;0;0;1] ++ [0;0] ++
                            [32;1;13;184;0;0;0;0;0;0;0;0;0;0;0;83] ++ [0;53] ++ [17])) 0).
Proof. repeat split; reflexivity. Qed.
