(* C19 model: packet parsing (pkg/capture/flow.go: ParsePacketV4, ParsePacketV6, isCommonPort)
   and endpoint-hash reversal (pkg/capture/capturetypes/packet.go: EPHashV4/V6.Reverse).
   Executable definitions only.

   An IP layer is a list of bytes (`list N`, every element < 256 in generated cases; the
   definitions and the theorems do not need the range).  Every Go index `s[i]` is `get` and every
   Go slice expression `s[a:b]` is `slice`: both return `Panic` when out of range, exactly where
   the Go runtime would.  The Go functions return (epHash, auxInfo, errno); the model returns
   `Fragment` (ErrnoPacketFragmentIgnore), `Truncated` (ErrnoPacketTruncated) or `POk hash aux`
   (ErrnoOK).  On the two non-OK results the (partially filled) hash is not part of the result:
   every caller discards it.  Reused by C20 / C21. *)
From Coq Require Import List NArith Bool Arith.
From GoProbe.Base Require Import CorrLib.
Import ListNotations.
Open Scope N_scope.

Definition bytes := list N.

Notation "x <- e ;; k" := (res_bind e (fun x => k)) (at level 61, e at next level, right associativity).

(* ---- Go indexing and slicing with the runtime bounds checks *)
Definition get (p : bytes) (i : nat) : res N :=
  match nth_error p i with Some b => Ok b | None => Panic end.

(* the bytes [a, b) ; total *)
Definition sub (p : bytes) (a b : nat) : bytes := firstn (b - a) (skipn a p).

(* s[a:b] with constants a <= b: panics iff b exceeds the length (harness slices have cap = len) *)
Definition slice (p : bytes) (a b : nat) : res bytes :=
  if (b <=? length p)%nat then Ok (sub p a b) else Panic.

(* ---- protocol numbers (capturetypes) *)
Definition ICMP : N := 1.
Definition TCP : N := 6.
Definition UDP : N := 17.
Definition ESP : N := 50.
Definition ICMPv6 : N := 58.

(* ---- isCommonPort: commonPorts [18][32][256]bool, the true entries as (proto, port[0], port[1]) *)
Definition common_ports : list (N * N * N) :=
  [ (6, 0, 53); (6, 0, 80); (6, 1, 187); (6, 1, 189); (6, 31, 144); (17, 0, 53); (17, 1, 187) ].

Definition triple_eqb (a b : N * N * N) : bool :=
  let '(a1, a2, a3) := a in let '(b1, b2, b3) := b in (a1 =? b1) && (a2 =? b2) && (a3 =? b3).

(* the table entry commonPorts[proto][hi][lo] *)
Definition common_port_b (proto hi lo : N) : bool :=
  existsb (triple_eqb (proto, hi, lo)) common_ports.

Definition commonPortsMaxTrackedFirstByte : N := 31.

(* func isCommonPort(port []byte, proto byte) bool.  The array indices proto < 18 and
   port[0] < 32 are checked explicitly (Panic otherwise); port[1] is a byte indexing [256]bool. *)
Definition is_common_port (port : bytes) (proto : N) : res bool :=
  hi <- get port 0 ;;
  if (commonPortsMaxTrackedFirstByte <? hi) || (UDP <? proto) then Ok false else
  lo <- get port 1 ;;
  if (proto <? 18) && (hi <? 32) then Ok (common_port_b proto hi lo) else Panic.

(* ---- results *)
Inductive parsed :=
| Fragment
| Truncated
| POk (h : bytes) (aux : N).

Definition zero2 : bytes := [0; 0].

(* epHash is a zero-initialised array: sip | sport | dip | dport | proto *)
Definition mk_hash (sip sport dip dport : bytes) (proto : N) : bytes :=
  sip ++ sport ++ dip ++ dport ++ [proto].

(* label `ports:` followed by `finalize:` *)
Definition parse_ports (p : bytes) (off : nat) (proto : N) (sip dip : bytes) (aux : N) : res parsed :=
  dport <- slice p (off + 2) (off + 4) ;;
  sport <- slice p off (off + 2) ;;
  cd <- is_common_port dport proto ;;
  cs <- is_common_port sport proto ;;
  Ok (POk (mk_hash sip (if cd then zero2 else sport) dip (if cs then zero2 else dport) proto) aux).

(* ---- ParsePacketV4.  ipv4.HeaderLen = 20; limits TCP 34, UDP 24, ICMP 21 *)
Definition parse_v4 (p : bytes) : res parsed :=
  _ <- get p 19 ;;                                   (* _ = ipLayer[ipLayerV4BoundsLimit] *)
  proto <- get p 9 ;;
  frag <- (if proto =? ESP then Ok false else
           b6 <- get p 6 ;; b7 <- get p 7 ;;
           Ok (negb (N.lor (N.shiftl (N.land 31 b6) 8) b7 =? 0))) ;;
  if frag then Ok Fragment else
  sip <- slice p 12 16 ;;
  dip <- slice p 16 20 ;;
  if proto =? TCP then
    if (length p <? 34)%nat then Ok Truncated else
    aux <- get p 33 ;;
    parse_ports p 20 proto sip dip aux
  else if proto =? UDP then
    if (length p <? 24)%nat then Ok Truncated else
    parse_ports p 20 proto sip dip 0
  else if proto =? ICMP then
    if (length p <? 21)%nat then Ok Truncated else
    aux <- get p 20 ;;
    Ok (POk (mk_hash sip zero2 dip zero2 proto) aux)
  else Ok (POk (mk_hash sip zero2 dip zero2 proto) 0).

(* ---- ParsePacketV6.  ipv6.HeaderLen = 40; limits TCP 54, UDP 44, ICMPv6 41; no fragment test *)
Definition parse_v6 (p : bytes) : res parsed :=
  _ <- get p 39 ;;                                   (* _ = ipLayer[ipLayerV6BoundsLimit] *)
  proto <- get p 6 ;;
  sip <- slice p 8 24 ;;
  dip <- slice p 24 40 ;;
  if proto =? TCP then
    if (length p <? 54)%nat then Ok Truncated else
    aux <- get p 53 ;;
    parse_ports p 40 proto sip dip aux
  else if proto =? UDP then
    if (length p <? 44)%nat then Ok Truncated else
    parse_ports p 40 proto sip dip 0
  else if proto =? ICMPv6 then
    if (length p <? 41)%nat then Ok Truncated else
    aux <- get p 40 ;;
    Ok (POk (mk_hash sip zero2 dip zero2 proto) aux)
  else Ok (POk (mk_hash sip zero2 dip zero2 proto) 0).

(* ---- EPHashV4.Reverse / EPHashV6.Reverse (on arrays of 13 / 37 bytes: no bounds failure)
   copy(rev[0:6], h[6:12]); copy(rev[6:12], h[0:6]); rev[12] = h[12] *)
Definition reverse_v4 (h : bytes) : bytes := sub h 6 12 ++ sub h 0 6 ++ sub h 12 13.
Definition reverse_v6 (h : bytes) : bytes := sub h 18 36 ++ sub h 0 18 ++ sub h 36 37.

(* ---- field view of a hash (a = address length: 4 or 16) *)
Definition k_sip (a : nat) (h : bytes) : bytes := sub h 0 a.
Definition k_sport (a : nat) (h : bytes) : bytes := sub h a (a + 2).
Definition k_dip (a : nat) (h : bytes) : bytes := sub h (a + 2) (2 * a + 2).
Definition k_dport (a : nat) (h : bytes) : bytes := sub h (2 * a + 2) (2 * a + 4).
Definition k_proto (a : nat) (h : bytes) : N := nth (2 * a + 4) h 0.

Definition has_ports (proto : N) : bool := (proto =? TCP) || (proto =? UDP).
