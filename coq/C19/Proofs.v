(* C19 proofs.  Strategy: under the length precondition every bounds check of the model succeeds,
   so parse_v4 / parse_v6 equal `Ok` of a pure function written with default-valued `nth` and
   `sub`; totality, the field rule and the mirror law are then shown on the pure functions by
   equational reasoning on list segments (no enumeration of packets, protocols or ports). *)
From Coq Require Import List NArith Bool Arith Lia ZifyBool ZifyNat ZifyN.
From GoProbe.Base Require Import CorrLib.
From GoProbe.C19 Require Import Model Spec.
Import ListNotations.
Open Scope N_scope.

(* ================================================================ list segments *)

Lemma get_ok : forall p i, (i < length p)%nat -> get p i = Ok (nth i p 0).
Proof.
  intros p i H. unfold get.
  destruct (nth_error p i) eqn:E.
  - f_equal. symmetry. apply nth_error_nth. exact E.
  - apply nth_error_None in E. lia.
Qed.

Lemma get_panic : forall p i, (length p <= i)%nat -> get p i = Panic.
Proof.
  intros p i H. unfold get. apply nth_error_None in H. rewrite H. reflexivity.
Qed.

Lemma slice_ok : forall p a b, (b <= length p)%nat -> slice p a b = Ok (sub p a b).
Proof.
  intros p a b H. unfold slice. apply Nat.leb_le in H. rewrite H. reflexivity.
Qed.

Lemma sub_length : forall p a b, (b <= length p)%nat -> length (sub p a b) = (b - a)%nat.
Proof.
  intros p a b H. unfold sub. rewrite firstn_length, skipn_length. lia.
Qed.

Lemma nth_skipn' : forall (l : bytes) a i, nth i (skipn a l) 0 = nth (a + i) l 0.
Proof.
  induction l as [|x l IH]; intros a i.
  - rewrite skipn_nil. destruct i, a; reflexivity.
  - destruct a as [|a]; [reflexivity|]. cbn [skipn Nat.add nth]. apply IH.
Qed.

Lemma nth_firstn' : forall (l : bytes) n i, (i < n)%nat -> nth i (firstn n l) 0 = nth i l 0.
Proof.
  induction l as [|x l IH]; intros n i H.
  - rewrite firstn_nil. reflexivity.
  - destruct n as [|n]; [lia|]. destruct i as [|i]; [reflexivity|].
    cbn [firstn nth]. apply IH. lia.
Qed.

Lemma nth_sub : forall p a b i, (i < b - a)%nat -> nth i (sub p a b) 0 = nth (a + i) p 0.
Proof.
  intros p a b i H. unfold sub. rewrite nth_firstn' by exact H. apply nth_skipn'.
Qed.

Lemma sub_app_l : forall (a b : bytes) n, n = length a -> sub (a ++ b) 0 n = a.
Proof.
  intros a b n ->. unfold sub. rewrite Nat.sub_0_r. cbn [skipn].
  rewrite firstn_app, Nat.sub_diag, firstn_all. cbn [firstn]. apply app_nil_r.
Qed.

Lemma sub_app_r : forall (a b : bytes) m n m' n',
  m = (length a + m')%nat -> n = (length a + n')%nat -> sub (a ++ b) m n = sub b m' n'.
Proof.
  intros a b m n m' n' -> ->. unfold sub. rewrite skipn_app, skipn_all2 by lia.
  replace (length a + m' - length a)%nat with m' by lia.
  replace (length a + n' - (length a + m'))%nat with (n' - m')%nat by lia.
  reflexivity.
Qed.

Lemma sub_all : forall (a : bytes) n, n = length a -> sub a 0 n = a.
Proof.
  intros a n ->. unfold sub. rewrite Nat.sub_0_r. cbn [skipn]. apply firstn_all.
Qed.

(* ================================================================ hashes: fields and reversal *)

Section Hash.
  Variable a : nat.                       (* address length *)
  Variables sip sp dip dp : bytes.
  Variable pr : N.
  Hypothesis Lsip : length sip = a.
  Hypothesis Lsp : length sp = 2%nat.
  Hypothesis Ldip : length dip = a.
  Hypothesis Ldp : length dp = 2%nat.

  Lemma mk_hash_length : length (mk_hash sip sp dip dp pr) = (2 * a + 5)%nat.
  Proof. unfold mk_hash. rewrite !app_length. cbn [length]. lia. Qed.

  Lemma mk_hash_sip : k_sip a (mk_hash sip sp dip dp pr) = sip.
  Proof. unfold k_sip, mk_hash. apply sub_app_l. lia. Qed.

  Lemma mk_hash_sport : k_sport a (mk_hash sip sp dip dp pr) = sp.
  Proof.
    unfold k_sport, mk_hash. rewrite (sub_app_r sip _ _ _ 0 2)%nat by lia.
    apply sub_app_l. lia.
  Qed.

  Lemma mk_hash_dip : k_dip a (mk_hash sip sp dip dp pr) = dip.
  Proof.
    unfold k_dip, mk_hash. rewrite (sub_app_r sip _ _ _ 2 (a + 2))%nat by lia.
    rewrite (sub_app_r sp _ _ _ 0 a)%nat by lia.
    apply sub_app_l. lia.
  Qed.

  Lemma mk_hash_dport : k_dport a (mk_hash sip sp dip dp pr) = dp.
  Proof.
    unfold k_dport, mk_hash. rewrite (sub_app_r sip _ _ _ (a + 2) (a + 4))%nat by lia.
    rewrite (sub_app_r sp _ _ _ a (a + 2))%nat by lia.
    rewrite (sub_app_r dip _ _ _ 0 2)%nat by lia.
    apply sub_app_l. lia.
  Qed.

  Lemma mk_hash_proto : k_proto a (mk_hash sip sp dip dp pr) = pr.
  Proof.
    unfold k_proto, mk_hash.
    rewrite (app_assoc sip sp), (app_assoc (sip ++ sp) dip), (app_assoc ((sip ++ sp) ++ dip) dp).
    rewrite app_nth2 by (rewrite !app_length; lia).
    rewrite !app_length.
    replace (2 * a + 4 - (length sip + length sp + length dip + length dp))%nat with 0%nat by lia.
    reflexivity.
  Qed.

  (* the generic shape of Reverse: swap the two (address ++ port) halves, keep the protocol *)
  Lemma reverse_mk_hash :
    sub (mk_hash sip sp dip dp pr) (a + 2) (2 * a + 4) ++ sub (mk_hash sip sp dip dp pr) 0 (a + 2)
      ++ sub (mk_hash sip sp dip dp pr) (2 * a + 4) (2 * a + 5)
    = mk_hash dip dp sip sp pr.
  Proof.
    unfold mk_hash.
    replace (sip ++ sp ++ dip ++ dp ++ [pr]) with ((sip ++ sp) ++ (dip ++ dp) ++ [pr])
      by (rewrite <- !app_assoc; reflexivity).
    assert (L1 : length (sip ++ sp) = (a + 2)%nat) by (rewrite app_length; lia).
    assert (L2 : length (dip ++ dp) = (a + 2)%nat) by (rewrite app_length; lia).
    rewrite (sub_app_l (sip ++ sp)) by lia.
    rewrite (sub_app_r (sip ++ sp) _ _ _ 0 (a + 2))%nat by lia.
    rewrite (sub_app_r (sip ++ sp) _ _ _ (a + 2) (a + 3))%nat by lia.
    rewrite (sub_app_l (dip ++ dp)) by lia.
    rewrite (sub_app_r (dip ++ dp) _ _ _ 0 1)%nat by lia.
    rewrite (sub_all [pr]) by reflexivity.
    rewrite <- !app_assoc. reflexivity.
  Qed.
End Hash.

Lemma reverse_v4_mk_hash : forall sip sp dip dp pr,
  length sip = 4%nat -> length sp = 2%nat -> length dip = 4%nat -> length dp = 2%nat ->
  reverse_v4 (mk_hash sip sp dip dp pr) = mk_hash dip dp sip sp pr.
Proof. intros. unfold reverse_v4. apply (reverse_mk_hash 4); assumption. Qed.

Lemma reverse_v6_mk_hash : forall sip sp dip dp pr,
  length sip = 16%nat -> length sp = 2%nat -> length dip = 16%nat -> length dp = 2%nat ->
  reverse_v6 (mk_hash sip sp dip dp pr) = mk_hash dip dp sip sp pr.
Proof. intros. unfold reverse_v6. apply (reverse_mk_hash 16); assumption. Qed.

(* ================================================================ isCommonPort *)

Lemma common_port_b_range : forall proto hi lo,
  common_port_b proto hi lo = true -> proto <= 17 /\ hi <= 31.
Proof.
  intros proto hi lo. unfold common_port_b, common_ports, triple_eqb. cbn [existsb]. lia.
Qed.

(* the lookup never fails on a two-byte slice and returns the table entry *)
Lemma is_common_port_ok : forall port proto, (2 <= length port)%nat ->
  is_common_port port proto = Ok (common_port_b proto (nth 0 port 0) (nth 1 port 0)).
Proof.
  intros port proto H. unfold is_common_port.
  rewrite get_ok by lia. cbn [res_bind].
  unfold commonPortsMaxTrackedFirstByte, UDP.
  destruct ((31 <? nth 0 port 0) || (17 <? proto)) eqn:G.
  - destruct (common_port_b proto (nth 0 port 0) (nth 1 port 0)) eqn:C; [|reflexivity].
    apply common_port_b_range in C. lia.
  - rewrite get_ok by lia. cbn [res_bind].
    replace ((proto <? 18) && (nth 0 port 0 <? 32)) with true by lia. reflexivity.
Qed.

(* the byte table is the documented list of service ports *)
Lemma common_port_documented : forall proto hi lo, hi < 256 -> lo < 256 ->
  common_port_b proto hi lo = is_documented_common proto (256 * hi + lo).
Proof.
  intros proto hi lo Hh Hl. apply eq_true_iff_eq.
  unfold common_port_b, common_ports, triple_eqb, is_documented_common, documented_common.
  cbn [existsb fst snd]. split; intro H.
  - rewrite !orb_true_iff, !andb_true_iff, !N.eqb_eq in H.
    repeat (destruct H as [H|H]); try discriminate H;
      destruct H as [[-> ->] ->]; reflexivity.
  - rewrite !orb_true_iff, !andb_true_iff, !N.eqb_eq in H.
    repeat (destruct H as [H|H]); try discriminate H;
      destruct H as [<- E];
      match type of E with
      | ?c = _ =>
        let h := eval vm_compute in (c / 256) in
        let l := eval vm_compute in (c mod 256) in
        assert (hi = h) by lia; assert (lo = l) by lia; subst hi lo; reflexivity
      end.
Qed.

(* ================================================================ pure parse functions *)

Definition ports_pure (p : bytes) (off : nat) (proto : N) (sip dip : bytes) : bytes :=
  mk_hash sip
    (if common_port_b proto (nth (off + 2) p 0) (nth (off + 3) p 0) then zero2 else sub p off (off + 2))
    dip
    (if common_port_b proto (nth off p 0) (nth (off + 1) p 0) then zero2 else sub p (off + 2) (off + 4))
    proto.

Definition pure_v4 (p : bytes) : parsed :=
  let proto := nth 9 p 0 in
  if negb (proto =? ESP) && negb (N.lor (N.shiftl (N.land 31 (nth 6 p 0)) 8) (nth 7 p 0) =? 0)
  then Fragment else
  let sip := sub p 12 16 in let dip := sub p 16 20 in
  if proto =? TCP then
    if (length p <? 34)%nat then Truncated else POk (ports_pure p 20 proto sip dip) (nth 33 p 0)
  else if proto =? UDP then
    if (length p <? 24)%nat then Truncated else POk (ports_pure p 20 proto sip dip) 0
  else if proto =? ICMP then
    if (length p <? 21)%nat then Truncated else POk (mk_hash sip zero2 dip zero2 proto) (nth 20 p 0)
  else POk (mk_hash sip zero2 dip zero2 proto) 0.

Definition pure_v6 (p : bytes) : parsed :=
  let proto := nth 6 p 0 in
  let sip := sub p 8 24 in let dip := sub p 24 40 in
  if proto =? TCP then
    if (length p <? 54)%nat then Truncated else POk (ports_pure p 40 proto sip dip) (nth 53 p 0)
  else if proto =? UDP then
    if (length p <? 44)%nat then Truncated else POk (ports_pure p 40 proto sip dip) 0
  else if proto =? ICMPv6 then
    if (length p <? 41)%nat then Truncated else POk (mk_hash sip zero2 dip zero2 proto) (nth 40 p 0)
  else POk (mk_hash sip zero2 dip zero2 proto) 0.

Lemma parse_ports_ok : forall p off proto sip dip aux, (off + 4 <= length p)%nat ->
  parse_ports p off proto sip dip aux = Ok (POk (ports_pure p off proto sip dip) aux).
Proof.
  intros p off proto sip dip aux H. unfold parse_ports, ports_pure.
  rewrite !slice_ok by lia. cbn [res_bind].
  rewrite !is_common_port_ok by (rewrite sub_length; lia). cbn [res_bind].
  rewrite !nth_sub by lia.
  replace (off + 2 + 0)%nat with (off + 2)%nat by lia.
  replace (off + 2 + 1)%nat with (off + 3)%nat by lia.
  replace (off + 0)%nat with off by lia.
  reflexivity.
Qed.

Lemma parse_v4_pure : forall p, (20 <= length p)%nat -> parse_v4 p = Ok (pure_v4 p).
Proof.
  intros p H. unfold parse_v4, pure_v4.
  rewrite (get_ok p 19), (get_ok p 9) by lia. cbn [res_bind].
  destruct (nth 9 p 0 =? ESP) eqn:Eesp; cbn [negb andb res_bind].
  - apply N.eqb_eq in Eesp. rewrite Eesp.
    rewrite !slice_ok by lia. cbn [res_bind]. reflexivity.
  - rewrite (get_ok p 6), (get_ok p 7) by lia. cbn [res_bind].
    destruct (negb (N.lor (N.shiftl (N.land 31 (nth 6 p 0)) 8) (nth 7 p 0) =? 0)); [reflexivity|].
    rewrite !slice_ok by lia. cbn [res_bind].
    destruct (nth 9 p 0 =? TCP).
    { destruct (length p <? 34)%nat eqn:L; [reflexivity|].
      rewrite get_ok by lia. cbn [res_bind]. apply parse_ports_ok. lia. }
    destruct (nth 9 p 0 =? UDP).
    { destruct (length p <? 24)%nat eqn:L; [reflexivity|]. apply parse_ports_ok. lia. }
    destruct (nth 9 p 0 =? ICMP); [|reflexivity].
    destruct (length p <? 21)%nat eqn:L; [reflexivity|].
    rewrite get_ok by lia. reflexivity.
Qed.

Lemma parse_v6_pure : forall p, (40 <= length p)%nat -> parse_v6 p = Ok (pure_v6 p).
Proof.
  intros p H. unfold parse_v6, pure_v6.
  rewrite (get_ok p 39), (get_ok p 6) by lia. cbn [res_bind].
  rewrite !slice_ok by lia. cbn [res_bind].
  destruct (nth 6 p 0 =? TCP).
  { destruct (length p <? 54)%nat eqn:L; [reflexivity|].
    rewrite get_ok by lia. cbn [res_bind]. apply parse_ports_ok. lia. }
  destruct (nth 6 p 0 =? UDP).
  { destruct (length p <? 44)%nat eqn:L; [reflexivity|]. apply parse_ports_ok. lia. }
  destruct (nth 6 p 0 =? ICMPv6); [|reflexivity].
  destruct (length p <? 41)%nat eqn:L; [reflexivity|].
  rewrite get_ok by lia. reflexivity.
Qed.

(* the precondition is exactly what the code needs: shorter slices make the Go index panic *)
Lemma parse_v4_short : forall p, (length p < 20)%nat -> parse_v4 p = Panic.
Proof. intros p H. unfold parse_v4. rewrite get_panic by lia. reflexivity. Qed.
Lemma parse_v6_short : forall p, (length p < 40)%nat -> parse_v6 p = Panic.
Proof. intros p H. unfold parse_v6. rewrite get_panic by lia. reflexivity. Qed.

(* ================================================================ totality *)

Lemma total_v4 : forall p, (20 <= length p)%nat -> exists r, parse_v4 p = Ok r.
Proof. intros p H. exists (pure_v4 p). apply parse_v4_pure, H. Qed.
Lemma total_v6 : forall p, (40 <= length p)%nat -> exists r, parse_v6 p = Ok r.
Proof. intros p H. exists (pure_v6 p). apply parse_v6_pure, H. Qed.

(* ================================================================ classification *)

Lemma frag_test : forall b6 b7,
  (N.lor (N.shiftl (N.land 31 b6) 8) b7 =? 0) = ((b6 mod 32 =? 0) && (b7 =? 0)).
Proof.
  intros b6 b7. rewrite (N.land_comm 31 b6). change 31 with (N.ones 5). rewrite N.land_ones. change (2 ^ 5) with 32.
  apply eq_true_iff_eq. rewrite andb_true_iff, !N.eqb_eq, N.lor_eq_0_iff, N.shiftl_eq_0_iff.
  reflexivity.
Qed.

Lemma pure_v4_fragment : forall p, pure_v4 p = Fragment <-> is_fragment_v4 p = true.
Proof.
  intros p. unfold pure_v4, is_fragment_v4. rewrite frag_test.
  destruct (negb (nth 9 p 0 =? ESP) && negb ((nth 6 p 0 mod 32 =? 0) && (nth 7 p 0 =? 0))).
  - tauto.
  - split; [|discriminate].
    destruct (nth 9 p 0 =? TCP); [destruct (length p <? 34)%nat; discriminate|].
    destruct (nth 9 p 0 =? UDP); [destruct (length p <? 24)%nat; discriminate|].
    destruct (nth 9 p 0 =? ICMP); [destruct (length p <? 21)%nat; discriminate|].
    discriminate.
Qed.

Lemma pure_v4_truncated : forall p, (20 <= length p)%nat ->
  (pure_v4 p = Truncated <-> is_fragment_v4 p = false /\ (length p < need_v4 (nth 9 p 0%N))%nat).
Proof.
  intros p H20. unfold pure_v4, is_fragment_v4, need_v4. rewrite frag_test.
  destruct (negb (nth 9 p 0 =? ESP) && negb ((nth 6 p 0 mod 32 =? 0) && (nth 7 p 0 =? 0))).
  { split; [discriminate|intros [? _]; discriminate]. }
  destruct (nth 9 p 0 =? TCP).
  { destruct (length p <? 34)%nat eqn:L; split; try discriminate; try tauto; intros; try split; try reflexivity; lia. }
  destruct (nth 9 p 0 =? UDP).
  { destruct (length p <? 24)%nat eqn:L; split; try discriminate; try tauto; intros; try split; try reflexivity; lia. }
  destruct (nth 9 p 0 =? ICMP).
  { destruct (length p <? 21)%nat eqn:L; split; try discriminate; try tauto; intros; try split; try reflexivity; lia. }
  split; [discriminate|]. intros [_ L]. lia.
Qed.

Lemma pure_v6_not_fragment : forall p, pure_v6 p <> Fragment.
Proof.
  intros p. unfold pure_v6.
  destruct (nth 6 p 0 =? TCP); [destruct (length p <? 54)%nat; discriminate|].
  destruct (nth 6 p 0 =? UDP); [destruct (length p <? 44)%nat; discriminate|].
  destruct (nth 6 p 0 =? ICMPv6); [destruct (length p <? 41)%nat; discriminate|].
  discriminate.
Qed.

Lemma pure_v6_truncated : forall p, (40 <= length p)%nat ->
  (pure_v6 p = Truncated <-> (length p < need_v6 (nth 6 p 0%N))%nat).
Proof.
  intros p H40. unfold pure_v6, need_v6.
  destruct (nth 6 p 0 =? TCP).
  { destruct (length p <? 54)%nat eqn:L; split; try discriminate; try tauto; intros; try reflexivity; lia. }
  destruct (nth 6 p 0 =? UDP).
  { destruct (length p <? 44)%nat eqn:L; split; try discriminate; try tauto; intros; try reflexivity; lia. }
  destruct (nth 6 p 0 =? ICMPv6).
  { destruct (length p <? 41)%nat eqn:L; split; try discriminate; try tauto; intros; try reflexivity; lia. }
  split; [discriminate|]. intros L. lia.
Qed.

Lemma classify_fragment_v4 : forall p, (20 <= length p)%nat ->
  (parse_v4 p = Ok Fragment <-> is_fragment_v4 p = true).
Proof.
  intros p H. rewrite parse_v4_pure by exact H. rewrite <- pure_v4_fragment.
  split; [intros E; injection E; auto | intros ->; reflexivity].
Qed.

Lemma classify_truncated_v4 : forall p, (20 <= length p)%nat ->
  (parse_v4 p = Ok Truncated <->
   is_fragment_v4 p = false /\ (length p < need_v4 (nth 9 p 0%N))%nat).
Proof.
  intros p H. rewrite parse_v4_pure by exact H. rewrite <- (pure_v4_truncated p H).
  split; [intros E; injection E; auto | intros ->; reflexivity].
Qed.

Lemma classify_fragment_v6 : forall p, parse_v6 p <> Ok Fragment.
Proof.
  intros p E. destruct (le_lt_dec 40 (length p)) as [H|H].
  - rewrite parse_v6_pure in E by exact H. injection E. apply pure_v6_not_fragment.
  - rewrite parse_v6_short in E by exact H. discriminate.
Qed.

Lemma classify_truncated_v6 : forall p, (40 <= length p)%nat ->
  (parse_v6 p = Ok Truncated <-> (length p < need_v6 (nth 6 p 0%N))%nat).
Proof.
  intros p H. rewrite parse_v6_pure by exact H. rewrite <- (pure_v6_truncated p H).
  split; [intros E; injection E; auto | intros ->; reflexivity].
Qed.

(* ================================================================ extracted fields *)

Lemma mk_hash_fields : forall a sip sp dip dp pr,
  length sip = a -> length sp = 2%nat -> length dip = a -> length dp = 2%nat ->
  key_fields a (mk_hash sip sp dip dp pr) sip sp dip dp pr.
Proof.
  intros. unfold key_fields.
  repeat split;
    [apply mk_hash_length | apply mk_hash_sip | apply mk_hash_sport | apply mk_hash_dip
     | apply mk_hash_dport | apply mk_hash_proto]; assumption.
Qed.

Lemma zero2_length : length zero2 = 2%nat.
Proof. reflexivity. Qed.

Lemma ports_pure_fields : forall a p off proto sip dip,
  length sip = a -> length dip = a -> (off + 4 <= length p)%nat -> has_ports proto = true ->
  key_fields a (ports_pure p off proto sip dip)
    sip (sport_spec off p proto) dip (dport_spec off p proto) proto.
Proof.
  intros a p off proto sip dip Ls Ld L HP. unfold ports_pure, sport_spec, dport_spec.
  rewrite HP. cbn [andb].
  destruct (common_port_b proto (nth (off + 2) p 0) (nth (off + 3) p 0));
    destruct (common_port_b proto (nth off p 0) (nth (off + 1) p 0)); cbn [negb];
    apply mk_hash_fields; try assumption; try apply zero2_length; rewrite sub_length; lia.
Qed.

Lemma noports_fields : forall a p off proto sip dip,
  length sip = a -> length dip = a -> has_ports proto = false ->
  key_fields a (mk_hash sip zero2 dip zero2 proto)
    sip (sport_spec off p proto) dip (dport_spec off p proto) proto.
Proof.
  intros a p off proto sip dip Ls Ld HP. unfold sport_spec, dport_spec. rewrite HP. cbn [andb].
  apply mk_hash_fields; try assumption; apply zero2_length.
Qed.

Lemma has_ports_tcp : forall proto, (proto =? TCP) = true -> has_ports proto = true.
Proof. intros proto H. unfold has_ports. rewrite H. reflexivity. Qed.
Lemma has_ports_udp : forall proto, (proto =? UDP) = true -> has_ports proto = true.
Proof. intros proto H. unfold has_ports. rewrite H. apply orb_true_r. Qed.
Lemma has_ports_other : forall proto, (proto =? TCP) = false -> (proto =? UDP) = false ->
  has_ports proto = false.
Proof. intros proto H1 H2. unfold has_ports. rewrite H1, H2. reflexivity. Qed.

Lemma fields_v4 : forall p h aux, parse_v4 p = Ok (POk h aux) ->
  (20 <= length p)%nat /\ fields_spec 4 20 ICMP 12 9 p h aux.
Proof.
  intros p h aux E.
  destruct (le_lt_dec 20 (length p)) as [H|H];
    [|rewrite parse_v4_short in E by exact H; discriminate].
  split; [exact H|].
  rewrite parse_v4_pure in E by exact H. injection E as E. revert E.
  unfold pure_v4, fields_spec, aux_spec. cbn [Nat.add Nat.mul].
  assert (L1 : length (sub p 12 16) = 4%nat) by (rewrite sub_length; lia).
  assert (L2 : length (sub p 16 20) = 4%nat) by (rewrite sub_length; lia).
  destruct (negb (nth 9 p 0 =? ESP) && _); [discriminate|].
  destruct (nth 9 p 0 =? TCP) eqn:Et.
  { destruct (length p <? 34)%nat eqn:L; [discriminate|]. intros E. injection E as <- <-.
    split; [|reflexivity]. apply ports_pure_fields; try assumption; [lia|apply has_ports_tcp, Et]. }
  destruct (nth 9 p 0 =? UDP) eqn:Eu.
  { destruct (length p <? 24)%nat eqn:L; [discriminate|]. intros E. injection E as <- <-.
    assert (Ei : (nth 9 p 0 =? ICMP) = false) by (unfold ICMP, UDP in *; lia). rewrite Ei.
    split; [|reflexivity]. apply ports_pure_fields; try assumption; [lia|apply has_ports_udp, Eu]. }
  destruct (nth 9 p 0 =? ICMP) eqn:Ei.
  { destruct (length p <? 21)%nat eqn:L; [discriminate|]. intros E. injection E as <- <-.
    split; [|reflexivity]. apply noports_fields; try assumption. apply has_ports_other; assumption. }
  intros E. injection E as <- <-.
  split; [|reflexivity]. apply noports_fields; try assumption. apply has_ports_other; assumption.
Qed.

Lemma fields_v6 : forall p h aux, parse_v6 p = Ok (POk h aux) ->
  (40 <= length p)%nat /\ fields_spec 16 40 ICMPv6 8 6 p h aux.
Proof.
  intros p h aux E.
  destruct (le_lt_dec 40 (length p)) as [H|H];
    [|rewrite parse_v6_short in E by exact H; discriminate].
  split; [exact H|].
  rewrite parse_v6_pure in E by exact H. injection E as E. revert E.
  unfold pure_v6, fields_spec, aux_spec. cbn [Nat.add Nat.mul].
  assert (L1 : length (sub p 8 24) = 16%nat) by (rewrite sub_length; lia).
  assert (L2 : length (sub p 24 40) = 16%nat) by (rewrite sub_length; lia).
  destruct (nth 6 p 0 =? TCP) eqn:Et.
  { destruct (length p <? 54)%nat eqn:L; [discriminate|]. intros E. injection E as <- <-.
    split; [|reflexivity]. apply ports_pure_fields; try assumption; [lia|apply has_ports_tcp, Et]. }
  destruct (nth 6 p 0 =? UDP) eqn:Eu.
  { destruct (length p <? 44)%nat eqn:L; [discriminate|]. intros E. injection E as <- <-.
    assert (Ei : (nth 6 p 0 =? ICMPv6) = false) by (unfold ICMPv6, UDP in *; lia). rewrite Ei.
    split; [|reflexivity]. apply ports_pure_fields; try assumption; [lia|apply has_ports_udp, Eu]. }
  destruct (nth 6 p 0 =? ICMPv6) eqn:Ei.
  { destruct (length p <? 41)%nat eqn:L; [discriminate|]. intros E. injection E as <- <-.
    split; [|reflexivity]. apply noports_fields; try assumption. apply has_ports_other; assumption. }
  intros E. injection E as <- <-.
  split; [|reflexivity]. apply noports_fields; try assumption. apply has_ports_other; assumption.
Qed.

(* ================================================================ mirror law *)

Lemma sub_eq_nth : forall (p q : bytes) a b c d i, sub q a b = sub p c d ->
  (i < b - a)%nat -> (i < d - c)%nat -> nth (a + i) q 0 = nth (c + i) p 0.
Proof.
  intros p q a b c d i E H1 H2. rewrite <- (nth_sub q a b) by exact H1.
  rewrite <- (nth_sub p c d) by exact H2. rewrite E. reflexivity.
Qed.

Definition rev_gen (a : nat) (h : bytes) : bytes :=
  sub h (a + 2) (2 * a + 4) ++ sub h 0 (a + 2) ++ sub h (2 * a + 4) (2 * a + 5).

Lemma ports_pure_mirror : forall a p q off proto sip dip,
  length sip = a -> length dip = a -> (off + 4 <= length p)%nat ->
  sub q off (off + 2) = sub p (off + 2) (off + 4) ->
  sub q (off + 2) (off + 4) = sub p off (off + 2) ->
  ports_pure q off proto dip sip = rev_gen a (ports_pure p off proto sip dip).
Proof.
  intros a p q off proto sip dip Ls Ld L E1 E2.
  assert (N0 : nth off q 0 = nth (off + 2) p 0).
  { generalize (sub_eq_nth p q off (off + 2) (off + 2) (off + 4) 0 E1).
    rewrite !Nat.add_0_r. intros X. apply X; lia. }
  assert (N1 : nth (off + 1) q 0 = nth (off + 3) p 0).
  { generalize (sub_eq_nth p q off (off + 2) (off + 2) (off + 4) 1 E1).
    replace (off + 2 + 1)%nat with (off + 3)%nat by lia. intros X. apply X; lia. }
  assert (N2 : nth (off + 2) q 0 = nth off p 0).
  { generalize (sub_eq_nth p q (off + 2) (off + 4) off (off + 2) 0 E2).
    rewrite !Nat.add_0_r. intros X. apply X; lia. }
  assert (N3 : nth (off + 3) q 0 = nth (off + 1) p 0).
  { generalize (sub_eq_nth p q (off + 2) (off + 4) off (off + 2) 1 E2).
    replace (off + 2 + 1)%nat with (off + 3)%nat by lia. intros X. apply X; lia. }
  unfold ports_pure, rev_gen. rewrite N0, N1, N2, N3, E1, E2.
  symmetry. apply reverse_mk_hash; try assumption.
  - destruct (common_port_b proto (nth (off + 2) p 0) (nth (off + 3) p 0));
      [apply zero2_length | rewrite sub_length; lia].
  - destruct (common_port_b proto (nth off p 0) (nth (off + 1) p 0));
      [apply zero2_length | rewrite sub_length; lia].
Qed.

Lemma noports_mirror : forall a proto sip dip, length sip = a -> length dip = a ->
  mk_hash dip zero2 sip zero2 proto = rev_gen a (mk_hash sip zero2 dip zero2 proto).
Proof.
  intros. unfold rev_gen. symmetry. apply reverse_mk_hash; try assumption; apply zero2_length.
Qed.

Lemma mirror_v4 : forall p q, (20 <= length p)%nat -> twin_v4 p q ->
  mirrored reverse_v4 (parse_v4 p) (parse_v4 q).
Proof.
  intros p q H (L & P9 & P6 & P7 & S1 & S2 & HP).
  rewrite !parse_v4_pure by lia. unfold pure_v4. rewrite P9, P6, P7, L, S1, S2.
  change reverse_v4 with (rev_gen 4).
  assert (L1 : length (sub p 12 16) = 4%nat) by (rewrite sub_length; lia).
  assert (L2 : length (sub p 16 20) = 4%nat) by (rewrite sub_length; lia).
  destruct (negb (nth 9 p 0 =? ESP) && _); [exact I|].
  destruct (nth 9 p 0 =? TCP) eqn:Et.
  { destruct (length p <? 34)%nat eqn:Len; [exact I|]. cbn [mirrored].
    destruct HP as [E1 E2]; [apply has_ports_tcp, Et | lia |].
    apply ports_pure_mirror; try assumption. lia. }
  destruct (nth 9 p 0 =? UDP) eqn:Eu.
  { destruct (length p <? 24)%nat eqn:Len; [exact I|]. cbn [mirrored].
    destruct HP as [E1 E2]; [apply has_ports_udp, Eu | lia |].
    apply ports_pure_mirror; try assumption. lia. }
  destruct (nth 9 p 0 =? ICMP).
  { destruct (length p <? 21)%nat; [exact I|]. cbn [mirrored]. apply noports_mirror; assumption. }
  cbn [mirrored]. apply noports_mirror; assumption.
Qed.

Lemma mirror_v6 : forall p q, (40 <= length p)%nat -> twin_v6 p q ->
  mirrored reverse_v6 (parse_v6 p) (parse_v6 q).
Proof.
  intros p q H (L & P6 & S1 & S2 & HP).
  rewrite !parse_v6_pure by lia. unfold pure_v6. rewrite P6, L, S1, S2.
  change reverse_v6 with (rev_gen 16).
  assert (L1 : length (sub p 8 24) = 16%nat) by (rewrite sub_length; lia).
  assert (L2 : length (sub p 24 40) = 16%nat) by (rewrite sub_length; lia).
  destruct (nth 6 p 0 =? TCP) eqn:Et.
  { destruct (length p <? 54)%nat eqn:Len; [exact I|]. cbn [mirrored].
    destruct HP as [E1 E2]; [apply has_ports_tcp, Et | lia |].
    apply ports_pure_mirror; try assumption. lia. }
  destruct (nth 6 p 0 =? UDP) eqn:Eu.
  { destruct (length p <? 44)%nat eqn:Len; [exact I|]. cbn [mirrored].
    destruct HP as [E1 E2]; [apply has_ports_udp, Eu | lia |].
    apply ports_pure_mirror; try assumption. lia. }
  destruct (nth 6 p 0 =? ICMPv6).
  { destruct (length p <? 41)%nat; [exact I|]. cbn [mirrored]. apply noports_mirror; assumption. }
  cbn [mirrored]. apply noports_mirror; assumption.
Qed.

(* ================================================================ every packet has a twin *)

Section Swap.
  Variables s a : nat.          (* address segments [s, s+a) and [s+a, s+2a); transport header at s+2a *)
  Variable p : bytes.
  Let h := (s + 2 * a)%nat.
  Hypothesis Hlen : (h <= length p)%nat.

  Lemma swap_pkt_length : length (swap_pkt s a p) = length p.
  Proof.
    unfold swap_pkt. fold h. destruct (h + 4 <=? length p)%nat eqn:E;
      rewrite !app_length, !sub_length, skipn_length by lia; lia.
  Qed.

  Lemma swap_pkt_nth : forall i, (i < s)%nat -> nth i (swap_pkt s a p) 0 = nth i p 0.
  Proof.
    intros i Hi. unfold swap_pkt. rewrite app_nth1 by (rewrite sub_length by lia; lia).
    rewrite nth_sub by lia. reflexivity.
  Qed.

  Lemma swap_pkt_sip : sub (swap_pkt s a p) s (s + a) = sub p (s + a) h.
  Proof.
    unfold swap_pkt. fold h.
    rewrite (sub_app_r (sub p 0 s) _ _ _ 0 a)%nat by (rewrite sub_length by lia; lia).
    apply sub_app_l. rewrite sub_length by lia. lia.
  Qed.

  Lemma swap_pkt_dip : sub (swap_pkt s a p) (s + a) h = sub p s (s + a).
  Proof.
    unfold swap_pkt. fold h.
    rewrite (sub_app_r (sub p 0 s) _ _ _ a (2 * a))%nat by (rewrite sub_length by lia; lia).
    rewrite (sub_app_r (sub p (s + a) h) _ _ _ 0 a)%nat by (rewrite sub_length by lia; lia).
    apply sub_app_l. rewrite sub_length by lia. lia.
  Qed.

  Lemma swap_pkt_sport : (h + 4 <= length p)%nat ->
    sub (swap_pkt s a p) h (h + 2) = sub p (h + 2) (h + 4).
  Proof.
    intros H4. unfold swap_pkt. fold h. replace (h + 4 <=? length p)%nat with true by lia.
    rewrite (sub_app_r (sub p 0 s) _ _ _ (2 * a) (2 * a + 2))%nat by (rewrite sub_length by lia; lia).
    rewrite (sub_app_r (sub p (s + a) h) _ _ _ a (a + 2))%nat by (rewrite sub_length by lia; lia).
    rewrite (sub_app_r (sub p s (s + a)) _ _ _ 0 2)%nat by (rewrite sub_length by lia; lia).
    apply sub_app_l. rewrite sub_length by lia. lia.
  Qed.

  Lemma swap_pkt_dport : (h + 4 <= length p)%nat ->
    sub (swap_pkt s a p) (h + 2) (h + 4) = sub p h (h + 2).
  Proof.
    intros H4. unfold swap_pkt. fold h. replace (h + 4 <=? length p)%nat with true by lia.
    rewrite (sub_app_r (sub p 0 s) _ _ _ (2 * a + 2) (2 * a + 4))%nat by (rewrite sub_length by lia; lia).
    rewrite (sub_app_r (sub p (s + a) h) _ _ _ (a + 2) (a + 4))%nat by (rewrite sub_length by lia; lia).
    rewrite (sub_app_r (sub p s (s + a)) _ _ _ 2 4)%nat by (rewrite sub_length by lia; lia).
    rewrite (sub_app_r (sub p (h + 2) (h + 4)) _ _ _ 0 2)%nat by (rewrite sub_length by lia; lia).
    apply sub_app_l. rewrite sub_length by lia. lia.
  Qed.
End Swap.

Lemma swap_is_twin_v4 : forall p, (20 <= length p)%nat -> twin_v4 p (swap_pkt 12 4 p).
Proof.
  intros p H. unfold twin_v4.
  split; [apply swap_pkt_length; exact H|].
  split; [apply swap_pkt_nth; [exact H|lia]|].
  split; [apply swap_pkt_nth; [exact H|lia]|].
  split; [apply swap_pkt_nth; [exact H|lia]|].
  split; [exact (swap_pkt_sip 12 4 p H)|].
  split; [exact (swap_pkt_dip 12 4 p H)|].
  intros _ H4. split; [exact (swap_pkt_sport 12 4 p H H4) | exact (swap_pkt_dport 12 4 p H H4)].
Qed.

Lemma swap_is_twin_v6 : forall p, (40 <= length p)%nat -> twin_v6 p (swap_pkt 8 16 p).
Proof.
  intros p H. unfold twin_v6.
  split; [apply swap_pkt_length; exact H|].
  split; [apply swap_pkt_nth; [exact H|lia]|].
  split; [exact (swap_pkt_sip 8 16 p H)|].
  split; [exact (swap_pkt_dip 8 16 p H)|].
  intros _ H4. split; [exact (swap_pkt_sport 8 16 p H H4) | exact (swap_pkt_dport 8 16 p H H4)].
Qed.

Lemma mirror_swap_v4 : forall p, (20 <= length p)%nat ->
  mirrored reverse_v4 (parse_v4 p) (parse_v4 (swap_pkt 12 4 p)).
Proof. intros p H. apply mirror_v4; [exact H | apply swap_is_twin_v4, H]. Qed.

Lemma mirror_swap_v6 : forall p, (40 <= length p)%nat ->
  mirrored reverse_v6 (parse_v6 p) (parse_v6 (swap_pkt 8 16 p)).
Proof. intros p H. apply mirror_v6; [exact H | apply swap_is_twin_v6, H]. Qed.
