(* C19 proofs.  Strategy: under the length precondition every bounds check of the model succeeds,
   so parse_v4 / parse_v6 equal `Ok` of a pure function written with default-valued `nth` and
   `sub`; totality, the field rule and the mirror law are then shown on the pure functions by
   equational reasoning on list segments (no enumeration of packets, protocols or ports). *)
From Coq Require Import List NArith Bool Arith Lia ZifyBool ZifyNat ZifyN.
From GoProbe.Base Require Import CorrLib.
From GoProbe.C19 Require Import Model.
Import ListNotations.
Open Scope N_scope.

(* ================================================================ specification vocabulary *)

(* the documented common service ports (comments of the commonPorts table), as port numbers *)
Definition documented_common : list (N * N) :=
  [ (6, 53); (6, 80); (6, 443); (6, 445); (6, 8080); (17, 53); (17, 443) ].
Definition is_documented_common (proto port : N) : bool :=
  existsb (fun e => (fst e =? proto) && (snd e =? port)) documented_common.

(* IPv4 fragment offset: low 13 bits of bytes 6..7 *)
Definition is_fragment_v4 (p : bytes) : bool :=
  negb (nth 9 p 0 =? ESP) && negb ((nth 6 p 0 mod 32 =? 0) && (nth 7 p 0 =? 0)).

(* bytes the parser needs for a protocol *)
Definition need_v4 (proto : N) : nat :=
  if proto =? TCP then 34 else if proto =? UDP then 24 else if proto =? ICMP then 21 else 20.
Definition need_v6 (proto : N) : nat :=
  if proto =? TCP then 54 else if proto =? UDP then 44 else if proto =? ICMPv6 then 41 else 40.

(* auxiliary byte: TCP flags, ICMP type, else 0 *)
Definition aux_spec (off : nat) (icmp : N) (p : bytes) (proto : N) : N :=
  if proto =? TCP then nth (off + 13) p 0 else if proto =? icmp then nth off p 0 else 0.

(* the documented port rule, on the two port bytes at [off, off+2) and [off+2, off+4):
   a side's port is dropped (zero) when the OTHER side's port is a common service port *)
Definition sport_spec (off : nat) (p : bytes) (proto : N) : bytes :=
  if has_ports proto && negb (common_port_b proto (nth (off + 2) p 0) (nth (off + 3) p 0))
  then sub p off (off + 2) else zero2.
Definition dport_spec (off : nat) (p : bytes) (proto : N) : bytes :=
  if has_ports proto && negb (common_port_b proto (nth off p 0) (nth (off + 1) p 0))
  then sub p (off + 2) (off + 4) else zero2.

(* q is a packet of the reverse direction of p's conversation: same length, protocol and
   fragment field, addresses swapped and - when the protocol has ports and they are present -
   ports swapped.  All other bytes (TCP flags, ICMP type, payload, TTL, ...) are unrelated. *)
Definition twin_v4 (p q : bytes) : Prop :=
  length q = length p /\ nth 9 q 0 = nth 9 p 0 /\ nth 6 q 0 = nth 6 p 0 /\ nth 7 q 0 = nth 7 p 0 /\
  sub q 12 16 = sub p 16 20 /\ sub q 16 20 = sub p 12 16 /\
  (has_ports (nth 9 p 0) = true -> (24 <= length p)%nat ->
   sub q 20 22 = sub p 22 24 /\ sub q 22 24 = sub p 20 22).

Definition twin_v6 (p q : bytes) : Prop :=
  length q = length p /\ nth 6 q 0 = nth 6 p 0 /\
  sub q 8 24 = sub p 24 40 /\ sub q 24 40 = sub p 8 24 /\
  (has_ports (nth 6 p 0) = true -> (44 <= length p)%nat ->
   sub q 40 42 = sub p 42 44 /\ sub q 42 44 = sub p 40 42).

(* parse results agree up to reversal of the key (aux bytes are direction specific) *)
Definition mirrored (rev : bytes -> bytes) (rp rq : res parsed) : Prop :=
  match rp, rq with
  | Ok (POk h _), Ok (POk h' _) => h' = rev h
  | Ok Fragment, Ok Fragment => True
  | Ok Truncated, Ok Truncated => True
  | _, _ => False
  end.

(* ================================================================ list segments *)

Lemma get_ok : forall p i, (i < length p)%nat -> get p i = Ok (nth i p 0).
Proof.
  intros p i H. unfold get.
  destruct (nth_error p i) eqn:E.
  - f_equal. symmetry. apply nth_error_nth. exact E.
  - apply nth_error_None in E. lia.
Qed.

Lemma get_panic : forall p i, (length p <= i)%nat -> get p i = Panic.
Proof.
  intros p i H. unfold get. apply nth_error_None in H. rewrite H. reflexivity.
Qed.

Lemma slice_ok : forall p a b, (b <= length p)%nat -> slice p a b = Ok (sub p a b).
Proof.
  intros p a b H. unfold slice. apply Nat.leb_le in H. rewrite H. reflexivity.
Qed.

Lemma sub_length : forall p a b, (b <= length p)%nat -> length (sub p a b) = (b - a)%nat.
Proof.
  intros p a b H. unfold sub. rewrite firstn_length, skipn_length. lia.
Qed.

Lemma nth_skipn' : forall (l : bytes) a i, nth i (skipn a l) 0 = nth (a + i) l 0.
Proof.
  induction l as [|x l IH]; intros a i.
  - rewrite skipn_nil. destruct i, a; reflexivity.
  - destruct a as [|a]; [reflexivity|]. cbn [skipn Nat.add nth]. apply IH.
Qed.

Lemma nth_firstn' : forall (l : bytes) n i, (i < n)%nat -> nth i (firstn n l) 0 = nth i l 0.
Proof.
  induction l as [|x l IH]; intros n i H.
  - rewrite firstn_nil. reflexivity.
  - destruct n as [|n]; [lia|]. destruct i as [|i]; [reflexivity|].
    cbn [firstn nth]. apply IH. lia.
Qed.

Lemma nth_sub : forall p a b i, (i < b - a)%nat -> nth i (sub p a b) 0 = nth (a + i) p 0.
Proof.
  intros p a b i H. unfold sub. rewrite nth_firstn' by exact H. apply nth_skipn'.
Qed.

Lemma sub_app_l : forall (a b : bytes) n, n = length a -> sub (a ++ b) 0 n = a.
Proof.
  intros a b n ->. unfold sub. rewrite Nat.sub_0_r. cbn [skipn].
  rewrite firstn_app, Nat.sub_diag, firstn_all. cbn [firstn]. apply app_nil_r.
Qed.

Lemma sub_app_r : forall (a b : bytes) m n, m = length a -> sub (a ++ b) m n = sub b 0 (n - m).
Proof.
  intros a b m n ->. unfold sub. rewrite skipn_app, skipn_all, Nat.sub_diag, Nat.sub_0_r.
  reflexivity.
Qed.

Lemma sub_all : forall (a : bytes) n, n = length a -> sub a 0 n = a.
Proof.
  intros a n ->. unfold sub. rewrite Nat.sub_0_r. cbn [skipn]. apply firstn_all.
Qed.

(* ================================================================ hashes: fields and reversal *)

Section Hash.
  Variable a : nat.                       (* address length *)
  Variables sip sp dip dp : bytes.
  Variable pr : N.
  Hypothesis Lsip : length sip = a.
  Hypothesis Lsp : length sp = 2%nat.
  Hypothesis Ldip : length dip = a.
  Hypothesis Ldp : length dp = 2%nat.

  Lemma mk_hash_length : length (mk_hash sip sp dip dp pr) = (2 * a + 5)%nat.
  Proof. unfold mk_hash. rewrite !app_length. cbn [length]. lia. Qed.

  Lemma mk_hash_sip : k_sip a (mk_hash sip sp dip dp pr) = sip.
  Proof. unfold k_sip, mk_hash. apply sub_app_l. lia. Qed.

  Lemma mk_hash_sport : k_sport a (mk_hash sip sp dip dp pr) = sp.
  Proof.
    unfold k_sport, mk_hash. rewrite sub_app_r by lia.
    replace (a + 2 - a)%nat with 2%nat by lia. apply sub_app_l. lia.
  Qed.

  Lemma mk_hash_dip : k_dip a (mk_hash sip sp dip dp pr) = dip.
  Proof.
    unfold k_dip, mk_hash. rewrite (app_assoc sip sp). rewrite sub_app_r by (rewrite app_length; lia).
    apply sub_app_l. lia.
  Qed.

  Lemma mk_hash_dport : k_dport a (mk_hash sip sp dip dp pr) = dp.
  Proof.
    unfold k_dport, mk_hash. rewrite (app_assoc sip sp), (app_assoc (sip ++ sp) dip).
    rewrite sub_app_r by (rewrite !app_length; lia).
    apply sub_app_l. lia.
  Qed.

  Lemma mk_hash_proto : k_proto a (mk_hash sip sp dip dp pr) = pr.
  Proof.
    unfold k_proto, mk_hash.
    rewrite (app_assoc sip sp), (app_assoc (sip ++ sp) dip), (app_assoc ((sip ++ sp) ++ dip) dp).
    rewrite app_nth2 by (rewrite !app_length; lia).
    rewrite !app_length.
    replace (2 * a + 4 - (length sip + length sp + length dip + length dp))%nat with 0%nat by lia.
    reflexivity.
  Qed.

  (* the generic shape of Reverse: swap the two (address ++ port) halves, keep the protocol *)
  Lemma reverse_mk_hash :
    sub (mk_hash sip sp dip dp pr) (a + 2) (2 * a + 4) ++ sub (mk_hash sip sp dip dp pr) 0 (a + 2)
      ++ sub (mk_hash sip sp dip dp pr) (2 * a + 4) (2 * a + 5)
    = mk_hash dip dp sip sp pr.
  Proof.
    unfold mk_hash.
    replace (sip ++ sp ++ dip ++ dp ++ [pr]) with ((sip ++ sp) ++ (dip ++ dp) ++ [pr])
      by (rewrite <- !app_assoc; reflexivity).
    assert (L1 : length (sip ++ sp) = (a + 2)%nat) by (rewrite app_length; lia).
    assert (L2 : length (dip ++ dp) = (a + 2)%nat) by (rewrite app_length; lia).
    rewrite (sub_app_l (sip ++ sp)) by lia.
    rewrite !(sub_app_r (sip ++ sp)) by lia.
    replace (2 * a + 4 - (a + 2))%nat with (a + 2)%nat by lia.
    rewrite (sub_app_l (dip ++ dp)) by lia.
    rewrite (sub_app_r (dip ++ dp)) by lia.
    replace (2 * a + 5 - (a + 2) - (a + 2))%nat with 1%nat by lia.
    rewrite (sub_all [pr]) by reflexivity.
    rewrite <- !app_assoc. reflexivity.
  Qed.
End Hash.

Lemma reverse_v4_mk_hash : forall sip sp dip dp pr,
  length sip = 4%nat -> length sp = 2%nat -> length dip = 4%nat -> length dp = 2%nat ->
  reverse_v4 (mk_hash sip sp dip dp pr) = mk_hash dip dp sip sp pr.
Proof. intros. unfold reverse_v4. apply (reverse_mk_hash 4); assumption. Qed.

Lemma reverse_v6_mk_hash : forall sip sp dip dp pr,
  length sip = 16%nat -> length sp = 2%nat -> length dip = 16%nat -> length dp = 2%nat ->
  reverse_v6 (mk_hash sip sp dip dp pr) = mk_hash dip dp sip sp pr.
Proof. intros. unfold reverse_v6. apply (reverse_mk_hash 16); assumption. Qed.

(* ================================================================ isCommonPort *)

Lemma common_port_b_range : forall proto hi lo,
  common_port_b proto hi lo = true -> proto <= 17 /\ hi <= 31.
Proof.
  intros proto hi lo. unfold common_port_b, common_ports, triple_eqb. cbn [existsb]. lia.
Qed.

(* the lookup never fails on a two-byte slice and returns the table entry *)
Lemma is_common_port_ok : forall port proto, (2 <= length port)%nat ->
  is_common_port port proto = Ok (common_port_b proto (nth 0 port 0) (nth 1 port 0)).
Proof.
  intros port proto H. unfold is_common_port.
  rewrite get_ok by lia. cbn [res_bind].
  unfold commonPortsMaxTrackedFirstByte, UDP.
  destruct ((31 <? nth 0 port 0) || (17 <? proto)) eqn:G.
  - destruct (common_port_b proto (nth 0 port 0) (nth 1 port 0)) eqn:C; [|reflexivity].
    apply common_port_b_range in C. lia.
  - rewrite get_ok by lia. cbn [res_bind].
    replace ((proto <? 18) && (nth 0 port 0 <? 32)) with true by lia. reflexivity.
Qed.

(* the byte table is the documented list of service ports *)
Lemma common_port_documented : forall proto hi lo, hi < 256 -> lo < 256 ->
  common_port_b proto hi lo = is_documented_common proto (256 * hi + lo).
Proof.
  intros proto hi lo Hh Hl.
  unfold common_port_b, common_ports, triple_eqb, is_documented_common, documented_common.
  cbn [existsb fst snd]. lia.
Qed.

(* ================================================================ pure parse functions *)

Definition ports_pure (p : bytes) (off : nat) (proto : N) (sip dip : bytes) : bytes :=
  mk_hash sip
    (if common_port_b proto (nth (off + 2) p 0) (nth (off + 3) p 0) then zero2 else sub p off (off + 2))
    dip
    (if common_port_b proto (nth off p 0) (nth (off + 1) p 0) then zero2 else sub p (off + 2) (off + 4))
    proto.

Definition pure_v4 (p : bytes) : parsed :=
  let proto := nth 9 p 0 in
  if negb (proto =? ESP) && negb (N.lor (N.shiftl (N.land 31 (nth 6 p 0)) 8) (nth 7 p 0) =? 0)
  then Fragment else
  let sip := sub p 12 16 in let dip := sub p 16 20 in
  if proto =? TCP then
    if (length p <? 34)%nat then Truncated else POk (ports_pure p 20 proto sip dip) (nth 33 p 0)
  else if proto =? UDP then
    if (length p <? 24)%nat then Truncated else POk (ports_pure p 20 proto sip dip) 0
  else if proto =? ICMP then
    if (length p <? 21)%nat then Truncated else POk (mk_hash sip zero2 dip zero2 proto) (nth 20 p 0)
  else POk (mk_hash sip zero2 dip zero2 proto) 0.

Definition pure_v6 (p : bytes) : parsed :=
  let proto := nth 6 p 0 in
  let sip := sub p 8 24 in let dip := sub p 24 40 in
  if proto =? TCP then
    if (length p <? 54)%nat then Truncated else POk (ports_pure p 40 proto sip dip) (nth 53 p 0)
  else if proto =? UDP then
    if (length p <? 44)%nat then Truncated else POk (ports_pure p 40 proto sip dip) 0
  else if proto =? ICMPv6 then
    if (length p <? 41)%nat then Truncated else POk (mk_hash sip zero2 dip zero2 proto) (nth 40 p 0)
  else POk (mk_hash sip zero2 dip zero2 proto) 0.

Lemma parse_ports_ok : forall p off proto sip dip aux, (off + 4 <= length p)%nat ->
  parse_ports p off proto sip dip aux = Ok (POk (ports_pure p off proto sip dip) aux).
Proof.
  intros p off proto sip dip aux H. unfold parse_ports, ports_pure.
  rewrite !slice_ok by lia. cbn [res_bind].
  rewrite !is_common_port_ok by (rewrite sub_length; lia). cbn [res_bind].
  rewrite !nth_sub by lia.
  replace (off + 2 + 0)%nat with (off + 2)%nat by lia.
  replace (off + 2 + 1)%nat with (off + 3)%nat by lia.
  replace (off + 0)%nat with off by lia.
  reflexivity.
Qed.

Lemma parse_v4_pure : forall p, (20 <= length p)%nat -> parse_v4 p = Ok (pure_v4 p).
Proof.
  intros p H. unfold parse_v4, pure_v4.
  rewrite (get_ok p 19), (get_ok p 9) by lia. cbn [res_bind].
  destruct (nth 9 p 0 =? ESP) eqn:Eesp; cbn [negb andb res_bind].
  - apply N.eqb_eq in Eesp. rewrite Eesp.
    rewrite !slice_ok by lia. cbn [res_bind]. reflexivity.
  - rewrite (get_ok p 6), (get_ok p 7) by lia. cbn [res_bind].
    destruct (negb (N.lor (N.shiftl (N.land 31 (nth 6 p 0)) 8) (nth 7 p 0) =? 0)); [reflexivity|].
    rewrite !slice_ok by lia. cbn [res_bind].
    destruct (nth 9 p 0 =? TCP).
    { destruct (length p <? 34)%nat eqn:L; [reflexivity|].
      rewrite get_ok by lia. cbn [res_bind]. apply parse_ports_ok. lia. }
    destruct (nth 9 p 0 =? UDP).
    { destruct (length p <? 24)%nat eqn:L; [reflexivity|]. apply parse_ports_ok. lia. }
    destruct (nth 9 p 0 =? ICMP); [|reflexivity].
    destruct (length p <? 21)%nat eqn:L; [reflexivity|].
    rewrite get_ok by lia. reflexivity.
Qed.

Lemma parse_v6_pure : forall p, (40 <= length p)%nat -> parse_v6 p = Ok (pure_v6 p).
Proof.
  intros p H. unfold parse_v6, pure_v6.
  rewrite (get_ok p 39), (get_ok p 6) by lia. cbn [res_bind].
  rewrite !slice_ok by lia. cbn [res_bind].
  destruct (nth 6 p 0 =? TCP).
  { destruct (length p <? 54)%nat eqn:L; [reflexivity|].
    rewrite get_ok by lia. cbn [res_bind]. apply parse_ports_ok. lia. }
  destruct (nth 6 p 0 =? UDP).
  { destruct (length p <? 44)%nat eqn:L; [reflexivity|]. apply parse_ports_ok. lia. }
  destruct (nth 6 p 0 =? ICMPv6); [|reflexivity].
  destruct (length p <? 41)%nat eqn:L; [reflexivity|].
  rewrite get_ok by lia. reflexivity.
Qed.

(* the precondition is exactly what the code needs: shorter slices make the Go index panic *)
Lemma parse_v4_short : forall p, (length p < 20)%nat -> parse_v4 p = Panic.
Proof. intros p H. unfold parse_v4. rewrite get_panic by lia. reflexivity. Qed.
Lemma parse_v6_short : forall p, (length p < 40)%nat -> parse_v6 p = Panic.
Proof. intros p H. unfold parse_v6. rewrite get_panic by lia. reflexivity. Qed.

(* ================================================================ totality *)

Lemma total_v4 : forall p, (20 <= length p)%nat -> exists r, parse_v4 p = Ok r.
Proof. intros p H. exists (pure_v4 p). apply parse_v4_pure, H. Qed.
Lemma total_v6 : forall p, (40 <= length p)%nat -> exists r, parse_v6 p = Ok r.
Proof. intros p H. exists (pure_v6 p). apply parse_v6_pure, H. Qed.

(* ================================================================ classification *)

Lemma frag_test : forall b6 b7,
  (N.lor (N.shiftl (N.land 31 b6) 8) b7 =? 0) = ((b6 mod 32 =? 0) && (b7 =? 0)).
Proof.
  intros b6 b7. change 31 with (N.ones 5). rewrite N.land_ones. change (2 ^ 5) with 32.
  apply eq_true_iff_eq. rewrite andb_true_iff, !N.eqb_eq, N.lor_eq_0_iff, N.shiftl_eq_0_iff.
  reflexivity.
Qed.

Lemma pure_v4_fragment : forall p, pure_v4 p = Fragment <-> is_fragment_v4 p = true.
Proof.
  intros p. unfold pure_v4, is_fragment_v4. rewrite frag_test.
  destruct (negb (nth 9 p 0 =? ESP) && negb ((nth 6 p 0 mod 32 =? 0) && (nth 7 p 0 =? 0))).
  - tauto.
  - split; [|discriminate].
    repeat match goal with |- context [if ?c then _ else _] => destruct c end; discriminate.
Qed.

Lemma pure_v4_truncated : forall p, (20 <= length p)%nat ->
  (pure_v4 p = Truncated <-> is_fragment_v4 p = false /\ (length p < need_v4 (nth 9 p 0))%nat).
Proof.
  intros p H20. unfold pure_v4, is_fragment_v4, need_v4. rewrite frag_test.
  destruct (negb (nth 9 p 0 =? ESP) && negb ((nth 6 p 0 mod 32 =? 0) && (nth 7 p 0 =? 0))).
  { split; [discriminate|intros [? _]; discriminate]. }
  destruct (nth 9 p 0 =? TCP).
  { destruct (length p <? 34)%nat eqn:L; split; try discriminate; try tauto; intros; try split; try reflexivity; lia. }
  destruct (nth 9 p 0 =? UDP).
  { destruct (length p <? 24)%nat eqn:L; split; try discriminate; try tauto; intros; try split; try reflexivity; lia. }
  destruct (nth 9 p 0 =? ICMP).
  { destruct (length p <? 21)%nat eqn:L; split; try discriminate; try tauto; intros; try split; try reflexivity; lia. }
  split; [discriminate|]. intros [_ L]. lia.
Qed.
