(* C26 model: cmd/gpdb/pkg/csvimport/import.go (Import, parseRow, parseKey, flushBeforeTimestamp,
   flushAll) after the fix "sum counters of rows sharing a key" (AggFlowMap.SetOrUpdate).
   Executable definitions only.

   The model starts from rows whose fields are already parsed (or known to be malformed):
   encoding/csv, strconv and net.ParseIP are outside the model.  Everything the importer decides
   on top of the parsed fields is modelled as coded: interface selection and validation, the
   IPv4 -> IPv6 retry of parseKey, the "no time attribute" skip for timestamps <= 0
   (Key.Extend leaves the key unextended), the ordering check against the current timestamp,
   the per-(interface, timestamp) buffering with SetOrUpdate, flush on timestamp change, the final
   flush and the summary counters. *)
From Coq Require Import List ZArith String Ascii Bool.
Import ListNotations.
Open Scope Z_scope.

(* ---------------------------------------------------------------- values *)

Definition two64 : Z := 18446744073709551616.
(* Go: uint64 += *)
Definition wadd (a b : Z) : Z := (a + b) mod two64.

Record counters := mkC { c_br : Z; c_bs : Z; c_pr : Z; c_ps : Z }.
(* hashmap.Map.SetOrUpdate on an existing entry: four wrapping additions *)
Definition cadd (a b : counters) : counters :=
  mkC (wadd (c_br a) (c_br b)) (wadd (c_bs a) (c_bs b)) (wadd (c_pr a) (c_pr b)) (wadd (c_ps a) (c_ps b)).

Inductive ip := V4 (a : Z) | V6 (a : Z).

(* types.Key: the family is the key length; sip, dip as numbers, dport, proto *)
Record key := mkK { k_v4 : bool; k_sip : Z; k_dip : Z; k_dport : Z; k_proto : Z }.

(* a CSV row after field-level parsing. f_iface = None: the schema has no iface column;
   f_sip / f_dip = None: no such column (the key keeps the zero address);
   absent dport / proto / counter columns are 0 *)
Record fields := mkF { f_iface : option string; f_ts : Z; f_sip : option ip; f_dip : option ip;
                       f_dport : Z; f_proto : Z; f_c : counters }.
(* M: fewer fields than the schema needs, or some field does not parse *)
Inductive row := M | F (f : fields).

Definition R (i : option string) (t : Z) (s d : option ip) (dp pr a b c e : Z) : row :=
  F (mkF i t s d dp pr (mkC a b c e)).

(* an accepted row: what reaches the buffering code *)
Record arow := mkA { a_iface : string; a_ts : Z; a_key : key; a_c : counters }.

Definition key_eqb (a b : key) : bool :=
  Bool.eqb (k_v4 a) (k_v4 b) && (k_sip a =? k_sip b) && (k_dip a =? k_dip b)
  && (k_dport a =? k_dport b) && (k_proto a =? k_proto b).

(* pending[iface][timestamp] / one written block is addressed by (iface, timestamp) *)
Definition bkey := (string * Z)%type.
Definition bkey_eqb (a b : bkey) : bool := String.eqb (fst a) (fst b) && (snd a =? snd b).

(* ---------------------------------------------------------------- parseRow *)

Definition is_sep (c : ascii) : bool := Ascii.eqb c "/"%char || Ascii.eqb c "\"%char.
Fixpoint has_sep (s : string) : bool :=
  match s with EmptyString => false | String c t => is_sep c || has_sep t end.
(* iface == "" -> "empty interface"; ContainsAny(iface, `/\`) || "." || ".." -> "invalid interface name" *)
Definition valid_iface (s : string) : bool :=
  negb (String.eqb s "") && negb (has_sep s) && negb (String.eqb s ".") && negb (String.eqb s "..").

(* sipStringParser / dipStringParser on a base key of family v4: None = errRowIPVersionMismatch *)
Definition ip_fits (v4 : bool) (o : option ip) : option Z :=
  match o with
  | None => Some 0
  | Some (V4 a) => if v4 then Some a else None
  | Some (V6 a) => if v4 then None else Some a
  end.
(* applyKeyParsers restricted to the address columns (the other key columns cannot mismatch) *)
Definition apply_ips (v4 : bool) (f : fields) : option key :=
  match ip_fits v4 (f_sip f), ip_fits v4 (f_dip f) with
  | Some a, Some b => Some (mkK v4 a b (f_dport f) (f_proto f))
  | _, _ => None
  end.
(* parseKey: try on the IPv4 base key, on a version mismatch retry on the IPv6 base key *)
Definition parse_key (f : fields) : option key :=
  match apply_ips true f with
  | Some k => Some k
  | None => apply_ips false f
  end.

(* parseRow followed by key.AttrTime(): None = the row is skipped *)
Definition classify (def : string) (r : row) : option arow :=
  match r with
  | M => None
  | F f =>
    let iface := match f_iface f with Some s => s | None => def end in
    if negb (valid_iface iface) then None else
    match parse_key f with
    | None => None
    | Some k => if f_ts f <=? 0 then None (* Extend(ts <= 0): no time attribute *)
                else Some (mkA iface (f_ts f) k (f_c f))
    end
  end.

(* ---------------------------------------------------------------- buffering *)

(* one AggFlowMap (PrimaryMap / SecondaryMap are selected by the key's family, which is part of
   the model key, so the pair is one association list) *)
Definition fmap := list (key * counters).
Definition block := (bkey * fmap)%type.

(* AggFlowMap.SetOrUpdate *)
Fixpoint fm_update (fm : fmap) (k : key) (c : counters) : fmap :=
  match fm with
  | [] => [(k, c)]
  | (k', c') :: t => if key_eqb k' k then (k', cadd c' c) :: t else (k', c') :: fm_update t k c
  end.

(* create pending[iface], pending[iface][ts] when missing, then SetOrUpdate *)
Fixpoint pend_update (p : list block) (b : bkey) (k : key) (c : counters) : list block :=
  match p with
  | [] => [(b, [(k, c)])]
  | (b', fm) :: t => if bkey_eqb b' b then (b', fm_update fm k c) :: t else (b', fm) :: pend_update t b k c
  end.

Record st := mkS { s_pend : list block; s_disk : list block; s_cur : option Z;
                   s_read : Z; s_imp : Z; s_skip : Z; s_blocks : Z }.
Definition st0 : st := mkS [] [] None 0 0 0 0.

Definition bump_read (s : st) := mkS (s_pend s) (s_disk s) (s_cur s) (s_read s + 1) (s_imp s) (s_skip s) (s_blocks s).
Definition bump_skip (s : st) := mkS (s_pend s) (s_disk s) (s_cur s) (s_read s) (s_imp s) (s_skip s + 1) (s_blocks s).
Definition bump_imp (s : st) := mkS (s_pend s) (s_disk s) (s_cur s) (s_read s) (s_imp s + 1) (s_skip s) (s_blocks s).
Definition set_cur (t : Z) (s : st) := mkS (s_pend s) (s_disk s) (Some t) (s_read s) (s_imp s) (s_skip s) (s_blocks s).

(* flushBeforeTimestamp: every buffered block older than the cutoff is written (DBWriter.Write
   appends a block to the interface's day directory) and deleted from the buffer *)
Definition flush_before (cutoff : Z) (s : st) : st :=
  let (old, keep) := partition (fun b : block => snd (fst b) <? cutoff) (s_pend s) in
  mkS keep (s_disk s ++ old)%list (s_cur s) (s_read s) (s_imp s) (s_skip s) (s_blocks s + Z.of_nat (List.length old)).

(* flushAll: everything still buffered is written *)
Definition flush_all (s : st) : st :=
  mkS [] (s_disk s ++ s_pend s)%list (s_cur s) (s_read s) (s_imp s) (s_skip s) (s_blocks s + Z.of_nat (List.length (s_pend s))).

(* haveTimestamp / currentTimestamp handling for an accepted row that is not a regression *)
Definition advance (t : Z) (s : st) : st :=
  match s_cur s with
  | Some c => if c <? t then set_cur t (flush_before t s) else s
  | None => set_cur t s
  end.

Definition insert (a : arow) (s : st) : st :=
  mkS (pend_update (s_pend s) (a_iface a, a_ts a) (a_key a) (a_c a)) (s_disk s) (s_cur s)
      (s_read s) (s_imp s) (s_skip s) (s_blocks s).

(* one iteration of the read loop; the boolean is "return with the ordering error" *)
Definition step (def : string) (s : st) (r : row) : st * bool :=
  let s := bump_read s in
  match classify def r with
  | None => (bump_skip s, false)
  | Some a =>
    if match s_cur s with Some c => a_ts a <? c | None => false end then (s, true)
    else (bump_imp (insert a (advance (a_ts a) s)), false)
  end.

Fixpoint run (def : string) (s : st) (rows : list row) : st * bool :=
  match rows with
  | [] => (s, false)
  | r :: tl => let (s', rej) := step def s r in if rej then (s', true) else run def s' tl
  end.

(* for opts.MaxRows == 0 || summary.RowsRead < opts.MaxRows *)
Definition take_rows (mx : Z) (rows : list row) : list row :=
  if mx =? 0 then rows else firstn (Z.to_nat mx) rows.

Record summary := mkSum { m_read : Z; m_imp : Z; m_skip : Z; m_blocks : Z; m_ifaces : Z }.
Record result := mkRes { r_rejected : bool; r_db : list block; r_sum : summary }.

Definition ifaces_of (db : list block) : list string := nodup string_dec (map (fun b : block => fst (fst b)) db).

Definition import (def : string) (mx : Z) (rows : list row) : result :=
  let (s, rej) := run def st0 (take_rows mx rows) in
  if rej then mkRes true (s_disk s) (mkSum (s_read s) (s_imp s) (s_skip s) (s_blocks s) 0)
  else let s' := flush_all s in
       mkRes false (s_disk s')
             (mkSum (s_read s') (s_imp s') (s_skip s') (s_blocks s') (Z.of_nat (List.length (ifaces_of (s_disk s'))))).

(* ---------------------------------------------------------------- specification *)

Fixpoint accepted (def : string) (rows : list row) : list arow :=
  match rows with
  | [] => []
  | r :: t => match classify def r with Some a => a :: accepted def t | None => accepted def t end
  end.

(* timestamps never go backwards (cur: the timestamp seen before the list, if any) *)
Fixpoint ord_from (cur : option Z) (l : list Z) : bool :=
  match l with
  | [] => true
  | t :: tl => match cur with Some c => c <=? t | None => true end && ord_from (Some t) tl
  end.
Definition nondecreasing (l : list Z) : bool := ord_from None l.

Definition qkey := (string * Z * key)%type.
Definition qkey_eqb (a b : qkey) : bool :=
  bkey_eqb (fst a) (fst b) && key_eqb (snd a) (snd b).
Definition q_of (a : arow) : qkey := (a_iface a, a_ts a, a_key a).

Definition oplus (a b : option counters) : option counters :=
  match a, b with
  | Some x, Some y => Some (cadd x y)
  | Some x, None => Some x
  | None, y => y
  end.

(* GROUP BY (iface, timestamp, key), counters summed (in uint64 arithmetic); None: no such row *)
Fixpoint group_sum (accs : list arow) (q : qkey) : option counters :=
  match accs with
  | [] => None
  | a :: t => if qkey_eqb (q_of a) q then oplus (Some (a_c a)) (group_sum t q) else group_sum t q
  end.

(* the same with exact (unbounded) sums *)
Definition cadd_exact (a b : counters) : counters :=
  mkC (c_br a + c_br b) (c_bs a + c_bs b) (c_pr a + c_pr b) (c_ps a + c_ps b).
Fixpoint group_sum_exact (accs : list arow) (q : qkey) : option counters :=
  match accs with
  | [] => None
  | a :: t => if qkey_eqb (q_of a) q
              then Some (match group_sum_exact t q with Some y => cadd_exact (a_c a) y | None => a_c a end)
              else group_sum_exact t q
  end.
Definition c_in_range (c : counters) : Prop :=
  0 <= c_br c < two64 /\ 0 <= c_bs c < two64 /\ 0 <= c_pr c < two64 /\ 0 <= c_ps c < two64.

(* what a reader of the destination sees for (iface, timestamp, key) *)
Fixpoint assoc_block (b : bkey) (db : list block) : option fmap :=
  match db with
  | [] => None
  | (b', fm) :: t => if bkey_eqb b' b then Some fm else assoc_block b t
  end.
Fixpoint assoc_key (k : key) (fm : fmap) : option counters :=
  match fm with
  | [] => None
  | (k', c) :: t => if key_eqb k' k then Some c else assoc_key k t
  end.
Definition db_lookup (db : list block) (q : qkey) : option counters :=
  match assoc_block (fst q) db with
  | Some fm => assoc_key (snd q) fm
  | None => None
  end.

(* one block per (iface, timestamp), one entry per key, no empty block *)
Definition db_wf (db : list block) : Prop :=
  NoDup (map fst db) /\ Forall (fun b : block => NoDup (map fst (snd b)) /\ snd b <> []) db.
