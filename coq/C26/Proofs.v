(* C26 proofs: the import loop refines GROUP BY (iface, timestamp, key) SUM over the accepted rows. *)
From Coq Require Import List ZArith String Ascii Bool Lia Permutation.
From GoProbe.C26 Require Import Model.
Import ListNotations.
Open Scope Z_scope.

(* ---------------------------------------------------------------- equality tests *)

Lemma key_eqb_eq a b : key_eqb a b = true <-> a = b.
Proof.
  destruct a as [a1 a2 a3 a4 a5], b as [b1 b2 b3 b4 b5]; unfold key_eqb; cbn [k_v4 k_sip k_dip k_dport k_proto].
  rewrite !andb_true_iff, Bool.eqb_true_iff, !Z.eqb_eq.
  split.
  - intros [[[[-> ->] ->] ->] ->]; reflexivity.
  - intros H; inversion H; auto 10.
Qed.

Lemma bkey_eqb_eq a b : bkey_eqb a b = true <-> a = b.
Proof.
  destruct a, b; unfold bkey_eqb; cbn [fst snd].
  rewrite andb_true_iff, String.eqb_eq, Z.eqb_eq.
  split; [intros [-> ->]; reflexivity | intros H; inversion H; auto].
Qed.

Lemma qkey_eqb_eq a b : qkey_eqb a b = true <-> a = b.
Proof.
  destruct a as [ba ka], b as [bb kb]; unfold qkey_eqb; cbn [fst snd].
  rewrite andb_true_iff, bkey_eqb_eq, key_eqb_eq.
  split; [intros [-> ->]; reflexivity | intros H; inversion H; auto].
Qed.

Lemma key_eqb_refl a : key_eqb a a = true.
Proof. apply key_eqb_eq; reflexivity. Qed.
Lemma bkey_eqb_refl a : bkey_eqb a a = true.
Proof. apply bkey_eqb_eq; reflexivity. Qed.

Lemma key_eqb_neq a b : key_eqb a b = false <-> a <> b.
Proof. rewrite <- key_eqb_eq. destruct (key_eqb a b); split; congruence. Qed.
Lemma bkey_eqb_neq a b : bkey_eqb a b = false <-> a <> b.
Proof. rewrite <- bkey_eqb_eq. destruct (bkey_eqb a b); split; congruence. Qed.

(* destruct one equality test in the goal and turn it into (dis)equality *)
Ltac dk a b := let E := fresh "E" in
  destruct (key_eqb a b) eqn:E; [apply key_eqb_eq in E | apply key_eqb_neq in E].
Ltac db a b := let E := fresh "E" in
  destruct (bkey_eqb a b) eqn:E; [apply bkey_eqb_eq in E | apply bkey_eqb_neq in E].

(* ---------------------------------------------------------------- counters *)

Lemma wadd_assoc a b c : wadd (wadd a b) c = wadd a (wadd b c).
Proof.
  unfold wadd. rewrite Zplus_mod_idemp_l, Zplus_mod_idemp_r. f_equal; lia.
Qed.

Lemma cadd_assoc a b c : cadd (cadd a b) c = cadd a (cadd b c).
Proof. unfold cadd; cbn [c_br c_bs c_pr c_ps]. rewrite !wadd_assoc. reflexivity. Qed.

Lemma oplus_assoc a b c : oplus (oplus a b) c = oplus a (oplus b c).
Proof. destruct a, b, c; cbn [oplus]; try reflexivity. rewrite cadd_assoc; reflexivity. Qed.

Lemma oplus_none_r a : oplus a None = a.
Proof. destruct a; reflexivity. Qed.

(* ---------------------------------------------------------------- association lists *)

Lemma assoc_block_app b l1 l2 :
  assoc_block b (l1 ++ l2) = match assoc_block b l1 with Some x => Some x | None => assoc_block b l2 end.
Proof.
  induction l1 as [|[b' fm] t IH]; cbn [assoc_block app]; [reflexivity|].
  destruct (bkey_eqb b' b); auto.
Qed.

Lemma assoc_block_notin b l : (forall x, In x l -> fst x <> b) -> assoc_block b l = None.
Proof.
  induction l as [|[b' fm] t IH]; intros H; cbn [assoc_block]; [reflexivity|].
  db b' b.
  - exfalso. apply (H (b', fm)); [left; reflexivity | exact E].
  - apply IH. intros x Hx. apply H. right; exact Hx.
Qed.

Lemma assoc_key_fm_update k' fm k c :
  assoc_key k' (fm_update fm k c) = if key_eqb k k' then oplus (assoc_key k fm) (Some c) else assoc_key k' fm.
Proof.
  induction fm as [|[k0 c0] t IH]; cbn [fm_update assoc_key].
  - dk k k'; reflexivity.
  - dk k0 k.
    + subst k0. cbn [assoc_key]. try rewrite key_eqb_refl. dk k k'; reflexivity.
    + cbn [assoc_key]. rewrite IH. dk k k'.
      * subst k'. apply key_eqb_neq in E. rewrite E. reflexivity.
      * reflexivity.
Qed.

Lemma assoc_block_pend_update b' p b k c :
  assoc_block b' (pend_update p b k c) =
  if bkey_eqb b b' then Some (fm_update (match assoc_block b p with Some fm => fm | None => [] end) k c)
  else assoc_block b' p.
Proof.
  induction p as [|[b0 fm] t IH]; cbn [pend_update assoc_block].
  - db b b'; reflexivity.
  - db b0 b.
    + subst b0. cbn [assoc_block]. db b b'; reflexivity.
    + cbn [assoc_block]. rewrite IH. db b b'.
      * subst b'. apply bkey_eqb_neq in E. rewrite E. reflexivity.
      * reflexivity.
Qed.

Lemma fm_update_keys (fm : fmap) k c :
  map fst (fm_update fm k c) = map fst fm \/
  (~ In k (map fst fm) /\ map fst (fm_update fm k c) = map fst fm ++ [k]).
Proof.
  induction fm as [|[k0 c0] t IH]; cbn [fm_update map fst app].
  - right. split; [intros [] | reflexivity].
  - dk k0 k.
    + left. reflexivity.
    + cbn [map fst]. destruct IH as [IH | [Hn IH]].
      * left. rewrite IH. reflexivity.
      * right. split.
        -- intros [H | H]; [apply E; exact H | apply Hn; exact H].
        -- rewrite IH. reflexivity.
Qed.

Lemma fm_update_nonempty fm k c : fm_update fm k c <> [].
Proof. destruct fm as [|[k0 c0] t]; cbn [fm_update]; [discriminate|]. destruct (key_eqb k0 k); discriminate. Qed.

Lemma pend_update_keys (p : list block) b k c :
  map fst (pend_update p b k c) = map fst p \/
  (~ In b (map fst p) /\ map fst (pend_update p b k c) = map fst p ++ [b]).
Proof.
  induction p as [|[b0 fm] t IH]; cbn [pend_update map fst app].
  - right. split; [intros [] | reflexivity].
  - db b0 b.
    + left. reflexivity.
    + cbn [map fst]. destruct IH as [IH | [Hn IH]].
      * left. rewrite IH. reflexivity.
      * right. split.
        -- intros [H | H]; [apply E; exact H | apply Hn; exact H].
        -- rewrite IH. reflexivity.
Qed.

Lemma NoDup_snoc {A} (l : list A) x : NoDup l -> ~ In x l -> NoDup (l ++ [x]).
Proof.
  intros Hl Hx. apply (Permutation_NoDup (l := x :: l)).
  - apply Permutation_cons_append.
  - constructor; assumption.
Qed.

Definition block_ok (b : block) : Prop := NoDup (map fst (snd b)) /\ snd b <> [].

Lemma fm_update_ok (fm : fmap) k c : NoDup (map fst fm) -> NoDup (map fst (fm_update fm k c)).
Proof.
  intros H. destruct (fm_update_keys fm k c) as [-> | [Hn ->]]; [exact H|].
  apply NoDup_snoc; assumption.
Qed.

Lemma pend_update_ok (p : list block) b k c : Forall block_ok p -> Forall block_ok (pend_update p b k c).
Proof.
  induction p as [|[b0 fm] t IH]; intros H; cbn [pend_update].
  - constructor; [|constructor]. split; cbn [snd map fst].
    + constructor; [intros [] | constructor].
    + discriminate.
  - inversion H as [|x l [H1 H2] H3]; subst. destruct (bkey_eqb b0 b).
    + constructor; [|exact H3]. split; cbn [snd] in *.
      * apply fm_update_ok; exact H1.
      * apply fm_update_nonempty.
    + constructor; [split; assumption | apply IH; exact H3].
Qed.

Lemma in_pend_update (p : list block) b k c x :
  In x (pend_update p b k c) -> fst x = b \/ exists y, In y p /\ fst y = fst x.
Proof.
  induction p as [|[b0 fm] t IH]; cbn [pend_update]; intros H.
  - destruct H as [<- | []]. left; reflexivity.
  - db b0 b.
    + destruct H as [<- | H]; [left; exact E|]. right. exists x. split; [right; exact H | reflexivity].
    + destruct H as [<- | H].
      * right. exists (b0, fm). split; [left; reflexivity | reflexivity].
      * destruct (IH H) as [Hx | [y [Hy Hf]]]; [left; exact Hx|]. right. exists y. split; [right; exact Hy | exact Hf].
Qed.

Lemma partition_all {A} (p : A -> bool) l : (forall x, In x l -> p x = true) -> partition p l = (l, []).
Proof.
  induction l as [|a t IH]; intros H; cbn [partition]; [reflexivity|].
  rewrite IH by (intros x Hx; apply H; right; exact Hx).
  rewrite (H a) by (left; reflexivity). reflexivity.
Qed.

(* ---------------------------------------------------------------- the loop invariant *)

(* what a reader would see if everything buffered were written now *)
Definition view (s : st) (q : qkey) : option counters := db_lookup (s_disk s ++ s_pend s) q.

Record Inv (s : st) : Prop := mkInv {
  inv_pend : forall b, In b (s_pend s) -> s_cur s = Some (snd (fst b));
  inv_disk : forall b, In b (s_disk s) -> exists c, s_cur s = Some c /\ snd (fst b) < c;
  inv_nodup : NoDup (map fst (s_disk s ++ s_pend s));
  inv_ok : Forall block_ok (s_disk s ++ s_pend s)
}.

Lemma inv_st0 : Inv st0.
Proof.
  constructor; cbn [st0 s_pend s_disk s_cur app map].
  - intros b [].
  - intros b [].
  - constructor.
  - constructor.
Qed.

(* advance: afterwards everything buffered carries t, everything written is older than t *)
Lemma advance_spec t s :
  Inv s -> match s_cur s with Some c => c <= t | None => True end ->
  let s1 := advance t s in
  s_cur s1 = Some t
  /\ (forall b, In b (s_pend s1) -> snd (fst b) = t)
  /\ (forall b, In b (s_disk s1) -> snd (fst b) < t)
  /\ s_disk s1 ++ s_pend s1 = s_disk s ++ s_pend s.
Proof.
  intros [Hp Hd _ _] Hc. unfold advance. destruct (s_cur s) as [c|] eqn:Ec.
  - destruct (c <? t) eqn:Elt.
    + apply Z.ltb_lt in Elt. unfold flush_before.
      rewrite (partition_all (fun b : block => snd (fst b) <? t) (s_pend s)).
      2:{ intros x Hx. apply Z.ltb_lt. specialize (Hp x Hx). inversion Hp; subst. exact Elt. }
      cbn [set_cur s_cur s_pend s_disk]. repeat split.
      * intros b [].
      * intros b Hb. apply in_app_or in Hb. destruct Hb as [Hb | Hb].
        -- destruct (Hd b Hb) as [c' [Hc' Hlt]]. inversion Hc'; subst. lia.
        -- specialize (Hp b Hb). inversion Hp; subst. exact Elt.
      * rewrite app_nil_r. reflexivity.
    + apply Z.ltb_ge in Elt. assert (c = t) by lia. subst c. rewrite Ec. repeat split.
      * intros b Hb. specialize (Hp b Hb). inversion Hp; reflexivity.
      * intros b Hb. destruct (Hd b Hb) as [c' [Hc' Hlt]]. inversion Hc'; subst. exact Hlt.
  - cbn [set_cur s_cur s_pend s_disk]. repeat split.
    + intros b Hb. specialize (Hp b Hb). discriminate.
    + intros b Hb. destruct (Hd b Hb) as [c' [Hc' _]]. discriminate.
Qed.

Lemma advance_counts t s :
  s_read (advance t s) = s_read s /\ s_imp (advance t s) = s_imp s /\ s_skip (advance t s) = s_skip s.
Proof.
  unfold advance. destruct (s_cur s); [|cbn; auto]. destruct (_ <? _); [|auto].
  unfold flush_before. destruct (partition _ _). cbn. auto.
Qed.

Definition single (a : arow) (q : qkey) : option counters := if qkey_eqb (q_of a) q then Some (a_c a) else None.

(* buffering one accepted row adds exactly that row to the view *)
Lemma insert_spec a s1 :
  s_cur s1 = Some (a_ts a) ->
  (forall b, In b (s_pend s1) -> snd (fst b) = a_ts a) ->
  (forall b, In b (s_disk s1) -> snd (fst b) < a_ts a) ->
  NoDup (map fst (s_disk s1 ++ s_pend s1)) -> Forall block_ok (s_disk s1 ++ s_pend s1) ->
  Inv (insert a s1) /\ forall q, view (insert a s1) q = oplus (view s1 q) (single a q).
Proof.
  intros Hc Hp Hd Hnd Hok. set (b := (a_iface a, a_ts a)).
  assert (Hnotdisk : forall x, In x (s_disk s1) -> fst x <> b).
  { intros x Hx Heq. specialize (Hd x Hx). rewrite Heq in Hd. cbn [b snd] in Hd. lia. }
  split.
  - constructor; cbn [insert s_pend s_disk s_cur].
    + intros x Hx. rewrite Hc. f_equal. apply in_pend_update in Hx. destruct Hx as [Hx | [y [Hy Hf]]].
      * rewrite Hx. reflexivity.
      * rewrite <- Hf. symmetry. apply Hp. exact Hy.
    + intros x Hx. exists (a_ts a). split; [exact Hc | apply Hd; exact Hx].
    + rewrite map_app in *. fold b. unfold block in *.
      destruct (pend_update_keys (s_pend s1) b (a_key a) (a_c a)) as [-> | [Hn ->]]; [exact Hnd|].
      rewrite app_assoc. apply NoDup_snoc; [exact Hnd|].
      intros Hin. apply in_app_or in Hin. destruct Hin as [Hin | Hin]; [|apply Hn; exact Hin].
      apply in_map_iff in Hin. destruct Hin as [x [Hfx Hx]]. apply (Hnotdisk x Hx Hfx).
    + apply Forall_app. apply Forall_app in Hok. destruct Hok as [H1 H2].
      split; [exact H1 | apply pend_update_ok; exact H2].
  - intros [bq kq]. unfold view, db_lookup, single, qkey_eqb, q_of. cbn [insert s_pend s_disk fst snd]. fold b.
    rewrite !assoc_block_app, assoc_block_pend_update.
    db b bq.
    + subst bq. rewrite (assoc_block_notin b (s_disk s1) Hnotdisk).
      rewrite assoc_key_fm_update. cbn [andb].
      destruct (assoc_block b (s_pend s1)) as [fm|].
      * dk (a_key a) kq; [subst kq; reflexivity | rewrite oplus_none_r; reflexivity].
      * cbn [assoc_key]. dk (a_key a) kq; reflexivity.
    + cbn [andb]. rewrite oplus_none_r. reflexivity.
Qed.

Lemma inv_bump_read s : Inv s -> Inv (bump_read s).
Proof. intros [H1 H2 H3 H4]. constructor; assumption. Qed.
Lemma inv_bump_skip s : Inv s -> Inv (bump_skip s).
Proof. intros [H1 H2 H3 H4]. constructor; assumption. Qed.
Lemma inv_bump_imp s : Inv s -> Inv (bump_imp s).
Proof. intros [H1 H2 H3 H4]. constructor; assumption. Qed.

Lemma step_skip def s r : classify def r = None -> step def s r = (bump_skip (bump_read s), false).
Proof. intros H. unfold step. rewrite H. reflexivity. Qed.

Lemma step_accept def s r a :
  Inv s -> classify def r = Some a -> match s_cur s with Some c => c <= a_ts a | None => True end ->
  exists s', step def s r = (s', false) /\ Inv s' /\ s_cur s' = Some (a_ts a)
             /\ forall q, view s' q = oplus (view s q) (single a q).
Proof.
  intros HI Hcl Hc. unfold step. rewrite Hcl. cbn [bump_read s_cur].
  assert (Hnr : match s_cur s with Some c => a_ts a <? c | None => false end = false).
  { destruct (s_cur s); [apply Z.ltb_ge; exact Hc | reflexivity]. }
  rewrite Hnr. eexists. split; [reflexivity|].
  pose proof (inv_bump_read s HI) as HI'.
  destruct (advance_spec (a_ts a) (bump_read s) HI' Hc) as [A1 [A2 [A3 A4]]].
  destruct HI' as [_ _ Hnd Hok]. rewrite <- A4 in Hnd, Hok.
  destruct (insert_spec a _ A1 A2 A3 Hnd Hok) as [I1 I2].
  split; [apply inv_bump_imp; exact I1|]. split; [exact A1|].
  intros q. change (view (bump_imp (insert a (advance (a_ts a) (bump_read s)))) q)
    with (view (insert a (advance (a_ts a) (bump_read s))) q).
  rewrite I2. unfold view at 1. rewrite A4. reflexivity.
Qed.

(* ---------------------------------------------------------------- ordered input: the refinement *)

Lemma run_ordered def : forall rows s,
  Inv s -> ord_from (s_cur s) (map a_ts (accepted def rows)) = true ->
  exists s', run def s rows = (s', false) /\ Inv s'
             /\ forall q, view s' q = oplus (view s q) (group_sum (accepted def rows) q).
Proof.
  induction rows as [|r tl IH]; intros s HI Hord; cbn [run accepted].
  - exists s. split; [reflexivity|]. split; [exact HI|]. intros q. cbn [group_sum]. rewrite oplus_none_r. reflexivity.
  - cbn [accepted] in Hord. destruct (classify def r) as [a|] eqn:Hcl.
    + cbn [map ord_from] in Hord. apply andb_true_iff in Hord. destruct Hord as [Hc Hrest].
      assert (Hc' : match s_cur s with Some c => c <= a_ts a | None => True end).
      { destruct (s_cur s); [apply Z.leb_le; exact Hc | exact I]. }
      destruct (step_accept def s r a HI Hcl Hc') as [s1 [Hs [HI1 [Hcur Hv]]]].
      rewrite Hs. rewrite <- Hcur in Hrest.
      destruct (IH s1 HI1 Hrest) as [s' [Hr [HI' Hv']]].
      exists s'. split; [exact Hr|]. split; [exact HI'|].
      intros q. rewrite Hv', Hv, oplus_assoc. f_equal.
      cbn [group_sum]. unfold single. destruct (qkey_eqb (q_of a) q); reflexivity.
    + rewrite (step_skip def s r Hcl).
      assert (HI1 : Inv (bump_skip (bump_read s))) by (apply inv_bump_skip, inv_bump_read; exact HI).
      destruct (IH (bump_skip (bump_read s)) HI1 Hord) as [s' [Hr [HI' Hv']]].
      exists s'. split; [exact Hr|]. split; [exact HI'|]. exact Hv'.
Qed.

Lemma db_wf_of_inv s : Inv s -> db_wf (s_disk s ++ s_pend s).
Proof. intros [_ _ H1 H2]. split; [exact H1 | exact H2]. Qed.

Lemma rows_stored def mx rows :
  let accs := accepted def (take_rows mx rows) in
  nondecreasing (map a_ts accs) = true ->
  let r := import def mx rows in
  r_rejected r = false /\ db_wf (r_db r) /\ forall q, db_lookup (r_db r) q = group_sum accs q.
Proof.
  intros accs Hord. unfold import.
  destruct (run_ordered def (take_rows mx rows) st0 inv_st0 Hord) as [s' [Hr [HI Hv]]].
  rewrite Hr. cbn [r_rejected r_db flush_all s_disk].
  split; [reflexivity|]. split; [apply db_wf_of_inv; exact HI|].
  intros q. specialize (Hv q). unfold view in Hv. rewrite Hv. reflexivity.
Qed.

(* ---------------------------------------------------------------- exact sums when nothing overflows *)

Definition c_nonneg (c : counters) : Prop := 0 <= c_br c /\ 0 <= c_bs c /\ 0 <= c_pr c /\ 0 <= c_ps c.

Lemma group_sum_exact_nonneg accs q :
  (forall a, In a accs -> c_in_range (a_c a)) ->
  match group_sum_exact accs q with Some c => c_nonneg c | None => True end.
Proof.
  induction accs as [|a t IH]; intros H; cbn [group_sum_exact]; [exact I|].
  assert (Ht : forall x, In x t -> c_in_range (a_c x)) by (intros x Hx; apply H; right; exact Hx).
  specialize (IH Ht). destruct (qkey_eqb (q_of a) q); [|exact IH].
  destruct (H a (or_introl eq_refl)) as [[? ?] [[? ?] [[? ?] [? ?]]]].
  destruct (group_sum_exact t q) as [y|].
  - destruct IH as [? [? [? ?]]]. unfold c_nonneg, cadd_exact; cbn [c_br c_bs c_pr c_ps]. lia.
  - unfold c_nonneg. lia.
Qed.

Lemma group_sum_is_exact accs q :
  (forall a, In a accs -> c_in_range (a_c a)) ->
  match group_sum_exact accs q with Some c => c_in_range c | None => True end ->
  group_sum accs q = group_sum_exact accs q.
Proof.
  induction accs as [|a t IH]; intros H Hr; cbn [group_sum group_sum_exact] in *; [reflexivity|].
  assert (Ht : forall x, In x t -> c_in_range (a_c x)) by (intros x Hx; apply H; right; exact Hx).
  destruct (qkey_eqb (q_of a) q); [|apply IH; assumption].
  pose proof (group_sum_exact_nonneg t q Ht) as Hnn.
  destruct (H a (or_introl eq_refl)) as [[? ?] [[? ?] [[? ?] [? ?]]]].
  destruct (group_sum_exact t q) as [y|] eqn:Ey.
  - destruct Hnn as [? [? [? ?]]].
    destruct Hr as [[? ?] [[? ?] [[? ?] [? ?]]]]. cbn [cadd_exact c_br c_bs c_pr c_ps] in *.
    rewrite IH; [|exact Ht|].
    + cbn [oplus]. f_equal. unfold cadd, cadd_exact, wadd. f_equal; apply Z.mod_small; lia.
    + unfold c_in_range. lia.
  - rewrite IH; [reflexivity | exact Ht | exact I].
Qed.

Lemma rows_stored_exact def mx rows :
  let accs := accepted def (take_rows mx rows) in
  nondecreasing (map a_ts accs) = true ->
  (forall a, In a accs -> c_in_range (a_c a)) ->
  forall q, match group_sum_exact accs q with Some c => c_in_range c | None => True end ->
  db_lookup (r_db (import def mx rows)) q = group_sum_exact accs q.
Proof.
  intros accs Hord Hin q Hq.
  destruct (rows_stored def mx rows Hord) as [_ [_ Hv]]. rewrite Hv.
  apply group_sum_is_exact; assumption.
Qed.

(* ---------------------------------------------------------------- accounting *)

Lemma step_counts def s r :
  let s' := fst (step def s r) in
  let rej := snd (step def s r) in
  s_read s' = s_read s + 1
  /\ s_imp s' + s_skip s' + (if rej then 1 else 0) = s_imp s + s_skip s + 1
  /\ (rej = false -> s_imp s' = s_imp s + match classify def r with Some _ => 1 | None => 0 end).
Proof.
  unfold step. destruct (classify def r) as [a|].
  - destruct (match s_cur (bump_read s) with Some c => a_ts a <? c | None => false end).
    + cbn. repeat split; try lia; try discriminate.
    + cbn [fst snd bump_imp insert s_read s_imp s_skip].
      destruct (advance_counts (a_ts a) (bump_read s)) as [-> [-> ->]]. cbn. repeat split; try lia.
  - cbn. repeat split; try lia.
Qed.

Lemma run_counts def : forall rows s,
  let s' := fst (run def s rows) in
  let rej := snd (run def s rows) in
  s_read s' - s_imp s' - s_skip s' = s_read s - s_imp s - s_skip s + (if rej then 1 else 0)
  /\ (rej = false -> s_read s' = s_read s + Z.of_nat (List.length rows)
                     /\ s_imp s' = s_imp s + Z.of_nat (List.length (accepted def rows))).
Proof.
  induction rows as [|r tl IH]; intros s; cbn [run].
  - cbn. split; [lia|]. intros _. lia.
  - pose proof (step_counts def s r) as Hs. destruct (step def s r) as [s1 rej1].
    cbn [fst snd] in Hs. destruct Hs as [H1 [H2 H3]]. destruct rej1.
    + cbn [fst snd]. split; [lia | discriminate].
    + specialize (IH s1). cbn zeta in IH. destruct IH as [I1 I2]. split; [lia|].
      intros Hr. destruct (I2 Hr) as [I3 I4]. specialize (H3 eq_refl).
      cbn [accepted List.length]. destruct (classify def r); cbn [List.length]; lia.
Qed.

Lemma accounting def mx rows :
  let r := import def mx rows in
  let m := r_sum r in
  m_read m = m_imp m + m_skip m + (if r_rejected r then 1 else 0)
  /\ (r_rejected r = false ->
      m_read m = Z.of_nat (List.length (take_rows mx rows))
      /\ m_imp m = Z.of_nat (List.length (accepted def (take_rows mx rows)))).
Proof.
  unfold import. pose proof (run_counts def (take_rows mx rows) st0) as H.
  destruct (run def st0 (take_rows mx rows)) as [s rej]. cbn [fst snd] in H. destruct H as [H1 H2].
  cbn [st0 s_read s_imp s_skip] in *. destruct rej; cbn [r_sum r_rejected m_read m_imp m_skip flush_all s_read s_imp s_skip].
  - split; [lia | discriminate].
  - split; [lia|]. intros _. destruct (H2 eq_refl). split; lia.
Qed.

(* ---------------------------------------------------------------- regressions are rejected *)

Lemma advance_cur t s :
  match s_cur s with Some c => c <= t | None => True end -> s_cur (advance t s) = Some t.
Proof.
  intros H. unfold advance. destruct (s_cur s) as [c|] eqn:Ec; [|reflexivity].
  destruct (c <? t) eqn:E.
  - unfold flush_before. destruct (partition _ _). reflexivity.
  - apply Z.ltb_ge in E. rewrite Ec. f_equal. lia.
Qed.

Lemma run_reject def : forall rows s,
  ord_from (s_cur s) (map a_ts (accepted def rows)) = false -> snd (run def s rows) = true.
Proof.
  induction rows as [|r tl IH]; intros s Hord; cbn [run accepted] in *; [discriminate|].
  unfold step. destruct (classify def r) as [a|] eqn:Hcl.
  - cbn [map ord_from] in Hord. cbn [bump_read s_cur].
    destruct (s_cur s) as [c|] eqn:Ec.
    + destruct (a_ts a <? c) eqn:Elt; [reflexivity|].
      apply Z.ltb_ge in Elt. assert (Hle : (c <=? a_ts a) = true) by (apply Z.leb_le; exact Elt).
      rewrite Hle in Hord. cbn [andb] in Hord.
      apply IH. cbn [bump_imp insert s_cur]. rewrite advance_cur; [exact Hord|].
      cbn [bump_read s_cur]. rewrite Ec. exact Elt.
    + cbn [andb] in Hord. apply IH. cbn [bump_imp insert s_cur]. rewrite advance_cur; [exact Hord|].
      cbn [bump_read s_cur]. rewrite Ec. exact I.
  - apply IH. cbn [bump_skip bump_read s_cur]. exact Hord.
Qed.

Lemma regression_rejected def mx rows :
  nondecreasing (map a_ts (accepted def (take_rows mx rows))) = false ->
  r_rejected (import def mx rows) = true.
Proof.
  intros H. unfold import. pose proof (run_reject def (take_rows mx rows) st0 H) as Hr.
  destruct (run def st0 (take_rows mx rows)) as [s rej]. cbn [snd] in Hr. subst rej. reflexivity.
Qed.
