(* C26 property theorems. Nothing but statements closed by `exact`, Print Assumptions, examples. *)
From Coq Require Import List ZArith String Bool.
From GoProbe.C26 Require Import Model Proofs.
Import ListNotations.
Open Scope Z_scope.

(* For EVERY list of rows (well-formed or malformed, any interface option, any row limit): if the
   accepted rows are ordered by time, the import succeeds and the destination is exactly
   GROUP BY (iface, timestamp, key) SUM(counters) of the accepted rows: one block per
   (iface, timestamp), one entry per key, no empty block, and looking up any (iface, timestamp,
   key) gives the sum (in uint64 arithmetic) of the counters of the accepted rows carrying it -
   None when there is no such row. *)
Theorem c26_rows_stored : forall def mx rows,
  let accs := accepted def (take_rows mx rows) in
  nondecreasing (map a_ts accs) = true ->
  let r := import def mx rows in
  r_rejected r = false /\ db_wf (r_db r) /\ forall q, db_lookup (r_db r) q = group_sum accs q.
Proof. exact rows_stored. Qed.
Print Assumptions c26_rows_stored.

(* ... and the stored counters are the exact sums wherever the exact sum fits into 64 bits *)
Theorem c26_rows_stored_exact : forall def mx rows,
  let accs := accepted def (take_rows mx rows) in
  nondecreasing (map a_ts accs) = true ->
  (forall a, In a accs -> c_in_range (a_c a)) ->
  forall q, match group_sum_exact accs q with Some c => c_in_range c | None => True end ->
  db_lookup (r_db (import def mx rows)) q = group_sum_exact accs q.
Proof. exact rows_stored_exact. Qed.
Print Assumptions c26_rows_stored_exact.

(* rows read = rows imported + rows skipped (+ the one offending row when the import is rejected);
   on success every row of the (possibly limited) file is read and the imported rows are exactly
   the accepted ones *)
Theorem c26_accounting : forall def mx rows,
  let r := import def mx rows in
  let m := r_sum r in
  m_read m = m_imp m + m_skip m + (if r_rejected r then 1 else 0)
  /\ (r_rejected r = false ->
      m_read m = Z.of_nat (List.length (take_rows mx rows))
      /\ m_imp m = Z.of_nat (List.length (accepted def (take_rows mx rows)))).
Proof. exact accounting. Qed.
Print Assumptions c26_accounting.

(* input whose accepted rows go backwards in time is rejected with the ordering error *)
Theorem c26_regression_rejected : forall def mx rows,
  nondecreasing (map a_ts (accepted def (take_rows mx rows))) = false ->
  r_rejected (import def mx rows) = true.
Proof. exact regression_rejected. Qed.
Print Assumptions c26_regression_rejected.

(* ---------------------------------------------------------------- non-vacuity *)

Definition ex_rows : list row :=
  [ R (Some "eth0"%string) 1700000000 (Some (V4 167772161)) (Some (V4 167772162)) 443 6 100 10 1 1;
    M;
    R (Some "eth0"%string) 1700000000 (Some (V4 167772161)) (Some (V4 167772162)) 443 6 200 20 2 2;
    R (Some "eth0"%string) 1700000000 (Some (V4 167772161)) (Some (V6 1)) 443 6 9 9 9 9;
    R (Some "eth1"%string) 1700000300 (Some (V6 7)) None 53 17 5 5 5 5 ].

(* an ordered file with a duplicate key, a malformed row and a mixed-family row: the hypotheses of
   c26_rows_stored(_exact) hold, and the duplicate is stored as the sum 300/30/3/3 *)
Example c26_rows_stored_example :
  let accs := accepted ""%string (take_rows 0 ex_rows) in
  nondecreasing (map a_ts accs) = true
  /\ List.length accs = 3%nat
  /\ db_lookup (r_db (import ""%string 0 ex_rows))
               ("eth0"%string, 1700000000, mkK true 167772161 167772162 443 6) = Some (mkC 300 30 3 3)
  /\ group_sum_exact accs ("eth0"%string, 1700000000, mkK true 167772161 167772162 443 6) = Some (mkC 300 30 3 3).
Proof. vm_compute. repeat split; reflexivity. Qed.

Example c26_accounting_example :
  r_sum (import ""%string 0 ex_rows) = mkSum 5 3 2 2 2.
Proof. vm_compute. reflexivity. Qed.

(* a file that goes backwards in time meets the hypothesis of c26_regression_rejected;
   the rows before the regression are read, the offending row is read but not counted *)
Example c26_regression_example :
  let rows := ex_rows ++ [R (Some "eth0"%string) 1700000299 None None 0 0 1 1 1 1] in
  nondecreasing (map a_ts (accepted ""%string (take_rows 0 rows))) = false
  /\ r_rejected (import ""%string 0 rows) = true
  /\ r_sum (import ""%string 0 rows) = mkSum 6 3 2 1 0.
Proof. vm_compute. repeat split; reflexivity. Qed.
