(* C26 correspondence: case type, corr (model = observed) and holds (observed meets the spec). *)
From Coq Require Import List ZArith String Bool.
From GoProbe.C26 Require Import Model.
Import ListNotations.
Open Scope Z_scope.

(* one row read back from the destination DB *)
Definition srow := (qkey * counters)%type.
Definition S (i : string) (t : Z) (v4 : bool) (sip dip dport proto a b c e : Z) : srow :=
  ((i, t, mkK v4 sip dip dport proto), mkC a b c e).

Record case := mkCase {
  c_def : string;            (* opts.Interface, trimmed *)
  c_max : Z;                 (* opts.MaxRows *)
  c_rows : list row;         (* the CSV data rows as the model sees them *)
  c_err : Z;                 (* 0 none, 1 ordering error, 2 other error, 3 panic, 4 read-back failed *)
  c_stored : list srow;      (* every (iface, timestamp, key, counters) found in the destination *)
  c_read : Z; c_imp : Z; c_skip : Z; c_blocks : Z; c_ifaces : Z;   (* Summary *)
  c_ondisk : Z               (* number of blocks found in the destination *)
}.

Definition counters_eqb (a b : counters) : bool :=
  (c_br a =? c_br b) && (c_bs a =? c_bs b) && (c_pr a =? c_pr b) && (c_ps a =? c_ps b).
Definition srow_eqb (a b : srow) : bool := qkey_eqb (fst a) (fst b) && counters_eqb (snd a) (snd b).

(* multiset equality *)
Definition count (l : list srow) (x : srow) : nat := List.length (filter (srow_eqb x) l).
Definition same_rows (l1 l2 : list srow) : bool :=
  Nat.eqb (List.length l1) (List.length l2) && forallb (fun x => Nat.eqb (count l1 x) (count l2 x)) l1.

Definition flatten (db : list block) : list srow :=
  flat_map (fun b : block => map (fun kc : key * counters => ((fst (fst b), snd (fst b), fst kc), snd kc)) (snd b)) db.

(* does the model still describe the code? *)
Definition corr (c : case) : bool :=
  let r := import (c_def c) (c_max c) (c_rows c) in
  let m := r_sum r in
  (c_err c =? (if r_rejected r then 1 else 0))
  && same_rows (flatten (r_db r)) (c_stored c)
  && (m_read m =? c_read c) && (m_imp m =? c_imp c) && (m_skip m =? c_skip c)
  && (m_blocks m =? c_blocks c) && (m_ifaces m =? c_ifaces c)
  && (Z.of_nat (List.length (r_db r)) =? c_ondisk c).

(* the specification, computed without the import loop: distinct (iface, ts, key) of the accepted
   rows, each with the exact sum of the counters of all accepted rows carrying it *)
Definition exact_total (all : list arow) (q : qkey) : counters :=
  fold_left (fun acc a => if qkey_eqb (q_of a) q then cadd_exact acc (a_c a) else acc) all (mkC 0 0 0 0).
Fixpoint spec_rows (seen : list qkey) (l all : list arow) : list srow :=
  match l with
  | [] => []
  | a :: t => if existsb (qkey_eqb (q_of a)) seen then spec_rows seen t all
              else (q_of a, exact_total all (q_of a)) :: spec_rows (q_of a :: seen) t all
  end.

(* does the observed behaviour satisfy the property? *)
Definition holds (c : case) : bool :=
  let rows := take_rows (c_max c) (c_rows c) in
  let accs := accepted (c_def c) rows in
  if nondecreasing (map a_ts accs) then
    (c_err c =? 0)
    && same_rows (spec_rows [] accs accs) (c_stored c)
    && (c_read c =? c_imp c + c_skip c)
    && (c_read c =? Z.of_nat (List.length rows))
    && (c_imp c =? Z.of_nat (List.length accs))
  else
    (c_err c =? 1).
