(* C18 proofs, part I: iteration, Flatten, Merge, reachability, key copy. *)
From stdpp Require Import list gmap.
From Coq Require Import NArith Lia.
From GoProbe.Base Require Import CorrLib.
From GoProbe.C18 Require Import Model Abs ProofsA ProofsB ProofsC ProofsD ProofsE ProofsF ProofsG ProofsH.

Lemma fold_upsert l : NoDup l.*1 -> forall M : gmap key val,
  fold_left (fun M e => upsert M e.1 e.2) l M = vunion M (list_to_map l).
Proof.
  induction l as [|[k v] l IH]; intros Hnd M; simpl.
  - apply map_eq. intros i. unfold vunion. rewrite lookup_union_with, lookup_empty. by destruct (M !! i).
  - apply NoDup_cons in Hnd as [Hk Hnd]. rewrite IH by done. apply map_eq. intros i.
    unfold vunion, upsert. rewrite !lookup_union_with.
    destruct (decide (i = k)) as [->|Hne].
    + rewrite !lookup_insert. rewrite (proj1 (not_elem_of_list_to_map _ _) Hk).
      by destruct (M !! k).
    + by rewrite !lookup_insert_ne.
Qed.

Section I.
  Variable hash : key -> N.
  Notation Inv := (Inv hash).

  Lemma iter_slots_packed m chk es r :
    iter_slots hash m chk ((fullE <$> es) ++ replicate r ERest) =
    flat_map (fun e : N * (key * val) =>
      if match chk with
         | Some cb => if same_size m then true else bidx (hash e.2.1) (length (bkts m)) =? cb
         | None => true end then [e.2] else []) es.
  Proof.
    unfold iter_slots. rewrite flat_map_app. rewrite (fm_nil _ (replicate r ERest)), app_nil_r.
    - induction es as [|[t [k v]] es IH]; [done|]. rewrite fmap_cons. simpl. by rewrite IH.
    - by intros s [-> _]%elem_of_replicate.
  Qed.

  Lemma iter_slots_none m es r :
    iter_slots hash m None ((fullE <$> es) ++ replicate r ERest) = snd <$> es.
  Proof. rewrite iter_slots_packed. induction es as [|e es IH]; [done|]. simpl. by rewrite IH. Qed.

  (* stage 1: no growth in progress *)
  Lemma iter_nogrow m : Inv m -> old m = None -> iter hash m ≡ₚ live m.
  Proof.
    intros HI Ho. unfold iter. destruct (Nat.eqb_spec (count m) 0) as [E0|_].
    { rewrite (inv_count _ _ HI) in E0. by destruct (live m). }
    rewrite (iter_order_perm _ (inv_pow _ _ HI)).
    rewrite (fm_seq (iter_bucket hash m) centries (bkts m)).
    - unfold live. rewrite Ho. simpl. by rewrite app_nil_r.
    - intros i c Hc. unfold iter_bucket. rewrite Ho. unfold chain in *. rewrite Hc. cbn [from_option id].
      destruct (inv_new _ _ HI i c Hc) as (es & r & -> & _ & _).
      by rewrite iter_slots_none, centries_packed.
  Qed.

  Lemma iter_empty0 : iter hash empty0 = [].
  Proof. reflexivity. Qed.
End I.

Lemma reach_inv hash m : reach hash m -> Inv0 hash m.
Proof.
  induction 1 as [hash hint|hash m k v m' _ IH H|hash m k d m' _ IH H|hash hs m s m' _ IH _ IHs H|hash m _ IH].
  - apply inv0_new.
  - right. by destruct (set_spec hash m k v m' IH H).
  - right. by destruct (upd_spec' hash m k d m' IH H).
  - unfold merge in H. destruct (count s =? 0); [by injection H as <-|].
    by destruct (merge_list_spec hash _ m m' IH H).
  - unfold clear. destruct (Nat.eqb_spec (count m) 0); [done|]. right.
    destruct IH as [->|HI]; [done|]. apply inv_fresh, (inv_pow _ _ HI).
Qed.

(* the caller's key buffers: a later write to a buffer that was passed as key changes nothing *)
Inductive cop := CWrite (b : N) (k : key) | CSet (b : N) (v : val) | CUpd (b : N) (d : val).
Definition cstep (hash : key -> N) (w : res hm * (N -> key)) (o : cop) : res hm * (N -> key) :=
  match o with
  | CWrite b k => (w.1, fun b' => if (b' =? b)%N then k else w.2 b')
  | CSet b v => (res_bind w.1 (fun m => set hash m (w.2 b) v), w.2)
  | CUpd b d => (res_bind w.1 (fun m => set_or_update hash m (w.2 b) d), w.2)
  end.

(* ---- statements at the level of reachable states *)
Lemma live_to_list hash m : Inv hash m -> map_to_list (abs m) ≡ₚ live m.
Proof. intros HI. apply map_to_list_to_map, (inv_nodup _ _ HI). Qed.

Lemma t_set hash m k v m' : reach hash m -> set hash m k v = Ok m' -> abs m' = <[k := v]> (abs m).
Proof. intros Hr H. by destruct (set_spec hash m k v m' (reach_inv _ _ Hr) H). Qed.

Lemma t_upd hash m k d m' : reach hash m -> set_or_update hash m k d = Ok m' -> abs m' = upsert (abs m) k d.
Proof. intros Hr H. by destruct (upd_spec' hash m k d m' (reach_inv _ _ Hr) H). Qed.

Lemma t_get hash m k : reach hash m -> get hash m k = abs m !! k.
Proof. intros Hr. apply get_spec0, reach_inv, Hr. Qed.

Lemma t_len hash m : reach hash m -> len m = size (abs m).
Proof. intros Hr. apply (len_spec0 hash), reach_inv, Hr. Qed.

Lemma t_iter_nogrow hash m : reach hash m -> old m = None -> iter hash m ≡ₚ map_to_list (abs m).
Proof.
  intros Hr Ho. destruct (reach_inv _ _ Hr) as [->|HI]; [done|].
  by rewrite (live_to_list hash m HI), (iter_nogrow hash m HI Ho).
Qed.

Lemma flatten_of_iter hash m : Inv0 hash m -> iter hash m ≡ₚ live m -> flatten hash m = Ok (iter hash m).
Proof.
  intros H0 HP. unfold flatten.
  assert (count m = length (iter hash m)) as ->.
  { rewrite HP. destruct H0 as [->|HI]; [done|apply (inv_count _ _ HI)]. }
  rewrite Nat.ltb_irrefl, Nat.sub_diag. simpl. by rewrite app_nil_r.
Qed.

Lemma t_flatten_nogrow hash m : reach hash m -> old m = None -> flatten hash m = Ok (iter hash m).
Proof.
  intros Hr Ho. pose proof (reach_inv _ _ Hr) as H0. apply flatten_of_iter; [done|].
  destruct H0 as [->|HI]; [done|by apply iter_nogrow].
Qed.

Lemma merge_of_iter hash hs m s m' :
  Inv0 hash m -> Inv0 hs s -> iter hs s ≡ₚ live s -> merge hash hs m s = Ok m' ->
  abs m' = vunion (abs m) (abs s).
Proof.
  intros H0 Hs HP H. unfold merge in H.
  assert (NoDup (live s).*1) as Hnd by (destruct Hs as [->|HI]; [constructor|apply (inv_nodup _ _ HI)]).
  destruct (Nat.eqb_spec (count s) 0) as [E0|_].
  - injection H as <-. assert (live s = []) as Hl.
    { destruct Hs as [->|HI]; [done|]. rewrite (inv_count _ _ HI) in E0. by destruct (live s). }
    unfold abs at 3. rewrite Hl. simpl. apply map_eq. intros i. unfold vunion.
    rewrite lookup_union_with, lookup_empty. by destruct (abs m !! i).
  - destruct (merge_list_spec hash _ m m' H0 H) as [_ ->].
    assert (NoDup (iter hs s).*1) as Hnd' by (by rewrite HP).
    rewrite fold_upsert by done. unfold abs at 3. f_equal. by apply list_to_map_proper.
Qed.

Lemma t_merge_nogrow hash hs m s m' :
  reach hash m -> reach hs s -> old s = None -> merge hash hs m s = Ok m' -> abs m' = vunion (abs m) (abs s).
Proof.
  intros Hr Hs Ho H. apply (merge_of_iter hash hs m s m' (reach_inv _ _ Hr) (reach_inv _ _ Hs)); [|done].
  destruct (reach_inv _ _ Hs) as [->|HI]; [done|by apply iter_nogrow].
Qed.

Lemma t_key_copied hash m bufs b v k2 m' :
  reach hash m -> set hash m (bufs b) v = Ok m' ->
  (fold_left (cstep hash) [CSet b v; CWrite b k2] (Ok m, bufs)).1 = Ok m' /\
  get hash m' (bufs b) = Some v /\ abs m' = <[bufs b := v]> (abs m).
Proof.
  intros Hr H. simpl. split; [done|].
  assert (abs m' = <[bufs b := v]> (abs m)) as HA by (by eapply t_set).
  split; [|done]. rewrite (t_get hash m' (bufs b)) by (by eapply r_set). by rewrite HA, lookup_insert.
Qed.
