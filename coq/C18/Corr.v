(* C18 correspondence: case type, corr (model = observed real map, including the internal dump digest)
   and holds (observed Len/Get/iteration/Flatten meet the abstract additive map). Executable only. *)
From Coq Require Import List NArith Bool Arith String Ascii FMapPositive.
From GoProbe.Base Require Import CorrLib.
From GoProbe.C18 Require Import Model.
Import ListNotations.

(* what the harness observed on the real map at a checkpoint *)
Record obs := Obs {
  o_len : N;                              (* Len() *)
  o_nb : N;                               (* len(buckets) *)
  o_old : N;                              (* length of oldBuckets, 0 when not growing *)
  o_same : bool;                          (* sameSizeGrow flag *)
  o_nevac : N; o_novf : N;                (* nEvacuate, nOverflow *)
  o_dig : N;                              (* digest of every cell's tophash/key/value, old and new *)
  o_gets : list (N * option val);         (* probed Get results *)
  o_iter : option (list (N * val));       (* Iter() sequence (only at full checkpoints) *)
  o_flat : bool                           (* Flatten() == the Iter() sequence *)
}.

Inductive op :=
| OS (k : N) (v : val)                                  (* Set *)
| OU (k : N) (v : val)                                  (* SetOrUpdate *)
| OM (hint : N) (ht : list (N * N)) (ops : list op)     (* Merge(src), src = New(hint) + ops (OS/OU), own seed *)
| OC (o : obs)                                          (* checkpoint *)
| OCl                                                   (* Clear *)
| OR (k0 n : N) (down : bool) (v : val).                (* n SetOrUpdate calls on ids k0, k0+1, .. (or k0-1, ..) *)

(* Case: hash given as a finite table.  CaseBig (large tables): key id k has the hash whose low `bits` bits are
   those of k and whose top byte is the k-th byte of `tops` (two lower-case hex digits per id, ids from 1);
   the harness realises this function with real keys whose xxh3 agrees on exactly these observable bits. *)
Inductive case :=
| Case (c_hint : N) (c_ht : list (N * N)) (c_ops : list op) (c_panic : bool)
| CaseBig (hint bits : N) (tops : list string) (ops : list op) (panicked : bool).

Definition hexv (a : ascii) : N := let n := N_of_ascii a in if (n <? 58)%N then (n - 48)%N else (n - 87)%N.
Fixpoint tops_chunk (s : string) (st : positive * PositiveMap.t N) : positive * PositiveMap.t N :=
  match s with
  | String a (String b r) => tops_chunk r (Pos.succ (fst st), PositiveMap.add (fst st) (hexv a * 16 + hexv b)%N (snd st))
  | _ => st
  end.
Definition tops_map (l : list string) : PositiveMap.t N :=
  snd (fold_left (fun st s => tops_chunk s st) l (1%positive, PositiveMap.empty N)).
Definition big_hash (bits : N) (tm : PositiveMap.t N) (k : N) : N :=
  match k with
  | N0 => 0%N
  | Npos p => (N.land k (N.ones bits) + N.shiftl (match PositiveMap.find p tm with Some t => t | None => 0 end) 56)%N
  end.

Fixpoint hash_of (ht : list (N * N)) (k : N) : N :=
  match ht with
  | [] => 0%N
  | (k', h) :: r => if (k =? k')%N then h else hash_of r k
  end.

(* ---- digest of the internal state, mirrored by the harness over the real dump *)
Definition M61 : N := N.ones 61.
Definition mix (h x : N) : N := N.land (h * 1000003 + x) M61.           (* cheap in N: small multiplier, mask *)
Definition fv (x : N) : N := (N.land x M61 + N.shiftr x 61)%N.            (* a 64-bit counter folded below 2^62 *)
Definition dig_val (h : N) (v : val) : N :=
  mix (mix h (fv (v_a v) + 3 * fv (v_b v))) (fv (v_c v) + 3 * fv (v_d v)).
Definition dig_slot (h : N) (s : slot) : N :=
  match s with
  | ERest => mix h 0 | EOne => mix h 1 | EvEmpty => mix h 4
  | Full t k v => dig_val (mix h (t + 256 * k)) v
  | EvX k v => dig_val (mix h (2 + 256 * k)) v
  | EvY k v => dig_val (mix h (3 + 256 * k)) v
  end.
Definition dig_chain (h : N) (c : chain) : N := fold_left dig_slot c (mix h (1000 + N.of_nat (List.length c))).
Definition dig_table (h : N) (l : list chain) : N := fold_left dig_chain l (mix h (2000 + N.of_nat (List.length l))).
Definition digest (m : hm) : N :=
  let h := dig_table 7 (bkts m) in
  match old m with None => mix h 5000 | Some ol => dig_table (mix h 5001) ol end.

(* ---- comparisons *)
Definition val_eqb (x y : val) : bool :=
  (v_a x =? v_a y)%N && (v_b x =? v_b y)%N && (v_c x =? v_c y)%N && (v_d x =? v_d y)%N.
Definition oval_eqb (x y : option val) : bool :=
  match x, y with Some a, Some b => val_eqb a b | None, None => true | _, _ => false end.
Fixpoint kvs_eqb (x y : list (N * val)) : bool :=
  match x, y with
  | [], [] => true
  | (k, v) :: x', (k', v') :: y' => (k =? k')%N && val_eqb v v' && kvs_eqb x' y'
  | _, _ => false
  end.
Definition rkvs_eqb (x y : res (list (N * val))) : bool := res_eqb kvs_eqb x y.

(* ---- running the model *)
Fixpoint run_plain (hash : N -> N) (m : res hm) (ops : list op) : res hm :=
  match ops with
  | [] => m
  | o :: r =>
    let m' := match o with
              | OS k v => res_bind m (fun m => set hash m k v)
              | OU k v => res_bind m (fun m => set_or_update hash m k v)
              | _ => m
              end in
    run_plain hash m' r
  end.

Fixpoint run_range (hash : N -> N) (fuel : nat) (k : N) (down : bool) (v : val) (m : res hm) : res hm :=
  match fuel with
  | O => m
  | S f => run_range hash f (if down then k - 1 else k + 1)%N down v (res_bind m (fun m => set_or_update hash m k v))
  end.

Definition check_obs (hash : N -> N) (m : hm) (o : obs) : bool :=
  (N.of_nat (count m) =? o_len o)%N
  && (N.of_nat (List.length (bkts m)) =? o_nb o)%N
  && (match old m with None => 0 | Some ol => N.of_nat (List.length ol) end =? o_old o)%N
  && Bool.eqb (same_size m) (o_same o)
  && (N.of_nat (n_evac m) =? o_nevac o)%N
  && (N.of_nat (n_ovf m) =? o_novf o)%N
  && (digest m =? o_dig o)%N
  && forallb (fun '(k, r) => oval_eqb (get hash m k) r) (o_gets o)
  && match o_iter o with     (* full checkpoints only: iteration is quadratic in the model on large tables *)
     | Some l => kvs_eqb (iter hash m) l && Bool.eqb (rkvs_eqb (flatten hash m) (Ok (iter hash m))) (o_flat o)
     | None => true
     end.

Fixpoint run_chk (hash : N -> N) (m : res hm) (ops : list op) : res hm * bool :=
  match ops with
  | [] => (m, true)
  | o :: r =>
    match o with
    | OS k v => run_chk hash (res_bind m (fun m => set hash m k v)) r
    | OU k v => run_chk hash (res_bind m (fun m => set_or_update hash m k v)) r
    | OM hint ht ops' =>
      let hs := hash_of ht in
      let src := run_plain hs (Ok (new_hint (N.to_nat hint))) ops' in
      run_chk hash (res_bind m (fun m => res_bind src (fun s => merge hash hs m s))) r
    | OCl => run_chk hash (res_bind m (fun m => Ok (clear m))) r
    | OR k0 n down v => run_chk hash (run_range hash (N.to_nat n) k0 down v m) r
    | OC ob =>
      match m with
      | Ok mm => let '(m', b) := run_chk hash m r in (m', check_obs hash mm ob && b)
      | _ => (m, false)
      end
    end
  end.

(* does the model still describe the code? *)
Definition corr (c : case) : bool :=
  match c with
  | Case hint ht ops pk =>
    let '(m, b) := run_chk (hash_of ht) (Ok (new_hint (N.to_nat hint))) ops in
    b && match m with Ok _ => negb pk | Panic => pk | Err => false end
  | CaseBig hint bits tops ops pk =>
    let '(m, b) := run_chk (big_hash bits (tops_map tops))
                           (Ok (new_hint (N.to_nat hint))) ops in
    b && match m with Ok _ => negb pk | Panic => pk | Err => false end
  end.

(* ---- the specification: an association list sorted by key, counters summed per key *)
Fixpoint sp_upd (f : option val -> val) (k : N) (l : list (N * val)) : list (N * val) :=
  match l with
  | [] => [(k, f None)]
  | (k', v) :: r =>
    if (k <? k')%N then (k, f None) :: l
    else if (k =? k')%N then (k, f (Some v)) :: r
    else (k', v) :: sp_upd f k r
  end.
Definition sp_set (k : N) (v : val) := sp_upd (fun _ => v) k.
Definition sp_add (k : N) (d : val) := sp_upd (fun o => match o with Some v => vadd v d | None => d end) k.
Fixpoint sp_get (k : N) (l : list (N * val)) : option val :=
  match l with [] => None | (k', v) :: r => if (k =? k')%N then Some v else sp_get k r end.
Fixpoint sp_plain (l : list (N * val)) (ops : list op) : list (N * val) :=
  match ops with
  | [] => l
  | OS k v :: r => sp_plain (sp_set k v l) r
  | OU k v :: r => sp_plain (sp_add k v l) r
  | _ :: r => sp_plain l r
  end.
(* sorting an observed sequence (duplicates are kept, so they make the comparison fail) *)
Fixpoint ins_sorted (e : N * val) (l : list (N * val)) : list (N * val) :=
  match l with
  | [] => [e]
  | e' :: r => if (fst e <=? fst e')%N then e :: l else e' :: ins_sorted e r
  end.
Definition sort_kvs (l : list (N * val)) : list (N * val) := fold_right ins_sorted [] l.

Definition holds_obs (sp : list (N * val)) (o : obs) : bool :=
  (o_len o =? N.of_nat (List.length sp))%N
  && forallb (fun '(k, r) => oval_eqb (sp_get k sp) r) (o_gets o)
  && match o_iter o with Some l => kvs_eqb (sort_kvs l) sp | None => true end
  && o_flat o.

Fixpoint sp_range (fuel : nat) (k : N) (down : bool) (v : val) (sp : list (N * val)) : list (N * val) :=
  match fuel with
  | O => sp
  | S f => sp_range f (if down then k - 1 else k + 1)%N down v (sp_add k v sp)
  end.

Fixpoint holds_run (sp : list (N * val)) (ops : list op) : bool :=
  match ops with
  | [] => true
  | OS k v :: r => holds_run (sp_set k v sp) r
  | OU k v :: r => holds_run (sp_add k v sp) r
  | OM _ _ ops' :: r =>
    holds_run (fold_left (fun acc e => sp_add (fst e) (snd e) acc) (sp_plain [] ops') sp) r
  | OC o :: r => holds_obs sp o && holds_run sp r
  | OCl :: r => holds_run [] r
  | OR k0 n down v :: r => holds_run (sp_range (N.to_nat n) k0 down v sp) r
  end.

(* large tables: the same specification on a positive-indexed map (Set / SetOrUpdate / ranges / Clear) *)
Definition pm_get (k : N) (M : PositiveMap.t val) : option val :=
  match k with Npos p => PositiveMap.find p M | N0 => None end.
Definition pm_put (f : option val -> val) (k : N) (M : PositiveMap.t val) : PositiveMap.t val :=
  match k with Npos p => PositiveMap.add p (f (PositiveMap.find p M)) M | N0 => M end.
Definition pm_add (k : N) (d : val) := pm_put (fun o => match o with Some v => vadd v d | None => d end) k.
Fixpoint pm_range (fuel : nat) (k : N) (down : bool) (v : val) (M : PositiveMap.t val) : PositiveMap.t val :=
  match fuel with
  | O => M
  | S f => pm_range f (if down then k - 1 else k + 1)%N down v (pm_add k v M)
  end.
Definition holds_obs_big (M : PositiveMap.t val) (o : obs) : bool :=
  (o_len o =? N.of_nat (PositiveMap.cardinal M))%N
  && forallb (fun '(k, r) => oval_eqb (pm_get k M) r) (o_gets o)
  && match o_iter o with
     | Some l => kvs_eqb (sort_kvs l) (map (fun e => (Npos (fst e), snd e)) (PositiveMap.elements M))
     | None => true end
  && o_flat o.
Fixpoint holds_big (M : PositiveMap.t val) (ops : list op) : bool :=
  match ops with
  | [] => true
  | OS k v :: r => holds_big (pm_put (fun _ => v) k M) r
  | OU k v :: r => holds_big (pm_add k v M) r
  | OR k0 n down v :: r => holds_big (pm_range (N.to_nat n) k0 down v M) r
  | OCl :: r => holds_big (PositiveMap.empty val) r
  | OC o :: r => holds_obs_big M o && holds_big M r
  | OM _ _ _ :: r => false
  end.

(* does the observed behaviour satisfy the property? *)
Definition holds (c : case) : bool :=
  match c with
  | Case _ _ ops pk => negb pk && holds_run [] ops
  | CaseBig _ _ _ ops pk => negb pk && holds_big (PositiveMap.empty val) ops
  end.
