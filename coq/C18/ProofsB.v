(* C18 proofs, part B: chains (scan, update, insert), evacuation destinations. *)
From stdpp Require Import list gmap.
From Coq Require Import NArith Lia.
From GoProbe.Base Require Import CorrLib.
From GoProbe.C18 Require Import Model Abs ProofsA.

Lemma centries_app c1 c2 : centries (c1 ++ c2) = centries c1 ++ centries c2.
Proof. apply flat_map_app. Qed.
Lemma centries_full es : centries (fullE <$> es) = snd <$> es.
Proof. induction es as [|[t [k v]] es IH]; [done|]. rewrite !fmap_cons. simpl. f_equal. apply IH. Qed.
Lemma centries_rest r : centries (replicate r ERest) = [].
Proof. induction r; simpl; auto. Qed.
Lemma centries_packed es r : centries ((fullE <$> es) ++ replicate r ERest) = snd <$> es.
Proof. by rewrite centries_app, centries_full, centries_rest, app_nil_r. Qed.
Lemma centries_empty_cell : centries empty_cell = [].
Proof. reflexivity. Qed.

Lemma evacuated_packed es r : evacuated ((fullE <$> es) ++ replicate r ERest) = false.
Proof. destruct es as [|[t [k v]] es]; [destruct r|]; reflexivity. Qed.

Notation ltm l := (list_to_map l : gmap key val).

Lemma scan_get_packed top k es r :
  Forall (fun e => e.2.1 = k -> e.1 = top) es ->
  scan_get top k ((fullE <$> es) ++ replicate r ERest) = (fun v => (k, v)) <$> (ltm (snd <$> es) !! k).
Proof.
  induction es as [|[t [k' v]] es IH]; intros HF.
  - destruct r; reflexivity.
  - inversion_clear HF as [|? ? H1 H2]. rewrite !fmap_cons. simpl in *.
    destruct (N.eqb_spec k' k) as [->|Hne].
    + rewrite H1 by done. rewrite N.eqb_refl. simpl. by rewrite lookup_insert.
    + rewrite andb_false_r. rewrite lookup_insert_ne by done. by apply IH.
Qed.

Lemma scan_set_absent top k es r p :
  k ∉ (snd <$> es).*1 ->
  scan_set top k ((fullE <$> es) ++ replicate r ERest) p None =
  NotFound (match r with 0 => None | S _ => Some (p + length es) end).
Proof.
  revert p. induction es as [|[t [k' v]] es IH]; intros p Hk.
  - destruct r; simpl; [done|]. do 2 f_equal. lia.
  - rewrite !fmap_cons in *. simpl in *. apply not_elem_of_cons in Hk as [Hne Hk].
    destruct (N.eqb_spec k' k) as [->|_]; [done|]. rewrite andb_false_r.
    rewrite IH by done. destruct r; [done|]. do 2 f_equal. lia.
Qed.

Lemma scan_set_present top k es1 t v es2 r p :
  k ∉ (snd <$> es1).*1 -> t = top ->
  scan_set top k ((fullE <$> (es1 ++ (t, (k, v)) :: es2)) ++ replicate r ERest) p None = Found (p + length es1).
Proof.
  intros Hk ->. revert p Hk. induction es1 as [|[t' [k' v']] es1 IH]; intros p Hk.
  - simpl. rewrite !N.eqb_refl. simpl. f_equal. lia.
  - rewrite <-app_comm_cons, !fmap_cons in *. simpl in *. apply not_elem_of_cons in Hk as [Hne Hk].
    destruct (N.eqb_spec k' k) as [->|_]; [done|]. rewrite andb_false_r.
    rewrite IH by done. f_equal. lia.
Qed.

Lemma alter_packed f es1 t k v es2 r :
  alter (upd_slot f) (length es1) ((fullE <$> (es1 ++ (t, (k, v)) :: es2)) ++ replicate r ERest)
  = (fullE <$> (es1 ++ (t, (k, f v)) :: es2)) ++ replicate r ERest.
Proof.
  rewrite !fmap_app, !fmap_cons, <-!app_assoc.
  rewrite alter_app_r_alt by (rewrite fmap_length; lia).
  rewrite fmap_length, Nat.sub_diag. reflexivity.
Qed.

Lemma insert_packed es r s :
  <[length es := fullE s]> ((fullE <$> es) ++ replicate (S r) ERest) = (fullE <$> (es ++ [s])) ++ replicate r ERest.
Proof.
  rewrite insert_app_r_alt by (rewrite fmap_length; lia).
  rewrite fmap_length, Nat.sub_diag. simpl. rewrite fmap_app, <-app_assoc. reflexivity.
Qed.

Lemma append_packed es s r :
  ((fullE <$> es) ++ replicate 0 ERest) ++ fullE s :: replicate r ERest = (fullE <$> (es ++ [s])) ++ replicate r ERest.
Proof. simpl. rewrite app_nil_r, fmap_app, <-app_assoc. reflexivity. Qed.

(* ---- evacuation destinations *)
Definition dst_wf (d : dst) (es : list (N * (key * val))) : Prop :=
  d_pre d ++ take (d_i d) (d_cur d) = fullE <$> es /\
  drop (d_i d) (d_cur d) = replicate (8 - d_i d) ERest /\
  d_i d <= 8 /\ d_tail d = [] /\ length (d_cur d) = 8.

Lemma dst_wf_init : dst_wf (dst_init empty_cell) [].
Proof. repeat split; simpl; lia. Qed.

Lemma dst_wf_put d es e : dst_wf d es -> dst_wf (dst_put d (fullE e)) (es ++ [e]).
Proof.
  intros (H1 & H2 & H3 & H4 & H5). unfold dst_put.
  destruct (Nat.eqb_spec (d_i d) 8) as [E|E].
  - repeat split; simpl; try lia; try done.
    rewrite E, take_ge in H1 by lia. rewrite fmap_app, <-H1. reflexivity.
  - assert (d_i d < 8) as Hlt by lia. repeat split; simpl; try lia; try done.
    + rewrite fmap_app, <-H1, <-app_assoc. f_equal.
      rewrite take_S_r with (x := fullE e) by (apply list_lookup_insert; lia).
      rewrite take_insert by lia. done.
    + rewrite drop_insert_gt by lia.
      replace (S (d_i d)) with (d_i d + 1) by lia. rewrite <-drop_drop, H2.
      rewrite drop_replicate. f_equal. lia.
    + by rewrite insert_length.
Qed.

Lemma dst_wf_chain d es : dst_wf d es -> dst_chain d = (fullE <$> es) ++ replicate (8 - d_i d) ERest.
Proof.
  intros (H1 & H2 & H3 & H4 & H5). unfold dst_chain. rewrite H4, app_nil_r.
  rewrite <-(take_drop (d_i d) (d_cur d)) at 1. rewrite H2, app_assoc, H1. done.
Qed.
