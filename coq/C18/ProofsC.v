(* C18 proofs, part C: evacuation of a chain; the evacuation mark. *)
From stdpp Require Import list gmap.
From Coq Require Import NArith Lia.
From GoProbe.Base Require Import CorrLib.
From GoProbe.C18 Require Import Model Abs ProofsA ProofsB.

Lemma fm_insert_nil {A B} (f : A -> list B) l i c c' :
  l !! i = Some c -> f c = [] -> flat_map f (<[i := c']> l) ≡ₚ f c' ++ flat_map f l.
Proof.
  intros H E. rewrite (fm_lookup f l i c H), E, fm_insert by (by eapply lookup_lt_Some). simpl.
  rewrite app_assoc, (Permutation_app_comm (flat_map f (take i l))), <-app_assoc. done.
Qed.

Lemma fm_insert_to_nil {A B} (f : A -> list B) l i c c' :
  l !! i = Some c -> f c' = [] -> f c ++ flat_map f (<[i := c']> l) ≡ₚ flat_map f l.
Proof.
  intros H E. rewrite (fm_lookup f l i c H), fm_insert, E by (by eapply lookup_lt_Some). simpl.
  rewrite app_assoc, (Permutation_app_comm (f c)), <-app_assoc. done.
Qed.

Lemma filter_partition_perm {A} (P : A -> bool) (l : list A) :
  filter (fun e => P e = false) l ++ filter (fun e => P e = true) l ≡ₚ l.
Proof.
  induction l as [|a l IH]; [done|]. rewrite !filter_cons.
  destruct (P a) eqn:E; repeat case_decide; try congruence; simpl.
  - by rewrite <-Permutation_middle, IH.
  - by rewrite IH.
Qed.

Section C.
  Variable hash : key -> N.

  Definition goes_y (same : bool) (newbit : N) (e : N * (key * val)) : bool :=
    if same then false else negb (N.land (hash e.2.1) newbit =? 0)%N.
  Definition ev_mark (same : bool) (newbit : N) (e : N * (key * val)) : slot :=
    if goes_y same newbit e then EvY e.2.1 e.2.2 else EvX e.2.1 e.2.2.

  Lemma evac_chain_rest same nb r x y :
    evac_chain hash same nb (replicate r ERest) x y = Ok (replicate r EvEmpty, x, y).
  Proof. induction r as [|r IH]; simpl; [done|]. by rewrite IH. Qed.

  Lemma evac_chain_packed same nb es r x y xs ys :
    dst_wf x xs -> (same = false -> dst_wf y ys) ->
    exists x' y',
      evac_chain hash same nb ((fullE <$> es) ++ replicate r ERest) x y
        = Ok ((ev_mark same nb <$> es) ++ replicate r EvEmpty, x', y') /\
      dst_wf x' (xs ++ filter (fun e => goes_y same nb e = false) es) /\
      (if same then y' = y else dst_wf y' (ys ++ filter (fun e => goes_y same nb e = true) es)).
  Proof.
    revert x y xs ys. induction es as [|[t [k v]] es IH]; intros x y xs ys Hx Hy.
    - exists x, y. simpl. rewrite evac_chain_rest, !app_nil_r. split; [done|]. split; [done|].
      destruct same; auto.
    - rewrite !fmap_cons, !filter_cons. simpl evac_chain. unfold ev_mark at 1.
      change (if same then false else negb (N.land (hash k) nb =? 0)%N) with (goes_y same nb (t, (k, v))).
      destruct (goes_y same nb (t, (k, v))) eqn:E; repeat case_decide; try congruence.
      + assert (same = false) as -> by (destruct same; [discriminate|done]).
        destruct (IH x (dst_put y (Full t k v)) xs (ys ++ [(t, (k, v))]) Hx) as (x' & y' & -> & H1 & H2).
        { intros _. by apply (dst_wf_put y ys (t, (k, v))), Hy. }
        exists x', y'. simpl. split; [done|]. split; [done|]. by rewrite <-app_assoc in H2.
      + destruct (IH (dst_put x (Full t k v)) y (xs ++ [(t, (k, v))]) ys) as (x' & y' & -> & H1 & H2).
        { by apply (dst_wf_put x xs (t, (k, v))). } { done. }
        exists x', y'. simpl. split; [done|]. split; [|done]. by rewrite <-app_assoc in H1.
  Qed.

  Lemma ev_marked same nb es r :
    (fullE <$> es) ++ replicate r ERest <> [] ->
    evacuated ((ev_mark same nb <$> es) ++ replicate r EvEmpty) = true /\
    centries ((ev_mark same nb <$> es) ++ replicate r EvEmpty) = [].
  Proof.
    intros Hne. split.
    - destruct es as [|e es]; [destruct r; [done|reflexivity]|].
      rewrite fmap_cons. simpl. unfold ev_mark. by destruct (goes_y _ _ _).
    - rewrite centries_app. unfold centries. rewrite (fm_nil _ (replicate r EvEmpty)), app_nil_r.
      + apply fm_nil. intros s [e [-> _]]%elem_of_list_fmap. unfold ev_mark. by destruct (goes_y _ _ _).
      + intros s [-> _]%elem_of_replicate. done.
  Qed.

  Lemma count_evac_spec l lim :
    count_evac l lim <= lim /\
    forall i, i < count_evac l lim -> exists c, l !! i = Some c /\ evacuated c = true.
  Proof.
    revert l. induction lim as [|lim IH]; intros l.
    - destruct l; simpl; (split; [lia|intros; lia]).
    - destruct l as [|c l]; simpl; [split; [lia|intros; lia]|].
      destruct (evacuated c) eqn:E; [|split; [lia|intros; lia]].
      destruct (IH l) as [H1 H2]. split; [lia|]. intros [|i] Hi; [by exists c|].
      apply H2. lia.
  Qed.
End C.
