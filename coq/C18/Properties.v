(* C18 property theorems: the flow hash map refines a finite map with additive updates.
   `run hash hint ops`: the model run of an operation history (Set / SetOrUpdate / Merge of a source built by
   its own history under its own hash function / Clear) from New(hint); `spec_run ops`: the same history on
   a finite map (ProofsN.v).  `reach hash m`: m is a state of some such history (Abs.v).
   `hash` is universally quantified: the statements hold for every hash function. *)
From stdpp Require Import list gmap.
From Coq Require Import NArith.
From GoProbe.Base Require Import CorrLib.
From GoProbe.C18 Require Import Model Abs ProofsI ProofsJ ProofsN.

(* MAIN THEOREM (unconditional): every history runs to Ok - no Go panic (index out of range, nil
   dereference, "bad map state"), the `goto again` loop ends within its bound - and the resulting table is
   the abstract map of the history: lookups, size, iteration (every entry exactly once, also mid-growth)
   and Flatten agree with it. *)
Theorem c18_refines : forall hash hint ops,
  exists m, run hash hint ops = Ok m /\ reach hash m /\
    abs m = spec_run ops /\
    (forall k, get hash m k = spec_run ops !! k) /\
    len m = size (spec_run ops) /\
    iter hash m ≡ₚ map_to_list (spec_run ops) /\
    flatten hash m = Ok (iter hash m).
Proof. exact t_refines. Qed.
Print Assumptions c18_refines.

(* totality of the single operations on every reachable state *)
Theorem c18_total : forall hash m, reach hash m ->
  (forall k v, exists m', set hash m k v = Ok m') /\
  (forall k d, exists m', set_or_update hash m k d = Ok m') /\
  (forall hs s, reach hs s -> exists m', merge hash hs m s = Ok m').
Proof.
  intros hash m Hr. split; [intros; by apply t_set_total|]. split; [intros; by apply t_upd_total|].
  intros; by apply t_merge_total.
Qed.
Print Assumptions c18_total.

(* Clear leaves a usable empty map *)
Theorem c18_clear : forall hash m, reach hash m ->
  reach hash (clear m) /\ abs (clear m) = ∅ /\ len (clear m) = 0.
Proof. intros hash m Hr. split; [by apply r_clear|by apply (t_clear hash)]. Qed.
Print Assumptions c18_clear.

(* ---- the single steps (corollaries of the same development; with c18_total their premise
   `= Ok m'` is always satisfiable) *)
(* Set overwrites / creates exactly the binding of k *)
Theorem c18_set : forall hash m k v m',
  reach hash m -> set hash m k v = Ok m' -> abs m' = <[k := v]> (abs m).
Proof. exact t_set. Qed.
Print Assumptions c18_set.

(* SetOrUpdate adds the four counters (mod 2^64) to the binding of k, or creates it *)
Theorem c18_set_or_update : forall hash m k d m',
  reach hash m -> set_or_update hash m k d = Ok m' ->
  abs m' = <[k := match abs m !! k with Some o => vadd o d | None => d end]> (abs m).
Proof. exact t_upd. Qed.
Print Assumptions c18_set_or_update.

(* Get is the lookup of the abstract map, in every reachable state (also mid-growth) *)
Theorem c18_get : forall hash m k, reach hash m -> get hash m k = abs m !! k.
Proof. exact t_get. Qed.
Print Assumptions c18_get.

Theorem c18_len : forall hash m, reach hash m -> len m = size (abs m).
Proof. exact t_len. Qed.
Print Assumptions c18_len.

(* iteration yields every entry of the abstract map exactly once, in EVERY reachable state,
   including while the table is growing (old and new buckets are walked, old entries are filtered
   by their destination bucket) *)
Theorem c18_iter_exactly_once : forall hash m,
  reach hash m -> iter hash m ≡ₚ map_to_list (abs m).
Proof. exact t_iter. Qed.
Print Assumptions c18_iter_exactly_once.

(* Flatten never indexes out of range and returns exactly the iteration sequence (no zero padding) *)
Theorem c18_flatten : forall hash m, reach hash m -> flatten hash m = Ok (iter hash m).
Proof. exact t_flatten. Qed.
Print Assumptions c18_flatten.

(* Merge adds the source's counters per key; source and destination in any reachable state
   (each with its own seed / hash function), including mid-growth *)
Theorem c18_merge : forall hash hs m s m',
  reach hash m -> reach hs s -> merge hash hs m s = Ok m' ->
  abs m' = union_with (fun a b => Some (vadd a b)) (abs m) (abs s).
Proof. exact t_merge. Qed.
Print Assumptions c18_merge.

(* the map stores a copy of the key: overwriting the caller's buffer afterwards changes nothing *)
Theorem c18_key_copied : forall hash m bufs b v k2 m',
  reach hash m -> set hash m (bufs b) v = Ok m' ->
  (fold_left (cstep hash) [CSet b v; CWrite b k2] (Ok m, bufs)).1 = Ok m' /\
  get hash m' (bufs b) = Some v /\ abs m' = <[bufs b := v]> (abs m).
Proof. exact t_key_copied. Qed.
Print Assumptions c18_key_copied.

(* ---- non-vacuity: a concrete history (28 inserts through two growths, an update, a merge) is Ok,
   reachable, and ends mid-growth or not as computed *)
Definition ex_hash (k : key) : N := (k * 11400714819323198485 mod 18446744073709551616)%N.
Fixpoint ex_fill (n : nat) (m : res hm) : res hm :=
  match n with O => m | S n' => res_bind (ex_fill n' m) (fun m => set_or_update ex_hash m (N.of_nat n) (V 1 2 3 4)) end.

Lemma ex_fill_reach n m0 : reach ex_hash m0 -> forall m, ex_fill n (Ok m0) = Ok m -> reach ex_hash m.
Proof.
  intros H0. induction n as [|n IH]; simpl; intros m H; [by injection H as <-|].
  destruct (ex_fill n (Ok m0)) as [m1| |]; try discriminate. eapply r_upd; [by apply IH|exact H].
Qed.

Example c18_example :
  exists m, ex_fill 28 (Ok (new_hint 0)) = Ok m /\ reach ex_hash m /\
            len m = 28 /\ get ex_hash m 7%N = Some (V 1 2 3 4) /\ length (iter ex_hash m) = 28 /\
            growing m = true.
Proof.
  eexists. split; [vm_compute; reflexivity|]. split.
  - apply (ex_fill_reach 28 (new_hint 0)); [apply r_new|vm_compute; reflexivity].
  - vm_compute. repeat split; reflexivity.
Qed.

Example c18_example_set_upd_merge :
  exists m1 m2 s m3, set ex_hash (new_hint 0) 5%N (V 18446744073709551615 0 0 0) = Ok m1 /\
    set_or_update ex_hash m1 5%N (V 2 0 0 0) = Ok m2 /\ get ex_hash m2 5%N = Some (V 1 0 0 0) /\
    ex_fill 9 (Ok (new_hint 0)) = Ok s /\ old s = None /\ merge ex_hash ex_hash m2 s = Ok m3 /\ len m3 = 9.
Proof.
  eexists. eexists. eexists. eexists.
  split; [vm_compute; reflexivity|]. split; [vm_compute; reflexivity|]. split; [vm_compute; reflexivity|].
  split; [vm_compute; reflexivity|]. split; [vm_compute; reflexivity|]. split; vm_compute; reflexivity.
Qed.

Example c18_example_run :
  let ops := [OSet 1%N (V 1 1 1 1); OMerge ex_hash 9 [OUpd 1%N (V 2 0 0 0); OUpd 2%N (V 5 5 5 5)];
              OUpd 2%N (V 1 0 0 0); OClear; OUpd 3%N (V 7 7 7 7); OSet 4%N (V 0 0 0 0)] in
  exists m, run ex_hash 0 ops = Ok m /\ len m = 2 /\ get ex_hash m 3%N = Some (V 7 7 7 7) /\ get ex_hash m 1%N = None.
Proof. eexists. split; [vm_compute; reflexivity|]. vm_compute. repeat split; reflexivity. Qed.
