(* C18 proofs, part G: Set / SetOrUpdate refine the additive map update; reachable states. *)
From stdpp Require Import list gmap.
From Coq Require Import NArith Lia.
From GoProbe.Base Require Import CorrLib.
From GoProbe.C18 Require Import Model Abs ProofsA ProofsB ProofsC ProofsD ProofsE ProofsF.

Notation ltm l := (list_to_map l : gmap key val).

Definition upd_spec (L L' : list (key * val)) (k : key) (f : val -> val) (v0 : val) : Prop :=
  (exists v R, L ≡ₚ (k, v) :: R /\ L' ≡ₚ (k, f v) :: R) \/ (k ∉ L.*1 /\ L' ≡ₚ (k, v0) :: L).

Lemma upd_spec_abs L L' k f v0 :
  NoDup L.*1 -> upd_spec L L' k f v0 ->
  NoDup L'.*1 /\
  length L' = (if ltm L !! k then length L else S (length L)) /\
  ltm L' = <[k := match ltm L !! k with Some v => f v | None => v0 end]> (ltm L).
Proof.
  intros Hnd [(v & R & HL & HL')|[Hk HL']].
  - assert (NoDup ((k, v) :: R).*1) as Hnd1 by (by rewrite <-HL).
    assert (NoDup ((k, f v) :: R).*1) as Hnd2 by done.
    assert (NoDup L'.*1) as Hnd' by (by rewrite HL').
    rewrite (list_to_map_proper L _ Hnd HL), (list_to_map_proper L' _ Hnd' HL'). simpl.
    rewrite lookup_insert, insert_insert. split; [done|]. split; [by rewrite HL, HL'|done].
  - assert (NoDup L'.*1) as Hnd' by (rewrite HL'; simpl; by constructor).
    rewrite (proj1 (not_elem_of_list_to_map _ _) Hk), (list_to_map_proper L' _ Hnd' HL').
    split; [done|]. split; [by rewrite HL'|done].
Qed.

Section G.
  Variable hash : key -> N.
  Notation Inv := (Inv hash).

  Lemma chain_nodup m i c :
    Inv m -> bkts m !! i = Some c -> NoDup (centries c).*1.
  Proof.
    intros HI Hc. pose proof (inv_nodup _ _ HI) as Hnd. unfold live in Hnd.
    rewrite (fm_lookup centries _ i c Hc), <-!app_assoc, !fmap_app in Hnd.
    apply NoDup_app in Hnd as (_ & _ & Hnd). by apply NoDup_app in Hnd as (Hnd & _ & _).
  Qed.

  Lemma chain_swap m i c c' cnt novf k f v0 :
    Inv m -> bkts m !! i = Some c -> ready m i -> chain_ok hash (length (bkts m)) i c' ->
    ((exists E1 v E2, centries c = E1 ++ (k, v) :: E2 /\ centries c' = E1 ++ (k, f v) :: E2 /\ cnt = count m) \/
     (centries c' = centries c ++ [(k, v0)] /\ k ∉ (live m).*1 /\ cnt = S (count m))) ->
    let m' := HM cnt (same_size m) novf (n_evac m) (<[i := c']> (bkts m)) (old m) in
    Inv m' /\ upd_spec (live m) (live m') k f v0.
  Proof.
    intros HI Hc Hr Hok Hrel m'. pose proof (lookup_lt_Some _ _ _ Hc) as Hi.
    assert (exists X R, live m = X ++ centries c ++ R /\ live m' = X ++ centries c' ++ R) as (X & R & HL & HL').
    { exists (flat_map centries (take i (bkts m))),
        (flat_map centries (drop (S i) (bkts m)) ++ from_option (flat_map centries) [] (old m)).
      unfold live, m'. cbn [bkts old]. rewrite (fm_lookup centries _ i c Hc), fm_insert by done.
      by rewrite <-!app_assoc. }
    assert (upd_spec (live m) (live m') k f v0 /\ cnt = if ltm (live m) !! k then count m else S (count m)) as [Hu Hcnt].
    { destruct Hrel as [(E1 & v & E2 & H1 & H2 & H3)|(H1 & H2 & H3)].
      - assert (live m ≡ₚ (k, v) :: (X ++ (E1 ++ E2) ++ R)) as HP by (rewrite HL, H1; apply perm_pull).
        split; [left; exists v, (X ++ (E1 ++ E2) ++ R); split; [done|]; rewrite HL', H2; apply perm_pull|].
        rewrite (list_to_map_proper _ _ (inv_nodup _ _ HI) HP). simpl. by rewrite lookup_insert.
      - split; [right; split; [done|]|].
        + rewrite HL', HL, H1. rewrite <-(app_nil_r (centries c)) at 2.
          rewrite (perm_pull X (centries c) [] R). by rewrite !app_nil_r.
        + by rewrite (proj1 (not_elem_of_list_to_map _ _) H2). }
    destruct (upd_spec_abs _ _ _ _ _ (inv_nodup _ _ HI) Hu) as (Hnd' & Hlen & _).
    split; [|done]. apply (replace_chain hash m i c c' cnt novf HI Hc Hr Hok); [exact Hnd'|].
    change (cnt = length (live m')). rewrite Hlen, Hcnt, <-(inv_count _ _ HI). done.
  Qed.

  Lemma upd_spec_perm L1 L L' k f v0 : L1 ≡ₚ L -> upd_spec L1 L' k f v0 -> upd_spec L L' k f v0.
  Proof.
    intros HP [(v & R & H1 & H2)|[H1 H2]]; [left|right].
    - exists v, R. split; [by rewrite <-HP|done].
    - split; [by rewrite <-HP|]. by rewrite <-HP.
  Qed.

  Lemma set_loop_spec fuel m k f v0 m' :
    Inv m -> set_loop hash fuel m k f v0 = Ok m' -> Inv m' /\ upd_spec (live m) (live m') k f v0.
  Proof.
    revert m. induction fuel as [|fuel IH]; intros m HI H; [discriminate|].
    simpl in H. set (i := bidx (hash k) (length (bkts m))) in *.
    assert (exists m1, (if growing m then grow_work hash m i else Ok m) = Ok m1 /\
              Inv m1 /\ live m1 ≡ₚ live m /\ length (bkts m1) = length (bkts m) /\ count m1 = count m /\ ready m1 i)
      as (m1 & E1 & I1 & P1 & L1 & C1 & R1).
    { unfold growing in *. destruct (old m) as [ol|] eqn:Hol.
      - destruct (grow_work hash m i) as [m1| |] eqn:E; try discriminate.
        exists m1. split; [done|]. by eapply grow_work_spec.
      - exists m. split; [done|]. split; [done|]. split; [done|]. split; [done|]. split; [done|].
        intros ol Ho. congruence. }
    rewrite E1 in H. simpl in H.
    assert (i < length (bkts m1)) as Hi by (rewrite L1; apply bidx_lt, (inv_pow _ _ HI)).
    destruct (lookup_lt_is_Some_2 _ _ Hi) as [c Hc]. rewrite Hc in H.
    assert (i = bidx (hash k) (length (bkts m1))) as Hi' by (by rewrite L1).
    cut (Inv m' /\ upd_spec (live m1) (live m') k f v0).
    { intros [? ?]. split; [done|]. by eapply upd_spec_perm. }
    destruct (inv_new _ _ I1 i c Hc) as (es & r & -> & Hcne & HF).
    pose proof (chain_nodup m1 i _ I1 Hc) as Hcnd. rewrite centries_packed in Hcnd.
    assert (Forall (fun e : N * (key * val) => e.2.1 = k -> e.1 = tophash (hash k)) es) as HF'.
    { eapply Forall_impl; [exact HF|]. intros e [_ He] <-. done. }
    destruct (decide (k ∈ (snd <$> es).*1)) as [Hin|Hnin].
    - (* the key is there: update in place *)
      apply elem_of_list_fmap in Hin as ([k' v] & -> & Hin). simpl in *.
      apply elem_of_list_fmap in Hin as ([t [k'' v']] & [= <- <-] & Hin).
      apply elem_of_list_split in Hin as (es1 & es2 & ->).
      assert (k' ∉ (snd <$> es1).*1) as Hk1.
      { rewrite !fmap_app, !fmap_cons in Hcnd. apply NoDup_app in Hcnd as (_ & Hd & _).
        intros Hk. apply (Hd _ Hk). simpl. by left. }
      assert (t = tophash (hash k')) as Ht.
      { rewrite Forall_forall in HF'. apply (HF' (t, (k', v))); [|done]. apply elem_of_app. right. by left. }
      rewrite (scan_set_present _ _ _ _ _ _ _ 0 Hk1 Ht) in H. simpl in H. injection H as <-.
      rewrite alter_packed. unfold set_bkts.
      apply (chain_swap m1 i _ _ (count m1) (n_ovf m1) k' f v0 I1 Hc R1).
      + exists (es1 ++ (t, (k', f v)) :: es2), r. split; [done|].
        split; [intros E; apply (f_equal length) in E; rewrite !app_length, fmap_length, app_length in E; simpl in E; lia|].
        apply Forall_app in HF as [HF1 HF2]. inversion_clear HF2. apply Forall_app. split; [done|]. by constructor.
      + left. exists (snd <$> es1), v, (snd <$> es2). rewrite !centries_packed, !fmap_app, !fmap_cons. done.
    - (* the key is absent *)
      rewrite scan_set_absent in H by done.
      assert (k ∉ (live m1).*1) as Hnl.
      { intros ([k' v] & -> & Hl)%elem_of_list_fmap. simpl in *.
        pose proof (live_home hash m1 k' v i _ I1 Hi' R1 Hc Hl) as Hh. rewrite centries_packed in Hh.
        apply Hnin. apply elem_of_list_fmap. by exists (k', v). }
      destruct (negb (growing m1) && _) eqn:Eg.
      + apply andb_true_iff in Eg as [Eg _]. unfold growing in Eg. destruct (old m1) eqn:Ho1; [discriminate|].
        destruct (hash_grow_spec hash m1 I1 Ho1) as (I2 & L2 & _).
        destruct (IH _ I2 H) as [? Hu]. split; [done|]. by rewrite L2 in Hu.
      + assert (forall rr cnew novf,
                  cnew = (fullE <$> (es ++ [(tophash (hash k), (k, v0))])) ++ replicate rr ERest ->
                  let mm := HM (S (count m1)) (same_size m1) novf (n_evac m1) (<[i := cnew]> (bkts m1)) (old m1) in
                  Inv mm /\ upd_spec (live m1) (live mm) k f v0) as Hins.
        { intros rr cnew novf ->. apply (chain_swap m1 i _ _ (S (count m1)) novf k f v0 I1 Hc R1).
          - exists (es ++ [(tophash (hash k), (k, v0))]), rr. split; [done|].
            split; [intros E; apply (f_equal length) in E; rewrite !app_length, fmap_length, app_length in E; simpl in E; lia|].
            apply Forall_app. split; [done|]. constructor; [|done]. simpl. by rewrite <-Hi'.
          - right. rewrite !centries_packed, fmap_app. done. }
        destruct r as [|r]; simpl in H; injection H as <-.
        * apply (Hins 7). apply (append_packed es (tophash (hash k), (k, v0)) 7).
        * rewrite ?Nat.add_0_l. apply (Hins r). apply (insert_packed es r (tophash (hash k), (k, v0))).
  Qed.
End G.
