(* C18 proofs, part A: bucket-index arithmetic and list helpers. *)
From stdpp Require Import list gmap.
From Coq Require Import NArith Lia.
From GoProbe.Base Require Import CorrLib.
From GoProbe.C18 Require Import Model Abs.

Lemma pow2_pos n : pow2 n -> 1 <= n.
Proof. intros [B ->]. induction B; simpl; lia. Qed.
Lemma pow2_double n : pow2 n -> pow2 (2 * n).
Proof. intros [B ->]. exists (S B). simpl. lia. Qed.
Lemma pow2_1 : pow2 1.
Proof. exists 0. reflexivity. Qed.

Lemma pow2_N n : pow2 n -> exists b : N, N.of_nat n = (2 ^ b)%N.
Proof. intros [B ->]. exists (N.of_nat B). rewrite Nat2N.inj_pow. reflexivity. Qed.

Lemma bidx_mod h n : pow2 n -> bidx h n = N.to_nat (h mod N.of_nat n).
Proof.
  intros Hp. destruct (pow2_N _ Hp) as [b Hb]. unfold bidx. rewrite Hb.
  replace (2 ^ b - 1)%N with (N.ones b) by (rewrite N.ones_equiv; lia).
  by rewrite N.land_ones.
Qed.

Lemma bidx_lt h n : pow2 n -> bidx h n < n.
Proof.
  intros Hp. rewrite bidx_mod by done. pose proof (pow2_pos _ Hp).
  assert (h mod N.of_nat n < N.of_nat n)%N by (apply N.mod_lt; lia). lia.
Qed.

Lemma bidx_small i n : pow2 n -> i < n -> bidx (N.of_nat i) n = i.
Proof. intros Hp Hi. rewrite bidx_mod by done. rewrite N.mod_small by lia. lia. Qed.

Lemma bidx_shift j n : pow2 n -> j < n -> bidx (N.of_nat (j + n)) n = j.
Proof.
  intros Hp Hj. rewrite bidx_mod by done. pose proof (pow2_pos _ Hp).
  replace (N.of_nat (j + n)) with (N.of_nat j + 1 * N.of_nat n)%N by lia.
  rewrite N.mod_add by lia. rewrite N.mod_small by lia. lia.
Qed.

Lemma land_pow2 h b : N.land h (2 ^ b) = (if N.testbit h b then 2 ^ b else 0)%N.
Proof.
  apply N.bits_inj. intros i. rewrite N.land_spec, N.pow2_bits_eqb.
  destruct (N.eqb_spec b i) as [->|Hne].
  - destruct (N.testbit h i) eqn:E; rewrite ?N.pow2_bits_true, ?N.bits_0; reflexivity.
  - rewrite andb_false_r. destruct (N.testbit h b); rewrite ?N.bits_0, ?N.pow2_bits_false by done; reflexivity.
Qed.

Lemma bidx_double h n : pow2 n ->
  bidx h (2 * n) = bidx h n + (if (N.land h (N.of_nat n) =? 0)%N then 0 else n).
Proof.
  intros Hp. rewrite !bidx_mod by auto using pow2_double.
  destruct (pow2_N _ Hp) as [b Hb]. pose proof (pow2_pos _ Hp).
  replace (N.of_nat (2 * n)) with (N.of_nat n * 2)%N by lia.
  rewrite N.mod_mul_r by lia. rewrite Hb, land_pow2, <-N.testbit_spec'.
  assert (2 ^ b <> 0)%N by lia.
  destruct (N.testbit h b); simpl N.b2n.
  - destruct (N.eqb_spec (2 ^ b) 0); [lia|]. lia.
  - simpl. lia.
Qed.

Lemma bidx_bidx_double h n : pow2 n -> bidx (N.of_nat (bidx h (2 * n))) n = bidx h n.
Proof.
  intros Hp. rewrite bidx_double by done. pose proof (bidx_lt h n Hp).
  destruct (_ =? _)%N.
  - rewrite Nat.add_0_r. by apply bidx_small.
  - by apply bidx_shift.
Qed.

Lemma bidx_bidx_same h n : pow2 n -> bidx (N.of_nat (bidx h n)) n = bidx h n.
Proof. intros Hp. apply bidx_small; auto using bidx_lt. Qed.

Lemma shiftr_mask n : pow2 n -> N.shiftr (N.of_nat (2 * n) - 1) 1 = (N.of_nat n - 1)%N.
Proof.
  intros Hp. pose proof (pow2_pos _ Hp). rewrite N.shiftr_div_pow2. change (2 ^ 1)%N with 2%N.
  symmetry. apply N.div_unique with 1%N; lia.
Qed.

Lemma iter_order_perm n : pow2 n -> iter_order n ≡ₚ seq 0 n.
Proof.
  intros Hp. unfold iter_order. pose proof (bidx_lt 1 n Hp). set (s := bidx 1 n) in *.
  rewrite Permutation_app_comm. change (seq s (n - s)) with (seq (0 + s) (n - s)).
  rewrite <-seq_app. replace (s + (n - s)) with n by lia. done.
Qed.

(* ---- flat_map helpers *)
Lemma elem_of_flat_map {A B} (f : A -> list B) l x :
  x ∈ flat_map f l <-> exists y, y ∈ l /\ x ∈ f y.
Proof.
  rewrite elem_of_list_In, in_flat_map. setoid_rewrite elem_of_list_In. done.
Qed.

Lemma fm_nil {A B} (f : A -> list B) l : (forall x, x ∈ l -> f x = []) -> flat_map f l = [].
Proof.
  induction l as [|a l IH]; simpl; [done|]. intros H.
  rewrite (H a) by constructor. simpl. apply IH. intros x Hx. apply H. by constructor.
Qed.

Lemma fm_split {A B} (f g : A -> list B) l :
  flat_map (fun x => f x ++ g x) l ≡ₚ flat_map f l ++ flat_map g l.
Proof.
  induction l as [|a l IH]; simpl; [done|]. rewrite IH.
  rewrite <-!app_assoc. apply Permutation_app_head.
  rewrite !app_assoc. apply Permutation_app_tail. apply Permutation_app_comm.
Qed.

Lemma fm_ext_perm {A B} (f g : A -> list B) l :
  (forall x, x ∈ l -> f x ≡ₚ g x) -> flat_map f l ≡ₚ flat_map g l.
Proof.
  induction l as [|a l IH]; simpl; [done|]. intros H.
  rewrite (H a) by constructor. rewrite IH; [done|]. intros x Hx. apply H. by constructor.
Qed.

Lemma fm_lookup {A B} (f : A -> list B) l i c :
  l !! i = Some c ->
  flat_map f l = flat_map f (take i l) ++ f c ++ flat_map f (drop (S i) l).
Proof.
  intros H. rewrite <-(take_drop_middle l i c H) at 1. by rewrite flat_map_app.
Qed.

Lemma fm_insert {A B} (f : A -> list B) l i c' :
  i < length l ->
  flat_map f (<[i := c']> l) = flat_map f (take i l) ++ f c' ++ flat_map f (drop (S i) l).
Proof.
  intros H. rewrite insert_take_drop by done. by rewrite flat_map_app.
Qed.

Lemma fm_map {A B C} (f : B -> list C) (g : A -> B) l : flat_map f (map g l) = flat_map (fun x => f (g x)) l.
Proof. induction l; simpl; congruence. Qed.

Lemma fm_fmap {A B C} (f : B -> list C) (g : A -> B) l : flat_map f (g <$> l) = flat_map (fun x => f (g x)) l.
Proof. induction l as [|a l IH]; [done|]. rewrite fmap_cons. simpl. by rewrite IH. Qed.

Lemma fm_seq {A B} (F : nat -> list B) (g : A -> list B) (l : list A) :
  (forall i x, l !! i = Some x -> F i = g x) ->
  flat_map F (seq 0 (length l)) = flat_map g l.
Proof.
  revert F. induction l as [|a l IH]; intros F H; simpl; [done|].
  rewrite (H 0 a) by done. f_equal.
  rewrite <-seq_shift, fm_map. apply IH. intros i x Hx. by apply (H (S i)).
Qed.

Lemma fm_seq_shift {B} (F : nat -> list B) a n :
  flat_map F (seq a n) = flat_map (fun j => F (j + a)) (seq 0 n).
Proof.
  replace (seq a n) with ((fun y => a + y) <$> seq 0 n) by (rewrite fmap_add_seq; f_equal; lia).
  rewrite fm_fmap. apply flat_map_ext. intros j. f_equal. lia.
Qed.

Lemma perm_pull {A} (X E1 E2 R : list A) x :
  X ++ (E1 ++ x :: E2) ++ R ≡ₚ x :: (X ++ (E1 ++ E2) ++ R).
Proof.
  rewrite <-!app_assoc. simpl.
  transitivity ((X ++ E1) ++ x :: (E2 ++ R)); [by rewrite <-app_assoc|].
  rewrite <-Permutation_middle. by rewrite <-app_assoc.
Qed.
