(* C18 proofs, part M (totality, 3): Set / SetOrUpdate always return Ok on consistent states. *)
From stdpp Require Import list gmap.
From Coq Require Import NArith Lia.
From GoProbe.Base Require Import CorrLib.
From GoProbe.C18 Require Import Model Abs ProofsA ProofsB ProofsC ProofsD ProofsE ProofsF ProofsG ProofsH ProofsK ProofsL.

Lemma clen_packed es r :
  clen_ok ((fullE <$> es) ++ replicate r ERest) <-> (length es + r = 8 \/ (8 < length es + r /\ r <= 7)).
Proof.
  unfold clen_ok. rewrite centries_packed, app_length, !fmap_length, replicate_length. lia.
Qed.

Lemma replace_bnd m i c c' cnt dn :
  Bnd m -> bkts m !! i = Some c -> length c' = length c + 8 * dn -> clen_ok c' ->
  match old m with None => cnt <= NGB (length (bkts m)) | Some ol => cnt <= NGB (length ol) + n_evac m end ->
  Bnd (HM cnt (same_size m) (n_ovf m + dn) (n_evac m) (<[i := c']> (bkts m)) (old m)).
Proof.
  intros (B0 & B1 & B2 & B3) Hc Hl Hok Hcnt. split; [done|]. cbn [n_ovf bkts old count n_evac].
  pose proof (tslots_insert _ _ _ c' Hc). rewrite insert_length.
  split; [lia|]. split; [by apply Forall_insert|done].
Qed.

Lemma lf_false_bound c n : load_factor (S c) n = false -> S c <= NGB n.
Proof.
  unfold load_factor, NGB. intros [H|H]%andb_false_iff; apply Nat.ltb_ge in H; lia.
Qed.

Section M.
  Variable hash : key -> N.
  Notation Inv := (Inv hash).

  Definition Calm (m : hm) : Prop :=
    match old m with
    | None => load_factor (S (count m)) (length (bkts m)) = false
    | Some ol => S (count m) <= 13 * length ol
    end.

  (* one pass of the loop: either it finishes, or it grows a calm table and retries *)
  Lemma set_pass fuel m k f v0 :
    Inv m -> Bnd m ->
    (exists m', set_loop hash (S fuel) m k f v0 = Ok m' /\ Bnd m') \/
    (exists m1, Inv m1 /\ Bnd m1 /\ old m1 = None /\ (Calm m -> False) /\
                load_factor (S (count m1)) (length (bkts m1)) = true /\
                set_loop hash (S fuel) m k f v0 = set_loop hash fuel (hash_grow m1) k f v0).
  Proof.
    intros HI HB. simpl set_loop. set (i := bidx (hash k) (length (bkts m))).
    assert (exists m1, (if growing m then grow_work hash m i else Ok m) = Ok m1 /\
              Inv m1 /\ Bnd m1 /\ length (bkts m1) = length (bkts m) /\ ready m1 i /\
              (forall ol1, old m1 = Some ol1 -> S (count m1) <= NGB (length ol1) + n_evac m1) /\
              (Calm m -> old m1 = None -> load_factor (S (count m1)) (length (bkts m1)) = false))
      as (m1 & E1 & I1 & B1 & L1 & R1 & Room & CNG).
    { unfold growing, Calm. destruct (old m) as [ol|] eqn:Hol.
      - destruct (grow_work_total hash m i ol HI HB Hol) as (m1 & E & Bm1 & N1).
        destruct (grow_work_spec hash m i ol m1 HI Hol E) as (Im1 & _ & Lm1 & Cm1 & Rm1).
        exists m1. split; [done|]. split; [done|]. split; [done|]. split; [done|]. split; [done|].
        destruct (inv_old _ _ HI ol Hol) as (Hpo & Hn & _). pose proof HB as (B0 & _ & _ & B3). rewrite B0 in Hn.
        rewrite Hol in B3. split.
        + intros ol1 Ho1. destruct (inv_old _ _ Im1 ol1 Ho1) as (_ & Hn1 & _).
          destruct Bm1 as (B0' & _). rewrite B0' in Hn1. unfold growing in N1. rewrite Ho1 in N1.
          specialize (N1 eq_refl). assert (length ol1 = length ol) as -> by lia. lia.
        + intros HC Ho1. rewrite Lm1, Hn, Cm1. unfold load_factor.
          replace (2 * length ol / 2) with (length ol) by (apply Nat.div_unique with 0; lia).
          apply andb_false_iff. right. apply Nat.ltb_ge. lia.
      - exists m. split; [done|]. split; [done|]. split; [done|]. split; [done|].
        split; [intros ol Ho; congruence|]. split; [intros ol Ho; congruence|]. by intros HC _. }
    rewrite E1. simpl res_bind.
    assert (i < length (bkts m1)) as Hi by (rewrite L1; apply bidx_lt, (inv_pow _ _ HI)).
    destruct (lookup_lt_is_Some_2 _ _ Hi) as [c Hc]. rewrite Hc.
    destruct (inv_new _ _ I1 i c Hc) as (es & r & -> & Hcne & HF).
    pose proof (chain_nodup hash m1 i _ I1 Hc) as Hcnd. rewrite centries_packed in Hcnd.
    pose proof B1 as (_ & _ & BF & B3). rewrite Forall_forall in BF.
    pose proof (BF _ (elem_of_list_lookup_2 _ _ _ Hc)) as Hclen. apply clen_packed in Hclen.
    assert (Forall (fun e : N * (key * val) => e.2.1 = k -> e.1 = tophash (hash k)) es) as HF'.
    { eapply Forall_impl; [exact HF|]. intros e [_ He] <-. done. }
    destruct (decide (k ∈ (snd <$> es).*1)) as [Hin|Hnin].
    - left. apply elem_of_list_fmap in Hin as ([k' v] & -> & Hin). simpl in *.
      apply elem_of_list_fmap in Hin as ([t [k'' v']] & [= <- <-] & Hin).
      apply elem_of_list_split in Hin as (es1 & es2 & ->).
      assert (k' ∉ (snd <$> es1).*1) as Hk1.
      { rewrite !fmap_app, !fmap_cons in Hcnd. apply NoDup_app in Hcnd as (_ & Hd & _).
        intros Hk. apply (Hd _ Hk). simpl. by left. }
      assert (t = tophash (hash k')) as Ht.
      { rewrite Forall_forall in HF'. apply (HF' (t, (k', v))); [|done]. apply elem_of_app. right. by left. }
      rewrite (scan_set_present _ _ _ _ _ _ _ 0 Hk1 Ht). cbv iota beta. rewrite Nat.add_0_l. eexists. split; [done|].
      rewrite alter_packed. unfold set_bkts. replace (n_ovf m1) with (n_ovf m1 + 0) by lia.
      eapply replace_bnd; [done|exact Hc| | |].
      + rewrite !app_length, !fmap_length, !app_length. simpl. lia.
      + apply clen_packed. rewrite app_length in *. simpl in *. lia.
      + destruct (old m1); lia.
    - rewrite scan_set_absent by done.
      destruct (negb (growing m1) && _) eqn:Eg.
      + right. apply andb_true_iff in Eg as [Eg Eg2]. unfold growing in Eg.
        destruct (old m1) eqn:Ho1; [discriminate|].
        rewrite (too_many_false hash m1 I1 B1 Ho1), orb_false_r in Eg2.
        exists m1. split; [done|]. split; [done|]. split; [done|]. split; [|done].
        intros HC. rewrite (CNG HC eq_refl) in Eg2. discriminate.
      + left. assert (match old m1 with None => S (count m1) <= NGB (length (bkts m1))
                                 | Some ol => S (count m1) <= NGB (length ol) + n_evac m1 end) as Hcnt.
        { unfold growing in Eg. destruct (old m1) as [ol1|] eqn:Ho1; [by apply Room|].
          simpl in Eg. apply orb_false_iff in Eg as [Eg _]. by apply lf_false_bound. }
        change (Full (tophash (hash k)) k v0) with (fullE (tophash (hash k), (k, v0))).
        destruct r as [|r]; eexists; (split; [done|]).
        * replace (S (n_ovf m1)) with (n_ovf m1 + 1) by lia.
          eapply replace_bnd; [done|exact Hc| | |done].
          -- rewrite !app_length. simpl. lia.
          -- unfold clen_ok. rewrite centries_app, centries_packed, !app_length, !fmap_length. simpl. lia.
        * replace (n_ovf m1) with (n_ovf m1 + 0) by lia.
          match goal with |- Bnd (HM _ _ _ _ (<[i := ?cc]> _) _) =>
            replace cc with ((fullE <$> (es ++ [(tophash (hash k), (k, v0))])) ++ replicate r ERest)
              by (symmetry; exact (insert_packed es r (tophash (hash k), (k, v0)))) end.
          eapply replace_bnd; [done|exact Hc| | |done].
          -- rewrite !app_length, !fmap_length, !app_length, !replicate_length. simpl. lia.
          -- apply clen_packed. rewrite app_length. simpl. lia.
  Qed.

  Lemma set_loop_total fuel m k f v0 :
    Inv m -> Bnd m -> exists m', set_loop hash (S (S fuel)) m k f v0 = Ok m' /\ Bnd m'.
  Proof.
    intros HI HB. destruct (set_pass (S fuel) m k f v0 HI HB) as [?|(m1 & I1 & B1 & Ho1 & _ & Hlf & ->)]; [done|].
    destruct (hash_grow_spec hash m1 I1 Ho1) as (I2 & _ & _).
    destruct (hash_grow_bnd m1 B1 Ho1 Hlf) as [[B2 HC]|Hz];
      [|pose proof (pow2_pos _ (inv_pow _ _ I1)); lia].
    destruct (set_pass fuel (hash_grow m1) k f v0 I2 B2) as [?|(m3 & _ & _ & _ & Hnc & _)]; [done|].
    exfalso. apply Hnc. unfold Calm, hash_grow. cbn [old count]. exact HC.
  Qed.
End M.
