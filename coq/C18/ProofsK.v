(* C18 proofs, part K (totality, 1): size bookkeeping (nOverflow, count bounds) and evacuation never panics. *)
From stdpp Require Import list gmap.
From Coq Require Import NArith Lia.
From GoProbe.Base Require Import CorrLib.
From GoProbe.C18 Require Import Model Abs ProofsA ProofsB ProofsC ProofsD ProofsE ProofsF ProofsG ProofsH.

(* largest count a table of n buckets holds without a growth in progress *)
Definition NGB (n : nat) : nat := Nat.max 8 (13 * (n / 2)).
Definition tslots (l : list chain) : nat := length (flat_map (fun c : chain => c) l).
Definition nlive (l : list chain) : nat := length (flat_map centries l).
(* a chain is one cell, or its last cell is not empty (cells are only added together with an entry) *)
Definition clen_ok (c : chain) : Prop := length c = 8 \/ (8 < length c /\ length c <= length (centries c) + 7).

Definition Bnd (m : hm) : Prop :=
  same_size m = false /\
  8 * (n_ovf m + length (bkts m)) = tslots (bkts m) /\
  Forall clen_ok (bkts m) /\
  match old m with
  | None => count m <= NGB (length (bkts m))
  | Some ol => count m <= NGB (length ol) + n_evac m
  end.

Lemma tslots_insert l i c c' : l !! i = Some c -> tslots (<[i := c']> l) + length c = tslots l + length c'.
Proof.
  intros H. unfold tslots. rewrite (fm_lookup _ l i c H), fm_insert by (by eapply lookup_lt_Some).
  rewrite !app_length. lia.
Qed.

Lemma sum_bound l : Forall clen_ok l ->
  tslots l <= nlive l + 8 * length l /\ (8 * length l < tslots l -> tslots l + 1 <= nlive l + 8 * length l).
Proof.
  unfold tslots, nlive. intros H. induction H as [|c l Hc Hl IH].
  - simpl. lia.
  - cbn [flat_map length]. rewrite !app_length. unfold clen_ok in Hc. lia.
Qed.

Lemma NGB_step n : 1 <= n -> NGB n + n <= NGB (2 * n).
Proof.
  intros H. unfold NGB. replace (2 * n / 2) with n by (apply Nat.div_unique with 0; lia).
  assert (n / 2 * 2 <= n) by (pose proof (Nat.mul_div_le n 2 ltac:(lia)); lia). lia.
Qed.
Lemma NGB_lf n c : 1 <= n -> c <= NGB n -> load_factor (S c) (2 * n) = false.
Proof.
  intros H Hc. unfold load_factor, NGB in *. replace (2 * n / 2) with n by (apply Nat.div_unique with 0; lia).
  assert (n / 2 * 2 <= n) by (pose proof (Nat.mul_div_le n 2 ltac:(lia)); lia).
  apply andb_false_iff. destruct (Nat.ltb_spec 8 (S c)); [right|by left]. apply Nat.ltb_ge. lia.
Qed.

Definition dst_len_ok (d : dst) : Prop := length (d_pre d) = 8 * d_novf d /\ (0 < d_novf d -> 1 <= d_i d).

Lemma dst_len_init : dst_len_ok (dst_init empty_cell).
Proof. split; simpl; lia. Qed.
Lemma dst_len_put d es s : dst_wf d es -> dst_len_ok d -> dst_len_ok (dst_put d s).
Proof.
  intros (_ & _ & _ & _ & H5) [H1 H2]. unfold dst_put. destruct (Nat.eqb_spec (d_i d) 8); split; simpl.
  - rewrite app_length. lia.
  - lia.
  - done.
  - lia.
Qed.
Lemma dst_len_chain d es : dst_wf d es -> dst_len_ok d ->
  length (dst_chain d) = 8 * d_novf d + 8 /\ clen_ok (dst_chain d).
Proof.
  intros Hw [H1 H2]. pose proof Hw as (W1 & W2 & W3 & W4 & W5).
  assert (length (dst_chain d) = 8 * d_novf d + 8) as HL.
  { unfold dst_chain. rewrite W4, !app_length, H1, W5. simpl. lia. }
  split; [done|]. unfold clen_ok. rewrite HL.
  destruct (d_novf d) as [|k] eqn:E; [left; lia|right]. split; [lia|].
  rewrite <-HL, (dst_wf_chain d es Hw), centries_packed, app_length, !fmap_length, replicate_length. lia.
Qed.

Section K.
  Variable hash : key -> N.
  Notation Inv := (Inv hash).

  Lemma evac_chain_len same nb es r : forall x y xs ys c' x' y',
    dst_wf x xs -> (same = false -> dst_wf y ys) -> dst_len_ok x -> (same = false -> dst_len_ok y) ->
    evac_chain hash same nb ((fullE <$> es) ++ replicate r ERest) x y = Ok (c', x', y') ->
    dst_len_ok x' /\ (same = false -> dst_len_ok y').
  Proof.
    induction es as [|[t [k v]] es IH]; intros x y xs ys c' x' y' Hx Hy Lx Ly H.
    - simpl in H. rewrite evac_chain_rest in H. by injection H as <- <- <-.
    - rewrite fmap_cons in H. simpl in H.
      destruct (if same then false else negb (N.land (hash k) nb =? 0)%N) eqn:E.
      + assert (same = false) as -> by (destruct same; [discriminate|done]).
        destruct (evac_chain hash false nb _ x (dst_put y (Full t k v))) as [[[c1 x1] y1]| |] eqn:E1; try discriminate.
        simpl in H. injection H as <- <- <-.
        eapply (IH x _ xs (ys ++ [(t, (k, v))])); [done| | | |exact E1].
        * intros _. by apply (dst_wf_put y ys (t, (k, v))), Hy.
        * done.
        * intros _. eapply dst_len_put; [by apply Hy|by apply Ly].
      + destruct (evac_chain hash same nb _ (dst_put x (Full t k v)) y) as [[[c1 x1] y1]| |] eqn:E1; try discriminate.
        simpl in H. injection H as <- <- <-.
        eapply (IH _ y (xs ++ [(t, (k, v))]) ys); [|done| |done|exact E1].
        * by apply (dst_wf_put x xs (t, (k, v))).
        * by eapply dst_len_put.
  Qed.
End K.
