(* C18: abstraction function, invariant and reachability (definitions only). *)
From stdpp Require Import list gmap.
From Coq Require Import NArith.
From GoProbe.Base Require Import CorrLib.
From GoProbe.C18 Require Import Model.

(* the live entries of a chain: its filled slots, in order *)
Definition centries (c : chain) : list (key * val) :=
  flat_map (fun s => match s with Full _ k v => [(k, v)] | _ => [] end) c.

(* new buckets, then old buckets (evacuated old chains hold no filled slot) *)
Definition live (m : hm) : list (key * val) :=
  flat_map centries (bkts m) ++ from_option (flat_map centries) [] (old m).

(* the abstract map *)
Definition abs (m : hm) : gmap key val := list_to_map (live m).

Definition pow2 (n : nat) : Prop := exists B : nat, n = 2 ^ B.
Definition fullE (e : N * (key * val)) : slot := Full e.1 e.2.1 e.2.2.

Section INV.
  Variable hash : key -> N.

  (* a chain of bucket i in a table of n buckets: filled slots first (no holes: nothing is ever
     deleted), then emptyRest; every key sits in the bucket its hash selects, under its tophash *)
  Definition chain_ok (n i : nat) (c : chain) : Prop :=
    exists es r, c = (fullE <$> es) ++ replicate r ERest /\ c <> [] /\
      Forall (fun e => bidx (hash e.2.1) n = i /\ e.1 = tophash (hash e.2.1)) es.

  Record Inv (m : hm) : Prop := {
    inv_pow : pow2 (length (bkts m));
    inv_new : forall i c, bkts m !! i = Some c -> chain_ok (length (bkts m)) i c;
    inv_nogrow : old m = None -> same_size m = false;
    inv_old : forall ol, old m = Some ol ->
      pow2 (length ol) /\
      length (bkts m) = (if same_size m then length ol else 2 * length ol) /\
      n_evac m < length ol /\
      forall j c, ol !! j = Some c ->
        (if evacuated c then centries c = []
         else chain_ok (length ol) j c /\ bkts m !! j = Some empty_cell /\
              (same_size m = false -> bkts m !! (j + length ol) = Some empty_cell))
        /\ (j < n_evac m -> evacuated c = true);
    inv_nodup : NoDup (live m).*1;
    inv_count : count m = length (live m) }.

  Definition empty0 : hm := HM 0 false 0 0 [] None.

  (* the states of the model reached from New(hint) by Set / SetOrUpdate / Merge(any reachable source) / Clear *)
End INV.

Inductive reach : (key -> N) -> hm -> Prop :=
| r_new hash hint : reach hash (new_hint hint)
| r_set hash m k v m' : reach hash m -> set hash m k v = Ok m' -> reach hash m'
| r_upd hash m k d m' : reach hash m -> set_or_update hash m k d = Ok m' -> reach hash m'
| r_merge hash hs m s m' : reach hash m -> reach hs s -> merge hash hs m s = Ok m' -> reach hash m'
| r_clear hash m : reach hash m -> reach hash (clear m).

(* the additive update of the specification *)
Definition upsert (M : gmap key val) (k : key) (d : val) : gmap key val :=
  <[k := match M !! k with Some o => vadd o d | None => d end]> M.
Definition vunion (A B : gmap key val) : gmap key val := union_with (fun a b => Some (vadd a b)) A B.
