(* C18 proofs, part E: evacuate, growWork, hashGrow preserve the invariant and the live entries. *)
From stdpp Require Import list gmap.
From Coq Require Import NArith Lia.
From GoProbe.Base Require Import CorrLib.
From GoProbe.C18 Require Import Model Abs ProofsA ProofsB ProofsC ProofsD.

Lemma dst_chain_ne d es : dst_wf d es -> dst_chain d <> [].
Proof.
  intros (_ & _ & _ & _ & H5) E. unfold dst_chain in E.
  apply (f_equal length) in E. rewrite !app_length, H5 in E. simpl in E. lia.
Qed.

Section E.
  Variable hash : key -> N.
  Notation Inv := (Inv hash).

  Definition evac_post (m m' : hm) (ol : list chain) (j : nat) : Prop :=
    Inv m' /\ live m' ≡ₚ live m /\ length (bkts m') = length (bkts m) /\ count m' = count m /\
    (forall ol', old m' = Some ol' -> length ol' = length ol /\ same_size m' = same_size m /\
       (exists c', ol' !! j = Some c' /\ evacuated c' = true) /\
       (forall j' c, ol !! j' = Some c -> evacuated c = true -> exists c', ol' !! j' = Some c' /\ evacuated c' = true)).

  Lemma advance_post m ol j c :
    Inv m -> old m = Some ol -> ol !! j = Some c -> evacuated c = true ->
    evac_post m (if j =? n_evac m then advance_mark m (length ol) else m) ol j.
  Proof.
    intros HI Hol Hc Ec. destruct (Nat.eqb_spec j (n_evac m)) as [->|_].
    - destruct (advance_spec hash m ol HI Hol) as (I' & L & B & O); [eauto|].
      split; [done|]. split; [by rewrite L|]. split; [by rewrite B|].
      split; [by rewrite (inv_count _ _ I'), (inv_count _ _ HI), L|].
      intros ol' Ho. destruct (O ol' Ho) as [-> Hs]. eauto 10.
    - split; [done|]. split; [done|]. split; [done|]. split; [done|].
      intros ol' Ho. rewrite Hol in Ho. injection Ho as <-. eauto 10.
  Qed.

  Lemma evacuate_spec m j ol m' :
    Inv m -> old m = Some ol -> j < length ol -> evacuate hash m j = Ok m' -> evac_post m m' ol j.
  Proof.
    intros HI Hol Hj H. unfold evacuate in H. rewrite Hol in H.
    destruct (lookup_lt_is_Some_2 ol j Hj) as [c Hc]. rewrite Hc in H. cbv zeta in H.
    destruct (evacuated c) eqn:Ec.
    - simpl in H. injection H as <-. by eapply advance_post.
    - destruct (inv_old _ _ HI ol Hol) as (Hpo & Hn & Hne & Hch).
      destruct (Hch j c Hc) as [Hcj _]. rewrite Ec in Hcj. destruct Hcj as (Hok & Hbj & Hbj').
      destruct Hok as (es & r & -> & Hcne & HF). rewrite Hbj in H.
      set (nb := N.of_nat (length ol)) in *.
      assert (forall mb : hm, Inv mb -> live mb ≡ₚ live m -> length (bkts mb) = length (bkts m) -> count mb = count m ->
                same_size mb = same_size m -> n_evac mb = n_evac m ->
                (exists c', old mb = Some (<[j := c']> ol) /\ evacuated c' = true) ->
                evac_post m (if j =? n_evac mb then advance_mark mb (length ol) else mb) ol j) as Hfin.
      { intros mb HIb HPb HLb HCb HSb HEb (c' & Hob & Ec').
        assert (<[j := c']> ol !! j = Some c') as Hcj' by (by apply list_lookup_insert).
        pose proof (advance_post mb (<[j := c']> ol) j c' HIb Hob Hcj' Ec') as HP.
        rewrite insert_length in HP. destruct HP as (P1 & P2 & P3 & P4 & P5).
        split; [done|]. split; [by rewrite P2|]. split; [by rewrite P3|]. split; [by rewrite P4|].
        intros ol' Ho. destruct (P5 ol' Ho) as (Q1 & Q2 & Q3 & Q4). rewrite insert_length in Q1.
        split; [done|]. split; [by rewrite Q2|]. split; [done|].
        intros j' c2 Hc2 Ec2. destruct (decide (j' = j)) as [->|Hne']; [done|].
        apply (Q4 j' c2); [|done]. by rewrite list_lookup_insert_ne. }
      destruct (same_size m) eqn:Es.
      + destruct (evac_chain_packed hash true nb es r (dst_init empty_cell) (dst_init []) [] [] dst_wf_init)
          as (x' & y' & Heq & Hx & Hy); [done|].
        rewrite Heq in H. simpl in H. injection H as <-.
        pose proof (evac_body_inv hash m ol j es r (dst_chain x')
                      ((fullE <$> filter (fun e => goes_y hash (same_size m) nb e = true) es) ++ replicate 1 ERest)
                      (8 - d_i x') 1 (n_ovf m + d_novf x' + d_novf y') HI Hol Hc HF) as HB.
        cbv zeta in HB. rewrite Es in HB. fold nb in HB.
        destruct HB as [HIb HPb].
        { rewrite (dst_wf_chain _ _ Hx). done. } { by eapply dst_chain_ne. } { done. }
        { intros E. apply (f_equal length) in E. rewrite app_length in E. simpl in E. lia. }
        match goal with |- evac_post _ (if _ then advance_mark ?mb _ else _) _ _ => apply (Hfin mb) end; simpl; try done.
        * by rewrite insert_length.
        * eexists. split; [done|]. apply ev_marked. done.
      + cbv iota in H. specialize (Hbj' eq_refl). unfold chain in Hbj', H. rewrite Hbj' in H.
        destruct (evac_chain_packed hash false nb es r (dst_init empty_cell) (dst_init empty_cell) [] [] dst_wf_init)
          as (x' & y' & Heq & Hx & Hy); [intros _; apply dst_wf_init|].
        rewrite Heq in H. simpl in H. injection H as <-.
        pose proof (evac_body_inv hash m ol j es r (dst_chain x') (dst_chain y')
                      (8 - d_i x') (8 - d_i y') (n_ovf m + d_novf x' + d_novf y') HI Hol Hc HF) as HB.
        cbv zeta in HB. rewrite Es in HB. fold nb in HB.
        destruct HB as [HIb HPb].
        { rewrite (dst_wf_chain _ _ Hx). done. } { by eapply dst_chain_ne. }
        { rewrite (dst_wf_chain _ _ Hy). done. } { by eapply dst_chain_ne. }
        match goal with |- evac_post _ (if _ then advance_mark ?mb _ else _) _ _ => apply (Hfin mb) end; simpl; try done.
        * by rewrite !insert_length.
        * eexists. split; [done|]. apply ev_marked. done.
  Qed.
End E.
