(* C18 proofs, part N (totality, 4): every operation history runs to Ok; the unconditional refinement. *)
From stdpp Require Import list gmap.
From Coq Require Import NArith Lia.
From GoProbe.Base Require Import CorrLib.
From GoProbe.C18 Require Import Model Abs ProofsA ProofsB ProofsC ProofsD ProofsE ProofsF ProofsG ProofsH ProofsI ProofsJ
  ProofsK ProofsL ProofsM.

Definition Good (hash : key -> N) (m : hm) : Prop := m = empty0 \/ (Inv hash m /\ Bnd m).

Lemma bnd_fresh n : Bnd (HM 0 false 0 0 (make_buckets n) None).
Proof.
  split; [done|]. unfold make_buckets. cbn [n_ovf bkts old count]. rewrite replicate_length, tslots_replicate.
  split; [lia|]. split; [apply Forall_replicate, clen_ok_empty|lia].
Qed.

Lemma good_new hash hint : Good hash (new_hint hint).
Proof.
  unfold new_hint. destruct (hint =? 0); [by left|right]. split; [|apply bnd_fresh].
  apply inv_fresh, hint_nb_pow2, pow2_1.
Qed.

Lemma good_ensure hash m : Good hash m -> Inv hash (ensure_buckets m) /\ Bnd (ensure_buckets m).
Proof.
  intros [->|[HI HB]].
  - split; [apply (inv_fresh hash 1 pow2_1)|apply (bnd_fresh 1)].
  - unfold ensure_buckets. pose proof (pow2_pos _ (inv_pow _ _ HI)).
    destruct (bkts m) eqn:E; [simpl in *; lia|done].
Qed.

Lemma good_inv0 hash m : Good hash m -> Inv0 hash m.
Proof. intros [->|[? _]]; [by left|by right]. Qed.

Lemma set_gen_total hash m k f v0 :
  Good hash m -> exists m', set_loop hash set_fuel (ensure_buckets m) k f v0 = Ok m' /\ Good hash m'.
Proof.
  intros HG. destruct (good_ensure hash m HG) as [HI HB].
  destruct (set_loop_total hash 2 _ k f v0 HI HB) as (m' & E & HB'). exists m'. split; [exact E|].
  right. split; [|done]. by destruct (set_gen_spec hash m k f v0 m' (good_inv0 _ _ HG) E).
Qed.

Lemma merge_list_total hash l : forall m, Good hash m -> exists m', merge_list hash m l = Ok m' /\ Good hash m'.
Proof.
  induction l as [|[k v] l IH]; intros m HG; simpl; [eauto|].
  destruct (set_gen_total hash m k (fun o => vadd o v) v HG) as (m1 & E & HG1).
  unfold set_or_update. rewrite E. simpl. by apply IH.
Qed.

Lemma merge_total hash hs m s : Good hash m -> exists m', merge hash hs m s = Ok m' /\ Good hash m'.
Proof. intros HG. unfold merge. destruct (count s =? 0); [eauto|by apply merge_list_total]. Qed.

Lemma reach_good hash m : reach hash m -> Good hash m.
Proof.
  induction 1 as [hash hint|hash m k v m' _ IH H|hash m k d m' _ IH H|hash hs m s m' _ IH _ IHs H|hash m _ IH].
  - apply good_new.
  - destruct (set_gen_total hash m k (fun _ => v) v IH) as (m2 & E & HG). unfold set in H. congruence.
  - destruct (set_gen_total hash m k (fun o => vadd o d) d IH) as (m2 & E & HG). unfold set_or_update in H. congruence.
  - destruct (merge_total hash hs m s IH) as (m2 & E & HG). congruence.
  - unfold clear. destruct (Nat.eqb_spec (count m) 0); [done|]. right.
    destruct IH as [->|[HI _]]; [done|]. split; [apply inv_fresh, (inv_pow _ _ HI)|apply bnd_fresh].
Qed.

Lemma t_clear hash m : reach hash m -> abs (clear m) = ∅ /\ len (clear m) = 0.
Proof.
  intros Hr. unfold clear. destruct (Nat.eqb_spec (count m) 0) as [E|_].
  - split; [|done]. destruct (reach_inv _ _ Hr) as [->|HI]; [done|].
    rewrite (inv_count _ _ HI) in E. unfold abs. by destruct (live m).
  - split; [|done]. unfold abs, live, make_buckets. simpl. by rewrite fm_replicate_nil.
Qed.

(* ---- totality on reachable states *)
Lemma t_set_total hash m k v : reach hash m -> exists m', set hash m k v = Ok m'.
Proof. intros Hr. destruct (set_gen_total hash m k (fun _ => v) v (reach_good _ _ Hr)) as (m' & E & _). eauto. Qed.
Lemma t_upd_total hash m k d : reach hash m -> exists m', set_or_update hash m k d = Ok m'.
Proof. intros Hr. destruct (set_gen_total hash m k (fun o => vadd o d) d (reach_good _ _ Hr)) as (m' & E & _). eauto. Qed.
Lemma t_merge_total hash hs m s : reach hash m -> reach hs s -> exists m', merge hash hs m s = Ok m'.
Proof. intros Hr _. destruct (merge_total hash hs m s (reach_good _ _ Hr)) as (m' & E & _). eauto. Qed.

(* ---- operation histories *)
Inductive op :=
| OSet (k : key) (v : val)
| OUpd (k : key) (d : val)
| OMerge (hs : key -> N) (hint : nat) (src : list op)    (* Merge(New(hint) + src), source hashed by hs *)
| OClear.

Fixpoint exec_op (hash : key -> N) (o : op) (m : hm) : res hm :=
  match o with
  | OSet k v => set hash m k v
  | OUpd k d => set_or_update hash m k d
  | OClear => Ok (clear m)
  | OMerge hs hint src =>
    res_bind ((fix go (l : list op) (s : res hm) : res hm :=
                 match l with [] => s | o' :: l' => go l' (res_bind s (exec_op hs o')) end) src (Ok (new_hint hint)))
             (fun s => merge hash hs m s)
  end.
Definition exec (hash : key -> N) (ops : list op) (s : res hm) : res hm :=
  fold_left (fun s o => res_bind s (exec_op hash o)) ops s.
Definition run (hash : key -> N) (hint : nat) (ops : list op) : res hm := exec hash ops (Ok (new_hint hint)).

Fixpoint spec_op (o : op) (M : gmap key val) : gmap key val :=
  match o with
  | OSet k v => <[k := v]> M
  | OUpd k d => upsert M k d
  | OClear => ∅
  | OMerge _ _ src =>
    vunion M ((fix go (l : list op) (S : gmap key val) : gmap key val :=
                 match l with [] => S | o' :: l' => go l' (spec_op o' S) end) src ∅)
  end.
Definition spec_exec (ops : list op) (S : gmap key val) : gmap key val := fold_left (fun S o => spec_op o S) ops S.
Definition spec_run (ops : list op) : gmap key val := spec_exec ops ∅.

Fixpoint op_size (o : op) : nat :=
  match o with
  | OMerge _ _ src => S ((fix go (l : list op) : nat := match l with [] => 0 | o' :: l' => op_size o' + go l' end) src)
  | _ => 1
  end.
Definition ops_size (l : list op) : nat := fold_right (fun o n => op_size o + n) 0 l.

Lemma exec_op_merge hash hs hint src m :
  exec_op hash (OMerge hs hint src) m = res_bind (run hs hint src) (fun s => merge hash hs m s).
Proof.
  simpl. f_equal.
Qed.
Lemma spec_op_merge hs hint src M : spec_op (OMerge hs hint src) M = vunion M (spec_run src).
Proof.
  simpl. f_equal.
Qed.
Lemma op_size_merge hs hint src : op_size (OMerge hs hint src) = S (ops_size src).
Proof. simpl. f_equal. Qed.
Lemma op_size_pos o : 1 <= op_size o.
Proof. destruct o; simpl; lia. Qed.

Lemma abs_new hint : abs (new_hint hint) = ∅.
Proof.
  unfold new_hint. destruct (hint =? 0); [done|]. unfold abs, live, make_buckets. simpl.
  by rewrite fm_replicate_nil.
Qed.

Lemma exec_ok_n n : forall hash ops m, ops_size ops <= n -> reach hash m ->
  exists m', exec hash ops (Ok m) = Ok m' /\ reach hash m' /\ abs m' = spec_exec ops (abs m).
Proof.
  induction n as [|n IH]; intros hash ops m Hs Hr.
  - destruct ops as [|o ops]; [by exists m|]. simpl in Hs. pose proof (op_size_pos o). lia.
  - revert m Hr. induction ops as [|o ops IHo]; intros m Hr; [by exists m|].
    simpl in Hs.
    assert (exists m1, exec_op hash o m = Ok m1 /\ reach hash m1 /\ abs m1 = spec_op o (abs m)) as (m1 & E1 & R1 & A1).
    { destruct o as [k v|k d|hs hint src|].
      - destruct (t_set_total hash m k v Hr) as (m1 & E). exists m1. split; [done|]. split; [by eapply r_set|by eapply t_set].
      - destruct (t_upd_total hash m k d Hr) as (m1 & E). exists m1. split; [done|]. split; [by eapply r_upd|by eapply t_upd].
      - rewrite op_size_merge in Hs. rewrite exec_op_merge, spec_op_merge.
        destruct (IH hs src (new_hint hint) ltac:(lia) (r_new hs hint)) as (s & Es & Rs & As).
        unfold run. rewrite Es. simpl.
        destruct (t_merge_total hash hs m s Hr Rs) as (m1 & E). exists m1. split; [done|].
        split; [by eapply r_merge|]. rewrite (t_merge hash hs m s m1 Hr Rs E). f_equal. by rewrite As, abs_new.
      - exists (clear m). split; [done|]. split; [by apply r_clear|]. by destruct (t_clear hash m Hr). }
    destruct (IHo ltac:(lia) m1 R1) as (m' & E' & R' & A'). exists m'.
    unfold exec in *. simpl. rewrite E1. split; [exact E'|]. split; [done|]. unfold spec_exec in *. simpl. by rewrite <-A1.
Qed.

(* the unconditional refinement: every history runs to Ok and the result is the abstract additive map *)
Lemma t_refines hash hint ops :
  exists m, run hash hint ops = Ok m /\ reach hash m /\
    abs m = spec_run ops /\
    (forall k, get hash m k = spec_run ops !! k) /\
    len m = size (spec_run ops) /\
    iter hash m ≡ₚ map_to_list (spec_run ops) /\
    flatten hash m = Ok (iter hash m).
Proof.
  destruct (exec_ok_n (ops_size ops) hash ops (new_hint hint) (le_n _) (r_new hash hint)) as (m & E & Hr & HA).
  exists m. split; [exact E|]. split; [done|].
  assert (abs m = spec_run ops) as HA' by (by rewrite HA, abs_new).
  split; [done|]. rewrite <-HA'. split; [intros k; by apply t_get|]. split; [by apply (t_len hash)|].
  split; [by apply t_iter|by apply t_flatten].
Qed.

