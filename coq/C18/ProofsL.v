(* C18 proofs, part L (totality, 2): evacuate / growWork / hashGrow keep the size bounds and never panic;
   tooManyOverflowBuckets never fires; the retry loop of Set / SetOrUpdate ends within two passes. *)
From stdpp Require Import list gmap.
From Coq Require Import NArith Lia.
From GoProbe.Base Require Import CorrLib.
From GoProbe.C18 Require Import Model Abs ProofsA ProofsB ProofsC ProofsD ProofsE ProofsF ProofsG ProofsH ProofsK.

Lemma tslots_replicate n : tslots (replicate n empty_cell) = 8 * n.
Proof. unfold tslots. induction n as [|n IH]; [done|]. change (replicate (S n) empty_cell) with (empty_cell :: replicate n empty_cell). cbn [flat_map]. rewrite app_length, IH. change (length empty_cell) with 8. lia. Qed.
Lemma clen_ok_empty : clen_ok empty_cell.
Proof. by left. Qed.

Section L.
  Variable hash : key -> N.
  Notation Inv := (Inv hash).

  Lemma advance_bnd m ol :
    Inv m -> Bnd m -> old m = Some ol -> (exists c, ol !! n_evac m = Some c /\ evacuated c = true) ->
    Bnd (advance_mark m (length ol)) /\
    count (advance_mark m (length ol)) = count m /\
    (growing (advance_mark m (length ol)) = true -> n_evac m < n_evac (advance_mark m (length ol))).
  Proof.
    intros HI (B0 & B1 & B2 & B3) Hol _. destruct (inv_old _ _ HI ol Hol) as (Hpo & Hn & Hne & _).
    rewrite B0 in Hn. rewrite Hol in B3. unfold advance_mark. rewrite Hol. cbv zeta.
    match goal with |- context [?a =? length ol] => destruct (Nat.eqb_spec a (length ol)) as [E|E] end.
    - split; [|split; [done|discriminate]]. split; [done|]. split; [done|]. split; [done|].
      cbn [old count bkts]. rewrite Hn. pose proof (NGB_step (length ol) (pow2_pos _ Hpo)). lia.
    - split; [|split; [done|]].
      + split; [done|]. split; [done|]. split; [done|]. cbn [old count n_evac]. lia.
      + intros _. cbn [n_evac]. lia.
  Qed.

  Definition evac_tot (m m' : hm) (j : nat) : Prop :=
    Bnd m' /\ count m' = count m /\
    (growing m' = true -> n_evac m <= n_evac m' /\ (j = n_evac m -> n_evac m < n_evac m')).

  Lemma advance_tot m ol j c :
    Inv m -> Bnd m -> old m = Some ol -> ol !! j = Some c -> evacuated c = true ->
    evac_tot m (if j =? n_evac m then advance_mark m (length ol) else m) j.
  Proof.
    intros HI HB Hol Hc Ec. destruct (Nat.eqb_spec j (n_evac m)) as [->|Hne].
    - destruct (advance_bnd m ol HI HB Hol) as (H1 & H2 & H3); [eauto|].
      split; [done|]. split; [done|]. intros Hg. specialize (H3 Hg). lia.
    - split; [done|]. split; [done|]. intros _. lia.
  Qed.

  Lemma evacuate_total m j ol :
    Inv m -> Bnd m -> old m = Some ol -> j < length ol ->
    exists m', evacuate hash m j = Ok m' /\ evac_tot m m' j.
  Proof.
    intros HI HB Hol Hj. unfold evacuate. rewrite Hol.
    destruct (lookup_lt_is_Some_2 ol j Hj) as [c Hc]. rewrite Hc. cbv zeta.
    destruct (evacuated c) eqn:Ec.
    - simpl. eexists. split; [done|]. by eapply advance_tot.
    - destruct (inv_old _ _ HI ol Hol) as (Hpo & Hn & Hne & Hch).
      destruct (Hch j c Hc) as [Hcj _]. rewrite Ec in Hcj. destruct Hcj as (Hok & Hbj & Hbj').
      destruct Hok as (es & r & -> & Hcne & HF). rewrite Hbj.
      pose proof HB as (B0 & B1 & B2 & B3). rewrite B0 in *. specialize (Hbj' eq_refl).
      cbv iota. unfold chain in *. rewrite Hbj'.
      set (nb := N.of_nat (length ol)) in *.
      destruct (evac_chain_packed hash false nb es r (dst_init empty_cell) (dst_init empty_cell) [] [] dst_wf_init)
        as (x' & y' & Heq & Hx & Hy); [intros _; apply dst_wf_init|].
      destruct (evac_chain_len hash false nb es r _ _ [] [] _ x' y' dst_wf_init (fun _ => dst_wf_init)
                  dst_len_init (fun _ => dst_len_init) Heq) as [Lx Ly]. specialize (Ly eq_refl).
      rewrite Heq. simpl res_bind.
      destruct (dst_len_chain _ _ Hx Lx) as [LX CX]. destruct (dst_len_chain _ _ Hy Ly) as [LY CY].
      pose proof (evac_body_inv hash m ol j es r (dst_chain x') (dst_chain y')
                    (8 - d_i x') (8 - d_i y') (n_ovf m + d_novf x' + d_novf y') HI Hol Hc HF) as HBI.
      cbv zeta in HBI. rewrite B0 in HBI. fold nb in HBI.
      destruct HBI as [HIb _].
      { rewrite (dst_wf_chain _ _ Hx). done. } { by eapply dst_chain_ne. }
      { rewrite (dst_wf_chain _ _ Hy). done. } { by eapply dst_chain_ne. }
      match goal with |- exists m', Ok (if _ then advance_mark ?mb0 _ else _) = Ok m' /\ _ => set (mb := mb0) in * end.
      assert (Bnd mb) as HBb.
      { split; [done|]. unfold mb. cbn [n_ovf bkts old count n_evac same_size].
        assert (j < length (bkts m)) by (by eapply lookup_lt_Some).
        assert (<[j:=dst_chain x']> (bkts m) !! (j + length ol) = Some empty_cell) as Hb2
          by (rewrite list_lookup_insert_ne by lia; done).
        pose proof (tslots_insert _ _ _ (dst_chain x') Hbj) as T1.
        pose proof (tslots_insert _ _ _ (dst_chain y') Hb2) as T2.
        change (length empty_cell) with 8 in *.
        split; [rewrite !insert_length; unfold chain in *; lia|]. split; [apply Forall_insert; [apply Forall_insert|]; done|].
        rewrite Hol in B3. by rewrite insert_length. }
      eexists. split; [done|].
      assert (<[j := (ev_mark hash false nb <$> es) ++ replicate r EvEmpty]> ol !! j =
              Some ((ev_mark hash false nb <$> es) ++ replicate r EvEmpty)) as Hcj' by (by apply list_lookup_insert).
      pose proof (advance_tot mb _ j _ HIb HBb eq_refl Hcj' (proj1 (ev_marked hash false nb es r Hcne))) as HT.
      rewrite insert_length in HT. exact HT.
  Qed.

  Lemma grow_work_total m i ol :
    Inv m -> Bnd m -> old m = Some ol ->
    exists m', grow_work hash m i = Ok m' /\ Bnd m' /\ (growing m' = true -> n_evac m < n_evac m').
  Proof.
    intros HI HB Hol. unfold grow_work. rewrite Hol.
    destruct (inv_old _ _ HI ol Hol) as (Hpo & Hn & Hne & Hch).
    pose proof (bidx_lt (N.of_nat i) (length ol) Hpo) as Hj.
    destruct (evacuate_total m _ ol HI HB Hol Hj) as (m1 & E1 & B1 & C1 & N1). rewrite E1. simpl.
    destruct (evacuate_spec hash m _ ol m1 HI Hol Hj E1) as (I1 & _ & _ & _ & O1).
    unfold growing in *. destruct (old m1) as [ol1|] eqn:Hol1.
    - destruct (inv_old _ _ I1 ol1 Hol1) as (_ & _ & Hne1 & _).
      destruct (evacuate_total m1 _ ol1 I1 B1 Hol1 Hne1) as (m2 & E2 & B2 & C2 & N2).
      exists m2. split; [done|]. split; [done|]. intros Hg. specialize (N1 eq_refl). specialize (N2 Hg).
      destruct N2 as [_ N2]. specialize (N2 eq_refl). lia.
    - exists m1. split; [done|]. split; [done|]. rewrite Hol1. discriminate.
  Qed.

  Lemma too_many_false m : Inv m -> Bnd m -> old m = None -> too_many (n_ovf m) (length (bkts m)) = false.
  Proof.
    intros HI (B0 & B1 & B2 & B3) Ho. rewrite Ho in B3. unfold too_many. apply Nat.leb_gt.
    destruct (sum_bound _ B2) as [S1 S2]. pose proof (pow2_pos _ (inv_pow _ _ HI)) as Hn.
    assert (nlive (bkts m) = count m) as Hnl.
    { rewrite (inv_count _ _ HI). unfold nlive, live. rewrite Ho. simpl. by rewrite app_nil_r. }
    destruct (decide (length (bkts m) <= n_ovf m)) as [Hle|]; [|lia]. exfalso.
    unfold NGB in B3. pose proof (Nat.mul_div_le (length (bkts m)) 2 ltac:(lia)). lia.
  Qed.

  Lemma hash_grow_bnd m :
    Bnd m -> old m = None -> load_factor (S (count m)) (length (bkts m)) = true ->
    Bnd (hash_grow m) /\ S (count (hash_grow m)) <= 13 * length (bkts m) \/ length (bkts m) = 0.
  Proof.
    intros (B0 & B1 & B2 & B3) Ho Hlf. rewrite Ho in B3.
    destruct (decide (length (bkts m) = 0)) as [|Hn]; [by right|left].
    unfold hash_grow, make_buckets. rewrite Hlf. split.
    - split; [done|]. cbn [n_ovf bkts old count n_evac]. rewrite replicate_length, tslots_replicate.
      split; [lia|]. split; [apply Forall_replicate, clen_ok_empty|lia].
    - cbn [count]. unfold NGB in B3. pose proof (Nat.mul_div_le (length (bkts m)) 2 ltac:(lia)). lia.
  Qed.
End L.
