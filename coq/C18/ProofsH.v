(* C18 proofs, part H: reachable states satisfy the invariant; Set/SetOrUpdate/Merge/Get/Len at the level
   of the abstract map. *)
From stdpp Require Import list gmap.
From Coq Require Import NArith Lia.
From GoProbe.Base Require Import CorrLib.
From GoProbe.C18 Require Import Model Abs ProofsA ProofsB ProofsC ProofsD ProofsE ProofsF ProofsG.

Section H.
  Variable hash : key -> N.
  Notation Inv := (Inv hash).

  Definition Inv0 (m : hm) : Prop := m = empty0 \/ Inv m.

  Lemma hint_nb_pow2 fuel hint nb : pow2 nb -> pow2 (hint_nb fuel hint nb).
  Proof.
    revert nb. induction fuel as [|fuel IH]; intros nb Hp; simpl; [done|].
    destruct (load_factor hint nb); [|done]. apply IH. by apply pow2_double.
  Qed.

  Lemma inv_fresh n : pow2 n -> Inv (HM 0 false 0 0 (make_buckets n) None).
  Proof.
    intros Hp.
    assert (live (HM 0 false 0 0 (make_buckets n) None) = []) as Hl.
    { unfold live, make_buckets. simpl. rewrite fm_replicate_nil by done. done. }
    constructor; rewrite ?Hl; try done.
    - unfold make_buckets. simpl. by rewrite replicate_length.
    - unfold make_buckets. simpl. intros i c [-> _]%lookup_replicate.
      exists [], 8. split; [done|]. split; [done|]. constructor.
    - constructor.
  Qed.

  Lemma inv0_new hint : Inv0 (new_hint hint).
  Proof.
    unfold new_hint. destruct (hint =? 0); [by left|]. right.
    apply inv_fresh, hint_nb_pow2, pow2_1.
  Qed.

  Lemma ensure_spec m : Inv0 m -> Inv (ensure_buckets m) /\ live (ensure_buckets m) = live m /\ count (ensure_buckets m) = count m.
  Proof.
    intros [->|HI].
    - split; [apply (inv_fresh 1 pow2_1)|done].
    - unfold ensure_buckets. pose proof (pow2_pos _ (inv_pow _ _ HI)).
      destruct (bkts m) eqn:E; [simpl in *; lia|done].
  Qed.

  Lemma abs_empty0 : abs empty0 = ∅.
  Proof. reflexivity. Qed.

  Lemma set_gen_spec m k f v0 m' :
    Inv0 m -> set_loop hash set_fuel (ensure_buckets m) k f v0 = Ok m' ->
    Inv m' /\ abs m' = <[k := match abs m !! k with Some v => f v | None => v0 end]> (abs m).
  Proof.
    intros H0 H. destruct (ensure_spec m H0) as (HI & HL & _).
    destruct (set_loop_spec hash _ _ _ _ _ _ HI H) as [HI' Hu].
    split; [done|]. rewrite HL in Hu.
    assert (NoDup (live m).*1) as Hnd by (rewrite <-HL; apply (inv_nodup _ _ HI)).
    by destruct (upd_spec_abs _ _ _ _ _ Hnd Hu) as (_ & _ & ?).
  Qed.

  Lemma set_spec m k v m' : Inv0 m -> set hash m k v = Ok m' -> Inv m' /\ abs m' = <[k := v]> (abs m).
  Proof.
    intros H0 H. destruct (set_gen_spec m k _ v m' H0 H) as [? E]. split; [done|].
    rewrite E. by destruct (abs m !! k).
  Qed.

  Lemma upd_spec' m k d m' : Inv0 m -> set_or_update hash m k d = Ok m' -> Inv m' /\ abs m' = upsert (abs m) k d.
  Proof. intros H0 H. by destruct (set_gen_spec m k _ d m' H0 H). Qed.

  Lemma merge_list_spec l : forall m m', Inv0 m -> merge_list hash m l = Ok m' ->
    Inv0 m' /\ abs m' = fold_left (fun M e => upsert M e.1 e.2) l (abs m).
  Proof.
    induction l as [|[k v] l IH]; intros m m' H0 H; simpl in *.
    - by injection H as <-.
    - destruct (set_or_update hash m k v) as [m1| |] eqn:E; try discriminate. simpl in H.
      destruct (upd_spec' m k v m1 H0 E) as [I1 A1].
      destruct (IH m1 m' (or_intror I1) H) as [? A2]. split; [done|]. by rewrite A2, A1.
  Qed.

  (* ---- Get *)
  Lemma lookup_home m k (E : list (key * val)) :
    Inv m -> NoDup E.*1 -> (forall v, (k, v) ∈ live m -> (k, v) ∈ E) -> (forall v, (k, v) ∈ E -> (k, v) ∈ live m) ->
    ltm E !! k = abs m !! k.
  Proof.
    intros HI HndE H1 H2. pose proof (inv_nodup _ _ HI) as Hnd. unfold abs.
    destruct (ltm E !! k) as [v|] eqn:E1.
    - apply elem_of_list_to_map_2 in E1. symmetry. by apply elem_of_list_to_map_1, H2.
    - destruct (ltm (live m) !! k) as [v|] eqn:E2; [|done].
      apply elem_of_list_to_map_2, H1 in E2. apply (elem_of_list_to_map_1 _ _ _ HndE) in E2. congruence.
  Qed.

  Lemma centries_in_new m i c x : bkts m !! i = Some c -> x ∈ centries c -> x ∈ live m.
  Proof.
    intros Hc Hx. unfold live. apply elem_of_app. left. apply elem_of_flat_map. exists c.
    split; [by eapply elem_of_list_lookup_2|done].
  Qed.
  Lemma centries_in_old m ol j c x : old m = Some ol -> ol !! j = Some c -> x ∈ centries c -> x ∈ live m.
  Proof.
    intros Ho Hc Hx. unfold live. rewrite Ho. apply elem_of_app. right. apply elem_of_flat_map. exists c.
    split; [by eapply elem_of_list_lookup_2|done].
  Qed.

  Lemma old_chain_nodup m ol j c : Inv m -> old m = Some ol -> ol !! j = Some c -> NoDup (centries c).*1.
  Proof.
    intros HI Ho Hc. pose proof (inv_nodup _ _ HI) as Hnd. unfold live in Hnd. rewrite Ho in Hnd. simpl in Hnd.
    rewrite (fm_lookup centries _ j c Hc), !fmap_app in Hnd.
    apply NoDup_app in Hnd as (_ & _ & Hnd). apply NoDup_app in Hnd as (_ & _ & Hnd).
    by apply NoDup_app in Hnd as (Hnd & _ & _).
  Qed.

  Lemma new_bucket_of_old m ol h :
    Inv m -> old m = Some ol ->
    bidx h (length (bkts m)) = bidx h (length ol) \/
    (same_size m = false /\ bidx h (length (bkts m)) = bidx h (length ol) + length ol).
  Proof.
    intros HI Ho. destruct (inv_old _ _ HI ol Ho) as (Hpo & Hn & _). rewrite Hn.
    destruct (same_size m); [by left|]. rewrite bidx_double by done.
    destruct (_ =? _)%N; [left; lia|right; done].
  Qed.

  Lemma get_spec m k : Inv m -> get hash m k = abs m !! k.
  Proof.
    intros HI. unfold get, access. cbv zeta.
    destruct (Nat.eqb_spec (count m) 0) as [E0|_].
    { rewrite (inv_count _ _ HI) in E0. unfold abs. destruct (live m); [done|discriminate]. }
    change (N.to_nat (N.land (hash k) (N.of_nat (length (bkts m)) - 1))) with (bidx (hash k) (length (bkts m))).
    pose proof (bidx_lt (hash k) _ (inv_pow _ _ HI)) as Hi.
    destruct (lookup_lt_is_Some_2 _ _ Hi) as [c Hc]. unfold chain in *. rewrite Hc. cbn [from_option id].
    destruct (inv_new _ _ HI _ c Hc) as (es & r & -> & _ & HF).
    assert (forall n j es', Forall (fun e : N * (key * val) => bidx (hash e.2.1) n = j /\ e.1 = tophash (hash e.2.1)) es' ->
              Forall (fun e : N * (key * val) => e.2.1 = k -> e.1 = tophash (hash k)) es') as Hconv.
    { intros n j es' H. eapply Forall_impl; [exact H|]. intros e [_ He] <-. done. }
    destruct (old m) as [ol|] eqn:Ho.
    - destruct (inv_old _ _ HI ol Ho) as (Hpo & Hn & _ & Hch).
      assert ((if same_size m then (N.of_nat (length (bkts m)) - 1)%N else N.shiftr (N.of_nat (length (bkts m)) - 1) 1)
              = (N.of_nat (length ol) - 1)%N) as Hm.
      { rewrite Hn. destruct (same_size m); [done|by apply shiftr_mask]. }
      unfold chain in Hm. rewrite Hm. clear Hm.
      change (N.to_nat (N.land (hash k) (N.of_nat (length ol) - 1))) with (bidx (hash k) (length ol)).
      pose proof (bidx_lt (hash k) _ Hpo) as Hj.
      destruct (lookup_lt_is_Some_2 _ _ Hj) as [oc Hoc]. unfold chain in *. rewrite Hoc. cbn [from_option id].
      destruct (Hch _ oc Hoc) as [H1 _]. destruct (evacuated oc) eqn:Eo.
      + rewrite scan_get_packed by (by eapply Hconv). rewrite <-option_fmap_compose. simpl.
        change (fmap _ ?x) with (id <$> x). rewrite option_fmap_id.
        pose proof (chain_nodup hash m _ _ HI Hc) as Hnd. rewrite centries_packed in Hnd.
        apply lookup_home; [done|done| |].
        * intros v Hin. destruct (live_locate hash m k v HI Hin) as [(c' & Hc' & H)|(ol' & c' & Hol' & Hc' & Ec' & H)].
          -- unfold chain in *. rewrite Hc in Hc'. injection Hc' as <-. by rewrite centries_packed in H.
          -- unfold chain in *. rewrite Ho in Hol'. injection Hol' as <-. rewrite Hoc in Hc'. injection Hc' as <-. congruence.
        * intros v Hin. eapply centries_in_new; [exact Hc|]. by rewrite centries_packed.
      + destruct H1 as ((es' & r' & -> & _ & HF') & Hb1 & Hb2).
        rewrite scan_get_packed by (by eapply Hconv). rewrite <-option_fmap_compose. simpl.
        change (fmap _ ?x) with (id <$> x). rewrite option_fmap_id.
        pose proof (old_chain_nodup m ol _ _ HI Ho Hoc) as Hnd. rewrite centries_packed in Hnd.
        apply lookup_home; [done|done| |].
        * intros v Hin. destruct (live_locate hash m k v HI Hin) as [(c' & Hc' & H)|(ol' & c' & Hol' & Hc' & Ec' & H)].
          -- exfalso. destruct (new_bucket_of_old m ol (hash k) HI Ho) as [E|[Es E]]; unfold chain in *; rewrite E in Hc'.
             ++ rewrite Hb1 in Hc'. injection Hc' as <-. by apply elem_of_nil in H.
             ++ rewrite (Hb2 Es) in Hc'. injection Hc' as <-. by apply elem_of_nil in H.
          -- unfold chain in *. rewrite Ho in Hol'. injection Hol' as <-. rewrite Hoc in Hc'. injection Hc' as <-.
             by rewrite centries_packed in H.
        * intros v Hin. eapply centries_in_old; [exact Ho|exact Hoc|]. by rewrite centries_packed.
    - rewrite scan_get_packed by (by eapply Hconv). rewrite <-option_fmap_compose. simpl.
      change (fmap _ ?x) with (id <$> x). rewrite option_fmap_id.
      pose proof (chain_nodup hash m _ _ HI Hc) as Hnd. rewrite centries_packed in Hnd.
      apply lookup_home; [done|done| |].
      + intros v Hin. destruct (live_locate hash m k v HI Hin) as [(c' & Hc' & H)|(ol' & c' & Hol' & Hc' & Ec' & H)].
        * unfold chain in *. rewrite Hc in Hc'. injection Hc' as <-. by rewrite centries_packed in H.
        * unfold chain in *. congruence.
      + intros v Hin. eapply centries_in_new; [exact Hc|]. by rewrite centries_packed.
  Qed.

  Lemma len_spec m : Inv m -> len m = size (abs m).
  Proof.
    intros HI. unfold len, abs. pose proof (inv_count _ _ HI) as ->.
    pose proof (map_to_list_to_map (M := gmap key) (live m) (inv_nodup _ _ HI)) as HP.
    apply Permutation_length in HP. rewrite <-HP. reflexivity.
  Qed.

  Lemma get_spec0 m k : Inv0 m -> get hash m k = abs m !! k.
  Proof. intros [->|HI]; [done|by apply get_spec]. Qed.
  Lemma len_spec0 m : Inv0 m -> len m = size (abs m).
  Proof. intros [->|HI]; [done|by apply len_spec]. Qed.
End H.
