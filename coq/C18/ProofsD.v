(* C18 proofs, part D: the invariant is preserved by evacuation, the evacuation mark, hashGrow. *)
From stdpp Require Import list gmap.
From Coq Require Import NArith Lia.
From GoProbe.Base Require Import CorrLib.
From GoProbe.C18 Require Import Model Abs ProofsA ProofsB ProofsC.

Lemma perm3 {A} (a b c : list A) : (a ++ b) ++ c ≡ₚ b ++ c ++ a.
Proof. rewrite (Permutation_app_comm a b), <-app_assoc. f_equiv. apply Permutation_app_comm. Qed.
Lemma perm4 {A} (a b c d : list A) : (a ++ b ++ c) ++ d ≡ₚ c ++ d ++ b ++ a.
Proof.
  rewrite <-!app_assoc. rewrite (Permutation_app_comm a). rewrite <-!app_assoc.
  rewrite (Permutation_app_comm b). rewrite <-!app_assoc. do 2 f_equiv. apply Permutation_app_comm.
Qed.

Section D.
  Variable hash : key -> N.
  Notation Inv := (Inv hash).
  Notation chain_ok := (chain_ok hash).

  Lemma live_perm_inv (m m' : hm) :
    live m' ≡ₚ live m -> NoDup (live m).*1 -> count m = length (live m) -> count m' = count m ->
    NoDup (live m').*1 /\ count m' = length (live m').
  Proof. intros HP Hnd Hc Hcc. split; [by rewrite HP|]. by rewrite HP, Hcc. Qed.

  Lemma all_evac_nil m ol :
    Inv m -> old m = Some ol -> (forall j c, ol !! j = Some c -> evacuated c = true) ->
    flat_map centries ol = [].
  Proof.
    intros HI Hol Hev. apply fm_nil. intros c [j Hj]%elem_of_list_lookup.
    destruct (inv_old _ _ HI ol Hol) as (_ & _ & _ & H). destruct (H j c Hj) as [H1 _].
    by rewrite (Hev j c Hj) in H1.
  Qed.

  Lemma advance_spec m ol :
    Inv m -> old m = Some ol -> (exists c, ol !! n_evac m = Some c /\ evacuated c = true) ->
    Inv (advance_mark m (length ol)) /\ live (advance_mark m (length ol)) = live m /\
    bkts (advance_mark m (length ol)) = bkts m /\
    (forall ol', old (advance_mark m (length ol)) = Some ol' -> ol' = ol /\
       same_size (advance_mark m (length ol)) = same_size m).
  Proof.
    intros HI Hol (c0 & Hc0 & Ec0). pose proof HI as [Hpow Hnew Hng Hold Hnd Hcnt].
    destruct (Hold ol Hol) as (Hpo & Hn & Hne & Hch).
    unfold advance_mark. rewrite Hol. cbv zeta.
    set (ne1 := S (n_evac m)). set (stop := Nat.min (ne1 + 1024) (length ol)).
    destruct (count_evac_spec (drop ne1 ol) (stop - ne1)) as [Hc1 Hc2].
    set (cnt := count_evac (drop ne1 ol) (stop - ne1)) in *.
    assert (forall j c, j < ne1 + cnt -> ol !! j = Some c -> evacuated c = true) as Hev.
    { intros j c Hj Hc. destruct (decide (j < n_evac m)) as [Hlt|Hge].
      - by apply (Hch j c Hc).
      - destruct (decide (j = n_evac m)) as [->|Hne']; [congruence|].
        destruct (Hc2 (j - ne1)) as (c' & Hc' & Ec'); [lia|].
        rewrite lookup_drop in Hc'. replace (ne1 + (j - ne1)) with j in Hc' by lia. congruence. }
    destruct (Nat.eqb_spec (ne1 + cnt) (length ol)) as [Heq|Hneq].
    - assert (flat_map centries ol = []) as Hnil.
      { eapply all_evac_nil; eauto. intros j c Hc. eapply Hev; eauto.
        apply lookup_lt_Some in Hc. lia. }
      assert (live (HM (count m) false (n_ovf m) (ne1 + cnt) (bkts m) None) = live m) as Hl.
      { unfold live. simpl. rewrite Hol. simpl. by rewrite Hnil. }
      split; [|split; [done|split; [done|discriminate]]].
      constructor; [exact Hpow|exact Hnew|done|discriminate|by rewrite Hl|by rewrite Hl].
    - assert (ne1 + cnt < length ol) as Hlt by (unfold stop in *; lia).
      assert (live (HM (count m) (same_size m) (n_ovf m) (ne1 + cnt) (bkts m) (Some ol)) = live m) as Hl
        by (unfold live; simpl; by rewrite Hol).
      split; [|split; [done|split; [done|]]].
      + constructor; [exact Hpow|exact Hnew|discriminate| |by rewrite Hl|by rewrite Hl].
        cbn [bkts same_size n_evac old count]. intros ol' [= <-]. split; [done|]. split; [done|]. split; [done|].
        intros j c Hc. split; [apply (Hch j c Hc)|]. intros Hj. by eapply Hev.
      + cbn [bkts same_size n_evac old count]. by intros ol' [= <-].
  Qed.

  (* the state right after the body of evacuate on an unevacuated chain *)
  Lemma evac_body_inv m ol j es r X Y rx ry novf :
    Inv m -> old m = Some ol -> ol !! j = Some ((fullE <$> es) ++ replicate r ERest) ->
    Forall (fun e => bidx (hash e.2.1) (length ol) = j /\ e.1 = tophash (hash e.2.1)) es ->
    let same := same_size m in
    let nb := N.of_nat (length ol) in
    X = (fullE <$> filter (fun e => goes_y hash same nb e = false) es) ++ replicate rx ERest -> X <> [] ->
    Y = (fullE <$> filter (fun e => goes_y hash same nb e = true) es) ++ replicate ry ERest -> Y <> [] ->
    let c' := (ev_mark hash same nb <$> es) ++ replicate r EvEmpty in
    let b1 := <[j := X]> (bkts m) in
    let b2 := if same then b1 else <[j + length ol := Y]> b1 in
    let mb := HM (count m) same novf (n_evac m) b2 (Some (<[j := c']> ol)) in
    Inv mb /\ live mb ≡ₚ live m.
  Proof.
    intros HI Hol Hc HF same nb HX HXne HY HYne c' b1 b2 mb.
    pose proof HI as [Hpow Hnew Hng Hold Hnd Hcnt].
    destruct (Hold ol Hol) as (Hpo & Hn & Hne & Hch).
    destruct (Hch j _ Hc) as [Hcj _]. rewrite evacuated_packed in Hcj.
    destruct Hcj as (Hok & Hbj & Hbj').
    assert (j < length ol) as Hj by (by eapply lookup_lt_Some).
    assert (length (bkts m) = length b2) as Hlen.
    { unfold b2, b1. destruct same; by rewrite ?insert_length. }
    assert (same = same_size m) as Hsame by done.
    assert (length ol <= length (bkts m)) as Hle by (destruct (same_size m); lia).
    (* the permutation of the live entries *)
    assert (live mb ≡ₚ live m) as Hperm.
    { unfold live, mb. simpl. rewrite Hol. simpl.
      assert (centries c' = []) as Hc'nil by (apply ev_marked; by destruct Hok as (? & ? & ? & ? & ?); congruence).
      assert (flat_map centries (<[j := c']> ol) ++ centries ((fullE <$> es) ++ replicate r ERest)
              ≡ₚ flat_map centries ol) as Hold1.
      { rewrite Permutation_app_comm. by apply fm_insert_to_nil. }
      rewrite <-Hold1, centries_packed.
      assert (centries X ++ centries Y ≡ₚ snd <$> es) as HXY.
      { rewrite HX, HY, !centries_packed, <-fmap_app. by rewrite filter_partition_perm. }
      rewrite <-HXY. unfold b2, b1. destruct same eqn:Es.
      - assert (centries Y = []) as ->.
        { rewrite HY, centries_packed. unfold goes_y.
          replace (filter _ es) with (@nil (N * (key * val))); [done|].
          clear. induction es as [|e es IH]; [done|]. rewrite filter_cons. case_decide; [done|]. apply IH. }
        rewrite app_nil_r. rewrite (fm_insert_nil centries _ j empty_cell X) by done.
        apply perm3.
      - rewrite (fm_insert_nil centries _ (j + length ol) empty_cell Y).
        2:{ rewrite list_lookup_insert_ne by lia. by apply Hbj'. } 2: done.
        rewrite (fm_insert_nil centries _ j empty_cell X) by done.
        apply perm4. }
    split; [|done].
    destruct (live_perm_inv m mb Hperm Hnd Hcnt eq_refl) as [Hnd' Hcnt'].
    constructor; try done.
    - simpl. by rewrite <-Hlen.
    - (* new chains *)
      simpl. rewrite <-Hlen. intros i ci Hi.
      assert (forall e, e ∈ es -> bidx (hash e.2.1) (length (bkts m)) =
                if goes_y hash same nb e then j + length ol else j) as Hplace.
      { intros e He. rewrite Forall_forall in HF. destruct (HF e He) as [Hb _].
        unfold goes_y. fold same in Hn. destruct same; [by rewrite Hn|].
        rewrite Hn, bidx_double, Hb by done. fold nb. destruct (N.land _ _ =? 0)%N; simpl; lia. }
      assert (forall (P : bool) rr, chain_ok (length (bkts m)) (if P then j + length ol else j)
                ((fullE <$> filter (fun e => goes_y hash same nb e = P) es) ++ replicate rr ERest) \/
                (fullE <$> filter (fun e => goes_y hash same nb e = P) es) ++ replicate rr ERest = []) as Hchain.
      { intros P rr. destruct (decide ((fullE <$> filter (fun e => goes_y hash same nb e = P) es) ++ replicate rr ERest = [])) as [|Hne0]; [by right|left].
        eexists _, rr. split; [done|]. split; [done|]. apply Forall_forall.
        intros e [HP He]%elem_of_list_filter. rewrite Forall_forall in HF. split; [|by apply (HF e He)].
        rewrite (Hplace e He), HP. done. }
      unfold b2, b1 in Hi. fold same in Hn. destruct same eqn:Es.
      + destruct (decide (i = j)) as [->|Hij].
        * rewrite list_lookup_insert in Hi by lia. injection Hi as <-.
          destruct (Hchain false rx) as [H|H]; [by rewrite HX|by rewrite <-HX in H].
        * rewrite list_lookup_insert_ne in Hi by done. by apply Hnew.
      + destruct (decide (i = j + length ol)) as [->|Hij'].
        * rewrite list_lookup_insert in Hi by (rewrite insert_length; lia). injection Hi as <-.
          destruct (Hchain true ry) as [H|H]; [by rewrite HY|by rewrite <-HY in H].
        * rewrite list_lookup_insert_ne in Hi by done.
          destruct (decide (i = j)) as [->|Hij].
          -- rewrite list_lookup_insert in Hi by lia. injection Hi as <-.
             destruct (Hchain false rx) as [H|H]; [by rewrite HX|by rewrite <-HX in H].
          -- rewrite list_lookup_insert_ne in Hi by done. by apply Hnew.
    - simpl. intros ol' [= <-]. rewrite insert_length. split; [done|]. split; [by rewrite <-Hlen|].
      split; [done|]. intros j' cj Hj'.
      destruct (decide (j' = j)) as [->|Hjj].
      + rewrite list_lookup_insert in Hj' by done. injection Hj' as <-.
        destruct (ev_marked hash same nb es r) as [E1 E2].
        { destruct Hok as (? & ? & ? & ? & ?); congruence. }
        fold c' in E1, E2. rewrite E1. done.
      + rewrite list_lookup_insert_ne in Hj' by done.
        destruct (Hch j' cj Hj') as [H1 H2]. split; [|done].
        destruct (evacuated cj); [done|]. destruct H1 as (Hc1 & Hc2 & Hc3).
        assert (j' < length ol) by (by eapply lookup_lt_Some).
        split; [done|]. unfold b2, b1. fold same in Hc3. destruct same.
        * rewrite list_lookup_insert_ne by done. done.
        * rewrite !list_lookup_insert_ne by lia. split; [done|]. intros _.
          rewrite ?list_lookup_insert_ne by lia. by apply Hc3.
  Qed.
End D.
