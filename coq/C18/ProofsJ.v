(* C18 proofs, part J (stage 3): iteration while the table is growing. *)
From stdpp Require Import list gmap.
From Coq Require Import NArith Lia.
From GoProbe.Base Require Import CorrLib.
From GoProbe.C18 Require Import Model Abs ProofsA ProofsB ProofsC ProofsD ProofsE ProofsF ProofsG ProofsH ProofsI.

Section J.
  Variable hash : key -> N.
  Notation Inv := (Inv hash).

  Definition sel (m : hm) (i : nat) (l : list (key * val)) : list (key * val) :=
    flat_map (fun kv : key * val =>
      if (if same_size m then true else bidx (hash kv.1) (length (bkts m)) =? i) then [kv] else []) l.

  Lemma iter_slots_some m i es r :
    iter_slots hash m (Some i) ((fullE <$> es) ++ replicate r ERest) = sel m i (snd <$> es).
  Proof. rewrite iter_slots_packed. unfold sel. by rewrite fm_fmap. Qed.

  Definition A (m : hm) (i : nat) : list (key * val) := centries (default [] (bkts m !! i)).
  Definition B (ol : list chain) (j : nat) : list (key * val) := centries (default [] (ol !! j)).

  Lemma iter_bucket_grow m ol i :
    Inv m -> old m = Some ol -> i < length (bkts m) ->
    iter_bucket hash m i =
      if evacuated (default [] (ol !! bidx (N.of_nat i) (length ol))) then A m i
      else sel m i (B ol (bidx (N.of_nat i) (length ol))).
  Proof.
    intros HI Ho Hi. unfold iter_bucket, A, B. rewrite Ho.
    destruct (lookup_lt_is_Some_2 _ _ Hi) as [c Hc].
    destruct (inv_old _ _ HI ol Ho) as (Hpo & Hn & _ & Hch).
    pose proof (bidx_lt (N.of_nat i) _ Hpo) as Hj.
    destruct (lookup_lt_is_Some_2 _ _ Hj) as [oc Hoc].
    unfold chain in *. rewrite Hc, Hoc. cbn [from_option id].
    destruct (Hch _ oc Hoc) as [H1 _]. destruct (evacuated oc).
    - destruct (inv_new _ _ HI i c Hc) as (es & r & -> & _ & _). by rewrite iter_slots_none, centries_packed.
    - destruct H1 as ((es & r & -> & _ & _) & _). by rewrite iter_slots_some, centries_packed.
  Qed.

  Lemma sel_same m i l : same_size m = true -> sel m i l = l.
  Proof. intros E. unfold sel. rewrite E. induction l as [|a l IH]; [done|]. simpl. by rewrite IH. Qed.

  Lemma sel_split m j on (l : list (key * val)) :
    same_size m = false ->
    (forall kv, kv ∈ l -> bidx (hash kv.1) (length (bkts m)) = j \/ bidx (hash kv.1) (length (bkts m)) = j + on) ->
    0 < on -> sel m j l ++ sel m (j + on) l ≡ₚ l.
  Proof.
    intros E H Hon. unfold sel. rewrite E. induction l as [|a l IH]; [done|]. simpl.
    rewrite <-IH at 3 by (intros kv Hkv; apply H; by right).
    destruct (H a) as [Ha|Ha]; [by left| |]; rewrite Ha.
    - rewrite Nat.eqb_refl. destruct (Nat.eqb_spec j (j + on)); [lia|]. simpl. done.
    - rewrite Nat.eqb_refl. destruct (Nat.eqb_spec (j + on) j); [lia|]. simpl.
      by rewrite <-Permutation_middle.
  Qed.

  Lemma A_seq m : flat_map (A m) (seq 0 (length (bkts m))) = flat_map centries (bkts m).
  Proof. apply fm_seq. intros i c Hc. unfold A. unfold chain in *. by rewrite Hc. Qed.
  Lemma B_seq ol : flat_map (B ol) (seq 0 (length ol)) = flat_map centries ol.
  Proof. apply fm_seq. intros i c Hc. unfold B. unfold chain in *. by rewrite Hc. Qed.

  Lemma iter_grow m ol : Inv m -> old m = Some ol -> iter hash m ≡ₚ live m.
  Proof.
    intros HI Ho. unfold iter. destruct (Nat.eqb_spec (count m) 0) as [E0|_].
    { rewrite (inv_count _ _ HI) in E0. by destruct (live m). }
    rewrite (iter_order_perm _ (inv_pow _ _ HI)).
    destruct (inv_old _ _ HI ol Ho) as (Hpo & Hn & _ & Hch).
    pose proof (pow2_pos _ Hpo) as Hon.
    unfold live. rewrite Ho. cbn [from_option]. rewrite <-A_seq, <-B_seq.
    destruct (same_size m) eqn:Es.
    - (* same size: old bucket i feeds new bucket i *)
      rewrite Hn, <-fm_split. apply fm_ext_perm. intros i Hi%elem_of_seq.
      rewrite (iter_bucket_grow m ol i HI Ho) by lia. rewrite bidx_small by (done || lia).
      destruct (lookup_lt_is_Some_2 ol i ltac:(lia)) as [oc Hoc].
      destruct (Hch i oc Hoc) as [H1 _]. unfold B. unfold chain in *. rewrite Hoc. cbn [from_option id].
      destruct (evacuated oc).
      + by rewrite H1, app_nil_r.
      + destruct H1 as (_ & Hb & _). unfold A. unfold chain in *. rewrite Hb. cbn [from_option id].
        rewrite centries_empty_cell. simpl. by rewrite sel_same.
    - (* doubling: old bucket j feeds new buckets j and j + |old| *)
      rewrite Hn. replace (2 * length ol) with (length ol + length ol) by lia.
      rewrite seq_app, !flat_map_app. simpl.
      rewrite (fm_seq_shift (iter_bucket hash m) (length ol) (length ol)), (fm_seq_shift (A m) (length ol) (length ol)).
      rewrite <-(fm_split (A m)), <-fm_split, <-fm_split.
      apply fm_ext_perm. intros j Hj%elem_of_seq.
      rewrite (iter_bucket_grow m ol j HI Ho), (iter_bucket_grow m ol (j + length ol) HI Ho) by lia.
      rewrite bidx_small, bidx_shift by (done || lia).
      destruct (lookup_lt_is_Some_2 ol j ltac:(lia)) as [oc Hoc].
      destruct (Hch j oc Hoc) as [H1 _]. unfold B. unfold chain in *. rewrite Hoc. cbn [from_option id].
      destruct (evacuated oc).
      + by rewrite H1, app_nil_r.
      + destruct H1 as ((es & r & -> & _ & HF) & Hb & Hb'). specialize (Hb' eq_refl).
        unfold A. unfold chain in *. rewrite Hb, Hb'. cbn [from_option id]. rewrite centries_empty_cell. simpl.
        apply sel_split; [done| |done].
        intros [k v] Hkv. rewrite centries_packed in Hkv. apply elem_of_list_fmap in Hkv as ([t kv'] & -> & He).
        rewrite Forall_forall in HF. destruct (HF _ He) as [Hb0 _]. simpl in Hb0. simpl fst.
        unfold chain in *. rewrite Hn, bidx_double, Hb0 by done. destruct (_ =? _)%N; [left; lia|by right].
  Qed.
End J.

(* ---- full-strength statements over all reachable states *)
Lemma iter_all hash m : Inv0 hash m -> iter hash m ≡ₚ live m.
Proof.
  intros [->|HI]; [done|]. destruct (old m) as [ol|] eqn:Ho.
  - by eapply iter_grow.
  - by apply iter_nogrow.
Qed.

Lemma t_iter hash m : reach hash m -> iter hash m ≡ₚ map_to_list (abs m).
Proof.
  intros Hr. pose proof (reach_inv _ _ Hr) as H0. rewrite (iter_all hash m H0).
  destruct H0 as [->|HI]; [done|]. by rewrite (live_to_list hash m HI).
Qed.

Lemma t_flatten hash m : reach hash m -> flatten hash m = Ok (iter hash m).
Proof. intros Hr. pose proof (reach_inv _ _ Hr) as H0. apply flatten_of_iter; [done|by apply iter_all]. Qed.

Lemma t_merge hash hs m s m' :
  reach hash m -> reach hs s -> merge hash hs m s = Ok m' -> abs m' = vunion (abs m) (abs s).
Proof.
  intros Hr Hs H. apply (merge_of_iter hash hs m s m' (reach_inv _ _ Hr) (reach_inv _ _ Hs)); [|done].
  apply iter_all, reach_inv, Hs.
Qed.
