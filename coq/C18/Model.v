(* C18 model: the flow hash map of pkg/types/hashmap (hashmap.go, iterator.go, list.go).
   Executable definitions only.

   The table is made explicit: a bucket is a CHAIN, the concatenation of its 8-slot cells (the bucket
   itself followed by its overflow cells, in pointer order).  A slot is the tophash byte together with
   the key/value it guards.  The pre-allocated overflow area, the pointers and the key arena are
   abstracted: a chain is owned by its bucket and a stored key is a value (the arena copy).
   `hash` is a parameter (any function); keys are identities (N), the harness maps them injectively to
   byte strings.  Counters are N with explicit mod 2^64.  count / nOverflow / nEvacuate are nat
   (they cannot wrap before memory is exhausted). *)
From stdpp Require Import list.
From Coq Require Import NArith.
From GoProbe.Base Require Import CorrLib.

Definition key := N.
Record val := V { v_a : N; v_b : N; v_c : N; v_d : N }.   (* BytesRcvd BytesSent PacketsRcvd PacketsSent *)
Definition two64 : N := 18446744073709551616%N.
Definition add64 (x y : N) : N := ((x + y) mod two64)%N.
Definition vadd (x y : val) : val :=
  V (add64 (v_a x) (v_a y)) (add64 (v_b x) (v_b y)) (add64 (v_c x) (v_c y)) (add64 (v_d x) (v_d y)).
Definition vzero : val := V 0 0 0 0.

(* tophash: 0 emptyRest, 1 emptyOne, 2 evacuatedX, 3 evacuatedY, 4 evacuatedEmpty, >= 5 a filled slot *)
Inductive slot :=
| ERest | EOne
| Full (t : N) (k : key) (v : val)
| EvX (k : key) (v : val) | EvY (k : key) (v : val)     (* key/value stay in the evacuated slot *)
| EvEmpty.
Definition chain := list slot.
Definition empty_cell : chain := replicate 8 ERest.

Record hm := HM {
  count : nat; same_size : bool; n_ovf : nat; n_evac : nat;
  bkts : list chain; old : option (list chain) }.

Definition growing (m : hm) : bool := match old m with Some _ => true | None => false end.

(* loadFactor(count, nBuckets): count > 8 && count > 13*(nBuckets/2) *)
Definition load_factor (cnt nb : nat) : bool := (8 <? cnt) && (13 * (nb / 2) <? cnt).
Definition too_many (novf nb : nat) : bool := nb <=? novf.
Definition make_buckets (n : nat) : list chain := replicate n empty_cell.

(* NewHint: for loadFactor(hint, n) { n *= 2 }; the fuel S hint is never exhausted (n >= 2^steps) *)
Fixpoint hint_nb (fuel hint nb : nat) : nat :=
  match fuel with
  | O => nb
  | S f => if load_factor hint nb then hint_nb f hint (2 * nb) else nb
  end.
Definition new_hint (hint : nat) : hm :=
  if hint =? 0 then HM 0 false 0 0 [] None
  else HM 0 false 0 0 (make_buckets (hint_nb (S hint) hint 1)) None.

(* Clear(): nothing to do on an empty map; otherwise every bucket of the current array is zeroed, the old
   array and the key arena are dropped, counters and flags reset.  The map can be used again (after the
   fix `a hashmap stays usable after Clear()`; before it the next insert sliced the nil arena). *)
Definition clear (m : hm) : hm :=
  if count m =? 0 then m else HM 0 false 0 0 (make_buckets (length (bkts m))) None.

Definition evacuated (c : chain) : bool :=
  match c with (EvX _ _ | EvY _ _ | EvEmpty) :: _ => true | _ => false end.

(* ---- evacuation destination: finished cells, the current cell, the write index in it, and the
   cells that hung behind the current one before (dropped when newoverflow replaces the pointer) *)
Record dst := Dst { d_pre : list slot; d_cur : list slot; d_i : nat; d_tail : list slot; d_novf : nat }.
Definition dst_init (c : chain) : dst := Dst [] (take 8 c) 0 (drop 8 c) 0.
Definition dst_put (d : dst) (s : slot) : dst :=
  if d_i d =? 8
  then Dst (d_pre d ++ d_cur d) (s :: replicate 7 ERest) 1 [] (S (d_novf d))
  else Dst (d_pre d) (<[d_i d := s]> (d_cur d)) (S (d_i d)) (d_tail d) (d_novf d).
Definition dst_chain (d : dst) : chain := d_pre d ++ d_cur d ++ d_tail d.

Inductive scan_res := Found (p : nat) | NotFound (ins : option nat).

Definition first_ins (ins : option nat) (p : nat) : option nat :=
  match ins with None => Some p | Some _ => ins end.

(* the bucketloop of Set / SetOrUpdate over the slots of a chain *)
Fixpoint scan_set (top : N) (k : key) (c : chain) (p : nat) (ins : option nat) : scan_res :=
  match c with
  | [] => NotFound ins
  | s :: c' =>
    match s with
    | Full t k' _ => if (t =? top)%N && (k' =? k)%N then Found p else scan_set top k c' (S p) ins
    | ERest => NotFound (first_ins ins p)
    | EOne => scan_set top k c' (S p) (first_ins ins p)
    | _ => scan_set top k c' (S p) ins
    end
  end.

(* the bucketloop of mapaccessK *)
Fixpoint scan_get (top : N) (k : key) (c : chain) : option (key * val) :=
  match c with
  | [] => None
  | s :: c' =>
    match s with
    | Full t k' v => if (t =? top)%N && (k' =? k)%N then Some (k', v) else scan_get top k c'
    | ERest => None
    | _ => scan_get top k c'
    end
  end.

Definition upd_slot (f : val -> val) (s : slot) : slot :=
  match s with Full t k v => Full t k (f v) | _ => s end.

Definition set_bkts (m : hm) (b : list chain) : hm :=
  HM (count m) (same_size m) (n_ovf m) (n_evac m) b (old m).

Section HM.
  Variable hash : key -> N.

  (* uint8(hash >> 56), lifted out of the reserved marks *)
  Definition tophash (h : N) : N :=
    let t := (N.shiftr h 56 mod 256)%N in if (t <? 5)%N then (t + 5)%N else t.

  (* hash & (n-1) *)
  Definition bidx (h : N) (n : nat) : nat := N.to_nat (N.land h (N.of_nat n - 1)).

  (* evacuate the slots of an old chain: returns the marked old chain and the two destinations *)
  Fixpoint evac_chain (same : bool) (newbit : N) (c : chain) (x y : dst) : res (chain * dst * dst) :=
    match c with
    | [] => Ok ([], x, y)
    | s :: c' =>
      match s with
      | ERest | EOne =>
        res_bind (evac_chain same newbit c' x y) (fun '(r, x', y') => Ok (EvEmpty :: r, x', y'))
      | Full t k v =>
        let use_y := if same then false else negb (N.land (hash k) newbit =? 0)%N in
        if use_y
        then res_bind (evac_chain same newbit c' x (dst_put y (Full t k v)))
                      (fun '(r, x', y') => Ok (EvY k v :: r, x', y'))
        else res_bind (evac_chain same newbit c' (dst_put x (Full t k v)) y)
                      (fun '(r, x', y') => Ok (EvX k v :: r, x', y'))
      | _ => Panic                                        (* "bad map state" *)
      end
    end.

  Fixpoint count_evac (l : list chain) (limit : nat) : nat :=
    match limit, l with
    | S lim, c :: l' => if evacuated c then S (count_evac l' lim) else 0
    | _, _ => 0
    end.

  Definition advance_mark (m : hm) (newbit : nat) : hm :=
    match old m with
    | None => m
    | Some ol =>
      let ne1 := S (n_evac m) in
      let stop := Nat.min (ne1 + 1024) newbit in
      let ne := ne1 + count_evac (drop ne1 ol) (stop - ne1) in
      if ne =? newbit
      then HM (count m) false (n_ovf m) ne (bkts m) None
      else HM (count m) (same_size m) (n_ovf m) ne (bkts m) (old m)
    end.

  Definition evacuate (m : hm) (j : nat) : res hm :=
    match old m with
    | None => Panic
    | Some ol =>
      let newbit := length ol in
      match ol !! j with
      | None => Panic
      | Some c =>
        res_bind
          (if evacuated c then Ok m else
           match bkts m !! j with
           | None => Panic
           | Some cx =>
             let same := same_size m in
             match (if same then Some [] else bkts m !! (j + newbit)) with
             | None => Panic
             | Some cy =>
               res_bind (evac_chain same (N.of_nat newbit) c (dst_init cx) (dst_init cy))
                 (fun '(c', x, y) =>
                    let b1 := <[j := dst_chain x]> (bkts m) in
                    let b2 := if same then b1 else <[j + newbit := dst_chain y]> b1 in
                    Ok (HM (count m) same (n_ovf m + d_novf x + d_novf y) (n_evac m) b2
                           (Some (<[j := c']> ol))))
             end
           end)
          (fun m' => Ok (if j =? n_evac m' then advance_mark m' newbit else m'))
      end
    end.

  Definition grow_work (m : hm) (b : nat) : res hm :=
    match old m with
    | None => Panic
    | Some ol =>
      res_bind (evacuate m (bidx (N.of_nat b) (length ol)))
        (fun m1 => if growing m1 then evacuate m1 (n_evac m1) else Ok m1)
    end.

  Definition hash_grow (m : hm) : hm :=
    let n := length (bkts m) in
    let lf := load_factor (S (count m)) n in
    HM (count m) (if lf then same_size m else true) 0 0
       (make_buckets (if lf then 2 * n else n)) (Some (bkts m)).

  (* Set (f = const v, v0 = v) and SetOrUpdate (f = (+ d), v0 = d); `fuel` bounds the `goto again` *)
  Fixpoint set_loop (fuel : nat) (m : hm) (k : key) (f : val -> val) (v0 : val) : res hm :=
    match fuel with
    | O => Err
    | S fuel' =>
      let h := hash k in
      let i := bidx h (length (bkts m)) in
      res_bind (if growing m then grow_work m i else Ok m) (fun m1 =>
      match bkts m1 !! i with
      | None => Panic
      | Some c =>
        let top := tophash h in
        match scan_set top k c 0 None with
        | Found p => Ok (set_bkts m1 (<[i := alter (upd_slot f) p c]> (bkts m1)))
        | NotFound ins =>
          let nb := length (bkts m1) in
          if negb (growing m1) && (load_factor (S (count m1)) nb || too_many (n_ovf m1) nb)
          then set_loop fuel' (hash_grow m1) k f v0
          else
            match ins with
            | Some p =>
              Ok (HM (S (count m1)) (same_size m1) (n_ovf m1) (n_evac m1)
                     (<[i := <[p := Full top k v0]> c]> (bkts m1)) (old m1))
            | None =>
              Ok (HM (S (count m1)) (same_size m1) (S (n_ovf m1)) (n_evac m1)
                     (<[i := c ++ Full top k v0 :: replicate 7 ERest]> (bkts m1)) (old m1))
            end
        end
      end)
    end.

  Definition ensure_buckets (m : hm) : hm :=
    match bkts m with [] => set_bkts m [empty_cell] | _ => m end.

  Definition set_fuel : nat := 4.
  Definition set (m : hm) (k : key) (v : val) : res hm :=
    set_loop set_fuel (ensure_buckets m) k (fun _ => v) v.
  Definition set_or_update (m : hm) (k : key) (d : val) : res hm :=
    set_loop set_fuel (ensure_buckets m) k (fun o => vadd o d) d.

  (* mapaccessK *)
  Definition access (m : hm) (k : key) : option (key * val) :=
    if count m =? 0 then None else
    let h := hash k in
    let mask := (N.of_nat (length (bkts m)) - 1)%N in
    let b := default [] (bkts m !! N.to_nat (N.land h mask)) in
    let b :=
      match old m with
      | None => b
      | Some ol =>
        let omask := if same_size m then mask else N.shiftr mask 1 in
        let ob := default [] (ol !! N.to_nat (N.land h omask)) in
        if evacuated ob then b else ob
      end in
    scan_get (tophash h) k b.

  Definition get (m : hm) (k : key) : option val := option_map snd (access m k).
  Definition len (m : hm) : nat := count m.

  (* ---- iteration (Iter.Next, and the copy inlined in Merge).  r = 1: start bucket 1 & mask, offset 0 *)
  Definition iter_order (n : nat) : list nat :=
    let start := bidx 1 n in seq start (n - start) ++ seq 0 start.

  Definition iter_slots (m : hm) (check : option nat) (c : chain) : list (key * val) :=
    let keep k :=
      match check with
      | Some cb => if same_size m then true else bidx (hash k) (length (bkts m)) =? cb
      | None => true
      end in
    flat_map (fun s =>
      match s with
      | Full _ k v => if keep k then [(k, v)] else []
      | EvX k _ | EvY k _ =>
        if keep k then match access m k with Some kv => [kv] | None => [] end else []
      | _ => []
      end) c.

  Definition iter_bucket (m : hm) (i : nat) : list (key * val) :=
    let nb := default [] (bkts m !! i) in
    match old m with
    | None => iter_slots m None nb
    | Some ol =>
      let ob := default [] (ol !! bidx (N.of_nat i) (length ol)) in
      if evacuated ob then iter_slots m None nb else iter_slots m (Some i) ob
    end.

  Definition iter (m : hm) : list (key * val) :=
    if count m =? 0 then [] else flat_map (iter_bucket m) (iter_order (length (bkts m))).

  (* AggFlowMap.Flatten for one of its maps: make(List, Len()) filled by index while iterating *)
  Definition flatten (m : hm) : res (list (key * val)) :=
    let l := iter m in
    if count m <? length l then Panic
    else Ok (l ++ replicate (count m - length l) (0%N, vzero)).

  (* the SetOrUpdate calls of Merge, given the entries the source iteration yields *)
  Fixpoint merge_list (m : hm) (l : list (key * val)) : res hm :=
    match l with
    | [] => Ok m
    | (k, v) :: l' => res_bind (set_or_update m k v) (fun m' => merge_list m' l')
    end.
End HM.

(* Merge: the source has its own seed, hence its own hash function *)
Definition merge (hash_dst hash_src : key -> N) (m src : hm) : res hm :=
  if count src =? 0 then Ok m else merge_list hash_dst m (iter hash_src src).
