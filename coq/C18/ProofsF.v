(* C18 proofs, part F: growWork, hashGrow, locating a key, the final step of Set / SetOrUpdate. *)
From stdpp Require Import list gmap.
From Coq Require Import NArith Lia.
From GoProbe.Base Require Import CorrLib.
From GoProbe.C18 Require Import Model Abs ProofsA ProofsB ProofsC ProofsD ProofsE.

Section F.
  Variable hash : key -> N.
  Notation Inv := (Inv hash).

  (* after growWork for new bucket i: still consistent, same entries, and the old bucket of i is evacuated *)
  Definition ready (m : hm) (i : nat) : Prop :=
    forall ol, old m = Some ol -> exists c, ol !! bidx (N.of_nat i) (length ol) = Some c /\ evacuated c = true.

  Lemma grow_work_spec m i ol m' :
    Inv m -> old m = Some ol -> grow_work hash m i = Ok m' ->
    Inv m' /\ live m' ≡ₚ live m /\ length (bkts m') = length (bkts m) /\ count m' = count m /\ ready m' i.
  Proof.
    intros HI Hol H. unfold grow_work in H. rewrite Hol in H.
    destruct (inv_old _ _ HI ol Hol) as (Hpo & Hn & Hne & Hch).
    pose proof (bidx_lt (N.of_nat i) (length ol) Hpo) as Hj.
    destruct (evacuate hash m (bidx (N.of_nat i) (length ol))) as [m1| |] eqn:E1; simpl in H; try discriminate.
    destruct (evacuate_spec hash m _ ol m1 HI Hol Hj E1) as (I1 & P1 & L1 & C1 & O1).
    unfold growing in H. destruct (old m1) as [ol1|] eqn:Hol1.
    - destruct (O1 ol1 eq_refl) as (Q1 & Q2 & Q3 & Q4).
      destruct (inv_old _ _ I1 ol1 Hol1) as (_ & _ & Hne1 & _).
      destruct (evacuate_spec hash m1 _ ol1 m' I1 Hol1 Hne1 H) as (I2 & P2 & L2 & C2 & O2).
      split; [done|]. split; [by rewrite P2|]. split; [lia|]. split; [lia|].
      intros ol2 Hol2. destruct (O2 ol2 Hol2) as (R1 & R2 & R3 & R4).
      destruct Q3 as (c1 & Hc1 & Ec1). rewrite R1, Q1. by apply (R4 _ c1).
    - injection H as <-. split; [done|]. split; [done|]. split; [done|]. split; [done|].
      intros ol2 Hol2. congruence.
  Qed.

  Lemma fm_replicate_nil {A B} (f : A -> list B) n x : f x = [] -> flat_map f (replicate n x) = [].
  Proof. intros E. apply fm_nil. by intros y [-> _]%elem_of_replicate. Qed.

  Lemma hash_grow_spec m :
    Inv m -> old m = None -> Inv (hash_grow m) /\ live (hash_grow m) = live m /\ count (hash_grow m) = count m.
  Proof.
    intros HI Hol. pose proof HI as [Hpow Hnew Hng Hold Hnd Hcnt].
    assert (live (hash_grow m) = live m) as Hl.
    { unfold live, hash_grow, make_buckets. simpl. rewrite Hol, fm_replicate_nil by done. simpl.
      by rewrite app_nil_r. }
    split; [|done]. specialize (Hng Hol).
    constructor; try by rewrite Hl.
    - unfold hash_grow, make_buckets. cbn [bkts]. rewrite replicate_length.
      destruct (load_factor _ _); [by apply pow2_double|done].
    - unfold hash_grow, make_buckets. cbn [bkts]. intros i c [-> Hi]%lookup_replicate.
      exists [], 8. split; [done|]. split; [done|]. constructor.
    - discriminate.
    - unfold hash_grow, make_buckets. cbn [bkts old same_size n_evac]. intros ol' [= <-].
      rewrite replicate_length, Hng. split; [done|].
      split; [by destruct (load_factor _ _)|]. split; [by apply pow2_pos|].
      intros j c Hc. split; [|lia].
      destruct (Hnew j c Hc) as (es & r & -> & Hne & HF). rewrite evacuated_packed.
      pose proof (lookup_lt_Some _ _ _ Hc). split; [by exists es, r|].
      destruct (load_factor _ _).
      + split; [apply lookup_replicate; split; [done|lia]|]. intros _. apply lookup_replicate. split; [done|lia].
      + split; [apply lookup_replicate; split; [done|lia]|]. discriminate.
  Qed.

  (* where a live key can be *)
  Lemma live_locate m k v :
    Inv m -> (k, v) ∈ live m ->
    (exists c, bkts m !! bidx (hash k) (length (bkts m)) = Some c /\ (k, v) ∈ centries c) \/
    (exists ol c, old m = Some ol /\ ol !! bidx (hash k) (length ol) = Some c /\ evacuated c = false /\ (k, v) ∈ centries c).
  Proof.
    intros HI Hin. unfold live in Hin. apply elem_of_app in Hin as [Hin|Hin].
    - apply elem_of_flat_map in Hin as (c & [i Hi]%elem_of_list_lookup & Hc). left.
      destruct (inv_new _ _ HI i c Hi) as (es & r & -> & _ & HF).
      rewrite centries_packed in Hc. apply elem_of_list_fmap in Hc as ([t [k' v']] & [= <- <-] & He).
      rewrite Forall_forall in HF. destruct (HF _ He) as [Hb _]. simpl in Hb. rewrite Hb.
      exists ((fullE <$> es) ++ replicate r ERest). split; [done|]. rewrite centries_packed.
      apply elem_of_list_fmap. by exists (t, (k, v)).
    - destruct (old m) as [ol|] eqn:Hol; simpl in Hin; [|by apply elem_of_nil in Hin].
      apply elem_of_flat_map in Hin as (c & [j Hj]%elem_of_list_lookup & Hc). right.
      destruct (inv_old _ _ HI ol Hol) as (_ & _ & _ & Hch). destruct (Hch j c Hj) as [H1 _].
      destruct (evacuated c) eqn:Ec; [rewrite H1 in Hc; by apply elem_of_nil in Hc|].
      destruct H1 as ((es & r & -> & _ & HF) & _).
      rewrite centries_packed in Hc. apply elem_of_list_fmap in Hc as ([t [k' v']] & [= <- <-] & He).
      rewrite Forall_forall in HF. destruct (HF _ He) as [Hb _]. simpl in Hb.
      exists ol, ((fullE <$> es) ++ replicate r ERest). rewrite Hb. split; [done|]. split; [done|]. split; [done|].
      rewrite centries_packed. apply elem_of_list_fmap. by exists (t, (k, v)).
  Qed.

  (* old bucket index of a new bucket index *)
  Lemma old_index m ol h :
    Inv m -> old m = Some ol ->
    bidx (N.of_nat (bidx h (length (bkts m)))) (length ol) = bidx h (length ol).
  Proof.
    intros HI Hol. destruct (inv_old _ _ HI ol Hol) as (Hpo & Hn & _). rewrite Hn.
    destruct (same_size m); [by apply bidx_bidx_same|by apply bidx_bidx_double].
  Qed.

  Lemma live_home m k v i c :
    Inv m -> i = bidx (hash k) (length (bkts m)) -> ready m i -> bkts m !! i = Some c ->
    (k, v) ∈ live m -> (k, v) ∈ centries c.
  Proof.
    intros HI -> Hr Hc Hin. destruct (live_locate m k v HI Hin) as [(c' & Hc' & H)|(ol & c' & Hol & Hc' & Ec' & H)].
    - congruence.
    - destruct (Hr ol Hol) as (c2 & Hc2 & Ec2). rewrite (old_index m ol _ HI Hol) in Hc2. congruence.
  Qed.

  (* replacing the chain of a ready bucket *)
  Lemma replace_chain m i c c' cnt novf :
    Inv m -> bkts m !! i = Some c -> ready m i -> chain_ok hash (length (bkts m)) i c' ->
    let m' := HM cnt (same_size m) novf (n_evac m) (<[i := c']> (bkts m)) (old m) in
    NoDup (live m').*1 -> cnt = length (live m') -> Inv m'.
  Proof.
    intros HI Hc Hr Hok m' Hnd Hcnt. pose proof HI as [Hpow Hnew Hng Hold _ _].
    pose proof (lookup_lt_Some _ _ _ Hc) as Hi.
    constructor; try done; cbn [bkts old same_size n_evac count m']; rewrite ?insert_length; try done.
    - intros i' c2 H2. destruct (decide (i' = i)) as [->|Hne].
      + rewrite list_lookup_insert in H2 by done. by injection H2 as <-.
      + rewrite list_lookup_insert_ne in H2 by done. by apply Hnew.
    - intros ol Hol. destruct (Hold ol Hol) as (Hpo & Hn & Hne & Hch).
      split; [done|]. split; [done|]. split; [done|]. intros j cj Hj.
      destruct (Hch j cj Hj) as [H1 H2]. split; [|done].
      destruct (evacuated cj) eqn:Ej; [done|]. destruct H1 as (Hc1 & Hc2 & Hc3).
      pose proof (lookup_lt_Some _ _ _ Hj) as Hjl.
      destruct (Hr ol Hol) as (c2 & Hc2' & Ec2).
      assert (i <> j) as Hij.
      { intros ->. rewrite bidx_small in Hc2' by done. congruence. }
      split; [done|]. split; [by rewrite list_lookup_insert_ne|].
      intros Hs. rewrite list_lookup_insert_ne; [by apply Hc3|].
      intros ->. rewrite bidx_shift in Hc2' by done. congruence.
  Qed.
End F.
