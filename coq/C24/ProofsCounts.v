(* C24 proofs, part 3: the MergeSummary accumulated by the loops is the documented count of actions
   (spec_counts), and the top-level lemmas used by Properties.v. *)
From stdpp Require Import gmap sorting strings.
From Coq Require Import ZArith Ascii Lia.
From GoProbe.Base Require Import CorrLib.
From GoProbe.C24 Require Import Model Spec ProofsDay ProofsLoop.
Open Scope Z_scope.

Lemma summary_eq (a b : summary) :
  s_ifaces a = s_ifaces b → s_copied a = s_copied b → s_rebuilt a = s_rebuilt b →
  s_skipped a = s_skipped b → s_cdst a = s_cdst b → s_csrc a = s_csrc b → a = b.
Proof. destruct a, b; cbn; intros; subst; done. Qed.

Lemma ssum_proj {A} (p : summary → nat) (f : A → summary) l :
  p sum_zero = O → (∀ a b, p (sum_add a b) = (p a + p b)%nat) →
  p (ssum f l) = sum_list_with (λ x, p (f x)) l.
Proof.
  intros H0 Hadd. unfold ssum. induction l as [|x l IH]; cbn; [done|]. by rewrite Hadd, IH.
Qed.

Lemma sum_list_with_zero {A} (l : list A) : sum_list_with (λ _, O) l = O.
Proof. induction l; cbn; done. Qed.

Lemma sum_list_with_ext {A} (f g : A → nat) l : (∀ x, f x = g x) → sum_list_with f l = sum_list_with g l.
Proof. intros H. induction l as [|x l IH]; cbn; [done|]. by rewrite H, IH. Qed.

Lemma ssum_add {A} (f g : A → summary) l :
  sum_add (ssum f l) (ssum g l) = ssum (λ x, sum_add (f x) (g x)) l.
Proof.
  unfold ssum. induction l as [|x l IH]; cbn; [done|]. rewrite <- IH.
  rewrite !sum_add_assoc. f_equal. rewrite <- !sum_add_assoc. f_equal. apply sum_add_comm.
Qed.

Lemma ssum_bind {A B} (f : B → summary) (g : A → list B) l :
  ssum f (l ≫= g) = ssum (λ x, ssum f (g x)) l.
Proof.
  induction l as [|x l IH]; [done|]. rewrite bind_cons, ssum_app, IH. reflexivity.
Qed.

Lemma ssum_fmap {A B} (f : B → summary) (h : A → B) l : ssum f (h <$> l) = ssum (λ x, f (h x)) l.
Proof. unfold ssum. induction l as [|x l IH]; cbn; [done|]. by rewrite IH. Qed.

Lemma ssum_zero {A} (l : list A) : ssum (λ _, sum_zero) l = sum_zero.
Proof. unfold ssum. induction l as [|x l IH]; cbn; [done|]. by rewrite IH. Qed.

Lemma ssum_filter {A} (P : A → Prop) `{!∀ x, Decision (P x)} (f : A → summary) l :
  ssum f (filter P l) = ssum (λ x, if decide (P x) then f x else sum_zero) l.
Proof.
  induction l as [|x l IH]; [done|]. rewrite filter_cons.
  unfold ssum in *. cbn [foldr]. destruct (decide (P x)); cbn [foldr]; rewrite IH; [done|by rewrite sum_add_zero_l].
Qed.

(* ---------------------------------------------------------------- keys of a map, as lists *)
Lemma elem_of_fst_map_to_list {A} `{Countable K} (m : gmap K A) k : k ∈ (map_to_list m).*1 ↔ k ∈ dom m.
Proof.
  rewrite elem_of_list_fmap, elem_of_dom. split.
  - intros ([k' v] & -> & Hin). apply elem_of_map_to_list in Hin. eauto.
  - intros [v Hv]. exists (k, v). split; [done|]. by apply elem_of_map_to_list.
Qed.

Lemma sorted_keys_perm {A} (m : gmap Z A) : merge_sort Z.le (elements (dom m)) ≡ₚ (map_to_list m).*1.
Proof.
  rewrite merge_sort_Permutation. apply NoDup_Permutation.
  - apply NoDup_elements.
  - apply NoDup_fst_map_to_list.
  - intros k. by rewrite elem_of_elements, elem_of_fst_map_to_list.
Qed.

(* ---------------------------------------------------------------- one interface *)
Definition days_sum (o : opts) (dst : db) (i : string) (days : idb) : summary :=
  ssum (λ td : Z * day, spec_delta o td.1 td.2 (day_of dst i td.1)) (map_to_list days).

Lemma iface_sum_spec o (src dst : db) i (days : idb) :
  src !! i = Some days →
  iface_sum o src dst i
  = sum_add (Build_summary (if negb (bool_decide (days = ∅)) then 1 else 0) 0 0 0 0 0) (days_sum o dst i days).
Proof.
  intros Hi. unfold iface_sum, days_sum. rewrite Hi.
  change (default ∅ (Some days)) with days. cbv zeta.
  destruct (decide (elements (dom days) = [])) as [He|He].
  - assert (days = ∅) as ->.
    { apply elements_empty_inv in He. apply dom_empty_inv_L. by apply leibniz_equiv. }
    rewrite bool_decide_eq_true_2 by done. unfold idb. rewrite map_to_list_empty. reflexivity.
  - rewrite bool_decide_eq_false_2.
    2:{ intros ->. apply He. unfold idb. rewrite (dom_empty_L (M:=gmap Z)). apply elements_empty. }
    cbn [negb]. f_equal.
    rewrite (ssum_perm _ _ _ (sorted_keys_perm days)), ssum_fmap.
    apply ssum_ext. intros [t sd] Hin. apply elem_of_map_to_list in Hin. cbn [fst snd].
    rewrite G_spec. unfold day_of at 1. rewrite Hi.
    assert (Some days ≫= lookup t = Some sd) as -> by exact Hin. done.
Qed.

(* ---------------------------------------------------------------- all interfaces *)
Definition iface_part (o : opts) (src dst : db) (ix : string * idb) : summary :=
  if spec_selected o src ix.1
  then sum_add (Build_summary (if negb (bool_decide (ix.2 = ∅)) then 1 else 0) 0 0 0 0 0)
               (days_sum o dst ix.1 ix.2)
  else sum_zero.

Lemma sel_sum o (src dst : db) (sel : list string) :
  NoDup sel → (∀ i, i ∈ sel ↔ spec_selected o src i = true) →
  ssum (iface_sum o src dst) sel = ssum (iface_part o src dst) (map_to_list src).
Proof.
  intros Hnd Hsel.
  assert (sel ≡ₚ filter (λ i, spec_selected o src i = true) (map_to_list src).*1) as Hp.
  { apply NoDup_Permutation; [done| |].
    - apply NoDup_filter, NoDup_fst_map_to_list.
    - intros i. rewrite elem_of_list_filter, Hsel, (elem_of_fst_map_to_list (src : gmap string idb)).
      split; [|tauto]. intros Hs. split; [done|].
      unfold spec_selected in Hs. apply andb_true_iff in Hs as [Hs _]. by apply bool_decide_eq_true in Hs. }
  rewrite (ssum_perm _ _ _ Hp), ssum_filter, ssum_fmap.
  apply ssum_ext. intros [i days] Hin. apply elem_of_map_to_list in Hin. cbn [fst].
  unfold iface_part. cbn [fst snd].
  destruct (spec_selected o src i) eqn:Hs.
  - rewrite decide_True by done. by apply iface_sum_spec.
  - by rewrite decide_False by done.
Qed.

Lemma spec_counts_sum o (dst src : db) :
  spec_counts o dst src = ssum (iface_part o src dst) (map_to_list src).
Proof.
  assert (ssum (iface_part o src dst) (map_to_list src)
          = sum_add (ssum (λ ix : string * idb,
                             Build_summary (if spec_selected o src ix.1 && negb (bool_decide (ix.2 = ∅)) then 1 else 0)
                                           0 0 0 0 0) (map_to_list src))
                    (ssum (λ k : string * Z * day, spec_delta o k.1.2 k.2 (day_of dst k.1.1 k.1.2))
                          (spec_src_days o src))) as ->.
  { unfold spec_src_days. rewrite ssum_bind, ssum_add. apply ssum_ext. intros [i days] _.
    unfold iface_part. cbn [fst snd]. destruct (spec_selected o src i); cbn [andb].
    - f_equal. unfold days_sum. by rewrite ssum_fmap.
    - by rewrite sum_add_zero_l. }
  set (ks := spec_src_days o src).
  apply summary_eq; unfold spec_counts; fold ks; cbn [s_ifaces s_copied s_rebuilt s_skipped s_cdst s_csrc sum_add];
    rewrite !(ssum_proj _ _ _ eq_refl (λ _ _, eq_refl)); cbn [s_ifaces s_copied s_rebuilt s_skipped s_cdst s_csrc spec_delta];
    rewrite ?sum_list_with_zero; unfold count_if; try lia.
  - destruct (o_dry o || o_overwrite o); [by rewrite sum_list_with_zero|]. lia.
  - destruct (o_dry o || negb (o_overwrite o)); [by rewrite sum_list_with_zero|]. lia.
Qed.

(* ---------------------------------------------------------------- the run *)
Lemma merge_run_full o dst src :
  if spec_request_ok o src
  then ∃ d', merge_run o dst src = Ok (d', src, spec_counts o dst src)
             ∧ ∀ i t, day_of d' i t = spec_dest o dst src i t
  else merge_run o dst src = Err.
Proof.
  pose proof (merge_run_spec o dst src) as H.
  destruct (spec_request_ok o src); [|done].
  destruct H as (d' & sel & Hrun & Hnd & Hsel & Hd).
  exists d'. split; [|done]. rewrite Hrun. by rewrite spec_counts_sum, (sel_sum o src dst sel).
Qed.

Lemma merge_run_ok_inv o dst src d' s' sm :
  merge_run o dst src = Ok (d', s', sm) →
  spec_request_ok o src = true ∧ s' = src ∧ sm = spec_counts o dst src
  ∧ ∀ i t, day_of d' i t = spec_dest o dst src i t.
Proof.
  intros Hrun. pose proof (merge_run_full o dst src) as H.
  destruct (spec_request_ok o src); [|congruence].
  destruct H as (d1 & H1 & H2). rewrite Hrun in H1. by injection H1 as -> -> ->.
Qed.

Lemma follows_plan o dst src d' s' sm :
  merge_run o dst src = Ok (d', s', sm) → ∀ i t, day_of d' i t = spec_dest o dst src i t.
Proof. intros H. by apply merge_run_ok_inv in H as (_ & _ & _ & H). Qed.

Lemma run_result o dst src :
  merge_run o dst src = (if spec_request_ok o src then merge_run o dst src else Err)
  ∧ (spec_request_ok o src = true → ∃ d' sm, merge_run o dst src = Ok (d', src, sm)).
Proof.
  pose proof (merge_run_full o dst src) as H. destruct (spec_request_ok o src).
  - split; [done|]. intros _. destruct H as (d' & H & _). eauto.
  - split; [done|]. done.
Qed.

Lemma source_unchanged o dst src d' s' sm : merge_run o dst src = Ok (d', s', sm) → s' = src.
Proof. intros H. by apply merge_run_ok_inv in H as (_ & H & _). Qed.

Lemma counts o dst src d' s' sm : merge_run o dst src = Ok (d', s', sm) → sm = spec_counts o dst src.
Proof. intros H. by apply merge_run_ok_inv in H as (_ & _ & H & _). Qed.

Lemma spec_dest_fixed o (dst d1 src : db) :
  (∀ i t, day_of d1 i t = spec_dest o dst src i t) →
  ∀ i t, spec_dest o d1 src i t = spec_dest o dst src i t.
Proof.
  intros H1 i t. unfold spec_dest at 1. rewrite H1. unfold spec_dest.
  destruct (o_dry o); [done|]. destruct (spec_selected o src i); [|done].
  destruct (day_of src i t); [|done]. apply spec_day_fixed.
Qed.

Lemma idempotent o dst src d1 s1 sm1 :
  merge_run o dst src = Ok (d1, s1, sm1) →
  ∃ d2 sm2, merge_run o d1 src = Ok (d2, src, sm2) ∧ ∀ i t, day_of d2 i t = day_of d1 i t.
Proof.
  intros H1. apply merge_run_ok_inv in H1 as (Hok & _ & _ & Hd1).
  pose proof (merge_run_full o d1 src) as H2. rewrite Hok in H2. destruct H2 as (d2 & H2 & Hd2).
  exists d2, (spec_counts o d1 src). split; [done|].
  intros i t. by rewrite Hd2, Hd1, (spec_dest_fixed o dst d1 src Hd1).
Qed.
