(* C24 correspondence: case type, corr (model = observed) and holds (observed meets the documented rule).
   Executable only.  A case carries the option set, the source and destination trees before the merge and
   what the real MergeDatabases left behind / reported: after a first merge and after merging the same
   source a second time.  Trees are read back through the real gpfile reader; a block is
   (timestamp, content id) where equal ids mean byte-identical columns + per-block traffic metadata. *)
From stdpp Require Import gmap sorting strings.
From Coq Require Import ZArith Ascii.
From GoProbe.Base Require Import CorrLib.
From GoProbe.C24 Require Import Model Spec.
Open Scope Z_scope.

Definition ldb := list (string * list (Z * list (Z * Z))).

Definition to_day (l : list (Z * Z)) : day := (λ b, (b.1, Z.to_N b.2)) <$> l.
Definition to_idb (l : list (Z * list (Z * Z))) : idb := list_to_map ((λ td, (td.1, to_day td.2)) <$> l).
Definition to_db (l : ldb) : db := list_to_map ((λ id, (id.1, to_idb id.2)) <$> l).

Definition mk_sum (a b c d e f : Z) : summary :=
  Build_summary (Z.to_nat a) (Z.to_nat b) (Z.to_nat c) (Z.to_nat d) (Z.to_nat e) (Z.to_nat f).

Inductive case :=
| Case (ifaces : list string) (overwrite dry : bool) (tol_ns : Z)
       (src dst : ldb)
       (r1 : res summary) (dst1 src1 : ldb)
       (r2 : res summary) (dst2 src2 : ldb)
       (clean : bool).

Definition summary_eqb (a b : summary) : bool :=
  Nat.eqb (s_ifaces a) (s_ifaces b) && Nat.eqb (s_copied a) (s_copied b) && Nat.eqb (s_rebuilt a) (s_rebuilt b)
  && Nat.eqb (s_skipped a) (s_skipped b) && Nat.eqb (s_cdst a) (s_cdst b) && Nat.eqb (s_csrc a) (s_csrc b).

(* all (interface, day) keys of a tree *)
Definition db_keys (m : db) : list (string * Z) :=
  '(i, days) ← map_to_list m; (λ td : Z * day, (i, td.1)) <$> map_to_list days.

(* same days with the same blocks (an interface directory without days is not a difference) *)
Definition db_eqb (a b : db) : bool :=
  forallb (λ k : string * Z, bool_decide (day_of a k.1 k.2 = day_of b k.1 k.2)) (db_keys a ++ db_keys b).

(* identical trees, interface directories included *)
Definition db_same (a b : db) : bool := bool_decide (a = b).

Definition follows (o : opts) (dst src d1 : db) : bool :=
  forallb (λ k : string * Z, bool_decide (day_of d1 k.1 k.2 = spec_dest o dst src k.1 k.2))
          (db_keys d1 ++ db_keys dst ++ db_keys src).

(* does the model still describe the code? both merges: result class, destination, source, summary *)
Definition corr (c : case) : bool :=
  match c with
  | Case ifs ow dry tol lsrc ldst r1 ldst1 lsrc1 r2 ldst2 lsrc2 _ =>
    let o := Build_opts ifs ow dry tol in
    let src := to_db lsrc in
    let one (dst : db) (r : res summary) (dafter safter : db) : bool :=
      match merge_run o dst src, r with
      | Ok (d', s', sm), Ok osm => db_eqb d' dafter && db_same s' safter && summary_eqb sm osm
      | Err, Err => db_eqb dst dafter && db_same src safter
      | _, _ => false
      end in
    one (to_db ldst) r1 (to_db ldst1) (to_db lsrc1) && one (to_db ldst1) r2 (to_db ldst2) (to_db lsrc2)
  end.

(* does the observed behaviour satisfy the property?  computed from the documented rule (Spec.v) only *)
Definition holds (c : case) : bool :=
  match c with
  | Case ifs ow dry tol lsrc ldst r1 ldst1 lsrc1 r2 ldst2 lsrc2 clean =>
    let o := Build_opts ifs ow dry tol in
    let src := to_db lsrc in let dst := to_db ldst in
    let d1 := to_db ldst1 in let d2 := to_db ldst2 in
    clean && db_same (to_db lsrc1) src && db_same (to_db lsrc2) src &&
    match r1, r2 with
    | Ok sm1, Ok sm2 =>
      spec_request_ok o src
      && follows o dst src d1                                 (* destination = documented rule *)
      && (if dry then db_eqb d1 dst else true)                (* a dry run changes nothing *)
      && db_eqb d2 d1                                         (* merging again changes nothing further *)
      && summary_eqb sm1 (spec_counts o dst src)              (* counts match the actions *)
      && summary_eqb sm2 (spec_counts o d1 src)
    | Err, Err => negb (spec_request_ok o src) && db_eqb d1 dst && db_eqb d2 dst
    | _, _ => false
    end
  end.
