(* C24 property theorems.  merge_run o dst src is the model of goDB.MergeDatabases on abstract
   databases (Model.v); spec_dest / spec_counts / spec_request_ok are the documented rule (Spec.v).
   Nothing but statements closed by `exact`, Print Assumptions and non-vacuity examples. *)
From stdpp Require Import gmap sorting strings.
From Coq Require Import ZArith Ascii.
From GoProbe.Base Require Import CorrLib.
From GoProbe.C24 Require Import Model Spec ProofsDay ProofsLoop ProofsCounts.
Open Scope Z_scope.

(* For ALL destination / source databases and ALL option sets: the merge fails exactly when a requested
   interface is missing in the source; otherwise every day of every interface of the destination is the
   documented rule's result (copy / keep / block-by-block rebuild for selected interfaces that have the
   day in the source, untouched otherwise), the source is returned as it was and the summary is the
   documented count of actions. *)
Theorem c24_follows_plan : forall o dst src,
  if spec_request_ok o src
  then exists d', merge_run o dst src = Ok (d', src, spec_counts o dst src)
                  /\ forall i t, day_of d' i t = spec_dest o dst src i t
  else merge_run o dst src = Err.
Proof. exact merge_run_full. Qed.
Print Assumptions c24_follows_plan.

Theorem c24_source_unchanged : forall o dst src d' s' sm,
  merge_run o dst src = Ok (d', s', sm) -> s' = src.
Proof. exact source_unchanged. Qed.
Print Assumptions c24_source_unchanged.

(* a dry run returns the very same destination (not merely day-wise equal) *)
Theorem c24_dry_run_noop : forall o dst src d' s' sm,
  o_dry o = true -> merge_run o dst src = Ok (d', s', sm) -> d' = dst.
Proof. exact merge_run_dry. Qed.
Print Assumptions c24_dry_run_noop.

(* merging the same source again succeeds and changes no day of the destination *)
Theorem c24_idempotent : forall o dst src d1 s1 sm1,
  merge_run o dst src = Ok (d1, s1, sm1) ->
  exists d2 sm2, merge_run o d1 src = Ok (d2, src, sm2) /\ forall i t, day_of d2 i t = day_of d1 i t.
Proof. exact idempotent. Qed.
Print Assumptions c24_idempotent.

Theorem c24_counts : forall o dst src d' s' sm,
  merge_run o dst src = Ok (d', s', sm) -> sm = spec_counts o dst src.
Proof. exact counts. Qed.
Print Assumptions c24_counts.

(* the pieces the rule is made of, each for all inputs *)
Theorem c24_complete_is_coverage : forall tol_ns t d,
  is_day_complete (tol_seconds tol_ns) t d = spec_covers (spec_tol tol_ns) t d.
Proof. intros. rewrite tol_seconds_spec. apply is_day_complete_spec. Qed.
Print Assumptions c24_complete_is_coverage.

Theorem c24_rebuild_is_union : forall s d ow,
  merge_snapshots (read_day_snapshots s) (read_day_snapshots d) ow
  = (spec_union ow s d,
     if ow then O else spec_conflicts s (Some d), if ow then spec_conflicts s (Some d) else O).
Proof. intros. rewrite !read_day_snapshots_spec. apply merge_snapshots_spec. Qed.
Print Assumptions c24_rebuild_is_union.

(* ---- non-vacuity: a run with one copied day, one rebuilt day with a conflict, one interface that is
   not selected, one destination-only day; second run; dry run; failing request *)
Definition ex_src : db :=
  <["eth0" := <[1704844800 := [(1704844800, 1%N); (1704931100, 2%N)]]>
              (<[1704931200 := [(1704931500, 3%N); (1704931800, 4%N)]]> ∅)]>
  (<["eth1" := <[1704844800 := [(1704844900, 9%N)]]> ∅]> ∅).
Definition ex_dst : db :=
  <["eth0" := <[1704931200 := [(1704931800, 7%N); (1704932100, 8%N)]]>
              (<[1705017600 := [(1705017900, 5%N)]]> ∅)]> ∅.
Definition ex_o (dry : bool) : opts := Build_opts [" eth0 "] false dry 150000000000.

Definition summary_is (a b : summary) : bool := bool_decide
  ((s_ifaces a, s_copied a, s_rebuilt a, s_skipped a, s_cdst a, s_csrc a)
   = (s_ifaces b, s_copied b, s_rebuilt b, s_skipped b, s_cdst b, s_csrc b)).

Example c24_example_run :
  match merge_run (ex_o false) ex_dst ex_src with
  | Ok (d', s', sm) =>
    summary_is sm (Build_summary 1 1 1 0 1 0)
    && bool_decide (day_of d' "eth0" 1704844800 = Some [(1704844800, 1%N); (1704931100, 2%N)])   (* copied *)
    && bool_decide (day_of d' "eth0" 1704931200
                    = Some [(1704931500, 3%N); (1704931800, 7%N); (1704932100, 8%N)])            (* rebuilt *)
    && bool_decide (day_of d' "eth0" 1705017600 = Some [(1705017900, 5%N)])                      (* untouched *)
    && bool_decide (day_of d' "eth1" 1704844800 = None)                                          (* not selected *)
    && match merge_run (ex_o false) d' ex_src with
       | Ok (d2, _, sm2) => summary_is sm2 (Build_summary 1 0 1 1 2 0)
                            && bool_decide (day_of d2 "eth0" 1704931200 = day_of d' "eth0" 1704931200)
       | _ => false
       end
  | _ => false
  end = true.
Proof. vm_compute. reflexivity. Qed.

Example c24_example_dry :
  o_dry (ex_o true) = true /\
  match merge_run (ex_o true) ex_dst ex_src with
  | Ok (d', s', sm) => bool_decide (d' = ex_dst) && bool_decide (s' = ex_src)
                       && summary_is sm (Build_summary 1 1 1 0 0 0)
  | _ => false
  end = true.
Proof. split; vm_compute; reflexivity. Qed.

Example c24_example_error :
  spec_request_ok (Build_opts ["eth0"; "nope"] true false 0) ex_src = false
  /\ merge_run (Build_opts ["eth0"; "nope"] true false 0) ex_dst ex_src = Err.
Proof. split; vm_compute; reflexivity. Qed.

Example c24_example_complete :
  is_day_complete (tol_seconds 150000000000) 1704844800 [(1704844800, 1%N); (1704931100, 2%N)] = true
  /\ is_day_complete (tol_seconds 150000000000) 1704931200 [(1704931500, 3%N); (1704931800, 4%N)] = false.
Proof. split; vm_compute; reflexivity. Qed.

Example c24_example_union :
  spec_union false [(10, 1%N); (20, 2%N)] [(20, 7%N); (30, 8%N)] = [(10, 1%N); (20, 7%N); (30, 8%N)]
  /\ spec_union true [(10, 1%N); (20, 2%N)] [(20, 7%N); (30, 8%N)] = [(10, 1%N); (20, 2%N); (30, 8%N)]
  /\ spec_conflicts [(10, 1%N); (20, 2%N)] (Some [(20, 7%N); (30, 8%N)]) = 1%nat.
Proof. repeat split; vm_compute; reflexivity. Qed.
