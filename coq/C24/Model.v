(* C24 model: pkg/goDB/merge.go over ABSTRACT databases.
   A database is  interface -> day timestamp -> list of (block timestamp, block content id)
   (the list is the block list of the day directory in file order).  Executable definitions only.

   Modelled functions (same names as the Go code, snake case):
     selectInterfaces, listSourceInterfaces, isDayComplete (with the tolerance arithmetic of
     MergeDatabases + isDayComplete), planDayMerge, readDaySnapshots, mergeSnapshots,
     rebuildDayToStage (content only), the copy action, the two loops of MergeDatabases with the
     MergeSummary counters and the dry-run switch.
   Not modelled: paths, staging directory, commit/backup renames (C25), I/O errors, ctx cancellation. *)
From stdpp Require Import gmap sorting strings.
From Coq Require Import ZArith Ascii.
From GoProbe.Base Require Import CorrLib.
Open Scope Z_scope.

(* ---------------------------------------------------------------- abstract databases *)
Definition block := (Z * N)%type.          (* block timestamp, content id *)
Definition day := list block.              (* blocks of one day directory, file order *)
Definition idb := gmap Z day.              (* day directory timestamp -> day *)
Definition db := gmap string idb.          (* interface directory -> days *)

Definition day_of (m : db) (i : string) (t : Z) : option day := m !! i ≫= (.!! t).
Definition set_day (i : string) (t : Z) (v : day) (m : db) : db :=
  <[i := <[t := v]> (default ∅ (m !! i))]> m.

Record opts := { o_ifaces : list string; o_overwrite : bool; o_dry : bool; o_tol : Z (* time.Duration, ns *) }.

Record summary := { s_ifaces : nat; s_copied : nat; s_rebuilt : nat; s_skipped : nat;
                    s_cdst : nat; s_csrc : nat }.
Definition sum_zero : summary := Build_summary 0 0 0 0 0 0.
Definition sum_add (a b : summary) : summary :=
  Build_summary (s_ifaces a + s_ifaces b) (s_copied a + s_copied b) (s_rebuilt a + s_rebuilt b)
                (s_skipped a + s_skipped b) (s_cdst a + s_cdst b) (s_csrc a + s_csrc b).

(* ---------------------------------------------------------------- strings.TrimSpace (ASCII) *)
Definition is_space (a : ascii) : bool :=
  let n := nat_of_ascii a in
  (Nat.eqb n 32 || (Nat.leb 9 n && Nat.leb n 13))%bool.
Fixpoint trim_left (s : string) : string :=
  match s with
  | String a r => if is_space a then trim_left r else s
  | EmptyString => EmptyString
  end.
(* drop trailing white space: keep a character iff something non-blank follows or it is non-blank *)
Fixpoint trim_right (s : string) : string :=
  match s with
  | EmptyString => EmptyString
  | String a r => match trim_right r with
                  | EmptyString => if is_space a then EmptyString else String a EmptyString
                  | r' => String a r'
                  end
  end.
Definition trim_space (s : string) : string := trim_right (trim_left s).

(* ---------------------------------------------------------------- interface selection *)
Definition str_le (a b : string) : Prop := String.leb a b = true.
Global Instance str_le_dec a b : Decision (str_le a b) := decide (String.leb a b = true).

(* listSourceInterfaces: every directory of the source root, sort.Strings *)
Definition list_source_ifaces (src : db) : list string := merge_sort str_le (elements (dom src)).

Fixpoint select_loop (avail req sel : list string) : res (list string) :=
  match req with
  | [] => Ok sel
  | r :: rest =>
    let r' := trim_space r in
    if decide (r' = "") then select_loop avail rest sel
    else if decide (r' ∈ avail) then
      (if decide (r' ∈ sel) then select_loop avail rest sel else select_loop avail rest (sel ++ [r']))
    else Err
  end.

Definition select_ifaces (avail req : list string) : res (list string) :=
  match req with
  | [] => Ok avail
  | _ => match select_loop avail req [] with
         | Ok sel => Ok (merge_sort str_le sel)
         | Err => Err
         | Panic => Panic
         end
  end.

(* ---------------------------------------------------------------- isDayComplete *)
Definition epoch_day : Z := 86400.
Definition dir_timestamp (t : Z) : Z := (t `quot` epoch_day) * epoch_day.

(* MergeDatabases: tolerance <= 0 -> 300 s; isDayComplete: int64(tolerance / time.Second), < 0 -> 0 *)
Definition tol_seconds (tol_ns : Z) : Z :=
  let t := if tol_ns <=? 0 then 300 * 1000000000 else tol_ns in
  let s := t `quot` 1000000000 in
  if s <? 0 then 0 else s.

Definition is_day_complete (tol_s day_ts : Z) (d : day) : bool :=
  let tss := d.*1 in
  let n := length tss in
  match n with
  | O => false
  | _ =>
    let first := nth 0 tss 0 in
    let last := nth (n - 1) tss 0 in
    let dur := if (1 <? n)%nat then last - nth (n - 2) tss 0 else 300 in
    let day_start := dir_timestamp day_ts in
    let day_end := day_start + epoch_day - 1 in
    (first <=? day_start + tol_s) && (day_end - tol_s <=? last + dur)
  end.

(* ---------------------------------------------------------------- planDayMerge *)
Inductive action := ASkip | ACopy | ARebuild.
Record plan := { p_action : action; p_use_src : bool; p_use_dst : bool }.

Definition plan_day_merge (src_complete has_dst dst_complete overwrite : bool) : plan :=
  if negb has_dst then
    (if src_complete then Build_plan ACopy false false else Build_plan ARebuild true false)
  else if src_complete && dst_complete then
    (if overwrite then Build_plan ACopy false false else Build_plan ASkip false false)
  else if overwrite && src_complete then Build_plan ACopy false false
  else Build_plan ARebuild true true.

(* ---------------------------------------------------------------- readDaySnapshots / mergeSnapshots *)
(* map[int64]blockSnapshot filled in block order: a later block with the same timestamp replaces *)
Definition read_day_snapshots (d : day) : gmap Z N :=
  fold_left (λ m b, <[b.1 := b.2]> m) d ∅.

Definition merge_snapshots (s d : gmap Z N) (ow : bool) : day * nat * nat :=
  let tss := merge_sort Z.le (elements (dom s ∪ dom d)) in
  fold_left (λ (acc : day * nat * nat) ts,
             let '(m, cd, cs) := acc in
             match s !! ts, d !! ts with
             | Some a, Some b => if ow then (m ++ [(ts, a)], cd, S cs) else (m ++ [(ts, b)], S cd, cs)
             | Some a, None => (m ++ [(ts, a)], cd, cs)
             | None, Some b => (m ++ [(ts, b)], cd, cs)
             | None, None => (m, cd, cs)
             end) tss ([], O, O).

(* rebuildDayToStage: the blocks written to the staged day, and the two conflict counters *)
Definition rebuild_day (p : plan) (sd : day) (dd : option day) (ow : bool) : day * nat * nat :=
  let s := if p_use_src p then read_day_snapshots sd else ∅ in
  let d := if p_use_dst p then read_day_snapshots (default [] dd) else ∅ in
  merge_snapshots s d ow.

(* ---------------------------------------------------------------- one day of the inner loop *)
(* result: the new content of the destination day (None = destination untouched) and the summary delta *)
Definition day_step (o : opts) (tol_s t : Z) (sd : day) (dd : option day) : option day * summary :=
  let sc := is_day_complete tol_s t sd in
  let has_dst := bool_decide (is_Some dd) in
  let dc := match dd with Some x => is_day_complete tol_s t x | None => false end in
  let p := plan_day_merge sc has_dst dc (o_overwrite o) in
  match p_action p with
  | ASkip => (None, Build_summary 0 0 0 1 0 0)
  | ACopy => (if o_dry o then None else Some sd, Build_summary 0 1 0 0 0 0)
  | ARebuild =>
    if o_dry o then (None, Build_summary 0 0 1 0 0 0)
    else let '(m, cd, cs) := rebuild_day p sd dd (o_overwrite o) in
         (Some m, Build_summary 0 0 1 0 cd cs)
  end.

Definition apply_day (i : string) (t : Z) (nd : option day) (dst : db) : db :=
  match nd with Some v => set_day i t v dst | None => dst end.

(* the body of `for _, dayTimestamp := range dayTimestamps`; dst_days is the listing of the
   destination interface taken before the loop (listInterfaceDays) *)
Definition merge_one_day (o : opts) (tol_s : Z) (i : string) (src_days dst_days : idb)
           (st : db * summary) (t : Z) : db * summary :=
  match src_days !! t with
  | None => st
  | Some sd =>
    let '(nd, delta) := day_step o tol_s t sd (dst_days !! t) in
    (apply_day i t nd st.1, sum_add st.2 delta)
  end.

(* the body of `for _, iface := range selectedIfaces` *)
Definition merge_iface (o : opts) (tol_s : Z) (src : db) (st : db * summary) (i : string) : db * summary :=
  let src_days := default ∅ (src !! i) in
  if decide (elements (dom src_days) = []) then st
  else
    let dst_days := default ∅ (st.1 !! i) in
    let keys := merge_sort Z.le (elements (dom src_days)) in
    fold_left (merge_one_day o tol_s i src_days dst_days) keys
              (st.1, sum_add st.2 (Build_summary 1 0 0 0 0 0)).

(* MergeDatabases: result = (destination after, source after, summary) *)
Definition merge_run (o : opts) (dst src : db) : res (db * db * summary) :=
  match select_ifaces (list_source_ifaces src) (o_ifaces o) with
  | Err => Err
  | Panic => Panic
  | Ok sel =>
    let r := fold_left (merge_iface o (tol_seconds (o_tol o)) src) sel (dst, sum_zero) in
    Ok (r.1, src, r.2)
  end.
