(* C24 proofs, part 1: one day.  isDayComplete = documented coverage test, planDayMerge = documented
   outcome, readDaySnapshots/mergeSnapshots = block-by-block union, day_step = spec_day + counts,
   and the fixed-point property of the documented per-day rule (used for idempotence). *)
From stdpp Require Import gmap sorting strings.
From Coq Require Import ZArith Ascii Lia.
From GoProbe.Base Require Import CorrLib.
From GoProbe.C24 Require Import Model Spec.
Open Scope Z_scope.

(* ---------------------------------------------------------------- tolerance and coverage *)
Lemma tol_seconds_spec ns : tol_seconds ns = spec_tol ns.
Proof.
  unfold tol_seconds, spec_tol.
  destruct (Z.leb_spec ns 0) as [H|H]; destruct (decide (0 < ns)) as [H'|H']; try lia.
  - reflexivity.
  - assert (0 <= ns `quot` 1000000000) by (apply Z.quot_pos; lia).
    destruct (Z.ltb_spec (ns `quot` 1000000000) 0); [lia|reflexivity].
Qed.

Lemma last_cons_default {A} (l : list A) x d : List.last (x :: l) d = List.last l x.
Proof.
  revert x d. induction l as [|y l IH]; intros x d; [reflexivity|].
  change (List.last (x :: y :: l) d) with (List.last (y :: l) d).
  rewrite (IH y d), (IH y x). reflexivity.
Qed.

Lemma nth_length_last {A} (l : list A) a d : nth (length l) (a :: l) d = List.last l a.
Proof.
  revert a. induction l as [|x l IH]; intros a; [reflexivity|].
  change (nth (length (x :: l)) (a :: x :: l) d) with (nth (length l) (x :: l) d).
  rewrite IH. symmetry. apply last_cons_default.
Qed.

Lemma nth_pred_removelast {A} (l : list A) a d :
  l ≠ [] → nth (length l - 1) (a :: l) d = List.last (removelast l) a.
Proof.
  revert a. induction l as [|x l IH]; intros a Hne; [done|].
  destruct l as [|y l]; [reflexivity|].
  replace (length (x :: y :: l) - 1)%nat with (S (length (y :: l) - 1)) by (cbn [length]; lia).
  change (nth (S (length (y :: l) - 1)) (a :: x :: y :: l) d) with (nth (length (y :: l) - 1) (x :: y :: l) d).
  rewrite IH by done.
  change (removelast (x :: y :: l)) with (x :: removelast (y :: l)).
  symmetry. apply last_cons_default.
Qed.

Lemma leb_and_decide a b c d : (a <=? b) && (c <=? d) = bool_decide (a ≤ b ∧ c ≤ d).
Proof.
  destruct (Z.leb_spec a b), (Z.leb_spec c d); cbn; symmetry;
    (apply bool_decide_eq_true_2; lia) || (apply bool_decide_eq_false_2; lia).
Qed.

Lemma is_day_complete_spec tol t d : is_day_complete tol t d = spec_covers tol t d.
Proof.
  unfold is_day_complete, spec_covers.
  destruct (d.*1) as [|first rest]; [reflexivity|].
  cbn [length]. change (nth 0 (first :: rest) 0) with first.
  replace (S (length rest) - 1)%nat with (length rest) by lia.
  rewrite nth_length_last, leb_and_decide.
  unfold dir_timestamp, epoch_day.
  generalize (t `quot` 86400 * 86400). intros start.
  generalize (List.last rest first). intros lst.
  destruct rest as [|x rest'].
  - cbn [length Nat.ltb Nat.leb]. apply bool_decide_ext. lia.
  - assert ((1 <? S (length (x :: rest')))%nat = true) as -> by (apply Nat.ltb_lt; cbn [length]; lia).
    replace (S (length (x :: rest')) - 2)%nat with (length (x :: rest') - 1)%nat by lia.
    rewrite nth_pred_removelast by done.
    generalize (List.last (removelast (x :: rest')) first). intros pen.
    apply bool_decide_ext. lia.
Qed.

(* ---------------------------------------------------------------- the plan *)
Definition outcome_of_action (a : action) : outcome :=
  match a with ASkip => Kept | ACopy => Copied | ARebuild => Rebuilt end.

Lemma plan_day_merge_spec sc dc ow (has : bool) :
  outcome_of_action (p_action (plan_day_merge sc has dc ow))
  = spec_outcome ow sc (if has then Some dc else None).
Proof. destruct sc, dc, ow, has; reflexivity. Qed.

Lemma plan_rebuild_uses sc dc ow (has : bool) :
  p_action (plan_day_merge sc has dc ow) = ARebuild →
  p_use_src (plan_day_merge sc has dc ow) = true ∧ p_use_dst (plan_day_merge sc has dc ow) = has.
Proof. destruct sc, dc, ow, has; cbn; intros; done. Qed.

(* ---------------------------------------------------------------- snapshots *)
Lemma read_day_snapshots_aux (d : list (Z * N)) (m0 : gmap Z N) :
  fold_left (λ m b, <[b.1 := b.2]> m) d m0 = list_to_map (reverse d) ∪ m0.
Proof.
  revert m0. induction d as [|[t c] d IH]; intros m0.
  - cbn. by rewrite (left_id_L ∅ (∪)).
  - cbn [fold_left]. rewrite IH, reverse_cons, (list_to_map_app (M:=gmap Z)). cbn.
    rewrite <- (assoc_L (∪)). f_equal.
    rewrite insert_empty. by rewrite <- insert_union_singleton_l.
Qed.

Lemma read_day_snapshots_spec d : read_day_snapshots d = blocks_of d.
Proof. unfold read_day_snapshots, blocks_of. rewrite read_day_snapshots_aux. by rewrite (right_id_L ∅ (∪)). Qed.

Definition item (s d : gmap Z N) (ow : bool) (ts : Z) : option block :=
  match s !! ts, d !! ts with
  | Some a, Some b => Some (ts, if ow then a else b)
  | Some a, None => Some (ts, a)
  | None, Some b => Some (ts, b)
  | None, None => None
  end.
Definition both (s d : gmap Z N) (ts : Z) : Prop := is_Some (s !! ts) ∧ is_Some (d !! ts).
Global Instance both_dec s d ts : Decision (both s d ts).
Proof. unfold both. apply _. Defined.

Lemma merge_fold (s d : gmap Z N) (ow : bool) (tss : list Z) (m : day) (cd cs : nat) :
  fold_left (λ (acc : day * nat * nat) ts,
             let '(m, cd, cs) := acc in
             match s !! ts, d !! ts with
             | Some a, Some b => if ow then (m ++ [(ts, a)], cd, S cs) else (m ++ [(ts, b)], S cd, cs)
             | Some a, None => (m ++ [(ts, a)], cd, cs)
             | None, Some b => (m ++ [(ts, b)], cd, cs)
             | None, None => (m, cd, cs)
             end) tss (m, cd, cs)
  = (m ++ omap (item s d ow) tss,
     (cd + if ow then 0 else length (filter (both s d) tss))%nat,
     (cs + if ow then length (filter (both s d) tss) else 0)%nat).
Proof.
  revert m cd cs. induction tss as [|ts tss IH]; intros m cd cs.
  - cbn. rewrite app_nil_r. destruct ow; repeat (apply pair_equal_spec; split); (reflexivity || lia).
  - cbn [fold_left].
    change (omap (item s d ow) (ts :: tss)) with
      (match item s d ow ts with Some y => y :: omap (item s d ow) tss | None => omap (item s d ow) tss end).
    rewrite filter_cons.
    assert (Hb : both s d ts ↔ is_Some (s !! ts) ∧ is_Some (d !! ts)) by reflexivity.
    unfold item at 1.
    destruct (s !! ts) as [a|], (d !! ts) as [b|].
    + rewrite decide_True by (apply Hb; split; eauto).
      destruct ow; rewrite IH; cbn [length]; rewrite <- app_assoc; cbn [app];
        repeat (apply pair_equal_spec; split); (reflexivity || lia).
    + rewrite decide_False by (rewrite Hb; intros [_ [? ?]]; done). rewrite IH, <- app_assoc. reflexivity.
    + rewrite decide_False by (rewrite Hb; intros [[? ?] _]; done). rewrite IH, <- app_assoc. reflexivity.
    + rewrite decide_False by (rewrite Hb; intros [[? ?] _]; done). rewrite IH. reflexivity.
Qed.

Lemma sorted_keys_elem (X : gset Z) t : t ∈ merge_sort Z.le (elements X) ↔ t ∈ X.
Proof. rewrite merge_sort_Permutation. apply elem_of_elements. Qed.

Lemma sorted_keys_NoDup (X : gset Z) : NoDup (merge_sort Z.le (elements X)).
Proof. rewrite merge_sort_Permutation. apply NoDup_elements. Qed.

Lemma dom_spec_blocks ow (s d : gmap Z N) : dom (spec_blocks ow s d) = dom s ∪ dom d.
Proof. unfold spec_blocks. destruct ow; rewrite dom_union_L; [done|]. apply (comm_L (∪)). Qed.

Lemma item_spec s d ow ts :
  ts ∈ dom s ∪ dom d → item s d ow ts = Some (ts, default 0%N (spec_blocks ow s d !! ts)).
Proof.
  rewrite elem_of_union, !elem_of_dom. unfold item, spec_blocks. intros Hin.
  destruct ow; rewrite lookup_union; destruct (s !! ts), (d !! ts); cbn; try done;
    destruct Hin as [[? ?]|[? ?]]; done.
Qed.

Lemma count_both s d (tss : list Z) :
  NoDup tss → (∀ t, t ∈ tss ↔ t ∈ dom s ∪ dom d) →
  length (filter (both s d) tss) = size (dom s ∩ dom d).
Proof.
  intros Hnd Hin. unfold size, set_size. cbn.
  apply Permutation_length, NoDup_Permutation.
  - by apply NoDup_filter.
  - apply NoDup_elements.
  - intros t. rewrite elem_of_list_filter, elem_of_elements, elem_of_intersection, Hin, elem_of_union.
    unfold both. rewrite !elem_of_dom. tauto.
Qed.

Definition conflicts (s d : gmap Z N) : nat := size (dom s ∩ dom d).

Lemma merge_snapshots_spec s d ow :
  merge_snapshots s d ow
  = (day_of_blocks (spec_blocks ow s d),
     if ow then O else conflicts s d, if ow then conflicts s d else O).
Proof.
  unfold merge_snapshots. rewrite merge_fold. cbn [app].
  rewrite count_both; [|apply sorted_keys_NoDup|apply sorted_keys_elem].
  repeat (apply pair_equal_spec; split); try (unfold conflicts; destruct ow; cbn; lia).
  unfold day_of_blocks. rewrite dom_spec_blocks.
  assert (∀ l : list Z, (∀ t, t ∈ l → t ∈ dom s ∪ dom d) →
          omap (item s d ow) l = (λ t, (t, default 0%N (spec_blocks ow s d !! t))) <$> l) as Hl.
  { induction l as [|t l IH]; intros Hall; [reflexivity|].
    change (omap (item s d ow) (t :: l)) with
      (match item s d ow t with Some y => y :: omap (item s d ow) l | None => omap (item s d ow) l end).
    rewrite item_spec by (apply Hall; left). rewrite fmap_cons.
    f_equal. apply IH. intros ? ?. apply Hall. by right. }
  apply Hl. intros t. by rewrite sorted_keys_elem.
Qed.

(* ---------------------------------------------------------------- one day step = the documented rule *)
Definition spec_delta (o : opts) (t : Z) (s : day) (d : option day) : summary :=
  let oc := spec_day_outcome o t s d in
  let c := if outcome_eqb oc Rebuilt then spec_conflicts s d else O in
  Build_summary 0 (if outcome_eqb oc Copied then 1 else 0) (if outcome_eqb oc Rebuilt then 1 else 0)
                (if outcome_eqb oc Kept then 1 else 0)
                (if o_dry o || o_overwrite o then O else c)
                (if o_dry o || negb (o_overwrite o) then O else c).

Definition spec_new_day (o : opts) (t : Z) (s : day) (d : option day) : option day :=
  if o_dry o then None else
  match spec_day_outcome o t s d with
  | Copied => Some s
  | Kept => None
  | Rebuilt => Some (spec_union (o_overwrite o) s (default [] d))
  end.

Lemma day_step_spec o t sd dd :
  day_step o (tol_seconds (o_tol o)) t sd dd = (spec_new_day o t sd dd, spec_delta o t sd dd).
Proof.
  unfold day_step, spec_new_day, spec_delta, spec_day_outcome.
  rewrite tol_seconds_spec. set (tol := spec_tol (o_tol o)).
  rewrite is_day_complete_spec.
  set (sc := spec_covers tol t sd).
  set (has := bool_decide (is_Some dd)).
  set (dc := match dd with Some x => is_day_complete tol t x | None => false end).
  assert (spec_covers tol t <$> dd = if has then Some dc else None) as ->.
  { subst has dc. destruct dd as [x|]; cbn; [by rewrite is_day_complete_spec|done]. }
  pose proof (plan_day_merge_spec sc dc (o_overwrite o) has) as Hp.
  pose proof (plan_rebuild_uses sc dc (o_overwrite o) has) as Hu.
  destruct (p_action (plan_day_merge sc has dc (o_overwrite o))) eqn:Ha; cbn in Hp; rewrite <- Hp; cbn.
  - by destruct (o_dry o), (o_overwrite o).
  - by destruct (o_dry o), (o_overwrite o).
  - destruct (o_dry o); [done|]. cbn.
    destruct Hu as [Hus Hud]; [done|].
    unfold rebuild_day. rewrite Hus, Hud.
    assert ((if has then read_day_snapshots (default [] dd) else ∅) = blocks_of (default [] dd)) as ->.
    { subst has. destruct dd; cbn; [apply read_day_snapshots_spec|reflexivity]. }
    rewrite read_day_snapshots_spec, merge_snapshots_spec.
    unfold spec_union, spec_conflicts, conflicts. by destruct (o_overwrite o).
Qed.

(* the documented result of a day in terms of "new content or untouched" *)
Lemma spec_day_new o t s d :
  o_dry o = false →
  spec_day o t s d = match spec_new_day o t s d with Some v => Some v | None => d end.
Proof. unfold spec_day, spec_new_day. intros ->. by destruct (spec_day_outcome o t s d). Qed.

(* ---------------------------------------------------------------- the rule is a fixed point *)
Lemma blocks_of_day_of_blocks (m : gmap Z N) : blocks_of (day_of_blocks m) = m.
Proof.
  unfold blocks_of, day_of_blocks. apply map_eq. intros t.
  assert (NoDup ((reverse ((λ t0, (t0, default 0%N (m !! t0))) <$> merge_sort Z.le (elements (dom m)))).*1)) as Hnd.
  { rewrite fmap_reverse, reverse_Permutation, <- list_fmap_compose.
    rewrite (list_fmap_ext _ id _) by done.
    rewrite list_fmap_id. apply sorted_keys_NoDup. }
  destruct (m !! t) as [c|] eqn:Hm.
  - apply elem_of_list_to_map; [done|]. rewrite elem_of_reverse, elem_of_list_fmap.
    exists t. rewrite Hm. split; [done|]. apply sorted_keys_elem, elem_of_dom. eauto.
  - apply not_elem_of_list_to_map. rewrite fmap_reverse, elem_of_reverse, <- list_fmap_compose.
    rewrite elem_of_list_fmap. intros (t' & -> & Hin). cbn in Hm.
    apply sorted_keys_elem, elem_of_dom in Hin. rewrite Hm in Hin. by destruct Hin.
Qed.

Lemma spec_blocks_absorb ow (s d : gmap Z N) :
  spec_blocks ow s (spec_blocks ow s d) = spec_blocks ow s d.
Proof.
  unfold spec_blocks. destruct ow.
  - by rewrite (assoc_L (∪)), (idemp_L (∪)).
  - by rewrite <- (assoc_L (∪)), (idemp_L (∪)).
Qed.

Lemma spec_union_absorb ow s d : spec_union ow s (spec_union ow s d) = spec_union ow s d.
Proof. unfold spec_union at 1 3. unfold spec_union. by rewrite blocks_of_day_of_blocks, spec_blocks_absorb. Qed.

Lemma spec_day_fixed o t s d :
  spec_day o t s (spec_day o t s d) = spec_day o t s d.
Proof.
  unfold spec_day, spec_day_outcome.
  set (tol := spec_tol (o_tol o)). set (ow := o_overwrite o).
  destruct (spec_covers tol t s) eqn:Hs, ow, d as [dd|]; cbn;
    try destruct (spec_covers tol t dd) eqn:Hd; cbn; rewrite ?Hs, ?Hd; cbn; try done;
    try (destruct (spec_covers tol t (spec_union _ s _)); cbn; by rewrite ?spec_union_absorb);
    by rewrite spec_union_absorb.
Qed.
