(* C24 specification: the DOCUMENTED merge rule (cmd/gpdb/cmd/merge.go flag help + long text,
   cmd/gpdb/README.md), written independently of the model of merge.go.  Executable definitions only.

   "Complete day folders are copied directly when safe.  Partial day folders are rebuilt
    block-by-block.  If both sides contain the same block timestamp, destination data wins by
    default.  --overwrite: prefer source data on conflicts and replace complete destination days
    with complete source days.  --iface: interface(s) to merge (default: all interfaces found in
    source).  --dry-run: show planned actions without mutating destination.
    --complete-tolerance: tolerance for classifying full-day coverage."                                *)
From stdpp Require Import gmap sorting strings.
From Coq Require Import ZArith Ascii.
From GoProbe.C24 Require Import Model.
Open Scope Z_scope.

(* ---- full-day coverage within a tolerance of whole seconds (default 300 s when none is given) *)
Definition spec_tol (tol_ns : Z) : Z :=
  if decide (0 < tol_ns) then tol_ns `quot` 1000000000 else 300.

(* a block with timestamp T closes the interval that the writer flushed at T; the spacing of the
   last two blocks (300 s for a lone block) is how far the last block is taken to reach *)
Definition spec_covers (tol t : Z) (d : day) : bool :=
  match d.*1 with
  | [] => false
  | first :: rest =>
    let lst := List.last rest first in
    let reach := match rest with
                 | [] => 300
                 | _ => lst - List.last (removelast rest) first
                 end in
    let start := (t `quot` 86400) * 86400 in
    bool_decide (first ≤ start + tol ∧ start + 86399 - tol ≤ lst + reach)
  end.

(* ---- the per-day rule *)
Inductive outcome := Kept | Copied | Rebuilt.
Definition outcome_eqb (a b : outcome) : bool :=
  match a, b with Kept, Kept | Copied, Copied | Rebuilt, Rebuilt => true | _, _ => false end.

(* src_complete; dst = None (destination lacks the day) or Some complete? *)
Definition lacks (dst : option bool) : bool := match dst with None => true | Some _ => false end.
Definition has_complete (dst : option bool) : bool := match dst with Some true => true | _ => false end.
Definition spec_outcome (overwrite src_complete : bool) (dst : option bool) : outcome :=
  if src_complete && (overwrite || lacks dst) then Copied
  else if src_complete && has_complete dst && negb overwrite then Kept
  else Rebuilt.

(* the blocks of a day by timestamp (the block written last for a timestamp is the one a reader finds) *)
Definition blocks_of (d : day) : gmap Z N := list_to_map (reverse d).

(* block-by-block union; the preferred side wins on a common timestamp *)
Definition spec_blocks (overwrite : bool) (s d : gmap Z N) : gmap Z N :=
  if overwrite then s ∪ d else d ∪ s.

(* a day directory written from a block map: ascending timestamps *)
Definition day_of_blocks (m : gmap Z N) : day :=
  (λ t, (t, default 0%N (m !! t))) <$> merge_sort Z.le (elements (dom m)).

Definition spec_union (overwrite : bool) (s d : day) : day :=
  day_of_blocks (spec_blocks overwrite (blocks_of s) (blocks_of d)).

Definition spec_day_outcome (o : opts) (t : Z) (s : day) (d : option day) : outcome :=
  let tol := spec_tol (o_tol o) in
  spec_outcome (o_overwrite o) (spec_covers tol t s) (spec_covers tol t <$> d).

Definition spec_day (o : opts) (t : Z) (s : day) (d : option day) : option day :=
  match spec_day_outcome o t s d with
  | Copied => Some s
  | Kept => d
  | Rebuilt => Some (spec_union (o_overwrite o) s (default [] d))
  end.

(* ---- interface selection: all source interfaces by default, else the named ones *)
Definition spec_requested (o : opts) : list string :=
  filter (λ s, s ≠ "") (trim_space <$> o_ifaces o).

Definition spec_request_ok (o : opts) (src : db) : bool :=
  bool_decide (Forall (λ i, i ∈ dom src) (spec_requested o)).

Definition spec_selected (o : opts) (src : db) (i : string) : bool :=
  bool_decide (i ∈ dom src) &&
  (bool_decide (o_ifaces o = []) || bool_decide (i ∈ spec_requested o)).

(* ---- the destination after the merge, day by day *)
Definition spec_dest (o : opts) (dst src : db) (i : string) (t : Z) : option day :=
  if o_dry o then day_of dst i t
  else if spec_selected o src i then
    match day_of src i t with
    | Some s => spec_day o t s (day_of dst i t)
    | None => day_of dst i t
    end
  else day_of dst i t.

(* ---- the reported counts: one action per (selected interface, source day); conflicts are the
   common block timestamps of the days that were actually rebuilt (none in a dry run) *)
Definition spec_src_days (o : opts) (src : db) : list (string * Z * day) :=
  '(i, days) ← map_to_list src;
  if spec_selected o src i then (λ td, (i, td.1, td.2)) <$> map_to_list days else [].

Definition count_if {A} (f : A → bool) (l : list A) : nat := sum_list_with (λ x, if f x then 1%nat else O) l.

Definition spec_conflicts (s : day) (d : option day) : nat :=
  size (dom (blocks_of s) ∩ dom (blocks_of (default [] d))).

Definition spec_counts (o : opts) (dst src : db) : summary :=
  let ks := spec_src_days o src in
  let oc (k : string * Z * day) := spec_day_outcome o k.1.2 k.2 (day_of dst k.1.1 k.1.2) in
  let is (x : outcome) k := outcome_eqb (oc k) x in
  let confl := sum_list_with (λ k, if is Rebuilt k then spec_conflicts k.2 (day_of dst k.1.1 k.1.2) else O) ks in
  {| s_ifaces := count_if (λ ix : string * idb, spec_selected o src ix.1 && negb (bool_decide (ix.2 = ∅)))
                          (map_to_list src);
     s_copied := count_if (is Copied) ks;
     s_rebuilt := count_if (is Rebuilt) ks;
     s_skipped := count_if (is Kept) ks;
     s_cdst := if o_dry o || o_overwrite o then O else confl;
     s_csrc := if o_dry o || negb (o_overwrite o) then O else confl |}.
