(* C24 proofs, part 2: interface selection, the two loops of MergeDatabases, and the assembly:
   the destination after merge_run is the documented rule applied day by day. *)
From stdpp Require Import gmap sorting strings.
From Coq Require Import ZArith Ascii Lia.
From GoProbe.Base Require Import CorrLib.
From GoProbe.C24 Require Import Model Spec ProofsDay.
Open Scope Z_scope.

(* ---------------------------------------------------------------- summaries *)
Lemma sum_add_assoc a b c : sum_add (sum_add a b) c = sum_add a (sum_add b c).
Proof. destruct a, b, c; unfold sum_add; cbn; f_equal; lia. Qed.
Lemma sum_add_comm a b : sum_add a b = sum_add b a.
Proof. destruct a, b; unfold sum_add; cbn; f_equal; lia. Qed.
Lemma sum_add_zero_r a : sum_add a sum_zero = a.
Proof. destruct a; unfold sum_add; cbn; f_equal; lia. Qed.
Lemma sum_add_zero_l a : sum_add sum_zero a = a.
Proof. destruct a; unfold sum_add; cbn; f_equal; lia. Qed.

Definition ssum {A} (f : A → summary) (l : list A) : summary :=
  foldr (λ x acc, sum_add (f x) acc) sum_zero l.

Lemma ssum_perm {A} (f : A → summary) l k : l ≡ₚ k → ssum f l = ssum f k.
Proof.
  unfold ssum. induction 1 as [|x l k _ IH|x y l|l k m _ IH1 _ IH2]; cbn.
  - done.
  - by rewrite IH.
  - rewrite <- !sum_add_assoc. by rewrite (sum_add_comm (f y)).
  - by rewrite IH1.
Qed.

Lemma ssum_ext {A} (f g : A → summary) l : (∀ x, x ∈ l → f x = g x) → ssum f l = ssum g l.
Proof.
  unfold ssum. induction l as [|x l IH]; intros H; cbn; [done|].
  rewrite H by left. rewrite IH; [done|]. intros ? ?. apply H. by right.
Qed.

Lemma ssum_app {A} (f : A → summary) l k : ssum f (l ++ k) = sum_add (ssum f l) (ssum f k).
Proof.
  unfold ssum. induction l as [|x l IH]; cbn; [by rewrite sum_add_zero_l|]. by rewrite IH, sum_add_assoc.
Qed.

(* ---------------------------------------------------------------- day_of / set_day *)
Lemma day_of_alt (m : db) i t : day_of m i t = default ∅ (m !! i) !! t.
Proof. unfold day_of. destruct (m !! i); [done|]. symmetry. apply lookup_empty. Qed.

Lemma day_of_set_day i t v (m : db) i' t' :
  day_of (set_day i t v m) i' t' = if decide (i' = i ∧ t' = t) then Some v else day_of m i' t'.
Proof.
  unfold set_day, day_of. unfold db, idb in *.
  destruct (decide (i' = i)) as [->|Hi].
  - rewrite lookup_insert. cbn. destruct (decide (t' = t)) as [->|Ht].
    + rewrite lookup_insert. by rewrite decide_True.
    + rewrite lookup_insert_ne by done. rewrite decide_False by tauto.
      destruct (m !! i); [done|]. apply lookup_empty.
  - rewrite lookup_insert_ne by done. by rewrite decide_False by tauto.
Qed.

Lemma apply_day_other i t nd (m : db) j : j ≠ i → apply_day i t nd m !! j = m !! j.
Proof. intros. destruct nd; cbn; [|done]. unfold set_day. unfold db, idb in *. by rewrite lookup_insert_ne. Qed.

(* ---------------------------------------------------------------- inner loop *)
Definition stepf (o : opts) (src_days dst_days : idb) (t : Z) : option day * summary :=
  match src_days !! t with
  | Some sd => day_step o (tol_seconds (o_tol o)) t sd (dst_days !! t)
  | None => (None, sum_zero)
  end.

Lemma inner_fold o i src_days dst_days keys cur sm :
  fold_left (merge_one_day o (tol_seconds (o_tol o)) i src_days dst_days) keys (cur, sm)
  = (fold_left (λ d t, apply_day i t (stepf o src_days dst_days t).1 d) keys cur,
     sum_add sm (ssum (λ t, (stepf o src_days dst_days t).2) keys)).
Proof.
  revert cur sm. induction keys as [|k keys IH]; intros cur sm; cbn [fold_left].
  - cbn. by rewrite sum_add_zero_r.
  - assert (merge_one_day o (tol_seconds (o_tol o)) i src_days dst_days (cur, sm) k
            = (apply_day i k (stepf o src_days dst_days k).1 cur,
               sum_add sm (stepf o src_days dst_days k).2)) as ->.
    { unfold merge_one_day, stepf. destruct (src_days !! k) as [sd|]; cbn.
      - by destruct (day_step _ _ _ _ _).
      - by rewrite sum_add_zero_r. }
    rewrite IH. cbn. by rewrite sum_add_assoc.
Qed.

Lemma fold_apply_day_of i (g : Z → option day) keys (cur : db) i' t' :
  day_of (fold_left (λ d t, apply_day i t (g t) d) keys cur) i' t'
  = match (if decide (i' = i ∧ t' ∈ keys) then g t' else None) with
    | Some v => Some v
    | None => day_of cur i' t'
    end.
Proof.
  revert cur. induction keys as [|k ks IH]; intros cur; cbn [fold_left].
  - rewrite decide_False; [done|]. intros [_ H]. by apply elem_of_nil in H.
  - rewrite IH. unfold apply_day.
    destruct (decide (i' = i ∧ t' ∈ ks)) as [[-> Hin]|Hn].
    + rewrite decide_True by (split; [done|by right]).
      destruct (g t') eqn:Hg; [done|].
      destruct (g k) eqn:Hk; [|done].
      rewrite day_of_set_day. case_decide as Hd; [|done]. destruct Hd as [_ ->]. congruence.
    + destruct (decide (i' = i ∧ t' ∈ k :: ks)) as [[-> Hin]|Hn'].
      * assert (t' = k) as ->.
        { apply elem_of_cons in Hin as [?|?]; [done|]. exfalso. by apply Hn. }
        destruct (g k) eqn:Hk; [|done]. by rewrite day_of_set_day, decide_True.
      * destruct (g k); [|done]. rewrite day_of_set_day, decide_False; [done|].
        intros [-> ->]. apply Hn'. split; [done|left].
Qed.

Lemma fold_apply_other i (g : Z → option day) keys (cur : db) j :
  j ≠ i → fold_left (λ d t, apply_day i t (g t) d) keys cur !! j = cur !! j.
Proof.
  intros Hj. revert cur. induction keys as [|k ks IH]; intros cur; cbn [fold_left]; [done|].
  by rewrite IH, apply_day_other.
Qed.

Lemma fold_apply_none i (g : Z → option day) keys (cur : db) :
  (∀ t, g t = None) → fold_left (λ d t, apply_day i t (g t) d) keys cur = cur.
Proof.
  intros Hg. revert cur. induction keys as [|k ks IH]; intros cur; cbn [fold_left]; [done|].
  by rewrite Hg, IH.
Qed.

(* ---------------------------------------------------------------- one interface *)
Definition G (o : opts) (src dst : db) (i : string) (t : Z) : option day * summary :=
  stepf o (default ∅ (src !! i)) (default ∅ (dst !! i)) t.

Definition iface_sum (o : opts) (src dst : db) (i : string) : summary :=
  let src_days := default ∅ (src !! i) in
  if decide (elements (dom src_days) = []) then sum_zero
  else sum_add (Build_summary 1 0 0 0 0 0)
               (ssum (λ t, (G o src dst i t).2) (merge_sort Z.le (elements (dom src_days)))).

Lemma stepf_absent o (sd dd : idb) t : t ∉ dom sd → stepf o sd dd t = (None, sum_zero).
Proof.
  intros H. unfold stepf. destruct (sd !! t) eqn:E; [|done]. exfalso. apply H. apply elem_of_dom. eauto.
Qed.

Lemma merge_iface_spec o src dst (cur : db) sm i :
  cur !! i = dst !! i →
  let r := merge_iface o (tol_seconds (o_tol o)) src (cur, sm) i in
  (∀ i' t', day_of r.1 i' t'
            = match (if decide (i' = i) then (G o src dst i t').1 else None) with
              | Some v => Some v
              | None => day_of cur i' t'
              end)
  ∧ (∀ j, j ≠ i → r.1 !! j = cur !! j)
  ∧ r.2 = sum_add sm (iface_sum o src dst i).
Proof.
  intros Hcur. unfold merge_iface, iface_sum, G. cbn [fst snd]. rewrite Hcur.
  set (sd := default ∅ (src !! i)). set (dd := default ∅ (dst !! i)).
  destruct (decide (elements (dom sd) = [])) as [He|He].
  - cbn [fst snd]. split; [|split]; [|done|by rewrite sum_add_zero_r].
    intros i' t'. destruct (decide (i' = i)); [|done].
    rewrite stepf_absent; [done|].
    apply elements_empty_inv in He. intros Hin. apply He in Hin. by apply elem_of_empty in Hin.
  - rewrite inner_fold. cbn [fst snd]. split; [|split].
    + intros i' t'. rewrite fold_apply_day_of.
      destruct (decide (i' = i)) as [->|Hi].
      * destruct (decide (t' ∈ merge_sort Z.le (elements (dom sd)))) as [Hin|Hin].
        -- by rewrite decide_True.
        -- rewrite decide_False by tauto. rewrite stepf_absent; [done|].
           by rewrite <- sorted_keys_elem.
      * by rewrite decide_False by tauto.
    + intros j Hj. by apply fold_apply_other.
    + by rewrite sum_add_assoc.
Qed.

(* ---------------------------------------------------------------- all selected interfaces *)
Lemma outer_fold o src dst sel (cur : db) sm :
  NoDup sel → (∀ j, j ∈ sel → cur !! j = dst !! j) →
  let r := fold_left (merge_iface o (tol_seconds (o_tol o)) src) sel (cur, sm) in
  (∀ i' t', day_of r.1 i' t'
            = match (if decide (i' ∈ sel) then (G o src dst i' t').1 else None) with
              | Some v => Some v
              | None => day_of cur i' t'
              end)
  ∧ r.2 = sum_add sm (ssum (iface_sum o src dst) sel).
Proof.
  revert cur sm. induction sel as [|i rest IH]; intros cur sm Hnd Hcur; cbn [fold_left].
  - cbn. split; [|by rewrite sum_add_zero_r]. intros i' t'.
    rewrite decide_False; [done|]. apply not_elem_of_nil.
  - apply NoDup_cons in Hnd as [Hi Hnd].
    destruct (merge_iface_spec o src dst cur sm i) as (H1 & H2 & H3); [apply Hcur; left|].
    destruct (merge_iface o (tol_seconds (o_tol o)) src (cur, sm) i) as [cur1 sm1] eqn:Hst.
    cbn [fst snd] in H1, H2, H3.
    destruct (IH cur1 sm1 Hnd) as [I1 I2].
    { intros j Hj. rewrite H2; [apply Hcur; by right|]. intros ->. done. }
    split.
    + intros i' t'. rewrite I1, H1.
      destruct (decide (i' ∈ i :: rest)) as [Hc|Hc], (decide (i' ∈ rest)) as [Hin|Hin],
        (decide (i' = i)) as [->|Hne]; try done; exfalso; set_solver.
    + rewrite I2, H3. cbn. by rewrite sum_add_assoc.
Qed.

(* ---------------------------------------------------------------- interface selection *)
Lemma avail_elem (src : db) i : i ∈ list_source_ifaces src ↔ i ∈ dom src.
Proof. unfold list_source_ifaces. rewrite merge_sort_Permutation. apply elem_of_elements. Qed.

Lemma avail_NoDup (src : db) : NoDup (list_source_ifaces src).
Proof. unfold list_source_ifaces. rewrite merge_sort_Permutation. apply NoDup_elements. Qed.

Definition wanted (req : list string) : list string := filter (λ s, s ≠ "") (trim_space <$> req).

Lemma wanted_cons r rest :
  wanted (r :: rest) = if decide (trim_space r = "") then wanted rest else trim_space r :: wanted rest.
Proof.
  unfold wanted. rewrite fmap_cons, filter_cons.
  destruct (decide (trim_space r = "")) as [->|H]; [by rewrite decide_False by (intros H; by apply H)|].
  by rewrite decide_True.
Qed.

Lemma select_loop_ok avail req sel0 :
  NoDup sel0 → Forall (λ i, i ∈ avail) (wanted req) →
  ∃ sel, select_loop avail req sel0 = Ok sel ∧ NoDup sel ∧ ∀ i, i ∈ sel ↔ i ∈ sel0 ∨ i ∈ wanted req.
Proof.
  revert sel0. induction req as [|r rest IH]; intros sel0 Hnd Hall.
  - exists sel0. cbn. split; [done|]. split; [done|]. intros i. unfold wanted. cbn.
    rewrite elem_of_nil. tauto.
  - rewrite wanted_cons in Hall |- *. cbn [select_loop].
    destruct (decide (trim_space r = "")) as [He|He]; [by apply IH|].
    apply Forall_cons in Hall as [Hr Hall].
    rewrite decide_True by done.
    destruct (decide (trim_space r ∈ sel0)) as [Hin|Hin].
    + destruct (IH sel0 Hnd Hall) as (sel & -> & Hnd' & Hm). exists sel. split; [done|]. split; [done|].
      intros i. rewrite Hm, elem_of_cons. split; [tauto|]. intros [?|[->|?]]; tauto.
    + destruct (IH (sel0 ++ [trim_space r])) as (sel & -> & Hnd' & Hm); [|done|].
      { apply NoDup_app. split; [done|]. split; [|apply NoDup_singleton].
        intros x Hx ->%elem_of_list_singleton. done. }
      exists sel. split; [done|]. split; [done|].
      intros i. rewrite Hm, elem_of_app, elem_of_list_singleton, elem_of_cons. tauto.
Qed.

Lemma select_loop_err avail req sel0 :
  ¬ Forall (λ i, i ∈ avail) (wanted req) → select_loop avail req sel0 = Err.
Proof.
  revert sel0. induction req as [|r rest IH]; intros sel0 Hall.
  - exfalso. apply Hall. unfold wanted. cbn. constructor.
  - rewrite wanted_cons in Hall. cbn [select_loop].
    destruct (decide (trim_space r = "")) as [He|He]; [by apply IH|].
    destruct (decide (trim_space r ∈ avail)) as [Hin|Hin]; [|done].
    assert (¬ Forall (λ i, i ∈ avail) (wanted rest)) as Hr.
    { intros H. apply Hall. by constructor. }
    destruct (decide (trim_space r ∈ sel0)); by apply IH.
Qed.

Lemma Forall_avail (src : db) l :
  Forall (λ i, i ∈ list_source_ifaces src) l ↔ Forall (λ i, i ∈ dom src) l.
Proof. apply Forall_iff. intros i. apply avail_elem. Qed.

Lemma select_ifaces_spec o (src : db) :
  if spec_request_ok o src
  then ∃ sel, select_ifaces (list_source_ifaces src) (o_ifaces o) = Ok sel ∧ NoDup sel
              ∧ ∀ i, i ∈ sel ↔ spec_selected o src i = true
  else select_ifaces (list_source_ifaces src) (o_ifaces o) = Err.
Proof.
  unfold spec_request_ok, spec_selected, spec_requested. fold (wanted (o_ifaces o)).
  destruct (o_ifaces o) as [|r rest] eqn:Hreq.
  - rewrite bool_decide_eq_true_2 by (unfold wanted; cbn; constructor).
    exists (list_source_ifaces src). split; [done|]. split; [apply avail_NoDup|].
    intros i. rewrite avail_elem. rewrite (bool_decide_eq_true_2 ([] = [])) by done.
    rewrite orb_true_l, andb_true_r. by rewrite bool_decide_eq_true.
  - case_bool_decide as Hall.
    + apply Forall_avail in Hall.
      destruct (select_loop_ok (list_source_ifaces src) (r :: rest) []) as (sel & Hs & Hnd & Hm);
        [constructor|done|].
      exists (merge_sort str_le sel). unfold select_ifaces. rewrite Hs.
      split; [done|]. split; [by rewrite merge_sort_Permutation|].
      intros i. rewrite merge_sort_Permutation, Hm.
      rewrite (bool_decide_eq_false_2 (r :: rest = [])) by done. rewrite orb_false_l.
      rewrite andb_true_iff, !bool_decide_eq_true. rewrite elem_of_nil.
      split; [|tauto]. intros [[]|Hin]. split; [|done].
      apply Forall_avail in Hall. by eapply (proj1 (Forall_forall _ _) Hall).
    + unfold select_ifaces. rewrite select_loop_err; [done|]. by rewrite Forall_avail.
Qed.

(* ---------------------------------------------------------------- assembly *)
Lemma G_spec o src dst i t :
  G o src dst i t = match day_of src i t with
                    | Some sd => (spec_new_day o t sd (day_of dst i t), spec_delta o t sd (day_of dst i t))
                    | None => (None, sum_zero)
                    end.
Proof.
  unfold G, stepf. rewrite <- !day_of_alt. destruct (day_of src i t); [|done]. apply day_step_spec.
Qed.

Lemma dest_spec o src dst (sel : list string) i t :
  (∀ i, i ∈ sel ↔ spec_selected o src i = true) →
  match (if decide (i ∈ sel) then (G o src dst i t).1 else None) with
  | Some v => Some v
  | None => day_of dst i t
  end = spec_dest o dst src i t.
Proof.
  intros Hsel. unfold spec_dest. rewrite G_spec.
  destruct (decide (i ∈ sel)) as [Hin|Hin].
  - apply Hsel in Hin. rewrite Hin.
    destruct (o_dry o) eqn:Hdry.
    + destruct (day_of src i t); cbn; [|done]. unfold spec_new_day. by rewrite Hdry.
    + destruct (day_of src i t); cbn; [|done]. by rewrite spec_day_new.
  - assert (spec_selected o src i = false) as ->.
    { destruct (spec_selected o src i) eqn:E; [|done]. by apply Hsel in E. }
    by destruct (o_dry o).
Qed.

(* the whole run, with the summary still expressed as the sum over the selected interfaces *)
Lemma merge_run_spec o dst src :
  if spec_request_ok o src
  then ∃ d' sel, merge_run o dst src = Ok (d', src, ssum (iface_sum o src dst) sel)
                 ∧ NoDup sel ∧ (∀ i, i ∈ sel ↔ spec_selected o src i = true)
                 ∧ ∀ i t, day_of d' i t = spec_dest o dst src i t
  else merge_run o dst src = Err.
Proof.
  pose proof (select_ifaces_spec o src) as Hsel. unfold merge_run.
  destruct (spec_request_ok o src); [|by rewrite Hsel].
  destruct Hsel as (sel & -> & Hnd & Hm).
  destruct (outer_fold o src dst sel dst sum_zero Hnd) as [H1 H2]; [done|].
  eexists _, sel. split; [|split; [done|split; [done|]]].
  - rewrite H2, sum_add_zero_l. reflexivity.
  - intros i t. rewrite H1. by apply dest_spec.
Qed.

(* a dry run leaves the destination literally untouched *)
Lemma day_step_dry o tol t sd dd : o_dry o = true → (day_step o tol t sd dd).1 = None.
Proof. intros H. unfold day_step. rewrite H. by destruct (p_action _). Qed.

Lemma merge_iface_dry o src (cur : db) sm i :
  o_dry o = true → (merge_iface o (tol_seconds (o_tol o)) src (cur, sm) i).1 = cur.
Proof.
  intros Hdry. unfold merge_iface. cbn [fst snd].
  destruct (decide _); [done|]. rewrite inner_fold. cbn [fst].
  apply fold_apply_none. intros t. unfold stepf. destruct (_ !! t); [|done]. by apply day_step_dry.
Qed.

Lemma merge_run_dry o dst src d' s' sm :
  o_dry o = true → merge_run o dst src = Ok (d', s', sm) → d' = dst.
Proof.
  intros Hdry. unfold merge_run. destruct (select_ifaces _ _) as [sel| |]; [|done|done].
  intros [= <- _ _].
  generalize sum_zero. induction sel as [|i sel IH]; intros sm0; cbn [fold_left]; [done|].
  destruct (merge_iface o (tol_seconds (o_tol o)) src (dst, sm0) i) as [c1 s1] eqn:E.
  pose proof (merge_iface_dry o src dst sm0 i Hdry) as H. rewrite E in H. cbn in H. subst c1. apply IH.
Qed.
