(* C03 proofs, part 2: the write-history layer (WriteBlocks / sessions / reopening). *)
From Coq Require Import List ZArith NArith Bool Lia ZifyBool ZifyNat ZifyN.
From GoProbe.Base Require Import CorrLib.
From GoProbe.C03 Require Import Model ProofsCodec.
Import ListNotations.
Open Scope N_scope.

Ltac Zify.zify_post_hook ::= Z.div_mod_to_equations.

(* ------------------------------------------------------------------ inputs and invariant *)

(* ranges the Go types give a WriteBlocks call: int64 timestamp, uint8 encoder type *)
Definition wf_colwrite (c : colwrite) : Prop := cw_enc c < 256.
Definition wf_write (w : write) : Prop := in_i64 (w_ts w) /\ Forall wf_colwrite (w_cols w).

Definition shape (m : meta) : Prop :=
  length (m_cols m) = ncols /\ Forall (fun c => length (col_blocks c) = length (m_blocks m)) (m_cols m).

(* no stored timestamp is later than the one of the last block *)
Definition ts_bounded (m : meta) : Prop :=
  match last_ts m with
  | Some l => Forall (fun t => (t <= l)%Z) (timestamps m)
  | None => m_blocks m = []
  end.

Definition inv (m : meta) : Prop := wf_meta m /\ shape m /\ ts_bounded m.

(* the metadata after an accepted write *)
Definition spec_step (m : meta) (w : write) : meta :=
  {| m_version := m_version m;
     m_cols := map2 add_colblock (m_cols m) (w_cols w);
     m_blocks := m_blocks m ++ [{| bi_ts := w_ts w; bi_traffic := w_traffic w |}];
     m_traffic := traffic_add (m_traffic m) (w_traffic w);
     m_counts := counters_add (m_counts m) (w_counts w) |}.

(* the metadata of a day on which exactly the writes ws were accepted, in this order *)
Definition spec_meta (ws : list write) : meta := fold_left spec_step ws new_meta.

Lemma Forall_map2 : forall (A B C : Type) (f : A -> B -> C) (P : A -> Prop) (Q : B -> Prop) (R : C -> Prop),
  (forall a b, P a -> Q b -> R (f a b)) ->
  forall l1 l2, Forall P l1 -> Forall Q l2 -> Forall R (map2 f l1 l2).
Proof.
  intros A B C f P Q R H l1. induction l1 as [|a l1 IH]; intros l2 H1 H2; [constructor|].
  destruct l2 as [|b l2]; [constructor|]. inversion H1; inversion H2; subst. cbn. constructor; auto.
Qed.

Lemma map2_length : forall (A B C : Type) (f : A -> B -> C) l1 l2,
  length l1 = length l2 -> length (map2 f l1 l2) = length l1.
Proof.
  intros A B C f l1. induction l1 as [|a l1 IH]; intros [|b l2] H; cbn in *; try discriminate; auto.
Qed.

Lemma Forall_True : forall (A : Type) (l : list A), Forall (fun _ => True) l.
Proof. induction l; constructor; auto. Qed.

Lemma u64_lt : forall x, u64 x < 2 ^ 64.
Proof. intros. unfold u64. apply N.mod_lt. lia. Qed.

Lemma last_ts_app : forall m b l, m_blocks m = l ++ [b] -> last_ts m = Some (bi_ts b).
Proof. intros m b l H. unfold last_ts. rewrite H, rev_app_distr. reflexivity. Qed.

Lemma write_blocks_ok : forall m w m', write_blocks m w = Ok m' ->
  m' = spec_step m w /\ length (w_cols w) = ncols
  /\ match last_ts m with Some l => (l < w_ts w)%Z | None => True end.
Proof.
  unfold write_blocks. intros m w m' H.
  destruct (Nat.eqb_spec (length (w_cols w)) ncols) as [E|E]; cbn [negb] in H; [|discriminate].
  destruct (last_ts m) as [l|].
  - destruct (Z.leb_spec (w_ts w) l); [discriminate|].
    destruct (existsb _ _); [discriminate|]. apply Ok_inj in H. subst. auto.
  - destruct (existsb _ _); [discriminate|]. apply Ok_inj in H. subst. auto.
Qed.

Lemma inv_new : inv new_meta.
Proof.
  unfold inv, wf_meta, shape, ts_bounded. cbn.
  repeat split; try lia; try reflexivity; try (intros _); repeat constructor; cbn; lia.
Qed.

Lemma spec_step_inv : forall m w,
  inv m -> wf_write w -> length (w_cols w) = ncols ->
  match last_ts m with Some l => (l < w_ts w)%Z | None => True end -> inv (spec_step m w).
Proof.
  intros m w ((Wv & Wc & Wt & Wtr & Wcn & We) & (S1 & S2) & B) (Ww1 & Ww2) Lw Hl.
  unfold inv, wf_meta, shape. cbn [spec_step m_version m_cols m_blocks m_traffic m_counts].
  repeat split.
  - assumption.
  - eapply Forall_map2; [|exact Wc|exact Ww2].
    intros c cw [C1 C2] Q. unfold add_colblock, wf_column.
    destruct (cw_raw cw =? 0); cbn [col_cur col_blocks]; split; try assumption; try apply u64_lt;
      (apply Forall_app; split; [assumption|]; constructor; [|constructor]; unfold wf_colblk, enc_null; cbn [cb_enc];
       [lia || exact Q]).
  - apply Forall_app. split; [assumption|]. constructor; [exact Ww1|constructor].
  - apply u64_lt.
  - apply u64_lt.
  - apply u64_lt.
  - apply u64_lt.
  - apply u64_lt.
  - apply u64_lt.
  - apply u64_lt.
  - intros H. destruct (m_blocks m); discriminate.
  - rewrite map2_length by congruence. assumption.
  - rewrite app_length. cbn [length].
    eapply Forall_map2 with (Q := fun _ => True); [|exact S2|apply Forall_True].
    intros c cw Hc _. cbv beta in Hc. unfold add_colblock. destruct (cw_raw cw =? 0); cbn [col_blocks];
      rewrite app_length; cbn [length]; lia.
  - unfold ts_bounded.
    rewrite (last_ts_app (spec_step m w) {| bi_ts := w_ts w; bi_traffic := w_traffic w |} (m_blocks m)) by reflexivity.
    unfold timestamps. cbn [spec_step m_blocks bi_ts]. rewrite map_app. apply Forall_app. split.
    + unfold ts_bounded in B. destruct (last_ts m) as [l|].
      * unfold timestamps in B. eapply Forall_impl; [|exact B]. cbn. intros. lia.
      * rewrite B. constructor.
    + constructor; [cbn; lia|constructor].
Qed.

Lemma write_blocks_inv : forall m w m', inv m -> wf_write w -> write_blocks m w = Ok m' -> inv m'.
Proof.
  intros m w m' I W H. apply write_blocks_ok in H. destruct H as (-> & L & Hl). now apply spec_step_inv.
Qed.

(* a block that is not newer than some stored block is refused *)
Lemma write_blocks_reject : forall m w t,
  inv m -> In t (timestamps m) -> (w_ts w <= t)%Z -> write_blocks m w = Err.
Proof.
  intros m w t (_ & _ & B) Hin Hle. unfold write_blocks.
  destruct (negb _); [reflexivity|].
  unfold ts_bounded in B. destruct (last_ts m) as [l|].
  - rewrite Forall_forall in B. specialize (B t Hin).
    destruct (Z.leb_spec (w_ts w) l); [reflexivity|lia].
  - unfold timestamps in Hin. rewrite B in Hin. destruct Hin.
Qed.

(* ------------------------------------------------------------------ sessions *)

Lemma apply_writes_inv : forall ws m, inv m -> Forall wf_write ws -> inv (fst (apply_writes m ws)).
Proof.
  induction ws as [|w ws IH]; intros m I W; [exact I|].
  inversion W as [|? ? Ww Wr]; subst. cbn [apply_writes].
  destruct (write_blocks m w) as [m'| |] eqn:E.
  - specialize (IH m' (write_blocks_inv _ _ _ I Ww E) Wr). destruct (apply_writes m' ws). exact IH.
  - specialize (IH m I Wr). destruct (apply_writes m ws). exact IH.
  - specialize (IH m I Wr). destruct (apply_writes m ws). exact IH.
Qed.

Lemma apply_writes_all_ok : forall ws m m' oks,
  apply_writes m ws = (m', oks) -> forallb (fun b => b) oks = true -> inv m -> Forall wf_write ws ->
  m' = fold_left spec_step ws m /\ inv m'.
Proof.
  induction ws as [|w ws IH]; intros m m' oks H A I W.
  - cbn in H. inversion H; subst. auto.
  - inversion W as [|? ? Ww Wr]; subst. cbn [apply_writes] in H.
    destruct (write_blocks m w) as [m1| |] eqn:E.
    + destruct (apply_writes m1 ws) as [mf o] eqn:E2. inversion H; subst. cbn in A.
      pose proof (write_blocks_inv _ _ _ I Ww E) as I1.
      apply write_blocks_ok in E. destruct E as (-> & _).
      destruct (IH _ _ _ E2 A I1 Wr) as [-> If]. auto.
    + destruct (apply_writes m ws). inversion H; subst. discriminate.
    + destruct (apply_writes m ws). inversion H; subst. discriminate.
Qed.

Lemma marshal_ok_shape : forall m junk b, marshal m junk = Ok b -> shape_ok m = true.
Proof. unfold marshal. intros m junk b H. destruct (shape_ok m); [reflexivity|discriminate]. Qed.

(* what `.blockmeta` holds: nothing yet, or the image of the accepted writes so far *)
Definition committed_is (c : option bytes) (ws : list write) : Prop :=
  exists b, c = Some b /\ unmarshal b = Ok (spec_meta ws) /\ inv (spec_meta ws).
Definition start_ok (c : option bytes) (ws : list write) : Prop :=
  (c = None /\ ws = []) \/ committed_is c ws.

Lemma session_accepted : forall c ws0 ws junk c' sr,
  start_ok c ws0 -> session c ws junk = (c', sr) -> session_ok sr = true -> Forall wf_write ws ->
  committed_is c' (ws0 ++ ws).
Proof.
  intros c ws0 ws junk c' sr St H A W. unfold session in H.
  assert (Ho : open_write c = Ok (spec_meta ws0) /\ inv (spec_meta ws0)).
  { destruct St as [[-> ->] | (b & -> & U & I)]; cbn; [split; [reflexivity|exact inv_new] | auto]. }
  destruct Ho as [Ho I0]. rewrite Ho in H.
  destruct (apply_writes (spec_meta ws0) ws) as [m' oks] eqn:Ea.
  unfold close_write in H.
  destruct (marshal m' junk) as [b| |] eqn:Em; inversion H; subst; clear H;
    unfold session_ok in A; cbn in A; try (rewrite andb_false_r in A; discriminate).
  rewrite andb_true_r in A.
  destruct (apply_writes_all_ok _ _ _ _ Ea A I0 W) as [-> If].
  exists b. unfold spec_meta in *. rewrite fold_left_app. repeat split; try apply If.
  eapply marshal_unmarshal; [apply If | exact Em].
Qed.

Definition all_writes (ss : list (list write * bytes)) : list write := concat (map fst ss).

Lemma history_accepted : forall ss c ws0 cf srs,
  start_ok c ws0 -> history c ss = (cf, srs) -> forallb session_ok srs = true ->
  Forall wf_write (all_writes ss) -> ss <> [] -> committed_is cf (ws0 ++ all_writes ss).
Proof.
  induction ss as [|[ws junk] r IH]; intros c ws0 cf srs St H A W Hne; [contradiction|].
  cbn [history] in H. destruct (session c ws junk) as [c' sr] eqn:Es.
  destruct (history c' r) as [cf' srs'] eqn:Eh. inversion H; subst; clear H.
  cbn [forallb] in A. apply andb_prop in A. destruct A as [A1 A2].
  unfold all_writes in *. cbn [map concat fst] in *. apply Forall_app in W. destruct W as [W1 W2].
  pose proof (session_accepted _ _ _ _ _ _ St Es A1 W1) as C1.
  destruct r as [|s r].
  - cbn in Eh. inversion Eh; subst. cbn. rewrite app_nil_r. exact C1.
  - rewrite app_assoc. eapply IH; [right; exact C1 | exact Eh | exact A2 | exact W2 | discriminate].
Qed.

(* views of spec_meta *)
Lemma fold_spec_blocks : forall ws m,
  m_blocks (fold_left spec_step ws m)
  = m_blocks m ++ map (fun w => {| bi_ts := w_ts w; bi_traffic := w_traffic w |}) ws.
Proof.
  induction ws as [|w ws IH]; intros m; cbn [fold_left map]; [now rewrite app_nil_r|].
  rewrite IH. cbn [spec_step m_blocks]. now rewrite <- app_assoc.
Qed.
Lemma fold_spec_traffic : forall ws m,
  m_traffic (fold_left spec_step ws m) = fold_left traffic_add (map w_traffic ws) (m_traffic m).
Proof. induction ws as [|w ws IH]; intros m; cbn [fold_left map]; [reflexivity|]. now rewrite IH. Qed.
Lemma fold_spec_counts : forall ws m,
  m_counts (fold_left spec_step ws m) = fold_left counters_add (map w_counts ws) (m_counts m).
Proof. induction ws as [|w ws IH]; intros m; cbn [fold_left map]; [reflexivity|]. now rewrite IH. Qed.

Definition zero_traffic : traffic := {| t_v4 := 0; t_v6 := 0; t_drops := 0 |}.
Definition zero_counters : counters := {| c_br := 0; c_bs := 0; c_pr := 0; c_ps := 0 |}.

Lemma spec_meta_view : forall ws,
  timestamps (spec_meta ws) = map w_ts ws
  /\ map bi_traffic (m_blocks (spec_meta ws)) = map w_traffic ws
  /\ m_traffic (spec_meta ws) = fold_left traffic_add (map w_traffic ws) zero_traffic
  /\ m_counts (spec_meta ws) = fold_left counters_add (map w_counts ws) zero_counters.
Proof.
  intros ws. unfold spec_meta, timestamps.
  rewrite fold_spec_blocks, fold_spec_traffic, fold_spec_counts. cbn [new_meta m_blocks m_traffic m_counts app].
  rewrite !map_map. cbn [bi_ts bi_traffic]. auto.
Qed.

(* full statement used by Properties *)
Theorem roundtrip_history : forall ss cf srs,
  history None ss = (cf, srs) -> forallb session_ok srs = true -> Forall wf_write (all_writes ss) -> ss <> [] ->
  exists m, reopen cf = Ok m
    /\ m = spec_meta (all_writes ss)
    /\ timestamps m = map w_ts (all_writes ss)
    /\ map bi_traffic (m_blocks m) = map w_traffic (all_writes ss)
    /\ m_traffic m = fold_left traffic_add (map w_traffic (all_writes ss)) zero_traffic
    /\ m_counts m = fold_left counters_add (map w_counts (all_writes ss)) zero_counters.
Proof.
  intros ss cf srs H A W Hne.
  destruct (history_accepted ss None [] cf srs (or_introl (conj eq_refl eq_refl)) H A W Hne) as (b & -> & U & _).
  cbn [app] in U. exists (spec_meta (all_writes ss)). cbn [reopen].
  destruct (spec_meta_view (all_writes ss)) as (V1 & V2 & V3 & V4). auto 10.
Qed.

(* ------------------------------------------------------------------ every reachable state satisfies inv *)

Definition committed_inv (c : option bytes) : Prop :=
  match c with None => True | Some b => exists m, unmarshal b = Ok m /\ inv m end.

Lemma shape_of_shape_ok : forall m, shape_ok m = true -> shape m.
Proof. intros m H. destruct (shape_ok_spec m H) as (_ & A & B). split; assumption. Qed.

Lemma session_inv : forall c ws junk c' sr,
  committed_inv c -> Forall wf_write ws -> session c ws junk = (c', sr) -> committed_inv c'.
Proof.
  intros c ws junk c' sr Ci W H. unfold session in H.
  destruct (open_write c) as [m| |] eqn:Eo; try (inversion H; subst; exact Ci).
  assert (I : inv m).
  { destruct c as [b|]; cbn in Eo.
    - destruct Ci as (m0 & U & I0). congruence.
    - apply Ok_inj in Eo. subst. exact inv_new. }
  pose proof (apply_writes_inv ws m I W) as I'.
  destruct (apply_writes m ws) as [m' oks]. cbn [fst] in I'.
  unfold close_write in H. destruct (marshal m' junk) as [b| |] eqn:Em; inversion H; subst; try exact Ci.
  cbn. exists m'. split; [|exact I']. eapply marshal_unmarshal; [apply I' | exact Em].
Qed.

Lemma history_inv : forall ss c cf srs,
  committed_inv c -> Forall wf_write (all_writes ss) -> history c ss = (cf, srs) -> committed_inv cf.
Proof.
  induction ss as [|[ws junk] r IH]; intros c cf srs Ci W H.
  - cbn in H. inversion H; subst. exact Ci.
  - cbn [history] in H. destruct (session c ws junk) as [c' sr] eqn:Es.
    destruct (history c' r) as [cf' srs'] eqn:Eh. inversion H; subst; clear H.
    unfold all_writes in W. cbn [map concat fst] in W. apply Forall_app in W. destruct W as [W1 W2].
    exact (IH _ _ _ (session_inv _ _ _ _ _ Ci W1 Es) W2 Eh).
Qed.

(* after ANY history (accepted or not), in the middle of a further session, a write that is not newer than a
   stored block is refused and the metadata of the session stays as it was *)
Theorem reject_write_history : forall ss cf srs m ws1 w t,
  history None ss = (cf, srs) -> Forall wf_write (all_writes ss) ->
  open_write cf = Ok m -> Forall wf_write ws1 ->
  let m1 := fst (apply_writes m ws1) in
  In t (timestamps m1) -> (w_ts w <= t)%Z ->
  write_blocks m1 w = Err /\ forall rest, fst (apply_writes m1 (w :: rest)) = fst (apply_writes m1 rest).
Proof.
  intros ss cf srs m ws1 w t H W Ho W1 m1 Hin Hle.
  assert (Ci : committed_inv cf) by (eapply (history_inv ss None); [exact Logic.I | exact W | exact H]).
  assert (I : inv m).
  { destruct cf as [b|]; cbn in Ho.
    - destruct Ci as (m0 & U & I0). congruence.
    - apply Ok_inj in Ho. subst. exact inv_new. }
  assert (I1 : inv m1) by (apply apply_writes_inv; assumption).
  pose proof (write_blocks_reject m1 w t I1 Hin Hle) as E.
  split; [exact E|]. intros rest. cbn [apply_writes]. rewrite E. destruct (apply_writes m1 rest). reflexivity.
Qed.

(* ------------------------------------------------------------------ Close rejects what the format cannot hold *)

Lemma concat_colblk_not_panic : forall l, concat_res (map marshal_colblk l) <> Panic.
Proof.
  induction l as [|b l IH]; cbn [map concat_res]; [discriminate|].
  unfold marshal_colblk at 1. destruct (_ || _)%bool; cbn [res_bind]; [discriminate|].
  destruct (concat_res (map marshal_colblk l)); cbn [res_bind]; congruence.
Qed.

Lemma concat_col_not_panic : forall l, concat_res (map marshal_col l) <> Panic.
Proof.
  induction l as [|c l IH]; cbn [map concat_res]; [discriminate|].
  unfold marshal_col at 1. pose proof (concat_colblk_not_panic (col_blocks c)) as P.
  destruct (concat_res (map marshal_colblk (col_blocks c))); cbn [res_bind]; try congruence.
  destruct (concat_res (map marshal_col l)); cbn [res_bind]; congruence.
Qed.

(* a block list the format cannot hold: a count above 2^32-1, or two consecutive blocks whose timestamps do not
   increase by 0 .. 2^32-1 seconds *)
Definition unrepresentable (bs : list blockinfo) : Prop :=
  (exists b, In b bs /\ (max_u32 < t_v4 (bi_traffic b) \/ max_u32 < t_v6 (bi_traffic b)
                          \/ max_u32 < t_drops (bi_traffic b)))
  \/ (exists i a b, nth_error bs i = Some a /\ nth_error bs (S i) = Some b
        /\ ((Z.of_N max_u32 < bi_ts b - bi_ts a < 2 ^ 64)%Z \/ (- 2 ^ 63 <= bi_ts b - bi_ts a < 0)%Z)).

Lemma Some_inj : forall (A : Type) (x y : A), Some x = Some y -> x = y.
Proof. intros A x y H. inversion H. reflexivity. Qed.

Lemma unrepr_not_repr : forall bs last, unrepresentable bs -> ~ repr_from last bs.
Proof.
  induction bs as [|a bs IH]; intros last U R.
  - destruct U as [(b & [] & _) | (i & a & b & H & _)]. destruct i; discriminate.
  - cbn [repr_from] in R. destruct R as (R1 & R2 & R3 & R4 & R5).
    destruct U as [(b & [->|Hin] & Hc) | (i & x & y & Hx & Hy & Hd)].
    + lia.
    + apply (IH (bi_ts a)); [left; eauto | exact R5].
    + destruct i as [|i].
      * cbn in Hx. apply Some_inj in Hx. subst x. destruct bs as [|b bs]; [discriminate|].
        cbn in Hy. apply Some_inj in Hy. subst y.
        cbn [repr_from] in R5. destruct R5 as (_ & _ & _ & Q & _).
        unfold i64, max_u32 in *. lia.
      * apply (IH (bi_ts a)); [right; exists i, x, y; auto | exact R5].
Qed.

Theorem marshal_rejects : forall m junk,
  shape_ok m = true -> unrepresentable (m_blocks m) -> marshal m junk = Err.
Proof.
  intros m junk S U. unfold marshal. rewrite S. cbn [negb].
  destruct (m_blocks m) as [|b0 bs] eqn:Eb.
  - exfalso. destruct U as [(b & [] & _) | (i & a & b & H & _)]. destruct i; discriminate.
  - pose proof (concat_col_not_panic (m_cols m)) as P.
    destruct (concat_res (map marshal_col (m_cols m))) as [cols| |]; cbn [res_bind]; try congruence.
    destruct (marshal_blocks_cases (b0 :: bs) (bi_ts b0)) as [(s & Hs & Hr) | (He & _)].
    + exfalso. exact (unrepr_not_repr _ _ U Hr).
    + rewrite He. reflexivity.
Qed.

(* a failing Close, or a session that cannot open the file, leaves `.blockmeta` as it was *)
Theorem failed_close_keeps_committed : forall c ws junk c' sr,
  session c ws junk = (c', sr) -> sr_close sr = false -> c' = c.
Proof.
  intros c ws junk c' sr H F. unfold session in H.
  destruct (open_write c) as [m0| |]; try (inversion H; reflexivity).
  destruct (apply_writes m0 ws) as [m' oks]. unfold close_write in H.
  destruct (marshal m' junk); inversion H; subst; try reflexivity. discriminate.
Qed.

(* a session that ends with unrepresentable metadata fails at Close and commits nothing *)
Theorem reject_close_session : forall c ws junk m,
  committed_inv c -> Forall wf_write ws -> open_write c = Ok m ->
  unrepresentable (m_blocks (fst (apply_writes m ws))) ->
  N.of_nat (length (m_blocks (fst (apply_writes m ws)))) < 2 ^ 64 ->
  exists oks, session c ws junk = (c, {| sr_open := true; sr_writes := oks; sr_close := false |}).
Proof.
  intros c ws junk m Ci W Ho U Hn. unfold session. rewrite Ho.
  assert (I : inv m).
  { destruct c as [b|]; cbn in Ho.
    - destruct Ci as (m0 & U0 & I0). congruence.
    - apply Ok_inj in Ho. subst. exact inv_new. }
  pose proof (apply_writes_inv ws m I W) as I'.
  destruct (apply_writes m ws) as [m' oks]. cbn [fst] in *.
  assert (S : shape_ok m' = true).
  { destruct I' as (_ & (S1 & S2) & _). unfold shape_ok.
    apply andb_true_intro. split; [apply andb_true_intro; split; lia|].
    apply forallb_forall. intros x Hx. rewrite Forall_forall in S2. specialize (S2 x Hx). lia. }
  unfold close_write. rewrite (marshal_rejects m' junk S U). eauto.
Qed.
