(* C03 model: the day metadata (`.blockmeta`) of a goDB day directory.
   Executable definitions only (no proofs).  Mirrors, after the two `fix:` commits of branch verif-C03,
     pkg/goDB/storage/gpfile/gpdir.go   GPDir.Marshal / GPDir.Unmarshal / GPDir.WriteBlocks / Close
     pkg/goDB/storage/gpfile/gpfile.go  GPFile.writeBlock (header update only: Len, RawLen, EncoderType, CurrentOffset)
     pkg/goDB/storage/storage.go        BlockHeader / BlockAtTime
   Bytes are `list N`; uint64/uint32/int64 wrap-around is explicit.  Reused by other storage properties. *)
From Coq Require Import List ZArith NArith Bool.
From GoProbe.Base Require Import CorrLib.
Import ListNotations.
Open Scope N_scope.

Definition bytes := list N.

(* ------------------------------------------------------------------ fixed-width integers *)

Definition u64 (x : N) : N := x mod 2 ^ 64.
Definition u32 (x : N) : N := x mod 2 ^ 32.
Definition max_u32 : N := 4294967295.                       (* maxUint32 = 1<<32 - 1 *)

(* int64 wrap-around of a mathematical integer *)
Definition i64 (z : Z) : Z := ((z + 2 ^ 63) mod 2 ^ 64 - 2 ^ 63)%Z.
(* uint64(int64) and int64(uint64) conversions *)
Definition u64_of_i64 (z : Z) : N := Z.to_N (z mod 2 ^ 64)%Z.
Definition i64_of_u64 (n : N) : Z := i64 (Z.of_N n).
(* uint32(int64) *)
Definition u32_of_i64 (z : Z) : N := Z.to_N (z mod 2 ^ 32)%Z.

(* binary.BigEndian.PutUintNN : k bytes, most significant first (implicitly truncates to 8k bits) *)
Fixpoint be_enc (k : nat) (x : N) : bytes :=
  match k with
  | O => []
  | S k' => (x / 256 ^ N.of_nat k') mod 256 :: be_enc k' x
  end.
(* binary.BigEndian.UintNN *)
Definition be_dec (l : bytes) : N := fold_left (fun a b => a * 256 + b) l 0.

Definition be64 := be_enc 8.
Definition be32 := be_enc 4.

(* ------------------------------------------------------------------ the metadata record *)

(* TrafficMetadata (uint64 fields) *)
Record traffic := { t_v4 : N; t_v6 : N; t_drops : N }.
(* types.Counters (uint64 fields) *)
Record counters := { c_br : N; c_bs : N; c_pr : N; c_ps : N }.
(* storage.Block without Offset (Offset is recomputed from the lengths on every Unmarshal): Len, RawLen uint32,
   EncoderType uint8 *)
Record colblk := { cb_len : N; cb_raw : N; cb_enc : N }.
(* storage.BlockHeader of one column: CurrentOffset (uint64) and the block list *)
Record column := { col_cur : N; col_blocks : list colblk }.
(* per block: timestamp (int64; identical in all columns, Marshal uses column 0) and BlockTraffic[i] *)
Record blockinfo := { bi_ts : Z; bi_traffic : traffic }.
(* gpfile.Metadata *)
Record meta := {
  m_version : N;
  m_cols : list column;            (* BlockMetadata[0..ColIdxCount) *)
  m_blocks : list blockinfo;       (* BlockTraffic zipped with BlockMetadata[0].BlockList[*].Timestamp *)
  m_traffic : traffic;             (* Stats.Traffic : day totals *)
  m_counts : counters }.           (* Stats.Counts  : day totals *)

Definition ncols : nat := 8.                                 (* types.ColIdxCount *)
Definition header_size : N := 72.                            (* metadataHeaderSize *)
Definition min_size : N := 144.                              (* minMetadataFileSize = 72 + 8*8 + 8 *)
Definition per_block : N := 88.                              (* metadataPerBlockSize = 8*9 + 16 *)
Definition header_version : N := 1.
Definition enc_null : N := 1.                                (* encoders.EncoderTypeNull *)

(* newMetadata() *)
Definition new_meta : meta :=
  {| m_version := header_version;
     m_cols := repeat {| col_cur := 0; col_blocks := [] |} ncols;
     m_blocks := [];
     m_traffic := {| t_v4 := 0; t_v6 := 0; t_drops := 0 |};
     m_counts := {| c_br := 0; c_bs := 0; c_pr := 0; c_ps := 0 |} |}.

(* Block.Offset as Unmarshal reconstructs it: running sum (uint64) of the on-disk lengths *)
Fixpoint col_offsets_from (off : N) (bs : list colblk) : list N :=
  match bs with
  | [] => []
  | b :: r => off :: col_offsets_from (u64 (off + cb_len b)) r
  end.
Definition col_offsets (c : column) : list N := col_offsets_from 0 (col_blocks c).

Definition timestamps (m : meta) : list Z := map bi_ts (m_blocks m).

(* ------------------------------------------------------------------ Marshal *)

(* result accumulation for the marshal loops *)
Fixpoint concat_res (l : list (res bytes)) : res bytes :=
  match l with
  | [] => Ok []
  | x :: r => res_bind x (fun a => res_bind (concat_res r) (fun b => Ok (a ++ b)))
  end.

(* one block descriptor of a column (9 bytes); the range check is the one in the code, it cannot fire for
   uint32 fields *)
Definition marshal_colblk (b : colblk) : res bytes :=
  if (max_u32 <? cb_len b) || (max_u32 <? cb_raw b) then Err
  else Ok (be32 (cb_len b) ++ be32 (cb_raw b) ++ be_enc 1 (cb_enc b)).

Definition marshal_col (c : column) : res bytes :=
  res_bind (concat_res (map marshal_colblk (col_blocks c))) (fun bs => Ok (be64 (col_cur c) ++ bs)).

(* per-block traffic and timestamp delta (16 bytes each); `last` is lastTimestamp *)
Fixpoint marshal_blocks (last : Z) (bs : list blockinfo) : res bytes :=
  match bs with
  | [] => Ok []
  | b :: r =>
    let d := i64 (bi_ts b - last) in                          (* int64 subtraction *)
    if (max_u32 <? t_v4 (bi_traffic b)) || (max_u32 <? t_v6 (bi_traffic b)) || (max_u32 <? t_drops (bi_traffic b))
       || (d <? 0)%Z || (Z.of_N max_u32 <? d)%Z
    then Err
    else res_bind (marshal_blocks (bi_ts b) r) (fun rest =>
           Ok (be32 (t_v4 (bi_traffic b)) ++ be32 (t_v6 (bi_traffic b)) ++ be32 (t_drops (bi_traffic b))
               ++ be32 (u32_of_i64 d) ++ rest))
  end.

Definition marshal_header (m : meta) : bytes :=
  be64 (m_version m) ++ be64 (N.of_nat (length (m_blocks m)))
  ++ be64 (t_v4 (m_traffic m)) ++ be64 (t_v6 (m_traffic m)) ++ be64 (t_drops (m_traffic m))
  ++ be64 (c_br (m_counts m)) ++ be64 (c_bs (m_counts m)) ++ be64 (c_pr (m_counts m)) ++ be64 (c_ps (m_counts m)).

(* shape of a metadata value as every code path (newMetadata, Unmarshal, WriteBlocks) produces it: ColIdxCount
   columns, each with one descriptor per block *)
Definition shape_ok (m : meta) : bool :=
  (N.of_nat (length (m_blocks m)) <? 2 ^ 64)                 (* a Go slice length is an int *)
  && (length (m_cols m) =? ncols)%nat
  && forallb (fun c => (length (col_blocks c) =? length (m_blocks m))%nat) (m_cols m).

(* the pooled buffer: `metaDataMemPool.Get(size)` returns `size` bytes of arbitrary previous content *)
Definition pool_buffer (size : nat) (junk : bytes) : bytes := firstn size (junk ++ repeat 0 size).
(* sequential writes from position 0 over the buffer *)
Definition overlay (written buf : bytes) : bytes := written ++ skipn (length written) buf.

(* GPDir.Marshal: the bytes handed to w.Write.  `junk` is the previous content of the pooled buffer.
   A value violating shape_ok is answered with Panic (the Go code would index past a block list or write past
   the computed size; not reachable, see Proofs). *)
Definition marshal (m : meta) (junk : bytes) : res bytes :=
  let n := length (m_blocks m) in
  let size := (144 + 88 * n)%nat in
  let buf := pool_buffer size junk in
  if negb (shape_ok m) then Panic else
  match m_blocks m with
  | [] => Ok (overlay (marshal_header m ++ repeat 0 (size - 72)) buf)       (* clear(data[pos:]) *)
  | b0 :: _ =>
    res_bind (concat_res (map marshal_col (m_cols m))) (fun cols =>
    res_bind (marshal_blocks (bi_ts b0) (m_blocks m)) (fun blocks =>
      Ok (overlay (marshal_header m ++ cols ++ be64 (u64_of_i64 (bi_ts b0)) ++ blocks) buf)))
  end.

(* ------------------------------------------------------------------ Unmarshal *)

(* data[pos:pos+k] : Panic when the slice would pass the end of the data (the model is stricter than Go,
   which only panics past the capacity for slice expressions) *)
Definition get_be (k : nat) (l : bytes) : res (N * bytes) :=
  if (k <=? length l)%nat then Ok (be_dec (firstn k l), skipn k l) else Panic.

Definition bindp {A B} (r : res (A * bytes)) (f : A -> bytes -> res B) : res B :=
  match r with Ok (a, l) => f a l | Err => Err | Panic => Panic end.

Fixpoint read_colblocks (n : nat) (l : bytes) : res (list colblk * bytes) :=
  match n with
  | O => Ok ([], l)
  | S k =>
    bindp (get_be 4 l) (fun len l1 =>
    bindp (get_be 4 l1) (fun raw l2 =>
    bindp (get_be 1 l2) (fun enc l3 =>
    bindp (read_colblocks k l3) (fun bs l4 =>
      Ok ({| cb_len := len; cb_raw := raw; cb_enc := enc |} :: bs, l4)))))
  end.

Fixpoint read_cols (c n : nat) (l : bytes) : res (list column * bytes) :=
  match c with
  | O => Ok ([], l)
  | S c' =>
    bindp (get_be 8 l) (fun cur l1 =>
    bindp (read_colblocks n l1) (fun bs l2 =>
    bindp (read_cols c' n l2) (fun cs l3 =>
      Ok ({| col_cur := cur; col_blocks := bs |} :: cs, l3))))
  end.

Fixpoint read_blocks (n : nat) (last : Z) (l : bytes) : res (list blockinfo * bytes) :=
  match n with
  | O => Ok ([], l)
  | S k =>
    bindp (get_be 4 l) (fun v4 l1 =>
    bindp (get_be 4 l1) (fun v6 l2 =>
    bindp (get_be 4 l2) (fun dr l3 =>
    bindp (get_be 4 l3) (fun d l4 =>
      let ts := i64 (last + Z.of_N d) in                      (* int64 addition *)
      bindp (read_blocks k ts l4) (fun bs l5 =>
        Ok ({| bi_ts := ts; bi_traffic := {| t_v4 := v4; t_v6 := v6; t_drops := dr |} |} :: bs, l5))))))
  end.

(* GPDir.Unmarshal on the content of the file *)
Definition unmarshal (data : bytes) : res meta :=
  let len := N.of_nat (length data) in
  if len <? min_size then Err else
  bindp (get_be 8 data) (fun version l1 =>
  bindp (get_be 8 l1) (fun nb l2 =>
  if (len - min_size) / per_block <? nb then Err else
  bindp (get_be 8 l2) (fun v4 l3 =>
  bindp (get_be 8 l3) (fun v6 l4 =>
  bindp (get_be 8 l4) (fun dr l5 =>
  bindp (get_be 8 l5) (fun br l6 =>
  bindp (get_be 8 l6) (fun bs l7 =>
  bindp (get_be 8 l7) (fun pr l8 =>
  bindp (get_be 8 l8) (fun ps l9 =>
  bindp (read_cols ncols (N.to_nat nb) l9) (fun cols l10 =>
  bindp (get_be 8 l10) (fun ts0 l11 =>
  bindp (read_blocks (N.to_nat nb) (i64_of_u64 ts0) l11) (fun blocks _ =>
    Ok {| m_version := version; m_cols := cols; m_blocks := blocks;
          m_traffic := {| t_v4 := v4; t_v6 := v6; t_drops := dr |};
          m_counts := {| c_br := br; c_bs := bs; c_pr := pr; c_ps := ps |} |})))))))))))).

(* ------------------------------------------------------------------ the write-history layer *)

(* what GPFile.writeBlock did for one column: bytes written by the encoder (nWritten), len(blockData) and the
   encoder type recorded.  The encoders are outside this model. *)
Record colwrite := { cw_written : N; cw_raw : N; cw_enc : N }.
(* one GPDir.WriteBlocks call *)
Record write := { w_ts : Z; w_traffic : traffic; w_counts : counters; w_cols : list colwrite }.

Definition traffic_add (a b : traffic) : traffic :=
  {| t_v4 := u64 (t_v4 a + t_v4 b); t_v6 := u64 (t_v6 a + t_v6 b); t_drops := u64 (t_drops a + t_drops b) |}.
Definition counters_add (a b : counters) : counters :=
  {| c_br := u64 (c_br a + c_br b); c_bs := u64 (c_bs a + c_bs b);
     c_pr := u64 (c_pr a + c_pr b); c_ps := u64 (c_ps a + c_ps b) |}.

(* header update of GPFile.writeBlock *)
Definition add_colblock (c : column) (w : colwrite) : column :=
  if cw_raw w =? 0
  then {| col_cur := col_cur c;
          col_blocks := col_blocks c ++ [{| cb_len := 0; cb_raw := 0; cb_enc := enc_null |}] |}
  else {| col_cur := u64 (col_cur c + cw_written w);
          col_blocks := col_blocks c ++ [{| cb_len := u32 (cw_written w); cb_raw := u32 (cw_raw w);
                                            cb_enc := cw_enc w |}] |}.

Fixpoint map2 {A B C} (f : A -> B -> C) (l1 : list A) (l2 : list B) : list C :=
  match l1, l2 with
  | a :: r1, b :: r2 => f a b :: map2 f r1 r2
  | _, _ => []
  end.

Definition last_ts (m : meta) : option Z :=
  match rev (m_blocks m) with
  | b :: _ => Some (bi_ts b)
  | [] => None
  end.

(* GPDir.WriteBlocks on an open writer: Err leaves the metadata untouched (both checks precede every update) *)
Definition write_blocks (m : meta) (w : write) : res meta :=
  if negb (length (w_cols w) =? ncols)%nat then Err else       (* dbData is a [ColIdxCount][]byte *)
  if match last_ts m with Some l => (w_ts w <=? l)%Z | None => false end then Err   (* ErrTimestampNotIncreasing *)
  else if existsb (Z.eqb (w_ts w)) (timestamps m) then Err    (* writeBlock: timestamp already present *)
  else Ok {| m_version := m_version m;
             m_cols := map2 add_colblock (m_cols m) (w_cols w);
             m_blocks := m_blocks m ++ [{| bi_ts := w_ts w; bi_traffic := w_traffic w |}];
             m_traffic := traffic_add (m_traffic m) (w_traffic w);
             m_counts := counters_add (m_counts m) (w_counts w) |}.

(* a writer session on one day: Open (absent file -> new metadata), WriteBlocks*, Close (Marshal into a
   temporary file, renamed over `.blockmeta` only on success) *)
Definition open_write (committed : option bytes) : res meta :=
  match committed with
  | None => Ok new_meta
  | Some b => unmarshal b
  end.

Fixpoint apply_writes (m : meta) (ws : list write) : meta * list bool :=
  match ws with
  | [] => (m, [])
  | w :: r =>
    match write_blocks m w with
    | Ok m' => let (mf, oks) := apply_writes m' r in (mf, true :: oks)
    | _ => let (mf, oks) := apply_writes m r in (mf, false :: oks)
    end
  end.

Definition close_write (committed : option bytes) (m : meta) (junk : bytes) : option bytes * bool :=
  match marshal m junk with
  | Ok b => (Some b, true)
  | _ => (committed, false)
  end.

Record session_result := { sr_open : bool; sr_writes : list bool; sr_close : bool }.

Definition session_ok (r : session_result) : bool := sr_open r && forallb (fun b => b) (sr_writes r) && sr_close r.

Definition session (committed : option bytes) (ws : list write) (junk : bytes) : option bytes * session_result :=
  match open_write committed with
  | Ok m =>
    let (m', oks) := apply_writes m ws in
    let (c', ok) := close_write committed m' junk in
    (c', {| sr_open := true; sr_writes := oks; sr_close := ok |})
  | _ => (committed, {| sr_open := false; sr_writes := []; sr_close := false |})
  end.

(* a history: writer sessions on the same day, each with the junk its Marshal buffer happened to contain *)
Fixpoint history (committed : option bytes) (ss : list (list write * bytes)) : option bytes * list session_result :=
  match ss with
  | [] => (committed, [])
  | (ws, junk) :: r =>
    let (c', sr) := session committed ws junk in
    let (cf, srs) := history c' r in
    (cf, sr :: srs)
  end.

(* reopening the day for reading: Open in read mode needs the file *)
Definition reopen (committed : option bytes) : res meta :=
  match committed with
  | None => Err
  | Some b => unmarshal b
  end.

(* ------------------------------------------------------------------ decidable equality (for Corr) *)

Definition traffic_eqb (a b : traffic) : bool :=
  (t_v4 a =? t_v4 b) && (t_v6 a =? t_v6 b) && (t_drops a =? t_drops b).
Definition counters_eqb (a b : counters) : bool :=
  (c_br a =? c_br b) && (c_bs a =? c_bs b) && (c_pr a =? c_pr b) && (c_ps a =? c_ps b).
Definition colblk_eqb (a b : colblk) : bool :=
  (cb_len a =? cb_len b) && (cb_raw a =? cb_raw b) && (cb_enc a =? cb_enc b).
Fixpoint list_eqb {A} (eqb : A -> A -> bool) (l1 l2 : list A) : bool :=
  match l1, l2 with
  | [], [] => true
  | a :: r1, b :: r2 => eqb a b && list_eqb eqb r1 r2
  | _, _ => false
  end.
Definition column_eqb (a b : column) : bool :=
  (col_cur a =? col_cur b) && list_eqb colblk_eqb (col_blocks a) (col_blocks b).
Definition blockinfo_eqb (a b : blockinfo) : bool :=
  (bi_ts a =? bi_ts b)%Z && traffic_eqb (bi_traffic a) (bi_traffic b).
Definition meta_eqb (a b : meta) : bool :=
  (m_version a =? m_version b) && list_eqb column_eqb (m_cols a) (m_cols b)
  && list_eqb blockinfo_eqb (m_blocks a) (m_blocks b)
  && traffic_eqb (m_traffic a) (m_traffic b) && counters_eqb (m_counts a) (m_counts b).
