(* C03 proofs, part 1: byte codec, Marshal/Unmarshal round trip, totality of Unmarshal. *)
From Coq Require Import List ZArith NArith Bool Lia ZifyBool ZifyNat ZifyN.
From GoProbe.Base Require Import CorrLib.
From GoProbe.C03 Require Import Model.
Import ListNotations.
Open Scope N_scope.

Lemma Ok_inj : forall (A : Type) (x y : A), Ok x = Ok y -> x = y.
Proof. intros A x y H. inversion H. reflexivity. Qed.

(* ------------------------------------------------------------------ big-endian codec *)

Lemma be_enc_length : forall k x, length (be_enc k x) = k.
Proof. induction k; intros; cbn [be_enc length]; auto. Qed.

Lemma be_dec_acc : forall l a,
  fold_left (fun a b => a * 256 + b) l a = a * 256 ^ N.of_nat (length l) + be_dec l.
Proof.
  unfold be_dec. induction l as [|b l IH]; intros a.
  - cbn. lia.
  - cbn [fold_left length]. rewrite IH. rewrite (IH (0 * 256 + b)).
    rewrite Nat2N.inj_succ, N.pow_succ_r'. lia.
Qed.

Lemma be_dec_enc : forall k x, be_dec (be_enc k x) = x mod 256 ^ N.of_nat k.
Proof.
  induction k; intros x.
  - cbn. now rewrite N.mod_1_r.
  - cbn [be_enc]. unfold be_dec. cbn [fold_left]. rewrite be_dec_acc, IHk, be_enc_length.
    rewrite Nat2N.inj_succ, N.pow_succ_r'.
    assert (H : 256 ^ N.of_nat k <> 0) by (apply N.pow_nonzero; lia).
    rewrite (N.mul_comm 256), N.mod_mul_r by lia. lia.
Qed.

Lemma get_be_ok : forall k l, (k <= length l)%nat -> get_be k l = Ok (be_dec (firstn k l), skipn k l).
Proof. intros k l H. unfold get_be. destruct (Nat.leb_spec k (length l)); [reflexivity | lia]. Qed.

Lemma get_be_enc : forall k x r, get_be k (be_enc k x ++ r) = Ok (x mod 256 ^ N.of_nat k, r).
Proof.
  intros. rewrite get_be_ok by (rewrite app_length, be_enc_length; lia).
  pose proof (be_enc_length k x) as L.
  rewrite firstn_app, skipn_app, L, Nat.sub_diag. cbn [firstn skipn].
  rewrite firstn_all2, skipn_all2 by lia. rewrite app_nil_r. cbn [app]. now rewrite be_dec_enc.
Qed.

Lemma get_be_enc_small : forall k x r, x < 256 ^ N.of_nat k -> get_be k (be_enc k x ++ r) = Ok (x, r).
Proof. intros. rewrite get_be_enc. now rewrite N.mod_small. Qed.

(* ------------------------------------------------------------------ int64 arithmetic *)

Definition in_i64 (z : Z) : Prop := (- 2 ^ 63 <= z < 2 ^ 63)%Z.

Lemma i64_id : forall z, in_i64 z -> i64 z = z.
Proof. unfold in_i64, i64. intros. Ltac Zify.zify_post_hook ::= Z.div_mod_to_equations. lia. Qed.

Lemma i64_range : forall z, in_i64 (i64 z).
Proof. unfold in_i64, i64. intros. lia. Qed.

Lemma i64_of_u64_of_i64 : forall z, in_i64 z -> i64_of_u64 (u64_of_i64 z) = z.
Proof.
  unfold in_i64, i64_of_u64, u64_of_i64, i64. intros z H.
  rewrite Z2N.id by (apply Z.mod_pos_bound; lia). lia.
Qed.

Lemma u64_of_i64_lt : forall z, u64_of_i64 z < 2 ^ 64.
Proof.
  intros. unfold u64_of_i64.
  assert (0 <= z mod 2 ^ 64 < 2 ^ 64)%Z by (apply Z.mod_pos_bound; lia). lia.
Qed.

(* delta decoding: last + uint32(delta) is the timestamp again *)
Lemma delta_back : forall ts last,
  in_i64 ts -> in_i64 last -> (0 <= i64 (ts - last) <= Z.of_N max_u32)%Z ->
  i64 (last + Z.of_N (u32_of_i64 (i64 (ts - last)))) = ts /\ u32_of_i64 (i64 (ts - last)) < 256 ^ 4.
Proof.
  unfold in_i64, u32_of_i64, max_u32. intros ts last Ht Hl Hd.
  set (d := i64 (ts - last)) in *.
  assert (Hm : (d mod 2 ^ 32 = d)%Z) by (apply Z.mod_small; lia).
  rewrite Hm. rewrite Z2N.id by lia. split; [|lia].
  subst d. unfold i64 in *. lia.
Qed.

(* ------------------------------------------------------------------ lengths of the marshalled pieces *)

Lemma concat_res_cons : forall x r s,
  concat_res (x :: r) = Ok s -> exists a b, x = Ok a /\ concat_res r = Ok b /\ s = a ++ b.
Proof.
  intros x r s H. cbn [concat_res] in H. destruct x as [a| |]; cbn in H; try discriminate.
  destruct (concat_res r) as [b| |]; cbn in H; try discriminate. inversion H. eauto.
Qed.

Lemma marshal_colblk_ok : forall b s, marshal_colblk b = Ok s ->
  cb_len b < 256 ^ 4 /\ cb_raw b < 256 ^ 4 /\ s = be32 (cb_len b) ++ be32 (cb_raw b) ++ be_enc 1 (cb_enc b).
Proof.
  unfold marshal_colblk, max_u32. intros b s H.
  destruct (4294967295 <? cb_len b) eqn:E1; destruct (4294967295 <? cb_raw b) eqn:E2; cbn in H; try discriminate.
  inversion H. repeat split; lia.
Qed.

(* well-formed field ranges that the Go types guarantee *)
Definition wf_colblk (b : colblk) : Prop := cb_enc b < 256.
Definition wf_column (c : column) : Prop := col_cur c < 2 ^ 64 /\ Forall wf_colblk (col_blocks c).
Definition wf_traffic (t : traffic) : Prop := t_v4 t < 2 ^ 64 /\ t_v6 t < 2 ^ 64 /\ t_drops t < 2 ^ 64.
Definition wf_counters (c : counters) : Prop :=
  c_br c < 2 ^ 64 /\ c_bs c < 2 ^ 64 /\ c_pr c < 2 ^ 64 /\ c_ps c < 2 ^ 64.
Definition wf_meta (m : meta) : Prop :=
  m_version m < 2 ^ 64 /\ Forall wf_column (m_cols m) /\ Forall (fun b => in_i64 (bi_ts b)) (m_blocks m)
  /\ wf_traffic (m_traffic m) /\ wf_counters (m_counts m)
  /\ (m_blocks m = [] -> Forall (fun c => col_cur c = 0) (m_cols m)).

Lemma read_colblocks_marshal : forall bs s r,
  concat_res (map marshal_colblk bs) = Ok s -> Forall wf_colblk bs ->
  read_colblocks (length bs) (s ++ r) = Ok (bs, r) /\ length s = (9 * length bs)%nat.
Proof.
  induction bs as [|b bs IH]; intros s r H W.
  - cbn in H. inversion H. cbn. auto.
  - cbn [map] in H. apply concat_res_cons in H. destruct H as (a & t & Ha & Ht & ->).
    apply marshal_colblk_ok in Ha. destruct Ha as (L1 & L2 & ->).
    inversion W as [|? ? Wb Wr]; subst. destruct (IH t r Ht Wr) as [IH1 IH2].
    split.
    + cbn [length read_colblocks]. unfold be32. rewrite <- !app_assoc.
      rewrite get_be_enc_small by assumption. cbn [bindp].
      rewrite get_be_enc_small by assumption. cbn [bindp].
      rewrite get_be_enc_small by (unfold wf_colblk in Wb; cbn; lia). cbn [bindp].
      rewrite IH1. cbn [bindp]. destruct b; reflexivity.
    + rewrite !app_length. unfold be32. rewrite !be_enc_length, IH2. cbn [length]. lia.
Qed.

Lemma read_cols_marshal : forall cs n s r,
  concat_res (map marshal_col cs) = Ok s -> Forall wf_column cs ->
  Forall (fun c => length (col_blocks c) = n) cs ->
  read_cols (length cs) n (s ++ r) = Ok (cs, r) /\ length s = (length cs * (8 + 9 * n))%nat.
Proof.
  induction cs as [|c cs IH]; intros n s r H W S.
  - cbn in H. inversion H. cbn. auto.
  - cbn [map] in H. apply concat_res_cons in H. destruct H as (a & t & Ha & Ht & ->).
    unfold marshal_col in Ha.
    destruct (concat_res (map marshal_colblk (col_blocks c))) as [bs| |] eqn:Ec; cbn [res_bind] in Ha;
      try discriminate.
    apply Ok_inj in Ha. subst a.
    inversion W as [|? ? [Wc1 Wc2] Wr]; subst. inversion S as [|? ? Sc Sr]; subst.
    destruct (IH _ t r Ht Wr Sr) as [IH1 IH2].
    destruct (read_colblocks_marshal _ _ (t ++ r) Ec Wc2) as [R1 R2].
    split.
    + cbn [length read_cols]. unfold be64. rewrite <- !app_assoc.
      rewrite get_be_enc_small by (cbn; lia). cbn [bindp].
      rewrite R1. cbn [bindp]. rewrite IH1. cbn [bindp]. destruct c; reflexivity.
    + rewrite !app_length. unfold be64. rewrite be_enc_length, R2, IH2. cbn [length]. lia.
Qed.

(* what makes a block list representable: exactly the range checks of Marshal *)
Fixpoint repr_from (last : Z) (bs : list blockinfo) : Prop :=
  match bs with
  | [] => True
  | b :: r =>
    t_v4 (bi_traffic b) <= max_u32 /\ t_v6 (bi_traffic b) <= max_u32 /\ t_drops (bi_traffic b) <= max_u32
    /\ (0 <= i64 (bi_ts b - last) <= Z.of_N max_u32)%Z /\ repr_from (bi_ts b) r
  end.

Lemma marshal_blocks_cases : forall bs last,
  (exists s, marshal_blocks last bs = Ok s /\ repr_from last bs) \/
  (marshal_blocks last bs = Err /\ ~ repr_from last bs).
Proof.
  induction bs as [|b bs IH]; intros last.
  - left. exists []. cbn. auto.
  - cbn [marshal_blocks repr_from].
    assert (F : forall P : Prop, (P -> False) -> ~ P) by (intros P HP; exact HP).
    destruct (max_u32 <? t_v4 (bi_traffic b)) eqn:E1;
      [right; split; [reflexivity | apply F; intros (A1 & A2 & A3 & A4 & A5); lia]|].
    destruct (max_u32 <? t_v6 (bi_traffic b)) eqn:E2;
      [right; split; [reflexivity | apply F; intros (A1 & A2 & A3 & A4 & A5); lia]|].
    destruct (max_u32 <? t_drops (bi_traffic b)) eqn:E3;
      [right; split; [reflexivity | apply F; intros (A1 & A2 & A3 & A4 & A5); lia]|].
    destruct (i64 (bi_ts b - last) <? 0)%Z eqn:E4;
      [right; split; [reflexivity | apply F; intros (A1 & A2 & A3 & A4 & A5); lia]|].
    destruct (Z.of_N max_u32 <? i64 (bi_ts b - last))%Z eqn:E5;
      [right; split; [reflexivity | apply F; intros (A1 & A2 & A3 & A4 & A5); lia]|].
    cbn [orb]. destruct (IH (bi_ts b)) as [(s & Hs & Hr) | (He & Hn)].
    + left. rewrite Hs. cbn [res_bind]. eexists. split; [reflexivity|]. repeat split; try lia. assumption.
    + right. rewrite He. cbn. split; [reflexivity|]. tauto.
Qed.

Lemma read_blocks_marshal : forall bs last s r,
  marshal_blocks last bs = Ok s -> in_i64 last -> Forall (fun b => in_i64 (bi_ts b)) bs ->
  read_blocks (length bs) last (s ++ r) = Ok (bs, r) /\ length s = (16 * length bs)%nat.
Proof.
  induction bs as [|b bs IH]; intros last s r H Hl W.
  - cbn in H. inversion H. cbn. auto.
  - inversion W as [|? ? Wb Wr]; subst.
    destruct (marshal_blocks_cases (b :: bs) last) as [(s' & Hs & Hr) | (He & _)]; [|congruence].
    cbn [repr_from] in Hr. destruct Hr as (R1 & R2 & R3 & R4 & _).
    cbn [marshal_blocks] in H.
    destruct (_ || _ || _ || _ || _)%bool; [discriminate|].
    destruct (marshal_blocks (bi_ts b) bs) as [t| |] eqn:Et; cbn [res_bind] in H; try discriminate.
    apply Ok_inj in H. subst s.
    destruct (IH _ t r Et Wb Wr) as [IH1 IH2].
    destruct (delta_back _ _ Wb Hl R4) as [D1 D2].
    unfold max_u32 in *.
    split.
    + cbn [length read_blocks]. unfold be32. rewrite <- !app_assoc.
      rewrite get_be_enc_small by (cbn; lia). cbn [bindp].
      rewrite get_be_enc_small by (cbn; lia). cbn [bindp].
      rewrite get_be_enc_small by (cbn; lia). cbn [bindp].
      rewrite get_be_enc_small by assumption. cbn [bindp].
      rewrite D1, IH1. cbn [bindp]. destruct b as [ts [? ? ?]]; reflexivity.
    + rewrite !app_length. unfold be32. rewrite !be_enc_length, IH2. cbn [length]. lia.
Qed.

(* ------------------------------------------------------------------ shape *)

Lemma shape_ok_spec : forall m, shape_ok m = true ->
  N.of_nat (length (m_blocks m)) < 2 ^ 64 /\ length (m_cols m) = ncols
  /\ Forall (fun c => length (col_blocks c) = length (m_blocks m)) (m_cols m).
Proof.
  unfold shape_ok. intros m H. apply andb_prop in H. destruct H as [H H3]. apply andb_prop in H.
  destruct H as [H1 H2]. repeat split; try lia.
  rewrite forallb_forall in H3. apply Forall_forall. intros c Hc. specialize (H3 c Hc). lia.
Qed.

Lemma marshal_header_length : forall m, length (marshal_header m) = 72%nat.
Proof. intros. unfold marshal_header, be64. rewrite !app_length, !be_enc_length. reflexivity. Qed.

Lemma pool_buffer_length : forall size junk, length (pool_buffer size junk) = size.
Proof.
  intros. unfold pool_buffer. rewrite firstn_length, app_length, repeat_length. lia.
Qed.

Lemma overlay_full : forall w size junk, length w = size -> overlay w (pool_buffer size junk) = w.
Proof.
  intros. unfold overlay. rewrite skipn_all2 by (rewrite pool_buffer_length; lia). apply app_nil_r.
Qed.

Ltac hdr_step := rewrite get_be_enc_small by (cbn; lia); cbn [bindp].

(* ------------------------------------------------------------------ Unmarshal (Marshal m) = m *)

Lemma Forall_eq_repeat : forall (A : Type) (x : A) l, Forall (fun c => c = x) l -> l = repeat x (length l).
Proof. induction 1; cbn; [reflexivity|]. subst. now f_equal. Qed.

Lemma size_div : forall n : nat, (N.of_nat (144 + 88 * n) - min_size) / per_block = N.of_nat n.
Proof.
  intros. unfold min_size, per_block.
  replace (N.of_nat (144 + 88 * n) - 144) with (N.of_nat n * 88) by lia.
  apply N.div_mul. lia.
Qed.

Theorem marshal_unmarshal : forall m junk b, wf_meta m -> marshal m junk = Ok b -> unmarshal b = Ok m.
Proof.
  intros m junk b W H. unfold marshal in H.
  destruct (shape_ok m) eqn:S; cbn [negb] in H; [|discriminate].
  destruct (shape_ok_spec _ S) as (Hn & Hc & Hs).
  pose proof W as (Wv & Wc & Wt & (T1 & T2 & T3) & (C1 & C2 & C3 & C4) & We).
  destruct (m_blocks m) as [|b0 bs] eqn:Eb.
  - (* a day without blocks *)
    apply Ok_inj in H.
    rewrite overlay_full in H by (rewrite app_length, marshal_header_length, repeat_length; reflexivity).
    subst b. unfold unmarshal. cbv zeta.
    rewrite app_length, marshal_header_length, repeat_length.
    change (N.of_nat (72 + (144 + 88 * length (@nil blockinfo) - 72)) <? min_size) with false. cbv iota.
    unfold marshal_header, be64. rewrite Eb. cbn [length]. change (N.of_nat 0) with 0. rewrite <- !app_assoc.
    hdr_step. hdr_step.
    change ((N.of_nat (72 + (144 + 88 * 0 - 72)) - min_size) / per_block <? 0) with false. cbv iota.
    do 7 hdr_step.
    change (N.to_nat 0) with 0%nat.
    assert (Ecols : m_cols m = repeat {| col_cur := 0; col_blocks := [] |} ncols).
    { rewrite <- Hc. apply Forall_eq_repeat. specialize (We eq_refl).
      rewrite Forall_forall in *. intros c Hin. specialize (We c Hin). specialize (Hs c Hin).
      destruct c as [cur bl]. cbn in *. subst cur. destruct bl; [reflexivity|discriminate]. }
    vm_compute (read_cols ncols 0 _). cbn [bindp].
    vm_compute (get_be 8 _). cbn [bindp].
    cbn [read_blocks bindp].
    destruct m as [v cols blocks tr cn]. cbn in *. subst. destruct tr, cn. reflexivity.
  - (* at least one block *)
    remember (length (b0 :: bs)) as n eqn:En.
    destruct (concat_res (map marshal_col (m_cols m))) as [cols| |] eqn:Ecols; cbn [res_bind] in H; try discriminate.
    destruct (marshal_blocks (bi_ts b0) (b0 :: bs)) as [blks| |] eqn:Eblks; cbn [res_bind] in H; try discriminate.
    apply Ok_inj in H.
    assert (Wb0 : in_i64 (bi_ts b0)) by (inversion Wt; assumption).
    pose proof (fun r => read_cols_marshal (m_cols m) n cols r Ecols Wc Hs) as RC.
    pose proof (fun r => read_blocks_marshal (b0 :: bs) (bi_ts b0) blks r Eblks Wb0 Wt) as RB.
    destruct (RC []) as [_ LC]. destruct (RB []) as [_ LB]. rewrite <- En in LB, RB. rewrite Hc in LC, RC.
    rewrite overlay_full in H
      by (rewrite !app_length, marshal_header_length, LC, LB; unfold be64; rewrite be_enc_length; unfold ncols; lia).
    subst b. rewrite <- (app_nil_r blks).
    unfold unmarshal. cbv zeta.
    assert (L : length (marshal_header m ++ cols ++ be64 (u64_of_i64 (bi_ts b0)) ++ blks ++ []) = (144 + 88 * n)%nat)
      by (rewrite !app_length, marshal_header_length, LC, LB; unfold be64; rewrite be_enc_length; unfold ncols;
          cbn [length]; lia).
    rewrite L.
    destruct (N.ltb_spec (N.of_nat (144 + 88 * n)) min_size) as [Hlt|_]; [unfold min_size in Hlt; lia|].
    unfold marshal_header, be64. rewrite Eb, <- En. rewrite <- !app_assoc.
    hdr_step. hdr_step.
    rewrite size_div, N.ltb_irrefl, Nat2N.id.
    do 7 hdr_step.
    destruct (RC (be_enc 8 (u64_of_i64 (bi_ts b0)) ++ blks ++ [])) as [RC1 _]. rewrite RC1. cbn [bindp].
    rewrite get_be_enc_small by (apply u64_of_i64_lt). cbn [bindp].
    rewrite i64_of_u64_of_i64 by assumption.
    destruct (RB []) as [RB1 _]. rewrite RB1. cbn [bindp].
    destruct m as [v cs blocks tr cn]. cbn in *. subst. destruct tr, cn. reflexivity.
Qed.

Lemma marshal_blocks_length : forall l last s, marshal_blocks last l = Ok s -> length s = (16 * length l)%nat.
Proof.
  induction l as [|b l IH]; intros last s H.
  - cbn in H. apply Ok_inj in H. subst. reflexivity.
  - cbn [marshal_blocks] in H. destruct (_ || _ || _ || _ || _)%bool; [discriminate|].
    destruct (marshal_blocks (bi_ts b) l) as [t| |] eqn:Et; cbn [res_bind] in H; try discriminate.
    apply Ok_inj in H. subst s. rewrite !app_length. unfold be32. rewrite !be_enc_length, (IH _ _ Et).
    cbn [length]. lia.
Qed.

Lemma marshal_colblks_length : forall l s, concat_res (map marshal_colblk l) = Ok s -> length s = (9 * length l)%nat.
Proof.
  induction l as [|b l IH]; intros s H.
  - cbn in H. apply Ok_inj in H. subst. reflexivity.
  - cbn [map] in H. apply concat_res_cons in H. destruct H as (a & t & Ha & Ht & ->).
    apply marshal_colblk_ok in Ha. destruct Ha as (_ & _ & ->).
    rewrite !app_length. unfold be32. rewrite !be_enc_length, (IH _ Ht). cbn [length]. lia.
Qed.

Lemma marshal_cols_length : forall l n s,
  concat_res (map marshal_col l) = Ok s -> Forall (fun c => length (col_blocks c) = n) l ->
  length s = (length l * (8 + 9 * n))%nat.
Proof.
  induction l as [|c l IH]; intros n s H S.
  - cbn in H. apply Ok_inj in H. subst. reflexivity.
  - cbn [map] in H. apply concat_res_cons in H. destruct H as (a & t & Ha & Ht & ->).
    inversion S as [|? ? Sc Sr]; subst.
    unfold marshal_col in Ha.
    destruct (concat_res (map marshal_colblk (col_blocks c))) as [bs| |] eqn:Ec; cbn [res_bind] in Ha;
      try discriminate.
    apply Ok_inj in Ha. subst a.
    rewrite !app_length. unfold be64. rewrite be_enc_length, (marshal_colblks_length _ _ Ec), (IH _ _ Ht Sr).
    cbn [length]. lia.
Qed.

(* the bytes do not depend on the previous content of the pooled buffer *)
Theorem marshal_junk_independent : forall m junk1 junk2, marshal m junk1 = marshal m junk2.
Proof.
  intros m j1 j2. unfold marshal.
  destruct (shape_ok m) eqn:S; cbn [negb]; [|reflexivity].
  destruct (shape_ok_spec _ S) as (Hn & Hc & Hs).
  destruct (m_blocks m) as [|b0 bs] eqn:Eb.
  - rewrite !overlay_full by (rewrite app_length, marshal_header_length, repeat_length; reflexivity). reflexivity.
  - destruct (concat_res (map marshal_col (m_cols m))) as [cols| |] eqn:Ecols; cbn [res_bind]; try reflexivity.
    destruct (marshal_blocks (bi_ts b0) (b0 :: bs)) as [blks| |] eqn:Eblks; cbn [res_bind]; try reflexivity.
    pose proof (marshal_blocks_length _ _ _ Eblks) as LB.
    pose proof (marshal_cols_length _ _ _ Ecols Hs) as LC.
    rewrite !overlay_full
      by (rewrite !app_length, marshal_header_length, LC, LB, Hc; unfold be64; rewrite be_enc_length; unfold ncols; lia).
    reflexivity.
Qed.

(* ------------------------------------------------------------------ Unmarshal never panics *)

Lemma read_colblocks_total : forall n l, (9 * n <= length l)%nat ->
  exists bs r, read_colblocks n l = Ok (bs, r) /\ length r = (length l - 9 * n)%nat.
Proof.
  induction n; intros l H.
  - exists [], l. cbn. split; [reflexivity|lia].
  - cbn [read_colblocks].
    rewrite get_be_ok by lia. cbn [bindp].
    rewrite get_be_ok by (rewrite skipn_length; lia). cbn [bindp].
    rewrite get_be_ok by (rewrite !skipn_length; lia). cbn [bindp].
    destruct (IHn (skipn 1 (skipn 4 (skipn 4 l)))) as (bs & r & E & L). { rewrite !skipn_length; lia. }
    rewrite E. cbn [bindp]. eexists _, r. split; [reflexivity|]. rewrite L, !skipn_length. lia.
Qed.

Lemma read_cols_total : forall c n l, (c * (8 + 9 * n) <= length l)%nat ->
  exists cs r, read_cols c n l = Ok (cs, r) /\ length r = (length l - c * (8 + 9 * n))%nat.
Proof.
  induction c; intros n l H.
  - exists [], l. cbn. split; [reflexivity|lia].
  - cbn [read_cols].
    rewrite get_be_ok by lia. cbn [bindp].
    destruct (read_colblocks_total n (skipn 8 l)) as (bs & r1 & E1 & L1). { rewrite skipn_length; lia. }
    rewrite E1. cbn [bindp]. rewrite skipn_length in L1.
    destruct (IHc n r1) as (cs & r & E & L). { lia. }
    rewrite E. cbn [bindp]. eexists _, r. split; [reflexivity|]. lia.
Qed.

Lemma read_blocks_total : forall n last l, (16 * n <= length l)%nat ->
  exists bs r, read_blocks n last l = Ok (bs, r).
Proof.
  induction n; intros last l H.
  - exists [], l. reflexivity.
  - cbn [read_blocks].
    rewrite get_be_ok by lia. cbn [bindp].
    rewrite get_be_ok by (rewrite skipn_length; lia). cbn [bindp].
    rewrite get_be_ok by (rewrite !skipn_length; lia). cbn [bindp].
    rewrite get_be_ok by (rewrite !skipn_length; lia). cbn [bindp].
    match goal with |- context [read_blocks n ?t ?l'] => destruct (IHn t l') as (bs & r & E) end.
    { rewrite !skipn_length; lia. }
    rewrite E. cbn [bindp]. eexists _, r. reflexivity.
Qed.

(* every slice / index Unmarshal takes lies inside the data, whatever the bytes are *)
Theorem unmarshal_total : forall data, unmarshal data <> Panic.
Proof.
  intros data. unfold unmarshal. cbv zeta.
  destruct (N.ltb_spec (N.of_nat (length data)) min_size) as [|Hlen]; [discriminate|].
  unfold min_size in *.
  rewrite get_be_ok by lia. cbn [bindp].
  rewrite get_be_ok by (rewrite skipn_length; lia). cbn [bindp].
  set (nb := be_dec (firstn 8 (skipn 8 data))).
  destruct (N.ltb_spec ((N.of_nat (length data) - 144) / per_block) nb) as [|Hnb]; [discriminate|].
  assert (Hsz : (144 + 88 * N.to_nat nb <= length data)%nat).
  { unfold per_block in Hnb. pose proof (N.mul_div_le (N.of_nat (length data) - 144) 88). lia. }
  do 7 (rewrite get_be_ok by (rewrite !skipn_length; lia); cbn [bindp]).
  match goal with |- context [read_cols ?c ?n ?l] => destruct (read_cols_total c n l) as (cs & r & E & L) end.
  { rewrite !skipn_length. unfold ncols. lia. }
  rewrite E. cbn [bindp]. rewrite !skipn_length in L. unfold ncols in L.
  rewrite get_be_ok by lia. cbn [bindp].
  match goal with |- context [read_blocks ?n ?t ?l] => destruct (read_blocks_total n t l) as (bs & r' & E') end.
  { rewrite skipn_length. lia. }
  rewrite E'. cbn [bindp]. discriminate.
Qed.

(* the error cases of Unmarshal are exactly the two guards *)
Theorem unmarshal_ok_iff : forall data,
  (exists m, unmarshal data = Ok m) <->
  (min_size <= N.of_nat (length data) /\
   be_dec (firstn 8 (skipn 8 data)) <= (N.of_nat (length data) - min_size) / per_block).
Proof.
  intros data. pose proof (unmarshal_total data) as T. revert T. unfold unmarshal. cbv zeta.
  destruct (N.ltb_spec (N.of_nat (length data)) min_size) as [Hlt|Hlen].
  - intros _. split; [intros [m H]; discriminate | intros [H _]; lia].
  - unfold min_size in Hlen.
    rewrite get_be_ok by lia. cbn [bindp].
    rewrite get_be_ok by (rewrite skipn_length; lia). cbn [bindp].
    destruct (N.ltb_spec ((N.of_nat (length data) - min_size) / per_block) (be_dec (firstn 8 (skipn 8 data)))) as [Hn|Hn].
    + intros _. split; [intros [m H]; discriminate | intros [_ H]; lia].
    + intros T. split; [intros _; unfold min_size; split; [lia|assumption]|]. intros _.
      match type of T with ?x <> Panic => destruct x as [m| |] eqn:E end.
      * eauto.
      * exfalso. revert E.
        assert (Hsz : (144 + 88 * N.to_nat (be_dec (firstn 8 (skipn 8 data))) <= length data)%nat).
        { unfold per_block, min_size in Hn. pose proof (N.mul_div_le (N.of_nat (length data) - 144) 88). lia. }
        do 7 (rewrite get_be_ok by (rewrite !skipn_length; lia); cbn [bindp]).
        match goal with |- context [read_cols ?c ?n ?l] => destruct (read_cols_total c n l) as (cs & r & E & L) end.
        { rewrite !skipn_length. unfold ncols. lia. }
        rewrite E. cbn [bindp]. rewrite !skipn_length in L. unfold ncols in L.
        rewrite get_be_ok by lia. cbn [bindp].
        match goal with |- context [read_blocks ?n ?t ?l] => destruct (read_blocks_total n t l) as (bs & r' & E') end.
        { rewrite skipn_length. lia. }
        rewrite E'. cbn [bindp]. discriminate.
      * congruence.
Qed.
