(* C03 correspondence: case type, corr (model = observed) and holds (observed meets the specification).
   Executable only. *)
From Coq Require Import List ZArith NArith Bool.
From GoProbe.Base Require Import CorrLib.
From GoProbe.C03 Require Import Model.
Import ListNotations.
Open Scope N_scope.

Inductive case :=
(* writer sessions on one day (with the junk the model's pooled buffer holds), the observed result flags of
   every session, the observed `.blockmeta` content after the last one and the metadata a reader obtains *)
| CHist (ss : list (list write * bytes)) (obs : list session_result) (file : option bytes) (back : res meta)
(* arbitrary bytes as `.blockmeta`, what a reader obtains, and the block offsets it computed per column *)
| CDecode (data : bytes) (back : res meta) (offs : list (list N)).

Definition sr_eqb (a b : session_result) : bool :=
  Bool.eqb (sr_open a) (sr_open b) && list_eqb Bool.eqb (sr_writes a) (sr_writes b)
  && Bool.eqb (sr_close a) (sr_close b).
Definition obytes_eqb (a b : option bytes) : bool :=
  match a, b with
  | Some x, Some y => list_eqb N.eqb x y
  | None, None => true
  | _, _ => false
  end.

(* does the model still describe the code? *)
Definition corr (c : case) : bool :=
  match c with
  | CHist ss obs file back =>
    let (cf, srs) := history None ss in
    list_eqb sr_eqb srs obs && obytes_eqb cf file && res_eqb meta_eqb (reopen cf) back
  | CDecode data back offs =>
    res_eqb meta_eqb (unmarshal data) back
    && match back with
       | Ok m => list_eqb (list_eqb N.eqb) (map col_offsets (m_cols m)) offs
       | _ => true
       end
  end.

(* ---- specification side: computed from the input and the observed behaviour only *)

Fixpoint select {A} (l : list A) (flags : list bool) : list A :=
  match l, flags with
  | a :: r, true :: fr => a :: select r fr
  | _ :: r, false :: fr => select r fr
  | _, _ => []
  end.

(* the writes the implementation reported as accepted in sessions whose Close succeeded *)
Fixpoint committed_writes (ss : list (list write * bytes)) (obs : list session_result) : list write :=
  match ss, obs with
  | (ws, _) :: r, o :: ro =>
    (if sr_open o && sr_close o then select ws (sr_writes o) else []) ++ committed_writes r ro
  | _, _ => []
  end.

Definition zero_traffic : traffic := {| t_v4 := 0; t_v6 := 0; t_drops := 0 |}.
Definition zero_counters : counters := {| c_br := 0; c_bs := 0; c_pr := 0; c_ps := 0 |}.

(* raw (uncompressed) length of column i of every block: what the writer was given *)
Definition raw_lens (i : nat) (ws : list write) : list N :=
  map (fun w => u32 (cw_raw (nth i (w_cols w) {| cw_written := 0; cw_raw := 0; cw_enc := 0 |}))) ws.

Definition spec_view_ok (m : meta) (ws : list write) : bool :=
  list_eqb Z.eqb (timestamps m) (map w_ts ws)
  && list_eqb traffic_eqb (map bi_traffic (m_blocks m)) (map w_traffic ws)
  && traffic_eqb (m_traffic m) (fold_left traffic_add (map w_traffic ws) zero_traffic)
  && counters_eqb (m_counts m) (fold_left counters_add (map w_counts ws) zero_counters)
  && (length (m_cols m) =? ncols)%nat
  && forallb (fun i => list_eqb N.eqb (map cb_raw (col_blocks (nth i (m_cols m) {| col_cur := 0; col_blocks := [] |})))
                                (raw_lens i ws))
             (seq 0 ncols).

(* does the observed behaviour satisfy the property?
   - a reader of the day sees exactly the accepted writes of the committed sessions: same timestamps in the same
     order, same per-block counts, same totals (so nothing is stored in altered form, and a failed Close or a
     rejected write leaves the committed metadata unchanged);
   - no crash on any metadata bytes. *)
Definition holds (c : case) : bool :=
  match c with
  | CHist ss obs _ back =>
    (length ss =? length obs)%nat
    && forallb (fun p => (length (fst (fst p)) =? length (sr_writes (snd p)))%nat || negb (sr_open (snd p)))
               (combine ss obs)
    && match back with
       | Ok m => existsb (fun o => sr_open o && sr_close o) obs && spec_view_ok m (committed_writes ss obs)
       | Err => negb (existsb (fun o => sr_open o && sr_close o) obs)
       | Panic => false
       end
  | CDecode _ back _ => negb (is_panic back)
  end.
