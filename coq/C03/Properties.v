(* C03 property theorems: statements closed by `exact`, Print Assumptions, one non-vacuity Example each.
   Vocabulary (Model.v): meta / marshal / unmarshal (byte-exact GPDir.Marshal / Unmarshal), write_blocks
   (GPDir.WriteBlocks), session = Open; WriteBlocks*; Close, history = sessions on one day, reopen = reader Open.
   From the proof files: wf_write / wf_meta (ranges the Go types guarantee: int64 timestamps, uint64 totals,
   uint8 encoder type), all_writes (the writes of a history in order), spec_meta (the metadata built from a list
   of writes), unrepresentable (a count > 2^32-1 or a step between consecutive timestamps outside 0..2^32-1). *)
From Coq Require Import List ZArith NArith Bool.
From GoProbe.Base Require Import CorrLib.
From GoProbe.C03 Require Import Model ProofsCodec ProofsHistory.
Import ListNotations.
Open Scope N_scope.

(* ---- c03_roundtrip: for EVERY history of writer sessions in which every WriteBlocks and every Close succeeded,
   and for every content of the pooled Marshal buffers, reopening the day gives the written timestamps in order,
   the per-block flow / drop counts, and the day totals (sums modulo 2^64) - in fact exactly spec_meta. *)
Theorem c03_roundtrip : forall (ss : list (list write * bytes)) cf srs,
  history None ss = (cf, srs) -> forallb session_ok srs = true -> Forall wf_write (all_writes ss) -> ss <> [] ->
  exists m, reopen cf = Ok m
    /\ m = spec_meta (all_writes ss)
    /\ timestamps m = map w_ts (all_writes ss)
    /\ map bi_traffic (m_blocks m) = map w_traffic (all_writes ss)
    /\ m_traffic m = fold_left traffic_add (map w_traffic (all_writes ss)) zero_traffic
    /\ m_counts m = fold_left counters_add (map w_counts (all_writes ss)) zero_counters.
Proof. exact roundtrip_history. Qed.
Print Assumptions c03_roundtrip.

(* the codec level: whatever Marshal accepts, Unmarshal returns unchanged (all fields, all columns) *)
Theorem c03_marshal_roundtrip : forall m junk b, wf_meta m -> marshal m junk = Ok b -> unmarshal b = Ok m.
Proof. exact marshal_unmarshal. Qed.
Print Assumptions c03_marshal_roundtrip.

(* no byte of the pooled (not zeroed) buffer reaches the file *)
Theorem c03_marshal_junk_independent : forall m junk1 junk2, marshal m junk1 = marshal m junk2.
Proof. exact marshal_junk_independent. Qed.
Print Assumptions c03_marshal_junk_independent.

(* ---- c03_reject, part 1: after ANY history (accepted or not) and any further writes of a session, a block whose
   timestamp is not later than some stored timestamp is refused, and the session's metadata stays as it was. *)
Theorem c03_reject : forall ss cf srs m ws1 w t,
  history None ss = (cf, srs) -> Forall wf_write (all_writes ss) ->
  open_write cf = Ok m -> Forall wf_write ws1 ->
  let m1 := fst (apply_writes m ws1) in
  In t (timestamps m1) -> (w_ts w <= t)%Z ->
  write_blocks m1 w = Err /\ forall rest, fst (apply_writes m1 (w :: rest)) = fst (apply_writes m1 rest).
Proof. exact reject_write_history. Qed.
Print Assumptions c03_reject.

(* part 2: metadata holding a count above 2^32-1, or two consecutive blocks more than 2^32-1 s apart (or out of
   order), is refused by Marshal whatever the buffer held ... *)
Theorem c03_reject_marshal : forall m junk,
  shape_ok m = true -> unrepresentable (m_blocks m) -> marshal m junk = Err.
Proof. exact marshal_rejects. Qed.
Print Assumptions c03_reject_marshal.

(* ... so the session reports the error at Close and `.blockmeta` keeps its previous content *)
Theorem c03_reject_close : forall c ws junk m,
  committed_inv c -> Forall wf_write ws -> open_write c = Ok m ->
  unrepresentable (m_blocks (fst (apply_writes m ws))) ->
  N.of_nat (length (m_blocks (fst (apply_writes m ws)))) < 2 ^ 64 ->
  exists oks, session c ws junk = (c, {| sr_open := true; sr_writes := oks; sr_close := false |}).
Proof. exact reject_close_session. Qed.
Print Assumptions c03_reject_close.

(* part 3: whenever a session's Close fails (or the file cannot be opened) the committed bytes are unchanged *)
Theorem c03_reject_unchanged : forall c ws junk c' sr,
  session c ws junk = (c', sr) -> sr_close sr = false -> c' = c.
Proof. exact failed_close_keeps_committed. Qed.
Print Assumptions c03_reject_unchanged.

(* ---- c03_unmarshal_total: for ALL byte strings Unmarshal answers Ok or Err, never Panic: every slice and index
   it takes is inside the data under its two guards. *)
Theorem c03_unmarshal_total : forall data : bytes, unmarshal data <> Panic.
Proof. exact unmarshal_total. Qed.
Print Assumptions c03_unmarshal_total.

(* and the errors are exactly the two guards (size below 144; block count above (size-144)/88) *)
Theorem c03_unmarshal_ok_iff : forall data : bytes,
  (exists m, unmarshal data = Ok m) <->
  (min_size <= N.of_nat (length data) /\
   be_dec (firstn 8 (skipn 8 data)) <= (N.of_nat (length data) - min_size) / per_block).
Proof. exact unmarshal_ok_iff. Qed.
Print Assumptions c03_unmarshal_ok_iff.

(* ------------------------------------------------------------------ non-vacuity *)

Definition ex_cols (n : N) : list colwrite :=
  [ {| cw_written := n; cw_raw := n; cw_enc := 1 |}; {| cw_written := n; cw_raw := n; cw_enc := 1 |};
    {| cw_written := 1; cw_raw := 1; cw_enc := 1 |}; {| cw_written := 2; cw_raw := 2; cw_enc := 1 |};
    {| cw_written := 17; cw_raw := 40; cw_enc := 3 |}; {| cw_written := 0; cw_raw := 0; cw_enc := 1 |};
    {| cw_written := 8; cw_raw := 8; cw_enc := 1 |}; {| cw_written := 8; cw_raw := 8; cw_enc := 1 |} ].
Definition ex_write (ts : Z) (v4 : N) : write :=
  {| w_ts := ts; w_traffic := {| t_v4 := v4; t_v6 := 1; t_drops := 4294967295 |};
     w_counts := {| c_br := 18446744073709551615; c_bs := 2; c_pr := 3; c_ps := 4 |}; w_cols := ex_cols 4 |}.
(* two sessions, three blocks, the second 2^32-1 s after the first; junk in the buffers *)
Definition ex_hist : list (list write * bytes) :=
  [ ([ex_write 1700006700 5; ex_write 5994973995 7], [9; 9; 9]); ([ex_write 5994974295 0], [1; 2]) ].

Lemma ex_wf : Forall wf_write (all_writes ex_hist).
Proof. repeat constructor; cbn; try discriminate; reflexivity. Qed.

Example c03_roundtrip_example :
  exists cf srs, history None ex_hist = (cf, srs) /\ forallb session_ok srs = true
    /\ Forall wf_write (all_writes ex_hist) /\ ex_hist <> []
    /\ (exists m, reopen cf = Ok m /\ timestamps m = [1700006700; 5994973995; 5994974295]%Z
                  /\ c_br (m_counts m) = 18446744073709551613).
Proof.
  destruct (history None ex_hist) as [cf srs] eqn:E. exists cf, srs.
  assert (A : forallb session_ok srs = true) by (vm_compute in E; inversion E; reflexivity).
  split; [reflexivity|]. split; [exact A|]. split; [exact ex_wf|]. split; [discriminate|].
  destruct (c03_roundtrip ex_hist cf srs E A ex_wf) as (m & R & -> & _); [discriminate|].
  exists (spec_meta (all_writes ex_hist)). split; [exact R|]. split; vm_compute; reflexivity.
Qed.

Example c03_marshal_roundtrip_example :
  let m := fst (apply_writes new_meta (all_writes ex_hist)) in
  wf_meta m /\ length (m_blocks m) = 3%nat /\ exists b, marshal m [7; 7] = Ok b /\ length b = 408%nat.
Proof.
  split; [apply (apply_writes_inv _ _ inv_new ex_wf)|]. split; [reflexivity|].
  eexists. split; vm_compute; reflexivity.
Qed.

(* 1700000300 after 1700000600 (the input that used to come back as 5994967596), in a later session *)
Example c03_reject_example :
  let ss := [([ex_write 1700000600 1], [])] in
  exists cf srs m, history None ss = (cf, srs) /\ Forall wf_write (all_writes ss) /\ open_write cf = Ok m
    /\ In 1700000600%Z (timestamps (fst (apply_writes m [ex_write 1700000900 2])))
    /\ write_blocks (fst (apply_writes m [ex_write 1700000900 2])) (ex_write 1700000300 3) = Err.
Proof.
  cbv zeta. destruct (history None [([ex_write 1700000600 1], [])]) as [cf srs] eqn:E.
  vm_compute in E. inversion E; subst. eexists _, _, _.
  split; [reflexivity|]. split; [repeat constructor; cbn; try discriminate; reflexivity|].
  split; [vm_compute; reflexivity|]. split; [vm_compute; auto|]. vm_compute. reflexivity.
Qed.

(* a flow count of 2^32, and a gap of 2^32 s *)
Example c03_reject_marshal_example :
  let m1 := fst (apply_writes new_meta [ex_write 1700006700 4294967296]) in
  let m2 := fst (apply_writes new_meta [ex_write 1700006700 1; ex_write 5994973996 1]) in
  shape_ok m1 = true /\ unrepresentable (m_blocks m1) /\ marshal m1 [] = Err
  /\ shape_ok m2 = true /\ unrepresentable (m_blocks m2) /\ marshal m2 [] = Err.
Proof.
  cbv zeta. split; [reflexivity|]. split.
  { left. eexists. split; [left; reflexivity|]. left. vm_compute. reflexivity. }
  split; [vm_compute; reflexivity|]. split; [reflexivity|]. split.
  { right. exists 0%nat. eexists _, _. split; [reflexivity|]. split; [reflexivity|]. left. cbn. split; reflexivity. }
  vm_compute. reflexivity.
Qed.

Example c03_reject_close_example :
  let ws := [ex_write 1700006700 1; ex_write 5994973996 1] in
  committed_inv None /\ open_write None = Ok new_meta
  /\ unrepresentable (m_blocks (fst (apply_writes new_meta ws)))
  /\ session None ws [5] = (None, {| sr_open := true; sr_writes := [true; true]; sr_close := false |}).
Proof.
  cbv zeta. split; [exact I|]. split; [reflexivity|]. split.
  { right. exists 0%nat. eexists _, _. split; [reflexivity|]. split; [reflexivity|]. left. cbn. split; reflexivity. }
  vm_compute. reflexivity.
Qed.

(* a decodable file, a truncated one and one whose block count exceeds its size *)
Example c03_unmarshal_examples :
  (exists m, unmarshal (repeat 0 144) = Ok m) /\ unmarshal (repeat 0 143) = Err
  /\ unmarshal (repeat 0 15 ++ [1] ++ repeat 0 215) = Err
  /\ (exists m, unmarshal (repeat 0 15 ++ [1] ++ repeat 0 216) = Ok m /\ length (m_blocks m) = 1%nat).
Proof.
  split; [eexists; vm_compute; reflexivity|]. split; [vm_compute; reflexivity|].
  split; [vm_compute; reflexivity|]. eexists. split; vm_compute; reflexivity.
Qed.
