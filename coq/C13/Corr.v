(* C13 correspondence: case type, corr (model = observed) and holds (observed meets the specification).
   Executable only. *)
From Coq Require Import List ZArith Bool.
From GoProbe.Base Require Import CorrLib.
From GoProbe.C13 Require Import Model.
Import ListNotations.
Open Scope Z_scope.

(* compact constructor used by the generated case files *)
Definition R (sec nsec zone i h d s t p q a b c e : Z) : row :=
  {| r_ts := {| t_sec := sec; t_nsec := nsec; t_zone := zone |};
     r_rest := {| l_iface := i; l_host := h; l_hostid := d; a_sip := s; a_dip := t; a_proto := p; a_dport := q |};
     r_cnt := {| c_br := a; c_bs := b; c_pr := c; c_ps := e |} |}.

Definition cnt_eqb (a b : counters) : bool :=
  (c_br a =? c_br b) && (c_bs a =? c_bs b) && (c_pr a =? c_pr b) && (c_ps a =? c_ps b).
Definition row_eqb (a b : row) : bool :=
  key_eqb (key_of a) (key_of b) && cnt_eqb (r_cnt a) (r_cnt b).

(* multisets of rows (Go map iteration order and the C14 sort are not part of C13) *)
Fixpoint remove_one (x : row) (l : list row) : option (list row) :=
  match l with
  | [] => None
  | y :: t => if row_eqb x y then Some t
              else match remove_one x t with Some t' => Some (y :: t') | None => None end
  end.
Fixpoint submset (l1 l2 : list row) : bool :=
  match l1 with
  | [] => true
  | x :: t => match remove_one x l2 with Some l2' => submset t l2' | None => false end
  end.
Definition mset_eqb (l1 l2 : list row) : bool :=
  Nat.eqb (length l1) (length l2) && submset l1 l2.

Fixpoint rows_eqb (l1 l2 : list row) : bool :=
  match l1, l2 with
  | [], [] => true
  | x :: t, y :: u => row_eqb x y && rows_eqb t u
  | _, _ => false
  end.

Fixpoint nodupb (l : list key) : bool :=
  match l with
  | [] => true
  | k :: t => negb (existsb (key_eqb k) t) && nodupb t
  end.

Inductive case :=
| CBinTs (ts size_ns : Z) (obs : Z)                               (* results.BinTimestamp *)
| CAuto (res_ns dur_ns : Z) (obs : CorrLib.res Z)                 (* results.CalcTimeBinSize *)
| CBin (size_ns : Z) (rows obs obs2 : list row)                   (* TimeBinner.BinTime, once and twice *)
| CPost (sel_ts : bool) (size_ns numres hits_in : Z) (rows obs : list row) (total disp : Z)
                                                                  (* Statement.PostProcess *)
| CPrep (first last : Z) (a : resarg) (err : bool) (size_ns : Z). (* Args.Prepare -> Statement.TimeBinSize *)

Definition resz_eqb (a b : CorrLib.res Z) : bool := res_eqb Z.eqb a b.

(* ------------------------------------------------------------------ does the model describe the code? *)
Definition corr (c : case) : bool :=
  match c with
  | CBinTs ts size obs => bin_ts ts size =? obs
  | CAuto r d obs => resz_eqb (calc_bin r d) obs
  | CBin size rows obs obs2 =>
    mset_eqb (bin_rows size rows) obs && mset_eqb (bin_rows size (bin_rows size rows)) obs2
  | CPost sel size numres hits_in rows obs total disp =>
    match post_process sel size numres hits_in rows with
    | (rows', t, d) =>
      (t =? total) && (d =? disp) && (Z.of_nat (length obs) =? d)
      && (if d =? Z.of_nat (length rows') then mset_eqb rows' obs else submset obs rows')
    end
  | CPrep first last a err size =>
    match prep_resolution first last a with
    | (e, s) => Bool.eqb ((last <? first) || e) err && (s =? size)
    end
  end.

(* ------------------------------------------------------------------ the specification *)
(* end of the bin that contains ts: the least multiple of s (whole seconds) that is >= ts *)
Definition spec_bin (ts size_ns : Z) : Z :=
  let s := size_ns / ns_per_s in
  if s <=? 0 then ts else s * - ((- ts) / s).

(* identity of an output row for the property: rows without time label (zero timestamp) keep their
   timestamp; time-labelled rows are identified by the bin end (an instant in whole seconds) *)
Definition inst (sec : Z) : tstamp := {| t_sec := sec; t_nsec := 0; t_zone := 0 |}.
Definition hkey_obs (o : row) : key :=
  if is_zero (r_ts o) then key_of o else (inst (t_sec (r_ts o)), r_rest o).
Definition hkey_in (size_ns : Z) (r : row) : key :=
  if is_zero (r_ts r) then key_of r else (inst (spec_bin (t_sec (r_ts r)) size_ns), r_rest r).

Definition whole_seconds (o : row) : bool := is_zero (r_ts o) || (t_nsec (r_ts o) =? 0).

(* obs is the re-binned form of rows. [complete]: obs was not cut by the row limit *)
Definition spec_binned (size_ns : Z) (rows obs : list row) (complete : bool) : bool :=
  (* at most one row per (bin, labels, attributes) *)
  nodupb (map hkey_obs obs)
  (* every output row is labelled with the end of the bin of at least one input row and carries the
     sum (mod 2^64) of all input rows of that bin *)
  && forallb (fun o =>
       whole_seconds o &&
       let rs := filter (fun r => key_eqb (hkey_in size_ns r) (hkey_obs o)) rows in
       negb (match rs with [] => true | _ => false end) && cnt_eqb (cadd (r_cnt o) czero) (csum rs)) obs
  && (if complete then
        (* every input row went into the row of its bin; totals are conserved *)
        forallb (fun r => existsb (fun o => key_eqb (hkey_in size_ns r) (hkey_obs o)) obs) rows
        && cnt_eqb (csum obs) (csum rows)
      else true).

(* ------------------------------------------------------------------ does the observed behaviour meet it? *)
Definition holds (c : case) : bool :=
  match c with
  | CBinTs ts size obs =>
    let s := size / ns_per_s in
    (obs =? spec_bin ts size)
    && (if 0 <? s then (obs mod s =? 0) && (obs - s <? ts) && (ts <=? obs) else obs =? ts)
  | CAuto r d obs =>
    if r =? five_min_ns then
      match obs with
      | Ok b =>
        if d <=? 0 then b =? five_min_ns
        else (0 <=? b) && (b mod five_min_ns =? 0)
             && (if b =? 0 then d <? 288
                 else if d mod ns_per_s =? 0 then d <=? 288 * b   (* whole seconds: ceil(d / b) <= 288 *)
                 else d / b <=? 288)
      | _ => false
      end
    else true
  | CBin size rows obs obs2 =>
    spec_binned size rows obs true && mset_eqb obs obs2
  | CPost sel size numres hits_in rows obs total disp =>
    let n := Z.of_nat (length obs) in
    (disp =? n) &&
    if sel && negb (size =? five_min_ns) then
      (* re-binned; complete unless the row limit cut the result *)
      let complete := (numres =? 0) || (n <? numres) in
      spec_binned size rows obs complete
      && (match rows with [] => true | _ => (n <=? total) && (if complete then total =? n else true) end)
    else
      (* native resolution or no time label: nothing is re-binned, the row limit keeps a prefix *)
      rows_eqb obs (firstn (Z.to_nat n) rows)
      && ((n =? Z.of_nat (length rows)) || (n =? numres)) && (total =? hits_in)
  | CPrep first last a err size =>
    if err then true
    else (0 <? size) && (size mod five_min_ns =? 0)
         && (match a with RAuto => (last - first) * ns_per_s <=? 288 * size | _ => true end)
  end.
