(* C13 property theorems: statements closed by `exact`, Print Assumptions, one non-vacuity Example each.
   Vocabulary (Model.v): bin_ts = BinTimestamp, auto_size d = CalcTimeBinSize(5m, d), bin_rows = BinTime,
   csum = sum of the four counters mod 2^64, key_of = (timestamp, labels, attributes),
   sel s k rows = the input rows whose binned key is k, cnorm = counters read as uint64. *)
From Coq Require Import List ZArith Bool Lia Permutation.
From GoProbe.Base Require Import CorrLib.
From GoProbe.C13 Require Import Model Proofs.
Import ListNotations.
Open Scope Z_scope.

(* ---- conservation: every counter keeps its sum (mod 2^64), for all rows and all bin sizes *)
Theorem c13_conserves : forall size rows, csum (bin_rows size rows) = csum rows.
Proof. exact conserves. Qed.
Print Assumptions c13_conserves.

(* ... and per bin: an output row carries exactly the sum of the input rows that fall into its bin *)
Theorem c13_bin_sums : forall size rows o, In o (bin_rows size rows) ->
  cnorm (r_cnt o) = csum (sel size (key_of o) rows).
Proof. exact bin_sums. Qed.
Print Assumptions c13_bin_sums.

(* ---- at most one row per (bin, labels, attributes) *)
Theorem c13_one_row_per_bin : forall size rows, NoDup (map key_of (bin_rows size rows)).
Proof. exact one_row_per_key. Qed.
Print Assumptions c13_one_row_per_bin.

(* ---- the label is the end of the bin that contains the original timestamp: a multiple of the bin
   size s (in seconds) with b - s < ts <= b; for all timestamps, also before the epoch, as long as
   int64 arithmetic cannot wrap (|ts| <= 2^62 s) *)
Theorem c13_aligned : forall ts size,
  0 < dur_seconds size -> size < two63 -> - 4611686018427387904 <= ts <= 4611686018427387904 ->
  let s := dur_seconds size in let b := bin_ts ts size in
  b mod s = 0 /\ b - s < ts <= b.
Proof. exact bin_ts_aligned. Qed.
Print Assumptions c13_aligned.

(* such a bin end is unique, so bin_ts is the specification's ceiling *)
Theorem c13_bin_end_unique : forall s ts b b', 0 < s -> b mod s = 0 -> b' mod s = 0 ->
  b - s < ts <= b -> b' - s < ts <= b' -> b = b'.
Proof. exact bin_end_unique. Qed.
Print Assumptions c13_bin_end_unique.

(* every output row is labelled with the binned timestamp of an input row with the same labels and
   attributes, and every input row is represented (bin_row applies bin_ts to non-zero timestamps) *)
Theorem c13_rows_labelled : forall size rows,
  (forall o, In o (bin_rows size rows) -> exists r, In r rows /\ key_of o = key_of (bin_row size r)) /\
  (forall r, In r rows -> exists o, In o (bin_rows size rows) /\ key_of o = key_of (bin_row size r)).
Proof. exact out_rows_labelled. Qed.
Print Assumptions c13_rows_labelled.

(* the defect that was fixed (commit "fix: bin timestamps before the Unix epoch ..."): the old code put
   ts = -1 into the bin ending at +300 *)
Theorem c13_unfixed_refuted : exists ts size,
  let s := dur_seconds size in let b := bin_ts_unfixed ts size in
  0 < s /\ size mod five_min_ns = 0 /\ ~ (b - s < ts <= b).
Proof. exact bin_ts_unfixed_refuted. Qed.
Print Assumptions c13_unfixed_refuted.

(* ---- binning an already binned result again, in whatever order its rows are presented, changes nothing *)
Theorem c13_idempotent : forall size rows l, size < two63 ->
  Forall (fun r => - 4611686018427387904 <= t_sec (r_ts r) <= 4611686018427387904) rows ->
  Permutation (bin_rows size rows) l -> bin_rows size l = l.
Proof. exact idempotent_perm. Qed.
Print Assumptions c13_idempotent.

(* ---- automatic bin size: for every duration d > 0 (int64 ns) a multiple of five minutes with at most
   a day's worth (288) of bins: d <= 288 * b whenever d is a whole number of seconds (query ranges
   are), and never more than 287 ns beyond; 0 only for d < 288 ns (then nothing is re-binned) *)
Theorem c13_auto_size : forall d, 0 < d < two63 ->
  let b := auto_size d in
  b mod five_min_ns = 0 /\ 0 <= b < two63
  /\ (0 < b -> d / b <= 288) /\ (b = 0 -> d < 288) /\ d <= 288 * b + 287
  /\ (d mod ns_per_s = 0 -> d <= 288 * b).
Proof. exact auto_size_spec. Qed.
Print Assumptions c13_auto_size.

(* the resolution accepted by query preparation ("auto" or an explicit duration) for a time range
   first < last in Unix seconds is a positive multiple of five minutes *)
Theorem c13_resolution_accepted : forall first last a size,
  0 <= first < last -> last < 4611686018 ->
  prep_resolution first last a = (false, size) ->
  0 < size /\ size mod five_min_ns = 0 /\ (a = RAuto -> (last - first) * ns_per_s <= 288 * size).
Proof. exact prep_resolution_spec. Qed.
Print Assumptions c13_resolution_accepted.

(* ------------------------------------------------------------------ non-vacuity *)
Definition ex_rows : list row :=
  let rest1 := {| l_iface := 1; l_host := 0; l_hostid := 0; a_sip := 1; a_dip := 2; a_proto := 6; a_dport := 443 |} in
  let c a := {| c_br := a; c_bs := 18446744073709551615; c_pr := 1; c_ps := 0 |} in
  [ {| r_ts := {| t_sec := 1700000100; t_nsec := 0; t_zone := 1 |}; r_rest := rest1; r_cnt := c 10 |};
    {| r_ts := {| t_sec := 1700000400; t_nsec := 5; t_zone := 2 |}; r_rest := rest1; r_cnt := c 20 |};
    {| r_ts := {| t_sec := -1; t_nsec := 0; t_zone := 0 |}; r_rest := rest1; r_cnt := c 3 |};
    {| r_ts := {| t_sec := zero_sec; t_nsec := 0; t_zone := 0 |}; r_rest := rest1; r_cnt := c 4 |} ].

(* two rows of one hour are merged (wrapping sum), the pre-epoch row is labelled 0, the zero row stays *)
Example c13_conserves_example :
  length (bin_rows 3600000000000 ex_rows) = 3%nat /\
  csum (bin_rows 3600000000000 ex_rows) = {| c_br := 37; c_bs := 18446744073709551612; c_pr := 4; c_ps := 0 |}.
Proof. split; reflexivity. Qed.

Example c13_bin_sums_example :
  exists o, In o (bin_rows 3600000000000 ex_rows) /\ t_sec (r_ts o) = 1700002800 /\
            length (sel 3600000000000 (key_of o) ex_rows) = 2%nat /\ c_br (r_cnt o) = 30.
Proof. eexists. split; [left; reflexivity|]. repeat split. Qed.

Example c13_one_row_per_bin_example :
  map (fun o => t_sec (r_ts o)) (bin_rows 3600000000000 ex_rows) = [1700002800; 0; zero_sec].
Proof. reflexivity. Qed.

Example c13_aligned_example :
  0 < dur_seconds five_min_ns /\ five_min_ns < two63 /\ bin_ts (-1) five_min_ns = 0
  /\ bin_ts 1700000123 five_min_ns = 1700000400 /\ bin_ts (-301) five_min_ns = -300.
Proof. repeat split. Qed.

Example c13_bin_end_unique_example : 0 < 300 /\ 600 mod 300 = 0 /\ 600 - 300 < 450 <= 600.
Proof. repeat split; discriminate. Qed.

Example c13_rows_labelled_example :
  exists o, In o (bin_rows 3600000000000 ex_rows) /\ r_ts o = unix_time 0.
Proof. eexists. split; [right; left; reflexivity|reflexivity]. Qed.

Example c13_idempotent_example :
  3600000000000 < two63 /\
  Forall (fun r => - 4611686018427387904 <= t_sec (r_ts r) <= 4611686018427387904) ex_rows /\
  bin_rows 3600000000000 (rev (bin_rows 3600000000000 ex_rows)) = rev (bin_rows 3600000000000 ex_rows).
Proof.
  split; [reflexivity|]. split; [|reflexivity].
  repeat constructor; cbn; try discriminate.
Qed.

Example c13_auto_size_example :
  auto_size 1000000000 = five_min_ns /\ auto_size 86400000000000 = five_min_ns
  /\ auto_size 86401000000000 = 2 * five_min_ns /\ auto_size 287 = 0
  /\ auto_size 315360000000000000 = 3650 * five_min_ns.
Proof. repeat split. Qed.

Example c13_resolution_accepted_example :
  prep_resolution 1700000000 1700604800 RAuto = (false, 7 * five_min_ns)
  /\ prep_resolution 1700000000 1700604800 (RDur (Some 3600000000000)) = (false, 3600000000000)
  /\ prep_resolution 1700000000 1700604800 (RDur (Some 420000000000)) = (true, five_min_ns).
Proof. repeat split. Qed.
