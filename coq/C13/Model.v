(* C13 model: pkg/results/time_bin.go (BinTimestamp, CalcTimeBinSize, BinTime), RowsMap.MergeRow
   (pkg/results/result.go), Statement.PostProcess (pkg/query/query.go) and the time-resolution part of
   prepTimeQueryArg (pkg/query/args.go). Executable definitions only. *)
From Coq Require Import List ZArith Bool.
From GoProbe.Base Require Import CorrLib.
Import ListNotations.
Open Scope Z_scope.

(* ------------------------------------------------------------------ machine integers *)
Definition two64 : Z := 18446744073709551616.
Definition two63 : Z := 9223372036854775808.
Definition add64 (a b : Z) : Z := (a + b) mod two64.                 (* uint64 + *)
Definition wrap64 (x : Z) : Z := (x + two63) mod two64 - two63.       (* int64 result of + *)

Definition ns_per_s : Z := 1000000000.
Definition five_min_ns : Z := 300000000000.      (* 5 * time.Minute == types.DefaultTimeResolution *)
Definition day_ns : Z := 86400000000000.         (* 24 * time.Hour *)

(* int64(d.Seconds()): exact whenever the sub-second part of d is 0 (see NOTES: float rounding) *)
Definition dur_seconds (ns : Z) : Z := Z.quot ns ns_per_s.

(* ------------------------------------------------------------------ BinTimestamp *)
(* Go:  remainder := ts % s ; if remainder == 0 {return ts}
        if remainder < 0 {return ts - remainder}          <- fix C13-negative-ts
        return (ts - remainder) + s                       (int64, wraps)                      *)
Definition bin_ts (ts size_ns : Z) : Z :=
  if size_ns <=? 0 then ts else
  let s := dur_seconds size_ns in
  if s <=? 0 then ts else
  let r := Z.rem ts s in
  if r =? 0 then ts else
  if r <? 0 then ts - r else
  wrap64 ((ts - r) + s).

(* the code before the fix (kept for the refutation witness) *)
Definition bin_ts_unfixed (ts size_ns : Z) : Z :=
  if size_ns <=? 0 then ts else
  let s := dur_seconds size_ns in
  if s <=? 0 then ts else
  let r := Z.rem ts s in
  if r =? 0 then ts else wrap64 ((ts - r) + s).

(* ------------------------------------------------------------------ CalcTimeBinSize *)
(* all values are time.Duration = int64 nanoseconds; `/` and `%` truncate; duration / 0 panics *)
Definition calc_bin (res dur : Z) : CorrLib.res Z :=
  if (dur <=? 0) || (res <=? 0) then Ok five_min_ns else
  let n := Z.quot day_ns res in
  if n =? 0 then Panic else
  let b := Z.quot dur n in
  if Z.rem b five_min_ns =? 0 then Ok b
  else Ok (wrap64 ((Z.quot b five_min_ns + 1) * five_min_ns)).

(* the only call site uses resolution = DefaultTimeResolution; never panics *)
Definition auto_size (dur : Z) : Z :=
  match calc_bin five_min_ns dur with Ok b => b | _ => 0 end.

(* ------------------------------------------------------------------ rows *)
(* time.Time as compared by Go's == : seconds since the Unix epoch, nanoseconds, location pointer
   (0 = nil/UTC, 1 = time.Local, >= 2 other *time.Location values). No monotonic reading. *)
Record tstamp := { t_sec : Z; t_nsec : Z; t_zone : Z }.
Definition zero_sec : Z := -62135596800.                     (* January 1, year 1 00:00:00 UTC *)
Definition is_zero (t : tstamp) : bool := (t_sec t =? zero_sec) && (t_nsec t =? 0).
Definition zone_local : Z := 1.
Definition unix_time (sec : Z) : tstamp := {| t_sec := sec; t_nsec := 0; t_zone := zone_local |}.

(* Labels without the timestamp + Attributes. Strings and netip.Addr values are opaque to the binning
   code (only Go's == on the map key looks at them): each is the index of the value in the harness'
   pool of pairwise distinct values, so Z equality is exactly Go's == on the field. *)
Record rest := { l_iface : Z; l_host : Z; l_hostid : Z; a_sip : Z; a_dip : Z; a_proto : Z; a_dport : Z }.
Record counters := { c_br : Z; c_bs : Z; c_pr : Z; c_ps : Z }.
Record row := { r_ts : tstamp; r_rest : rest; r_cnt : counters }.

Definition key : Type := (tstamp * rest)%type.              (* MergeableAttributes *)
Definition key_of (r : row) : key := (r_ts r, r_rest r).

Definition ts_eqb (a b : tstamp) : bool :=
  (t_sec a =? t_sec b) && (t_nsec a =? t_nsec b) && (t_zone a =? t_zone b).
Definition rest_eqb (a b : rest) : bool :=
  (l_iface a =? l_iface b) && (l_host a =? l_host b) && (l_hostid a =? l_hostid b)
  && (a_sip a =? a_sip b) && (a_dip a =? a_dip b) && (a_proto a =? a_proto b) && (a_dport a =? a_dport b).
Definition key_eqb (a b : key) : bool := ts_eqb (fst a) (fst b) && rest_eqb (snd a) (snd b).

Definition czero : counters := {| c_br := 0; c_bs := 0; c_pr := 0; c_ps := 0 |}.
Definition cadd (a b : counters) : counters :=               (* Counters.Add: uint64 += *)
  {| c_br := add64 (c_br a) (c_br b); c_bs := add64 (c_bs a) (c_bs b);
     c_pr := add64 (c_pr a) (c_pr b); c_ps := add64 (c_ps a) (c_ps b) |}.

(* ------------------------------------------------------------------ RowsMap / MergeRow *)
(* the Go map as an association list in first-insertion order (Go's iteration order is random; all
   observables are compared as multisets / after sorting) *)
Definition rmap : Type := list (key * counters).
Fixpoint merge_row (k : key) (c : counters) (m : rmap) : rmap :=
  match m with
  | [] => [(k, c)]
  | (k', c') :: m' => if key_eqb k' k then (k', cadd c' c) :: m' else (k', c') :: merge_row k c m'
  end.

(* the loop body of BinTime: rows with a zero timestamp keep it, all others get time.Unix(bin, 0) *)
Definition bin_row (size_ns : Z) (r : row) : row :=
  if is_zero (r_ts r) then r
  else {| r_ts := unix_time (bin_ts (t_sec (r_ts r)) size_ns); r_rest := r_rest r; r_cnt := r_cnt r |}.

Definition bin_step (size_ns : Z) (m : rmap) (r : row) : rmap :=
  let b := bin_row size_ns r in merge_row (key_of b) (r_cnt b) m.
Definition bin_map (size_ns : Z) (rows : list row) : rmap := fold_left (bin_step size_ns) rows [].
Definition to_row (kc : key * counters) : row :=
  {| r_ts := fst (fst kc); r_rest := snd (fst kc); r_cnt := snd kc |}.
(* TimeBinner.BinTime (the final sort by time is a permutation: ordering is property C14) *)
Definition bin_rows (size_ns : Z) (rows : list row) : list row := map to_row (bin_map size_ns rows).

Definition csum (rows : list row) : counters := fold_right (fun r acc => cadd (r_cnt r) acc) czero rows.

(* specification vocabulary: the input rows that belong to the output row with key k, and counters
   read as uint64 values *)
Definition sel (size_ns : Z) (k : key) (rows : list row) : list row :=
  filter (fun r => key_eqb (key_of (bin_row size_ns r)) k) rows.
Definition cnorm (c : counters) : counters := cadd c czero.

(* ------------------------------------------------------------------ Statement.PostProcess *)
(* returns (rows before truncation, Hits.Total, Hits.Displayed); the caller cuts rows[:displayed] *)
Definition post_process (sel_ts : bool) (size_ns numres hits_total : Z) (rows : list row)
  : list row * Z * Z :=
  let binned := sel_ts && negb (size_ns =? five_min_ns) && negb (match rows with [] => true | _ => false end) in
  let rows' := if binned then bin_rows size_ns rows else rows in
  let n := Z.of_nat (length rows') in
  let total := if binned then n else hits_total in
  let disp := if negb (numres =? 0) && (numres <? n) then numres else n in
  (rows', total, disp).

(* ------------------------------------------------------------------ prepTimeQueryArg (resolution part) *)
Inductive resarg := RNone | RAuto | RDur (parsed : option Z).     (* "" | "auto" | time.ParseDuration *)
(* returns (error added, Statement.TimeBinSize) for a query with the time label selected *)
Definition prep_resolution (first last : Z) (a : resarg) : bool * Z :=
  match a with
  | RNone => (false, five_min_ns)
  | RAuto => (false, auto_size ((last - first) * ns_per_s))
  | RDur None => (true, five_min_ns)
  | RDur (Some d) =>
    if d =? five_min_ns then (false, d)
    else if d <? five_min_ns then (true, five_min_ns)
    else if negb (Z.rem d five_min_ns =? 0) then (true, five_min_ns)
    else (false, d)
  end.
