(* C13 proofs. *)
From Coq Require Import List ZArith Bool Lia Permutation.
From GoProbe.Base Require Import CorrLib.
From GoProbe.C13 Require Import Model.
Import ListNotations.
Open Scope Z_scope.

Ltac zlia := Z.to_euclidean_division_equations; lia.

Definition ts_lo : Z := - 4611686018427387904.   (* -2^62 *)
Definition ts_hi : Z := 4611686018427387904.     (*  2^62 *)
Definition ts_ok (ts : Z) : Prop := ts_lo <= ts <= ts_hi.

(* ------------------------------------------------------------------ machine arithmetic *)
Lemma wrap64_id x : - two63 <= x < two63 -> wrap64 x = x.
Proof. unfold wrap64, two63, two64. intros. zlia. Qed.

Lemma dur_seconds_bounds size : 0 < dur_seconds size -> size < two63 ->
  0 < size /\ dur_seconds size <= 9223372036.
Proof. unfold dur_seconds, ns_per_s, two63. intros. zlia. Qed.

Lemma rem_decomp ts s : 0 < s ->
  ts = s * Z.quot ts s + Z.rem ts s /\ - s < Z.rem ts s < s /\ (0 <= ts -> 0 <= Z.rem ts s)
  /\ (ts <= 0 -> Z.rem ts s <= 0).
Proof.
  intros Hs. split; [apply Z.quot_rem'|]. zlia.
Qed.

(* ------------------------------------------------------------------ BinTimestamp *)
Lemma bin_ts_cases ts size : 0 < dur_seconds size -> size < two63 -> ts_ok ts ->
  let s := dur_seconds size in
  exists q, bin_ts ts size = s * q /\ bin_ts ts size - s < ts <= bin_ts ts size.
Proof.
  intros Hs Hsz Hts s.
  destruct (dur_seconds_bounds size Hs Hsz) as [Hpos Hmax].
  destruct (rem_decomp ts s Hs) as (Hd & Hb & Hp & Hn).
  unfold bin_ts. fold s.
  destruct (Z.leb_spec size 0); [lia|].
  destruct (Z.leb_spec s 0); [lia|].
  destruct (Z.eqb_spec (Z.rem ts s) 0) as [E|E].
  - exists (Z.quot ts s). lia.
  - destruct (Z.ltb_spec (Z.rem ts s) 0).
    + exists (Z.quot ts s). lia.
    + rewrite wrap64_id by (unfold ts_ok, ts_lo, ts_hi, two63 in *; lia).
      exists (Z.quot ts s + 1). lia.
Qed.

Lemma bin_ts_aligned ts size : 0 < dur_seconds size -> size < two63 -> ts_ok ts ->
  let s := dur_seconds size in let b := bin_ts ts size in
  b mod s = 0 /\ b - s < ts <= b.
Proof.
  intros Hs Hsz Hts s b.
  destruct (bin_ts_cases ts size Hs Hsz Hts) as (q & Hq & Hb). fold s in Hq, Hb. fold b in Hq, Hb.
  split; [|exact Hb]. rewrite Hq, Z.mul_comm. apply Z.mod_mul. lia.
Qed.

(* the label is THE bin end: the only multiple of the bin size in [ts, ts + size) *)
Lemma bin_end_unique s ts b b' : 0 < s -> b mod s = 0 -> b' mod s = 0 ->
  b - s < ts <= b -> b' - s < ts <= b' -> b = b'.
Proof.
  intros Hs Hb Hb' H1 H2.
  apply Z.mod_divide in Hb; [|lia]. apply Z.mod_divide in Hb'; [|lia].
  destruct Hb as [q ->], Hb' as [q' ->]. assert (q = q') by nia. subst. reflexivity.
Qed.

Lemma bin_ts_nop ts size : dur_seconds size <= 0 \/ size <= 0 -> bin_ts ts size = ts.
Proof.
  intros H. unfold bin_ts. destruct (Z.leb_spec size 0); [reflexivity|].
  destruct (Z.leb_spec (dur_seconds size) 0); [reflexivity|lia].
Qed.

Lemma bin_ts_multiple ts size : 0 < dur_seconds size -> Z.rem ts (dur_seconds size) = 0 -> bin_ts ts size = ts.
Proof.
  intros Hs Hr. unfold bin_ts. rewrite Hr. cbn.
  destruct (size <=? 0); [reflexivity|]. destruct (dur_seconds size <=? 0); reflexivity.
Qed.

Lemma bin_ts_idem ts size : size < two63 -> ts_ok ts -> bin_ts (bin_ts ts size) size = bin_ts ts size.
Proof.
  intros Hsz Hts.
  destruct (Z.le_gt_cases (dur_seconds size) 0) as [H|H].
  - rewrite !bin_ts_nop by auto. reflexivity.
  - destruct (bin_ts_cases ts size H Hsz Hts) as (q & Hq & _).
    apply bin_ts_multiple; [exact H|]. rewrite Hq, Z.mul_comm. apply Z.rem_mul. lia.
Qed.

(* the behaviour before the fix: a timestamp one second before the epoch was put into the bin after *)
Lemma bin_ts_unfixed_refuted : exists ts size,
  let s := dur_seconds size in let b := bin_ts_unfixed ts size in
  0 < s /\ size mod five_min_ns = 0 /\ ~ (b - s < ts <= b).
Proof. exists (-1), five_min_ns. vm_compute. repeat split; try reflexivity. intros [H _]. discriminate H. Qed.

(* ------------------------------------------------------------------ CalcTimeBinSize *)
Lemma auto_size_spec d : 0 < d < two63 ->
  let b := auto_size d in
  b mod five_min_ns = 0 /\ 0 <= b < two63
  /\ (0 < b -> d / b <= 288) /\ (b = 0 -> d < 288) /\ d <= 288 * b + 287
  /\ (d mod ns_per_s = 0 -> d <= 288 * b).
Proof.
  intros Hd. unfold auto_size, calc_bin.
  destruct (Z.leb_spec d 0); [lia|].
  replace (five_min_ns <=? 0) with false by reflexivity. cbn [orb].
  replace (Z.quot day_ns five_min_ns) with 288 by reflexivity.
  replace (288 =? 0) with false by reflexivity.
  set (b0 := Z.quot d 288).
  assert (Hb0 : 288 * b0 <= d < 288 * b0 + 288 /\ 0 <= b0) by (unfold b0; zlia).
  destruct (Z.eqb_spec (Z.rem b0 five_min_ns) 0) as [E|E].
  - assert (Hm : b0 mod five_min_ns = 0) by (unfold five_min_ns in *; zlia).
    split; [exact Hm|]. split; [unfold two63 in *; lia|]. split; [|split; [|split]].
    + intros Hpos. assert (five_min_ns <= b0) by (unfold five_min_ns in *; zlia).
      assert (d / b0 < 289); [|lia]. apply Z.div_lt_upper_bound; unfold five_min_ns in *; lia.
    + lia.
    + lia.
    + intros Hsec. unfold five_min_ns, ns_per_s in *. zlia.
  - set (b1 := (Z.quot b0 five_min_ns + 1) * five_min_ns).
    assert (Hb1 : b0 < b1 <= b0 + five_min_ns) by (unfold b1, five_min_ns; zlia).
    rewrite wrap64_id by (unfold two63, five_min_ns in *; lia).
    split; [unfold b1; apply Z.mod_mul; unfold five_min_ns; lia|].
    split; [unfold two63, five_min_ns in *; lia|]. split; [|split; [|split]].
    + intros _. apply Z.div_le_upper_bound; lia.
    + lia.
    + lia.
    + lia.
Qed.

Lemma calc_bin_default res d : d <= 0 \/ res <= 0 -> calc_bin res d = Ok five_min_ns.
Proof.
  intros H. unfold calc_bin.
  destruct (Z.leb_spec d 0), (Z.leb_spec res 0); cbn; try reflexivity; lia.
Qed.

(* explicit or automatic resolution accepted by prepTimeQueryArg: a positive multiple of 5 minutes *)
Lemma prep_resolution_spec first last a size :
  0 <= first < last -> last < 4611686018 ->
  prep_resolution first last a = (false, size) ->
  0 < size /\ size mod five_min_ns = 0 /\ (a = RAuto -> (last - first) * ns_per_s <= 288 * size).
Proof.
  intros Hfl Hl. unfold prep_resolution.
  destruct a as [| |[d|]].
  - intros [= <-]. split; [reflexivity|]. split; [reflexivity|discriminate].
  - intros [= <-].
    assert (Hd : 0 < (last - first) * ns_per_s < two63) by (unfold ns_per_s, two63; lia).
    destruct (auto_size_spec _ Hd) as (Hm & Hr & Hdiv & Hz & _ & Hsec).
    assert (0 < auto_size ((last - first) * ns_per_s)).
    { destruct (Z.eq_dec (auto_size ((last - first) * ns_per_s)) 0) as [E|E]; [|lia].
      specialize (Hz E). unfold ns_per_s in Hz. lia. }
    split; [assumption|]. split; [assumption|]. intros _. apply Hsec.
    apply Z.mod_mul. discriminate.
  - destruct (Z.eqb_spec d five_min_ns) as [->|]; [intros [= <-]; repeat split; discriminate|].
    destruct (Z.ltb_spec d five_min_ns); [discriminate|].
    destruct (Z.eqb_spec (Z.rem d five_min_ns) 0) as [E|E]; cbn [negb]; [|discriminate].
    intros [= <-]. unfold five_min_ns in *. repeat split; try discriminate; zlia.
  - discriminate.
Qed.

(* ------------------------------------------------------------------ keys *)
Lemma ts_eqb_eq a b : ts_eqb a b = true <-> a = b.
Proof.
  destruct a, b; unfold ts_eqb; cbn. rewrite !andb_true_iff, !Z.eqb_eq.
  split; [intros [[-> ->] ->]; reflexivity | intros [= -> -> ->]; auto].
Qed.

Lemma rest_eqb_eq a b : rest_eqb a b = true <-> a = b.
Proof.
  destruct a, b; unfold rest_eqb; cbn. rewrite !andb_true_iff, !Z.eqb_eq.
  split; [intros [[[[[[-> ->] ->] ->] ->] ->] ->]; reflexivity
         | intros [= -> -> -> -> -> -> ->]; repeat split].
Qed.

Lemma key_eqb_eq (a b : key) : key_eqb a b = true <-> a = b.
Proof.
  destruct a, b; unfold key_eqb; cbn. rewrite andb_true_iff, ts_eqb_eq, rest_eqb_eq.
  split; [intros [-> ->]; reflexivity | intros [= -> ->]; auto].
Qed.

Lemma key_eqb_refl k : key_eqb k k = true.
Proof. apply key_eqb_eq. reflexivity. Qed.

Lemma key_eq_dec (a b : key) : {a = b} + {a <> b}.
Proof.
  destruct (key_eqb a b) eqn:E; [left; apply key_eqb_eq; exact E|].
  right. intros ->. rewrite key_eqb_refl in E. discriminate.
Qed.

Definition keys (m : rmap) : list key := map fst m.

(* ------------------------------------------------------------------ MergeRow *)
Lemma merge_in k c m : In k (keys m) -> keys (merge_row k c m) = keys m.
Proof.
  induction m as [|[k' c'] m IH]; cbn; [tauto|]. intros H.
  destruct (key_eqb k' k) eqn:E; cbn; [reflexivity|].
  f_equal. apply IH. destruct H as [H|H]; [|exact H].
  subst. rewrite key_eqb_refl in E. discriminate.
Qed.

Lemma merge_notin k c m : ~ In k (keys m) -> merge_row k c m = m ++ [(k, c)].
Proof.
  induction m as [|[k' c'] m IH]; cbn; [reflexivity|]. intros H.
  destruct (key_eqb k' k) eqn:E.
  - apply key_eqb_eq in E. tauto.
  - f_equal. apply IH. tauto.
Qed.

Lemma merge_keys k c m :
  keys (merge_row k c m) = if in_dec key_eq_dec k (keys m) then keys m else keys m ++ [k].
Proof.
  destruct (in_dec key_eq_dec k (keys m)) as [H|H].
  - apply merge_in, H.
  - rewrite merge_notin by exact H. unfold keys. rewrite map_app. reflexivity.
Qed.

Lemma merge_keys_iff k c m k' : In k' (keys (merge_row k c m)) <-> k' = k \/ In k' (keys m).
Proof.
  rewrite merge_keys. destruct (in_dec key_eq_dec k (keys m)) as [H|H].
  - split; [tauto|]. intros [->|]; assumption.
  - rewrite in_app_iff. cbn. intuition congruence.
Qed.

Lemma nodup_snoc {A} (l : list A) (x : A) : NoDup l -> ~ In x l -> NoDup (l ++ [x]).
Proof.
  induction l as [|y l IH]; cbn; intros Hn Hx; [constructor; [tauto|constructor]|].
  inversion Hn; subst. constructor.
  - rewrite in_app_iff. cbn. intuition congruence.
  - apply IH; tauto.
Qed.

Lemma merge_nodup k c m : NoDup (keys m) -> NoDup (keys (merge_row k c m)).
Proof.
  intros Hn. rewrite merge_keys. destruct (in_dec key_eq_dec k (keys m)) as [H|H]; [exact Hn|].
  apply nodup_snoc; assumption.
Qed.

(* ------------------------------------------------------------------ sums of one counter field *)
Definition fieldlike (f : counters -> Z) : Prop :=
  f czero = 0 /\ forall a b, f (cadd a b) = (f a + f b) mod two64.
Lemma fl_br : fieldlike c_br. Proof. split; reflexivity. Qed.
Lemma fl_bs : fieldlike c_bs. Proof. split; reflexivity. Qed.
Lemma fl_pr : fieldlike c_pr. Proof. split; reflexivity. Qed.
Lemma fl_ps : fieldlike c_ps. Proof. split; reflexivity. Qed.

Lemma counters_ext a b : c_br a = c_br b -> c_bs a = c_bs b -> c_pr a = c_pr b -> c_ps a = c_ps b -> a = b.
Proof. destruct a, b; cbn; intros -> -> -> ->; reflexivity. Qed.

Definition rsum (f : counters -> Z) (rows : list row) : Z := fold_right (fun r acc => f (r_cnt r) + acc) 0 rows.
Definition fsum (f : counters -> Z) (m : rmap) : Z := fold_right (fun kc acc => f (snd kc) + acc) 0 m.

Lemma csum_field f rows : fieldlike f -> f (csum rows) = rsum f rows mod two64.
Proof.
  intros [H0 Ha]. induction rows as [|r t IH]; [cbn; rewrite H0; reflexivity|].
  change (csum (r :: t)) with (cadd (r_cnt r) (csum t)).
  change (rsum f (r :: t)) with (f (r_cnt r) + rsum f t).
  rewrite Ha, IH. apply Zplus_mod_idemp_r.
Qed.

Lemma rsum_to_row f m : rsum f (map to_row m) = fsum f m.
Proof. unfold rsum, fsum. induction m as [|kc m IH]; cbn; [reflexivity|]. rewrite IH. reflexivity. Qed.

Lemma rsum_app f l1 l2 : rsum f (l1 ++ l2) = rsum f l1 + rsum f l2.
Proof. unfold rsum. induction l1 as [|r t IH]; cbn; [reflexivity|]. rewrite IH. lia. Qed.

Lemma fsum_merge f k c m : fieldlike f -> fsum f (merge_row k c m) mod two64 = (fsum f m + f c) mod two64.
Proof.
  intros [H0 Ha]. unfold fsum. induction m as [|[k' c'] m IH]; cbn; [f_equal; lia|].
  destruct (key_eqb k' k); cbn.
  - rewrite Ha, Zplus_mod_idemp_l. f_equal. lia.
  - rewrite <- Zplus_mod_idemp_r, IH, Zplus_mod_idemp_r. f_equal. lia.
Qed.

Lemma bin_row_cnt s r : r_cnt (bin_row s r) = r_cnt r.
Proof. unfold bin_row. destruct (is_zero (r_ts r)); reflexivity. Qed.

Lemma bin_row_rest s r : r_rest (bin_row s r) = r_rest r.
Proof. unfold bin_row. destruct (is_zero (r_ts r)); reflexivity. Qed.

Lemma fsum_fold f s rows m : fieldlike f ->
  fsum f (fold_left (bin_step s) rows m) mod two64 = (fsum f m + rsum f rows) mod two64.
Proof.
  intros Hf. revert m. induction rows as [|r t IH]; intros m; cbn [fold_left].
  - f_equal. cbn. lia.
  - change (rsum f (r :: t)) with (f (r_cnt r) + rsum f t). rewrite IH. unfold bin_step. rewrite <- Zplus_mod_idemp_l, fsum_merge, Zplus_mod_idemp_l by exact Hf.
    rewrite bin_row_cnt. f_equal. lia.
Qed.

Lemma conserves_field f s rows : fieldlike f -> f (csum (bin_rows s rows)) = f (csum rows).
Proof.
  intros Hf. rewrite !csum_field by exact Hf. unfold bin_rows, bin_map.
  rewrite rsum_to_row, fsum_fold by exact Hf. reflexivity.
Qed.

Lemma conserves s rows : csum (bin_rows s rows) = csum rows.
Proof.
  apply counters_ext; apply conserves_field; [apply fl_br|apply fl_bs|apply fl_pr|apply fl_ps].
Qed.

(* ------------------------------------------------------------------ one row per key *)
Lemma key_of_to_row kc : key_of (to_row kc) = fst kc.
Proof. destruct kc as [[t r] c]. reflexivity. Qed.

Lemma keys_of_rows m : map key_of (map to_row m) = keys m.
Proof. unfold keys. rewrite map_map. apply map_ext. intros kc. apply key_of_to_row. Qed.

Lemma fold_nodup s rows m : NoDup (keys m) -> NoDup (keys (fold_left (bin_step s) rows m)).
Proof.
  revert m. induction rows as [|r t IH]; intros m Hn; cbn; [exact Hn|].
  apply IH. apply merge_nodup, Hn.
Qed.

Lemma one_row_per_key s rows : NoDup (map key_of (bin_rows s rows)).
Proof. unfold bin_rows, bin_map. rewrite keys_of_rows. apply fold_nodup. constructor. Qed.

(* which keys exist in the output: exactly the binned keys of the input rows *)
Lemma fold_keys_iff s rows m k :
  In k (keys (fold_left (bin_step s) rows m)) <-> In k (keys m) \/ exists r, In r rows /\ k = key_of (bin_row s r).
Proof.
  revert m. induction rows as [|r t IH]; intros m; cbn [fold_left].
  - split; [tauto|]. intros [H|(r & [] & _)]. exact H.
  - rewrite IH. unfold bin_step at 1. rewrite merge_keys_iff. split.
    + intros [[->|H]|(r' & Hr' & ->)]; [right; exists r; cbn; auto|tauto|right; exists r'; cbn; auto].
    + intros [H|(r' & [<-|Hr'] & ->)]; [tauto|tauto|right; exists r'; auto].
Qed.

Lemma out_keys_iff s rows k :
  In k (map key_of (bin_rows s rows)) <-> exists r, In r rows /\ k = key_of (bin_row s r).
Proof.
  unfold bin_rows, bin_map. rewrite keys_of_rows, fold_keys_iff. cbn. tauto.
Qed.

(* every output row is labelled like (the binned form of) some input row, and every input row has its
   output row *)
Lemma out_rows_labelled s rows :
  (forall o, In o (bin_rows s rows) -> exists r, In r rows /\ key_of o = key_of (bin_row s r)) /\
  (forall r, In r rows -> exists o, In o (bin_rows s rows) /\ key_of o = key_of (bin_row s r)).
Proof.
  split.
  - intros o Ho. apply out_keys_iff. apply in_map, Ho.
  - intros r Hr. assert (H : In (key_of (bin_row s r)) (map key_of (bin_rows s rows)))
      by (apply out_keys_iff; exists r; auto).
    apply in_map_iff in H. destruct H as (o & Ho & Hin). exists o. auto.
Qed.

(* ------------------------------------------------------------------ idempotence *)
Definition key_fixed (s : Z) (k : key) : Prop :=
  is_zero (fst k) = true \/ (fst k = unix_time (t_sec (fst k)) /\ bin_ts (t_sec (fst k)) s = t_sec (fst k)).

Definition row_ok (r : row) : Prop := ts_ok (t_sec (r_ts r)).

Lemma bin_row_fixed s r : key_fixed s (key_of r) -> bin_row s r = r.
Proof.
  destruct r as [t re c]. unfold key_fixed, bin_row. cbn.
  intros [H|[H1 H2]]; [rewrite H; reflexivity|].
  destruct (is_zero t); [reflexivity|]. rewrite H2, <- H1. reflexivity.
Qed.

Lemma bin_row_key_fixed s r : s < two63 -> row_ok r -> key_fixed s (key_of (bin_row s r)).
Proof.
  intros Hs Hr. unfold bin_row. destruct (is_zero (r_ts r)) eqn:E.
  - left. exact E.
  - right. cbn. split; [reflexivity|]. apply bin_ts_idem; assumption.
Qed.

Lemma fold_fixed s rows m : s < two63 -> Forall row_ok rows ->
  Forall (key_fixed s) (keys m) -> Forall (key_fixed s) (keys (fold_left (bin_step s) rows m)).
Proof.
  intros Hs Hrows Hm. rewrite Forall_forall in *. intros k Hk.
  apply fold_keys_iff in Hk. destruct Hk as [Hk|(r & Hr & ->)]; [auto|].
  apply bin_row_key_fixed; auto.
Qed.

Lemma refold s m2 : forall m1, NoDup (keys (m1 ++ m2)) -> Forall (key_fixed s) (keys m2) ->
  fold_left (bin_step s) (map to_row m2) m1 = m1 ++ m2.
Proof.
  induction m2 as [|kc m2 IH]; intros m1 Hn Hf; cbn [map fold_left]; [rewrite app_nil_r; reflexivity|].
  cbn in Hf. inversion Hf as [|? ? Hk Hf']; subst.
  unfold bin_step at 2. rewrite bin_row_fixed by (rewrite key_of_to_row; exact Hk).
  rewrite key_of_to_row.
  assert (Hnot : ~ In (fst kc) (keys m1)).
  { unfold keys in Hn. rewrite map_app in Hn. cbn in Hn. apply NoDup_remove_2 in Hn.
    rewrite in_app_iff in Hn. tauto. }
  rewrite merge_notin by exact Hnot.
  replace (fst kc, r_cnt (to_row kc)) with kc by (destruct kc as [[? ?] ?]; reflexivity).
  rewrite IH; [rewrite <- app_assoc; reflexivity| |exact Hf'].
  rewrite <- app_assoc. exact Hn.
Qed.

Lemma idempotent s rows : s < two63 -> Forall row_ok rows ->
  bin_rows s (bin_rows s rows) = bin_rows s rows.
Proof.
  intros Hs Hrows. unfold bin_rows at 1. unfold bin_map. unfold bin_rows.
  rewrite refold; [reflexivity| |].
  - cbn. apply fold_nodup. constructor.
  - apply fold_fixed; [exact Hs|exact Hrows|constructor].
Qed.

(* ------------------------------------------------------------------ per-bin sums *)

Definition getf (f : counters -> Z) (k : key) (m : rmap) : Z :=
  fold_right (fun kc acc => if key_eqb (fst kc) k then f (snd kc) + acc else acc) 0 m.

Lemma getf_merge f k k' c m : fieldlike f ->
  getf f k (merge_row k' c m) mod two64 = (getf f k m + (if key_eqb k' k then f c else 0)) mod two64.
Proof.
  intros [H0 Ha]. unfold getf. induction m as [|[k2 c2] m IH]; cbn.
  - destruct (key_eqb k' k); f_equal; lia.
  - destruct (key_eqb k2 k') eqn:E2; cbn.
    + apply key_eqb_eq in E2. subst k2. destruct (key_eqb k' k).
      * rewrite Ha, Zplus_mod_idemp_l. f_equal. lia.
      * f_equal. lia.
    + destruct (key_eqb k2 k).
      * rewrite <- Zplus_mod_idemp_r, IH, Zplus_mod_idemp_r. f_equal. lia.
      * exact IH.
Qed.

Lemma rsum_sel_cons f s k r t :
  rsum f (sel s k (r :: t)) = (if key_eqb (key_of (bin_row s r)) k then f (r_cnt r) else 0) + rsum f (sel s k t).
Proof. unfold sel, rsum. cbn. destruct (key_eqb (key_of (bin_row s r)) k); cbn; lia. Qed.

Lemma getf_fold f s k rows m : fieldlike f ->
  getf f k (fold_left (bin_step s) rows m) mod two64 = (getf f k m + rsum f (sel s k rows)) mod two64.
Proof.
  intros Hf. revert m. induction rows as [|r t IH]; intros m; cbn [fold_left].
  - f_equal. cbn. lia.
  - rewrite IH, rsum_sel_cons. unfold bin_step.
    rewrite <- Zplus_mod_idemp_l, getf_merge, Zplus_mod_idemp_l by exact Hf.
    rewrite bin_row_cnt. f_equal. lia.
Qed.

Lemma getf_notin f k m : ~ In k (keys m) -> getf f k m = 0.
Proof.
  unfold getf. induction m as [|[k2 c2] m IH]; cbn; [reflexivity|]. intros H.
  destruct (key_eqb k2 k) eqn:E; [apply key_eqb_eq in E; tauto|]. apply IH. tauto.
Qed.

Lemma getf_in f k c m : NoDup (keys m) -> In (k, c) m -> getf f k m = f c.
Proof.
  induction m as [|[k2 c2] m IH]; cbn; [tauto|]. intros Hn [H|H].
  - inversion H; subst. rewrite key_eqb_refl. inversion Hn; subst.
    fold (getf f k m). rewrite getf_notin by assumption. lia.
  - inversion Hn as [|? ? Hnot Hn']; subst.
    destruct (key_eqb k2 k) eqn:E.
    + apply key_eqb_eq in E. subst. exfalso. apply Hnot. change k with (fst (k, c)). apply in_map, H.
    + apply IH; assumption.
Qed.

Lemma bin_sum_field f s rows o : fieldlike f -> In o (bin_rows s rows) ->
  f (cnorm (r_cnt o)) = f (csum (sel s (key_of o) rows)).
Proof.
  intros Hf Ho. pose proof Hf as [H0 Ha]. unfold cnorm. rewrite Ha, H0, Z.add_0_r, csum_field by exact Hf.
  unfold bin_rows in Ho. apply in_map_iff in Ho. destruct Ho as ([k c] & <- & Hin).
  rewrite key_of_to_row. cbn [fst to_row r_cnt snd].
  rewrite <- (getf_in f k c (bin_map s rows)); [|apply fold_nodup; constructor|exact Hin].
  unfold bin_map. rewrite getf_fold by exact Hf. cbn. reflexivity.
Qed.

Lemma bin_sums s rows o : In o (bin_rows s rows) -> cnorm (r_cnt o) = csum (sel s (key_of o) rows).
Proof.
  intros Ho. apply counters_ext; apply bin_sum_field; auto using fl_br, fl_bs, fl_pr, fl_ps.
Qed.

(* ------------------------------------------------------------------ idempotence, order independent *)
Lemma to_row_of_row r : to_row (key_of r, r_cnt r) = r.
Proof. destruct r. reflexivity. Qed.

Lemma bin_rows_fixed s l : NoDup (map key_of l) -> Forall (fun r => key_fixed s (key_of r)) l ->
  bin_rows s l = l.
Proof.
  intros Hn Hf. set (m := map (fun r => (key_of r, r_cnt r)) l).
  assert (Hl : l = map to_row m).
  { unfold m. rewrite map_map. rewrite <- (map_id l) at 1. apply map_ext. intros r. symmetry. apply to_row_of_row. }
  assert (Hk : keys m = map key_of l) by (unfold keys, m; rewrite map_map; reflexivity).
  rewrite Hl at 1. unfold bin_rows, bin_map. rewrite refold.
  - cbn. symmetry. exact Hl.
  - change ([] ++ m) with m. rewrite Hk. exact Hn.
  - rewrite Hk. rewrite Forall_map. exact Hf.
Qed.

Lemma out_fixed s rows : s < two63 -> Forall row_ok rows ->
  Forall (fun r => key_fixed s (key_of r)) (bin_rows s rows).
Proof.
  intros Hs Hr. rewrite <- Forall_map. unfold bin_rows, bin_map. rewrite keys_of_rows.
  apply fold_fixed; [exact Hs|exact Hr|constructor].
Qed.

Lemma idempotent_perm s rows l : s < two63 -> Forall row_ok rows ->
  Permutation (bin_rows s rows) l -> bin_rows s l = l.
Proof.
  intros Hs Hr Hp. apply bin_rows_fixed.
  - eapply Permutation_NoDup; [apply Permutation_map, Hp|]. apply one_row_per_key.
  - eapply Permutation_Forall; [exact Hp|]. apply out_fixed; assumption.
Qed.
