(* C01 proofs, part 4: a concrete codec meeting the section hypotheses (used by the non-vacuity
   examples) and the refutation of the code as found (writeBlock without the seek back). *)
From Coq Require Import List ZArith NArith Bool Arith Lia.
From GoProbe.Base Require Import CorrLib.
From GoProbe.C01 Require Import Model ProofsIO ProofsBlock ProofsDir.
Import ListNotations.

(* a "compressor" that always expands: one tag byte in front; the decompressor drops it *)
Definition tag_enc (t : encT) (l : Z) (d : list N) : list N := 99%N :: d.
Definition tag_dec (t : encT) (b : list N) (cap : nat) : option (list N) := Some (firstn cap (tl b)).
Lemma tag_dec_enc : forall t l d, t = EZstd \/ t = ELz4 -> d <> [] -> tag_dec t (tag_enc t l d) (length d) = Some d.
Proof. intros. unfold tag_dec, tag_enc. simpl. rewrite firstn_all. reflexivity. Qed.
Lemma tag_enc_nonempty : forall t l d, t = EZstd \/ t = ELz4 -> d <> [] -> tag_enc t l d <> [].
Proof. intros. discriminate. Qed.

Definition big : list N := repeat 7%N (N.to_nat 4100).
Definition small : list N := [1; 2; 3]%N.
Definition cols1 (a b : list N) : list (list N) := a :: b :: repeat [] 6.

(* two days, three sessions, a duplicate timestamp, a reopened day, an invalid encoder *)
Definition ex_sessions : list (session (B := N)) :=
  [ mkS 19700 ELz4 0 [ mkOp 1000 (mkT 1 2 3) (mkC 4 5 6 18446744073709551615) (cols1 big small);
                        mkOp 1300 (mkT 1 0 0) (mkC 1 1 1 1) (cols1 small []);
                        mkOp 1000 (mkT 9 9 9) (mkC 9 9 9 9) (cols1 small small) ];
    mkS 19701 ENull 0 [ mkOp 90000 (mkT 5 5 5) (mkC 5 5 5 5) (cols1 big big) ];
    mkS 19700 ECust 0 [ mkOp 1600 (mkT 1 1 1) (mkC 1 1 1 1) (cols1 small small) ];
    mkS 19700 EZstd 3 [ mkOp 1600 (mkT 2 2 2) (mkC 2 2 2 2) (cols1 [] big) ] ]%Z.

Lemma ex_wf : wf_sessions ex_sessions.
Proof.
  unfold wf_sessions, ex_sessions, op_ok, fits.
  repeat (constructor; try (split; [reflexivity|])); vm_compute; reflexivity.
Qed.

Lemma ex_accepted : map o_ts (accepted 19700 ex_sessions) = [1000; 1300; 1600]%Z.
Proof. vm_compute. reflexivity. Qed.

Lemma ex_results : expected_results ex_sessions = [[true; true; false]; [true]; [false]; [true]].
Proof. vm_compute. reflexivity. Qed.

Lemma ex_read :
  fst (read_dir tag_dec (fs_get (fst (run_sessions 0%N tag_enc [] ex_sessions)) 19700) 0 reader0 0) = Ok big
  /\ fst (read_dir tag_dec (fs_get (fst (run_sessions 0%N tag_enc [] ex_sessions)) 19700) 1 reader0 2) = Ok big.
Proof. split; vm_compute; reflexivity. Qed.

Lemma ex_stats :
  m_total (reader_meta (fs_get (fst (run_sessions 0%N tag_enc [] ex_sessions)) 19700)) = mkT 4 4 5
  /\ m_counts (reader_meta (fs_get (fst (run_sessions 0%N tag_enc [] ex_sessions)) 19700)) = mkC 7 8 9 2.
Proof. split; vm_compute; reflexivity. Qed.

(* the writer after the first session's fallback block really sits at CurrentOffset = 4100 *)
Lemma ex_offsets :
  map (fun g => (g_open g, f_pos (w_file (g_w g)), h_cur (g_hdr g)))
      (firstn 2 (wd_cols (fst (write_ops 0%N tag_enc true ELz4 0 (open_dir ddir0)
                                          [mkOp 1000%Z (mkT 1 2 3) (mkC 4 5 6 7) (cols1 big small)]))))
  = [(true, N.to_nat 4100, 4100%N); (true, 3, 3%N)].
Proof. vm_compute. reflexivity. Qed.

(* ---------------------------------------------------------------- the code as found *)
(* without the seek back, the incompressible block of 4100 bytes (compressed form 4101 > 4096 bytes,
   written through by bufio) is read back wrong, the position invariant is broken, and so is the
   next block of the column *)
Lemma unfixed_refuted :
  exists ss day col i o,
    wf_sessions ss /\ nth_error (accepted day ss) i = Some o /\
    fst (read_dir tag_dec (fs_get (fst (run_sessions_gen 0%N tag_enc false [] ss)) day) col reader0 i)
    <> Ok (nth col (o_cols o) []).
Proof.
  exists ex_sessions, 19700%Z, 0, 0.
  eexists. split; [exact ex_wf|]. split; [vm_compute; reflexivity|].
  vm_compute. intro H. discriminate H.
Qed.

Lemma unfixed_offsets_refuted :
  exists (d : ddir (B := N)) t lvl ops,
    forallb entry_pos_ok (wd_cols (fst (write_ops 0%N tag_enc false t lvl (open_dir d) ops))) = false.
Proof.
  exists ddir0, ELz4, 0%Z, [mkOp 1000%Z (mkT 1 2 3) (mkC 4 5 6 7) (cols1 big small)].
  vm_compute. reflexivity.
Qed.
