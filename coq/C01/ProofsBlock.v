(* C01 proofs, part 2: one column file. Invariant of header + bytes, writeBlock preserves it,
   ReadBlockAtIndex returns the written data. *)
From Coq Require Import List ZArith NArith Bool Arith Lia.
From GoProbe.Base Require Import CorrLib.
From GoProbe.C01 Require Import Model ProofsIO.
Import ListNotations.

Lemma u32_small : forall n, (n < 4294967296)%N -> u32 n = n.
Proof. intros n H. unfold u32. apply N.mod_small. exact H. Qed.

Lemma Forall2_nth_error_r : forall {A C} (R : A -> C -> Prop) l1 l2 i y,
  Forall2 R l1 l2 -> nth_error l2 i = Some y -> exists x, nth_error l1 i = Some x /\ R x y.
Proof.
  intros A C R l1 l2 i y H. revert i. induction H; intros i Hi.
  - destruct i; discriminate.
  - destruct i; simpl in *.
    + inversion Hi; subst. eauto.
    + eauto.
Qed.

Lemma NoDup_app_snoc : forall {A} (l : list A) x, NoDup l -> ~ In x l -> NoDup (l ++ [x]).
Proof.
  intros A l x Hnd Hx. induction Hnd; simpl.
  - constructor; [intros []|constructor].
  - constructor.
    + rewrite in_app_iff. intros [H1|[H1|[]]].
      * contradiction.
      * subst. apply Hx. left. reflexivity.
    + apply IHHnd. intro H1. apply Hx. right. exact H1.
Qed.

(* ---------------------------------------------------------------- BlockIndex *)
Lemma index_from_notin : forall l i ts acc,
  ~ In ts (map b_ts l) -> index_from i l ts acc = acc.
Proof.
  induction l as [|b l IH]; intros i ts acc Hn; simpl; [reflexivity|].
  simpl in Hn. destruct (Z.eqb_spec (b_ts b) ts) as [E|E].
  - exfalso. apply Hn. left. exact E.
  - apply IH. intro H. apply Hn. right. exact H.
Qed.

Lemma index_from_in : forall l i ts acc,
  In ts (map b_ts l) -> exists j, index_from i l ts acc = Some j.
Proof.
  induction l as [|b l IH]; intros i ts acc Hin; simpl in *; [contradiction|].
  destruct (in_dec Z.eq_dec ts (map b_ts l)) as [H|H].
  - apply IH. exact H.
  - rewrite index_from_notin by exact H.
    destruct Hin as [E|E]; [|contradiction].
    rewrite E, Z.eqb_refl. eauto.
Qed.

Lemma index_from_nodup : forall l i j b acc,
  NoDup (map b_ts l) -> nth_error l j = Some b -> index_from i l (b_ts b) acc = Some (i + j).
Proof.
  induction l as [|a l IH]; intros i j b acc Hnd Hn; [destruct j; discriminate|].
  simpl in Hnd. inversion Hnd as [|? ? Hnotin Hnd']; subst.
  destruct j; simpl in *.
  - inversion Hn; subst. rewrite Z.eqb_refl. rewrite index_from_notin by exact Hnotin.
    f_equal. lia.
  - rewrite (IH (S i) j b _ Hnd' Hn). f_equal. lia.
Qed.

(* ---------------------------------------------------------------- offsets *)
Fixpoint offsets_ok (c : N) (l : list block) (cur : N) : Prop :=
  match l with
  | [] => c = cur
  | b :: l' => b_off b = c /\ offsets_ok (c + b_len b) l' cur
  end.

Lemma offsets_bound : forall l c cur, offsets_ok c l cur ->
  (c <= cur)%N /\ forall b, In b l -> (c <= b_off b)%N /\ (b_off b + b_len b <= cur)%N.
Proof.
  induction l as [|a l IH]; intros c cur H; simpl in H.
  - subst. split; [lia|]. intros b [].
  - destruct H as [Ho H]. destruct (IH _ _ H) as [Hc Hb]. split; [lia|].
    intros b [E|Hin].
    + subst b. split; lia.
    + destruct (Hb b Hin). split; lia.
Qed.

Lemma offsets_app : forall l c cur ts len raw e,
  offsets_ok c l cur -> offsets_ok c (l ++ [mkBlk ts cur len raw e]) (cur + len).
Proof.
  induction l as [|a l IH]; intros c cur ts len raw e H; simpl in *.
  - subst. split; reflexivity.
  - destruct H as [Ho H]. split; [exact Ho|]. apply IH. exact H.
Qed.

Lemma reoffset_id : forall l c cur, offsets_ok c l cur -> reoffset c l = l.
Proof.
  induction l as [|a l IH]; intros c cur H; simpl in *; [reflexivity|].
  destruct H as [Ho H]. rewrite (IH _ _ H). destruct a; simpl in *. subst. reflexivity.
Qed.

Section Block.
  Context {B : Type}.
  Variable zero : B.
  Variable enc : encT -> Z -> list B -> list B.
  Variable dec : encT -> list B -> nat -> option (list B).
  (* the library codecs restore what they were given, and never produce an empty frame *)
  Hypothesis dec_enc : forall t l d, t = EZstd \/ t = ELz4 -> d <> [] -> dec t (enc t l d) (length d) = Some d.
  Hypothesis enc_nonempty : forall t l d, t = EZstd \/ t = ELz4 -> d <> [] -> enc t l d <> [].

  Definition fits (d : list B) : Prop := (N.of_nat (length d) < 4294967296)%N.
  Definition entry := (Z * list B)%type.

  Definition stored_ok (t : encT) (stored d : list B) : Prop :=
    match t with
    | ENull => stored = d
    | ECust => False
    | _ => stored <> [] /\ dec t stored (length d) = Some d
    end.

  Definition blk_ok (bytes : list B) (b : block) (e : entry) : Prop :=
    b_ts b = fst e /\ b_raw b = N.of_nat (length (snd e)) /\ fits (snd e) /\
    (snd e = [] -> b_len b = 0%N) /\
    (snd e <> [] ->
     length (slice bytes (N.to_nat (b_off b)) (N.to_nat (b_len b))) = N.to_nat (b_len b) /\
     stored_ok (b_enc b) (slice bytes (N.to_nat (b_off b)) (N.to_nat (b_len b))) (snd e)).

  Definition col_inv (bytes : list B) (h : header) (lg : list entry) : Prop :=
    Forall2 (blk_ok bytes) (h_blocks h) lg /\ offsets_ok 0 (h_blocks h) (h_cur h) /\
    N.to_nat (h_cur h) <= length bytes /\ NoDup (map fst lg).

  Lemma col_inv_ts : forall bytes h lg, col_inv bytes h lg -> map b_ts (h_blocks h) = map fst lg.
  Proof.
    intros bytes h lg [H _]. induction H; simpl; [reflexivity|].
    destruct H as [E _]. rewrite E, IHForall2. reflexivity.
  Qed.

  Lemma blk_ok_prefix : forall bytes bytes' b e k,
    blk_ok bytes b e -> firstn k bytes = firstn k bytes' ->
    N.to_nat (b_off b) + N.to_nat (b_len b) <= k -> blk_ok bytes' b e.
  Proof.
    intros bytes bytes' b e k (H1 & H2 & H3 & H4 & H5) Hp Hk.
    repeat split; try assumption.
    - rewrite <- (slice_prefix bytes bytes' k) by assumption. apply H5. assumption.
    - rewrite <- (slice_prefix bytes bytes' k) by assumption. apply H5. assumption.
  Qed.

  (* appending one stored block at CurrentOffset *)
  Lemma col_inv_append : forall bytes h lg (f : file) ts d stored t2,
    col_inv bytes h lg ->
    firstn (N.to_nat (h_cur h)) (f_bytes f) = firstn (N.to_nat (h_cur h)) bytes ->
    f_pos f = N.to_nat (h_cur h) -> f_pos f <= length (f_bytes f) ->
    ~ In ts (map fst lg) -> fits d -> d <> [] -> length stored <= length d ->
    stored_ok t2 stored d ->
    col_inv (f_bytes (file_write zero f stored))
            (mkHdr (h_blocks h ++ [mkBlk ts (h_cur h) (u32 (N.of_nat (length stored)))
                                         (u32 (N.of_nat (length d))) t2])
                   (h_cur h + N.of_nat (length stored)))
            (lg ++ [(ts, d)]).
  Proof.
    intros bytes h lg f ts d stored t2 (HF & HO & HL & HN) Hpre Hpos Hlen Hts Hfit Hne Hsl Hst.
    assert (Hfs : (N.of_nat (length stored) < 4294967296)%N) by (unfold fits in Hfit; lia).
    rewrite (u32_small _ Hfs), (u32_small _ Hfit).
    destruct (file_write_length zero f stored Hlen) as [Hl1 Hl2].
    assert (Hprefix : firstn (N.to_nat (h_cur h)) bytes
                      = firstn (N.to_nat (h_cur h)) (f_bytes (file_write zero f stored))).
    { rewrite file_write_prefix by lia. symmetry. exact Hpre. }
    unfold col_inv. cbn [h_blocks h_cur]. repeat split.
    - apply Forall2_app.
      + destruct (offsets_bound _ _ _ HO) as [_ Hb].
        clear - HF Hb Hprefix.
        induction HF; constructor.
        * eapply blk_ok_prefix; [eassumption|exact Hprefix|].
          destruct (Hb x (or_introl eq_refl)). lia.
        * apply IHHF. intros b Hin. apply Hb. right. exact Hin.
      + constructor; [|constructor].
        unfold blk_ok. cbn [b_ts b_off b_len b_raw b_enc fst snd].
        split; [reflexivity|]. split; [reflexivity|]. split; [exact Hfit|].
        split; [intro; contradiction|]. intros _.
        rewrite Nat2N.id, <- Hpos. rewrite file_write_slice by exact Hlen.
        split; [reflexivity|exact Hst].
    - apply offsets_app. exact HO.
    - rewrite N2Nat.inj_add, Nat2N.id. lia.
    - rewrite map_app. simpl. apply NoDup_app_snoc; assumption.
  Qed.

  (* ---------------------------------------------------------------- writer *)
  Definition gpf_inv (g : gpf) (lg : list entry) : Prop :=
    w_buf (g_w g) = [] /\ col_inv (gpf_bytes g) (g_hdr g) lg /\
    (g_open g = true -> f_pos (w_file (g_w g)) = N.to_nat (h_cur (g_hdr g))).

  Lemma gpf_open_spec : forall g lg, gpf_inv g lg ->
    exists f, g_w (gpf_open g) = mkW f [] /\ f_bytes f = gpf_bytes g
              /\ f_pos f = N.to_nat (h_cur (g_hdr g)) /\ g_hdr (gpf_open g) = g_hdr g.
  Proof.
    intros g lg (Hb & _ & Hp). unfold gpf_open. destruct (g_open g) eqn:E.
    - exists (w_file (g_w g)). destruct g as [o [f b] h]; simpl in *. subst b.
      repeat split. apply Hp. reflexivity.
    - eexists. cbn [g_w g_hdr]. repeat split.
  Qed.

  Lemma stored_ok_compress : forall t lvl d,
    t <> ECust -> d <> [] -> stored_ok t (compress enc t lvl d) d.
  Proof.
    intros t lvl d Ht Hd. destruct t; simpl; try reflexivity; try contradiction.
    - split; [apply enc_nonempty|apply dec_enc]; auto.
    - split; [apply enc_nonempty|apply dec_enc]; auto.
  Qed.

  Lemma write_block_rejects : forall sb t lvl g lg ts d,
    gpf_inv g lg -> In ts (map fst lg) -> write_block_gen zero enc sb t lvl g ts d = Err.
  Proof.
    intros sb t lvl g lg ts d (_ & Hc & _) Hin. unfold write_block_gen, block_index.
    rewrite <- (col_inv_ts _ _ _ Hc) in Hin.
    destruct (index_from_in _ 0 ts None Hin) as [j Hj]. rewrite Hj. reflexivity.
  Qed.

  Lemma write_block_ok : forall t lvl g lg ts d,
    gpf_inv g lg -> ~ In ts (map fst lg) -> fits d -> t <> ECust ->
    exists g', write_block zero enc t lvl g ts d = Ok g' /\ gpf_inv g' (lg ++ [(ts, d)]).
  Proof.
    intros t lvl g lg ts d Hinv Hts Hfit Ht.
    pose proof Hinv as (Hbuf & Hc & Hpos).
    unfold write_block, write_block_gen, block_index.
    rewrite index_from_notin by (rewrite (col_inv_ts _ _ _ Hc); exact Hts).
    destruct d as [|x d'].
    - (* empty block: header only *)
      eexists. split; [reflexivity|].
      unfold gpf_inv. cbn [g_w g_hdr g_open]. split; [exact Hbuf|]. split.
      + destruct Hc as (HF & HO & HL & HN). unfold col_inv, add_block. cbn [h_blocks h_cur].
        repeat split.
        * apply Forall2_app; [exact HF|]. constructor; [|constructor].
          unfold blk_ok. cbn [b_ts b_off b_len b_raw b_enc fst snd length].
          split; [reflexivity|]. split; [reflexivity|]. split; [exact Hfit|].
          split; [reflexivity|]. intro H; contradiction H; reflexivity.
        * replace (h_cur (g_hdr g)) with (h_cur (g_hdr g) + 0)%N at 2 by lia.
          apply offsets_app. exact HO.
        * exact HL.
        * rewrite map_app. simpl. apply NoDup_app_snoc; assumption.
      + exact Hpos.
    - set (d := x :: d') in *.
      assert (Hne : d <> []) by discriminate.
      destruct (gpf_open_spec g lg Hinv) as (f & Hw & Hfb & Hfp & Hh).
      rewrite Hw, Hh.
      destruct Hc as (HF & HO & HL & HN).
      assert (Hc : col_inv (gpf_bytes g) (g_hdr g) lg) by (repeat split; assumption).
      assert (Hfl : f_pos f <= length (f_bytes f)) by (rewrite Hfb, Hfp; exact HL).
      destruct (Nat.ltb_spec (length d) (length (compress enc t lvl d))) as [Hlt|Hge].
      + (* compressed form larger than the raw data: re-encode uncompressed at CurrentOffset *)
        cbn [bw_reset w_file]. rewrite bw_write_flush.
        set (f1 := w_file (bw_write zero (mkW f []) (compress enc t lvl d))).
        assert (Hf1 : firstn (N.to_nat (h_cur (g_hdr g))) (f_bytes f1)
                      = firstn (N.to_nat (h_cur (g_hdr g))) (gpf_bytes g)
                      /\ N.to_nat (h_cur (g_hdr g)) <= length (f_bytes f1)).
        { destruct (bw_write_file zero f (compress enc t lvl d)) as [E|E]; fold f1 in E; rewrite E.
          - rewrite Hfb. split; [reflexivity|exact HL].
          - split.
            + rewrite file_write_prefix by lia. rewrite Hfb. reflexivity.
            + destruct (file_write_length zero f (compress enc t lvl d) Hfl). lia. }
        destruct Hf1 as [Hf1a Hf1b].
        eexists. split; [reflexivity|].
        unfold gpf_inv. cbn [g_w g_hdr g_open w_buf w_file]. split; [reflexivity|]. split.
        * unfold gpf_bytes. cbn [g_w w_file].
          apply (col_inv_append (gpf_bytes g) (g_hdr g) lg (file_seek f1 (N.to_nat (h_cur (g_hdr g)))) ts d d ENull);
            try assumption; try reflexivity.
        * intros _. rewrite file_write_pos. cbn [file_seek f_pos h_cur].
          rewrite N2Nat.inj_add, Nat2N.id. reflexivity.
      + rewrite bw_write_flush.
        eexists. split; [reflexivity|].
        unfold gpf_inv. cbn [g_w g_hdr g_open w_buf w_file]. split; [reflexivity|]. split.
        * unfold gpf_bytes. cbn [g_w w_file].
          apply (col_inv_append (gpf_bytes g) (g_hdr g) lg f ts d (compress enc t lvl d) t);
            try assumption.
          -- rewrite Hfb. reflexivity.
          -- apply stored_ok_compress; assumption.
        * intros _. rewrite file_write_pos, Hfp. cbn [h_cur].
          rewrite N2Nat.inj_add, Nat2N.id. reflexivity.
  Qed.

  (* the writer invariant "file position = CurrentOffset, nothing buffered" alone needs no hypothesis *)
  Lemma write_block_pos : forall t lvl g ts d g',
    entry_pos_ok g = true -> write_block zero enc t lvl g ts d = Ok g' -> entry_pos_ok g' = true.
  Proof.
    intros t lvl g ts d g' Hp. unfold write_block, write_block_gen.
    destruct (block_index (g_hdr g) ts); [discriminate|].
    destruct d as [|x d'].
    - intro H. inversion H; subst. exact Hp.
    - assert (Hopen : exists f, g_w (gpf_open g) = mkW f [] /\ f_pos f = N.to_nat (h_cur (g_hdr (gpf_open g)))).
      { unfold gpf_open. unfold entry_pos_ok in Hp. destruct (g_open g) eqn:E.
        - apply andb_prop in Hp. destruct Hp as [H1 H2].
          apply Nat.eqb_eq in H1. apply Nat.eqb_eq in H2.
          destruct g as [o [f b] h]; simpl in *. destruct b; [|discriminate].
          exists f. split; [reflexivity|exact H1].
        - eexists. split; reflexivity. }
      destruct Hopen as (f & Hw & Hfp). rewrite Hw.
      cbv beta iota. remember (x :: d') as d eqn:Ed. clear Ed.
      destruct (length d <? length (compress enc t lvl d)).
      + cbn [bw_reset w_file]. rewrite bw_write_flush. intro H. injection H as H. rewrite <- H. clear H.
        unfold entry_pos_ok. cbn [g_open g_w g_hdr w_file w_buf h_cur length].
        rewrite file_write_pos. cbn [file_seek f_pos].
        rewrite N2Nat.inj_add, Nat2N.id, !Nat.eqb_refl. reflexivity.
      + rewrite bw_write_flush. intro H. injection H as H. rewrite <- H. clear H.
        unfold entry_pos_ok. cbn [g_open g_w g_hdr w_file w_buf h_cur length].
        rewrite file_write_pos, Hfp.
        rewrite N2Nat.inj_add, Nat2N.id, !Nat.eqb_refl. reflexivity.
  Qed.

  (* ---------------------------------------------------------------- reader *)
  Lemma read_block_ok : forall bytes h lg r i ts d,
    col_inv bytes h lg -> nth_error lg i = Some (ts, d) -> r_pos r = r_last r ->
    exists r', read_block dec bytes h r i = (Ok d, r') /\ r_pos r' = r_last r'.
  Proof.
    intros bytes h lg r i ts d (HF & _) Hn Hr.
    destruct (Forall2_nth_error_r _ _ _ _ _ HF Hn) as (b & Hb & Hts & Hraw & Hfit & Hz & Hdat).
    cbn [fst snd] in *.
    unfold read_block. rewrite Hb.
    destruct d as [|x d'].
    - rewrite Hraw. cbn. exists r. split; [reflexivity|exact Hr].
    - set (d := x :: d') in *.
      assert (Hne : d <> []) by discriminate.
      destruct (Hdat Hne) as [Hlen Hst].
      assert (Hr0 : N.eqb (b_raw b) 0 = false).
      { apply N.eqb_neq. rewrite Hraw. subst d. cbn [length]. lia. }
      rewrite Hr0.
      set (off := N.to_nat (b_off b)) in *.
      assert (Hpos : (if negb (Nat.eqb off (r_last r)) then off else r_pos r) = off).
      { destruct (Nat.eqb_spec off (r_last r)) as [E|E]; simpl; [lia|reflexivity]. }
      assert (Hlast : (if negb (Nat.eqb off (r_last r)) then off else r_last r) = off).
      { destruct (Nat.eqb_spec off (r_last r)) as [E|E]; simpl; [lia|reflexivity]. }
      rewrite Hpos, Hlast.
      unfold slice in Hlen, Hst. fold off in Hlen, Hst.
      destruct (b_enc b) eqn:Eb; cbn [stored_ok] in Hst.
      + contradiction.
      + (* null: read RawLen bytes *)
        assert (Hlr : N.to_nat (b_raw b) = N.to_nat (b_len b)).
        { rewrite Hraw, Nat2N.id. rewrite <- Hlen, Hst. reflexivity. }
        rewrite Hlr, Hlen, Nat.eqb_refl. rewrite Hst.
        eexists. split; [reflexivity|]. reflexivity.
      + destruct Hst as [Hnz Hdec].
        rewrite Hlen, Nat.eqb_refl. cbn [negb].
        assert (Hl0 : N.eqb (b_len b) 0 = false).
        { apply N.eqb_neq. intro E. apply Hnz. rewrite E. reflexivity. }
        rewrite Hl0, Hraw, Nat2N.id, Hdec, Nat.eqb_refl.
        eexists. split; [reflexivity|]. reflexivity.
      + destruct Hst as [Hnz Hdec].
        rewrite Hlen, Nat.eqb_refl. cbn [negb].
        assert (Hl0 : N.eqb (b_len b) 0 = false).
        { apply N.eqb_neq. intro E. apply Hnz. rewrite E. reflexivity. }
        rewrite Hl0, Hraw, Nat2N.id, Hdec, Nat.eqb_refl.
        eexists. split; [reflexivity|]. reflexivity.
  Qed.

  Lemma block_index_ok : forall bytes h lg i ts d,
    col_inv bytes h lg -> nth_error lg i = Some (ts, d) -> block_index h ts = Some i.
  Proof.
    intros bytes h lg i ts d Hc Hn.
    pose proof (col_inv_ts _ _ _ Hc) as Hts.
    destruct Hc as (HF & _ & _ & HN).
    destruct (Forall2_nth_error_r _ _ _ _ _ HF Hn) as (b & Hb & Hbt & _).
    cbn in Hbt. subst ts. unfold block_index.
    rewrite (index_from_nodup (h_blocks h) 0 i b None); [reflexivity| |exact Hb].
    rewrite Hts. exact HN.
  Qed.
End Block.
