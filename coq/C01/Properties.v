(* C01 property theorems. Nothing but statements closed by `exact`, Print Assumptions, and one
   non-vacuity example per theorem.

   Common premises. [dec]/[enc] are the library codecs: ANY functions with the two stated properties
   (round trip on non-empty data; a compressed frame is never empty). A history [ss] is ANY list of
   writer sessions (any days, encoders, levels, contents) whose WriteBlocks arguments have one payload
   per column (Go: [8][]byte) of less than 4 GiB each (the format stores lengths as uint32). *)
From Coq Require Import List ZArith NArith Bool Arith.
From GoProbe.Base Require Import CorrLib.
From GoProbe.C01 Require Import Model ProofsIO ProofsBlock ProofsDir ProofsExample.
Import ListNotations.

(* Every block of every accepted WriteBlocks call is found, in the final state of the database, under
   the timestamp it was written for and is read back (by a reader in any consistent seek state, so in
   any read order) as exactly the bytes that were written, for every column. *)
Theorem c01_readback :
  forall (B : Type) (zero : B) (enc : encT -> Z -> list B -> list B)
         (dec : encT -> list B -> nat -> option (list B)),
    (forall t l d, t = EZstd \/ t = ELz4 -> d <> [] -> dec t (enc t l d) (length d) = Some d) ->
    (forall t l d, t = EZstd \/ t = ELz4 -> d <> [] -> enc t l d <> []) ->
    forall ss : list session,
      Forall (fun s => Forall (fun o => length (o_cols o) = ncols /\
                                        Forall (fun d => (N.of_nat (length d) < 4294967296)%N) (o_cols o))
                              (s_ops s)) ss ->
      forall day col i o r,
        col < ncols -> nth_error (accepted day ss) i = Some o -> r_pos r = r_last r ->
        let d := fs_get (fst (run_sessions zero enc [] ss)) day in
        block_index (dir_header d col) (o_ts o) = Some i
        /\ exists r', read_dir dec d col r i = (Ok (nth col (o_cols o) []), r') /\ r_pos r' = r_last r'.
Proof. exact (@readback_ok). Qed.
Print Assumptions c01_readback.

(* WriteBlocks succeeds exactly when the encoder type is valid and the timestamp is not yet stored in
   the day: [accepted] (the specification-side bookkeeping the other theorems refer to) is what the
   implementation model really accepted. *)
Theorem c01_results :
  forall (B : Type) (zero : B) (enc : encT -> Z -> list B -> list B)
         (dec : encT -> list B -> nat -> option (list B)),
    (forall t l d, t = EZstd \/ t = ELz4 -> d <> [] -> dec t (enc t l d) (length d) = Some d) ->
    (forall t l d, t = EZstd \/ t = ELz4 -> d <> [] -> enc t l d <> []) ->
    forall ss : list session,
      Forall (fun s => Forall (fun o => length (o_cols o) = ncols /\
                                        Forall (fun d => (N.of_nat (length d) < 4294967296)%N) (o_cols o))
                              (s_ops s)) ss ->
      snd (run_sessions zero enc [] ss) = expected_results ss.
Proof. exact (@results_ok). Qed.
Print Assumptions c01_results.

(* The per-block traffic summaries and the per-day totals (uint64, wrapping) a reader sees equal what
   was passed to the accepted WriteBlocks calls. *)
Theorem c01_stats :
  forall (B : Type) (zero : B) (enc : encT -> Z -> list B -> list B)
         (dec : encT -> list B -> nat -> option (list B)),
    (forall t l d, t = EZstd \/ t = ELz4 -> d <> [] -> dec t (enc t l d) (length d) = Some d) ->
    (forall t l d, t = EZstd \/ t = ELz4 -> d <> [] -> enc t l d <> []) ->
    forall (ss : list session) (day : Z),
      Forall (fun s => Forall (fun o => length (o_cols o) = ncols /\
                                        Forall (fun d => (N.of_nat (length d) < 4294967296)%N) (o_cols o))
                              (s_ops s)) ss ->
      let m := reader_meta (fs_get (fst (run_sessions zero enc [] ss)) day) in
      m_traffic m = map o_tm (accepted day ss)
      /\ m_total m = sum_tmeta (accepted day ss)
      /\ m_counts m = sum_counters (accepted day ss).
Proof. exact (@stats_ok). Qed.
Print Assumptions c01_stats.

(* At every writeBlock entry of a session on ANY day directory (no premise at all, any codec, any
   contents) every open column file is positioned at CurrentOffset with nothing buffered. *)
Theorem c01_offsets :
  forall (B : Type) (zero : B) (enc : encT -> Z -> list B -> list B)
         (d : ddir) (t : encT) (lvl : Z) (ops : list wop),
    forallb entry_pos_ok (wd_cols (fst (write_ops zero enc true t lvl (open_dir d) ops))) = true.
Proof. exact (@offsets_ok_all). Qed.
Print Assumptions c01_offsets.

(* The code as found (no seek back before the null re-encode) violates c01_readback and c01_offsets:
   this is the defect repaired by `fix: rewind the column file ...`. *)
Theorem c01_unfixed_refuted :
  (exists ss day col i o,
      wf_sessions ss /\ nth_error (accepted day ss) i = Some o /\
      fst (read_dir tag_dec (fs_get (fst (run_sessions_gen 0%N tag_enc false [] ss)) day) col reader0 i)
      <> Ok (nth col (o_cols o) []))
  /\ (exists (d : ddir (B := N)) t lvl ops,
         forallb entry_pos_ok (wd_cols (fst (write_ops 0%N tag_enc false t lvl (open_dir d) ops))) = false).
Proof. exact (conj unfixed_refuted unfixed_offsets_refuted). Qed.
Print Assumptions c01_unfixed_refuted.

(* ---------------------------------------------------------------- non-vacuity *)
(* a codec meeting both hypotheses, a history meeting the premise with a 4100-byte incompressible block
   (fallback with write-through), a duplicate timestamp, an invalid encoder, a reopened day *)
Example c01_readback_example :
  (forall t l d, t = EZstd \/ t = ELz4 -> d <> [] -> tag_dec t (tag_enc t l d) (length d) = Some d)
  /\ (forall t l d, t = EZstd \/ t = ELz4 -> d <> [] -> tag_enc t l d <> [])
  /\ wf_sessions ex_sessions
  /\ map o_ts (accepted 19700 ex_sessions) = [1000; 1300; 1600]%Z
  /\ fst (read_dir tag_dec (fs_get (fst (run_sessions 0%N tag_enc [] ex_sessions)) 19700) 0 reader0 0) = Ok big
  /\ fst (read_dir tag_dec (fs_get (fst (run_sessions 0%N tag_enc [] ex_sessions)) 19700) 1 reader0 2) = Ok big.
Proof.
  exact (conj tag_dec_enc (conj tag_enc_nonempty (conj ex_wf (conj ex_accepted ex_read)))).
Qed.

Example c01_results_example :
  wf_sessions ex_sessions /\ expected_results ex_sessions = [[true; true; false]; [true]; [false]; [true]].
Proof. exact (conj ex_wf ex_results). Qed.

Example c01_stats_example :
  wf_sessions ex_sessions
  /\ m_total (reader_meta (fs_get (fst (run_sessions 0%N tag_enc [] ex_sessions)) 19700)) = mkT 4 4 5
  /\ m_counts (reader_meta (fs_get (fst (run_sessions 0%N tag_enc [] ex_sessions)) 19700)) = mkC 7 8 9 2.
Proof. exact (conj ex_wf ex_stats). Qed.

Example c01_offsets_example :
  map (fun g => (g_open g, f_pos (w_file (g_w g)), h_cur (g_hdr g)))
      (firstn 2 (wd_cols (fst (write_ops 0%N tag_enc true ELz4 0 (open_dir ddir0)
                                          [mkOp 1000%Z (mkT 1 2 3) (mkC 4 5 6 7) (cols1 big small)]))))
  = [(true, N.to_nat 4100, 4100%N); (true, 3, 3%N)].
Proof. exact ex_offsets. Qed.
