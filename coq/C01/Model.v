(* C01 model: goDB column files (gpfile.GPFile) and day directories (gpfile.GPDir).
   Executable definitions only.

   Anchors: pkg/goDB/storage/gpfile/gpfile.go (open, writeBlock, ReadBlockAtIndex),
            pkg/goDB/storage/gpfile/gpdir.go (Open, WriteBlocks, Close, Unmarshal's offset reconstruction),
            pkg/goDB/storage/storage.go (BlockHeader), Go's bufio.Writer (Write, Flush, Reset).

   The model is polymorphic in the byte type [B]; the compressor is a section variable. *)
From Coq Require Import List ZArith NArith Bool Arith.
From GoProbe.Base Require Import CorrLib.
Import ListNotations.

(* encoders.Type: 0 lz4cust (deprecated, encoder.New fails), 1 null, 2 zstd, 3 lz4 *)
Inductive encT := ECust | ENull | EZstd | ELz4.

Definition encT_eqb (a b : encT) : bool :=
  match a, b with
  | ECust, ECust | ENull, ENull | EZstd, EZstd | ELz4, ELz4 => true
  | _, _ => false
  end.

(* bufio.defaultBufSize *)
Definition bufsz : nat := 4096.

(* uint32(x) *)
Definition u32 (n : N) : N := (n mod 4294967296)%N.
(* uint64 addition *)
Definition add64 (a b : N) : N := ((a + b) mod 18446744073709551616)%N.

(* storage.BlockAtTime *)
Record block := mkBlk { b_ts : Z; b_off : N; b_len : N; b_raw : N; b_enc : encT }.
(* storage.BlockHeader *)
Record header := mkHdr { h_blocks : list block; h_cur : N }.

Definition empty_header : header := mkHdr [] 0.

(* BlockHeader.BlockIndex: a map ts -> index filled in list order, so the last entry wins *)
Fixpoint index_from (i : nat) (l : list block) (ts : Z) (acc : option nat) : option nat :=
  match l with
  | [] => acc
  | b :: l' => index_from (S i) l' ts (if Z.eqb (b_ts b) ts then Some i else acc)
  end.
Definition block_index (h : header) (ts : Z) : option nat := index_from 0 (h_blocks h) ts None.

(* BlockHeader.AddBlock *)
Definition add_block (h : header) (b : block) : header := mkHdr (h_blocks h ++ [b]) (h_cur h).

(* TrafficMetadata, types.Counters (uint64 fields) *)
Record tmeta := mkT { t_v4 : N; t_v6 : N; t_drops : N }.
Record counters := mkC { c_br : N; c_bs : N; c_pr : N; c_ps : N }.
Definition tmeta_add (a b : tmeta) : tmeta :=
  mkT (add64 (t_v4 a) (t_v4 b)) (add64 (t_v6 a) (t_v6 b)) (add64 (t_drops a) (t_drops b)).
Definition counters_add (a b : counters) : counters :=
  mkC (add64 (c_br a) (c_br b)) (add64 (c_bs a) (c_bs b)) (add64 (c_pr a) (c_pr b)) (add64 (c_ps a) (c_ps b)).
Definition tmeta0 := mkT 0 0 0.
Definition counters0 := mkC 0 0 0 0.

(* gpfile.Metadata *)
Record meta := mkM { m_hdrs : list header; m_traffic : list tmeta; m_total : tmeta; m_counts : counters }.

(* number of columns: types.ColIdxCount *)
Definition ncols : nat := 8.
Definition new_meta : meta := mkM (repeat empty_header ncols) [] tmeta0 counters0.

(* GPDir.Unmarshal rebuilds the block offsets as the running sum of the stored lengths *)
Fixpoint reoffset (cur : N) (l : list block) : list block :=
  match l with
  | [] => []
  | b :: l' => mkBlk (b_ts b) cur (b_len b) (b_raw b) (b_enc b) :: reoffset (cur + b_len b)%N l'
  end.
Definition reload_header (h : header) : header := mkHdr (reoffset 0 (h_blocks h)) (h_cur h).
(* what a later Open sees of the metadata a Close persisted (the byte format itself is C03's) *)
Definition reload (m : meta) : meta :=
  mkM (map reload_header (m_hdrs m)) (m_traffic m) (m_total m) (m_counts m).

Definition eff_level (l : Z) : Z := if (0 <? l)%Z then l else 6%Z.

Section Storage.
  Context {B : Type}.
  Variable zero : B.                                   (* content of a hole in a sparse file *)
  Variable enc : encT -> Z -> list B -> list B.        (* library compressor (type, level) *)
  Variable dec : encT -> list B -> nat -> option (list B).  (* library decompressor, output capacity *)

  (* ---------------------------------------------------------------- os.File *)
  Record file := mkFile { f_bytes : list B; f_pos : nat }.

  (* Write at the current position (no O_APPEND): overwrites, extends, zero-fills a gap *)
  Definition file_write (f : file) (p : list B) : file :=
    match p with
    | [] => f
    | _ => mkFile (firstn (f_pos f) (f_bytes f) ++ repeat zero (f_pos f - length (f_bytes f))
                   ++ p ++ skipn (f_pos f + length p) (f_bytes f))
                  (f_pos f + length p)
    end.
  Definition file_seek (f : file) (o : nat) : file := mkFile (f_bytes f) o.

  (* ---------------------------------------------------------------- bufio.Writer *)
  Record bufw := mkW { w_file : file; w_buf : list B }.
  Definition bw_avail (w : bufw) : nat := bufsz - length (w_buf w).
  Definition bw_flush (w : bufw) : bufw :=
    match w_buf w with
    | [] => w
    | b => mkW (file_write (w_file w) b) []
    end.
  Definition bw_reset (w : bufw) : bufw := mkW (w_file w) [].
  (* Write: while len(p) > Available(): an empty buffer writes p straight to the file,
     otherwise fill the buffer, flush, continue; then copy the rest into the buffer *)
  Definition bw_write (w : bufw) (p : list B) : bufw :=
    if length p <=? bw_avail w then mkW (w_file w) (w_buf w ++ p)
    else match w_buf w with
         | [] => mkW (file_write (w_file w) p) []
         | _ =>
           let a := firstn (bw_avail w) p in
           let rest := skipn (bw_avail w) p in
           let w1 := bw_flush (mkW (w_file w) (w_buf w ++ a)) in
           if length rest <=? bufsz then mkW (w_file w1) rest
           else mkW (file_write (w_file w1) rest) []
         end.

  (* ---------------------------------------------------------------- GPFile (write mode) *)
  (* g_open = (g.file != nil); before open() the file component only carries the on-disk bytes *)
  Record gpf := mkG { g_open : bool; g_w : bufw; g_hdr : header }.

  Definition gpf_bytes (g : gpf) : list B := f_bytes (w_file (g_w g)).

  (* GPFile.open in ModeWrite: seek to CurrentOffset, new bufio.Writer *)
  Definition gpf_open (g : gpf) : gpf :=
    if g_open g then g
    else mkG true (mkW (file_seek (w_file (g_w g)) (N.to_nat (h_cur (g_hdr g)))) []) (g_hdr g).

  Definition compress (t : encT) (lvl : Z) (d : list B) : list B :=
    match t with
    | ENull => d
    | _ => enc t (eff_level lvl) d
    end.

  (* GPFile.writeBlock.  [seekback] = the repaired code (seek the file back to CurrentOffset before the
     null re-encode); [false] is the code as found, kept for the refutation example *)
  Definition write_block_gen (seekback : bool) (t : encT) (lvl : Z) (g : gpf) (ts : Z) (d : list B) : res gpf :=
    match block_index (g_hdr g) ts with
    | Some _ => Err
    | None =>
      match d with
      | [] => Ok (mkG (g_open g) (g_w g) (add_block (g_hdr g) (mkBlk ts (h_cur (g_hdr g)) 0 0 ENull)))
      | _ =>
        let g1 := gpf_open g in
        let cur := h_cur (g_hdr g1) in
        let e := compress t lvl d in
        let w1 := bw_write (g_w g1) e in
        let '(w2, n, t2) :=
          if length d <? length e
          then (bw_write (let w := bw_reset w1 in
                          if seekback then mkW (file_seek (w_file w) (N.to_nat cur)) [] else w) d,
                length d, ENull)
          else (w1, length e, t) in
        let w3 := bw_flush w2 in
        Ok (mkG true w3
                (mkHdr (h_blocks (g_hdr g1) ++
                        [mkBlk ts cur (u32 (N.of_nat n)) (u32 (N.of_nat (length d))) t2])
                       (cur + N.of_nat n)%N))
      end
    end.
  Definition write_block := write_block_gen true.

  (* ---------------------------------------------------------------- GPFile (read mode) *)
  (* file position and lastSeekPos of a reading GPFile *)
  Record reader := mkR { r_pos : nat; r_last : nat }.
  Definition reader0 := mkR 0 0.

  (* GPFile.ReadBlockAtIndex *)
  Definition read_block (bytes : list B) (h : header) (r : reader) (i : nat) : res (list B) * reader :=
    match nth_error (h_blocks h) i with
    | None => (Panic, r)
    | Some b =>
      if N.eqb (b_raw b) 0 then (Ok [], r)
      else
        let off := N.to_nat (b_off b) in
        let seek := negb (Nat.eqb off (r_last r)) in
        let pos := if seek then off else r_pos r in
        let last := if seek then off else r_last r in
        match b_enc b with
        | ECust => (Err, mkR pos last)
        | ENull =>
          let got := firstn (N.to_nat (b_raw b)) (skipn pos bytes) in
          if Nat.eqb (length got) (N.to_nat (b_raw b))
          then (Ok got, mkR (pos + length got) (last + N.to_nat (b_len b)))
          else (Err, mkR (pos + length got) last)
        | t =>
          let got := firstn (N.to_nat (b_len b)) (skipn pos bytes) in
          let r' := mkR (pos + length got) last in
          if negb (Nat.eqb (length got) (N.to_nat (b_len b))) then (Err, r')
          else if N.eqb (b_len b) 0 then (Panic, r')
          else match dec t got (N.to_nat (b_raw b)) with
               | Some out =>
                 if Nat.eqb (length out) (N.to_nat (b_raw b))
                 then (Ok out, mkR (pos + length got) (last + N.to_nat (b_len b)))
                 else (Err, r')
               | None => (Err, r')
               end
        end
    end.

  (* ---------------------------------------------------------------- GPDir *)
  Record wop := mkOp { o_ts : Z; o_tm : tmeta; o_cnt : counters; o_cols : list (list B) }.
  Record session := mkS { s_day : Z; s_enc : encT; s_lvl : Z; s_ops : list wop }.

  (* a day directory on disk: the column files and the persisted metadata *)
  Record ddir := mkD { d_files : list (list B); d_meta : option meta }.
  Definition ddir0 : ddir := mkD (repeat [] ncols) None.

  (* an open GPDir in write mode *)
  Record wdir := mkWD { wd_cols : list gpf; wd_traffic : list tmeta; wd_total : tmeta; wd_counts : counters }.

  Definition meta_of (d : ddir) : meta :=
    match d_meta d with
    | None => new_meta
    | Some m => reload m
    end.

  (* GPDir.Open (write mode); the column GPFiles are created on demand from the loaded headers *)
  Definition open_dir (d : ddir) : wdir :=
    let m := meta_of d in
    mkWD (map (fun bh => mkG false (mkW (mkFile (fst bh) 0) []) (snd bh)) (combine (d_files d) (m_hdrs m)))
         (m_traffic m) (m_total m) (m_counts m).

  (* the column loop of GPDir.WriteBlocks: stops at the first failing column *)
  Fixpoint write_cols (sb : bool) (t : encT) (lvl : Z) (ts : Z) (gs : list gpf) (ds : list (list B)) : list gpf * bool :=
    match gs, ds with
    | g :: gs', d :: ds' =>
      match write_block_gen sb t lvl g ts d with
      | Ok g' => let '(r, ok) := write_cols sb t lvl ts gs' ds' in (g' :: r, ok)
      | _ => (g :: gs', false)
      end
    | _, _ => (gs, true)
    end.

  (* GPDir.WriteBlocks *)
  Definition write_blocks_gen (sb : bool) (t : encT) (lvl : Z) (w : wdir) (o : wop) : wdir * bool :=
    match t with
    | ECust => (w, false)                     (* encoder.New fails in Column(0) *)
    | _ =>
      let '(cols, ok) := write_cols sb t lvl (o_ts o) (wd_cols w) (o_cols o) in
      if ok then (mkWD cols (wd_traffic w ++ [o_tm o]) (tmeta_add (wd_total w) (o_tm o))
                       (counters_add (wd_counts w) (o_cnt o)), true)
      else (mkWD cols (wd_traffic w) (wd_total w) (wd_counts w), false)
    end.

  Fixpoint write_ops (sb : bool) (t : encT) (lvl : Z) (w : wdir) (ops : list wop) : wdir * list bool :=
    match ops with
    | [] => (w, [])
    | o :: ops' =>
      let '(w1, ok) := write_blocks_gen sb t lvl w o in
      let '(w2, oks) := write_ops sb t lvl w1 ops' in
      (w2, ok :: oks)
    end.

  (* GPDir.Close (write mode): files closed (nothing is buffered), metadata persisted *)
  Definition close_dir (w : wdir) : ddir :=
    mkD (map gpf_bytes (wd_cols w))
        (Some (mkM (map g_hdr (wd_cols w)) (wd_traffic w) (wd_total w) (wd_counts w))).

  (* one writer session on a day directory: NewDirWriter; Open; WriteBlocks*; Close *)
  Definition run_session_gen (sb : bool) (d : ddir) (s : session) : ddir * list bool :=
    let '(w, oks) := write_ops sb (s_enc s) (s_lvl s) (open_dir d) (s_ops s) in
    (close_dir w, oks).

  (* the database: day -> directory *)
  Definition fs := list (Z * ddir).
  Fixpoint fs_get (f : fs) (day : Z) : ddir :=
    match f with
    | [] => ddir0
    | (k, d) :: f' => if Z.eqb k day then d else fs_get f' day
    end.
  Fixpoint fs_set (f : fs) (day : Z) (d : ddir) : fs :=
    match f with
    | [] => [(day, d)]
    | (k, d0) :: f' => if Z.eqb k day then (k, d) :: f' else (k, d0) :: fs_set f' day d
    end.

  Fixpoint run_sessions_gen (sb : bool) (f : fs) (ss : list session) : fs * list (list bool) :=
    match ss with
    | [] => (f, [])
    | s :: ss' =>
      let '(d, oks) := run_session_gen sb (fs_get f (s_day s)) s in
      let '(f', r) := run_sessions_gen sb (fs_set f (s_day s) d) ss' in
      (f', oks :: r)
    end.
  Definition run_sessions := run_sessions_gen true.

  (* ---------------------------------------------------------------- reading a day directory *)
  (* NewDirReader; Open: the metadata as a reader sees it *)
  Definition reader_meta (d : ddir) : meta := meta_of d.

  Definition dir_header (d : ddir) (col : nat) : header := nth col (m_hdrs (reader_meta d)) empty_header.
  Definition dir_bytes (d : ddir) (col : nat) : list B := nth col (d_files d) [].

  (* GPDir.ReadBlockAtIndex on column [col] whose GPFile is in reader state [r] *)
  Definition read_dir (d : ddir) (col : nat) (r : reader) (i : nat) : res (list B) * reader :=
    read_block (dir_bytes d col) (dir_header d col) r i.

  (* a sequence of reads on one column file *)
  Fixpoint read_seq (bytes : list B) (h : header) (r : reader) (is : list nat) : list (res (list B)) :=
    match is with
    | [] => []
    | i :: is' => let '(x, r') := read_block bytes h r i in x :: read_seq bytes h r' is'
    end.

  (* ---------------------------------------------------------------- specification side *)
  (* the write operations a day accepts: valid encoder, timestamp not stored before *)
  Definition seen (ts : Z) (acc : list wop) : bool := existsb (fun o => Z.eqb (o_ts o) ts) acc.

  Fixpoint accept_ops (t : encT) (acc : list wop) (ops : list wop) : list wop * list bool :=
    match ops with
    | [] => (acc, [])
    | o :: ops' =>
      let ok := negb (encT_eqb t ECust) && negb (seen (o_ts o) acc) in
      let '(acc', r) := accept_ops t (if ok then acc ++ [o] else acc) ops' in
      (acc', ok :: r)
    end.

  (* specification state: day -> accepted operations in write order *)
  Definition spec := list (Z * list wop).
  Fixpoint spec_get (f : spec) (day : Z) : list wop :=
    match f with
    | [] => []
    | (k, d) :: f' => if Z.eqb k day then d else spec_get f' day
    end.
  Fixpoint spec_set (f : spec) (day : Z) (d : list wop) : spec :=
    match f with
    | [] => [(day, d)]
    | (k, d0) :: f' => if Z.eqb k day then (k, d) :: f' else (k, d0) :: spec_set f' day d
    end.
  (* which WriteBlocks calls must succeed, and what each day holds afterwards *)
  Fixpoint spec_run (f : spec) (ss : list session) : spec * list (list bool) :=
    match ss with
    | [] => (f, [])
    | s :: ss' =>
      let '(acc, oks) := accept_ops (s_enc s) (spec_get f (s_day s)) (s_ops s) in
      let '(f', r) := spec_run (spec_set f (s_day s) acc) ss' in
      (f', oks :: r)
    end.
  Definition accepted (day : Z) (ss : list session) : list wop := spec_get (fst (spec_run [] ss)) day.
  Definition expected_results (ss : list session) : list (list bool) := snd (spec_run [] ss).

  Definition sum_tmeta (l : list wop) : tmeta := fold_left (fun a o => tmeta_add a (o_tm o)) l tmeta0.
  Definition sum_counters (l : list wop) : counters := fold_left (fun a o => counters_add a (o_cnt o)) l counters0.

  (* file position of the writer at writeBlock entry, once the file is open *)
  Definition entry_pos_ok (g : gpf) : bool :=
    if g_open g then Nat.eqb (f_pos (w_file (g_w g))) (N.to_nat (h_cur (g_hdr g))) && Nat.eqb (length (w_buf (g_w g))) 0
    else true.
End Storage.

Arguments mkFile {B}.
Arguments mkW {B}.
Arguments mkG {B}.
Arguments mkOp {B}.
Arguments mkS {B}.
Arguments mkD {B}.
Arguments mkWD {B}.
Arguments ddir0 {B}.
