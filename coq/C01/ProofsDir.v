(* C01 proofs, part 3: day directories, sessions, the whole history. *)
From Coq Require Import List ZArith NArith Bool Arith Lia.
From GoProbe.Base Require Import CorrLib.
From GoProbe.C01 Require Import Model ProofsIO ProofsBlock.
Import ListNotations.

Lemma Forall2_map_l : forall {A A' C} (f : A -> A') (R : A' -> C -> Prop) l l',
  Forall2 (fun x y => R (f x) y) l l' -> Forall2 R (map f l) l'.
Proof. intros A A' C f R l l' H. induction H; simpl; constructor; assumption. Qed.

Lemma Forall2_impl : forall {A C} (R R' : A -> C -> Prop) l l',
  (forall x y, R x y -> R' x y) -> Forall2 R l l' -> Forall2 R' l l'.
Proof. intros A C R R' l l' Hi H. induction H; constructor; auto. Qed.

Lemma Forall2_nth : forall {A C} (R : A -> C -> Prop) l l' n da dc,
  Forall2 R l l' -> n < length l -> R (nth n l da) (nth n l' dc).
Proof.
  intros A C R l l' n da dc H. revert n. induction H; intros n Hn; simpl in *; [lia|].
  destruct n; [assumption|]. apply IHForall2. lia.
Qed.

Lemma Forall2_length' : forall {A C} (R : A -> C -> Prop) l l', Forall2 R l l' -> length l = length l'.
Proof. intros A C R l l' H. induction H; simpl; congruence. Qed.

Section Dir.
  Context {B : Type}.
  Variable zero : B.
  Variable enc : encT -> Z -> list B -> list B.
  Variable dec : encT -> list B -> nat -> option (list B).
  Hypothesis dec_enc : forall t l d, t = EZstd \/ t = ELz4 -> d <> [] -> dec t (enc t l d) (length d) = Some d.
  Hypothesis enc_nonempty : forall t l d, t = EZstd \/ t = ELz4 -> d <> [] -> enc t l d <> [].

  Notation entry := (@entry B).
  Notation gpf_inv := (gpf_inv dec).
  Notation col_inv := (col_inv dec).

  (* a WriteBlocks argument: one payload per column, each below the 4 GiB format limit *)
  Definition op_ok (o : @wop B) : Prop := length (o_cols o) = ncols /\ Forall (@fits B) (o_cols o).

  Definition snoc_cols (ts : Z) (logs : list (list entry)) (ds : list (list B)) : list (list entry) :=
    map (fun ld => fst ld ++ [(ts, snd ld)]) (combine logs ds).
  (* per column: what has been written, in order *)
  Definition col_logs (acc : list wop) : list (list entry) :=
    fold_left (fun logs o => snoc_cols (o_ts o) logs (o_cols o)) acc (repeat [] ncols).

  Lemma col_logs_snoc : forall acc o, col_logs (acc ++ [o]) = snoc_cols (o_ts o) (col_logs acc) (o_cols o).
  Proof. intros. unfold col_logs. rewrite fold_left_app. reflexivity. Qed.

  Lemma snoc_cols_length : forall ts logs ds, length ds = length logs -> length (snoc_cols ts logs ds) = length logs.
  Proof. intros. unfold snoc_cols. rewrite map_length, combine_length. lia. Qed.

  Lemma col_logs_length : forall acc, Forall op_ok acc -> length (col_logs acc) = ncols.
  Proof.
    intros acc. induction acc as [|o acc IH] using rev_ind; intro H.
    - unfold col_logs. cbn [fold_left]. apply repeat_length.
    - apply Forall_app in H. destruct H as [Ha Ho]. inversion Ho as [|? ? [Hl _] _]; subst.
      rewrite col_logs_snoc, snoc_cols_length; [auto|]. rewrite IH by assumption. exact Hl.
  Qed.

  Lemma snoc_cols_nth : forall ts logs ds n, length ds = length logs -> n < length logs ->
    nth n (snoc_cols ts logs ds) [] = nth n logs [] ++ [(ts, nth n ds [])].
  Proof.
    intros ts logs. induction logs as [|lg logs IH]; intros ds n Hl Hn; simpl in *; [lia|].
    destruct ds as [|d ds]; simpl in *; [lia|].
    destruct n; [reflexivity|]. apply IH; lia.
  Qed.

  Lemma col_logs_nth : forall acc col, Forall op_ok acc -> col < ncols ->
    nth col (col_logs acc) [] = map (fun o => (o_ts o, nth col (o_cols o) [])) acc.
  Proof.
    intros acc col. induction acc as [|o acc IH] using rev_ind; intros H Hc.
    - unfold col_logs. simpl fold_left. clear -Hc. unfold ncols in *.
      do 8 (destruct col as [|col]; [reflexivity|]). lia.
    - apply Forall_app in H. destruct H as [Ha Ho]. inversion Ho as [|? ? [Hl _] _]; subst.
      rewrite col_logs_snoc, snoc_cols_nth.
      + rewrite IH by assumption. rewrite map_app. reflexivity.
      + rewrite col_logs_length by assumption. exact Hl.
      + rewrite col_logs_length by assumption. exact Hc.
  Qed.

  Lemma col_logs_ts : forall acc, Forall op_ok acc ->
    Forall (fun lg : list entry => map fst lg = map o_ts acc) (col_logs acc).
  Proof.
    intros acc. induction acc as [|o acc IH] using rev_ind; intro H.
    - unfold col_logs. simpl. repeat constructor.
    - apply Forall_app in H. destruct H as [Ha Ho]. inversion Ho as [|? ? [Hl _] _]; subst.
      rewrite col_logs_snoc. specialize (IH Ha).
      assert (Hlen : length (o_cols o) = length (col_logs acc)) by (rewrite col_logs_length; assumption).
      clear - IH Hlen. revert Hlen. generalize (o_cols o) as ds. unfold snoc_cols.
      induction IH as [|lg logs Hlg _ IH2]; intros ds Hlen; simpl; [constructor|].
      destruct ds as [|d ds]; simpl in *; [lia|]. constructor.
      + rewrite !map_app, Hlg. reflexivity.
      + apply IH2. lia.
  Qed.

  (* ---------------------------------------------------------------- WriteBlocks *)
  Lemma write_cols_ok : forall t lvl ts gs logs ds,
    Forall2 gpf_inv gs logs -> length ds = length gs -> Forall fits ds ->
    Forall (fun lg : list entry => ~ In ts (map fst lg)) logs -> t <> ECust ->
    exists gs', write_cols zero enc true t lvl ts gs ds = (gs', true)
                /\ Forall2 gpf_inv gs' (snoc_cols ts logs ds).
  Proof.
    intros t lvl ts gs logs ds H. revert ds.
    induction H as [|g lg gs logs Hg _ IH]; intros ds Hl Hf Hn Ht.
    - destruct ds; [|simpl in Hl; lia]. exists []. split; [reflexivity|constructor].
    - destruct ds as [|d ds]; [simpl in Hl; lia|]. simpl in Hl.
      inversion Hf as [|? ? Hfd Hf']; subst. inversion Hn as [|? ? Hnd Hn']; subst.
      destruct (write_block_ok zero enc dec dec_enc enc_nonempty t lvl g lg ts d Hg Hnd Hfd Ht) as (g' & Hw & Hg').
      destruct (IH ds) as (gs' & Hws & Hgs'); [lia|assumption|assumption|assumption|].
      exists (g' :: gs'). split.
      + cbn [write_cols]. unfold write_block in Hw. rewrite Hw, Hws. reflexivity.
      + unfold snoc_cols. simpl. constructor; assumption.
  Qed.

  Lemma write_cols_reject : forall sb t lvl ts g gs lg logs d ds,
    Forall2 gpf_inv (g :: gs) (lg :: logs) -> In ts (map fst lg) ->
    write_cols zero enc sb t lvl ts (g :: gs) (d :: ds) = (g :: gs, false).
  Proof.
    intros sb t lvl ts g gs lg logs d ds H Hin. inversion H; subst.
    cbn [write_cols]. rewrite (write_block_rejects zero enc dec sb t lvl g lg ts d); auto.
  Qed.

  Definition wdir_inv (w : wdir) (acc : list wop) : Prop :=
    Forall op_ok acc /\ Forall2 gpf_inv (wd_cols w) (col_logs acc) /\
    wd_traffic w = map o_tm acc /\ wd_total w = sum_tmeta acc /\ wd_counts w = sum_counters acc.

  Lemma seen_in : forall ts (acc : list (@wop B)), seen ts acc = true <-> In ts (map o_ts acc).
  Proof.
    intros ts acc. unfold seen. rewrite existsb_exists, in_map_iff. split.
    - intros (o & Hin & E). apply Z.eqb_eq in E. eauto.
    - intros (o & E & Hin). exists o. split; [assumption|]. apply Z.eqb_eq. assumption.
  Qed.

  Lemma write_blocks_ok : forall t lvl w acc o,
    wdir_inv w acc -> op_ok o ->
    let ok := negb (encT_eqb t ECust) && negb (seen (o_ts o) acc) in
    exists w', write_blocks_gen zero enc true t lvl w o = (w', ok)
               /\ wdir_inv w' (if ok then acc ++ [o] else acc).
  Proof.
    intros t lvl w acc o (Hacc & Hcols & Htr & Htot & Hcnt) Ho ok.
    destruct (encT_eqb t ECust) eqn:Et.
    - (* encoder.New fails *)
      destruct t; try discriminate. subst ok. simpl. exists w. split; [reflexivity|].
      repeat split; assumption.
    - assert (Ht : t <> ECust) by (intro; subst; discriminate).
      destruct Ho as [Hol Hof].
      pose proof (col_logs_length acc Hacc) as Hlen.
      pose proof (col_logs_ts acc Hacc) as Hts.
      destruct (seen (o_ts o) acc) eqn:Es; subst ok; simpl.
      + (* timestamp already stored: column 0 rejects, nothing changes *)
        apply seen_in in Es.
        destruct (wd_cols w) as [|g gs] eqn:Ew.
        { apply Forall2_length' in Hcols. rewrite Hlen in Hcols. discriminate. }
        destruct (col_logs acc) as [|lg logs] eqn:El; [inversion Hcols|].
        destruct (o_cols o) as [|d ds] eqn:Eo; [discriminate|].
        inversion Hts as [|? ? Hlg _]; subst.
        assert (Hr : write_cols zero enc true t lvl (o_ts o) (g :: gs) (d :: ds) = (g :: gs, false)).
        { eapply write_cols_reject; [exact Hcols|]. rewrite Hlg. exact Es. }
        exists w. split.
        * unfold write_blocks_gen. rewrite Ew, Eo, Hr. destruct t; try contradiction; destruct w; simpl in *; subst; reflexivity.
        * repeat split; try assumption. rewrite Ew, El. exact Hcols.
      + (* fresh timestamp: every column accepts *)
        assert (Hn : ~ In (o_ts o) (map o_ts acc)).
        { intro H. apply seen_in in H. congruence. }
        destruct (write_cols_ok t lvl (o_ts o) (wd_cols w) (col_logs acc) (o_cols o)) as (gs' & Hw & Hgs'); auto.
        * rewrite (Forall2_length' _ _ _ Hcols). congruence.
        * eapply Forall_impl; [|exact Hts]. intros lg E. simpl in E. rewrite E. exact Hn.
        * eexists. split.
          -- unfold write_blocks_gen. rewrite Hw. destruct t; try contradiction; reflexivity.
          -- unfold wdir_inv. cbn [wd_cols wd_traffic wd_total wd_counts]. repeat split.
             ++ apply Forall_app. split; [assumption|]. constructor; [split; assumption|constructor].
             ++ rewrite col_logs_snoc. exact Hgs'.
             ++ rewrite map_app, Htr. reflexivity.
             ++ unfold sum_tmeta. rewrite fold_left_app. simpl. rewrite Htot. reflexivity.
             ++ unfold sum_counters. rewrite fold_left_app. simpl. rewrite Hcnt. reflexivity.
  Qed.

  Lemma write_ops_ok : forall t lvl ops w acc,
    wdir_inv w acc -> Forall op_ok ops ->
    exists w', write_ops zero enc true t lvl w ops = (w', snd (accept_ops t acc ops))
               /\ wdir_inv w' (fst (accept_ops t acc ops)).
  Proof.
    intros t lvl ops. induction ops as [|o ops IH]; intros w acc Hw Hops.
    - exists w. split; [reflexivity|exact Hw].
    - inversion Hops as [|? ? Ho Hops']; subst.
      destruct (write_blocks_ok t lvl w acc o Hw Ho) as (w1 & Hw1 & Hinv1).
      cbn [write_ops accept_ops]. rewrite Hw1.
      set (ok := negb (encT_eqb t ECust) && negb (seen (o_ts o) acc)) in *.
      destruct (IH w1 (if ok then acc ++ [o] else acc) Hinv1 Hops') as (w2 & Hw2 & Hinv2).
      rewrite Hw2.
      destruct (accept_ops t (if ok then acc ++ [o] else acc) ops) as [acc' r] eqn:Ea.
      exists w2. split; [reflexivity|exact Hinv2].
  Qed.

  (* ---------------------------------------------------------------- Open / Close *)
  Definition dir_inv (d : ddir) (acc : list wop) : Prop :=
    Forall op_ok acc /\ length (d_files d) = ncols /\ length (m_hdrs (meta_of d)) = ncols /\
    Forall2 (fun bh lg => col_inv (fst bh) (snd bh) lg) (combine (d_files d) (m_hdrs (meta_of d))) (col_logs acc) /\
    m_traffic (meta_of d) = map o_tm acc /\ m_total (meta_of d) = sum_tmeta acc /\
    m_counts (meta_of d) = sum_counters acc.

  Lemma dir_inv0 : dir_inv ddir0 [].
  Proof.
    unfold dir_inv, ddir0, meta_of, new_meta, col_logs. cbn.
    repeat split; try constructor; repeat (constructor; [repeat split; try constructor; cbn; lia|]); constructor.
  Qed.

  Lemma open_dir_inv : forall d acc, dir_inv d acc -> wdir_inv (open_dir d) acc.
  Proof.
    intros d acc (Hacc & _ & _ & Hc & Htr & Htot & Hcnt).
    unfold wdir_inv, open_dir. cbn [wd_cols wd_traffic wd_total wd_counts].
    repeat split; try assumption.
    apply Forall2_map_l. eapply Forall2_impl; [|exact Hc].
    intros [bytes h] lg Hci. unfold ProofsBlock.gpf_inv. cbn [g_w g_hdr g_open w_buf w_file fst snd] in *.
    split; [reflexivity|]. split; [exact Hci|]. intro H; discriminate H.
  Qed.

  Lemma reload_header_id : forall bytes h lg, col_inv bytes h lg -> reload_header h = h.
  Proof.
    intros bytes h lg (_ & HO & _). unfold reload_header. rewrite (reoffset_id _ _ _ HO).
    destruct h; reflexivity.
  Qed.

  Lemma close_dir_inv : forall w acc, wdir_inv w acc -> dir_inv (close_dir w) acc.
  Proof.
    intros w acc (Hacc & Hcols & Htr & Htot & Hcnt).
    pose proof (Forall2_length' _ _ _ Hcols) as Hl.
    rewrite (col_logs_length acc Hacc) in Hl.
    unfold dir_inv, close_dir, meta_of, reload. cbn [d_files d_meta m_hdrs m_traffic m_total m_counts].
    repeat split; try assumption.
    - rewrite map_length. exact Hl.
    - rewrite !map_length. exact Hl.
    - clear - Hcols. induction Hcols as [|g lg gs logs Hg _ IH]; simpl; constructor.
      + destruct Hg as (_ & Hc & _). cbn [fst snd]. rewrite (reload_header_id _ _ _ Hc). exact Hc.
      + exact IH.
  Qed.

  Lemma run_session_ok : forall d acc s,
    dir_inv d acc -> Forall op_ok (s_ops s) ->
    exists d', run_session_gen zero enc true d s = (d', snd (accept_ops (s_enc s) acc (s_ops s)))
               /\ dir_inv d' (fst (accept_ops (s_enc s) acc (s_ops s))).
  Proof.
    intros d acc s Hd Hops. unfold run_session_gen.
    destruct (write_ops_ok (s_enc s) (s_lvl s) (s_ops s) (open_dir d) acc (open_dir_inv d acc Hd) Hops) as (w' & Hw & Hinv).
    rewrite Hw. eexists. split; [reflexivity|]. apply close_dir_inv. exact Hinv.
  Qed.

  (* ---------------------------------------------------------------- the database *)
  Lemma fs_get_set : forall (f : @fs B) k d day,
    fs_get (fs_set f k d) day = if Z.eqb k day then d else fs_get f day.
  Proof.
    induction f as [|[k0 d0] f IH]; intros k d day; simpl.
    - destruct (Z.eqb k day); reflexivity.
    - destruct (Z.eqb_spec k0 k) as [E|E]; simpl.
      + subst. destruct (Z.eqb k day); reflexivity.
      + rewrite IH. destruct (Z.eqb_spec k0 day) as [E1|E1]; [|reflexivity].
        subst. destruct (Z.eqb_spec k day); [congruence|reflexivity].
  Qed.

  Lemma spec_get_set : forall (f : @spec B) k d day,
    spec_get (spec_set f k d) day = if Z.eqb k day then d else spec_get f day.
  Proof.
    induction f as [|[k0 d0] f IH]; intros k d day; simpl.
    - destruct (Z.eqb k day); reflexivity.
    - destruct (Z.eqb_spec k0 k) as [E|E]; simpl.
      + subst. destruct (Z.eqb k day); reflexivity.
      + rewrite IH. destruct (Z.eqb_spec k0 day) as [E1|E1]; [|reflexivity].
        subst. destruct (Z.eqb_spec k day); [congruence|reflexivity].
  Qed.

  Definition wf_sessions (ss : list (@session B)) : Prop := Forall (fun s => Forall op_ok (s_ops s)) ss.

  Definition fs_inv (f : @fs B) (sp : @spec B) : Prop := forall day, dir_inv (fs_get f day) (spec_get sp day).

  Lemma run_sessions_ok : forall ss f sp,
    fs_inv f sp -> wf_sessions ss ->
    exists f', run_sessions_gen zero enc true f ss = (f', snd (spec_run sp ss))
               /\ fs_inv f' (fst (spec_run sp ss)).
  Proof.
    induction ss as [|s ss IH]; intros f sp Hf Hwf.
    - exists f. split; [reflexivity|exact Hf].
    - inversion Hwf as [|? ? Hs Hwf']; subst.
      destruct (run_session_ok (fs_get f (s_day s)) (spec_get sp (s_day s)) s (Hf (s_day s)) Hs) as (d' & Hr & Hd').
      cbn [run_sessions_gen spec_run]. rewrite Hr.
      destruct (accept_ops (s_enc s) (spec_get sp (s_day s)) (s_ops s)) as [acc oks] eqn:Ea.
      cbn [fst snd] in *.
      destruct (IH (fs_set f (s_day s) d') (spec_set sp (s_day s) acc)) as (f' & Hrun & Hinv); [|assumption|].
      + intro day. rewrite fs_get_set, spec_get_set. destruct (Z.eqb (s_day s) day); [exact Hd'|apply Hf].
      + rewrite Hrun.
        destruct (spec_run (spec_set sp (s_day s) acc) ss) as [sp' r] eqn:Es.
        exists f'. split; [reflexivity|exact Hinv].
  Qed.

  Lemma fs_inv0 : fs_inv [] [].
  Proof. intro day. simpl. apply dir_inv0. Qed.

  (* ---------------------------------------------------------------- the three properties *)
  Lemma results_ok : forall ss, wf_sessions ss ->
    snd (run_sessions zero enc [] ss) = expected_results ss.
  Proof.
    intros ss Hwf. destruct (run_sessions_ok ss [] [] fs_inv0 Hwf) as (f' & Hr & _).
    unfold run_sessions. rewrite Hr. reflexivity.
  Qed.

  Lemma final_inv : forall ss day, wf_sessions ss ->
    dir_inv (fs_get (fst (run_sessions zero enc [] ss)) day) (accepted day ss).
  Proof.
    intros ss day Hwf. destruct (run_sessions_ok ss [] [] fs_inv0 Hwf) as (f' & Hr & Hinv).
    unfold run_sessions. rewrite Hr. apply Hinv.
  Qed.

  Lemma readback_ok : forall ss, wf_sessions ss ->
    forall day col i o r,
      col < ncols -> nth_error (accepted day ss) i = Some o -> r_pos r = r_last r ->
      let d := fs_get (fst (run_sessions zero enc [] ss)) day in
      block_index (dir_header d col) (o_ts o) = Some i
      /\ exists r', read_dir dec d col r i = (Ok (nth col (o_cols o) []), r') /\ r_pos r' = r_last r'.
  Proof.
    intros ss Hwf day col i o r Hcol Hn Hr d.
    destruct (final_inv ss day Hwf) as (Hacc & Hlf & Hlh & Hc & _). fold d in Hlf, Hlh, Hc.
    assert (Hci : col_inv (dir_bytes d col) (dir_header d col)
                          (map (fun o => (o_ts o, nth col (o_cols o) [])) (accepted day ss))).
    { rewrite <- (col_logs_nth _ _ Hacc Hcol).
      pose proof (Forall2_nth _ _ _ col ([], empty_header) [] Hc) as Hnth.
      rewrite combine_length, Hlf, Hlh, Nat.min_id in Hnth. specialize (Hnth Hcol).
      rewrite combine_nth in Hnth by congruence. exact Hnth. }
    assert (Hn' : nth_error (map (fun o => (o_ts o, nth col (o_cols o) [])) (accepted day ss)) i
                  = Some (o_ts o, nth col (o_cols o) [])).
    { exact (map_nth_error (fun o : wop => (o_ts o, nth col (o_cols o) [])) i (accepted day ss) Hn). }
    split.
    - eapply block_index_ok; eassumption.
    - unfold read_dir. eapply read_block_ok; eassumption.
  Qed.

  Lemma stats_ok : forall ss day, wf_sessions ss ->
    let m := reader_meta (fs_get (fst (run_sessions zero enc [] ss)) day) in
    m_traffic m = map o_tm (accepted day ss)
    /\ m_total m = sum_tmeta (accepted day ss)
    /\ m_counts m = sum_counters (accepted day ss).
  Proof.
    intros ss day Hwf m. destruct (final_inv ss day Hwf) as (_ & _ & _ & _ & H1 & H2 & H3).
    repeat split; assumption.
  Qed.

  (* ---------------------------------------------------------------- file position = CurrentOffset *)
  Lemma write_cols_pos : forall t lvl ts gs ds,
    forallb entry_pos_ok gs = true ->
    forallb entry_pos_ok (fst (write_cols zero enc true t lvl ts gs ds)) = true.
  Proof.
    intros t lvl ts gs. induction gs as [|g gs IH]; intros ds H; [destruct ds; exact H|].
    destruct ds as [|d ds]; [exact H|].
    simpl in H. apply andb_prop in H. destruct H as [Hg Hgs].
    cbn [write_cols]. destruct (write_block_gen zero enc true t lvl g ts d) as [g'| |] eqn:Ew.
    - specialize (IH ds Hgs). destruct (write_cols zero enc true t lvl ts gs ds) as [r ok].
      cbn [fst forallb] in *. rewrite IH. rewrite (write_block_pos zero enc t lvl g ts d g' Hg Ew). reflexivity.
    - cbn [fst forallb]. rewrite Hg, Hgs. reflexivity.
    - cbn [fst forallb]. rewrite Hg, Hgs. reflexivity.
  Qed.

  Lemma write_ops_pos : forall t lvl ops w,
    forallb entry_pos_ok (wd_cols w) = true ->
    forallb entry_pos_ok (wd_cols (fst (write_ops zero enc true t lvl w ops))) = true.
  Proof.
    intros t lvl ops. induction ops as [|o ops IH]; intros w H; [exact H|].
    cbn [write_ops].
    assert (H1 : forallb entry_pos_ok (wd_cols (fst (write_blocks_gen zero enc true t lvl w o))) = true).
    { unfold write_blocks_gen. pose proof (write_cols_pos t lvl (o_ts o) (wd_cols w) (o_cols o) H) as Hc.
      destruct t; try exact H;
        destruct (write_cols zero enc true _ lvl (o_ts o) (wd_cols w) (o_cols o)) as [cols ok];
        destruct ok; exact Hc. }
    destruct (write_blocks_gen zero enc true t lvl w o) as [w1 ok].
    specialize (IH w1 H1). destruct (write_ops zero enc true t lvl w1 ops) as [w2 oks]. exact IH.
  Qed.

  Lemma offsets_ok_all : forall (d : ddir) t lvl ops,
    forallb entry_pos_ok (wd_cols (fst (write_ops zero enc true t lvl (open_dir d) ops))) = true.
  Proof.
    intros d t lvl ops. apply write_ops_pos.
    unfold open_dir. cbn [wd_cols]. rewrite forallb_forall. intros g Hin.
    apply in_map_iff in Hin. destruct Hin as (bh & E & _). subst g. reflexivity.
  Qed.
End Dir.
