(* C01 correspondence: symbolic bytes, the case type, corr (model = observed) and holds (observed
   behaviour satisfies the specification). Executable only. *)
From Coq Require Import List ZArith NArith Bool Arith.
From GoProbe.Base Require Import CorrLib.
From GoProbe.C01 Require Import Model.
Import ListNotations.
Open Scope N_scope.

(* a symbolic byte: the i-th byte of the string (k, id); k = 0 raw payload, k = 1 + codec code the
   compressed form under codec code = 32 * encoder type + level, k = 255 a hole *)
Inductive sym := Sym (k id i : N).
Definition zero_sym := Sym 255 0 0.
Definition sym_eqb (a b : sym) : bool :=
  match a, b with Sym k1 i1 j1, Sym k2 i2 j2 => (k1 =? k2) && (i1 =? i2) && (j1 =? j2) end.

Fixpoint sym_list_from (k id : N) (i : N) (n : nat) : list sym :=
  match n with
  | O => []
  | S n' => Sym k id i :: sym_list_from k id (i + 1) n'
  end.
Definition sym_list (k id n : N) : list sym := sym_list_from k id 0 (N.to_nat n).

(* run-length segments *)
Inductive seg := G (k id from len : N).
Definition seg_eqb (a b : seg) : bool :=
  match a, b with G a1 a2 a3 a4, G b1 b2 b3 b4 => (a1 =? b1) && (a2 =? b2) && (a3 =? b3) && (a4 =? b4) end.

Fixpoint list_eqb {A} (eqb : A -> A -> bool) (x y : list A) : bool :=
  match x, y with
  | [], [] => true
  | a :: x', b :: y' => eqb a b && list_eqb eqb x' y'
  | _, _ => false
  end.

Fixpoint rle_aux (k id from len : N) (l : list sym) : list seg :=
  match l with
  | [] => [G k id from len]
  | Sym k' id' i' :: l' =>
    if (k' =? k) && (id' =? id) && (if k =? 255 then (i' =? 0) && (from =? 0) else i' =? from + len)
    then rle_aux k id from (len + 1) l'
    else G k id from len :: rle_aux k' id' i' 1 l'
  end.
Definition rle (l : list sym) : list seg :=
  match l with
  | [] => []
  | Sym k id i :: l' => rle_aux k id i 1 l'
  end.

(* ---------------------------------------------------------------- case type *)
Inductive pl := Pl (raw : N) (encs : list (N * N)).          (* rawLen, [(codec code, encoded length)] *)
Inductive opc := Op (ts : Z) (v4 v6 dr br bs pr ps : N) (cols : list N).
Inductive sesc := Se (day : Z) (enc : N) (lvl : Z) (ops : list opc) (wres : list bool) (cres : bool).
Inductive rd := RK (id : N) | RO (segs : list seg) | RE | RP.
Inductive bl := Bk (len raw enc : N).
Inductive colobs := Co (cur : N) (blocks : list bl) (layout : list seg) (reads : list rd).
Inductive tm3 := Tm (a b c : N).
Inductive ct4 := Ct (a b c d : N).
Inductive dayobs := Dy (day : Z) (ok : bool) (tss : list Z) (cols : list colobs) (traffic : list tm3)
                       (tot : tm3) (cnt : ct4) (idx : list (option N)).
Inductive case := Case (pls : list pl) (ss : list sesc) (rmode : N) (days : list dayobs) | CPanic.

(* ---------------------------------------------------------------- symbolic codec *)
Definition pl_raw (pls : list pl) (id : N) : N :=
  match nth_error pls (N.to_nat id) with Some (Pl r _) => r | None => 0 end.
Fixpoint assoc (k : N) (l : list (N * N)) : option N :=
  match l with
  | [] => None
  | (a, b) :: l' => if a =? k then Some b else assoc k l'
  end.
Definition pl_enc (pls : list pl) (id code : N) : option N :=
  match nth_error pls (N.to_nat id) with Some (Pl _ es) => assoc code es | None => None end.

Definition enc_num (t : encT) : N := match t with ECust => 0 | ENull => 1 | EZstd => 2 | ELz4 => 3 end.
Definition enc_of_num (n : N) : encT :=
  match n with 1 => ENull | 2 => EZstd | 3 => ELz4 | _ => ECust end.

Definition sym_enc (pls : list pl) (t : encT) (lvl : Z) (d : list sym) : list sym :=
  match d with
  | Sym 0 id 0 :: _ =>
    let code := enc_num t * 32 + Z.to_N lvl in
    match pl_enc pls id code with
    | Some n => sym_list (1 + code) id n
    | None => []
    end
  | _ => []
  end.

Definition sym_dec (pls : list pl) (t : encT) (b : list sym) (cap : nat) : option (list sym) :=
  match b with
  | Sym k id 0 :: _ =>
    if k =? 0 then None
    else
      let code := k - 1 in
      if negb (code / 32 =? enc_num t) then None
      else match pl_enc pls id code with
           | Some n =>
             if list_eqb seg_eqb (rle b) [G k id 0 n] && (N.to_nat (pl_raw pls id) <=? cap)%nat
             then Some (sym_list 0 id (pl_raw pls id))
             else None
           | None => None
           end
  | _ => None
  end.

(* ---------------------------------------------------------------- model side *)
Definition op_model (pls : list pl) (o : opc) : wop (B := sym) :=
  match o with
  | Op ts v4 v6 dr br bs pr ps cols =>
    mkOp ts (mkT v4 v6 dr) (mkC br bs pr ps) (map (fun id => sym_list 0 id (pl_raw pls id)) cols)
  end.
Definition ses_model (pls : list pl) (s : sesc) : session (B := sym) :=
  match s with Se day e lvl ops _ _ => mkS day (enc_of_num e) lvl (map (op_model pls) ops) end.

Definition order (rmode : N) (n : nat) : list nat :=
  match rmode with
  | 1 => rev (seq 0 n)
  | 2 => flat_map (fun i => [i; i]) (seq 0 n)
  | _ => seq 0 n
  end.

Definition rd_matches (pls : list pl) (m : res (list sym)) (o : rd) : bool :=
  match o, m with
  | RK id, Ok l => list_eqb sym_eqb l (sym_list 0 id (pl_raw pls id))
  | RO segs, Ok l => list_eqb seg_eqb (rle l) segs
  | RE, Err => true
  | RP, Panic => true
  | _, _ => false
  end.

Fixpoint list_match {A C} (f : A -> C -> bool) (x : list A) (y : list C) : bool :=
  match x, y with
  | [], [] => true
  | a :: x', b :: y' => f a b && list_match f x' y'
  | _, _ => false
  end.

Definition bl_matches (b : block) (o : bl) : bool :=
  match o with Bk l r e => (b_len b =? l) && (b_raw b =? r) && (enc_num (b_enc b) =? e) end.

Definition oN_eqb (a : option nat) (b : option N) : bool :=
  match a, b with
  | Some x, Some y => N.of_nat x =? y
  | None, None => true
  | _, _ => false
  end.

Definition tm_matches (t : tmeta) (o : tm3) : bool :=
  match o with Tm a b c => (t_v4 t =? a) && (t_v6 t =? b) && (t_drops t =? c) end.
Definition ct_matches (t : counters) (o : ct4) : bool :=
  match o with Ct a b c d => (c_br t =? a) && (c_bs t =? b) && (c_pr t =? c) && (c_ps t =? d) end.

Definition col_matches (pls : list pl) (rmode : N) (tss : list Z) (bytes : list sym) (h : header) (o : colobs) : bool :=
  match o with
  | Co cur blocks layout reads =>
    (h_cur h =? cur)
    && list_eqb Z.eqb (map b_ts (h_blocks h)) tss
    && list_match bl_matches (h_blocks h) blocks
    && list_eqb seg_eqb (rle bytes) layout
    && list_match (rd_matches pls) (read_seq (sym_dec pls) bytes h reader0 (order rmode (length (h_blocks h)))) reads
  end.

Definition day_matches (pls : list pl) (rmode : N) (ssm : list (session (B := sym))) (f : fs (B := sym)) (o : dayobs) : bool :=
  match o with
  | Dy day ok tss cols traffic tot cnt idx =>
    let d := fs_get f day in
    let m := reader_meta d in
    ok
    && list_match (fun bh c => col_matches pls rmode tss (fst bh) (snd bh) c) (combine (d_files d) (m_hdrs m)) cols
    && (length cols =? ncols)%nat
    && list_match tm_matches (m_traffic m) traffic
    && tm_matches (m_total m) tot
    && ct_matches (m_counts m) cnt
    && list_match (fun (w : wop) i => oN_eqb (block_index (dir_header d 0) (o_ts w)) i) (accepted day ssm) idx
  end.

Fixpoint increasing (l : list Z) : bool :=
  match l with
  | a :: ((b :: _) as l') => Z.ltb a b && increasing l'
  | _ => true
  end.

Definition ses_day (s : sesc) : Z := match s with Se d _ _ _ _ _ => d end.
Definition ses_wres (s : sesc) : list bool := match s with Se _ _ _ _ w _ => w end.
Definition ses_cres (s : sesc) : bool := match s with Se _ _ _ _ _ c => c end.
Definition obs_day (o : dayobs) : Z := match o with Dy d _ _ _ _ _ _ _ => d end.

Definition days_cover (ss : list sesc) (days : list dayobs) : bool :=
  increasing (map obs_day days)
  && forallb (fun s => existsb (fun o => Z.eqb (obs_day o) (ses_day s)) days) ss
  && forallb (fun o => existsb (fun s => Z.eqb (obs_day o) (ses_day s)) ss) days.

(* does the model still describe the code? *)
Definition corr_gen (seekback : bool) (c : case) : bool :=
  match c with
  | CPanic => false
  | Case pls ss rmode days =>
    let ssm := map (ses_model pls) ss in
    let '(f, res) := run_sessions_gen zero_sym (sym_enc pls) seekback [] ssm in
    list_eqb (list_eqb Bool.eqb) res (map ses_wres ss)
    && forallb ses_cres ss
    && days_cover ss days
    && forallb (day_matches pls rmode ssm f) days
  end.

Definition corr := corr_gen true.

(* ---------------------------------------------------------------- specification side *)
(* the operations the implementation accepted on [day], in write order *)
Fixpoint zip_accepted (ops : list opc) (res : list bool) : list opc :=
  match ops, res with
  | o :: ops', r :: res' => if r then o :: zip_accepted ops' res' else zip_accepted ops' res'
  | _, _ => []
  end.
Definition obs_accepted (day : Z) (ss : list sesc) : list opc :=
  flat_map (fun s => match s with Se d _ _ ops w c => if Z.eqb d day then zip_accepted ops w else [] end) ss.

Definition reads_of_block (rmode : N) (n : nat) (reads : list rd) (i : nat) : list rd :=
  match rmode with
  | 1 => [nth (n - 1 - i) reads RE]
  | 2 => [nth (2 * i) reads RE; nth (2 * i + 1) reads RE]
  | _ => [nth i reads RE]
  end.

Definition rd_is (id : N) (r : rd) : bool := match r with RK id' => id' =? id | _ => false end.

Definition op_ts (o : opc) : Z := match o with Op ts _ _ _ _ _ _ _ _ => ts end.
Definition op_cols (o : opc) : list N := match o with Op _ _ _ _ _ _ _ _ cols => cols end.
Definition op_tm (o : opc) : tmeta := match o with Op _ a b c _ _ _ _ _ => mkT a b c end.
Definition op_ct (o : opc) : counters := match o with Op _ _ _ _ a b c d _ => mkC a b c d end.

(* block [i] of every column returns the payload written for it, under timestamp [ts] *)
Definition block_ok (rmode : N) (tss : list Z) (cols : list colobs) (o : opc) (i : option N) : bool :=
  match i with
  | None => false
  | Some i =>
    let i := N.to_nat i in
    Z.eqb (nth i tss (-1)%Z) (op_ts o)
    && (i <? length tss)%nat
    && list_match (fun c id => match c with Co _ blocks _ reads =>
                                 forallb (rd_is id) (reads_of_block rmode (length blocks) reads i) end)
                  cols (op_cols o)
  end.

Definition day_holds (ss : list sesc) (rmode : N) (o : dayobs) : bool :=
  match o with
  | Dy day ok tss cols traffic tot cnt idx =>
    let acc := obs_accepted day ss in
    ok
    && list_match (block_ok rmode tss cols) acc idx
    && list_match tm_matches (map op_tm acc) traffic
    && tm_matches (fold_left tmeta_add (map op_tm acc) tmeta0) tot
    && ct_matches (fold_left counters_add (map op_ct acc) counters0) cnt
  end.

(* does the observed behaviour satisfy the property? every accepted block is found under its timestamp
   and read back equal to the written payload (the byte comparison itself is done on the real bytes by
   the harness, which reports RK id exactly when the bytes read equal payload id); the per-block and
   per-day summaries equal the (wrapping) sums of what was written *)
Definition holds (c : case) : bool :=
  match c with
  | CPanic => false
  | Case pls ss rmode days =>
    forallb ses_cres ss && days_cover ss days && forallb (day_holds ss rmode) days
  end.
