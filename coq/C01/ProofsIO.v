(* C01 proofs, part 1: the file and bufio.Writer models. *)
From Coq Require Import List ZArith NArith Bool Arith Lia.
From GoProbe.Base Require Import CorrLib.
From GoProbe.C01 Require Import Model.
Import ListNotations.

Section IO.
  Context {B : Type}.
  Variable zero : B.

  Definition slice (l : list B) (off n : nat) : list B := firstn n (skipn off l).

  Lemma slice_prefix : forall (a b : list B) k off n,
    off + n <= k -> firstn k a = firstn k b -> slice a off n = slice b off n.
  Proof.
    intros a b k off n Hk Hab. unfold slice.
    assert (E : forall l : list B, firstn n (skipn off l) = firstn n (skipn off (firstn k l))).
    { intro l. rewrite skipn_firstn_comm. rewrite firstn_firstn.
      replace (Nat.min n (k - off)) with n by lia. reflexivity. }
    rewrite (E a), (E b), Hab. reflexivity.
  Qed.

  Lemma file_write_pos : forall (f : file) p, f_pos (file_write zero f p) = f_pos f + length p.
  Proof.
    intros f p. unfold file_write. destruct p; simpl; lia.
  Qed.

  Lemma file_write_prefix : forall (f : file) p k,
    k <= f_pos f -> f_pos f <= length (f_bytes f) ->
    firstn k (f_bytes (file_write zero f p)) = firstn k (f_bytes f).
  Proof.
    intros f p k Hk Hlen. unfold file_write. destruct p as [|x p]; [reflexivity|].
    cbn [f_bytes].
    replace (f_pos f - length (f_bytes f)) with 0 by lia. cbn [repeat app].
    rewrite firstn_app. rewrite firstn_firstn. replace (Nat.min k (f_pos f)) with k by lia.
    rewrite firstn_length. replace (k - Nat.min (f_pos f) (length (f_bytes f))) with 0 by lia.
    rewrite firstn_O. apply app_nil_r.
  Qed.

  Lemma file_write_slice : forall (f : file) p,
    f_pos f <= length (f_bytes f) ->
    slice (f_bytes (file_write zero f p)) (f_pos f) (length p) = p.
  Proof.
    intros f p Hlen. unfold file_write, slice. destruct p as [|x p]; [reflexivity|].
    cbn [f_bytes].
    replace (f_pos f - length (f_bytes f)) with 0 by lia. cbn [repeat app].
    rewrite skipn_app. rewrite firstn_length.
    replace (f_pos f - Nat.min (f_pos f) (length (f_bytes f))) with 0 by lia.
    rewrite (skipn_all2 (n := f_pos f)) by (rewrite firstn_length; lia).
    cbn [app skipn]. change (x :: p ++ ?r) with ((x :: p) ++ r).
    rewrite firstn_app. rewrite Nat.sub_diag. rewrite firstn_O.
    rewrite firstn_all. apply app_nil_r.
  Qed.

  Lemma file_write_length : forall (f : file) p,
    f_pos f <= length (f_bytes f) ->
    f_pos f + length p <= length (f_bytes (file_write zero f p))
    /\ length (f_bytes f) <= length (f_bytes (file_write zero f p)).
  Proof.
    intros f p Hlen. unfold file_write. destruct p as [|x p]; [simpl; lia|].
    cbn [f_bytes]. rewrite !app_length, firstn_length, repeat_length, skipn_length.
    set (n := length (x :: p)). lia.
  Qed.

  (* writing through an empty bufio.Writer and flushing = writing to the file *)
  Lemma bw_write_flush : forall (f : file) p,
    bw_flush zero (bw_write zero (mkW f []) p) = mkW (file_write zero f p) [].
  Proof.
    intros f p. unfold bw_write, bw_avail. cbn [w_buf w_file length app].
    destruct (length p <=? bufsz - 0) eqn:E.
    - unfold bw_flush. cbn [w_buf w_file]. destruct p; reflexivity.
    - unfold bw_flush. reflexivity.
  Qed.

  (* ... and before the flush the file is either untouched or already holds the data *)
  Lemma bw_write_file : forall (f : file) p,
    let w := bw_write zero (mkW f []) p in
    w_file w = f \/ w_file w = file_write zero f p.
  Proof.
    intros f p. unfold bw_write, bw_avail. cbn [w_buf w_file length app].
    destruct (length p <=? bufsz - 0); [left|right]; reflexivity.
  Qed.

  Lemma bw_flush_buf : forall w : bufw, w_buf (bw_flush zero w) = [].
  Proof.
    intro w. unfold bw_flush. destruct (w_buf w) eqn:E; [exact E|reflexivity].
  Qed.
End IO.
