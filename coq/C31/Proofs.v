(* C31 proofs: invariant in_use = number of queries in phase Holding, over every valid trace. *)
From Coq Require Import List Arith Bool Lia.
From GoProbe.C31 Require Import Model.
Import ListNotations.

(* ---------------------------------------------------------------- list update *)

Lemma upd_length : forall A (l : list A) i x, length (upd l i x) = length l.
Proof. induction l; destruct i; simpl; auto. Qed.

Lemma nth_error_upd_same : forall A (l : list A) i x y,
  nth_error l i = Some y -> nth_error (upd l i x) i = Some x.
Proof. induction l; destruct i; simpl; intros; try discriminate; eauto. Qed.

Lemma nth_error_upd_other : forall A (l : list A) i j x,
  i <> j -> nth_error (upd l i x) j = nth_error l j.
Proof.
  induction l; destruct i; destruct j; simpl; intros; auto; try congruence.
Qed.

Definition hb (p : phase) : nat := if is_holding p then 1 else 0.

Lemma count_holding_cons : forall p l, count_holding (p :: l) = hb p + count_holding l.
Proof. intros. unfold count_holding, hb. simpl. destruct (is_holding p); reflexivity. Qed.

Lemma count_upd : forall l q p p',
  nth_error l q = Some p ->
  count_holding (upd l q p') + hb p = count_holding l + hb p'.
Proof.
  induction l; destruct q; simpl; intros; try discriminate.
  - inversion H; subst. rewrite !count_holding_cons. lia.
  - rewrite !count_holding_cons. specialize (IHl _ _ p' H). lia.
Qed.

(* ---------------------------------------------------------------- one step *)

Definition ev_q (e : event) : nat :=
  match e with EStart q _ | EAcquire q | ETimeout q | EExit q _ | ECancelWait q => q end.
Definition ev_src (e : event) : phase :=
  match e with EStart _ _ => Idle | EAcquire _ | ETimeout _ | ECancelWait _ => Waiting | EExit _ _ => Holding end.
Definition ev_dst (e : event) : phase :=
  match e with
  | EStart _ ok => if ok then Waiting else Done OPrepErr
  | EAcquire _ => Holding
  | ETimeout _ => Done OTooMany
  | EExit _ o => Done o
  | ECancelWait _ => Waiting
  end.
Definition ph (s : state) (q : nat) : option phase := nth_error (phases s) q.

Lemma step_spec : forall strict max s e s1,
  sem_step strict max s e = Some s1 ->
  ph s (ev_q e) = Some (ev_src e) /\ phases s1 = upd (phases s) (ev_q e) (ev_dst e) /\
  match e with
  | EStart _ _ => in_use s1 = in_use s
  | EAcquire _ => in_use s < max /\ in_use s1 = S (in_use s)
  | ETimeout _ => in_use s1 = in_use s /\ (strict = true -> max <= in_use s)
  | EExit _ o => post_acq o = true /\ in_use s1 = in_use s - 1
  | ECancelWait _ => in_use s1 = in_use s
  end.
Proof.
  intros strict max s e s1 H. unfold ph. destruct e as [q ok|q|q|q o|q]; simpl in *;
    destruct (nth_error (phases s) q) as [[| | |o']|] eqn:E; try discriminate.
  - inversion H; subst; simpl; auto.
  - destruct (in_use s <? max) eqn:L; try discriminate. inversion H; subst; simpl.
    apply Nat.ltb_lt in L. auto.
  - destruct (strict && (in_use s <? max)) eqn:G; try discriminate. inversion H; subst; simpl.
    repeat split; auto. intros ->. simpl in G. apply Nat.ltb_ge in G. exact G.
  - destruct (post_acq o) eqn:P; try discriminate. inversion H; subst; simpl; auto.
  - inversion H; subst; simpl; auto.
Qed.

Lemma step_other : forall strict max s e s1 q,
  sem_step strict max s e = Some s1 -> q <> ev_q e -> ph s1 q = ph s q.
Proof.
  intros. apply step_spec in H as (_ & Hp & _). unfold ph. rewrite Hp.
  apply nth_error_upd_other. congruence.
Qed.

Lemma step_same : forall strict max s e s1,
  sem_step strict max s e = Some s1 -> ph s1 (ev_q e) = Some (ev_dst e).
Proof.
  intros. apply step_spec in H as (Hs & Hp & _). unfold ph in *. rewrite Hp.
  eapply nth_error_upd_same; eauto.
Qed.

(* ---------------------------------------------------------------- invariant *)

Definition inv (max : nat) (s : state) : Prop :=
  in_use s = count_holding (phases s) /\ in_use s <= max.

Lemma inv_init : forall max n, inv max (init n).
Proof.
  intros. unfold inv, init; simpl. split; [|lia].
  induction n; simpl; auto.
Qed.

Lemma inv_step : forall strict max s e s1,
  inv max s -> sem_step strict max s e = Some s1 -> inv max s1.
Proof.
  intros strict max s e s1 [Hc Hb] H. apply step_spec in H as (Hs & Hp & He).
  unfold inv. rewrite Hp. pose proof (count_upd _ _ _ (ev_dst e) Hs) as C.
  destruct e as [q ok|q|q|q o|q]; simpl in *; unfold hb in C; simpl in C.
  - destruct ok; simpl in C; lia.
  - lia.
  - lia.
  - destruct He as [P He]. lia.
  - lia.
Qed.

Lemma inv_run : forall strict max evs s s1,
  inv max s -> run_trace strict max s evs = Some s1 -> inv max s1.
Proof.
  induction evs; simpl; intros s s1 Hi H.
  - inversion H; subst; auto.
  - destruct (sem_step strict max s a) eqn:E; try discriminate.
    eapply IHevs; [eapply inv_step; eauto|eauto].
Qed.

Lemma run_app : forall strict max a b s s2,
  run_trace strict max s (a ++ b) = Some s2 ->
  exists s1, run_trace strict max s a = Some s1 /\ run_trace strict max s1 b = Some s2.
Proof.
  induction a; simpl; intros.
  - eauto.
  - destruct (sem_step strict max s a) eqn:E; try discriminate. eauto.
Qed.

Lemma run_app_inv : forall strict max a b s s1 s2,
  run_trace strict max s a = Some s1 -> run_trace strict max s1 b = Some s2 ->
  run_trace strict max s (a ++ b) = Some s2.
Proof.
  induction a; simpl; intros.
  - inversion H; subst; auto.
  - destruct (sem_step strict max s a) eqn:E; try discriminate. eauto.
Qed.

(* ---------------------------------------------------------------- bounded *)

Lemma bounded : forall strict max n pre post s,
  run_trace strict max (init n) (pre ++ post) = Some s ->
  exists s1, run_trace strict max (init n) pre = Some s1 /\
             in_use s1 <= max /\ count_holding (phases s1) <= max.
Proof.
  intros. apply run_app in H as (s1 & H1 & _). exists s1. split; auto.
  destruct (inv_run _ _ _ _ _ (inv_init max n) H1) as [A B]. lia.
Qed.

(* ---------------------------------------------------------------- no leak *)

Lemma all_done_count : forall l, forallb is_done l = true -> count_holding l = 0.
Proof.
  induction l; simpl; intros; auto.
  apply andb_true_iff in H as [A B]. rewrite count_holding_cons, (IHl B).
  destruct a; simpl in *; try discriminate; reflexivity.
Qed.

Lemma no_leak : forall strict max n evs s,
  run_trace strict max (init n) evs = Some s ->
  in_use s = count_holding (phases s) /\ (all_ended s = true -> in_use s = 0).
Proof.
  intros. destruct (inv_run _ _ _ _ _ (inv_init max n) H) as [A B]. split; auto.
  intros E. rewrite A. apply all_done_count. exact E.
Qed.

(* a slot released is usable again: with everything else ended a fresh query can start and acquire *)
Lemma reusable : forall strict max n evs s q,
  0 < max -> run_trace strict max (init n) evs = Some s ->
  forallb is_done (upd (phases s) q (Done OOk)) = true -> ph s q = Some Idle ->
  exists s2, run_trace strict max s [EStart q true; EAcquire q] = Some s2 /\ ph s2 q = Some Holding.
Proof.
  intros strict max n evs s q Hm H Hd Hq.
  destruct (inv_run _ _ _ _ _ (inv_init max n) H) as [A B].
  assert (Z : in_use s = 0).
  { rewrite A. pose proof (count_upd _ _ _ (Done OOk) Hq) as C. unfold hb in C; simpl in C.
    rewrite (all_done_count _ Hd) in C. lia. }
  unfold ph in *. simpl. rewrite Hq. simpl.
  rewrite (nth_error_upd_same _ _ _ _ _ Hq).
  rewrite Z. destruct (0 <? max) eqn:L; [|apply Nat.ltb_ge in L; lia].
  eexists; split; [reflexivity|]. unfold ph; simpl.
  eapply nth_error_upd_same. eapply nth_error_upd_same. exact Hq.
Qed.

(* ---------------------------------------------------------------- rejected *)

Definition tm : option phase := Some (Done OTooMany).

Lemma src_not_done : forall e o, ev_src e <> Done o.
Proof. destruct e; simpl; congruence. Qed.

Lemma step_tm : forall strict max s e s1 q,
  sem_step strict max s e = Some s1 ->
  (ph s1 q = tm <-> ph s q = tm \/ e = ETimeout q).
Proof.
  intros strict max s e s1 q H. destruct (Nat.eq_dec q (ev_q e)) as [->|N].
  - rewrite (step_same _ _ _ _ _ H). pose proof (step_spec _ _ _ _ _ H) as (Hs & _ & He).
    rewrite Hs. unfold tm. split.
    + intros D. right. destruct e as [q ok|q|q|q o|q]; simpl in *; try congruence.
      * destruct ok; congruence.
      * destruct He as [P _]. inversion D; subst. discriminate.
    + intros [D|D].
      * inversion D. exfalso. eapply src_not_done; eauto.
      * destruct e; try discriminate. reflexivity.
  - rewrite (step_other _ _ _ _ _ _ H N). split; auto.
    intros [D|D]; auto. subst. simpl in N. congruence.
Qed.

Lemma run_tm : forall strict max evs s s1 q,
  run_trace strict max s evs = Some s1 ->
  (ph s1 q = tm <-> ph s q = tm \/ In (ETimeout q) evs).
Proof.
  induction evs; simpl; intros s s1 q H.
  - inversion H; subst. tauto.
  - destruct (sem_step strict max s a) eqn:E; try discriminate.
    rewrite (IHevs _ _ q H), (step_tm _ _ _ _ _ q E). intuition.
Qed.

Lemma ph_init : forall n q p, ph (init n) q = Some p -> p = Idle.
Proof.
  unfold ph, init; simpl. induction n; destruct q; simpl; intros; try discriminate; eauto.
  inversion H; auto.
Qed.

(* phases reachable only through an acquisition *)
Definition acq_class (p : option phase) : bool :=
  match p with Some Holding => true | Some (Done o) => post_acq o | _ => false end.

Lemma step_acq : forall strict max s e s1 q,
  sem_step strict max s e = Some s1 ->
  acq_class (ph s1 q) = true <-> acq_class (ph s q) = true \/ e = EAcquire q.
Proof.
  intros strict max s e s1 q H. destruct (Nat.eq_dec q (ev_q e)) as [->|N].
  - rewrite (step_same _ _ _ _ _ H). pose proof (step_spec _ _ _ _ _ H) as (Hs & _ & He).
    rewrite Hs. destruct e as [q ok|q|q|q o|q]; simpl in *.
    + destruct ok; simpl; split; try discriminate; intros [D|D]; discriminate.
    + split; auto.
    + split; try discriminate; intros [D|D]; discriminate.
    + destruct He as [P _]. rewrite P. split; auto.
    + split; try discriminate; intros [D|D]; discriminate.
  - rewrite (step_other _ _ _ _ _ _ H N). split; auto.
    intros [D|D]; auto. subst. simpl in N. congruence.
Qed.

Lemma run_acq : forall strict max evs s s1 q,
  run_trace strict max s evs = Some s1 ->
  acq_class (ph s1 q) = true <-> acq_class (ph s q) = true \/ In (EAcquire q) evs.
Proof.
  induction evs; simpl; intros s s1 q H.
  - inversion H; subst. tauto.
  - destruct (sem_step strict max s a) eqn:E; try discriminate.
    rewrite (IHevs _ _ q H), (step_acq _ _ _ _ _ q E). intuition.
Qed.

Lemma init_not_tm : forall n q, ph (init n) q <> tm.
Proof. intros n q H. apply ph_init in H. discriminate. Qed.

Lemma init_not_acq : forall n q, acq_class (ph (init n) q) <> true.
Proof.
  intros n q H. destruct (ph (init n) q) eqn:E; simpl in H; try discriminate.
  apply ph_init in E. subst. discriminate.
Qed.

Lemma rejected : forall strict max n evs s q,
  run_trace strict max (init n) evs = Some s ->
  (ph s q = Some (Done OTooMany) <-> In (ETimeout q) evs) /\
  (In (ETimeout q) evs -> ~ In (EAcquire q) evs).
Proof.
  intros strict max n evs s q H. pose proof (run_tm _ _ _ _ _ q H) as T.
  pose proof (run_acq _ _ _ _ _ q H) as A. fold tm. split.
  - rewrite T. split; auto. intros [D|D]; auto. exfalso. eapply init_not_tm; eauto.
  - intros I J. assert (P : ph s q = tm) by (apply T; auto).
    assert (Q : acq_class (ph s q) = true) by (apply A; auto).
    rewrite P in Q. discriminate.
Qed.

(* with the select guard: a timeout is only taken while all max slots are held by executing queries,
   and while all slots are taken no waiting query can acquire *)
Lemma rejected_when_full : forall max n pre q post s,
  run_trace true max (init n) (pre ++ ETimeout q :: post) = Some s ->
  exists s1, run_trace true max (init n) pre = Some s1 /\ ph s1 q = Some Waiting /\
             in_use s1 = max /\ count_holding (phases s1) = max.
Proof.
  intros max n pre q post s H. apply run_app in H as (s1 & H1 & H2). exists s1. split; auto.
  cbn [run_trace] in H2. destruct (sem_step true max s1 (ETimeout q)) eqn:E; try discriminate.
  apply step_spec in E as (Hs & _ & (_ & G)). simpl in Hs.
  destruct (inv_run _ _ _ _ _ (inv_init max n) H1) as [A B]. specialize (G eq_refl). repeat split; auto; lia.
Qed.

Lemma full_blocks_acquire : forall strict max s q,
  max <= in_use s -> sem_step strict max s (EAcquire q) = None.
Proof.
  intros. simpl. destruct (nth_error (phases s) q) as [[| | |]|]; auto.
  destruct (in_use s <? max) eqn:L; auto. apply Nat.ltb_lt in L. lia.
Qed.

(* ---------------------------------------------------------------- cancellation while waiting *)

Lemma upd_same : forall A (l : list A) i x, nth_error l i = Some x -> upd l i x = l.
Proof.
  induction l; destruct i; simpl; intros; try discriminate; auto.
  - inversion H; subst; auto.
  - f_equal; auto.
Qed.

Lemma cancel_wait_neutral : forall strict max s q s1,
  sem_step strict max s (ECancelWait q) = Some s1 ->
  nth_error (phases s) q = Some Waiting /\ s1 = s.
Proof.
  intros strict max s q s1 H. simpl in H.
  destruct (nth_error (phases s) q) as [[| | |o]|] eqn:E; try discriminate.
  split; auto. inversion H; subst. unfold set_phase. rewrite (upd_same _ _ _ _ E).
  destruct s; reflexivity.
Qed.

Lemma cancel_wait_enabled : forall strict max s q,
  nth_error (phases s) q = Some Waiting -> sem_step strict max s (ECancelWait q) = Some s.
Proof.
  intros strict max s q E. simpl. rewrite E. unfold set_phase. rewrite (upd_same _ _ _ _ E).
  destruct s; reflexivity.
Qed.

(* ---------------------------------------------------------------- script layer *)

(* the events produced by a script form a valid strict trace ending in the script's core state *)
Lemma run_ops_valid : forall max ops s s2 evs obs,
  run_ops max s ops = Some (s2, evs, obs) ->
  run_trace true max (core s) evs = Some (core s2).
Proof.
  induction ops; simpl; intros s s2 evs obs H.
  - inversion H; subst. reflexivity.
  - destruct (run_op max s a) as [[[s1 ev] ob]|] eqn:R; try discriminate.
    destruct (run_ops max s1 ops) as [[[s3 evs'] obs']|] eqn:R2; try discriminate.
    inversion H; subst. unfold run_op in R.
    destruct (op_plan max s a) as [[[[ev0 ob0] hs] ws]|]; try discriminate.
    destruct (run_trace true max (core s) ev0) eqn:T; try discriminate.
    inversion R; subst. eapply run_app_inv; eauto. apply (IHops _ _ _ _ R2).
Qed.

Lemma script_sound : forall max ops evs,
  script_events max ops = Some evs ->
  exists s, run_trace true max (init (spawn_count ops)) evs = Some s.
Proof.
  unfold script_events. intros max ops evs H.
  destruct (run_ops max (sinit (spawn_count ops)) ops) as [[[s2 evs'] obs]|] eqn:R; try discriminate.
  inversion H; subst. exists (core s2). apply (run_ops_valid _ _ _ _ _ _ R).
Qed.

(* ---------------------------------------------------------------- configuration wiring *)

Lemma config_wiring : forall rp b n,
  (0 < n -> effective_max (mkCfg rp b n) = Some n) /\ (n = 0 -> effective_max (mkCfg rp b n) = None).
Proof.
  intros. unfold effective_max, register_routes, with_query_rate_limit, query_rate_limiter; simpl. split; intros H.
  - destruct (0 <? n) eqn:L; auto. apply Nat.ltb_ge in L. lia.
  - subst. reflexivity.
Qed.
