(* C31 model: the query concurrency limit (engine.QueryRunner.run / distributed.QueryRunner.run).

   Go code modelled (pkg/goDB/engine/query.go, cmd/global-query/pkg/distributed/query.go,
   github.com/fako1024/gotools/concurrency/semaphore.go):

     stmt, err := args.Prepare()            // (distributed: also the empty-hosts / resolver-type checks)
     if err != nil { return nil, err }      // EStart q false : no acquisition
     smeDone, err := sem.TryAddFor(timeout) // select { case sem <- struct{}{}: ... case <-ctx.Done(): ... }
     if err != nil { return &Result{Status: TooManyRequests}, nil }   // ETimeout q
     defer smeDone()                        // registered immediately after the acquisition, no return between
     ... body: early error returns, result, cancellation, panic ...   // EExit q o : release `<-sem` on every path

   The semaphore (a buffered channel of capacity max) is a counter in_use <= max.  A query is a small
   state machine (phase); the global state is the list of phases plus the counter; an event is one step
   of one query.  Executable definitions only. *)
From Coq Require Import List Arith Bool.
Import ListNotations.

(* how a query ended *)
Inductive outcome :=
| OPrepErr     (* failed before the acquisition (Prepare error, no hosts, unknown resolver) *)
| OTooMany     (* answered with status "too many requests" *)
| OOk          (* body returned a result *)
| OErr         (* body returned an error (after the acquisition) *)
| OPanic       (* body panicked; the deferred release runs while unwinding *)
| OCancelled.  (* context cancelled while the body was running *)

Inductive phase :=
| Idle                (* not started *)
| Waiting             (* Prepare succeeded, inside TryAddFor *)
| Holding             (* owns a slot, body executing, release deferred *)
| Done (o : outcome).

Inductive event :=
| EStart (q : nat) (prep_ok : bool)
| EAcquire (q : nat)                 (* `sem <- struct{}{}` succeeded *)
| ETimeout (q : nat)                 (* `<-ctx.Done()` of TryAddFor chosen *)
| EExit (q : nat) (o : outcome)      (* body left by o; deferred `<-sem` executed *)
| ECancelWait (q : nat).             (* the caller cancels the query context while the query is inside
                                        TryAddFor: TryAddFor waits on its own context.Background() timer and
                                        does not look at the query context, so the query stays Waiting (it is
                                        later served or times out like any other) and the counter is untouched *)

Record state := mkState { phases : list phase; in_use : nat }.

Fixpoint upd {A} (l : list A) (i : nat) (x : A) : list A :=
  match l, i with
  | [], _ => []
  | _ :: t, O => x :: t
  | h :: t, S j => h :: upd t j x
  end.

(* outcomes the body (after the acquisition) can produce *)
Definition post_acq (o : outcome) : bool :=
  match o with OOk | OErr | OPanic | OCancelled => true | _ => false end.

Definition set_phase (s : state) (q : nat) (p : phase) (n : nat) : state :=
  mkState (upd (phases s) q p) n.

(* One step.  None = the event is not enabled in s.
   strict = true adds the guard of Go's select on a timer that has not yet expired when the select
   starts: the timeout branch is only taken while the channel is full (a parked sender is woken by the
   receive that frees a slot, atomically).  bounded / no_leak are proved for both values of strict. *)
Definition sem_step (strict : bool) (max : nat) (s : state) (e : event) : option state :=
  match e with
  | EStart q ok =>
    match nth_error (phases s) q with
    | Some Idle => Some (set_phase s q (if ok then Waiting else Done OPrepErr) (in_use s))
    | _ => None
    end
  | EAcquire q =>
    match nth_error (phases s) q with
    | Some Waiting => if in_use s <? max then Some (set_phase s q Holding (S (in_use s))) else None
    | _ => None
    end
  | ETimeout q =>
    match nth_error (phases s) q with
    | Some Waiting => if strict && (in_use s <? max) then None
                      else Some (set_phase s q (Done OTooMany) (in_use s))
    | _ => None
    end
  | EExit q o =>
    match nth_error (phases s) q with
    | Some Holding => if post_acq o then Some (set_phase s q (Done o) (in_use s - 1)) else None
    | _ => None
    end
  | ECancelWait q =>
    match nth_error (phases s) q with
    | Some Waiting => Some (set_phase s q Waiting (in_use s))
    | _ => None
    end
  end.

Fixpoint run_trace (strict : bool) (max : nat) (s : state) (evs : list event) : option state :=
  match evs with
  | [] => Some s
  | e :: t => match sem_step strict max s e with
              | Some s' => run_trace strict max s' t
              | None => None
              end
  end.

(* n queries, none started, all slots free *)
Definition init (n : nat) : state := mkState (repeat Idle n) 0.

Definition is_holding (p : phase) : bool := match p with Holding => true | _ => false end.
Definition is_done (p : phase) : bool := match p with Done _ => true | _ => false end.
Definition count_holding (l : list phase) : nat := length (filter is_holding l).
Definition all_ended (s : state) : bool := forallb is_done (phases s).
Definition phase_of (s : state) (q : nat) : phase := nth q (phases s) Idle.

(* ------------------------------------------------------------------------------------------
   Script layer used by the correspondence run: the harness executes a list of operations one
   after the other, each until the system is quiescent, and records what it saw.  The model
   turns the same operations into events of the state machine above (strict = true). *)

Inductive exitk := XOk | XErr | XPanic | XCancel.
Definition out_of (x : exitk) : outcome :=
  match x with XOk => OOk | XErr => OErr | XPanic => OPanic | XCancel => OCancelled end.

Inductive kind :=
| KPrepFail                             (* fails before the acquisition *)
| KRun (blocking : bool) (x : exitk).   (* acquires; blocking: held at the mock until OpFinish *)

Inductive op :=
| OpSpawn (q : nat) (k : kind) (patient : bool)  (* patient: long acquisition timeout *)
| OpFinish (q : nat)                             (* let the blocked holder q leave by its exit path *)
| OpCancelWait (q : nat).                        (* cancel the context of the parked query q while the semaphore is
                                                    full and nobody releases, then wait for its return: it is
                                                    answered by the acquisition timeout *)

(* what the harness can see *)
Inductive ocode := CStarted | CAcq | CTooMany | COk | CErr | CPanic | CHang.
Definition code_of (x : exitk) : ocode :=
  match x with XOk => COk | XErr => CErr | XPanic => CPanic | XCancel => COk end.
  (* a cancelled distributed query returns the partial result with a nil error *)

Record sstate := mkS {
  core : state;
  holders : list (nat * exitk);           (* blocked at the mock, with the exit path they will take *)
  waiters : list (nat * (bool * exitk))   (* patient queries parked in TryAddFor, oldest first *)
}.

(* waiters served by `free` slots: a blocking one keeps its slot, an instant one returns it *)
Fixpoint drain (free : nat) (ws : list (nat * (bool * exitk)))
  : list event * list (nat * ocode) * list (nat * exitk) * list (nat * (bool * exitk)) :=
  match ws with
  | [] => ([], [], [], [])
  | (w, (b, x)) :: t =>
    match free with
    | O => ([], [], [], ws)
    | S f =>
      if b then let '(ev, ob, hs, rest) := drain f t in
                (EAcquire w :: ev, (w, CAcq) :: ob, (w, x) :: hs, rest)
      else let '(ev, ob, hs, rest) := drain free t in
           (EAcquire w :: EExit w (out_of x) :: ev, (w, code_of x) :: ob, hs, rest)
    end
  end.

Fixpoint lookup {A} (q : nat) (l : list (nat * A)) : option A :=
  match l with
  | [] => None
  | (k, v) :: t => if Nat.eqb k q then Some v else lookup q t
  end.
Fixpoint remove_key {A} (q : nat) (l : list (nat * A)) : list (nat * A) :=
  match l with
  | [] => []
  | (k, v) :: t => if Nat.eqb k q then remove_key q t else (k, v) :: remove_key q t
  end.

(* events, observations and bookkeeping of one operation *)
Definition op_plan (max : nat) (s : sstate) (o : op)
  : option (list event * list (nat * ocode) * list (nat * exitk) * list (nat * (bool * exitk))) :=
  match o with
  | OpSpawn q KPrepFail _ => Some ([EStart q false], [(q, CErr)], holders s, waiters s)
  | OpSpawn q (KRun b x) patient =>
    if in_use (core s) <? max then
      if b then Some ([EStart q true; EAcquire q], [(q, CAcq)], holders s ++ [(q, x)], waiters s)
      else Some ([EStart q true; EAcquire q; EExit q (out_of x)], [(q, code_of x)], holders s, waiters s)
    else if patient then Some ([EStart q true], [(q, CStarted)], holders s, waiters s ++ [(q, (b, x))])
    else Some ([EStart q true; ETimeout q], [(q, CTooMany)], holders s, waiters s)
  | OpFinish q =>
    match lookup q (holders s) with
    | None => None
    | Some x =>
      let '(ev, ob, hs, rest) := drain (max - (in_use (core s) - 1)) (waiters s) in
      Some (EExit q (out_of x) :: ev, (q, code_of x) :: ob, remove_key q (holders s) ++ hs, rest)
    end
  | OpCancelWait q =>
    match lookup q (waiters s) with
    | None => None
    | Some _ => Some ([ECancelWait q; ETimeout q], [(q, CTooMany)], holders s, remove_key q (waiters s))
    end
  end.

Definition run_op (max : nat) (s : sstate) (o : op) : option (sstate * list event * (list (nat * ocode) * nat)) :=
  match op_plan max s o with
  | None => None
  | Some (ev, ob, hs, ws) =>
    match run_trace true max (core s) ev with
    | None => None
    | Some c => Some (mkS c hs ws, ev, (ob, in_use c))
    end
  end.

Fixpoint run_ops (max : nat) (s : sstate) (ops : list op)
  : option (sstate * list event * list (list (nat * ocode) * nat)) :=
  match ops with
  | [] => Some (s, [], [])
  | o :: t =>
    match run_op max s o with
    | None => None
    | Some (s1, ev, ob) =>
      match run_ops max s1 t with
      | None => None
      | Some (s2, evs, obs) => Some (s2, ev ++ evs, ob :: obs)
      end
    end
  end.

Definition spawn_count (ops : list op) : nat :=
  length (filter (fun o => match o with OpSpawn _ _ _ => true | _ => false end) ops).

Definition sinit (n : nat) : sstate := mkS (init n) [] [].

(* the model's prediction of what the harness observes: per operation the (query, code) items in
   order and the number of slots in use once the operation has settled *)
Definition predict (max : nat) (ops : list op) : option (list (list (nat * ocode) * nat)) :=
  match run_ops max (sinit (spawn_count ops)) ops with
  | Some (_, _, obs) => Some obs
  | None => None
  end.

Definition script_events (max : nat) (ops : list op) : option (list event) :=
  match run_ops max (sinit (spawn_count ops)) ops with
  | Some (_, evs, _) => Some evs
  | None => None
  end.

(* ------------------------------------------------------------------------------------------
   Wiring of the configured limit to the runner (pkg/api/server/server.go,
   pkg/api/goprobe/server/server.go, pkg/api/globalquery/server/server.go):

     WithQueryRateLimit(r, b, maxConcurrent): server.queryRateMaxConcurrent = maxConcurrent;
                                              if r > 0 { server.queryRateLimiter = rate.NewLimiter(r, b) }
     QueryRateLimiter(): return queryRateMaxConcurrent, queryRateLimiter, queryRateLimiter != nil
     registerRoutes():   maxConcurrentQueries, rateLimiter, enabled := server.QueryRateLimiter()
                         if maxConcurrentQueries > 0 { sem := make(chan struct{}, maxConcurrentQueries)
                                                       opts = append(opts, WithMaxConcurrent(sem)) }      *)

Record cfg := mkCfg { rate_pos : bool;   (* max_req_per_sec > 0 *)
                      burst : nat;
                      max_conc : nat }.  (* max_concurrent *)

Record srv := mkSrv { s_limiter : bool; s_maxc : nat }.

Definition with_query_rate_limit (c : cfg) : srv := mkSrv (rate_pos c) (max_conc c).
Definition query_rate_limiter (s : srv) : nat * bool := (s_maxc s, s_limiter s).
(* capacity of the semaphore handed to the runner; None = no semaphore, unlimited *)
Definition register_routes (s : srv) : option nat :=
  let '(maxc, _) := query_rate_limiter s in if 0 <? maxc then Some maxc else None.

Definition effective_max (c : cfg) : option nat := register_routes (with_query_rate_limit c).

(* counter capacity used by the model for a script of nq queries: without a semaphore no acquisition
   can ever fail, which is a counter that nq queries cannot fill *)
Definition cap_or_unlimited (m : option nat) (nq : nat) : nat :=
  match m with Some n => n | None => nq end.
