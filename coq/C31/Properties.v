(* C31 property theorems. Statements closed by `exact`, Print Assumptions, non-vacuity examples.
   A trace is ANY list of per-query events; it is valid when every event is enabled in turn
   (run_trace ... = Some _).  All interleavings of any number n of queries are such lists. *)
From Coq Require Import List Arith Bool.
From GoProbe.C31 Require Import Model Proofs.
Import ListNotations.

(* At every point (after every prefix) of every valid schedule of n queries the counter and the number
   of queries executing with a slot are at most max. Holds with and without the select guard. *)
Theorem c31_bounded : forall strict max n pre post s,
  run_trace strict max (init n) (pre ++ post) = Some s ->
  exists s1, run_trace strict max (init n) pre = Some s1 /\
             in_use s1 <= max /\ count_holding (phases s1) <= max.
Proof. exact bounded. Qed.
Print Assumptions c31_bounded.

(* A query ends as "too many requests" iff its acquisition timed out, and such a query never held a slot. *)
Theorem c31_rejected : forall strict max n evs s q,
  run_trace strict max (init n) evs = Some s ->
  (nth_error (phases s) q = Some (Done OTooMany) <-> In (ETimeout q) evs) /\
  (In (ETimeout q) evs -> ~ In (EAcquire q) evs).
Proof. exact rejected. Qed.
Print Assumptions c31_rejected.

(* Model-level condition for a timeout (strict = the guard of Go's select with a timer that has not
   expired when the select starts): when a query is rejected, all max slots are held by executing
   queries; and while all slots are taken no acquisition is possible. *)
Theorem c31_rejected_only_when_full : forall max n pre q post s,
  run_trace true max (init n) (pre ++ ETimeout q :: post) = Some s ->
  exists s1, run_trace true max (init n) pre = Some s1 /\ nth_error (phases s1) q = Some Waiting /\
             in_use s1 = max /\ count_holding (phases s1) = max.
Proof. exact rejected_when_full. Qed.
Print Assumptions c31_rejected_only_when_full.

Theorem c31_full_blocks_acquire : forall strict max s q,
  max <= in_use s -> sem_step strict max s (EAcquire q) = None.
Proof. exact full_blocks_acquire. Qed.
Print Assumptions c31_full_blocks_acquire.

(* The counter always equals the number of queries currently executing (every query that returned,
   failed, was cancelled or panicked has given its slot back); when all queries have ended it is 0. *)
Theorem c31_no_leak : forall strict max n evs s,
  run_trace strict max (init n) evs = Some s ->
  in_use s = count_holding (phases s) /\ (all_ended s = true -> in_use s = 0).
Proof. exact no_leak. Qed.
Print Assumptions c31_no_leak.

(* The caller cancelling a query that is waiting for a slot is not a step of the limit: it is possible
   exactly for a Waiting query and leaves phases and counter as they are (the query neither takes nor
   gives back a slot; it is still answered by the timeout, or served, like any waiting query).  All
   theorems here quantify over traces that may contain this event anywhere. *)
Theorem c31_cancel_wait_neutral : forall strict max s q,
  (forall s1, sem_step strict max s (ECancelWait q) = Some s1 ->
              nth_error (phases s) q = Some Waiting /\ s1 = s) /\
  (nth_error (phases s) q = Some Waiting -> sem_step strict max s (ECancelWait q) = Some s).
Proof. intros; split; [apply cancel_wait_neutral | apply cancel_wait_enabled]. Qed.
Print Assumptions c31_cancel_wait_neutral.

(* ... and a released slot is usable: once everything else has ended, a fresh query acquires. *)
Theorem c31_slot_reusable : forall strict max n evs s q,
  0 < max -> run_trace strict max (init n) evs = Some s ->
  forallb is_done (upd (phases s) q (Done OOk)) = true -> nth_error (phases s) q = Some Idle ->
  exists s2, run_trace strict max s [EStart q true; EAcquire q] = Some s2 /\
             nth_error (phases s2) q = Some Holding.
Proof. exact reusable. Qed.
Print Assumptions c31_slot_reusable.

(* The events the correspondence run derives from a harness script are a valid (strict) trace, so the
   theorems above apply to every model run that is compared with the implementation. *)
Theorem c31_script_sound : forall max ops evs,
  script_events max ops = Some evs ->
  exists s, run_trace true max (init (spawn_count ops)) evs = Some s.
Proof. exact script_sound. Qed.
Print Assumptions c31_script_sound.

(* The capacity of the semaphore the API servers hand to the runner equals the configured
   max_concurrent whenever that is > 0, for every setting of the request rate limiter (rate > 0 or not,
   any burst); max_concurrent = 0 means no semaphore.  Together with c31_bounded (max := that capacity):
   no more than the CONFIGURED number of queries execute at once. *)
Theorem c31_config_wiring : forall rate_positive burst n,
  (0 < n -> effective_max (mkCfg rate_positive burst n) = Some n) /\
  (n = 0 -> effective_max (mkCfg rate_positive burst n) = None).
Proof. exact config_wiring. Qed.
Print Assumptions c31_config_wiring.

(* ---- non-vacuity ------------------------------------------------------------------------ *)

(* max = 1, four queries: 0 holds, 1 is cancelled by its caller while it waits and is then rejected
   while 0 holds, 2 fails in Prepare, 0 panics, 3 acquires the freed slot and is cancelled *)
Definition ex_trace : list event :=
  [EStart 0 true; EStart 1 true; EAcquire 0; ECancelWait 1; ETimeout 1; EStart 2 false; EExit 0 OPanic;
   EStart 3 true; EAcquire 3; EExit 3 OCancelled].

Example c31_bounded_example :
  exists s, run_trace true 1 (init 4) (firstn 4 ex_trace ++ skipn 4 ex_trace) = Some s /\
            exists s1, run_trace true 1 (init 4) (firstn 4 ex_trace) = Some s1 /\ in_use s1 = 1.
Proof. eexists; split; [vm_compute; reflexivity|]. eexists; split; vm_compute; reflexivity. Qed.

Example c31_rejected_example :
  exists s, run_trace true 1 (init 4) ex_trace = Some s /\
            nth_error (phases s) 1 = Some (Done OTooMany) /\ In (ETimeout 1) ex_trace /\
            nth_error (phases s) 0 = Some (Done OPanic).
Proof. eexists; split; [vm_compute; reflexivity|]. vm_compute. intuition. Qed.

Example c31_rejected_only_when_full_example :
  exists s, run_trace true 1 (init 4) ([EStart 0 true; EStart 1 true; EAcquire 0; ECancelWait 1] ++ ETimeout 1 :: skipn 5 ex_trace) = Some s.
Proof. eexists; vm_compute; reflexivity. Qed.

(* the guard really excludes something: a timeout with a free slot is not a strict step *)
Example c31_strict_guard_example :
  run_trace true 1 (init 1) [EStart 0 true; ETimeout 0] = None /\
  run_trace false 1 (init 1) [EStart 0 true; ETimeout 0] <> None.
Proof. split; vm_compute; congruence. Qed.

Example c31_full_blocks_acquire_example :
  exists s, run_trace true 1 (init 2) [EStart 0 true; EStart 1 true; EAcquire 0] = Some s /\ 1 <= in_use s /\
            sem_step true 1 s (EAcquire 1) = None.
Proof. eexists; split; [vm_compute; reflexivity|]. vm_compute. auto. Qed.

Example c31_no_leak_example :
  exists s, run_trace true 1 (init 4) ex_trace = Some s /\ all_ended s = true /\ in_use s = 0.
Proof. eexists; split; [vm_compute; reflexivity|]. vm_compute. auto. Qed.

Example c31_slot_reusable_example :
  exists s, run_trace true 1 (init 5) ex_trace = Some s /\
            forallb is_done (upd (phases s) 4 (Done OOk)) = true /\ nth_error (phases s) 4 = Some Idle.
Proof. eexists; split; [vm_compute; reflexivity|]. vm_compute. auto. Qed.

Example c31_cancel_wait_neutral_example :
  exists s, run_trace true 1 (init 4) (firstn 3 ex_trace) = Some s /\ nth_error (phases s) 1 = Some Waiting /\
            sem_step true 1 s (ECancelWait 1) = Some s /\ sem_step true 1 s (ECancelWait 0) = None.
Proof. eexists; split; [vm_compute; reflexivity|]. vm_compute. auto. Qed.

Example c31_script_cancel_wait_example :
  script_events 1 [OpSpawn 0 (KRun true XOk) false; OpSpawn 1 (KRun false XOk) true; OpCancelWait 1;
                   OpSpawn 2 (KRun false XOk) false; OpFinish 0]
  = Some [EStart 0 true; EAcquire 0; EStart 1 true; ECancelWait 1; ETimeout 1; EStart 2 true; ETimeout 2;
          EExit 0 OOk].
Proof. vm_compute. reflexivity. Qed.

Example c31_config_wiring_example :
  effective_max (mkCfg false 0 1) = Some 1 /\ effective_max (mkCfg true 7 2) = Some 2 /\
  effective_max (mkCfg true 7 0) = None.
Proof. vm_compute. auto. Qed.

Example c31_script_sound_example :
  script_events 1 [OpSpawn 0 (KRun true XPanic) true; OpSpawn 1 (KRun false XErr) false;
                   OpSpawn 2 (KRun true XCancel) true; OpSpawn 3 KPrepFail false; OpFinish 0; OpFinish 2]
  = Some [EStart 0 true; EAcquire 0; EStart 1 true; ETimeout 1; EStart 2 true; EStart 3 false;
          EExit 0 OPanic; EAcquire 2; EExit 2 OCancelled].
Proof. vm_compute. reflexivity. Qed.
