(* C31 correspondence: case type, corr (model prediction = observation) and holds (the observed
   run satisfies the property, computed from the observation and the script by plain counting). *)
From Coq Require Import List Arith Bool.
From GoProbe.C31 Require Import Model.
Import ListNotations.

Definition ocode_eqb (a b : ocode) : bool :=
  match a, b with
  | CStarted, CStarted | CAcq, CAcq | CTooMany, CTooMany | COk, COk | CErr, CErr
  | CPanic, CPanic | CHang, CHang => true
  | _, _ => false
  end.

Definition item_eqb (a b : nat * ocode) : bool := Nat.eqb (fst a) (fst b) && ocode_eqb (snd a) (snd b).

Fixpoint list_eqb {A} (eqb : A -> A -> bool) (l1 l2 : list A) : bool :=
  match l1, l2 with
  | [], [] => true
  | a :: t1, b :: t2 => eqb a b && list_eqb eqb t1 t2
  | _, _ => false
  end.

Definition obs := (list (nat * ocode) * nat)%type.
Definition obs_eqb (a b : obs) : bool := list_eqb item_eqb (fst a) (fst b) && Nat.eqb (snd a) (snd b).

(* c_engine: true = engine.QueryRunner (blocking holders are slots taken on the shared channel by the
   harness), false = distributed.QueryRunner (blocking holders are real queries held at the mock).
   c_obs: per operation, the (query, code) items in the order seen and len(sem) once settled. *)
Record case := mkCase { c_engine : bool; c_max : nat; c_ops : list op; c_obs : list obs;
                        c_cfg : option cfg }.
(* c_cfg = Some g: the runner is the one built by the real global-query API server from the options
   WithQueryRateLimit(rate, burst, max_concurrent), queries go through its HTTP handler; c_max is unused and
   the sample is the number of queries the mock sees executing (the channel is private to the server) *)

Definition model_max (c : case) : nat :=
  match c_cfg c with
  | None => c_max c
  | Some g => cap_or_unlimited (effective_max g) (spawn_count (c_ops c))
  end.

(* specification: a configured max_concurrent > 0 IS the limit, whatever the rate limiter settings *)
Definition spec_max (c : case) : nat :=
  match c_cfg c with
  | None => c_max c
  | Some g => if 0 <? max_conc g then max_conc g else spawn_count (c_ops c)
  end.

Definition corr (c : case) : bool :=
  match predict (model_max c) (c_ops c) with
  | Some p => list_eqb obs_eqb p (c_obs c)
  | None => false
  end.

(* ---- specification on the observed data -------------------------------------------------- *)

Fixpoint remove_nat (q : nat) (l : list nat) : list nat :=
  match l with
  | [] => []
  | h :: t => if Nat.eqb h q then t else h :: remove_nat q t
  end.
Definition mem_nat (q : nat) (l : list nat) : bool := existsb (Nat.eqb q) l.

(* live = queries seen executing (CAcq) and not yet seen returning *)
Fixpoint apply_items (live : list nat) (items : list (nat * ocode)) : option (list nat) :=
  match items with
  | [] => Some live
  | (q, c) :: t =>
    match c with
    | CAcq => if mem_nat q live then None else apply_items (q :: live) t
    | CStarted => apply_items live t
    | CTooMany => if mem_nat q live then None (* a rejected query must never have executed *)
                  else apply_items live t
    | COk | CErr | CPanic => apply_items (remove_nat q live) t
    | CHang => None
    end
  end.

Definition has_code (q : nat) (c : ocode) (items : list (nat * ocode)) : bool :=
  existsb (fun it => item_eqb it (q, c)) items.

(* rejection rule for one spawn, given the number of queries executing before it *)
Definition spawn_ok (max : nat) (executing : nat) (o : op) (items : list (nat * ocode)) : bool :=
  match o with
  | OpSpawn q KPrepFail _ => list_eqb item_eqb items [(q, CErr)]      (* an error, never a slot, never 429 *)
  | OpSpawn q (KRun _ _) patient =>
    if executing <? max then negb (has_code q CTooMany items) && negb (has_code q CStarted items)
    else if patient then list_eqb item_eqb items [(q, CStarted)]
    else list_eqb item_eqb items [(q, CTooMany)]
  | OpFinish _ => true
  | OpCancelWait q =>
    (* cancelled while waiting beyond the limit: never executes, is answered "too many requests";
       that it gives nothing back is the sample = executing check below (executing is unchanged) *)
    list_eqb item_eqb items [(q, CTooMany)]
  end.

Fixpoint check (max : nat) (live : list nat) (ops : list op) (os : list obs) : bool :=
  match ops, os with
  | [], [] => true
  | o :: ops', (items, sample) :: os' =>
    spawn_ok max (length live) o items &&
    match apply_items live items with
    | None => false
    | Some live' =>
      (length live' <=? max)                (* never more than max queries executing *)
      && (sample <=? max)                   (* the counter never exceeds the capacity *)
      && Nat.eqb sample (length live')      (* slots in use = queries executing: nothing leaked, nothing lost *)
      && check max live' ops' os'
    end
  | _, _ => false
  end.

Definition holds (c : case) : bool := check (spec_max c) [] (c_ops c) (c_obs c).
