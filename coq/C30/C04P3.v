(* Copy of coq/C04/Proofs3.v as of the C04 merge (the C04 proof files are being reworked; C30 only relies on
   C04's Model.v and on this frozen copy of the lemmas it uses). *)
(* C04 proofs, part 3: the two renames (commit points), one write-out, histories. *)
From Coq Require Import List ZArith NArith Bool Arith Lia.
From GoProbe.Base Require Import CorrLib.
From GoProbe.C04 Require Import Model.
From GoProbe.C30 Require Import C04P1 C04P2.
Import ListNotations.

Section Align2.
Context {A B : Type}.
Implicit Types (R : dkey -> A -> B -> Prop).

Lemma aligned_weaken R R' (l : list (dkey * A)) (m : list (dkey * B)) :
  aligned R l m -> (forall x y, In x l -> R (fst x) (snd x) y -> R' (fst x) (snd x) y) -> aligned R' l m.
Proof.
  induction 1 as [|x y l m [E H] F IH]; intros W; constructor.
  - split; auto. apply W; auto. now left.
  - apply IH. intros; apply W; auto. now right.
Qed.
Lemma aligned_upd2 R R' k f g (l : list (dkey * A)) (m : list (dkey * B)) : aligned R l m ->
  (forall k' a b, R k' a b -> R' k' a b) ->
  (forall a b, lookup k l = Some a -> lookup k m = Some b -> R k a b -> R' k (f a) (g b)) ->
  aligned R' (upd k f l) (upd k g m).
Proof.
  induction 1 as [|[k1 a1] [k2 b1] l m [E H] F IH]; cbn [upd]; intros W U; [constructor|].
  cbn in E, H; subst k2. destruct (keqb k k1) eqn:EE.
  - apply keqb_eq in EE; subst k1. constructor.
    + split; auto. cbn. apply U; cbn; rewrite ?keqb_refl; auto.
    + eapply aligned_weaken; eauto.
  - constructor; [split; cbn; auto|]. apply IH; auto. intros a b La Lb. apply U; cbn; rewrite EE; auto.
Qed.
Lemma aligned_upd_l2 R R' k f (l : list (dkey * A)) (m : list (dkey * B)) : ksorted l -> aligned R l m ->
  (forall k' a b, k' <> k -> R k' a b -> R' k' a b) ->
  (forall a b, lookup k l = Some a -> R k a b -> R' k (f a) b) ->
  aligned R' (upd k f l) m.
Proof.
  intros S. revert m. induction S as [|k1 a1 l F S IH]; intros m Al W U; inversion Al as [|x [k2 b1] l' m' [E H] Fa]; subst; cbn [upd].
  - constructor.
  - cbn in E, H; subst k2. destruct (keqb k k1) eqn:EE.
    + apply keqb_eq in EE; subst k1. constructor.
      * split; auto. cbn. apply U; cbn; rewrite ?keqb_refl; auto.
      * eapply aligned_weaken; eauto. intros x y Hin HR. apply W; auto.
        rewrite Forall_forall in F. specialize (F _ Hin). intros EQ. rewrite EQ in F. apply kltb_neq in F. rewrite keqb_refl in F. discriminate.
    + constructor.
      * split; cbn; auto. apply W; auto. apply keqb_neq in EE. auto.
      * apply IH; auto. intros a b La. apply U; cbn; rewrite EE; auto.
Qed.
End Align2.

Lemma ksorted_filter {A} (P : dkey * A -> bool) l : ksorted l -> ksorted (filter P l).
Proof.
  induction 1 as [|k v l F S IH]; cbn; [constructor|]. destruct (P (k, v)); auto. constructor; auto. now apply Forall_filter.
Qed.

(* what Inv says about the day directory of a key *)
Lemma inv_lookup st s a k : InvS st s a ->
  match lookup k (f_days s), lookup k a with
  | Some d, Some bl => visible d = true /\ Rday st k d bl
  | Some d, None => visible d = false
  | None, None => True
  | None, Some _ => False
  end.
Proof.
  intros [S A]. pose proof (aligned_lookup _ k _ _ A) as H. rewrite lookup_filter in H by auto.
  unfold vis in H; cbn [snd] in H.
  destruct (lookup k (f_days s)) as [d|]; [destruct (visible d)|]; destruct (lookup k a); auto; contradiction.
Qed.

(* ------------------------------------------------------------------ the metadata rename: the commit point *)
Definition put_ok (a : adb) (w : writeout) : bool :=
  match lookup (w_key w) a with Some bl => negb (existsb (fun v => Z.eqb (w_ts v) (w_ts w)) bl) | None => true end.
Definition cur_meta (a : adb) (k : dkey) : meta := match lookup k a with Some bl => meta_of bl | None => new_meta end.

Lemma step_commit s a p n d w :
  Inv s a -> day_at s p = Some d -> dp_key p = w_key w -> put_ok a w = true ->
  tmp_get n (d_tmps d) = Some (Some (meta_add (cur_meta a (w_key w)) w)) ->
  let s' := fst (apply s (ORename (RTmp p n) (RMeta p))) in
  InvS (Some (w_key w)) s' (adb_put a w) /\
  (d_suf d = None \/ d_suf d = Some (m_tot (meta_add (cur_meta a (w_key w)) w)) -> Inv s' (adb_put a w)) /\
  exists d', day_at s' p = Some d' /\ d_meta d' = Some (Some (meta_add (cur_meta a (w_key w)) w)).
Proof.
  intros I D K PO T. cbn [apply]. rewrite D, T. cbn [fst].
  set (m' := meta_add (cur_meta a (w_key w)) w) in *.
  set (g := fun d0 => set_tmps (set_meta d0 (Some (Some m'))) (tmp_del n (d_tmps d0))).
  pose proof (inv_lookup _ _ _ (w_key w) I) as IL.
  destruct (day_at_some _ _ _ D) as [L O]. rewrite K in L. rewrite L in IL.
  assert (Dafter : exists d', day_at (upd_day s p g) p = Some d' /\ d_meta d' = Some (Some m')).
  { exists (g d). split; [apply day_at_upd; auto|reflexivity]. }
  destruct I as [S A].
  unfold adb_put, put_ok, cur_meta in *. destruct (lookup (w_key w) a) as [bl|] eqn:La.
  - (* the day has committed data *)
    destruct IL as [V (NE & HM & _)]. apply negb_true_iff in PO. rewrite PO.
    assert (M : m' = meta_of (bl ++ [w])) by (unfold m'; now rewrite meta_of_snoc).
    assert (G : forall st', (st' = Some (w_key w) \/ d_suf d = None \/ d_suf d = Some (m_tot m')) ->
                InvS st' (upd_day s p g) (upd (w_key w) (fun bl => bl ++ [w]) a)).
    { intros st' Hst. split; cbn [f_days upd_day]; [now apply ksorted_upd|]. rewrite K.
      rewrite filter_upd_same; auto.
      - eapply aligned_upd2; eauto.
        + intros k' a0 b (X & Y & [Z|Z]); [discriminate|]. repeat split; auto.
        + intros a0 b La0 Lb (X & Y & _). rewrite lookup_filter in La0 by auto. rewrite L in La0.
          unfold vis in La0; cbn [snd] in La0. assert (a0 = d) as -> by (destruct (visible d); congruence). clear La0. rewrite La in Lb. injection Lb as <-.
          repeat split.
          * destruct bl; discriminate.
          * cbn. now rewrite M.
          * destruct Hst as [->|Hst]; [now left|right]. unfold suf_ok. cbn [g set_tmps set_meta d_suf].
            destruct Hst as [->| ->]; [now left|right]. now rewrite M, meta_of_tot.
      - intros v Lv. rewrite Lv in L. injection L as ->. unfold vis; cbn [snd]. rewrite V.
        unfold visible; cbn. destruct (d_suf d); reflexivity. }
    split; [apply G; now left|]. split; [intros Hs; apply G; now right|]. exact Dafter.
  - (* first commit for this day *)
    assert (M : m' = meta_of [w]) by reflexivity.
    assert (V : visible d = false) by exact IL.
    assert (SU : d_suf d = None) by (unfold visible in V; destruct (d_suf d); [discriminate|reflexivity]).
    assert (G : forall st', InvS st' (upd_day s p g) (ins (w_key w) [w] a)).
    { intros st'. split; cbn [f_days upd_day]; [now apply ksorted_upd|]. rewrite K.
      rewrite (filter_upd_appear vis (w_key w) g (f_days s) d); auto.
      - apply aligned_ins.
        + eapply aligned_weaken; eauto. intros x y _ (X & Y & [Z|Z]); [discriminate|]. repeat split; auto.
        + split; [discriminate|split; [reflexivity|right; left; exact SU]].
      - unfold vis, visible; cbn. destruct (d_suf d); reflexivity. }
    split; [apply G|]. split; [intros _; apply G|]. exact Dafter.
Qed.

(* ------------------------------------------------------------------ the directory rename *)
Lemma step_rendir st s a p d m' :
  InvS st s a -> (st = None \/ st = Some (dp_key p)) -> day_at s p = Some d -> d_meta d = Some (Some m') ->
  Inv (fst (apply s (ORenameDir p {| dp_key := dp_key p; dp_suf := Some (m_tot m') |}))) a.
Proof.
  intros [S A] Hst D HM. cbn [apply]. rewrite D. cbn [fst dp_suf].
  destruct (day_at_some _ _ _ D) as [L O].
  split; cbn [f_days upd_day]; [now apply ksorted_upd|].
  rewrite filter_upd_same; auto.
  - eapply aligned_upd_l2; eauto.
    + now apply ksorted_filter.
    + intros k' a0 b NK (X & Y & [Z|Z]); repeat split; auto. destruct Hst as [->| ->]; [discriminate|]. injection Z as Z. congruence.
    + intros a0 b La0 (X & Y & _). rewrite lookup_filter in La0 by auto. rewrite L in La0.
      destruct (vis (dp_key p, d)); [|discriminate]. injection La0 as <-.
      repeat split; auto. right. right. cbn. rewrite HM in Y. injection Y as ->. now rewrite meta_of_tot.
  - intros v Lv. rewrite Lv in L. injection L as ->. unfold vis, visible; cbn. rewrite HM. destruct (d_suf d); reflexivity.
Qed.
