(* C30 proofs, writer side (1): the time-indexed invariant of the write-out history.
   GoodS s a nf: every day directory of s is either invisible (no metadata, no suffix, not in the abstract
   database a) or carries the metadata of its committed write-outs `bl` and the name suffix of the first
   `nf k` of them. *)
From Coq Require Import List ZArith NArith Bool Arith Lia.
From GoProbe.Base Require Import CorrLib.
From GoProbe.C04 Require Import Model.
From GoProbe.C30 Require Import C04P1 C04P2 C04P3 C04P4 C04P5 C04PC.
Import ListNotations.

Definition sufx (l : list writeout) : option totals := match l with [] => None | _ => Some (tots_of l) end.
Definition daylist (a : adb) (k : dkey) : list writeout := match lookup k a with Some bl => bl | None => [] end.

Definition GoodD (d : dayfs) (obl : option (list writeout)) (n : nat) : Prop :=
  match obl with
  | Some bl => bl <> [] /\ d_meta d = Some (Some (meta_of bl)) /\ n <= length bl /\ d_suf d = sufx (firstn n bl)
               /\ cols_ok d bl /\ Forall wf_w bl
  | None => d_meta d = None /\ d_suf d = None
  end.
Definition GoodS (s : fs) (a : adb) (nf : dkey -> nat) : Prop :=
  ksorted (f_days s) /\
  forall k, match lookup k (f_days s) with Some d => GoodD d (lookup k a) (nf k) | None => lookup k a = None end.
Definition clean (a : adb) (nf : dkey -> nat) : Prop := forall k, nf k = length (daylist a k).

Lemma good_upd s a nf p f : GoodS s a nf ->
  (forall d, lookup (dp_key p) (f_days s) = Some d -> GoodD d (lookup (dp_key p) a) (nf (dp_key p)) ->
             GoodD (f d) (lookup (dp_key p) a) (nf (dp_key p))) ->
  GoodS (upd_day s p f) a nf.
Proof.
  intros [S G] Hf. split; cbn [f_days upd_day]; [now apply ksorted_upd|].
  intros k. destruct (keqb k (dp_key p)) eqn:E.
  - apply keqb_eq in E; subst k. rewrite lookup_upd_same. specialize (G (dp_key p)).
    destruct (lookup (dp_key p) (f_days s)) as [d|] eqn:L; cbn; auto.
  - apply keqb_neq in E. rewrite lookup_upd_other by auto. apply G.
Qed.

Lemma good_frame s a nf p f : GoodS s a nf ->
  (forall d, d_suf (f d) = d_suf d /\ d_meta (f d) = d_meta d /\ forall c, d_cols (f d) c = d_cols d c) ->
  GoodS (upd_day s p f) a nf.
Proof.
  intros G Hf. apply good_upd; auto. intros d _ GD. destruct (Hf d) as (E1 & E2 & E3).
  unfold GoodD in *. destruct (lookup (dp_key p) a); rewrite E1, E2; auto.
  destruct GD as (A1 & A2 & A3 & A4 & A5 & A6). repeat split; auto. eapply cols_ok_ext; eauto.
Qed.

Ltac frame G := apply good_frame; [exact G | intros; repeat split; intros; reflexivity].

(* the operations of a write-out before its commit: no rename, column data written at the committed end *)
Definition op_ok (a : adb) (o : fsop) : Prop :=
  match o with
  | ORename _ _ | ORenameDir _ _ => False
  | OWrite (RCol p c) off (WBytes _) => off = clen c (daylist a (dp_key p))
  | _ => True
  end.
Lemma op_ok_not_rename a o : op_ok a o -> not_rename o.
Proof. destruct o; cbn; auto. Qed.

Lemma cols_ok_other d bl c x : ~ c < ncols -> cols_ok d bl -> cols_ok (set_col d c x) bl.
Proof.
  intros N H pre w post E c' Hc. rewrite <- (H pre w post E c' Hc). apply read_col_ext. cbn.
  destruct (Nat.eqb c' c) eqn:EE; auto. apply Nat.eqb_eq in EE. subst. contradiction.
Qed.

(* every such operation preserves the invariant *)
Lemma step_good a nf s o : op_ok a o -> GoodS s a nf -> GoodS (fst (apply s o)) a nf.
Proof.
  intros NR G. destruct o as [dr|f|f|f|f off|f off dat|f|f|f g|p q|f|f]; try contradiction; cbn [apply].
  - destruct dr as [u|p].
    + destruct (has_up s u); cbn [fst]; auto.
    + destruct (lookup (dp_key p) (f_days s)) eqn:L; [cbn [fst]; auto|].
      destruct (dp_suf p); cbn [fst]; auto.
      destruct G as [S G']. split; cbn [f_days].
      * apply ksorted_ins; auto.
      * intros k. destruct (keqb k (dp_key p)) eqn:E.
        -- apply keqb_eq in E; subst k. rewrite lookup_ins_same by auto.
           specialize (G' (dp_key p)). rewrite L in G'. rewrite G'. cbn. auto.
        -- apply keqb_neq in E. rewrite lookup_ins_other by auto. apply G'.
  - destruct f; cbn [fst]; auto.
  - destruct f as [| |p c|]; cbn [fst]; auto.
    destruct (day_at s p) as [d|] eqn:D; cbn [fst]; auto.
    destruct (d_cols d c) eqn:DC; auto.
    apply good_upd; auto. intros d0 L0 GD. apply day_at_some in D as [L _]. rewrite L in L0. injection L0 as <-.
    unfold GoodD in *. destruct (lookup (dp_key p) a); auto.
    destruct GD as (A1 & A2 & A3 & A4 & A5 & A6). repeat split; auto. now apply cols_ok_create.
  - destruct f as [| | |p n]; cbn [fst]; auto.
    destruct (day_at s p) as [d|] eqn:D; cbn [fst]; auto. frame G.
  - cbn [fst]; auto.
  - destruct f as [| |p c|p n]; cbn [fst]; auto.
    + destruct dat; cbn [fst]; auto.
      destruct (day_at s p) as [d|] eqn:D; cbn [fst]; auto.
      destruct (d_cols d c) eqn:DC; cbn [fst]; auto.
      apply good_upd; auto. intros d0 L0 GD. apply day_at_some in D as [L _]. rewrite L in L0. injection L0 as <-.
      cbn in NR. unfold daylist in NR. unfold GoodD in *. destruct (lookup (dp_key p) a) as [bl|]; auto.
      destruct GD as (A1 & A2 & A3 & A4 & A5 & A6). repeat split; auto.
      destruct (lt_dec c ncols) as [LT|GE]; [subst off; now apply cols_ok_write | now apply cols_ok_other].
    + destruct (day_at s p) as [d|] eqn:D; cbn [fst]; auto. frame G.
  - cbn [fst]; auto.
  - destruct f; cbn [fst]; auto.
  - destruct f as [| | |p n]; cbn [fst]; auto.
    destruct (day_at s p) as [d|] eqn:D; cbn [fst]; auto.
    destruct (tmp_get n (d_tmps d)); cbn [fst]; auto. frame G.
  - cbn [fst]; auto.
Qed.

Lemma run_good a nf l : Forall (op_ok a) l -> forall s, GoodS s a nf -> GoodS (apply_all s l) a nf.
Proof. induction 1 as [|o l NR F IH]; intros s G; cbn; auto. apply IH. now apply step_good. Qed.
Lemma prefix_good a nf l k s : Forall (op_ok a) l -> GoodS s a nf -> GoodS (apply_all s (firstn k l)) a nf.
Proof. intros F G. apply run_good; auto. now apply Forall_firstn. Qed.

(* day directories are never removed *)
Lemma upd_keeps {A} k k' (f : A -> A) l : lookup k' l <> None -> lookup k' (upd k f l) <> None.
Proof.
  destruct (keqb k' k) eqn:E.
  - apply keqb_eq in E; subst. rewrite lookup_upd_same. destruct (lookup k l); cbn; congruence.
  - apply keqb_neq in E. now rewrite lookup_upd_other.
Qed.
Lemma apply_keeps s o k : lookup k (f_days s) <> None -> lookup k (f_days (fst (apply s o))) <> None.
Proof.
  intros N.
  destruct o as [dr|f|f|f|f off|f off dat|f|f|f g|p q|f|f]; cbn [apply].
  - destruct dr as [u|p]; [destruct (has_up s u); cbn; auto|].
    destruct (lookup (dp_key p) (f_days s)) eqn:L; [cbn; auto|]. destruct (dp_suf p); cbn; auto.
    destruct (keqb k (dp_key p)) eqn:E.
    + apply keqb_eq in E; subst. rewrite lookup_ins_same by auto; discriminate.
    + apply keqb_neq in E. rewrite lookup_ins_other by auto; auto.
  - destruct f; cbn; auto.
  - destruct f as [| |p c|]; cbn; auto. destruct (day_at s p); cbn; auto. destruct (d_cols d c); cbn; auto. now apply upd_keeps.
  - destruct f as [| | |p n]; cbn; auto. destruct (day_at s p); cbn; auto. now apply upd_keeps.
  - cbn; auto.
  - destruct f as [| |p c|p n]; cbn; auto.
    + destruct dat; cbn; auto. destruct (day_at s p); cbn; auto. destruct (d_cols d c); cbn; auto. now apply upd_keeps.
    + destruct (day_at s p); cbn; auto. now apply upd_keeps.
  - cbn; auto.
  - destruct f as [| | |p n]; cbn; auto.
  - destruct f as [| | |p n]; cbn; auto. destruct g; cbn; auto.
    destruct (day_at s p) as [dd|]; cbn; auto. destruct (tmp_get n (d_tmps dd)); cbn; auto. now apply upd_keeps.
  - destruct (day_at s p); cbn; auto. now apply upd_keeps.
  - destruct f as [| | |p n]; cbn; auto. destruct (day_at s p); cbn; auto. destruct (tmp_get n (d_tmps d)); cbn; auto. now apply upd_keeps.
  - cbn; auto.
Qed.
Lemma apply_all_keeps l : forall s k, lookup k (f_days s) <> None -> lookup k (f_days (apply_all s l)) <> None.
Proof. induction l as [|o l IH]; intros s k N; cbn; auto. apply IH. now apply apply_keeps. Qed.
