(* Copy of coq/C04/Proofs5.v as of the C04 merge (the C04 proof files are being reworked; C30 only relies on
   C04's Model.v and on this frozen copy of the lemmas it uses). *)
(* C04 proofs, part 5: one write-out from any state satisfying the invariant, then histories. *)
From Coq Require Import List ZArith NArith Bool Arith Lia.
From GoProbe.Base Require Import CorrLib.
From GoProbe.C04 Require Import Model.
From GoProbe.C30 Require Import C04P1 C04P2 C04P3 C04P4.
Import ListNotations.

Lemma tot_eqb_refl x : tot_eqb x x = true.
Proof. destruct x; unfold tot_eqb; cbn. now rewrite !N.eqb_refl. Qed.
Lemma otot_eqb_refl x : otot_eqb x x = true.
Proof. destruct x; cbn; auto using tot_eqb_refl. Qed.

Lemma Forall_flat_map {A B} (P : B -> Prop) (f : A -> list B) l : (forall x, Forall P (f x)) -> Forall P (flat_map f l).
Proof. intros H. induction l; cbn; auto. apply Forall_app; auto. Qed.

Lemma pre_cols p m w : Forall not_rename (flat_map (col_ops p m w) cols ++ col_closes p w).
Proof.
  apply Forall_app; split; apply Forall_flat_map; intros c.
  - unfold col_ops. destruct (Nat.eqb _ _); [constructor|]. destruct (nth c (w_renc w) false); repeat constructor.
  - destruct (Nat.eqb _ _); repeat constructor.
Qed.
Lemma pre_colops p m w : Forall not_rename (flat_map (col_ops p m w) cols).
Proof.
  apply Forall_flat_map; intros c. unfold col_ops. destruct (Nat.eqb _ _); [constructor|].
  destruct (nth c (w_renc w) false); repeat constructor.
Qed.
Lemma pre_closes p w : Forall not_rename (col_closes p w).
Proof. apply Forall_flat_map; intros c. destruct (Nat.eqb _ _); repeat constructor. Qed.
Lemma pre_month s w : Forall not_rename (month_ops s w).
Proof. unfold month_ops. destruct (has_up _ _); repeat constructor. Qed.
Lemma pre_mkdir s w : Forall not_rename (mkdir_ops s w).
Proof. unfold mkdir_ops. repeat (apply Forall_app; split); try (destruct (has_up _ _)); repeat constructor. Qed.

Ltac pre_tac := repeat (apply Forall_app; split);
  auto using pre_month, pre_mkdir, pre_colops, pre_closes;
  try unfold col_ops;
  repeat first [ match goal with |- Forall _ (if ?c then _ else _) => destruct c end
               | apply Forall_app; split | constructor ].

(* a write-out = operations that are no renames, after which the day directory exists, then the commit tail *)
Lemma wo_split P s a w p :
  Forall not_rename P -> Inv s a -> (exists d, day_at (apply_all s P) p = Some d) ->
  dp_key p = w_key w -> put_ok a w = true ->
  let ops := P ++ commit_ops p (cur_meta a (w_key w)) w in
  (forall k, outcome ops k (apply_all s (firstn k ops)) a w) /\ Inv (apply_all s ops) (adb_put a w).
Proof.
  intros F I [d D] K PO ops.
  assert (I1 : Inv (apply_all s P) a) by (apply pre_run; auto).
  destruct (commit_tail P _ _ _ _ _ I1 D K PO) as [CT CF].
  split.
  - intros k. unfold ops. rewrite firstn_app, apply_all_app.
    destruct (Nat.le_gt_cases k (length P)) as [LE|GT].
    + replace (k - length P) with 0 by lia. cbn [firstn apply_all fold_left]. left. now apply pre_prefix.
    + rewrite firstn_all2 by lia. replace k with (length P + (k - length P)) at 1 by lia. apply CT.
  - unfold ops. rewrite apply_all_app. exact CF.
Qed.

Lemma all_pre_outcome ops s a w : Forall not_rename ops -> Inv s a -> adb_put a w = a ->
  (forall k, outcome ops k (apply_all s (firstn k ops)) a w) /\ Inv (apply_all s ops) (adb_put a w).
Proof.
  intros F I E. split; [intros k; left; now apply pre_prefix|]. rewrite E. now apply pre_run.
Qed.

Lemma mkdir_creates s w : lookup (w_key w) (f_days s) = None ->
  exists d, day_at (apply_all s (month_ops s w ++ mkdir_ops s w)) {| dp_key := w_key w; dp_suf := None |} = Some d.
Proof.
  intros L.
  assert (G : forall l s0, f_days s0 = f_days s ->
              Forall (fun o => match o with OMkdir (DUp _) | OOpenR (RMonth _ _ _) | OClose _ => True | _ => False end) l ->
              f_days (apply_all s0 l) = f_days s).
  { induction l as [|o l IH]; intros s0 E F; cbn; auto. inversion F; subst. apply IH; auto.
    destruct o as [[u|]|[]| | | | |f| | | | |]; try contradiction; cbn; auto. destruct (has_up s0 u); cbn; auto. }
  unfold mkdir_ops. rewrite !app_assoc. rewrite apply_all_app.
  set (s1 := apply_all s _).
  assert (E1 : f_days s1 = f_days s).
  { apply G; auto. unfold month_ops. repeat (apply Forall_app; split); repeat (destruct (has_up _ _)); repeat constructor. }
  unfold apply_all; cbn [fold_left apply dp_key dp_suf]. rewrite E1, L. cbn [fst].
  exists day_empty. unfold day_at; cbn [f_days dp_key dp_suf]. rewrite lookup_ins_same by auto. reflexivity.
Qed.

Lemma wo_prefix s a w : Inv s a ->
  let ops := writeout_ops s w in
  (forall k, outcome ops k (apply_all s (firstn k ops)) a w) /\ Inv (apply_all s ops) (adb_put a w).
Proof.
  intros I. pose proof (inv_lookup _ _ _ (w_key w) I) as IL.
  unfold writeout_ops, writeout_run.
  destruct (lookup (w_key w) (f_days s)) as [d|] eqn:L.
  - assert (DA : day_at s {| dp_key := w_key w; dp_suf := d_suf d |} = Some d).
    { unfold day_at; cbn [dp_key dp_suf]. now rewrite L, otot_eqb_refl. }
    destruct (d_meta d) as [[m|]|] eqn:M.
    + (* the day has metadata *)
      destruct (lookup (w_key w) a) as [bl|] eqn:La.
      2:{ unfold visible in IL. rewrite M in IL. destruct (d_suf d); discriminate. }
      destruct IL as [_ (NE & HM & _)]. rewrite M in HM. injection HM as ->.
      rewrite meta_has_ts_of. destruct (existsb _ bl) eqn:EX; cbn [fst].
      * apply all_pre_outcome; auto.
        -- pre_tac.
        -- unfold adb_put. now rewrite La, EX.
      * replace (meta_of bl) with (cur_meta a (w_key w)) by (unfold cur_meta; now rewrite La).
        rewrite !app_assoc.
        apply wo_split; auto.
        -- pre_tac.
        -- eapply pre_run in DA as (d' & D' & _); eauto. pre_tac.
        -- unfold put_ok. now rewrite La, EX.
    + (* undecodable metadata cannot occur under the invariant *)
      exfalso. destruct (lookup (w_key w) a).
      * destruct IL as [_ (_ & HM & _)]. congruence.
      * unfold visible in IL. rewrite M in IL. destruct (d_suf d); discriminate.
    + (* directory without metadata *)
      destruct (lookup (w_key w) a) as [bl|] eqn:La.
      { destruct IL as [_ (_ & HM & _)]. congruence. }
      cbn [fst]. replace new_meta with (cur_meta a (w_key w)) by (unfold cur_meta; now rewrite La).
      rewrite !app_assoc.
      apply wo_split; auto.
      * pre_tac.
      * eapply pre_run in DA as (d' & D' & _); eauto. pre_tac.
      * unfold put_ok. now rewrite La.
  - (* no directory for that day *)
    destruct (lookup (w_key w) a) as [bl|] eqn:La; [contradiction|].
    cbn [fst]. replace new_meta with (cur_meta a (w_key w)) by (unfold cur_meta; now rewrite La).
    rewrite !app_assoc.
    apply wo_split; auto.
    + pre_tac.
    + destruct (mkdir_creates s w L) as [d0 D0].
      rewrite <- !app_assoc. rewrite app_assoc. rewrite apply_all_app.
      assert (I1 : Inv (apply_all s (month_ops s w ++ mkdir_ops s w)) a).
      { apply pre_run; auto. pre_tac. }
      eapply pre_run in D0 as (d' & D' & _); eauto. pre_tac.
    + unfold put_ok. now rewrite La.
Qed.

(* ------------------------------------------------------------------ histories *)
Definition spec_db (a : adb) (ws : list writeout) : adb := fold_left adb_put ws a.

Lemma hist_full ws : forall s a, Inv s a -> Inv (hist_state s ws) (spec_db a ws).
Proof.
  induction ws as [|w r IH]; intros s a I; cbn; auto.
  apply IH. now apply wo_prefix.
Qed.

Lemma stale_app_l O H k : k < length O -> stale_point (O ++ H) k = stale_point O k.
Proof. intros L. unfold stale_point. now rewrite nth_error_app1. Qed.
Lemma stale_app_r O H k : length O <= k -> stale_point (O ++ H) k = stale_point H (k - length O).
Proof. intros L. unfold stale_point. now rewrite nth_error_app2. Qed.
Lemma stale_lt ops k : stale_point ops k = true -> k < length ops.
Proof. unfold stale_point. destruct (nth_error ops k) eqn:E; [|discriminate]. intros _. apply nth_error_Some. congruence. Qed.

Lemma hist_prefix ws : forall s a k, Inv s a -> k <= length (hist_ops s ws) ->
  stale_point (hist_ops s ws) k = false ->
  exists j, (j = completed s ws k \/ j = S (completed s ws k)) /\ j <= length ws /\
            Inv (apply_all s (firstn k (hist_ops s ws))) (spec_db a (firstn j ws)).
Proof.
  induction ws as [|w r IH]; intros s a k I LE NS; cbn [hist_ops completed] in *.
  - exists 0. cbn. replace k with 0 by (cbn in LE; lia). cbn. auto.
  - destruct (wo_prefix s a w I) as [WP WF].
    set (O := writeout_ops s w) in *. set (s' := apply_all s O) in *.
    destruct (Nat.leb (length O) k) eqn:LK.
    + apply Nat.leb_le in LK. rewrite stale_app_r in NS by auto.
      rewrite app_length in LE.
      destruct (IH s' (adb_put a w) (k - length O) WF ltac:(lia) NS) as (j & HJ & HL & HI).
      exists (S j). split; [destruct HJ as [->| ->]; auto|]. split; [cbn; lia|].
      rewrite firstn_app, firstn_all2, apply_all_app by lia. exact HI.
    + apply Nat.leb_gt in LK. rewrite stale_app_l in NS by auto.
      rewrite firstn_app. replace (k - length O) with 0 by lia. cbn [firstn]. rewrite app_nil_r.
      destruct (WP k) as [H|[H|[H _]]].
      * exists 0. cbn. auto with arith.
      * exists 1. cbn. split; auto. split; [lia|exact H].
      * congruence.
Qed.

Lemma inv_empty : Inv fs_empty [].
Proof. split; constructor. Qed.

Lemma crash_consistent ws k :
  k <= length (hist_ops fs_empty ws) ->
  stale_point (hist_ops fs_empty ws) k = false ->
  exists j, (j = completed fs_empty ws k \/ j = S (completed fs_empty ws k)) /\ j <= length ws /\
    reader_meta (apply_all fs_empty (firstn k (hist_ops fs_empty ws))) = Ok (spec_read_m (spec_db [] (firstn j ws))).
Proof.
  intros LE NS. destruct (hist_prefix ws fs_empty [] k inv_empty LE NS) as (j & HJ & HL & HI).
  exists j. repeat split; auto. now apply reader_ok.
Qed.

Lemma spec_db_app a l1 l2 : spec_db a (l1 ++ l2) = spec_db (spec_db a l1) l2.
Proof. unfold spec_db. now rewrite fold_left_app. Qed.

Lemma recovers ws k ws' :
  k <= length (hist_ops fs_empty ws) ->
  stale_point (hist_ops fs_empty ws) k = false ->
  exists j, (j = completed fs_empty ws k \/ j = S (completed fs_empty ws k)) /\ j <= length ws /\
    reader_meta (hist_state (apply_all fs_empty (firstn k (hist_ops fs_empty ws))) ws')
    = Ok (spec_read_m (spec_db [] (firstn j ws ++ ws'))).
Proof.
  intros LE NS. destruct (hist_prefix ws fs_empty [] k inv_empty LE NS) as (j & HJ & HL & HI).
  exists j. repeat split; auto. apply reader_ok. rewrite spec_db_app. now apply hist_full.
Qed.

Lemma write_at_prefix old off data : off <= length old -> firstn off (write_at old off data) = firstn off old.
Proof.
  intros L. unfold write_at. rewrite firstn_app. rewrite firstn_length, Nat.min_l by lia.
  rewrite Nat.sub_diag. cbn [firstn]. rewrite app_nil_r. now rewrite firstn_firstn, Nat.min_id.
Qed.

(* the refutation witness: two write-outs to one day, killed between the two renames of the second *)
Definition ex_tot (n : N) : totals := {| t_v4 := n; t_v6 := 0; t_dr := 0; t_br := 100 * n; t_bs := n; t_pr := n; t_ps := n |}.
Definition ex_w (id : nat) (ts : Z) : writeout :=
  {| w_id := id; w_if := 0; w_year := 2023; w_month := 11; w_day := 1699920000; w_ts := ts;
     w_lens := [4; 4; 1; 2; 3; 2; 2; 2]; w_renc := []; w_tot := ex_tot (N.of_nat (S id)) |}.
Definition ex_ws : list writeout := [ex_w 0 1700000100; ex_w 1 1700000400].
Definition ex_k : nat :=
  (* index of the ORenameDir of the second write-out *)
  (fix go (l : list fsop) (i : nat) (seen : nat) : nat :=
     match l with
     | [] => i
     | ORenameDir _ _ :: r => if Nat.eqb seen 1 then i else go r (S i) (S seen)
     | _ :: r => go r (S i) seen
     end) (hist_ops fs_empty ex_ws) 0 0.

Lemma stale_refuted : exists ws k,
  k <= length (hist_ops fs_empty ws) /\
  forall j, j <= length ws ->
    reader_meta (apply_all fs_empty (firstn k (hist_ops fs_empty ws))) <> Ok (spec_read_m (spec_db [] (firstn j ws))).
Proof.
  exists ex_ws, ex_k. split; [vm_compute; lia|].
  intros j Hj. assert (j = 0 \/ j = 1 \/ j = 2) as [->|[->| ->]] by (cbn in Hj; lia); vm_compute; discriminate.
Qed.
