(* C30 model: a reader (query / ReadMetadata) running concurrently with write-outs.
   Executable definitions only (no proofs).

   The WRITER is C04's: `hist_ops fs_empty ws`, a list of atomic file-system operations applied with `apply`.
   The READER is split into its atomic file-system observations (one per system call that looks at the DB
   tree): ReadDir of the DB root / interface / year / month directories, the two stat calls of
   gpfile.HasMetadata, open of `.blockmeta` (the whole file is read right after the open), open of a column
   file (the query reads the whole file into memory right after the open: concurrency.NewMemFile).
   Between two observations the writer may perform any number of operations (`conc`).

   Anchors: pkg/goDB/DBWorkManager.go (walkDB, CreateWorkerJobs, readBlocksAndEvaluate, ReadMetadata),
   pkg/goDB/storage/gpfile/gpdir.go (Open with the ENOENT -> recoverDirPath -> re-Open loop,
   ReadBlockAtIndex with the re-Open/retry loop - both AFTER the C30 fixes: the retry is repeated for as long
   as the recovered path differs from the one that failed (= the name the column handle was created under);
   columns already open stay open), gpfile.go (open, ReadBlockAtIndex).

   Abstractions: those of C04 (abstract contents and names, no codec); the calendar (which month directory
   holds a day) is an input (`cal`, taken from the write-outs); the query window contains all data. *)
From Coq Require Import List ZArith NArith Bool Arith.
From GoProbe.Base Require Import CorrLib.
From GoProbe.C04 Require Import Model.
Import ListNotations.

(* ------------------------------------------------------------------ calendar *)
Definition cal := list (Z * (Z * Z)).
Definition cal_of (ws : list writeout) : cal := map (fun w => (w_day w, (w_year w, w_month w))) ws.
Fixpoint cal_get (c : cal) (d : Z) : Z * Z :=
  match c with [] => (0, 0)%Z | (d', ym) :: r => if Z.eqb d d' then ym else cal_get r d end.

(* ------------------------------------------------------------------ observations *)
Inductive obs :=
| QRoot                                   (* ReadDir(DB root) *)
| QIface (i : N)                          (* ReadDir(interface directory): years *)
| QYear (i : N) (y : Z)                   (* ReadDir(year directory): months *)
| QMonth (i : N) (y m : Z)                (* ReadDir(month directory): day directory names *)
| QStatMeta (p : dpath)                   (* stat(<day>/.blockmeta) *)
| QStatDir (p : dpath)                    (* stat(<day>) *)
| QOpenMeta (p : dpath)                   (* open(<day>/.blockmeta) + read *)
| QOpenCol (p : dpath) (c : nat).         (* open(<day>/<column>.gpf) + read *)
Inductive ans :=
| ANs (l : list N) | AZs (l : list Z) | ADays (l : list (dkey * option totals))
| ABool (b : bool)
| AMeta (r : option (option meta))        (* None = ENOENT, Some None = undecodable *)
| ACol (r : option (list abyte)).         (* None = ENOENT *)

Fixpoint insN (x : N) (l : list N) : list N :=
  match l with [] => [x] | y :: r => if N.ltb x y then x :: l else if N.eqb x y then l else y :: insN x r end.
Fixpoint insZ (x : Z) (l : list Z) : list Z :=
  match l with [] => [x] | y :: r => if Z.ltb x y then x :: l else if Z.eqb x y then l else y :: insZ x r end.
Definition sortN (l : list N) : list N := fold_right insN [] l.
Definition sortZ (l : list Z) : list Z := fold_right insZ [] l.

Definition ym_eqb (a b : Z * Z) : bool := Z.eqb (fst a) (fst b) && Z.eqb (snd a) (snd b).
Definition day_dir (s : fs) (p : dpath) : option dayfs := day_at s p.

Definition observe (c : cal) (s : fs) (q : obs) : ans :=
  match q with
  | QRoot => ANs (sortN (flat_map (fun u => match u with UI i => [i] | _ => [] end) (f_up s)))
  | QIface i => AZs (sortZ (flat_map (fun u => match u with UY j y => if N.eqb i j then [y] else [] | _ => [] end) (f_up s)))
  | QYear i y => AZs (sortZ (flat_map (fun u => match u with UM j z m => if N.eqb i j && Z.eqb y z then [m] else [] | _ => [] end) (f_up s)))
  | QMonth i y m =>
    ADays (flat_map (fun kd => if N.eqb (fst (fst kd)) i && ym_eqb (cal_get c (snd (fst kd))) (y, m)
                               then [(fst kd, d_suf (snd kd))] else []) (f_days s))
  | QStatMeta p => ABool (match day_dir s p with Some d => match d_meta d with Some _ => true | None => false end | None => false end)
  | QStatDir p => ABool (match day_dir s p with Some _ => true | None => false end)
  | QOpenMeta p => AMeta (match day_dir s p with Some d => d_meta d | None => None end)
  | QOpenCol p c => ACol (match day_dir s p with Some d => d_cols d c | None => None end)
  end.

(* ------------------------------------------------------------------ the reader as a resumable program *)
(* per-day results: blocks (timestamp, write-out id) of the query, totals of the listing; number of
   blocks the query skipped as broken *)
Record rout := { o_days : list (dkey * list (Z * nat)); o_tots : list (dkey * totals); o_broken : nat }.
Definition result := res rout.

(* a GPDir in read mode: day, current dirPath (its suffix) *)
Record gdir := { gk : dkey; gp : option totals }.
Definition gpath (g : gdir) : dpath := {| dp_key := gk g; dp_suf := gp g |}.

Inductive ophase := OTry | ORec | OTry2 (failed : option totals).
(* RTry hp: first attempt, through the column handle created earlier under the directory name hp (the handle is
   created lazily with the GPDir's path of that moment and keeps it; it may never have opened its file because
   every block read through it so far was empty: GPFile.ReadBlockAtIndex returns before open() when RawLen = 0);
   RTry2: attempt through a fresh handle after the re-Open *)
Inductive rphase := RTry (hp : option totals) | RTry2 (failed : option totals).

Inductive prog :=
| Ret (r : result)
| Ask (q : obs) (k : ans -> prog)
(* GPDir.Open in read mode: open .blockmeta; ENOENT -> recoverDirPath (ReadDir of the month, prefix search)
   -> open again, repeated while the recovered path differs from the one that failed.  None = error *)
| OpenM (ph : ophase) (g : gdir) (k : option (gdir * meta) -> prog)
(* GPDir.ReadBlockAtIndex, the part that obtains the column file: open it; ENOENT -> Close, Open (above),
   open again, repeated while the path changed.  None = error *)
| ReadC (ph : rphase) (g : gdir) (m : meta) (c : nat) (k : option (gdir * meta * list abyte) -> prog).

Definition find_day (k : dkey) (l : list (dkey * option totals)) : option (option totals) :=
  match find (fun e => keqb k (fst e)) l with Some e => Some (snd e) | None => None end.
Definition month_of (c : cal) (k : dkey) : obs := QMonth (fst k) (fst (cal_get c (snd k))) (snd (cal_get c (snd k))).

(* failed = the directory name under which the column file could not be opened (the handle's name) *)
Definition reopen (failed : option totals) (g : gdir) (c : nat) (k : option (gdir * meta * list abyte) -> prog) : prog :=
  OpenM OTry g (fun r => match r with
                         | None => k None
                         | Some (g', m') => ReadC (RTry2 failed) g' m' c k
                         end).

(* the observation a program makes in its next step *)
Definition step_obs (c : cal) (p : prog) : option obs :=
  match p with
  | Ret _ => None
  | Ask q _ => Some q
  | OpenM ORec g _ => Some (month_of c (gk g))
  | OpenM _ g _ => Some (QOpenMeta (gpath g))
  | ReadC (RTry hp) g _ col _ => Some (QOpenCol {| dp_key := gk g; dp_suf := hp |} col)
  | ReadC (RTry2 _) g _ col _ => Some (QOpenCol (gpath g) col)
  end.

(* how a program continues with the answer to that observation *)
Definition rstep_ans (p : prog) (a : ans) : prog + result :=
  match p with
  | Ret r => inr r
  | Ask q k => inl (k a)
  | OpenM OTry g k =>
    match a with
    | AMeta (Some (Some m)) => inl (k (Some (g, m)))
    | AMeta (Some None) => inl (k None)
    | _ => inl (OpenM ORec g k)
    end
  | OpenM ORec g k =>
    match a with
    | ADays l => match find_day (gk g) l with
                 | Some suf => inl (OpenM (OTry2 (gp g)) {| gk := gk g; gp := suf |} k)
                 | None => inl (k None)
                 end
    | _ => inl (k None)
    end
  | OpenM (OTry2 failed) g k =>
    match a with
    | AMeta (Some (Some m)) => inl (k (Some (g, m)))
    | AMeta (Some None) => inl (k None)
    | _ => if otot_eqb (gp g) failed then inl (k None) else inl (OpenM ORec g k)
    end
  | ReadC (RTry hp) g m col k =>
    match a with
    | ACol (Some f) => inl (k (Some (g, m, f)))
    | _ => inl (reopen hp g col k)
    end
  | ReadC (RTry2 failed) g m col k =>
    match a with
    | ACol (Some f) => inl (k (Some (g, m, f)))
    | _ => if otot_eqb (gp g) failed then inl (k None) else inl (reopen (gp g) g col k)
    end
  end.

(* one atomic step of the reader in file-system state s; inr = finished *)
Definition rstep (c : cal) (s : fs) (p : prog) : prog + result :=
  match step_obs c p with
  | Some q => rstep_ans p (observe c s q)
  | None => match p with Ret r => inr r | _ => inr Err end
  end.

(* ------------------------------------------------------------------ the reader programs (CPS) *)
Fixpoint each {A S : Type} (l : list A) (st : S) (body : A -> S -> (S -> prog) -> prog) (k : S -> prog) : prog :=
  match l with [] => k st | x :: r => body x st (fun st' => each r st' body k) end.

(* walkDB of one interface; fn is called for every day directory that is not skipped *)
Definition walk {S : Type} (i : N) (st : S) (fn : dkey -> option totals -> S -> (S -> prog) -> prog) (k : S -> prog) : prog :=
  Ask (QIface i) (fun a => match a with
  | AZs ys => each ys st (fun y st k1 => Ask (QYear i y) (fun a => match a with
    | AZs ms => each ms st (fun m st k2 => Ask (QMonth i y m) (fun a => match a with
      | ADays ds => each ds st (fun e st k3 =>
          match snd e with
          | Some _ => fn (fst e) (snd e) st k3
          | None =>      (* gpfile.HasMetadata *)
            Ask (QStatMeta {| dp_key := fst e; dp_suf := None |}) (fun a => match a with
            | ABool true => fn (fst e) None st k3
            | ABool false => Ask (QStatDir {| dp_key := fst e; dp_suf := None |}) (fun a => match a with
                             | ABool true => k3 st                 (* directory without committed data: skipped *)
                             | ABool false => fn (fst e) None st k3
                             | _ => Ret Err end)
            | _ => Ret Err end)
          end) k2
      | _ => Ret Err end)) k1
    | _ => Ret Err end)) k
  | _ => Ret Err end).

Definition last_ts (m : meta) : Z := match rev (m_blocks m) with b :: _ => mb_ts b | [] => 0%Z end.
Definition is_nil {A} (l : list A) : bool := match l with [] => true | _ => false end.

(* local state of a worker on one GPDir: directory, metadata, opened columns (whole-file snapshots),
   whether the GPDir is still open (a failed re-Open leaves it closed) *)
(* wd_cols: the column handles (GPDir.gpFiles): directory name the handle was created under, and the file
   contents once the file has been opened (None: handle created, file never opened) *)
Definition chandle := (option totals * option (list abyte))%type.
Record wdir := { wd_g : gdir; wd_m : meta; wd_cols : list (nat * chandle); wd_open : bool }.
Fixpoint col_get (c : nat) (l : list (nat * chandle)) : option chandle :=
  match l with [] => None | (c', f) :: r => if Nat.eqb c c' then Some f else col_get c r end.

Definition slice (f : list abyte) (off len : nat) : option (list abyte) :=
  let r := firstn len (skipn off f) in if Nat.eqb (length r) len then Some r else None.

(* read the block with index idx of column c (GPDir.ReadBlockAtIndex); None = error (block broken) *)
Definition read_block (w : wdir) (idx c : nat) (k : wdir -> option (list abyte) -> prog) : prog :=
  if negb (wd_open w) then k w None
  else
    let len m := nth c (mb_lens (nth idx (m_blocks m) {| mb_ts := 0; mb_lens := [] |})) 0 in
    let off m := offs_upto c (firstn idx (m_blocks m)) in
    (* GPDir.Column: the handle is created (no file access) if the column has none yet *)
    let hp := match col_get c (wd_cols w) with Some (hp, _) => hp | None => gp (wd_g w) end in
    let w1 := match col_get c (wd_cols w) with
              | Some _ => w
              | None => {| wd_g := wd_g w; wd_m := wd_m w; wd_cols := (c, (hp, None)) :: wd_cols w; wd_open := true |}
              end in
    if Nat.eqb (len (wd_m w)) 0 then k w1 (Some [])           (* RawLen = 0: returns before open() *)
    else match col_get c (wd_cols w) with
         | Some (_, Some f) => k w (slice f (off (wd_m w)) (len (wd_m w)))
         | _ =>
           ReadC (RTry hp) (wd_g w) (wd_m w) c (fun r => match r with
             | None => k {| wd_g := wd_g w; wd_m := wd_m w; wd_cols := []; wd_open := false |} None
             | Some (g', m', f) =>
               (* the other handles stay as they are across a re-Open (second C30 fix) *)
               k {| wd_g := g'; wd_m := m'; wd_cols := (c, (gp g', Some f)) :: wd_cols w; wd_open := true |}
                 (slice f (off m') (len m'))
             end)
         end.

(* readBlocksAndEvaluate on one GPDir; tcov = tLastCovered *)
Definition work_dir (tcov : Z) (g : gdir) (acc : list (dkey * list (Z * nat)) * nat)
           (k : list (dkey * list (Z * nat)) * nat -> prog) : prog :=
  OpenM OTry g (fun r => match r with
  | None => Ret Err
  | Some (g', m) =>
    let blocks := m_blocks m in
    each (combine (seq 0 (length blocks)) blocks)
         ({| wd_g := g'; wd_m := m; wd_cols := []; wd_open := true |}, ([] : list (Z * nat)), snd acc)
         (fun ib st kb =>
            let '(w, out, broken) := st in
            if Z.ltb tcov (mb_ts (snd ib)) then kb st
            else
              each cols (w, ([] : list (list abyte)), true)
                   (fun c st2 kc =>
                      let '(w2, datas, good) := st2 in
                      if good then read_block w2 (fst ib) c (fun w3 r => match r with
                                                   | Some d => kc (w3, datas ++ [d], true)
                                                   | None => kc (w3, datas, false) end)
                      else kc st2)
                   (fun st2 =>
                      let '(w2, datas, good) := st2 in
                      if negb good then kb (w2, out, S broken)
                      else if Nat.eqb (nth 0 (mb_lens (snd ib)) 0) 0 then kb (w2, out, broken)
                      else match decode_block datas (mb_lens (snd ib)) with
                           | Some id => kb (w2, out ++ [(mb_ts (snd ib), id)], broken)
                           | None => kb (w2, out ++ [(mb_ts (snd ib), 999)], broken)
                           end))
         (fun st => let '(_, out, broken) := st in k (fst acc ++ [(gk g, out)], broken))
  end).

Fixpoint set_last {A} (l : list A) (x : A) : list A :=
  match l with [] => [] | [_] => [x] | y :: r => y :: set_last r x end.

(* the query of one interface: CreateWorkerJobs, then the worker *)
Definition query_iface (i : N) (acc : list (dkey * list (Z * nat)) * nat)
           (k : list (dkey * list (Z * nat)) * nat -> prog) : prog :=
  walk i ([] : list gdir)
       (fun key suf dirs kw =>
          let g := {| gk := key; gp := suf |} in
          if is_nil dirs
          then OpenM OTry g (fun r => match r with
                 | None => Ret Err
                 | Some (g', m) => if is_nil (m_blocks m) then Ret Panic else kw [g']
                 end)
          else kw (dirs ++ [g]))
       (fun dirs =>
          match rev dirs with
          | [] => k acc
          | gl :: _ =>
            OpenM OTry gl (fun r => match r with
              | None => Ret Err
              | Some (gl', m) =>
                if is_nil (m_blocks m) then Ret Panic
                else each (set_last dirs gl') acc (work_dir (last_ts m)) k
              end)
          end).

(* ReadMetadata of one interface *)
Definition list_iface (i : N) (acc : list (dkey * totals)) (k : list (dkey * totals) -> prog) : prog :=
  walk i (acc, (None : option gdir), true)
       (fun key suf st kw =>
          let '(acc, _, first) := st in
          let g := {| gk := key; gp := suf |} in
          let fin (tot : totals) (opened : option meta) :=
              let acc' := acc ++ [(key, tot)] in
              if first
              then match opened with
                   | Some m => if is_nil (m_blocks m) then Ret Panic else kw (acc', Some g, false)
                   | None => OpenM OTry g (fun r => match r with
                               | None => Ret Err
                               | Some (_, m) => if is_nil (m_blocks m) then Ret Panic else kw (acc', Some g, false)
                               end)
                   end
              else kw (acc', Some g, false) in
          match suf with
          | Some t => fin t None
          | None => OpenM OTry g (fun r => match r with
                      | None => Ret Err
                      | Some (_, m) => fin (m_tot m) (Some m)
                      end)
          end)
       (fun st =>
          let '(acc, lastg, _) := st in
          match lastg with
          | None => k acc
          | Some g => OpenM OTry g (fun r => match r with
                        | None => Ret Err
                        | Some (_, m) => if is_nil (m_blocks m) then Ret Panic else k acc
                        end)
          end).

(* the complete reader run: interfaces from the DB root, then one interface after the other *)
Definition reader_prog (query : bool) : prog :=
  Ask QRoot (fun a => match a with
  | ANs ifs =>
    if query
    then each ifs (([] : list (dkey * list (Z * nat))), 0) query_iface
              (fun acc => Ret (Ok {| o_days := fst acc; o_tots := []; o_broken := snd acc |}))
    else each ifs ([] : list (dkey * totals)) list_iface
              (fun acc => Ret (Ok {| o_days := []; o_tots := acc; o_broken := 0 |}))
  | _ => Ret Err end).

(* ------------------------------------------------------------------ every interleaving (DESIGN A.2 `conc`) *)
Inductive conc (c : cal) : fs -> list fsop -> prog -> result -> Prop :=
| c_w : forall s o ops p out, conc c (fst (apply s o)) ops p out -> conc c s (o :: ops) p out
| c_r : forall s ops p p' out, rstep c s p = inl p' -> conc c s ops p' out -> conc c s ops p out
| c_done : forall s ops p out, rstep c s p = inr out -> conc c s ops p out.

(* ------------------------------------------------------------------ a given schedule (correspondence runs) *)
(* label of the step a program is about to make: kind, two small numbers, outcome
   0 root | 1 iface a | 2 year (iface a, year b) | 3 month (iface a, month b) | 4 stat meta | 5 stat dir
   | 6 open meta | 7 open column b   (4-7: a = index of the day in `keys`) *)
Definition rlabel := (nat * nat * nat * bool)%type.
Fixpoint key_idx (keys : list dkey) (k : dkey) : nat :=
  match keys with [] => 0 | k' :: r => if keqb k k' then 0 else S (key_idx r k) end.
Definition obs_label (keys : list dkey) (q : obs) (a : ans) : rlabel :=
  match q with
  | QRoot => (0, 0, 0, true)
  | QIface i => (1, N.to_nat i, 0, true)
  | QYear i y => (2, N.to_nat i, Z.to_nat y, true)
  | QMonth i y m => (3, N.to_nat i, Z.to_nat m, true)
  | QStatMeta p => (4, key_idx keys (dp_key p), 0, match a with ABool b => b | _ => false end)
  | QStatDir p => (5, key_idx keys (dp_key p), 0, match a with ABool b => b | _ => false end)
  | QOpenMeta p => (6, key_idx keys (dp_key p), 0, match a with AMeta (Some _) => true | _ => false end)
  | QOpenCol p c => (7, key_idx keys (dp_key p), c, match a with ACol (Some _) => true | _ => false end)
  end.
Definition step_label (c : cal) (keys : list dkey) (s : fs) (p : prog) : rlabel :=
  match step_obs c p with Some q => obs_label keys q (observe c s q) | None => (9, 0, 0, false) end.

Fixpoint wsteps (n : nat) (s : fs) (ops : list fsop) : fs * list fsop :=
  match n, ops with
  | S n', o :: r => wsteps n' (fst (apply s o)) r
  | _, _ => (s, ops)
  end.
Fixpoint rsteps (c : cal) (keys : list dkey) (n : nat) (s : fs) (p : prog) (log : list rlabel) : prog * list rlabel :=
  match n with
  | 0 => (p, log)
  | S n' => match rstep c s p with
            | inl p' => rsteps c keys n' s p' (step_label c keys s p :: log)
            | inr _ => (p, log)
            end
  end.
(* the schedule alternates: writer operations, reader steps, writer operations, ...; when it is used up the
   reader runs to completion on the state reached *)
Fixpoint run_sched (c : cal) (keys : list dkey) (sc : list nat) (wturn : bool) (s : fs) (ops : list fsop)
         (p : prog) (log : list rlabel) : prog * list rlabel :=
  match sc with
  | [] => rsteps c keys (50 * 100) s p log
  | n :: r => if wturn then let (s', ops') := wsteps n s ops in run_sched c keys r false s' ops' p log
              else let (p', log') := rsteps c keys n s p log in run_sched c keys r true s ops p' log'
  end.

Fixpoint dedup_keys (l : list dkey) : list dkey :=
  match l with [] => [] | k :: r => k :: filter (fun k' => negb (keqb k k')) (dedup_keys r) end.
Definition keys_of (ws : list writeout) : list dkey := dedup_keys (map w_key ws).

Definition model_run (ws : list writeout) (query : bool) (sc : list nat) : result * list rlabel :=
  let (p, log) := run_sched (cal_of ws) (keys_of ws) sc true fs_empty (hist_ops fs_empty ws) (reader_prog query) [] in
  (match p with Ret r => r | _ => Err end, rev log).
