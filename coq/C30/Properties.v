(* C30 property theorems.  Statements only, closed by `exact`; Print Assumptions; non-vacuity examples.

   conc c s ops p out  = SOME interleaving of the writer's operations `ops` (applied with C04's `apply`) and the
   atomic observation steps of the reader program p, started in state s, makes the reader return `out`.
   reader_prog true = the query of all interfaces (CreateWorkerJobs + readBlocksAndEvaluate),
   reader_prog false = ReadMetadata of all interfaces, with the retry loops of the fixed gpdir.go.
   good_query ws out = the reader returned Ok, reported no broken block, and for EVERY day its blocks are exactly
     (timestamp and content id of) the blocks of the first j write-outs for some j <= length ws, nothing else shown;
   good_list ws out  = Ok and the totals of every interface are the sum over its days of the totals of the first j
     write-outs, some j <= length ws per day.

   FULL statements (NOT discharged for arbitrary ws, see prop.json `not_discharged`):
     c30_snapshot : forall ws out, conc (cal_of ws) fs_empty (hist_ops fs_empty ws) (reader_prog true) out ->
                    good_query ws out = true
     c30_listing_snapshot : the same with reader_prog false / good_list.
   Proved: (1) for ALL ws the statement follows from a boolean computation (c30_snapshot_by_exploration: the
   exploration procedure is sound for every interleaving), (2) the computation gives `true` - hence the full
   statement holds - for the histories (query: hist1, hist2; listing: all three) hist1 (one day: create, rename, write-out without flows and without
   rename), hist2 (two interfaces, day and month change), hist3 (three consecutive renames of one day). *)
From Coq Require Import List ZArith NArith Bool Arith Lia.
From GoProbe.Base Require Import CorrLib.
From GoProbe.C04 Require Import Model.
From GoProbe.C30 Require Import C04P1 C04PC Model Corr Proofs Proofs2 Proofs3 WInv RSpec REnv RThm RAcc.
Import ListNotations.

(* Every interleaving is covered by the exploration: for ALL histories, reader kinds and results. *)
Theorem c30_snapshot_by_exploration : forall ws query out,
  explore_ws ws query = true ->
  conc (cal_of ws) fs_empty (hist_ops fs_empty ws) (reader_prog query) out ->
  (if query then good_query ws else good_list ws) out = true.
Proof. exact explore_ws_sound. Qed.
Print Assumptions c30_snapshot_by_exploration.

(* The general principle behind it: a program that is `safe` from time t on returns a good result in every
   interleaving with the remaining writer operations. *)
Theorem c30_every_interleaving : forall c s0 H good s ops p out, conc c s ops p out ->
  forall t, t <= length H -> s = St s0 H t -> ops = skipn t H -> safe c s0 H good p t -> good out = true.
Proof. exact safe_sound. Qed.
Print Assumptions c30_every_interleaving.

(* BOUNDED (exhaustive exploration of explicit small histories - not a proof for arbitrary ws):
   c30_snapshot for the explored histories: EVERY interleaving of a query with the three write-outs
   (hist3 - three renames of one day - is explored for the listing only: the query exploration exceeds the
   build budget). *)
Theorem c30_snapshot_bounded : forall ws out, In ws [hist1; hist2] ->
  conc (cal_of ws) fs_empty (hist_ops fs_empty ws) (reader_prog true) out -> good_query ws out = true.
Proof. exact snapshot_bounded. Qed.
Print Assumptions c30_snapshot_bounded.

(* BOUNDED: c30_listing_snapshot for the explored histories (subsumed by c30_listing_snapshot_partial). *)
Theorem c30_listing_snapshot_bounded : forall ws out, In ws [hist1; hist2; hist3] ->
  conc (cal_of ws) fs_empty (hist_ops fs_empty ws) (reader_prog false) out -> good_list ws out = true.
Proof. exact listing_bounded. Qed.
Print Assumptions c30_listing_snapshot_bounded.


(* ------------------------------------------------------------------ UNBOUNDED: ReadMetadata, any history *)
(* For EVERY history ws (any number of write-outs, any days, any interfaces) and EVERY interleaving of one
   ReadMetadata run with the writer's operations: the reader returns Ok and every day it lists contributes the
   totals of the first j write-outs for some j <= length ws (spec_tot ws day j = totals of that day's blocks in
   the abstract database after j write-outs; tot_ok ws (day, t) = exists j <= length ws, t = spec_tot ws day j).
   Proved by invariants, not by exploration: writer side (WInv*.v) - every prefix state of hist_ops satisfies
   GoodS with a monotone labelling of time by (number of committed write-outs, per-day name counter): metadata =
   meta_of (committed list), directory name = totals of a prefix of it, day directories are never removed; reader
   side (REnv.v) - time-indexed weakest preconditions, sound for every `conc` derivation, with the retry loops of
   GPDir.Open handled by a phase invariant (no termination argument needed).
   Assumption (hence _partial): totals_no_recur ws - the totals of a day never return to an earlier value
   (false only if a 64-bit counter wraps); without it the model reader can fail: the recovered path can equal the
   path that failed although the directory was renamed twice in between. *)
Theorem c30_listing_snapshot_partial : forall ws out, Forall wf_w ws -> totals_no_recur ws ->
  conc (cal_of ws) fs_empty (hist_ops fs_empty ws) (reader_prog false) out ->
  exists o, out = Ok o /\ Forall (tot_ok ws) (o_tots o).
Proof. exact listing_snapshot. Qed.
Print Assumptions c30_listing_snapshot_partial.

(* ------------------------------------------------------------------ UNBOUNDED: the query, any history *)
(* For EVERY history ws and EVERY interleaving of one query run (CreateWorkerJobs + readBlocksAndEvaluate of every
   interface, with the retry loops of GPDir.Open and GPDir.ReadBlockAtIndex and the lazily created column handles)
   with the writer's operations: the reader returns Ok, reports no broken block, and every day directory it
   processed shows exactly the blocks - timestamp and content id, the content decoded from the bytes it read - of
   the first j write-outs for some j <= length ws (day_ok ws (day, blocks) = exists j <= length ws, blocks =
   spec_blocks ws day j).  By invariants: the writer invariant now includes the column contents (cols_ok: every
   committed block reads back its bytes at its offset; writes only at the committed end), the reader logic has a
   clause for the column acquisition (first attempt through the handle's old name, retry through the current one),
   the block / column loops of readBlocksAndEvaluate and the tLastCovered clipping.
   Assumptions (hence _partial), all satisfied by every history DBWriter.Write accepts:
     Forall wf_w ws      - the bytes_rcvd column of a block is never empty (bitpack emits at least its width byte);
     ts_incr ws          - the block timestamps of every day increase strictly;
     totals_no_recur ws  - a day's totals never return to an earlier value (no wrapping 64-bit counter).
   FULL statement (not discharged): the same without the three assumptions. *)
Theorem c30_snapshot_partial : forall ws out, Forall wf_w ws -> ts_incr ws -> totals_no_recur ws ->
  conc (cal_of ws) fs_empty (hist_ops fs_empty ws) (reader_prog true) out ->
  exists o, out = Ok o /\ o_broken o = 0 /\ Forall (day_ok ws) (o_days o).
Proof. exact query_snapshot. Qed.
Print Assumptions c30_snapshot_partial.

(* The same two theorems with the hypotheses Forall wf_w / ts_incr replaced by ONE executable acceptance test on the
   history (RAcc.v): `accepted ws` folds the write-outs over the abstract database (adb_put, the function spec_db
   folds) and requires of each write-out a non-empty bytes_rcvd column and a timestamp newer than every block
   already committed for its day - the check of GPDir.WriteBlocks (ErrTimestampNotIncreasing, gpdir.go) that the
   model's writer itself does not enforce (it only rejects a duplicate timestamp). ts_acc [] ws = true -> ts_incr ws
   (c30_ts_acc_incr) and forallb wf_b ws = true <-> Forall wf_w ws (c30_wf_b_iff) are proved in RAcc.v.
   totals_no_recur remains a hypothesis. *)
Theorem c30_snapshot_accepted : forall ws out, accepted ws = true -> totals_no_recur ws ->
  conc (cal_of ws) fs_empty (hist_ops fs_empty ws) (reader_prog true) out ->
  exists o, out = Ok o /\ o_broken o = 0 /\ Forall (day_ok ws) (o_days o).
Proof. exact RAcc.c30_snapshot_accepted. Qed.
Print Assumptions c30_snapshot_accepted.

Theorem c30_listing_snapshot_accepted : forall ws out, forallb wf_b ws = true -> totals_no_recur ws ->
  conc (cal_of ws) fs_empty (hist_ops fs_empty ws) (reader_prog false) out ->
  exists o, out = Ok o /\ Forall (tot_ok ws) (o_tots o).
Proof. exact RAcc.c30_listing_snapshot_accepted. Qed.
Print Assumptions c30_listing_snapshot_accepted.

(* non-vacuity: hist1 is accepted *)
Example c30_accepted_hist1 : accepted hist1 = true.
Proof. vm_compute. reflexivity. Qed.

(* non-vacuity: hist1 (three write-outs to one day, the last with unchanged totals) meets the assumptions *)
Example c30_hyp_example : Forall wf_w hist1 /\ ts_incr hist1 /\ totals_no_recur hist1.
Proof. exact (conj hist1_wf (conj hist1_ts hist1_no_recur)). Qed.

(* non-vacuity: an interleaving of hist1 exists in which the query is stopped before a column open, the
   day directory is renamed, and the reader recovers (model_run follows a schedule = one interleaving) *)
Example c30_example_run :
  fst (model_run hist1 true [44; 9; 60; 4000]) =
  Ok {| o_days := [((0%N, 1699920000%Z), [(1700000100%Z, 0)])]; o_tots := []; o_broken := 0 |}
  /\ existsb (fun l => match l with (7, _, _, false) => true | _ => false end) (snd (model_run hist1 true [44; 9; 60; 4000])) = true
  /\ good_query hist1 (fst (model_run hist1 true [44; 9; 60; 4000])) = true.
Proof. vm_compute. repeat split; reflexivity. Qed.
Example c30_example_explore : explore_ws (firstn 2 hist1) false = true.
Proof. vm_compute. reflexivity. Qed.
