(* Copy of coq/C04/Proofs.v as of the C04 merge (the C04 proof files are being reworked; C30 only relies on
   C04's Model.v and on this frozen copy of the lemmas it uses). *)
(* C04 proofs, part 1: keys, association lists in key order, alignment of the file system's day list
   with the abstract database. *)
From Coq Require Import List ZArith NArith Bool Arith Lia ZifyBool ZifyN.
From GoProbe.Base Require Import CorrLib.
From GoProbe.C04 Require Import Model.
Import ListNotations.

(* ------------------------------------------------------------------ keys *)
Lemma keqb_eq a b : keqb a b = true <-> a = b.
Proof. destruct a, b; unfold keqb; cbn [fst snd]. split. intros H; f_equal; lia. intros [= -> ->]; lia. Qed.
Lemma keqb_refl a : keqb a a = true.
Proof. apply keqb_eq; reflexivity. Qed.
Lemma keqb_neq a b : keqb a b = false <-> a <> b.
Proof. split. intros H E. apply keqb_eq in E. congruence. intros H. destruct (keqb a b) eqn:E; auto. apply keqb_eq in E. contradiction. Qed.
Lemma keqb_sym a b : keqb a b = keqb b a.
Proof. destruct a, b; unfold keqb; cbn [fst snd]. lia. Qed.
Lemma kltb_trans a b c : kltb a b = true -> kltb b c = true -> kltb a c = true.
Proof. destruct a, b, c; unfold kltb; cbn [fst snd]. lia. Qed.
Lemma kltb_asym a b : kltb a b = true -> kltb b a = false.
Proof. destruct a, b; unfold kltb; cbn [fst snd]. lia. Qed.
Lemma kltb_neq a b : kltb a b = true -> keqb a b = false.
Proof. destruct a, b; unfold kltb, keqb; cbn [fst snd]. lia. Qed.
Lemma kltb_total a b : kltb a b = false -> keqb a b = false -> kltb b a = true.
Proof. destruct a, b; unfold kltb, keqb; cbn [fst snd]. lia. Qed.

(* ------------------------------------------------------------------ lookup / ins / upd *)
Section Assoc.
Context {A : Type}.
Implicit Types (l : list (dkey * A)) (k : dkey).

Lemma lookup_ins_same k v l : lookup k l = None -> lookup k (ins k v l) = Some v.
Proof.
  induction l as [|[k' v'] r IH]; cbn; intros H.
  - now rewrite keqb_refl.
  - destruct (keqb k k') eqn:E; [discriminate|].
    destruct (kltb k k'); cbn; [now rewrite keqb_refl | rewrite E; auto].
Qed.
Lemma lookup_ins_other k k' v l : k' <> k -> lookup k' (ins k v l) = lookup k' l.
Proof.
  intros N. induction l as [|[k2 v2] r IH]; cbn.
  - apply keqb_neq in N. now rewrite N.
  - destruct (kltb k k2); cbn.
    + apply keqb_neq in N. now rewrite N.
    + destruct (keqb k' k2); auto.
Qed.
Lemma lookup_upd_same k f l : lookup k (upd k f l) = option_map f (lookup k l).
Proof.
  induction l as [|[k2 v2] r IH]; cbn; auto.
  destruct (keqb k k2) eqn:E; cbn; rewrite E; auto.
Qed.
Lemma lookup_upd_other k k' f l : k' <> k -> lookup k' (upd k f l) = lookup k' l.
Proof.
  intros N. induction l as [|[k2 v2] r IH]; cbn; auto.
  destruct (keqb k k2) eqn:E; cbn.
  - apply keqb_eq in E; subst k2. apply keqb_neq in N. now rewrite N.
  - destruct (keqb k' k2); auto.
Qed.

(* strictly increasing keys *)
Inductive ksorted : list (dkey * A) -> Prop :=
| ks_nil : ksorted []
| ks_cons k v l : Forall (fun e => kltb k (fst e) = true) l -> ksorted l -> ksorted ((k, v) :: l).

Lemma Forall_lt_lookup k l : Forall (fun e => kltb k (fst e) = true) l -> lookup k l = None.
Proof.
  induction 1 as [|[k2 v2] r H _ IH]; cbn; auto. cbn in H. apply kltb_neq in H. now rewrite H.
Qed.
Lemma ksorted_ins k v l : ksorted l -> lookup k l = None -> ksorted (ins k v l).
Proof.
  induction 1 as [|k2 v2 r F S IH]; cbn; intros H.
  - constructor; constructor.
  - destruct (keqb k k2) eqn:E; [discriminate|].
    destruct (kltb k k2) eqn:L.
    + constructor; [|constructor; auto]. constructor; auto.
      eapply Forall_impl; [|exact F]. intros e He. eapply kltb_trans; eauto.
    + assert (L2 : kltb k2 k = true) by (apply kltb_total; auto; rewrite keqb_sym; auto).
      constructor; [|apply IH; auto].
      clear IH S H. induction F as [|[k3 v3] r H3 F IHr]; cbn.
      * constructor; auto.
      * destruct (kltb k k3); repeat (constructor; auto).
Qed.
Lemma Forall_upd (P : dkey * A -> Prop) k f l :
  (forall k' v, P (k', v) -> P (k', f v)) -> Forall P l -> Forall P (upd k f l).
Proof.
  intros HP. induction 1 as [|[k2 v2] r H F IH]; cbn; auto.
  destruct (keqb k k2); constructor; auto.
Qed.
Lemma ksorted_upd k f l : ksorted l -> ksorted (upd k f l).
Proof.
  induction 1 as [|k2 v2 r F S IH]; cbn; [constructor|].
  destruct (keqb k k2); constructor; auto.
  apply Forall_upd; auto.
Qed.

Lemma lookup_filter (P : dkey * A -> bool) k l : ksorted l ->
  lookup k (filter P l) = match lookup k l with Some v => if P (k, v) then Some v else None | None => None end.
Proof.
  induction 1 as [|k2 v2 r F S IH]; cbn; auto.
  destruct (keqb k k2) eqn:E.
  - apply keqb_eq in E; subst k2. destruct (P (k, v2)) eqn:HP; cbn.
    + now rewrite keqb_refl.
    + rewrite IH. now rewrite (Forall_lt_lookup _ _ F).
  - destruct (P (k2, v2)); cbn; [rewrite E|]; auto.
Qed.

Lemma filter_ins_false (P : dkey * A -> bool) k v l : P (k, v) = false -> filter P (ins k v l) = filter P l.
Proof.
  intros HP. induction l as [|[k2 v2] r IH]; cbn.
  - now rewrite HP.
  - destruct (kltb k k2); cbn; [now rewrite HP|]. now rewrite IH.
Qed.
Lemma upd_absent k f l : lookup k l = None -> upd k f l = l.
Proof.
  induction l as [|[k2 v2] r IH]; cbn; auto.
  destruct (keqb k k2); [discriminate|]. intros H. now rewrite IH.
Qed.
Lemma filter_upd_same (P : dkey * A -> bool) k f l : ksorted l ->
  (forall v, lookup k l = Some v -> P (k, f v) = P (k, v)) -> filter P (upd k f l) = upd k f (filter P l).
Proof.
  intros S. induction S as [|k2 v2 r F S IH]; cbn; auto. intros HP.
  destruct (keqb k k2) eqn:E; cbn.
  - apply keqb_eq in E; subst k2. rewrite (HP v2 eq_refl). destruct (P (k, v2)); cbn; [now rewrite keqb_refl|].
    symmetry. apply upd_absent.
    rewrite lookup_filter by auto. now rewrite (Forall_lt_lookup _ _ F).
  - destruct (P (k2, v2)); cbn; [rewrite E|]; now rewrite IH.
Qed.
Lemma ins_head k v l : Forall (fun e => kltb k (fst e) = true) l -> ins k v l = (k, v) :: l.
Proof. destruct 1 as [|[k2 v2] r H F]; cbn; auto. cbn in H. now rewrite H. Qed.
Lemma Forall_filter (Q : dkey * A -> Prop) (P : dkey * A -> bool) l : Forall Q l -> Forall Q (filter P l).
Proof. induction 1; cbn; auto. destruct (P x); auto. Qed.
(* an invisible entry becomes visible: in the filtered list it appears at its place in key order *)
Lemma filter_upd_appear (P : dkey * A -> bool) k f l v : ksorted l -> lookup k l = Some v ->
  P (k, v) = false -> P (k, f v) = true -> filter P (upd k f l) = ins k (f v) (filter P l).
Proof.
  intros S. induction S as [|k2 v2 r F S IH]; cbn; [discriminate|].
  destruct (keqb k k2) eqn:E; intros H HP HP'.
  - apply keqb_eq in E; subst k2. injection H as ->. cbn. rewrite HP, HP'.
    symmetry. apply ins_head. now apply Forall_filter.
  - assert (L : kltb k k2 = false).
    { destruct (kltb k k2) eqn:L; auto. exfalso.
      assert (lookup k r = None).
      { apply Forall_lt_lookup. eapply Forall_impl; [|exact F]. intros e He. eapply kltb_trans; eauto. }
      congruence. }
    cbn. destruct (P (k2, v2)); cbn; rewrite IH by auto; auto. now rewrite L.
Qed.
End Assoc.
Arguments ksorted {A} _.

(* ------------------------------------------------------------------ alignment of two key-ordered lists *)
Section Align.
Context {A B : Type} (R : dkey -> A -> B -> Prop).
Definition aligned (l : list (dkey * A)) (m : list (dkey * B)) : Prop :=
  Forall2 (fun x y => fst x = fst y /\ R (fst x) (snd x) (snd y)) l m.

Lemma aligned_lookup k l m : aligned l m ->
  match lookup k l, lookup k m with
  | Some a, Some b => R k a b
  | None, None => True
  | _, _ => False
  end.
Proof.
  induction 1 as [|[k1 a] [k2 b] l m [E H] F IH]; cbn; auto.
  cbn in E, H; subst k2. destruct (keqb k k1) eqn:EE; auto. apply keqb_eq in EE; subst; auto.
Qed.
Lemma aligned_ins k a b l m : aligned l m -> R k a b -> aligned (ins k a l) (ins k b m).
Proof.
  induction 1 as [|[k1 a1] [k2 b1] l m [E H] F IH]; cbn; intros HR.
  - constructor; auto.
  - cbn in E; subst k2. destruct (kltb k k1).
    + constructor; [split; auto|]. constructor; [split; auto|auto].
    + constructor; [split; auto|]. apply IH; auto.
Qed.
Lemma aligned_upd k f g l m : aligned l m ->
  (forall a b, R k a b -> R k (f a) (g b)) -> aligned (upd k f l) (upd k g m).
Proof.
  induction 1 as [|[k1 a1] [k2 b1] l m [E H] F IH]; cbn; intros HR; [constructor|].
  cbn in E; subst k2. destruct (keqb k k1) eqn:EE.
  - apply keqb_eq in EE; subst k1. constructor; [split; cbn; auto|auto].
  - constructor; [split; cbn; auto|apply IH; auto].
Qed.
Lemma aligned_upd_left k f l m : aligned l m ->
  (forall a b, R k a b -> R k (f a) b) -> aligned (upd k f l) m.
Proof.
  induction 1 as [|[k1 a1] [k2 b1] l m [E H] F IH]; cbn; intros HR; [constructor|].
  cbn in E; subst k2. destruct (keqb k k1) eqn:EE.
  - apply keqb_eq in EE; subst k1. constructor; [split; cbn; auto|auto].
  - constructor; [split; cbn; auto|apply IH; auto].
Qed.
End Align.
